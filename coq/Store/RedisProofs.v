(* RedisProofs: on redis-safe operation instances the Redis store model takes
   exactly the step of the abstract specification (same state, same result up
   to the error kind). *)
From Coq Require Import List Bool ZArith String Lia.
From Verif Require Import Base.RunLib Store.KVPrims Store.KVLemmas Store.Ops Store.Status Store.Spec
  Store.EtcdModel Store.RedisModel Store.Case Store.EtcdProofs.
Import ListNotations.
Local Open Scope Z_scope.

Definition sim {X} (a b : X + err) : Prop :=
  match a, b with inl x, inl y => x = y | inr _, inr _ => True | _, _ => False end.
Definition res_equiv (a b : result) : Prop :=
  match a, b with
  | ROk p, ROk q => p = q
  | RErr _, RErr _ => True
  | RPanic, RPanic => True
  | _, _ => False
  end.
Lemma res_equiv_refl : forall r, res_equiv r r.
Proof. destruct r; simpl; auto. Qed.
Lemma sim_refl : forall {X} (a : X + err), sim a a.
Proof. destruct a; simpl; auto. Qed.

Section Reads.
  Variable s : rstate.
  Hypothesis ND : NoDup (map fst (r_kv s)).
  Let v := s_view s.

  Lemma view_mapv : s_view s = mapv s_val (r_kv s).
  Proof. reflexivity. Qed.
  Lemma nd_view : NoDup (map fst v).
  Proof. unfold v. rewrite view_mapv, keys_mapv. exact ND. Qed.
  Lemma r_get_view : forall k, r_get s k = lookup v k.
  Proof. intro k. unfold v, r_get. rewrite view_mapv, lookup_mapv. reflexivity. Qed.
  Lemma r_get_one_sim : forall k, sim (r_get_one s k) (v_get_one v k).
  Proof. intro k. unfold r_get_one, v_get_one. rewrite r_get_view. destruct (lookup v k); simpl; auto. Qed.
  Lemma has_status_eq : forall n, r_has_status s n = v_has_status v n.
  Proof.
    intro n. unfold r_has_status, v_has_status. pose proof (r_get_one_sim (KNStatus n)) as S.
    destruct (r_get_one s (KNStatus n)), (v_get_one v (KNStatus n)); simpl in S; try contradiction; reflexivity.
  Qed.

  Lemma put_absent : forall {V} (m : list (key * V)) k x, ~ In k (map fst m) -> put m k x = m ++ [(k, x)].
  Proof.
    induction m as [|[k0 v0] t IH]; intros k x H; simpl in *; [reflexivity|].
    destruct (key_eqb k k0) eqn:E; [apply key_eqb_eq in E; subst; tauto|].
    f_equal. apply IH. tauto.
  Qed.

  Lemma r_get_multi_spec : forall ks acc, NoDup ks -> (forall k, In k ks -> ~ In k (map fst acc)) ->
    match v_get_multi v ks with
    | inl vals => r_get_multi s ks acc = inl (acc ++ combine ks vals) /\ List.length vals = List.length ks
    | inr _ => exists e, r_get_multi s ks acc = inr e
    end.
  Proof.
    induction ks as [|k t IH]; intros acc NDk DIS; simpl.
    - rewrite app_nil_r. auto.
    - rewrite r_get_view. unfold v_get_one. destruct (lookup v k) as [x|] eqn:L; [|eauto].
      inversion NDk as [|? ? NI NDt]; subst.
      specialize (IH (put acc k x) NDt).
      rewrite put_absent in IH by (apply DIS; left; reflexivity).
      assert (D' : forall k0, In k0 t -> ~ In k0 (map fst (acc ++ [(k, x)]))).
      { intros k0 H0 HI. rewrite map_app in HI. apply in_app_or in HI. destruct HI as [HI | HI].
        - eapply DIS; [right; exact H0 | exact HI].
        - simpl in HI. destruct HI as [HI | []]. subst. contradiction. }
      specialize (IH D'). rewrite put_absent by (apply DIS; left; reflexivity).
      destruct (v_get_multi v t) as [vals|e].
      + destruct IH as [IH1 IH2]. split; [|simpl; lia]. rewrite IH1, <- app_assoc. reflexivity.
      + exact IH.
  Qed.
  Lemma combine_snd : forall {A B} (l1 : list A) (l2 : list B),
    List.length l2 = List.length l1 -> map snd (combine l1 l2) = l2.
  Proof. induction l1 as [|a t IH]; destruct l2 as [|b u]; simpl; intro H; try discriminate; auto. f_equal. apply IH. lia. Qed.

  Lemma get_multi_vals : forall ks, NoDup ks ->
    match v_get_multi v ks with
    | inl vals => exists kvs, r_get_multi s ks [] = inl kvs /\ map snd kvs = vals
    | inr _ => exists e, r_get_multi s ks [] = inr e
    end.
  Proof.
    intros ks NDk. pose proof (r_get_multi_spec ks [] NDk (fun _ _ H => H)) as P.
    destruct (v_get_multi v ks) as [vals|e]; [|exact P].
    destruct P as [P1 P2]. exists (combine ks vals). split; [exact P1 | apply combine_snd; exact P2].
  Qed.

  (* sorted scans *)
  Lemma in_ins : forall {V} (x a : key * V) l, In x (ins a l) <-> x = a \/ In x l.
  Proof.
    induction l as [|y t IH]; simpl; [intuition|].
    destruct (key_leb (fst a) (fst y)); simpl; [intuition|]. rewrite IH. intuition.
  Qed.
  Lemma in_isort : forall {V} (x : key * V) l, In x (isort l) <-> In x l.
  Proof. induction l as [|y t IH]; simpl; [tauto|]. rewrite in_ins, IH. intuition. Qed.
  Lemma keys_ins : forall {V} (a : key * V) l x, In x (map fst (ins a l)) <-> x = fst a \/ In x (map fst l).
  Proof.
    induction l as [|y t IH]; intro x; simpl; [intuition|].
    destruct (key_leb (fst a) (fst y)); simpl; [intuition|]. rewrite IH. intuition.
  Qed.
  Lemma nodup_ins : forall {V} (a : key * V) l, NoDup (map fst l) -> ~ In (fst a) (map fst l) -> NoDup (map fst (ins a l)).
  Proof.
    induction l as [|y t IH]; intros N NI; simpl.
    - constructor; [simpl; tauto | constructor].
    - destruct (key_leb (fst a) (fst y)); simpl.
      + constructor; assumption.
      + inversion N; subst. constructor.
        * rewrite keys_ins. intros [H | H]; [apply NI; left; auto | contradiction].
        * apply IH; auto. intro H. apply NI. right. exact H.
  Qed.
  Lemma nodup_isort : forall {V} (l : list (key * V)), NoDup (map fst l) -> NoDup (map fst (isort l)).
  Proof.
    induction l as [|y t IH]; intro N; simpl; [constructor|].
    inversion N; subst. apply nodup_ins; auto.
    intro H. apply in_map_iff in H. destruct H as [z [Z1 Z2]]. apply (proj1 (in_isort z t)) in Z2.
    match goal with H : ~ In _ _ |- _ => apply H end. rewrite <- Z1. apply in_map. exact Z2.
  Qed.
  Lemma nodup_scan : forall p, NoDup (map fst (v_range v p)).
  Proof. intro p. unfold v_range, scan. apply nodup_isort. apply nodup_filter. exact nd_view. Qed.
  Lemma scan_lookup : forall p k x, In (k, x) (v_range v p) -> lookup v k = Some x.
  Proof.
    intros p k x H. unfold v_range, scan in H. apply (proj1 (in_isort _ _)) in H. apply filter_In in H. destruct H as [H _].
    apply in_nodup_lookup; [exact nd_view | exact H].
  Qed.
  Lemma r_scan_view : forall p, r_scan s p = map fst (v_range v p).
  Proof. intro p. unfold r_scan, v_range, v. rewrite view_mapv, scan_mapv, keys_mapv. reflexivity. Qed.

  Lemma get_multi_of_list : forall kvs, (forall k x, In (k, x) kvs -> lookup v k = Some x) ->
    v_get_multi v (map fst kvs) = inl (map snd kvs).
  Proof.
    induction kvs as [|[k x] t IH]; intro H; simpl; [reflexivity|].
    unfold v_get_one. rewrite (H k x (or_introl eq_refl)). rewrite IH; [reflexivity|].
    intros k0 x0 H0. apply H. right. exact H0.
  Qed.
  Lemma combine_fst_snd : forall {A B} (l : list (A * B)), combine (map fst l) (map snd l) = l.
  Proof. induction l as [|[a b] t IH]; simpl; [reflexivity | f_equal; exact IH]. Qed.
  Lemma nodup_firstn : forall {A} n (l : list A), NoDup l -> NoDup (firstn n l).
  Proof.
    induction n as [|n IH]; intros l N; simpl; [constructor|]. destruct l as [|a t]; [constructor|].
    inversion N; subst. constructor; [|apply IH; assumption].
    intro H. match goal with H0 : ~ In a t |- _ => apply H0 end. clear -H. revert t H.
    induction n as [|n IHn]; intros t H; simpl in H; [contradiction|]. destruct t as [|b u]; [contradiction|].
    destruct H as [H | H]; [left; exact H | right; apply IHn; exact H].
  Qed.
End Reads.

Section Reads2.
  Variable s : rstate.
  Hypothesis ND : NoDup (map fst (r_kv s)).
  Local Notation v := (s_view s).

  Lemma take_limit_map : forall {A B} (f : A -> B) limit l, take_limit limit (map f l) = map f (take_limit limit l).
  Proof. intros. unfold take_limit. destruct (0 <? limit); [apply firstn_map | reflexivity]. Qed.
  Lemma in_take_limit : forall {A} limit (l : list A) x, In x (take_limit limit l) -> In x l.
  Proof.
    intros A limit l x. unfold take_limit. destruct (0 <? limit); [|auto].
    generalize (Z.to_nat limit). intro n. revert l. induction n as [|n IH]; intros l H; simpl in H; [contradiction|].
    destruct l as [|a t]; [contradiction|]. destruct H as [H | H]; [left; exact H | right; apply IH; exact H].
  Qed.

  (* getByKeyPattern returns exactly the (limited) sorted range *)
  Lemma by_pattern_eq : forall p limit, r_by_pattern s p limit = inl (take_limit limit (v_range v p)).
  Proof.
    intros p limit. unfold r_by_pattern. rewrite (r_scan_view s), take_limit_map.
    set (kvs := take_limit limit (v_range v p)).
    assert (NDk : NoDup (map fst kvs)).
    { unfold kvs, take_limit. destruct (0 <? limit); [|apply (nodup_scan s ND)].
      rewrite <- firstn_map. apply nodup_firstn. apply (nodup_scan s ND). }
    assert (LK : forall k x, In (k, x) kvs -> lookup v k = Some x).
    { intros k x H. apply (scan_lookup s ND p). eapply in_take_limit. exact H. }
    pose proof (r_get_multi_spec s (map fst kvs) [] NDk (fun _ _ H => H)) as P. 
    rewrite (get_multi_of_list s kvs LK) in P. destruct P as [P _]. rewrite P. simpl.
    rewrite combine_fst_snd. reflexivity.
  Qed.

  Lemma do_get_nodes_ext : forall f g vals flt all, (forall n, f n = g n) -> do_get_nodes f vals flt all = do_get_nodes g vals flt all.
  Proof.
    intros f g vals flt all E. unfold do_get_nodes. destruct (unmarshal_nodes vals); [|reflexivity].
    f_equal. f_equal. apply map_ext. intro nd. unfold node_view. rewrite E. reflexivity.
  Qed.

  Lemma nodes_of_pod_eq : forall p flt all, r_nodes_of_pod s p flt all = v_nodes_of_pod v p flt all.
  Proof.
    intros. unfold r_nodes_of_pod, v_nodes_of_pod. rewrite by_pattern_eq. unfold take_limit. simpl.
    apply do_get_nodes_ext. apply (has_status_eq s).
  Qed.
  Lemma all_pods_eq : r_all_pods s = v_all_pods v.
  Proof. unfold r_all_pods, v_all_pods. rewrite by_pattern_eq. reflexivity. Qed.
  Lemma nodes_of_pods_eq : forall ps flt all, r_nodes_of_pods s ps flt all = v_nodes_of_pods v ps flt all.
  Proof. induction ps as [|p t IH]; intros; simpl; [reflexivity|]. rewrite nodes_of_pod_eq, IH. reflexivity. Qed.
  Lemma get_nodes_by_pod_eq : forall p flt all, r_get_nodes_by_pod s p flt all = v_get_nodes_by_pod v p flt all.
  Proof.
    intros. unfold r_get_nodes_by_pod, v_get_nodes_by_pod. rewrite nodes_of_pod_eq, all_pods_eq.
    destruct (negb (name_eqb p ""%string)); [reflexivity|]. destruct (v_all_pods v); [apply nodes_of_pods_eq | reflexivity].
  Qed.

  Lemma nodup_map_inj : forall {A B} (f : A -> B) l, (forall x y, f x = f y -> x = y) -> NoDup l -> NoDup (map f l).
  Proof.
    induction l as [|a t IH]; intros INJ N; simpl; [constructor|]. inversion N; subst. constructor; [|auto].
    intro H. apply in_map_iff in H. destruct H as [x [E HI]]. apply INJ in E. subst. contradiction.
  Qed.
  Lemma nodup_b_NoDup : forall l, nodup_b l = true -> NoDup l.
  Proof.
    induction l as [|a t IH]; intro H; simpl in H; [constructor|]. apply andb_true_iff in H. destruct H as [H1 H2].
    constructor; [|auto]. intro HI. apply negb_true_iff in H1.
    assert (existsb (name_eqb a) t = true) by (apply existsb_exists; exists a; split; [exact HI | apply name_eqb_refl]).
    congruence.
  Qed.

  Lemma get_nodes_sim : forall ns, NoDup ns -> sim (r_get_nodes s ns) (v_get_nodes v ns).
  Proof.
    intros ns N. unfold r_get_nodes, v_get_nodes.
    assert (NK : NoDup (map KNode ns)) by (apply nodup_map_inj; [intros x y E; inversion E; reflexivity | exact N]).
    pose proof (get_multi_vals s (map KNode ns) NK) as P. 
    destruct (v_get_multi v (map KNode ns)) as [vals|e].
    - destruct P as [kvs [P1 P2]]. rewrite P1, P2. rewrite (do_get_nodes_ext _ (v_has_status v)) by (apply (has_status_eq s)).
      apply sim_refl.
    - destruct P as [e' P]. rewrite P. exact I.
  Qed.
  Lemma get_nodes_first : forall n, sim (r_get_nodes s [n]) (v_get_nodes v [n]).
  Proof. intro n. apply get_nodes_sim. constructor; [simpl; tauto | constructor]. Qed.

  (* bindWorkloadsAdditions *)
  Lemma nodup_snoc : forall {A} (l : list A) x, NoDup l -> ~ In x l -> NoDup (l ++ [x]).
  Proof.
    induction l as [|a t IH]; intros x N NI; simpl; [constructor; [simpl; tauto | constructor]|].
    inversion N; subst. constructor.
    - intro H. apply in_app_or in H. destruct H as [H | [H | []]]; [contradiction | subst; apply NI; left; reflexivity].
    - apply IH; auto. intro H. apply NI. right. exact H.
  Qed.
  Lemma collect_nodup : forall ws sk seen sk' names,
    NoDup seen -> collect_additions ws sk seen = inl (sk', names) -> NoDup names.
  Proof.
    induction ws as [|w t IH]; intros sk seen sk' names N H; simpl in H.
    - inversion H; subst. exact N.
    - destruct (w_parse w) as [[a e]|]; [|discriminate]. eapply IH; [|exact H].
      destruct (existsb (name_eqb (w_node w)) seen) eqn:E; [exact N|].
      apply nodup_snoc; [exact N|]. intro H1.
      assert (existsb (name_eqb (w_node w)) seen = true) by (apply existsb_exists; exists (w_node w); split; [exact H1 | apply name_eqb_refl]).
      congruence.
  Qed.
  Lemma attach_ext : forall g1 g2 ns sk ws, (forall k, g1 k = g2 k) ->
    attach_additions g1 ns sk ws = attach_additions g2 ns sk ws.
  Proof.
    intros g1 g2 ns sk. induction ws as [|w t IH]; intro E; simpl; [reflexivity|].
    rewrite IH by exact E. destruct (nassoc (w_id w) sk) as [k|]; [rewrite E|]; reflexivity.
  Qed.
  Lemma bind_additions_sim : forall ws, sim (r_bind_additions s ws) (v_bind_additions v ws).
  Proof.
    intro ws. unfold r_bind_additions, v_bind_additions, bind_additions.
    destruct (collect_additions ws [] []) as [[sk names]|e] eqn:C; [|exact I].
    assert (N : NoDup names) by (eapply collect_nodup; [constructor | exact C]).
    pose proof (get_nodes_sim names N) as G.
    destruct (r_get_nodes s names) as [ns1|e1], (v_get_nodes v names) as [ns2|e2]; simpl in G; try contradiction; [|exact I].
    subst ns2. rewrite (attach_ext (r_get s) (lookup v)) by (apply (r_get_view s)). apply sim_refl.
  Qed.
  Lemma sim_bind : forall {X Y} (a b : X + err) (f g : X -> Y + err),
    sim a b -> (forall x, sim (f x) (g x)) ->
    sim (match a with inl x => f x | inr e => inr e end) (match b with inl x => g x | inr e => inr e end).
  Proof. intros X Y a b f g S F. destruct a, b; simpl in *; try contradiction; [subst; apply F | exact I]. Qed.

  Lemma get_workloads_sim : forall ids, NoDup ids -> sim (r_get_workloads s ids) (v_get_workloads v ids).
  Proof.
    intros ids N. unfold r_get_workloads, v_get_workloads.
    assert (NK : NoDup (map KWl ids)) by (apply nodup_map_inj; [intros x y E; inversion E; reflexivity | exact N]).
    pose proof (get_multi_vals s (map KWl ids) NK) as P. 
    destruct (v_get_multi v (map KWl ids)) as [vals|e].
    - destruct P as [kvs [P1 P2]]. rewrite P1, P2. destruct (unmarshal_workloads vals); [apply bind_additions_sim | exact I].
    - destruct P as [e' P]. rewrite P. exact I.
  Qed.
  Lemma list_sim : forall p limit flt, sim (r_list s p limit flt) (v_list v p limit flt).
  Proof.
    intros. unfold r_list, v_list. rewrite by_pattern_eq.
    destruct (unmarshal_workloads (map snd (take_limit limit (v_range v p)))); [apply bind_additions_sim | exact I].
  Qed.

  Lemma res_nodes_sim : forall a b, sim a b -> res_equiv (res_nodes a) (res_nodes b).
  Proof. intros [x|e] [y|f] S; simpl in *; try contradiction; auto. congruence. Qed.
  Lemma res_wls_sim : forall a b, sim a b -> res_equiv (res_wls a) (res_wls b).
  Proof. intros [x|e] [y|f] S; simpl in *; try contradiction; auto. congruence. Qed.
  Lemma res_first_node_sim : forall a b, sim a b -> res_equiv (res_first_node a) (res_first_node b).
  Proof. intros [x|e] [y|f] S; simpl in *; try contradiction; auto. subst. destruct y; simpl; auto. Qed.
  Lemma res_first_wl_sim : forall a b, sim a b -> res_equiv (res_first_wl a) (res_first_wl b).
  Proof. intros [x|e] [y|f] S; simpl in *; try contradiction; auto. subst. destruct y; simpl; auto. Qed.
  Lemma res_first_wl_status_sim : forall a b, sim a b -> res_equiv (res_first_wl_status a) (res_first_wl_status b).
  Proof. intros [x|e] [y|f] S; simpl in *; try contradiction; auto. subst. destruct y; simpl; auto. Qed.

  (* every read-only method *)
  Lemma read_refines : forall o r, redis_safe s o = true -> read_op v o = Some r ->
    fst (rstep s o) = s /\ res_equiv (snd (rstep s o)) r.
  Proof.
    intros o r SAFE R. destruct o; cbn [read_op] in R; try discriminate R; cbn [rstep fst snd].
    - (* GetPod *) inversion R; subst. split; [destruct (r_get_one s (KPod p)) as [[]|]; reflexivity|].
      pose proof (r_get_one_sim s (KPod p)) as S. 
      destruct (r_get_one s (KPod p)) as [x|e], (v_get_one v (KPod p)) as [y|f]; simpl in S; try contradiction.
      + subst. destruct y; simpl; auto.
      + simpl. exact I.
    - (* GetAllPods *) inversion R; subst. split; [reflexivity|]. rewrite all_pods_eq. apply res_equiv_refl.
    - (* GetNode *) inversion R; subst. split; [reflexivity|]. apply res_first_node_sim. apply get_nodes_first.
    - (* GetNodes *) inversion R; subst. split; [reflexivity|]. apply res_nodes_sim. apply get_nodes_sim.
      apply nodup_b_NoDup. exact SAFE.
    - (* GetNodesByPod *) inversion R; subst. split; [reflexivity|]. rewrite get_nodes_by_pod_eq. apply res_equiv_refl.
    - (* GetNodeStatus *) inversion R; subst. split; [destruct (r_get_one s (KNStatus n)) as [[]|]; reflexivity|].
      pose proof (r_get_one_sim s (KNStatus n)) as S. 
      destruct (r_get_one s (KNStatus n)) as [x|e], (v_get_one v (KNStatus n)) as [y|f]; simpl in S; try contradiction.
      + subst. destruct y; simpl; auto.
      + simpl. exact I.
    - (* LoadNodeCert *) inversion R; subst. split; [reflexivity|]. rewrite !(r_get_view s). apply res_equiv_refl.
    - (* GetWorkload *) inversion R; subst. split; [reflexivity|]. apply res_first_wl_sim. apply get_workloads_sim.
      constructor; [simpl; tauto | constructor].
    - (* GetWorkloads *) inversion R; subst. split; [reflexivity|]. apply res_wls_sim. apply get_workloads_sim.
      apply nodup_b_NoDup. exact SAFE.
    - (* GetWorkloadStatus *) inversion R; subst. split; [reflexivity|]. apply res_first_wl_status_sim. apply get_workloads_sim.
      constructor; [simpl; tauto | constructor].
    - (* ListWorkloads *) destruct (list_prefix a e n) as [[a' e'] n']. inversion R; subst. cbn [fst snd].
      split; [reflexivity|]. apply res_wls_sim. apply list_sim.
    - (* ListNodeWorkloads *) inversion R; subst. split; [reflexivity|]. apply res_wls_sim. apply list_sim.
    - (* GetDeployStatus *) inversion R; subst. rewrite !by_pattern_eq. unfold take_limit. simpl.
      split; [reflexivity | reflexivity].
  Qed.
End Reads2.

(* ---- writes ---- *)
Lemma r_set_put : forall s k v, r_set s k v 0 = s_put s k v None.
Proof. reflexivity. Qed.
Lemma r_set_put_ttl : forall s k v ttl, 0 < ttl -> r_set s k v ttl = s_put s k v (Some (r_now s + ttl)).
Proof. intros. unfold r_set, s_put. replace (0 <? ttl) with true by (symmetry; apply Z.ltb_lt; assumption). reflexivity. Qed.
Lemma multi_set_puts : forall data s, r_multi_set s data = s_puts s data.
Proof. induction data as [|d t IH]; intro s; simpl; [reflexivity | apply IH]. Qed.
Lemma batch_delete_dels : forall ks s, r_batch_delete s ks = s_dels s ks.
Proof. induction ks as [|k t IH]; intro s; simpl; [reflexivity | apply IH]. Qed.

Lemma mem_put_other : forall {V} (m : list (key * V)) k k' x, key_eqb k' k = false -> mem (put m k x) k' = mem m k'.
Proof. intros. unfold mem. rewrite lookup_put_other by assumption. reflexivity. Qed.

(* MULTI{SETNX...} when none of the (distinct) keys exists = atomic create *)
Lemma setnx_fold_absent : forall data s ok,
  NoDup (map fst data) -> (forall k, In k (map fst data) -> mem (r_kv s) k = false) ->
  fold_left (fun acc kv => let '(s, ok) := acc in
                           let '(s1, c) := r_setnx s (fst kv) (snd kv) in (s1, ok && c)) data (s, ok)
  = (s_puts s data, ok).
Proof.
  induction data as [|d t IH]; intros s ok N A; simpl; [reflexivity|].
  inversion N as [|? ? NI Nt]; subst.
  unfold r_setnx at 2. rewrite (A (fst d)) by (left; reflexivity). rewrite andb_true_r.
  change (mkRS (put (r_kv s) (fst d) (mkS (snd d) None)) (r_now s)) with (s_put s (fst d) (snd d) None).
  apply IH; [exact Nt|]. intros k H. unfold s_put. cbn [r_kv]. rewrite mem_put_other.
  - apply A. right. exact H.
  - apply key_eqb_false. intro E. subst. contradiction.
Qed.
(* ... and when all of them exist nothing changes *)
Lemma setnx_fold_present : forall data s ok,
  (forall k, In k (map fst data) -> mem (r_kv s) k = true) ->
  fold_left (fun acc kv => let '(s, ok) := acc in
                           let '(s1, c) := r_setnx s (fst kv) (snd kv) in (s1, ok && c)) data (s, ok)
  = (s, match data with [] => ok | _ => false end).
Proof.
  induction data as [|d t IH]; intros s ok A; simpl; [reflexivity|].
  unfold r_setnx at 2. rewrite (A (fst d)) by (left; reflexivity). rewrite andb_false_r.
  rewrite IH by (intros k H; apply A; right; exact H). destruct t; reflexivity.
Qed.
Lemma setnx_ignore_absent : forall data s,
  NoDup (map fst data) -> (forall k, In k (map fst data) -> mem (r_kv s) k = false) ->
  fold_left (fun s kv => fst (r_setnx s (fst kv) (snd kv))) data s = s_puts s data.
Proof.
  induction data as [|d t IH]; intros s N A; simpl; [reflexivity|].
  inversion N as [|? ? NI Nt]; subst.
  unfold r_setnx at 2. rewrite (A (fst d)) by (left; reflexivity). cbn [fst].
  change (mkRS (put (r_kv s) (fst d) (mkS (snd d) None)) (r_now s)) with (s_put s (fst d) (snd d) None).
  apply IH; [exact Nt|]. intros k H. unfold s_put. cbn [r_kv]. rewrite mem_put_other.
  - apply A. right. exact H.
  - apply key_eqb_false. intro E. subst. contradiction.
Qed.

Lemma existsb_false_all : forall {A} (f : A -> bool) l, existsb f l = false -> forall x, In x l -> f x = false.
Proof.
  induction l as [|a t IH]; intros H x HI; simpl in *; [contradiction|].
  apply orb_false_iff in H. destruct H. destruct HI; [subst; assumption | auto].
Qed.
Lemma forallb_true_all : forall {A} (f : A -> bool) l, forallb f l = true -> forall x, In x l -> f x = true.
Proof. intros A f l H x HI. rewrite forallb_forall in H. auto. Qed.

Lemma batch_create_safe : forall s data, data <> [] -> NoDup (map fst data) -> all_or_none s data = true ->
  r_batch_create s data = s_create s data.
Proof.
  intros s data NE N AON. unfold r_batch_create, s_create, all_or_none in *.
  destruct data as [|d t]; [contradiction|].
  destruct (existsb (s_mem s) (map fst (d :: t))) eqn:EX.
  - rewrite orb_false_r in AON.
    rewrite setnx_fold_present by (apply forallb_true_all; exact AON). reflexivity.
  - rewrite setnx_fold_absent; [reflexivity | exact N | apply existsb_false_all; exact EX].
Qed.

Lemma exists_count : forall s ks, (r_exists s ks =? Z.of_nat (List.length ks)) = forallb (s_mem s) ks.
Proof.
  intros s ks. unfold r_exists.
  assert (G : forall ks n, fold_left (fun n k => if mem (r_kv s) k then n + 1 else n) ks n <= n + Z.of_nat (List.length ks)
              /\ (fold_left (fun n k => if mem (r_kv s) k then n + 1 else n) ks n = n + Z.of_nat (List.length ks)
                  <-> forallb (s_mem s) ks = true)).
  { induction ks0 as [|k t IH]; intro n; simpl List.length; simpl fold_left; simpl forallb.
    - split; [lia | split; [reflexivity | intro; lia]].
    - unfold s_mem at 1. destruct (mem (r_kv s) k); simpl.
      + destruct (IH (n + 1)) as [I1 I2]. split; [lia|]. rewrite <- I2. lia.
      + destruct (IH n) as [I1 I2]. split; [lia|]. split; [intro; lia | intro; discriminate]. }
  destruct (G ks 0) as [_ G2]. simpl in G2.
  destruct (forallb (s_mem s) ks) eqn:F.
  - apply Z.eqb_eq. apply G2. reflexivity.
  - apply Z.eqb_neq. intro E. apply G2 in E. discriminate.
Qed.
Lemma batch_update_safe : forall s data, data <> [] -> r_batch_update s data = s_update s data.
Proof.
  intros s data NE. unfold r_batch_update, s_update. destruct data as [|d t]; [contradiction|].
  rewrite <- (map_length fst (d :: t)), exists_count.
  destruct (forallb (s_mem s) (map fst (d :: t))); simpl; [rewrite multi_set_puts|]; reflexivity.
Qed.

Lemma put_nonempty : forall {V} (m : list (key * V)) k x, put m k x <> [].
Proof. intros V m k x. destruct m as [|[k0 v0] t]; simpl; [discriminate|]. destruct (key_eqb k k0); discriminate. Qed.
Lemma nodup_dput_if : forall d k sx, NoDup (map fst d) -> NoDup (map fst (dput_if d k sx)).
Proof. intros. unfold dput_if. destruct (name_eqb sx ""%string); [assumption | apply nodup_put; assumption]. Qed.
Lemma nodup_add_node : forall nd ca cert ky, NoDup (map fst (add_node_data nd ca cert ky)).
Proof.
  intros. unfold add_node_data, dput.
  repeat first [apply nodup_put | apply nodup_dput_if]. constructor.
Qed.
Lemma nodup_workload : forall w a e, NoDup (map fst (workload_data w a e)).
Proof. intros. unfold workload_data, dput. repeat apply nodup_put. constructor. Qed.
Lemma update_nodes_nonempty : forall l, l <> [] -> update_nodes_data l <> [].
Proof.
  intros l NE. unfold update_nodes_data. destruct l as [|x t]; [contradiction|]. simpl.
  assert (G : forall t d, d <> [] ->
    fold_left (fun d x => let '(nd, ca, cert, ky) := x in
       let d := dput d (KNode (n_name nd)) (VNode nd) in
       let d := dput d (KNodePod (n_pod nd) (n_name nd)) (VNode nd) in
       let d := dput_if d (KCa (n_name nd)) ca in
       let d := dput_if d (KCert (n_name nd)) cert in
       dput_if d (KKey (n_name nd)) ky) t d <> []).
  { induction t0 as [|[[[nd ca] cert] ky] u IH]; intros d ND; simpl; [exact ND|].
    apply IH. unfold dput_if, dput.
    repeat match goal with |- context [if ?c then _ else _] => destruct c end; apply put_nonempty. }
  apply G. destruct x as [[[nd ca] cert] ky]. unfold dput_if, dput.
  repeat match goal with |- context [if ?c then _ else _] => destruct c end; first [apply put_nonempty | discriminate].
Qed.

Lemma put_comm_present : forall {V} (m : list (key * V)) k1 k2 v1 v2,
  key_eqb k1 k2 = false -> mem m k1 = true -> put (put m k1 v1) k2 v2 = put (put m k2 v2) k1 v1.
Proof.
  induction m as [|[k0 v0] t IH]; intros k1 k2 v1 v2 NE M; [discriminate|].
  unfold mem in M. cbn [lookup] in M.
  assert (NE' : key_eqb k2 k1 = false) by (rewrite key_eqb_sym; exact NE).
  destruct (key_eqb k1 k0) eqn:E1.
  - apply key_eqb_eq in E1. subst k0. cbn [put]. rewrite key_eqb_refl, NE'. cbn [put]. rewrite NE', key_eqb_refl. reflexivity.
  - cbn [put]. rewrite E1. destruct (key_eqb k2 k0) eqn:E2.
    + apply key_eqb_eq in E2. subst k0. cbn [put]. rewrite key_eqb_refl, NE. reflexivity.
    + cbn [put]. rewrite E1, E2. f_equal. apply IH; [exact NE | unfold mem; exact M].
Qed.

Lemma s_puts_app : forall d1 d2 s, s_puts s (d1 ++ d2) = s_puts (s_puts s d1) d2.
Proof. intros. unfold s_puts. apply fold_left_app. Qed.
Lemma mem_s_put_other : forall s k k' v ex, key_eqb k' k = false -> mem (r_kv (s_put s k v ex)) k' = mem (r_kv s) k'.
Proof. intros. unfold s_put. cbn [r_kv]. apply mem_put_other. assumption. Qed.
Lemma puts_comm : forall data s dk x,
  mem (r_kv s) dk = true -> (forall k, In k (map fst data) -> key_eqb dk k = false) ->
  s_puts (s_put s dk x None) data = s_put (s_puts s data) dk x None.
Proof.
  induction data as [|d t IH]; intros s dk x M NE; simpl; [reflexivity|].
  assert (E : key_eqb dk (fst d) = false) by (apply NE; left; reflexivity).
  replace (s_put (s_put s dk x None) (fst d) (snd d) None) with (s_put (s_put s (fst d) (snd d) None) dk x None).
  - apply IH.
    + rewrite mem_s_put_other; assumption.
    + intros k H. apply NE. right. exact H.
  - unfold s_put. cbn [r_kv r_now]. f_equal. symmetry. apply put_comm_present; assumption.
Qed.

Lemma create_and_decr_safe : forall s data dk c,
  lookup (r_kv s) dk = Some (mkS (VCnt c) None) -> NoDup (map fst data) ->
  existsb (s_mem s) (map fst data) = false -> (forall k, In k (map fst data) -> key_eqb dk k = false) ->
  r_batch_create_and_decr s data dk = (s_puts s (data ++ [(dk, VCnt (c - 1))]), None).
Proof.
  intros s data dk c L N EX NE. unfold r_batch_create_and_decr, r_decr. rewrite L.
  change (mkRS (put (r_kv s) dk (mkS (VCnt (c - 1)) None)) (r_now s)) with (s_put s dk (VCnt (c - 1)) None).
  rewrite setnx_ignore_absent; [|exact N|].
  - rewrite s_puts_app. simpl. rewrite puts_comm; [reflexivity | unfold mem; rewrite L; reflexivity | exact NE].
  - intros k H. rewrite mem_s_put_other.
    + apply (existsb_false_all _ _ EX). exact H.
    + rewrite key_eqb_sym. apply NE. exact H.
Qed.

Theorem rstep_refines : forall s o, NoDup (map fst (r_kv s)) -> redis_safe s o = true ->
  fst (rstep s o) = fst (spec_step s o) /\ res_equiv (snd (rstep s o)) (snd (spec_step s o)).
Proof.
  intros s o ND SAFE. unfold spec_step.
  destruct (read_op (s_view s) o) as [r|] eqn:R; [apply (read_refines s ND o r SAFE R)|].
  destruct o; cbn [read_op] in R; try discriminate R;
    try (destruct (list_prefix a e n) as [[? ?] ?]; discriminate R); cbn [rstep].
  - (* AddPod *)
    rewrite batch_create_safe.
    + destruct (s_create s [(KPod p, VPod p d)]) as [s' [e|]]; split; simpl; auto; try apply res_equiv_refl.
    + discriminate.
    + constructor; [simpl; tauto | constructor].
    + unfold all_or_none. simpl. destruct (s_mem s (KPod p)); reflexivity.
  - (* RemovePod *)
    rewrite (get_nodes_by_pod_eq s ND).
    destruct (v_get_nodes_by_pod (s_view s) p [] true) as [[|x t]|e];
      [|split; [reflexivity | first [exact I | apply res_equiv_refl]] | split; [reflexivity | first [exact I | apply res_equiv_refl]]].
    unfold s_mem. destruct (mem (r_kv s) (KPod p)) eqn:M; cbn [negb Z.eqb Pos.eqb fst snd].
    + split; [reflexivity | first [exact I | apply res_equiv_refl]].
    + split; [|first [exact I | apply res_equiv_refl]]. unfold r_del. rewrite del_absent; [destruct s; reflexivity|].
      unfold mem in M. destruct (lookup (r_kv s) (KPod p)); [discriminate | reflexivity].
  - (* AddNode *)
    cbn [redis_safe] in SAFE. pose proof (r_get_one_sim s (KPod (n_pod nd))) as S.
    unfold r_get_one, v_get_one in *. rewrite (r_get_view s) in *.
    destruct (lookup (s_view s) (KPod (n_pod nd))) as [[]|]; try (split; [reflexivity | first [exact I | apply res_equiv_refl]]).
    rewrite batch_create_safe; [| | apply nodup_add_node | exact SAFE].
    + destruct (s_create s (add_node_data nd ca cert key)) as [s' [e|]]; split; simpl; auto; try apply res_equiv_refl.
    + unfold add_node_data, dput. apply put_nonempty.
  - (* RemoveNode *) rewrite batch_delete_dels. split; [reflexivity | first [exact I | apply res_equiv_refl]].
  - (* UpdateNodes *)
    cbn [redis_safe] in SAFE. assert (NE : l <> []) by (destruct l; [discriminate | discriminate]).
    pose proof (update_nodes_nonempty l NE) as NE2. unfold r_batch_put. rewrite multi_set_puts.
    destruct (update_nodes_data l) as [|d0 t0]; [contradiction|]. split; [reflexivity | first [exact I | apply res_equiv_refl]].
  - (* SetNodeStatus *)
    cbn [redis_safe] in SAFE. unfold r_set_node_status.
    destruct (ttl =? 0) eqn:Z0; [split; [reflexivity | first [exact I | apply res_equiv_refl]]|].
    destruct (ttl <? 0) eqn:ZN; [split; [reflexivity | first [exact I | apply res_equiv_refl]]|].
    assert (T : 0 < ttl) by (apply Z.eqb_neq in Z0; apply Z.ltb_ge in ZN; lia).
    replace (0 <? ttl) with true in SAFE by (symmetry; apply Z.ltb_lt; exact T). rewrite SAFE.
    rewrite r_set_put_ttl by exact T. split; [reflexivity | first [exact I | apply res_equiv_refl]].
  - (* AddWorkload *)
    cbn [redis_safe] in SAFE. unfold r_ops_workload.
    destruct (w_parse w) as [[a e]|]; [|split; [reflexivity | first [exact I | apply res_equiv_refl]]].
    destruct pr as [p0|].
    + destruct (lookup (r_kv s) (proc_key p0)) as [[[] [ex|]]|] eqn:L; try discriminate SAFE.
      apply negb_true_iff in SAFE.
      rewrite (create_and_decr_safe s (workload_data w a e) (proc_key p0) z L (nodup_workload w a e) SAFE).
      * change (s_view s) with (mapv s_val (r_kv s)). rewrite lookup_mapv, L. cbn [option_map s_val fst snd]. split; [reflexivity | first [exact I | apply res_equiv_refl]].
      * intros k H. unfold workload_data, dput in H.
        repeat (apply in_keys_put in H; destruct H as [H | H]; [subst; reflexivity|]). contradiction.
    + rewrite batch_create_safe; [| | apply nodup_workload | exact SAFE].
      * destruct (s_create s (workload_data w a e)) as [s' [er|]]; split; simpl; auto; try apply res_equiv_refl.
      * unfold workload_data, dput. apply put_nonempty.
  - (* UpdateWorkload *)
    unfold r_ops_workload. destruct (w_parse w) as [[a e]|]; [|split; [reflexivity | first [exact I | apply res_equiv_refl]]].
    rewrite batch_update_safe by (unfold workload_data, dput; apply put_nonempty).
    destruct (s_update s (workload_data w a e)) as [s' [er|]]; split; simpl; auto; try apply res_equiv_refl.
  - (* RemoveWorkload *)
    destruct (w_parse w) as [[a e]|]; [|split; [reflexivity | first [exact I | apply res_equiv_refl]]].
    rewrite batch_delete_dels. split; [reflexivity | first [exact I | apply res_equiv_refl]].
  - (* SetWorkloadStatus *)
    cbn [redis_safe] in SAFE. unfold r_set_workload_status, r_bind_status.
    destruct (status_args_bad a e n); [split; [reflexivity | first [exact I | apply res_equiv_refl]]|].
    destruct (ttl =? 0) eqn:Z0.
    + apply Z.eqb_eq in Z0. subst ttl. cbn [negb andb res_of_bind]. rewrite r_set_put. split; [reflexivity | first [exact I | apply res_equiv_refl]].
    + assert (T : 0 < ttl) by (apply Z.eqb_neq in Z0; apply Z.leb_le in SAFE; lia).
      cbn [negb andb]. change [KWl (ws_id st)] with (map fst [(KWl (ws_id st), VBad ""%string)]).
      replace 1 with (Z.of_nat (List.length (map fst [(KWl (ws_id st), VBad ""%string)]))) by reflexivity.
      rewrite exists_count. cbn [map fst forallb]. rewrite andb_true_r.
      destruct (s_mem s (KWl (ws_id st))); cbn [negb res_of_bind].
      * rewrite r_set_put_ttl by exact T. split; [reflexivity | first [exact I | apply res_equiv_refl]].
      * split; [reflexivity | first [exact I | apply res_equiv_refl]].
  - (* CreateProcessing *)
    rewrite batch_create_safe.
    + destruct (s_create s [(proc_key pr, VCnt cnt)]) as [s' [e|]]; split; simpl; auto; try apply res_equiv_refl.
    + discriminate.
    + constructor; [simpl; tauto | constructor].
    + unfold all_or_none. simpl. destruct (s_mem s (proc_key pr)); reflexivity.
  - (* DeleteProcessing *) rewrite batch_delete_dels. split; [reflexivity | first [exact I | apply res_equiv_refl]].
  - (* Advance *) split; [reflexivity | first [exact I | apply res_equiv_refl]].
Qed.

(* ---- the key-uniqueness invariant is kept by the specification ---- *)
Lemma nodup_s_puts : forall data s, NoDup (map fst (r_kv s)) -> NoDup (map fst (r_kv (s_puts s data))).
Proof. induction data as [|d t IH]; intros s N; simpl; [exact N|]. apply IH. unfold s_put. cbn [r_kv]. apply nodup_put. exact N. Qed.
Lemma nodup_s_dels : forall ks s, NoDup (map fst (r_kv s)) -> NoDup (map fst (r_kv (s_dels s ks))).
Proof. induction ks as [|k t IH]; intros s N; simpl; [exact N|]. apply IH. cbn [r_kv]. apply nodup_del. exact N. Qed.
Lemma spec_nodup : forall s o, NoDup (map fst (r_kv s)) -> NoDup (map fst (r_kv (fst (spec_step s o)))).
Proof.
  intros s o N. unfold spec_step. destruct o; cbn [read_op]; try exact N;
    try (match goal with |- context [list_prefix ?a ?e ?n] => destruct (list_prefix a e n) as [[? ?] ?]; exact N end);
    unfold s_create, s_update;
    repeat match goal with
           | |- context [match ?x with _ => _ end] =>
               lazymatch x with
               | context [match _ with _ => _ end] => fail
               | _ => destruct x
               end
           end;
    cbn [fst res_unit]; try exact N;
    first [apply nodup_s_puts; exact N | apply nodup_s_dels; exact N
          | unfold s_put; cbn [r_kv]; apply nodup_put; exact N
          | unfold r_tick; cbn [r_kv]; apply nodup_filter; exact N].
Qed.

(* ---- histories ---- *)
Theorem rrun_refines : forall h s, NoDup (map fst (r_kv s)) -> safe_history s h = true ->
  fst (run rstep s h) = fst (run spec_step s h) /\
  Forall2 res_equiv (snd (run rstep s h)) (snd (run spec_step s h)).
Proof.
  induction h as [|o t IH]; intros s N SH; cbn [run]; [split; [reflexivity | constructor]|].
  cbn [safe_history] in SH. apply andb_true_iff in SH. destruct SH as [S1 S2].
  destruct (rstep_refines s o N S1) as [E1 E2]. pose proof (spec_nodup s o N) as N1.
  destruct (rstep s o) as [s1 r1]. destruct (spec_step s o) as [s1' r1']. cbn [fst snd] in *. subst s1'.
  destruct (IH s1 N1 S2) as [F1 F2].
  destruct (run rstep s1 t) as [s2 rs]. destruct (run spec_step s1 t) as [s2' rs']. cbn [fst snd] in *.
  split; [exact F1 | constructor; assumption].
Qed.
