(* BatchOpProofs: when is "one batch = one transaction" (EtcdModel) exact for
   meta/etcd.go doBatchOp with its split into commits of at most 125 operations? *)
From Coq Require Import List Bool ZArith String Arith Lia Permutation.
From Verif Require Import Base.RunLib Store.KVPrims Store.KVLemmas Store.Ops Store.Status Store.Spec
  Store.EtcdModel Store.EtcdProofs Store.BatchOp.
Import ListNotations.

Definition sum_len {A} (f : etxn -> list A) (ps : list etxn) : nat := List.length (flat_map f ps).

Lemma pack_fits : forall L ps cur ci ct ce,
  ci + sum_len t_if ps <= L -> ct + sum_len t_then ps <= L -> ce + sum_len t_else ps <= L ->
  pack L cur ci ct ce ps = [cur ++ ps].
Proof.
  intros L. induction ps as [|p t IH]; intros cur ci ct ce H1 H2 H3; cbn [pack].
  - rewrite app_nil_r. reflexivity.
  - unfold sum_len in *. cbn [flat_map] in *. rewrite app_length in *.
    replace (Nat.ltb L (ci + List.length (t_if p))) with false by (symmetry; apply Nat.ltb_ge; lia).
    replace (Nat.ltb L (ct + List.length (t_then p))) with false by (symmetry; apply Nat.ltb_ge; lia).
    replace (Nat.ltb L (ce + List.length (t_else p))) with false by (symmetry; apply Nat.ltb_ge; lia).
    cbn [orb]. rewrite IH by lia. rewrite <- app_assoc. reflexivity.
Qed.
Lemma pack_concat : forall L ps cur ci ct ce, List.concat (pack L cur ci ct ce ps) = cur ++ ps.
Proof.
  intros L. induction ps as [|p t IH]; intros; cbn [pack].
  - cbn. rewrite app_nil_r. reflexivity.
  - destruct (_ || _ || _); cbn [List.concat]; rewrite IH; [reflexivity | rewrite <- app_assoc; reflexivity].
Qed.

Lemma split_put_txns : forall L data lim, 1 <= L -> flat_map (split_txn L) (put_txns data lim) = put_txns data lim.
Proof.
  intros L data lim HL. induction data as [|d t IH]; [reflexivity|].
  cbn [put_txns map flat_map]. unfold split_txn at 1. cbn [t_then List.length].
  replace (Nat.leb 1 L) with true by (symmetry; apply Nat.leb_le; exact HL). cbn [app]. f_equal. exact IH.
Qed.
Lemma if_put_txns : forall data eq, flat_map t_if (put_txns data (Some eq)) = map (fun kv : key * value => CVer0 (fst kv) eq) data.
Proof. induction data as [|d t IH]; intros; [reflexivity|]. cbn. f_equal. apply IH. Qed.
Lemma if_put_txns_none : forall data, flat_map t_if (put_txns data None) = [].
Proof. induction data as [|d t IH]; [reflexivity|]. cbn. exact IH. Qed.
Lemma then_put_txns : forall data lim, flat_map t_then (put_txns data lim) = map (fun kv : key * value => TPut (fst kv) (snd kv) None) data.
Proof. induction data as [|d t IH]; intros; [reflexivity|]. cbn. f_equal. apply IH. Qed.
Lemma else_put_txns : forall data lim, flat_map t_else (put_txns data lim) = [].
Proof. induction data as [|d t IH]; intros; [reflexivity|]. cbn. apply IH. Qed.
Lemma sum_if_put : forall data lim, sum_len t_if (put_txns data lim) <= List.length data.
Proof. intros. unfold sum_len. destruct lim; [rewrite if_put_txns, map_length | rewrite if_put_txns_none]; cbn; lia. Qed.

(* (a) a batch of at most 125 keys is exactly one transaction: the model of EtcdModel.e_batch_put *)
Definition small_batch_stmt : Prop :=
  forall (order : list (list etxn) -> list (list etxn)) (s : estate) (data : list (key * value)) (lim : option bool),
    (forall l, Permutation (order l) l) ->
    data <> [] -> List.length data <= txn_limit ->
    match do_batch_op txn_limit order s (put_txns data lim), e_batch_put s data lim with
    | Some (s1, ok1), (s2, inl ok2) => s1 = s2 /\ ok1 = ok2
    | _, _ => False
    end.
Lemma small_batch_holds : small_batch_stmt.
Proof.
  intros order s data lim PO NE LEN. unfold do_batch_op, e_batch_put.
  destruct data as [|d t]; [contradiction|]. set (data := d :: t) in *.
  change (put_txns data lim) with (put_txns (d :: t) lim) at 1. cbn [put_txns map].
  fold (put_txns data lim). change (mkT _ _ _ :: map _ t) with (put_txns data lim).
  unfold commits. rewrite split_put_txns by (apply Nat.leb_le; reflexivity).
  rewrite pack_fits.
  - cbn [app]. assert (O1 : order [put_txns data lim] = [put_txns data lim]).
    { apply Permutation_length_1_inv. apply Permutation_sym. apply PO. }
    rewrite O1. cbn [run_commits]. unfold commit_group. rewrite then_put_txns, else_put_txns.
    assert (IFS : flat_map t_if (put_txns data lim) =
                  match lim with Some eq => map (fun kv : key * value => CVer0 (fst kv) eq) data | None => [] end).
    { destruct lim; [apply if_put_txns | apply if_put_txns_none]. }
    rewrite IFS.
    destruct (e_txn s match lim with Some eq => map (fun kv : key * value => CVer0 (fst kv) eq) data | None => [] end
                    (map (fun kv : key * value => TPut (fst kv) (snd kv) None) data) []) as [[s' ok] rs].
    split; [reflexivity | apply andb_true_r].
  - pose proof (sum_if_put data lim). lia.
  - unfold sum_len. rewrite then_put_txns, map_length. lia.
  - unfold sum_len. rewrite else_put_txns. cbn. apply Nat.le_0_l.
Qed.

(* ---- (b) condition-free batches (BatchPut: UpdateNodes) of any size ---- *)
Lemma lookup_view_e_put : forall kv k v k', 
  lookup (e_view (mkES (e_put kv k v None) [] 0%N 0%Z)) k' =
  if key_eqb k' k then Some v else lookup (e_view (mkES kv [] 0%N 0%Z)) k'.
Proof.
  intros. unfold e_view. cbn [e_kv]. change (map (fun kv0 : key * eentry => (fst kv0, e_val (snd kv0)))) with (mapv e_val).
  rewrite !lookup_mapv. unfold e_put. destruct (key_eqb k' k) eqn:E.
  - apply key_eqb_eq in E. subst. rewrite lookup_put_same. reflexivity.
  - rewrite lookup_put_other by exact E. reflexivity.
Qed.
Definition vw (kv : list (key * eentry)) : view := mapv e_val kv.
Lemma vw_e_put : forall kv k v k', lookup (vw (e_put kv k v None)) k' = if key_eqb k' k then Some v else lookup (vw kv) k'.
Proof.
  intros. unfold vw. rewrite !lookup_mapv. unfold e_put. destruct (key_eqb k' k) eqn:E.
  - apply key_eqb_eq in E. subst. rewrite lookup_put_same. reflexivity.
  - rewrite lookup_put_other by exact E. reflexivity.
Qed.
Lemma vw_e_puts : forall d kv k, NoDup (map fst d) ->
  lookup (vw (e_puts kv d)) k = match lookup d k with Some v => Some v | None => lookup (vw kv) k end.
Proof.
  induction d as [|[k0 v0] t IH]; intros kv k N; [reflexivity|].
  change (e_puts kv ((k0, v0) :: t)) with (e_puts (e_put kv k0 v0 None) t). cbn [lookup].
  inversion N as [|? ? NI Nt]; subst. rewrite IH by exact Nt.
  destruct (key_eqb k k0) eqn:E.
  - apply key_eqb_eq in E. subst. rewrite (notin_lookup_none t k0 NI). rewrite vw_e_put, key_eqb_refl. reflexivity.
  - destruct (lookup t k); [reflexivity|]. rewrite vw_e_put, E. reflexivity.
Qed.
Lemma lookup_perm : forall (d d' : list (key * value)) k, NoDup (map fst d) -> Permutation d d' -> lookup d k = lookup d' k.
Proof.
  intros d d' k N P. assert (N' : NoDup (map fst d')) by (eapply Permutation_NoDup; [apply Permutation_map; exact P | exact N]).
  destruct (lookup d k) as [v|] eqn:L.
  - symmetry. apply in_nodup_lookup; [exact N'|]. eapply Permutation_in; [exact P|]. apply lookup_in. exact L.
  - destruct (lookup d' k) as [v'|] eqn:L'; [|reflexivity].
    apply lookup_in in L'. apply (Permutation_in _ (Permutation_sym P)) in L'.
    rewrite (in_nodup_lookup d k v' N L') in L. discriminate.
Qed.

Definition cond_free (g : list etxn) : Prop := flat_map t_if g = [] /\ flat_map t_else g = [].
Lemma commit_cond_free : forall s g, cond_free g ->
  commit_group s g = (with_kv s (fst (exec_list (e_kv s) (flat_map t_then g))), true).
Proof.
  intros s g [CI CE]. unfold commit_group. rewrite e_txn_eq, CI, CE. cbv zeta. cbn [forallb].
  destruct (exec_list (e_kv s) (flat_map t_then g)). reflexivity.
Qed.
Lemma run_commits_cond_free : forall gs s, Forall cond_free gs ->
  run_commits s gs = (with_kv s (fst (exec_list (e_kv s) (flat_map t_then (List.concat gs)))), true).
Proof.
  induction gs as [|g t IH]; intros s F; cbn [run_commits List.concat flat_map].
  - cbn. rewrite with_kv_id. reflexivity.
  - inversion F; subst. rewrite (commit_cond_free s g) by assumption. rewrite IH by assumption.
    rewrite flat_map_app, exec_list_app. reflexivity.
Qed.
Lemma perm_concat : forall {A} (l l' : list (list A)), Permutation l l' -> Permutation (List.concat l) (List.concat l').
Proof.
  intros A l l' P. induction P; cbn [List.concat]; auto.
  - apply Permutation_app_head. exact IHP.
  - rewrite !app_assoc. apply Permutation_app_tail. apply Permutation_app_comm.
  - eapply Permutation_trans; eauto.
Qed.

(* UpdateNodes-style batches: whatever the number of keys and the order in which
   the commits land, the key-value content afterwards is that of one transaction *)
Definition big_put_stmt : Prop :=
  forall (order : list (list etxn) -> list (list etxn)) (s : estate) (data : list (key * value)),
    (forall l, Permutation (order l) l) -> data <> [] -> NoDup (map fst data) ->
    match do_batch_op txn_limit order s (put_txns data None) with
    | Some (s1, ok) =>
        ok = true /\ e_leases s1 = e_leases s /\ e_now s1 = e_now s /\
        forall k, lookup (e_view s1) k = lookup (e_view (fst (e_batch_put s data None))) k
    | None => False
    end.
Lemma big_put_holds : big_put_stmt.
Proof.
  intros order s data PO NE ND. unfold do_batch_op.
  destruct (put_txns data None) as [|t0 tl] eqn:PT; [destruct data; [contradiction | discriminate]|]. rewrite <- PT. clear PT t0 tl.
  set (gs := order (commits txn_limit (put_txns data None))).
  assert (CC : List.concat (commits txn_limit (put_txns data None)) = put_txns data None).
  { unfold commits. rewrite pack_concat, split_put_txns by (apply Nat.leb_le; reflexivity). reflexivity. }
  assert (PC : Permutation (List.concat gs) (put_txns data None)).
  { rewrite <- CC. apply perm_concat. apply PO. }
  assert (CF : Forall cond_free gs).
  { apply Forall_forall. intros g HG. assert (SUB : forall t, In t g -> In t (put_txns data None)).
    { intros t HT. eapply Permutation_in; [exact PC|]. apply in_concat. exists g. split; assumption. }
    split.
    - clear -SUB. induction g as [|t g IH]; [reflexivity|]. cbn [flat_map].
      assert (In t (put_txns data None)) by (apply SUB; left; reflexivity).
      unfold put_txns in H. apply in_map_iff in H. destruct H as [x [E _]]. subst t. cbn. apply IH. intros t' H'. apply SUB. right. exact H'.
    - clear -SUB. induction g as [|t g IH]; [reflexivity|]. cbn [flat_map].
      assert (In t (put_txns data None)) by (apply SUB; left; reflexivity).
      unfold put_txns in H. apply in_map_iff in H. destruct H as [x [E _]]. subst t. cbn. apply IH. intros t' H'. apply SUB. right. exact H'. }
  rewrite (run_commits_cond_free gs s CF).
  (* the operations executed are a permutation of the puts of data *)
  unfold put_txns in PC. apply Permutation_map_inv in PC. destruct PC as [d' [E PD]].
  fold (put_txns d' None) in E. rewrite E, then_put_txns.
  pose proof (exec_list_puts d' (e_kv s)) as Q. unfold puts_of in Q. rewrite Q.
  split; [reflexivity|]. split; [reflexivity|]. split; [reflexivity|].
  intro k. destruct data as [|d0 t0]; [contradiction|].
  destruct (batch_put_none_abs s d0 t0) as [BP _]. rewrite BP. cbn [fst].
  change (e_view (with_kv s (e_puts (e_kv s) d'))) with (vw (e_puts (e_kv s) d')).
  change (e_view (with_kv s (e_puts (e_kv s) (d0 :: t0)))) with (vw (e_puts (e_kv s) (d0 :: t0))).
  assert (ND' : NoDup (map fst d')) by (eapply Permutation_NoDup; [apply Permutation_map; exact PD | exact ND]).
  rewrite (vw_e_puts d' _ k ND'), (vw_e_puts (d0 :: t0) _ k ND).
  rewrite (lookup_perm (d0 :: t0) d' k ND PD). reflexivity.
Qed.

(* every conditioned batch a Store method builds is far below the limit *)
Lemma length_put_le : forall {V} (m : list (key * V)) k v, List.length (put m k v) <= S (List.length m).
Proof.
  induction m as [|[k0 v0] t IH]; intros; cbn; [lia|]. destruct (key_eqb k k0); cbn; [lia|]. specialize (IH k v). lia.
Qed.
Definition conditioned_batches_small_stmt : Prop :=
  (forall nd ca cert ky, List.length (add_node_data nd ca cert ky) <= 5) /\
  (forall w a e, List.length (workload_data w a e) <= 3).
Lemma conditioned_batches_small_holds : conditioned_batches_small_stmt.
Proof.
  split; intros.
  - unfold add_node_data, dput, dput_if.
    repeat match goal with |- context [if ?c then _ else _] => destruct c end;
    repeat (eapply Nat.le_trans; [apply length_put_le|]; apply le_n_S); cbn; lia.
  - unfold workload_data, dput.
    repeat (eapply Nat.le_trans; [apply length_put_le|]; apply le_n_S); cbn; lia.
Qed.

(* beyond the limit a conditioned batch would not be atomic (shown with limit 2):
   the first commit creates its keys although the second one fails *)
Local Open Scope string_scope.
Example split_loses_atomicity :
  let s := fst (e_batch_put e_init [(KPod "c", VPod "c" "")] None) in
  match do_batch_op 2 (fun l => l) s (put_txns [(KPod "a", VPod "a" ""); (KPod "b", VPod "b" ""); (KPod "c", VPod "c" "")] (Some true)) with
  | Some (s', ok) => ok = false /\ mem (e_kv s') (KPod "a") = true
  | None => False
  end.
Proof. vm_compute. split; reflexivity. Qed.
