(* ConcurrentProofs: C23 under two concurrent writers. *)
From Coq Require Import List Bool ZArith String Lia.
From Verif Require Import Base.RunLib Store.KVPrims Store.KVLemmas Store.Ops Store.Status Store.Spec
  Store.EtcdModel Store.RedisModel Store.Case Store.EtcdProofs Store.RedisProofs Store.C23Proofs Store.Concurrent.
Import ListNotations.
Local Open Scope Z_scope.

(* ---- the atomic steps run alone are the sequential methods ---- *)
Lemma cad_alone : forall data dk s,
  e_batch_create_and_decr s data dk =
  match cad_step data dk s CadStart with
  | (s1, pc1) => match cad_step data dk s1 pc1 with
                 | (s2, CadDone r) => (s2, r)
                 | (s2, _) => (s2, Some EOther)
                 end
  end.
Proof.
  intros data dk s. unfold e_batch_create_and_decr. cbn [cad_step].
  destruct (lookup (e_kv s) dk) as [e|] eqn:L; [|reflexivity].
  cbn [cad_step]. destruct (e_val e) eqn:EV; try reflexivity.
  rewrite e_txn_eq. cbv zeta. cbn [forallb eval_cmp]. rewrite L, EV. cbn [value_eqb]. rewrite Z.eqb_refl. cbn [andb].
  destruct (exec_list (e_kv s) (map (fun kv : key * value => TPut (fst kv) (snd kv) None) data ++ [TPut dk (VCnt (z - 1)) None])).
  reflexivity.
Qed.
Lemma upd_alone : forall data s,
  r_batch_update s data =
  match upd_step data s UpdStart with
  | (s1, pc1) => match upd_step data s1 pc1 with
                 | (s2, UpdDone r) => (s2, r)
                 | (s2, _) => (s2, Some EOther)
                 end
  end.
Proof.
  intros data s. unfold r_batch_update. cbn [upd_step].
  destruct (negb (r_exists s (map fst data) =? Z.of_nat (List.length data))); reflexivity.
Qed.

(* ---- etcd: two AddWorkload calls on one processing counter ---- *)
Definition commit (dk : key) (s : estate) (x : Z) (d : list (key * value)) : estate :=
  with_kv s (e_puts (e_kv s) (d ++ [(dk, VCnt (x - 1))])).

Lemma commit_counter : forall dk s x d,
  exists e, lookup (e_kv (commit dk s x d)) dk = Some e /\ e_val e = VCnt (x - 1).
Proof.
  intros. unfold commit. cbn [e_kv with_kv]. rewrite e_puts_app. cbn [e_puts fold_left fst snd]. unfold e_put.
  eexists. split; [apply lookup_put_same | reflexivity].
Qed.
Lemma cad_read : forall d dk s e, lookup (e_kv s) dk = Some e -> cad_step d dk s CadStart = (s, CadRead (e_val e)).
Proof. intros. cbn [cad_step]. rewrite H. reflexivity. Qed.
Lemma cad_txn_ok : forall d dk s e x, lookup (e_kv s) dk = Some e -> e_val e = VCnt x ->
  cad_step d dk s (CadRead (VCnt x)) = (commit dk s x d, CadDone None).
Proof.
  intros d dk s e x L EV. cbn [cad_step]. rewrite e_txn_eq. cbv zeta. cbn [forallb eval_cmp]. rewrite L, EV.
  cbn [value_eqb]. rewrite Z.eqb_refl. cbn [andb].
  pose proof (exec_list_app (map (fun kv : key * value => TPut (fst kv) (snd kv) None) d) [TPut dk (VCnt (x - 1)) None] (e_kv s)) as P.
  pose proof (exec_list_puts d (e_kv s)) as Q. unfold puts_of in Q. rewrite Q in P. cbn [exec_list exec_top fst] in P.
  destruct (exec_list (e_kv s) (map (fun kv : key * value => TPut (fst kv) (snd kv) None) d ++ [TPut dk (VCnt (x - 1)) None])) as [kv' rs].
  cbn [fst] in P. subst kv'. unfold commit. rewrite e_puts_app. reflexivity.
Qed.
Lemma cad_txn_stale : forall d dk s e x y, lookup (e_kv s) dk = Some e -> e_val e = VCnt x -> y <> x ->
  cad_step d dk s (CadRead (VCnt y)) = (s, CadRead (VCnt x)).
Proof.
  intros d dk s e x y L EV NE. cbn [cad_step]. rewrite e_txn_eq. cbv zeta. cbn [forallb eval_cmp]. rewrite L, EV.
  cbn [value_eqb]. replace (x =? y) with false by (symmetry; apply Z.eqb_neq; lia). cbn [andb exec_list exec_top].
  rewrite L, EV. destruct s; reflexivity.
Qed.

Section AddAdd.
  Variables (dA dB : list (key * value)) (dk : key) (s0 : estate) (e0 : eentry) (c : Z).
  Hypothesis L0 : lookup (e_kv s0) dk = Some e0.
  Hypothesis V0 : e_val e0 = VCnt c.
  Let stA := commit dk s0 c dA.
  Let stB := commit dk s0 c dB.
  Let stAB := commit dk stA (c - 1) dB.
  Let stBA := commit dk stB (c - 1) dA.

  Definition before (pc : cad_pc) : Prop := pc = CadStart \/ pc = CadRead (VCnt c).
  Definition between (pc : cad_pc) : Prop := pc = CadStart \/ pc = CadRead (VCnt c) \/ pc = CadRead (VCnt (c - 1)).
  Definition inv2 (s : estate) (pa pb : cad_pc) : Prop :=
    (s = s0 /\ before pa /\ before pb) \/
    (s = stA /\ pa = CadDone None /\ between pb) \/
    (s = stB /\ pb = CadDone None /\ between pa) \/
    (s = stAB /\ pa = CadDone None /\ pb = CadDone None) \/
    (s = stBA /\ pa = CadDone None /\ pb = CadDone None).

  Lemma done_noop : forall d s r, cad_step d dk s (CadDone r) = (s, CadDone r).
  Proof. reflexivity. Qed.

  Lemma inv2_stepA : forall s pa pb, inv2 s pa pb ->
    inv2 (fst (cad_step dA dk s pa)) (snd (cad_step dA dk s pa)) pb.
  Proof.
    intros s pa pb I. destruct (commit_counter dk s0 c dB) as [eB [LB VB]]. fold stB in LB.
    destruct I as [[E [PA PB]] | [[E [PA PB]] | [[E [PB PA]] | [[E [PA PB]] | [E [PA PB]]]]]]; subst s.
    - destruct PA as [PA | PA]; subst pa.
      + rewrite (cad_read dA dk s0 e0 L0), V0. cbn [fst snd]. left. repeat split; auto. right. reflexivity.
      + rewrite (cad_txn_ok dA dk s0 e0 c L0 V0). cbn [fst snd]. right. left. repeat split; auto.
        destruct PB as [PB | PB]; subst pb; [left | right; left]; reflexivity.
    - subst pa. rewrite done_noop. cbn [fst snd]. right. left. auto.
    - destruct PA as [PA | [PA | PA]]; subst pa.
      + rewrite (cad_read dA dk stB eB LB), VB. cbn [fst snd]. right. right. left. repeat split; auto. right. right. reflexivity.
      + rewrite (cad_txn_stale dA dk stB eB (c - 1) c LB VB) by lia. cbn [fst snd]. right. right. left. repeat split; auto. right. right. reflexivity.
      + rewrite (cad_txn_ok dA dk stB eB (c - 1) LB VB). cbn [fst snd]. right. right. right. right. auto.
    - subst pa. rewrite done_noop. cbn [fst snd]. right. right. right. left. auto.
    - subst pa. rewrite done_noop. cbn [fst snd]. right. right. right. right. auto.
  Qed.
End AddAdd.

Lemma inv2_sym : forall dA dB dk s0 c s pa pb, inv2 dA dB dk s0 c s pa pb -> inv2 dB dA dk s0 c s pb pa.
Proof.
  intros dA dB dk s0 c s pa pb I. unfold inv2 in *.
  destruct I as [[E [PA PB]] | [[E [PA PB]] | [[E [PB PA]] | [[E [PA PB]] | [E [PA PB]]]]]].
  - left. auto.
  - right. right. left. auto.
  - right. left. auto.
  - right. right. right. right. auto.
  - right. right. right. left. auto.
Qed.
Lemma inv2_stepB : forall dA dB dk s0 e0 c, lookup (e_kv s0) dk = Some e0 -> e_val e0 = VCnt c ->
  forall s pa pb, inv2 dA dB dk s0 c s pa pb ->
  inv2 dA dB dk s0 c (fst (cad_step dB dk s pb)) pa (snd (cad_step dB dk s pb)).
Proof.
  intros dA dB dk s0 e0 c L0 V0 s pa pb I. apply inv2_sym. apply (inv2_stepA dB dA dk s0 e0 c L0 V0). apply inv2_sym. exact I.
Qed.

Lemma erun2_inv : forall dA dB dk s0 e0 c, lookup (e_kv s0) dk = Some e0 -> e_val e0 = VCnt c ->
  forall sched s pa pb, inv2 dA dB dk s0 c s pa pb ->
  exists pa' pb', erun2 s (ECad dA dk pa) (ECad dB dk pb) sched =
                  (fst (fst (erun2 s (ECad dA dk pa) (ECad dB dk pb) sched)), ECad dA dk pa', ECad dB dk pb') /\
                  inv2 dA dB dk s0 c (fst (fst (erun2 s (ECad dA dk pa) (ECad dB dk pb) sched))) pa' pb'.
Proof.
  intros dA dB dk s0 e0 c L0 V0. induction sched as [|b t IH]; intros s pa pb I.
  - exists pa, pb. split; [reflexivity | exact I].
  - destruct b; cbn [erun2 eclient_step].
    + pose proof (inv2_stepA dA dB dk s0 e0 c L0 V0 s pa pb I) as I'.
      destruct (cad_step dA dk s pa) as [s' pa']. cbn [fst snd] in I'. apply IH. exact I'.
    + pose proof (inv2_stepB dA dB dk s0 e0 c L0 V0 s pa pb I) as I'.
      destruct (cad_step dB dk s pb) as [s' pb']. cbn [fst snd] in I'. apply IH. exact I'.
Qed.

(* every interleaving of two AddWorkload calls on one counter: when both have
   returned, both succeeded and the store is exactly what one of the two
   sequential orders produces *)
Definition add_add_linearizable_stmt : Prop :=
  forall (s0 : estate) (wA wB : wdata) (p : proc) (cA cB : eclient) (c : Z) (e0 : eentry) (sched : list bool),
    lookup (e_kv s0) (proc_key p) = Some e0 -> e_val e0 = VCnt c ->
    cad_client wA p = Some cA -> cad_client wB p = Some cB ->
    let '(s', c1, c2) := erun2 s0 cA cB sched in
    forall r1 r2, eclient_result c1 = Some r1 -> eclient_result c2 = Some r2 ->
      r1 = ROk PUnit /\ r2 = ROk PUnit /\
      (abs s' = fst (run spec_step (abs s0) [OAddWorkload wA (Some p); OAddWorkload wB (Some p)]) \/
       abs s' = fst (run spec_step (abs s0) [OAddWorkload wB (Some p); OAddWorkload wA (Some p)])).

Lemma spec_add_proc : forall t w p a e x, w_parse w = Some (a, e) ->
  lookup (s_view t) (proc_key p) = Some (VCnt x) ->
  spec_step t (OAddWorkload w (Some p)) = (s_puts t (workload_data w a e ++ [(proc_key p, VCnt (x - 1))]), ROk PUnit).
Proof. intros. unfold spec_step. cbn [read_op]. rewrite H, H0. reflexivity. Qed.
Lemma abs_commit : forall dk s x d, abs (commit dk s x d) = s_puts (abs s) (d ++ [(dk, VCnt (x - 1))]).
Proof. intros. unfold commit. rewrite (abs_eq s), abs_puts. reflexivity. Qed.
Lemma view_counter : forall s dk e x, lookup (e_kv s) dk = Some e -> e_val e = VCnt x ->
  lookup (s_view (abs s)) dk = Some (VCnt x).
Proof. intros. rewrite view_abs, lookup_view, H. cbn. rewrite H0. reflexivity. Qed.

Lemma seq_two : forall s0 w1 w2 p a1 e1 a2 e2 e0 c,
  w_parse w1 = Some (a1, e1) -> w_parse w2 = Some (a2, e2) ->
  lookup (e_kv s0) (proc_key p) = Some e0 -> e_val e0 = VCnt c ->
  abs (commit (proc_key p) (commit (proc_key p) s0 c (workload_data w1 a1 e1)) (c - 1) (workload_data w2 a2 e2))
  = fst (run spec_step (abs s0) [OAddWorkload w1 (Some p); OAddWorkload w2 (Some p)]).
Proof.
  intros s0 w1 w2 p a1 e1 a2 e2 e0 c P1 P2 L0 V0. cbn [run].
  rewrite (spec_add_proc (abs s0) w1 p a1 e1 c P1 (view_counter s0 _ e0 c L0 V0)).
  rewrite <- abs_commit.
  destruct (commit_counter (proc_key p) s0 c (workload_data w1 a1 e1)) as [e1' [L1 V1]].
  rewrite (spec_add_proc _ w2 p a2 e2 (c - 1) P2 (view_counter _ _ e1' (c - 1) L1 V1)).
  cbn [fst]. rewrite <- abs_commit. reflexivity.
Qed.

Lemma add_add_linearizable_holds : add_add_linearizable_stmt.
Proof.
  intros s0 wA wB p cA cB c e0 sched L0 V0 CA CB.
  unfold cad_client in CA, CB.
  destruct (w_parse wA) as [[aA eA]|] eqn:PA; [|discriminate]. destruct (w_parse wB) as [[aB eB]|] eqn:PB; [|discriminate].
  inversion CA; subst cA. inversion CB; subst cB. clear CA CB.
  set (dA := workload_data wA aA eA). set (dB := workload_data wB aB eB). set (dk := proc_key p).
  assert (I2 : inv2 dA dB dk s0 c s0 CadStart CadStart) by (left; repeat split; left; reflexivity).
  destruct (erun2_inv dA dB dk s0 e0 c L0 V0 sched s0 CadStart CadStart I2) as [pa [pb [E J]]].
  rewrite E. set (s' := fst (fst (erun2 s0 (ECad dA dk CadStart) (ECad dB dk CadStart) sched))) in *.
  intros r1 r2 R1 R2. cbn [eclient_result] in R1, R2.
  destruct J as [[_ [PA' PB']] | [[_ [_ PB']] | [[_ [_ PA']] | [[E' [PA' PB']] | [E' [PA' PB']]]]]].
  - destruct PA' as [X | X]; subst pa; discriminate R1.
  - destruct PB' as [X | [X | X]]; subst pb; discriminate R2.
  - destruct PA' as [X | [X | X]]; subst pa; discriminate R1.
  - subst pa pb. inversion R1; inversion R2. split; [reflexivity|]. split; [reflexivity|]. left.
    rewrite E'. unfold dA, dB, dk. apply (seq_two s0 wA wB p aA eA aB eB e0 c PA PB L0 V0).
  - subst pa pb. inversion R1; inversion R2. split; [reflexivity|]. split; [reflexivity|]. right.
    rewrite E'. unfold dA, dB, dk. apply (seq_two s0 wB wA p aB eB aA eA e0 c PB PA L0 V0).
Qed.

(* ---- termination: three own steps suffice ---- *)
Definition pot (c : Z) (pc : cad_pc) : nat :=
  match pc with
  | CadStart => 3
  | CadRead v => if value_eqb v (VCnt c) then 2 else 1
  | _ => 0
  end.
Lemma pot_stepA : forall dA dB dk s0 e0 c, lookup (e_kv s0) dk = Some e0 -> e_val e0 = VCnt c ->
  forall s pa pb, inv2 dA dB dk s0 c s pa pb ->
  (pot c (snd (cad_step dA dk s pa)) <= Nat.pred (pot c pa))%nat.
Proof.
  intros dA dB dk s0 e0 c L0 V0 s pa pb I.
  destruct (commit_counter dk s0 c dB) as [eB [LB VB]].
  assert (NE : value_eqb (VCnt (c - 1)) (VCnt c) = false) by (cbn; apply Z.eqb_neq; lia).
  assert (EQ : value_eqb (VCnt c) (VCnt c) = true) by (cbn; apply Z.eqb_refl).
  destruct I as [[E [PA PB]] | [[E [PA PB]] | [[E [PB PA]] | [[E [PA PB]] | [E [PA PB]]]]]]; subst s.
  - destruct PA as [PA | PA]; subst pa.
    + rewrite (cad_read dA dk s0 e0 L0), V0. cbn [snd pot]. rewrite EQ. cbn. lia.
    + rewrite (cad_txn_ok dA dk s0 e0 c L0 V0). cbn [snd pot]. lia.
  - subst pa. cbn. lia.
  - destruct PA as [PA | [PA | PA]]; subst pa.
    + rewrite (cad_read dA dk _ eB LB), VB. cbn [snd pot]. rewrite NE. cbn. lia.
    + rewrite (cad_txn_stale dA dk _ eB (c - 1) c LB VB) by lia. cbn [snd pot]. rewrite NE, EQ. cbn. lia.
    + rewrite (cad_txn_ok dA dk _ eB (c - 1) LB VB). cbn [snd pot]. lia.
  - subst pa. cbn. lia.
  - subst pa. cbn. lia.
Qed.
Lemma pot_zero_done : forall dA dB dk s0 c s pa pb, inv2 dA dB dk s0 c s pa pb -> pot c pa = 0%nat -> pa = CadDone None.
Proof.
  intros dA dB dk s0 c s pa pb I P.
  assert (NE : value_eqb (VCnt (c - 1)) (VCnt c) = false) by (cbn; apply Z.eqb_neq; lia).
  assert (EQ : value_eqb (VCnt c) (VCnt c) = true) by (cbn; apply Z.eqb_refl).
  destruct I as [[E [PA PB]] | [[E [PA PB]] | [[E [PB PA]] | [[E [PA PB]] | [E [PA PB]]]]]]; auto.
  - destruct PA as [PA | PA]; subst pa; cbn [pot] in P; rewrite ?EQ in P; discriminate.
  - destruct PA as [PA | [PA | PA]]; subst pa; cbn [pot] in P; rewrite ?EQ, ?NE in P; discriminate.
Qed.
Fixpoint count (b : bool) (l : list bool) : nat :=
  match l with [] => 0 | x :: t => (if Bool.eqb x b then 1 else 0) + count b t end.
Lemma erun2_pot : forall dA dB dk s0 e0 c, lookup (e_kv s0) dk = Some e0 -> e_val e0 = VCnt c ->
  forall sched s pa pb, inv2 dA dB dk s0 c s pa pb ->
  exists s' pa' pb', erun2 s (ECad dA dk pa) (ECad dB dk pb) sched = (s', ECad dA dk pa', ECad dB dk pb') /\
    inv2 dA dB dk s0 c s' pa' pb' /\
    (pot c pa' <= pot c pa - count true sched)%nat /\ (pot c pb' <= pot c pb - count false sched)%nat.
Proof.
  intros dA dB dk s0 e0 c L0 V0. induction sched as [|b t IH]; intros s pa pb I.
  - exists s, pa, pb. cbn. repeat split; auto; lia.
  - destruct b; cbn [erun2 eclient_step count Bool.eqb].
    + pose proof (inv2_stepA dA dB dk s0 e0 c L0 V0 s pa pb I) as I'.
      pose proof (pot_stepA dA dB dk s0 e0 c L0 V0 s pa pb I) as P.
      destruct (cad_step dA dk s pa) as [s1 pa1]. cbn [fst snd] in *.
      destruct (IH s1 pa1 pb I') as [s' [pa' [pb' [E [J [Q1 Q2]]]]]].
      exists s', pa', pb'. repeat split; auto; lia.
    + pose proof (inv2_stepB dA dB dk s0 e0 c L0 V0 s pa pb I) as I'.
      pose proof (pot_stepA dB dA dk s0 e0 c L0 V0 s pb pa (inv2_sym _ _ _ _ _ _ _ _ I)) as P.
      destruct (cad_step dB dk s pb) as [s1 pb1]. cbn [fst snd] in *.
      destruct (IH s1 pa pb1 I') as [s' [pa' [pb' [E [J [Q1 Q2]]]]]].
      exists s', pa', pb'. repeat split; auto; lia.
Qed.
(* any schedule that gives each client three steps lets both return *)
Definition add_add_terminates_stmt : Prop :=
  forall (s0 : estate) (wA wB : wdata) (p : proc) (cA cB : eclient) (c : Z) (e0 : eentry) (sched : list bool),
    lookup (e_kv s0) (proc_key p) = Some e0 -> e_val e0 = VCnt c ->
    cad_client wA p = Some cA -> cad_client wB p = Some cB ->
    (3 <= count true sched)%nat -> (3 <= count false sched)%nat ->
    let '(s', c1, c2) := erun2 s0 cA cB sched in
    eclient_result c1 = Some (ROk PUnit) /\ eclient_result c2 = Some (ROk PUnit).
Lemma add_add_terminates_holds : add_add_terminates_stmt.
Proof.
  intros s0 wA wB p cA cB c e0 sched L0 V0 CA CB T1 T2.
  unfold cad_client in CA, CB.
  destruct (w_parse wA) as [[aA eA]|]; [|discriminate]. destruct (w_parse wB) as [[aB eB]|]; [|discriminate].
  inversion CA; subst cA. inversion CB; subst cB.
  set (dA := workload_data wA aA eA). set (dB := workload_data wB aB eB). set (dk := proc_key p).
  assert (I2 : inv2 dA dB dk s0 c s0 CadStart CadStart) by (left; repeat split; left; reflexivity).
  destruct (erun2_pot dA dB dk s0 e0 c L0 V0 sched s0 CadStart CadStart I2) as [s' [pa [pb [E [J [Q1 Q2]]]]]].
  rewrite E. cbn [pot] in Q1, Q2.
  assert (PA : pa = CadDone None) by (eapply pot_zero_done; [exact J | lia]).
  assert (PB : pb = CadDone None) by (eapply pot_zero_done; [apply inv2_sym; exact J | lia]).
  subst. split; reflexivity.
Qed.

(* ---- methods that are one transaction: every interleaving is a sequential order ---- *)
Lemma atomic_second : forall o1 o2 r1 sched s1,
  erun2 s1 (EAtomic o1 (Some r1)) (EAtomic o2 None) sched = (s1, EAtomic o1 (Some r1), EAtomic o2 None) \/
  erun2 s1 (EAtomic o1 (Some r1)) (EAtomic o2 None) sched =
    (fst (estep s1 o2), EAtomic o1 (Some r1), EAtomic o2 (Some (snd (estep s1 o2)))).
Proof.
  intros o1 o2 r1. induction sched as [|b t IH]; intro s1; [left; reflexivity|].
  destruct b; cbn [erun2 eclient_step]; [apply IH|].
  destruct (estep s1 o2) as [s2 r2] eqn:E. cbn [fst snd]. right.
  clear IH. induction t as [|b t IHt]; [reflexivity|]. destruct b; cbn [erun2 eclient_step]; exact IHt.
Qed.
Lemma atomic_first : forall o1 o2 r2 sched s1,
  erun2 s1 (EAtomic o1 None) (EAtomic o2 (Some r2)) sched = (s1, EAtomic o1 None, EAtomic o2 (Some r2)) \/
  erun2 s1 (EAtomic o1 None) (EAtomic o2 (Some r2)) sched =
    (fst (estep s1 o1), EAtomic o1 (Some (snd (estep s1 o1))), EAtomic o2 (Some r2)).
Proof.
  intros o1 o2 r2. induction sched as [|b t IH]; intro s1; [left; reflexivity|].
  destruct b; cbn [erun2 eclient_step]; [|apply IH].
  destruct (estep s1 o1) as [s2 r1] eqn:E. cbn [fst snd]. right.
  clear IH. induction t as [|b t IHt]; [reflexivity|]. destruct b; cbn [erun2 eclient_step]; exact IHt.
Qed.
Definition atomic_pair_linearizable_stmt : Prop :=
  forall (s : estate) (o1 o2 : op) (sched : list bool),
    let '(s', c1, c2) := erun2 s (EAtomic o1 None) (EAtomic o2 None) sched in
    forall r1 r2, eclient_result c1 = Some r1 -> eclient_result c2 = Some r2 ->
      (s', [r1; r2]) = run estep s [o1; o2] \/ (s', [r2; r1]) = run estep s [o2; o1].
Lemma atomic_pair_linearizable_holds : atomic_pair_linearizable_stmt.
Proof.
  intros s o1 o2 sched. destruct sched as [|b t]; [cbn; intros; discriminate|].
  destruct b; cbn [erun2 eclient_step].
  - destruct (estep s o1) as [s1 r1] eqn:E1.
    destruct (atomic_second o1 o2 r1 t s1) as [H | H]; rewrite H; cbn [eclient_result]; intros x y X Y; [discriminate|].
    inversion X; inversion Y; subst. left. cbn [run]. rewrite E1. destruct (estep s1 o2). reflexivity.
  - destruct (estep s o2) as [s1 r2] eqn:E2.
    destruct (atomic_first o1 o2 r2 t s1) as [H | H]; rewrite H; cbn [eclient_result]; intros x y X Y; [discriminate|].
    inversion X; inversion Y; subst. right. cbn [run]. rewrite E2. destruct (estep s1 o1). reflexivity.
Qed.

(* ---- the two windows ---- *)
Local Open Scope string_scope.
Definition cw (id : name) (lbl : labels) : wdata := mkW id "a0_e0_s" (Some ("a0", "e0")) "n0" lbl.
Definition cproc : proc := mkP "a0" "e0" "n0" "i0".
Definition csetup : list op :=
  [OAddPod "p0" "d"; OAddNode (mkN "n0" "verif://n0" "p0" [] false false) "" "" "";
   OCreateProcessing cproc 3; OAddWorkload (cw "w0" []) None].

(* redis: RemoveWorkload between the EXISTS and the MULTI of UpdateWorkload: both
   calls succeed and the removed workload is back -- the outcome of neither order *)
Definition redis_update_window_stmt : Prop :=
  exists (setup : list op) (w w' : wdata) (cl : rclient),
    upd_client w = Some cl /\
    let s := rrun_ops r_init setup in
    let '(s', c1, c2) := rrun2 s cl (RAtomic (ORemoveWorkload w') None) [true; false; true] in
    rclient_result c1 = Some (ROk PUnit) /\ rclient_result c2 = Some (ROk PUnit) /\
    kv_eqb (s_view s') (s_view (rrun_ops s [OUpdateWorkload w; ORemoveWorkload w'])) = false /\
    kv_eqb (s_view s') (s_view (rrun_ops s [ORemoveWorkload w'; OUpdateWorkload w])) = false.
Lemma redis_update_window_holds : redis_update_window_stmt.
Proof.
  exists csetup, (cw "w0" [("l", "y")]), (cw "w0" []), (RUpd (workload_data (cw "w0" [("l", "y")]) "a0" "e0") UpdStart).
  split; [reflexivity|]. vm_compute. repeat split; reflexivity.
Qed.

(* etcd: DeleteProcessing between the Get and the Txn of BatchCreateAndDecr: the
   compare fails and the Else-Get returns no key.  Before the repair (85b2a9b) the
   Go code indexed Kvs[0] and panicked; now the call fails with ErrKeyNotExists,
   which is the outcome of the sequential order delete; add. *)
Definition etcd_decr_delete_window_closed_stmt : Prop :=
  let w := cw "w1" [] in
  let s := erun_ops e_init csetup in
  forall cl, cad_client w cproc = Some cl ->
    let '(s', c1, c2) := erun2 s cl (EAtomic (ODeleteProcessing cproc) None) [true; false; true] in
    eclient_result c1 = Some (RErr ENotExists) /\ eclient_result c2 = Some (ROk PUnit) /\
    (s', [ROk PUnit; RErr ENotExists]) = run estep s [ODeleteProcessing cproc; OAddWorkload w (Some cproc)].
Lemma etcd_decr_delete_window_closed_holds : etcd_decr_delete_window_closed_stmt.
Proof. unfold etcd_decr_delete_window_closed_stmt. cbv zeta. intros cl H. inversion H; subst cl. vm_compute. repeat split; reflexivity. Qed.

(* ---- etcd: AddWorkload with processing  ||  DeleteProcessing, every schedule ---- *)
Lemma cad_start_missing : forall d dk s, lookup (e_kv s) dk = None -> cad_step d dk s CadStart = (s, CadDone (Some ENotExists)).
Proof. intros. cbn [cad_step]. rewrite H. reflexivity. Qed.
Lemma cad_txn_missing : forall d dk s y, lookup (e_kv s) dk = None ->
  cad_step d dk s (CadRead (VCnt y)) = (s, CadDone (Some ENotExists)).
Proof.
  intros d dk s y L. cbn [cad_step]. rewrite e_txn_eq. cbv zeta. cbn [forallb eval_cmp]. rewrite L.
  cbn [andb exec_list exec_top]. rewrite L. destruct s; reflexivity.
Qed.
Definition del_state (s : estate) (dk : key) : estate := fst (e_delete s dk).
Lemma del_state_missing : forall s dk, lookup (e_kv (del_state s dk)) dk = None.
Proof. intros. unfold del_state, e_delete. cbn [fst e_kv]. apply lookup_del_same. Qed.
Lemma estep_delete_proc : forall s p, estep s (ODeleteProcessing p) = (del_state s (proc_key p), ROk PUnit).
Proof. reflexivity. Qed.

Section AddDel.
  Variables (dA : list (key * value)) (p : proc) (s0 : estate) (e0 : eentry) (c : Z).
  Let dk := proc_key p.
  Hypothesis L0 : lookup (e_kv s0) dk = Some e0.
  Hypothesis V0 : e_val e0 = VCnt c.
  Let del := ODeleteProcessing p.

  Definition inv_ad (s : estate) (pa : cad_pc) (cd : eclient) : Prop :=
    (s = s0 /\ before c pa /\ cd = EAtomic del None) \/
    (s = commit dk s0 c dA /\ pa = CadDone None /\ cd = EAtomic del None) \/
    (s = del_state s0 dk /\ before c pa /\ cd = EAtomic del (Some (ROk PUnit))) \/
    (s = del_state (commit dk s0 c dA) dk /\ pa = CadDone None /\ cd = EAtomic del (Some (ROk PUnit))) \/
    (s = del_state s0 dk /\ pa = CadDone (Some ENotExists) /\ cd = EAtomic del (Some (ROk PUnit))).

  Lemma inv_ad_step : forall b s pa cd, inv_ad s pa cd ->
    match b with
    | true => inv_ad (fst (cad_step dA dk s pa)) (snd (cad_step dA dk s pa)) cd
    | false => inv_ad (fst (eclient_step s cd)) pa (snd (eclient_step s cd))
    end.
  Proof.
    intros b s pa cd I.
    destruct I as [[E [PA CD]] | [[E [PA CD]] | [[E [PA CD]] | [[E [PA CD]] | [E [PA CD]]]]]]; subst s cd; destruct b;
      cbn [eclient_step]; try rewrite estep_delete_proc; cbn [fst snd].
    - destruct PA as [PA | PA]; subst pa.
      + rewrite (cad_read dA dk s0 e0 L0), V0. cbn [fst snd]. left. repeat split; auto. right. reflexivity.
      + rewrite (cad_txn_ok dA dk s0 e0 c L0 V0). cbn [fst snd]. right. left. auto.
    - right. right. left. auto.
    - subst pa. cbn. right. left. auto.
    - right. right. right. left. subst pa. auto.
    - destruct PA as [PA | PA]; subst pa.
      + rewrite (cad_start_missing dA dk _ (del_state_missing s0 dk)). cbn [fst snd]. right. right. right. right. auto.
      + rewrite (cad_txn_missing dA dk _ c (del_state_missing s0 dk)). cbn [fst snd]. right. right. right. right. auto.
    - right. right. left. auto.
    - subst pa. cbn. right. right. right. left. auto.
    - right. right. right. left. auto.
    - subst pa. cbn. right. right. right. right. auto.
    - right. right. right. right. auto.
  Qed.

  Lemma erun2_inv_ad : forall sched s pa cd, inv_ad s pa cd ->
    exists s' pa' cd', erun2 s (ECad dA dk pa) cd sched = (s', ECad dA dk pa', cd') /\ inv_ad s' pa' cd'.
  Proof.
    induction sched as [|b t IH]; intros s pa cd I; [exists s, pa, cd; auto|].
    pose proof (inv_ad_step b s pa cd I) as I'. destruct b; cbn [erun2 eclient_step].
    - destruct (cad_step dA dk s pa) as [s1 pa1]. apply IH. exact I'.
    - destruct (eclient_step s cd) as [s1 cd1]. apply IH. exact I'.
  Qed.
End AddDel.

Lemma estep_add_commit : forall s w p a e e0 c, w_parse w = Some (a, e) ->
  lookup (e_kv s) (proc_key p) = Some e0 -> e_val e0 = VCnt c ->
  estep s (OAddWorkload w (Some p)) = (commit (proc_key p) s c (workload_data w a e), ROk PUnit).
Proof.
  intros s w p a e e0 c P L V. unfold estep. cbn [read_op]. unfold e_ops_workload. rewrite P.
  rewrite cad_alone, (cad_read _ _ s e0 L), V, (cad_txn_ok _ _ s e0 c L V). reflexivity.
Qed.
Lemma estep_add_missing : forall s w p a e, w_parse w = Some (a, e) -> lookup (e_kv s) (proc_key p) = None ->
  estep s (OAddWorkload w (Some p)) = (s, RErr ENotExists).
Proof.
  intros s w p a e P L. unfold estep. cbn [read_op]. unfold e_ops_workload. rewrite P.
  unfold e_batch_create_and_decr. rewrite L. reflexivity.
Qed.

(* every interleaving of AddWorkload-with-processing and DeleteProcessing on the
   same counter ends like one of the two sequential orders *)
Definition add_del_linearizable_stmt : Prop :=
  forall (s0 : estate) (w : wdata) (p : proc) (cA : eclient) (c : Z) (e0 : eentry) (sched : list bool),
    lookup (e_kv s0) (proc_key p) = Some e0 -> e_val e0 = VCnt c ->
    cad_client w p = Some cA ->
    let '(s', c1, c2) := erun2 s0 cA (EAtomic (ODeleteProcessing p) None) sched in
    forall r1 r2, eclient_result c1 = Some r1 -> eclient_result c2 = Some r2 ->
      (s', [r1; r2]) = run estep s0 [OAddWorkload w (Some p); ODeleteProcessing p] \/
      (s', [r2; r1]) = run estep s0 [ODeleteProcessing p; OAddWorkload w (Some p)].
Lemma add_del_linearizable_holds : add_del_linearizable_stmt.
Proof.
  intros s0 w p cA c e0 sched L0 V0 CA. unfold cad_client in CA.
  destruct (w_parse w) as [[a e]|] eqn:P; [|discriminate]. inversion CA; subst cA. clear CA.
  set (dA := workload_data w a e).
  assert (I : inv_ad dA p s0 c s0 CadStart (EAtomic (ODeleteProcessing p) None)) by (left; repeat split; left; reflexivity).
  destruct (erun2_inv_ad dA p s0 e0 c L0 V0 sched s0 CadStart _ I) as [s' [pa [cd [E J]]]]. rewrite E.
  intros r1 r2 R1 R2. cbn [eclient_result] in R1.
  destruct J as [[_ [PA CD]] | [[_ [PA CD]] | [[_ [PA CD]] | [[ES [PA CD]] | [ES [PA CD]]]]]]; subst cd; cbn [eclient_result] in R2; try discriminate R2.
  - destruct PA as [X | X]; subst pa; discriminate R1.
  - subst pa s'. inversion R1; inversion R2; subst. left. cbn [run].
    rewrite (estep_add_commit s0 w p a e e0 c P L0 V0), estep_delete_proc. reflexivity.
  - subst pa s'. inversion R1; inversion R2; subst. right. cbn [run].
    rewrite estep_delete_proc, (estep_add_missing _ w p a e P (del_state_missing s0 (proc_key p))). reflexivity.
Qed.

(* redis: every writing method except BatchUpdate is one MULTI block or one command *)
Lemma ratomic_second : forall o1 o2 r1 sched s1,
  rrun2 s1 (RAtomic o1 (Some r1)) (RAtomic o2 None) sched = (s1, RAtomic o1 (Some r1), RAtomic o2 None) \/
  rrun2 s1 (RAtomic o1 (Some r1)) (RAtomic o2 None) sched =
    (fst (rstep s1 o2), RAtomic o1 (Some r1), RAtomic o2 (Some (snd (rstep s1 o2)))).
Proof.
  intros o1 o2 r1. induction sched as [|b t IH]; intro s1; [left; reflexivity|].
  destruct b; cbn [rrun2 rclient_step]; [apply IH|].
  destruct (rstep s1 o2) as [s2 r2] eqn:E. cbn [fst snd]. right.
  clear IH. induction t as [|b t IHt]; [reflexivity|]. destruct b; cbn [rrun2 rclient_step]; exact IHt.
Qed.
Lemma ratomic_first : forall o1 o2 r2 sched s1,
  rrun2 s1 (RAtomic o1 None) (RAtomic o2 (Some r2)) sched = (s1, RAtomic o1 None, RAtomic o2 (Some r2)) \/
  rrun2 s1 (RAtomic o1 None) (RAtomic o2 (Some r2)) sched =
    (fst (rstep s1 o1), RAtomic o1 (Some (snd (rstep s1 o1))), RAtomic o2 (Some r2)).
Proof.
  intros o1 o2 r2. induction sched as [|b t IH]; intro s1; [left; reflexivity|].
  destruct b; cbn [rrun2 rclient_step]; [|apply IH].
  destruct (rstep s1 o1) as [s2 r1] eqn:E. cbn [fst snd]. right.
  clear IH. induction t as [|b t IHt]; [reflexivity|]. destruct b; cbn [rrun2 rclient_step]; exact IHt.
Qed.
Definition ratomic_pair_linearizable_stmt : Prop :=
  forall (s : rstate) (o1 o2 : op) (sched : list bool),
    let '(s', c1, c2) := rrun2 s (RAtomic o1 None) (RAtomic o2 None) sched in
    forall r1 r2, rclient_result c1 = Some r1 -> rclient_result c2 = Some r2 ->
      (s', [r1; r2]) = run rstep s [o1; o2] \/ (s', [r2; r1]) = run rstep s [o2; o1].
Lemma ratomic_pair_linearizable_holds : ratomic_pair_linearizable_stmt.
Proof.
  intros s o1 o2 sched. destruct sched as [|b t]; [cbn; intros; discriminate|].
  destruct b; cbn [rrun2 rclient_step].
  - destruct (rstep s o1) as [s1 r1] eqn:E1.
    destruct (ratomic_second o1 o2 r1 t s1) as [H | H]; rewrite H; cbn [rclient_result]; intros x y X Y; [discriminate|].
    inversion X; inversion Y; subst. left. cbn [run]. rewrite E1. destruct (rstep s1 o2). reflexivity.
  - destruct (rstep s o2) as [s1 r2] eqn:E2.
    destruct (ratomic_first o1 o2 r2 t s1) as [H | H]; rewrite H; cbn [rclient_result]; intros x y X Y; [discriminate|].
    inversion X; inversion Y; subst. right. cbn [run]. rewrite E2. destruct (rstep s1 o1). reflexivity.
Qed.
