(* Case25: boolean reflection of property C25 on observed histories.

   The same case type as C23 (Case.case).  [ok25] runs a monitor over the
   operations and the results each real store returned, independently for the
   etcd and the Redis observations.  The monitor knows only the property:
   - which entities exist (from the successes of add/update/remove calls);
   - per status key the last accepted report (value, deadline = now + ttl, or no
     deadline for ttl 0), cleared when the workload is removed or the node
     status is deleted by a negative ttl;
   and checks
   - a report with ttl > 0 is accepted iff its entity exists; a node report with
     ttl 0 is rejected;
   - every status read (GetNodeStatus, GetWorkloadStatus, GetWorkload, also in
     snapshots) shows the last accepted value while now < deadline (or forever
     without deadline) and nothing once the deadline has passed or when nothing
     was reported.
   Executable definitions only. *)
From Coq Require Import List Bool ZArith String.
From Verif Require Import Base.RunLib Store.KVPrims Store.Ops Store.Status Store.Case.
Import ListNotations.
Local Open Scope Z_scope.

Record mon := mkMon {
  m_now : Z;
  m_nodes : list name;
  m_wls : list (name * wdata);
  m_nst : list (name * (name * name * option Z));
  m_wst : list (key * (wstat * option Z)) }.
Definition mon_init : mon := mkMon 0 [] [] [] [].

Definition is_ok (r : result) : bool := match r with ROk _ => true | _ => false end.
Definition nremove {A} (k : name) (l : list (name * A)) := filter (fun x => negb (name_eqb k (fst x))) l.
Definition live (now : Z) (dl : option Z) : bool := match dl with None => true | Some d => now <? d end.

Definition status_key_of (w : wdata) : option key :=
  match w_parse w with Some (a, e) => Some (KStatus a e (w_node w) (w_id w)) | None => None end.

(* what a read of the workload's status must show *)
Definition expect_wst (m : mon) (id : name) : option (option wstat) :=
  match nassoc id (m_wls m) with
  | None => None                                   (* unknown record: no expectation *)
  | Some w =>
      match status_key_of w with
      | None => None
      | Some k => match lookup (m_wst m) k with
                  | Some (st, dl) => Some (if live (m_now m) dl then Some st else None)
                  | None => Some None
                  end
      end
  end.
Definition check_wst (m : mon) (id : name) (shown : option wstat) : bool :=
  match expect_wst m id with
  | None => true
  | Some ex => option_eqb wstat_eqb ex shown
  end.

Definition check_read (m : mon) (o : op) (r : result) : bool :=
  match o with
  | OGetNodeStatus n =>
      match nassoc n (m_nst m) with
      | Some (n', p', dl) =>
          if live (m_now m) dl then result_eqb r (ROk (PNSt n' p' true)) else negb (is_ok r)
      | None => negb (is_ok r)
      end
  | OGetWorkloadStatus id =>
      match r with ROk (PWSt shown) => check_wst m id shown | ROk _ => false | _ => true end
  | OGetWorkload id =>
      match r with ROk (PWl wv) => check_wst m id (wv_st wv) | ROk _ => false | _ => true end
  | _ => true
  end.

Definition mon_step (m : mon) (o : op) (r : result) : mon * bool :=
  match o with
  | OAdvance d => (mkMon (m_now m + d) (m_nodes m) (m_wls m) (m_nst m) (m_wst m), true)
  | OAddNode nd _ _ _ =>
      (if is_ok r then mkMon (m_now m) (n_name nd :: m_nodes m) (m_wls m) (m_nst m) (m_wst m) else m, true)
  | OUpdateNodes l =>
      (if is_ok r then mkMon (m_now m) (map (fun x => n_name (fst (fst (fst x)))) l ++ m_nodes m) (m_wls m) (m_nst m) (m_wst m)
       else m, true)
  | ORemoveNode n _ =>
      (if is_ok r then mkMon (m_now m) (filter (fun x => negb (name_eqb n x)) (m_nodes m)) (m_wls m) (m_nst m) (m_wst m)
       else m, true)
  | OAddWorkload w _ | OUpdateWorkload w =>
      (if is_ok r then mkMon (m_now m) (m_nodes m) (nput (m_wls m) (w_id w) w) (m_nst m) (m_wst m) else m, true)
  | ORemoveWorkload w =>
      (if is_ok r then
         mkMon (m_now m) (m_nodes m) (nremove (w_id w) (m_wls m)) (m_nst m)
               (match status_key_of w with Some k => del (m_wst m) k | None => m_wst m end)
       else m, true)
  | OSetNodeStatus n p ttl =>
      if ttl =? 0 then (m, negb (is_ok r))
      else if ttl <? 0 then
        (if is_ok r then mkMon (m_now m) (m_nodes m) (m_wls m) (nremove n (m_nst m)) (m_wst m) else m, true)
      else
        (if is_ok r then mkMon (m_now m) (m_nodes m) (m_wls m) (nput (m_nst m) n (n, p, Some (m_now m + ttl))) (m_wst m)
         else m,
         Bool.eqb (is_ok r) (existsb (name_eqb n) (m_nodes m)))
  | OSetWorkloadStatus st a e n ttl =>
      if status_args_bad a e n then (m, negb (is_ok r))
      else
        let m' := if is_ok r
                  then mkMon (m_now m) (m_nodes m) (m_wls m) (m_nst m)
                             (put (m_wst m) (KStatus a e n (ws_id st))
                                  (st, if ttl =? 0 then None else Some (m_now m + ttl)))
                  else m in
        (m', if 0 <? ttl
             then Bool.eqb (is_ok r) (match nassoc (ws_id st) (m_wls m) with Some _ => true | None => false end)
             else true)
  | _ => (m, check_read m o r)
  end.

Fixpoint mon_run (sel : result * result -> result) (m : mon) (l : case) : bool :=
  match l with
  | [] => true
  | IOp o re rr :: t => let '(m', b) := mon_step m o (sel (re, rr)) in b && mon_run sel m' t
  | ISnap os rs _ _ :: t =>
      forallb (fun p => check_read m (fst p) (sel (snd p))) (combine os rs) && mon_run sel m t
  | IKeys _ _ :: t => mon_run sel m t
  end.
(* a case of the C25 stream: which backend's observations are judged (a history
   that contains the known Redis node-status defect is emitted twice, once per
   backend, so that the known finding cannot hide an etcd violation) *)
Definition case25 := (bool * bool * case)%type.
Definition agree25 (c : case25) : bool := agree (snd c).
Definition ok25 (c : case25) : bool :=
  let '(ce, cr, l) := c in
  (if ce then mon_run fst mon_init l else true) && (if cr then mon_run snd mon_init l else true).
