(* RedisGlob: the Redis key patterns of store/redis as glob patterns.

   Reuses (read-only) the glob matcher and escapeGlob model of coq/Names/Model.v
   (builder D1, C24).  Shows that escapeGlob(prefix) ++ "*" is exactly a prefix
   test for every prefix, and that the five key patterns the Redis store builds
   select exactly the structural matches used by the models. *)
From Coq Require Import List Bool ZArith String Ascii Lia.
From Verif Require Import Base.RunLib Base.GoStr Names.Model Store.KVPrims Store.KVLemmas Store.Ops Store.KeyStrings.
Import ListNotations.
Local Open Scope string_scope.

(* strings.HasPrefix on byte lists = String.prefix *)
Lemma has_prefix_s2l : forall a b, has_prefix (s2l a) (s2l b) = String.prefix a b.
Proof.
  induction a as [|x a IH]; intros b; destruct b as [|y b]; simpl; try reflexivity.
  destruct (ascii_dec x y) as [E|E].
  - subst. rewrite Ascii.eqb_refl. apply IH.
  - apply Ascii.eqb_neq in E. rewrite E. reflexivity.
Qed.
Lemma s2l_app : forall a b, s2l (a ++ b) = (s2l a ++ s2l b)%list.
Proof. induction a; intros; simpl; [reflexivity | f_equal; apply IHa]. Qed.
Lemma escape_app : forall a b, escape_glob (a ++ b)%list = (escape_glob a ++ escape_glob b)%list.
Proof. induction a as [|c t IH]; intros; simpl; [reflexivity|]. destruct (is_meta c); simpl; rewrite IH; reflexivity. Qed.

(* an escaped literal followed by a pattern q matches exactly literal ++ (something matched by q) *)
Lemma glob_escape : forall p q s,
  glob (escape_glob p ++ q)%list s = has_prefix p s && glob q (skipn (List.length p) s).
Proof.
  induction p as [|c t IH]; intros q s.
  - simpl. reflexivity.
  - cbn [escape_glob]. destruct (is_meta c) eqn:M.
    + cbn [app glob]. change (Ascii.eqb backslash star) with false. change (Ascii.eqb backslash qmark) with false.
      change (Ascii.eqb backslash lbracket) with false. change (Ascii.eqb backslash backslash) with true. cbn iota.
      destruct s as [|x s']; [reflexivity|]. cbn [has_prefix List.length skipn]. rewrite IH, andb_assoc. reflexivity.
    + unfold is_meta in M. apply orb_false_iff in M. destruct M as [M M4]. apply orb_false_iff in M. destruct M as [M M3].
      apply orb_false_iff in M. destruct M as [M1 M2].
      cbn [app glob]. rewrite M1, M2, M3, M4.
      destruct s as [|x s']; [reflexivity|]. cbn [has_prefix List.length skipn]. rewrite IH, andb_assoc. reflexivity.
Qed.
Lemma glob_star_all : forall s, glob [star] s = true.
Proof. intro s. cbn [glob]. rewrite Ascii.eqb_refl. induction s as [|x s IH]; [reflexivity|]. cbn [glob orb]. exact IH. Qed.
(* escapeGlob(prefix) + "*" is a prefix test, whatever characters the prefix contains *)
Lemma glob_escaped_prefix : forall p s, glob (escape_glob (s2l p) ++ [star])%list (s2l s) = String.prefix p s.
Proof. intros. rewrite glob_escape, glob_star_all, andb_true_r. apply has_prefix_s2l. Qed.

(* ---- the key patterns of store/redis (with escapeGlob) ---- *)
Definition star_s : bytes := [star].
Definition pat_pods : bytes := (s2l "/pod/info/" ++ star_s)%list.                                   (* fmt.Sprintf(podInfoKey, "*") *)
Definition pat_nodepod (p : name) : bytes := (s2l "/node/" ++ escape_glob (s2l p) ++ s2l ":pod/" ++ star_s)%list.
Definition pat_nodewl (n : name) : bytes := (s2l "/node/" ++ escape_glob (s2l n) ++ s2l ":workloads/" ++ star_s)%list.
Definition pat_proc (a e : name) : bytes := (escape_glob (s2l ("/processing/" ++ a ++ "/" ++ e)) ++ s2l "/*")%list.
(* filepath.Join(prefix, app, entry, node) drops empty elements *)
Definition deploy_path (a e n : name) : string :=
  "/deploy" ++ (if String.eqb a "" then "" else
     "/" ++ a ++ (if String.eqb e "" then "" else "/" ++ e ++ (if String.eqb n "" then "" else "/" ++ n))).
Definition pat_deploy (a e n : name) : bytes := (escape_glob (s2l (deploy_path a e n)) ++ s2l "/*")%list.

Lemma app_assoc_s : forall a b c : string, (a ++ b) ++ c = a ++ (b ++ c).
Proof. induction a; intros; simpl; [reflexivity | f_equal; apply IHa]. Qed.
Lemma deploy_path_slash : forall a e n, deploy_path a e n ++ "/" = pfx_deploy a e n.
Proof.
  intros. unfold deploy_path, pfx_deploy.
  destruct (String.eqb a ""); [reflexivity|].
  destruct (String.eqb e ""); [cbn; rewrite !app_assoc_s; reflexivity|].
  destruct (String.eqb n ""); cbn; rewrite !app_assoc_s; cbn; rewrite ?app_assoc_s; reflexivity.
Qed.

Lemma pat_nodepod_eq : forall p, pat_nodepod p = (escape_glob (s2l (pfx_nodepod p)) ++ [star])%list.
Proof. intros. unfold pat_nodepod, pfx_nodepod, star_s. rewrite !s2l_app, !escape_app, <- !app_assoc. reflexivity. Qed.
Lemma pat_nodewl_eq : forall n, pat_nodewl n = (escape_glob (s2l (pfx_nodewl n)) ++ [star])%list.
Proof. intros. unfold pat_nodewl, pfx_nodewl, star_s. rewrite !s2l_app, !escape_app, <- !app_assoc. reflexivity. Qed.
Lemma pat_proc_eq : forall a e, pat_proc a e = (escape_glob (s2l (pfx_proc a e)) ++ [star])%list.
Proof.
  intros. unfold pat_proc, pfx_proc.
  replace ("/processing/" ++ a ++ "/" ++ e ++ "/") with (("/processing/" ++ a ++ "/" ++ e) ++ "/")
    by (cbn; rewrite !app_assoc_s; reflexivity).
  rewrite (s2l_app _ "/"), escape_app, <- app_assoc. reflexivity.
Qed.
Lemma pat_deploy_eq : forall a e n, pat_deploy a e n = (escape_glob (s2l (pfx_deploy a e n)) ++ [star])%list.
Proof. intros. unfold pat_deploy. rewrite <- deploy_path_slash, s2l_app, escape_app, <- app_assoc. reflexivity. Qed.

(* every Redis key pattern selects exactly the structural matches -- for key and
   parameter names without '/' and ':'; glob metacharacters in names are harmless
   because the store escapes them *)
Definition redis_patterns_exact_stmt : Prop :=
  forall k, key_safe k = true ->
    glob pat_pods (s2l (render k)) = is_pod_key k /\
    (forall p, no_sep p = true -> glob (pat_nodepod p) (s2l (render k)) = nodepod_under p k) /\
    (forall n, no_sep n = true -> glob (pat_nodewl n) (s2l (render k)) = nodewl_under n k) /\
    (forall a e, no_sep a = true -> no_sep e = true -> glob (pat_proc a e) (s2l (render k)) = proc_under a e k) /\
    (forall a e n, no_sep a = true -> no_sep e = true -> no_sep n = true ->
       (a = "" -> e = "") -> (e = "" -> n = "") ->
       glob (pat_deploy a e n) (s2l (render k)) = deploy_under a e n k).
Lemma redis_patterns_exact_holds : redis_patterns_exact_stmt.
Proof.
  intros k S. repeat split; intros.
  - change pat_pods with (escape_glob (s2l pfx_pods) ++ [star])%list. rewrite glob_escaped_prefix. apply scan_pods_exact; assumption.
  - rewrite pat_nodepod_eq, glob_escaped_prefix. apply scan_nodepod_exact; assumption.
  - rewrite pat_nodewl_eq, glob_escaped_prefix. apply scan_nodewl_exact; assumption.
  - rewrite pat_proc_eq, glob_escaped_prefix. apply scan_proc_exact; assumption.
  - rewrite pat_deploy_eq, glob_escaped_prefix. apply scan_deploy_exact; assumption.
Qed.
(* without the escaping a name containing '*' would select foreign keys *)
Example unescaped_star_leaks :
  glob (s2l "/node/" ++ s2l "n*" ++ s2l ":workloads/" ++ star_s)%list (s2l (render (KNodeWl "n1" "w0"))) = true
  /\ glob (pat_nodewl "n*") (s2l (render (KNodeWl "n1" "w0"))) = false.
Proof. split; vm_compute; reflexivity. Qed.
