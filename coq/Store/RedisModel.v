(* RedisModel: every Store method of store/redis (Rediaron) over the Redis
   primitives of KVPrims, following rediaron.go command by command:
   BatchCreate = MULTI{SETNX...} (no abort when a SETNX finds the key),
   BatchUpdate = EXISTS then MULTI{SET...}, BatchCreateAndDecr = MULTI{DECR;
   SETNX...} whose SETNX results are ignored, scans by key pattern + GetMulti.
   SCAN order is that of miniredis (sorted).  Executable definitions only. *)
From Coq Require Import List Bool ZArith String.
From Verif Require Import Base.RunLib Store.KVPrims Store.Ops Store.Status.
Import ListNotations.
Local Open Scope Z_scope.

(* GetOne / cli.Get: redis.Nil when missing *)
Definition r_get_one (s : rstate) (k : key) : value + err :=
  match r_get s k with Some v => inl v | None => inr ENil end.
(* GetMulti: pipelined GETs collected in a Go map (duplicates collapse) *)
Fixpoint r_get_multi (s : rstate) (ks : list key) (acc : list (key * value)) : list (key * value) + err :=
  match ks with
  | [] => inl acc
  | k :: t => match r_get s k with
              | None => inr ENil
              | Some v => r_get_multi s t (put acc k v)
              end
  end.
(* getByKeyPattern *)
Definition r_by_pattern (s : rstate) (p : key -> bool) (limit : Z) : list (key * value) + err :=
  r_get_multi s (take_limit limit (r_scan s p)) [].

Definition r_multi_set (s : rstate) (data : list (key * value)) : rstate :=
  fold_left (fun s kv => r_set s (fst kv) (snd kv) 0) data s.
(* BatchCreate: every SETNX runs; any "not created" => ErrAlreadyExists *)
Definition r_batch_create (s : rstate) (data : list (key * value)) : rstate * option err :=
  let '(s', all_created) :=
    fold_left (fun acc kv => let '(s, ok) := acc in
                             let '(s1, c) := r_setnx s (fst kv) (snd kv) in (s1, ok && c))
              data (s, true) in
  (s', if all_created then None else Some EExists).
Definition r_batch_update (s : rstate) (data : list (key * value)) : rstate * option err :=
  if negb (r_exists s (map fst data) =? Z.of_nat (List.length data)) then (s, Some ENotExists)
  else (r_multi_set s data, None).
Definition r_batch_put (s : rstate) (data : list (key * value)) : rstate := r_multi_set s data.
Definition r_batch_delete (s : rstate) (ks : list key) : rstate := fold_left r_del ks s.
Definition r_batch_create_and_decr (s : rstate) (data : list (key * value)) (dk : key)
  : rstate * option err :=
  let '(s1, ok) := r_decr s dk in
  let s2 := fold_left (fun s kv => fst (r_setnx s (fst kv) (snd kv))) data s1 in
  (s2, if ok then None else Some EOther).

Definition r_has_status (s : rstate) (n : name) : bool :=
  match r_get_one s (KNStatus n) with inl _ => true | inr _ => false end.

Definition r_get_nodes (s : rstate) (ns : list name) : list nview + err :=
  match r_get_multi s (map KNode ns) [] with
  | inr e => inr e
  | inl kvs => do_get_nodes (r_has_status s) (map snd kvs) [] true
  end.
Definition r_nodes_of_pod (s : rstate) (p : name) (flt : labels) (all : bool) : list nview + err :=
  match r_by_pattern s (nodepod_under p) 0 with
  | inr e => inr e
  | inl kvs => do_get_nodes (r_has_status s) (map snd kvs) flt all
  end.
Definition r_all_pods (s : rstate) : list (name * name) + err :=
  match r_by_pattern s is_pod_key 0 with
  | inr e => inr e
  | inl kvs => match unmarshal_pods (map snd kvs) with Some l => inl l | None => inr EOther end
  end.
Fixpoint r_nodes_of_pods (s : rstate) (ps : list (name * name)) (flt : labels) (all : bool)
  : list nview + err :=
  match ps with
  | [] => inl []
  | p :: t => match r_nodes_of_pod s (fst p) flt all with
              | inr e => inr e
              | inl l => match r_nodes_of_pods s t flt all with
                         | inl r => inl (l ++ r) | inr e => inr e end
              end
  end.
Definition r_get_nodes_by_pod (s : rstate) (p : name) (flt : labels) (all : bool) : list nview + err :=
  if negb (name_eqb p ""%string) then r_nodes_of_pod s p flt all
  else match r_all_pods s with
       | inr e => inr e
       | inl ps => r_nodes_of_pods s ps flt all
       end.

Definition r_bind_additions (s : rstate) (ws : list wdata) : list wview + err :=
  bind_additions (r_get_nodes s) (r_get s) ws.
Definition r_get_workloads (s : rstate) (ids : list name) : list wview + err :=
  match r_get_multi s (map KWl ids) [] with
  | inr e => inr e
  | inl kvs => match unmarshal_workloads (map snd kvs) with
               | None => inr EOther
               | Some ws => r_bind_additions s ws
               end
  end.
Definition r_list (s : rstate) (p : key -> bool) (limit : Z) (flt : labels) : list wview + err :=
  match r_by_pattern s p limit with
  | inr e => inr e
  | inl kvs => match unmarshal_workloads (map snd kvs) with
               | None => inr EOther
               | Some ws => r_bind_additions s (filter_workloads ws flt)
               end
  end.

Definition r_ops_workload (s : rstate) (w : wdata) (pr : option proc) (create : bool) : rstate * result :=
  match w_parse w with
  | None => (s, RErr EName)
  | Some (a, e) =>
      let data := workload_data w a e in
      let '(s', r) :=
        if create then
          match pr with
          | Some p => r_batch_create_and_decr s data (proc_key p)
          | None => r_batch_create s data
          end
        else r_batch_update s data in
      match r with None => (s', ROk PUnit) | Some er => (s', RErr er) end
  end.

Definition rstep (s : rstate) (o : op) : rstate * result :=
  match o with
  | OAddPod p d =>
      match r_batch_create s [(KPod p, VPod p d)] with
      | (s', None) => (s', ROk (PPod p d))
      | (s', Some e) => (s', RErr e)
      end
  | ORemovePod p =>
      match r_get_nodes_by_pod s p [] true with
      | inr e => (s, RErr e)
      | inl (_ :: _) => (s, RErr EPodHasNodes)
      | inl [] =>
          let deleted := if mem (r_kv s) (KPod p) then 1 else 0 in          (* DEL count *)
          if negb (deleted =? 1) then (r_del s (KPod p), RErr EPodNotFound)
          else (r_del s (KPod p), ROk PUnit)
      end
  | OGetPod p =>
      match r_get_one s (KPod p) with
      | inr e => (s, RErr e)
      | inl (VPod n d) => (s, ROk (PPod n d))
      | inl _ => (s, RErr EOther)
      end
  | OGetAllPods =>
      (s, match r_all_pods s with inl l => ROk (PPods l) | inr e => RErr e end)
  | OAddNode nd ca cert ky =>
      match r_get_one s (KPod (n_pod nd)) with
      | inr e => (s, RErr e)
      | inl (VPod _ _) =>
          match r_batch_create s (add_node_data nd ca cert ky) with
          | (s', None) => (s', ROk (PNode (mkNV (new_node nd) true)))
          | (s', Some e) => (s', RErr e)
          end
      | inl _ => (s, RErr EOther)
      end
  | ORemoveNode n p => (r_batch_delete s (remove_node_keys n p), ROk PUnit)
  | OGetNode n => (s, res_first_node (r_get_nodes s [n]))
  | OGetNodes ns => (s, res_nodes (r_get_nodes s ns))
  | OGetNodesByPod p flt all => (s, res_nodes (r_get_nodes_by_pod s p flt all))
  | OUpdateNodes l => (r_batch_put s (update_nodes_data l), ROk PUnit)
  | OSetNodeStatus n p ttl => r_set_node_status s n p ttl
  | OGetNodeStatus n =>
      match r_get_one s (KNStatus n) with
      | inr e => (s, RErr e)
      | inl (VNSt n' p') => (s, ROk (PNSt n' p' true))
      | inl _ => (s, RErr EOther)
      end
  | OLoadNodeCert n =>
      (s, ROk (PCert (raw_or_empty (r_get s (KCa n))) (raw_or_empty (r_get s (KCert n)))
                     (raw_or_empty (r_get s (KKey n)))))
  | OAddWorkload w pr => r_ops_workload s w pr true
  | OUpdateWorkload w => r_ops_workload s w None false
  | ORemoveWorkload w =>
      match w_parse w with
      | None => (s, RErr EName)
      | Some (a, e) => (r_batch_delete s (clean_keys w a e), ROk PUnit)
      end
  | OGetWorkload id => (s, res_first_wl (r_get_workloads s [id]))
  | OGetWorkloads ids => (s, res_wls (r_get_workloads s ids))
  | OGetWorkloadStatus id => (s, res_first_wl_status (r_get_workloads s [id]))
  | OSetWorkloadStatus st a e n ttl => r_set_workload_status s st a e n ttl
  | OListWorkloads a e n limit flt =>
      let '(a', e', n') := list_prefix a e n in
      (s, res_wls (r_list s (deploy_under a' e' n') limit flt))
  | OListNodeWorkloads n flt => (s, res_wls (r_list s (nodewl_under n) 0 flt))
  | OGetDeployStatus a e =>
      match r_by_pattern s (deploy_under a e ""%string) 0 with
      | inr er => (s, RErr er)
      | inl dkvs =>
          match r_by_pattern s (proc_under a e) 0 with
          | inr er => (s, RErr er)
          | inl pkvs =>
              (s, ROk (PCounts (merge_counts (deploy_counts (map fst dkvs)) (processing_counts pkvs))))
          end
      end
  | OCreateProcessing pr cnt =>
      match r_batch_create s [(proc_key pr, VCnt cnt)] with
      | (s', None) => (s', ROk PUnit)
      | (s', Some e) => (s', RErr e)
      end
  | ODeleteProcessing pr => (r_batch_delete s [proc_key pr], ROk PUnit)
  | OAdvance d => (r_tick s d, ROk PUnit)
  end.
