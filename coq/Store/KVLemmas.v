(* KVLemmas: facts about the boolean equalities and the association maps of KVPrims. *)
From Coq Require Import List Bool ZArith String Lia.
From Verif Require Import Base.RunLib Store.KVPrims.
Import ListNotations.

Lemma name_eqb_refl : forall a, name_eqb a a = true.
Proof. intro; apply String.eqb_refl. Qed.
Lemma name_eqb_eq : forall a b, name_eqb a b = true -> a = b.
Proof. intros a b H; apply String.eqb_eq; exact H. Qed.
Lemma name_eqb_neq : forall a b, name_eqb a b = false -> a <> b.
Proof. intros a b H; apply String.eqb_neq; exact H. Qed.

Ltac name_eq :=
  repeat match goal with
  | H : _ && _ = true |- _ => apply andb_true_iff in H; destruct H
  | H : name_eqb _ _ = true |- _ => apply name_eqb_eq in H
  | H : Bool.eqb _ _ = true |- _ => apply Bool.eqb_prop in H
  | H : Z.eqb _ _ = true |- _ => apply Z.eqb_eq in H
  end; subst.

Lemma key_eqb_refl : forall k, key_eqb k k = true.
Proof. destruct k; simpl; rewrite ?name_eqb_refl; reflexivity. Qed.
Lemma key_eqb_eq : forall a b, key_eqb a b = true -> a = b.
Proof. destruct a, b; simpl; intro H; try discriminate; name_eq; reflexivity. Qed.
Lemma key_eqb_sym : forall a b, key_eqb a b = key_eqb b a.
Proof.
  intros a b. destruct (key_eqb a b) eqn:E.
  - apply key_eqb_eq in E. subst. symmetry. apply key_eqb_refl.
  - destruct (key_eqb b a) eqn:E2; [|reflexivity].
    apply key_eqb_eq in E2. subst. rewrite key_eqb_refl in E. discriminate.
Qed.
Lemma key_eqb_neq : forall a b, key_eqb a b = false -> a <> b.
Proof. intros a b H E. subst. rewrite key_eqb_refl in H. discriminate. Qed.
Lemma key_eqb_false : forall a b, a <> b -> key_eqb a b = false.
Proof. intros a b H. destruct (key_eqb a b) eqn:E; [apply key_eqb_eq in E; contradiction | reflexivity]. Qed.

(* value equality *)
Lemma pairn_eqb_eq : forall a b : name * name, pair_eqb name_eqb name_eqb a b = true -> a = b.
Proof. intros [a1 a2] [b1 b2]; unfold pair_eqb; simpl; intro H; name_eq; reflexivity. Qed.
Lemma pairn_eqb_refl : forall a : name * name, pair_eqb name_eqb name_eqb a a = true.
Proof. intros [a1 a2]; unfold pair_eqb; simpl; rewrite !name_eqb_refl; reflexivity. Qed.
Lemma labels_eqb_eq : forall a b, labels_eqb a b = true -> a = b.
Proof.
  unfold labels_eqb. induction a as [|x t IH]; destruct b as [|y u]; simpl; intro H; try discriminate; auto.
  apply andb_true_iff in H. destruct H as [H1 H2]. apply pairn_eqb_eq in H1. apply IH in H2. subst. reflexivity.
Qed.
Lemma labels_eqb_refl : forall a, labels_eqb a a = true.
Proof. unfold labels_eqb. induction a as [|x t IH]; simpl; auto. rewrite pairn_eqb_refl, IH. reflexivity. Qed.
Ltac rec_eq :=
  repeat match goal with H : _ && _ = true |- _ => apply andb_true_iff in H; destruct H end;
  repeat match goal with
  | H : name_eqb _ _ = true |- _ => apply name_eqb_eq in H
  | H : labels_eqb _ _ = true |- _ => apply labels_eqb_eq in H
  | H : Bool.eqb _ _ = true |- _ => apply Bool.eqb_prop in H
  | H : option_eqb _ ?a ?b = true |- _ =>
      destruct a, b; simpl in H; try discriminate H; [apply pairn_eqb_eq in H|clear H]
  end; subst.
Lemma ndata_eqb_eq : forall a b, ndata_eqb a b = true -> a = b.
Proof.
  intros [a1 a2 a3 a4 a5 a6] [b1 b2 b3 b4 b5 b6]; unfold ndata_eqb; simpl; intro H.
  rec_eq. reflexivity.
Qed.
Lemma ndata_eqb_refl : forall a, ndata_eqb a a = true.
Proof. intros [a1 a2 a3 a4 a5 a6]; unfold ndata_eqb; simpl.
  rewrite !name_eqb_refl, labels_eqb_refl, !Bool.eqb_reflx. reflexivity. Qed.
Lemma wdata_eqb_eq : forall a b, wdata_eqb a b = true -> a = b.
Proof.
  intros [a1 a2 a3 a4 a5] [b1 b2 b3 b4 b5]; unfold wdata_eqb; simpl; intro H.
  rec_eq; reflexivity.
Qed.
Lemma wdata_eqb_refl : forall a, wdata_eqb a a = true.
Proof. intros [a1 a2 a3 a4 a5]; unfold wdata_eqb; simpl.
  rewrite !name_eqb_refl, labels_eqb_refl. destruct a3; simpl; rewrite ?pairn_eqb_refl; reflexivity. Qed.
Lemma wstat_eqb_eq : forall a b, wstat_eqb a b = true -> a = b.
Proof. intros [a1 a2 a3] [b1 b2 b3]; unfold wstat_eqb; simpl; intro H; name_eq; reflexivity. Qed.
Lemma wstat_eqb_refl : forall a, wstat_eqb a a = true.
Proof. intros [a1 a2 a3]; unfold wstat_eqb; simpl. rewrite name_eqb_refl, !Bool.eqb_reflx. reflexivity. Qed.
Lemma value_eqb_eq : forall a b, value_eqb a b = true -> a = b.
Proof.
  destruct a, b; simpl; intro H; try discriminate.
  - name_eq; reflexivity.
  - apply ndata_eqb_eq in H; subst; reflexivity.
  - apply wdata_eqb_eq in H; subst; reflexivity.
  - name_eq; reflexivity.
  - name_eq; reflexivity.
  - name_eq; reflexivity.
  - apply wstat_eqb_eq in H; subst; reflexivity.
  - name_eq; reflexivity.
Qed.
Lemma value_eqb_refl : forall a, value_eqb a a = true.
Proof.
  destruct a; simpl; rewrite ?name_eqb_refl, ?ndata_eqb_refl, ?wdata_eqb_refl, ?wstat_eqb_refl, ?Z.eqb_refl; reflexivity.
Qed.

(* ---- maps ---- *)
Section MapLemmas.
  Context {V : Type}.
  Implicit Types m : list (key * V).

  Lemma lookup_put_same : forall m k v, lookup (put m k v) k = Some v.
  Proof.
    induction m as [|[k' v'] t IH]; intros; simpl.
    - rewrite key_eqb_refl. reflexivity.
    - destruct (key_eqb k k') eqn:E; simpl; [rewrite key_eqb_refl; reflexivity | rewrite E; apply IH].
  Qed.
  Lemma lookup_put_other : forall m k k' v, key_eqb k' k = false -> lookup (put m k v) k' = lookup m k'.
  Proof.
    induction m as [|[k0 v0] t IH]; intros k k' v H; simpl.
    - rewrite H. reflexivity.
    - destruct (key_eqb k k0) eqn:E; simpl.
      + apply key_eqb_eq in E. subst. rewrite H. reflexivity.
      + destruct (key_eqb k' k0); [reflexivity | apply IH; exact H].
  Qed.
  Lemma lookup_del_same : forall m k, lookup (del m k) k = None.
  Proof.
    induction m as [|[k0 v0] t IH]; intros k; simpl; [reflexivity|].
    destruct (key_eqb k k0) eqn:E; simpl; [apply IH | rewrite E; apply IH].
  Qed.
  Lemma lookup_del_other : forall m k k', key_eqb k' k = false -> lookup (del m k) k' = lookup m k'.
  Proof.
    induction m as [|[k0 v0] t IH]; intros k k' H; simpl; [reflexivity|].
    destruct (key_eqb k k0) eqn:E; simpl.
    - apply key_eqb_eq in E. subst. rewrite H. apply IH; exact H.
    - destruct (key_eqb k' k0); [reflexivity | apply IH; exact H].
  Qed.
  Lemma del_absent : forall m k, lookup m k = None -> del m k = m.
  Proof.
    induction m as [|[k0 v0] t IH]; intros k H; simpl in *; [reflexivity|].
    destruct (key_eqb k k0) eqn:E; [discriminate|]. simpl. f_equal. apply IH. exact H.
  Qed.
  Lemma mem_lookup : forall m k, mem m k = match lookup m k with Some _ => true | None => false end.
  Proof. reflexivity. Qed.

  Lemma lookup_in : forall m k v, lookup m k = Some v -> In (k, v) m.
  Proof.
    induction m as [|[k0 v0] t IH]; intros k v H; simpl in *; [discriminate|].
    destruct (key_eqb k k0) eqn:E.
    - apply key_eqb_eq in E. inversion H. subst. left. reflexivity.
    - right. apply IH. exact H.
  Qed.
  Lemma lookup_none_notin : forall m k, lookup m k = None -> ~ In k (map fst m).
  Proof.
    induction m as [|[k0 v0] t IH]; intros k H; simpl in *; [tauto|].
    destruct (key_eqb k k0) eqn:E; [discriminate|].
    intros [H1 | H1]; [subst; rewrite key_eqb_refl in E; discriminate | eapply IH; eauto].
  Qed.
  Lemma notin_lookup_none : forall m k, ~ In k (map fst m) -> lookup m k = None.
  Proof.
    induction m as [|[k0 v0] t IH]; intros k H; simpl in *; [reflexivity|].
    destruct (key_eqb k k0) eqn:E.
    - apply key_eqb_eq in E. subst. tauto.
    - apply IH. tauto.
  Qed.
  Lemma in_nodup_lookup : forall m k v, NoDup (map fst m) -> In (k, v) m -> lookup m k = Some v.
  Proof.
    induction m as [|[k0 v0] t IH]; intros k v ND H; simpl in *; [tauto|].
    inversion ND; subst. destruct H as [H | H].
    - inversion H; subst. rewrite key_eqb_refl. reflexivity.
    - destruct (key_eqb k k0) eqn:E.
      + apply key_eqb_eq in E. subst. exfalso. apply H2. apply in_map_iff. exists (k0, v). auto.
      + apply IH; auto.
  Qed.

  (* keys of put / del *)
  Lemma keys_put_present : forall m k v, In k (map fst m) -> map fst (put m k v) = map fst m.
  Proof.
    induction m as [|[k0 v0] t IH]; intros k v H; simpl in *; [tauto|].
    destruct (key_eqb k k0) eqn:E; simpl.
    - apply key_eqb_eq in E. subst. reflexivity.
    - f_equal. apply IH. destruct H; [subst; rewrite key_eqb_refl in E; discriminate | assumption].
  Qed.
  Lemma keys_put_absent : forall m k v, ~ In k (map fst m) -> map fst (put m k v) = map fst m ++ [k].
  Proof.
    induction m as [|[k0 v0] t IH]; intros k v H; simpl in *; [reflexivity|].
    destruct (key_eqb k k0) eqn:E; simpl.
    - apply key_eqb_eq in E. subst. tauto.
    - f_equal. apply IH. tauto.
  Qed.
  Lemma in_keys_put : forall m k v x, In x (map fst (put m k v)) -> x = k \/ In x (map fst m).
  Proof.
    induction m as [|[k0 v0] t IH]; intros k v x H; simpl in *.
    - destruct H; [left; auto | tauto].
    - destruct (key_eqb k k0) eqn:E; simpl in *.
      + apply key_eqb_eq in E. subst. destruct H; auto.
      + destruct H as [H | H]; [right; left; exact H|]. apply IH in H. tauto.
  Qed.
  Lemma nodup_put : forall m k v, NoDup (map fst m) -> NoDup (map fst (put m k v)).
  Proof.
    induction m as [|[k0 v0] t IH]; intros k v ND; simpl in *.
    - constructor; [simpl; tauto | constructor].
    - destruct (key_eqb k k0) eqn:E; simpl.
      + apply key_eqb_eq in E. subst. exact ND.
      + inversion ND; subst. constructor; [|apply IH; assumption].
        intro HI. apply in_keys_put in HI. destruct HI as [HI | HI]; [|contradiction].
        subst. rewrite key_eqb_refl in E. discriminate.
  Qed.
  Lemma in_keys_filter : forall (f : key * V -> bool) m x, In x (map fst (filter f m)) -> In x (map fst m).
  Proof.
    induction m as [|a t IH]; intros x H; simpl in *; [tauto|].
    destruct (f a); simpl in *; [destruct H; auto | auto].
  Qed.
  Lemma nodup_filter : forall (f : key * V -> bool) m, NoDup (map fst m) -> NoDup (map fst (filter f m)).
  Proof.
    induction m as [|a t IH]; intros ND; simpl in *; [constructor|].
    inversion ND; subst. destruct (f a); simpl; [|auto].
    constructor; [|auto]. intro HI. apply in_keys_filter in HI. contradiction.
  Qed.
  Lemma nodup_del : forall m k, NoDup (map fst m) -> NoDup (map fst (del m k)).
  Proof. intros. apply nodup_filter. assumption. Qed.
End MapLemmas.
