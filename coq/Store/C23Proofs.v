(* C23Proofs: statements of property C23 over the store models. *)
From Coq Require Import List Bool ZArith String Lia.
From Verif Require Import Base.RunLib Store.KVPrims Store.KVLemmas Store.Ops Store.Status Store.Spec
  Store.EtcdModel Store.RedisModel Store.Case Store.EtcdProofs.
Import ListNotations.
Local Open Scope Z_scope.
Local Open Scope string_scope.

(* etcd: every history run from the empty store gives exactly the results of
   the specification, and the abstraction of the final state is the
   specification's final state *)
Definition etcd_refines_spec_stmt : Prop :=
  forall h : list op,
    run spec_step s_init h = (abs (fst (run estep e_init h)), snd (run estep e_init h)).
Lemma etcd_refines_spec_holds : etcd_refines_spec_stmt.
Proof. intro h. rewrite <- abs_init. apply (erun_refines h e_init inv_init). Qed.

(* one more step after any history *)
Definition etcd_step_refines_stmt : Prop :=
  forall (h : list op) (o : op),
    let s := fst (run estep e_init h) in
    spec_step (abs s) o = (abs (fst (estep s o)), snd (estep s o)).
Lemma etcd_step_refines_holds : etcd_step_refines_stmt.
Proof.
  intros h o s. destruct (erun_refines h e_init inv_init) as [_ I]. apply (estep_refines _ o I).
Qed.

(* a create that fails on the etcd store leaves every read-only Store call unchanged *)
Definition etcd_failed_create_noop_stmt : Prop :=
  forall (h : list op) (o : op) (e : err),
    let s := fst (run estep e_init h) in
    is_create o = true -> snd (estep s o) = RErr e ->
    abs (fst (estep s o)) = abs s /\
    forall q r, read_op (e_view s) q = Some r -> estep (fst (estep s o)) q = (fst (estep s o), r).
Lemma etcd_failed_create_noop_holds : etcd_failed_create_noop_stmt.
Proof.
  intros h o e s C R. destruct (erun_refines h e_init inv_init) as [_ I]. fold s in I.
  destruct (estep_refines s o I) as [E _]. rewrite R in E.
  pose proof (spec_failed_create_noop _ _ _ _ C E) as A. split; [exact A|].
  intros q r Q. set (s' := fst (estep s o)) in *. unfold estep. rewrite <- (view_abs s'), A, view_abs, Q. reflexivity.
Qed.

(* the specification itself: failed creates change nothing *)
Definition spec_failed_create_noop_stmt : Prop :=
  forall s o s' e, is_create o = true -> spec_step s o = (s', RErr e) -> s' = s.

(* ---- Redis: the full statement is false of the faithful model ---- *)
Fixpoint all_sim (l1 l2 : list result) : bool :=
  match l1, l2 with
  | [], [] => true
  | a :: t1, b :: t2 => result_sim a b && all_sim t1 t2
  | _, _ => false
  end.
Definition nd0 (p : name) : ndata := mkN "n0" "verif://n0" p [] false false.
(* AddNode of an existing node name under another pod: both stores refuse, but
   the Redis store has created /node/p1:pod/n0, which GetNodesByPod then returns *)
Definition witness_partial_create : list op :=
  [OAddPod "p0" "d"; OAddPod "p1" "d"; OAddNode (nd0 "p0") "" "" ""; OAddNode (nd0 "p1") "" "" "";
   OGetNodesByPod "p1" [] true].
Definition redis_refuted_stmt : Prop :=
  exists h, all_sim (snd (run rstep r_init h)) (snd (run estep e_init h)) = false.
Lemma redis_refuted_holds : redis_refuted_stmt.
Proof. exists witness_partial_create. vm_compute. reflexivity. Qed.

(* ... and a failed create is not a no-op on Redis *)
Definition redis_failed_create_changes_stmt : Prop :=
  exists h o e, is_create o = true /\
    let s := fst (run rstep r_init h) in
    snd (rstep s o) = RErr e /\ r_kv (fst (rstep s o)) <> r_kv s.
Lemma redis_failed_create_changes_holds : redis_failed_create_changes_stmt.
Proof.
  exists [OAddPod "p0" "d"; OAddPod "p1" "d"; OAddNode (nd0 "p0") "" "" ""], (OAddNode (nd0 "p1") "" "" ""), EExists.
  split; [reflexivity|]. split; [vm_compute; reflexivity|]. vm_compute. discriminate.
Qed.

(* the hypotheses of the statements are satisfiable / the models are not vacuous *)
Example etcd_history_example :
  snd (run estep e_init witness_partial_create) =
  [ROk (PPod "p0" "d"); ROk (PPod "p1" "d"); ROk (PNode (mkNV (nd0 "p0") true)); RErr EExists; ROk (PNodes [])].
Proof. vm_compute. reflexivity. Qed.
