(* C23Proofs: statements of property C23 over the store models. *)
From Coq Require Import List Bool ZArith String Lia.
From Verif Require Import Base.RunLib Store.KVPrims Store.KVLemmas Store.Ops Store.Status Store.Spec
  Store.EtcdModel Store.RedisModel Store.Case Store.EtcdProofs Store.RedisProofs.
Import ListNotations.
Local Open Scope Z_scope.
Local Open Scope string_scope.

(* etcd: every history run from the empty store gives exactly the results of
   the specification, and the abstraction of the final state is the
   specification's final state *)
Definition etcd_refines_spec_stmt : Prop :=
  forall h : list op,
    run spec_step s_init h = (abs (fst (run estep e_init h)), snd (run estep e_init h)).
Lemma etcd_refines_spec_holds : etcd_refines_spec_stmt.
Proof. intro h. rewrite <- abs_init. apply (erun_refines h e_init inv_init). Qed.

(* one more step after any history *)
Definition etcd_step_refines_stmt : Prop :=
  forall (h : list op) (o : op),
    let s := fst (run estep e_init h) in
    spec_step (abs s) o = (abs (fst (estep s o)), snd (estep s o)).
Lemma etcd_step_refines_holds : etcd_step_refines_stmt.
Proof.
  intros h o s. destruct (erun_refines h e_init inv_init) as [_ I]. apply (estep_refines _ o I).
Qed.

(* a create that fails on the etcd store leaves every read-only Store call unchanged *)
Definition etcd_failed_create_noop_stmt : Prop :=
  forall (h : list op) (o : op) (e : err),
    let s := fst (run estep e_init h) in
    is_create o = true -> snd (estep s o) = RErr e ->
    abs (fst (estep s o)) = abs s /\
    forall q r, read_op (e_view s) q = Some r -> estep (fst (estep s o)) q = (fst (estep s o), r).
Lemma etcd_failed_create_noop_holds : etcd_failed_create_noop_stmt.
Proof.
  intros h o e s C R. destruct (erun_refines h e_init inv_init) as [_ I]. fold s in I.
  destruct (estep_refines s o I) as [E _]. rewrite R in E.
  pose proof (spec_failed_create_noop _ _ _ _ C E) as A. split; [exact A|].
  intros q r Q. set (s' := fst (estep s o)) in *. unfold estep. rewrite <- (view_abs s'), A, view_abs, Q. reflexivity.
Qed.

(* the specification itself: failed creates change nothing *)
Definition spec_failed_create_noop_stmt : Prop :=
  forall s o s' e, is_create o = true -> spec_step s o = (s', RErr e) -> s' = s.

(* ---- Redis: the full statement is false of the faithful model ---- *)
Fixpoint all_sim (l1 l2 : list result) : bool :=
  match l1, l2 with
  | [], [] => true
  | a :: t1, b :: t2 => result_sim a b && all_sim t1 t2
  | _, _ => false
  end.
Definition nd0 (p : name) : ndata := mkN "n0" "verif://n0" p [] false false.
(* AddNode of an existing node name under another pod: both stores refuse, but
   the Redis store has created /node/p1:pod/n0, which GetNodesByPod then returns *)
Definition witness_partial_create : list op :=
  [OAddPod "p0" "d"; OAddPod "p1" "d"; OAddNode (nd0 "p0") "" "" ""; OAddNode (nd0 "p1") "" "" "";
   OGetNodesByPod "p1" [] true].
Definition redis_refuted_stmt : Prop :=
  exists h, all_sim (snd (run rstep r_init h)) (snd (run estep e_init h)) = false.
Lemma redis_refuted_holds : redis_refuted_stmt.
Proof. exists witness_partial_create. vm_compute. reflexivity. Qed.

(* ... and a failed create is not a no-op on Redis *)
Definition redis_failed_create_changes_stmt : Prop :=
  exists h o e, is_create o = true /\
    let s := fst (run rstep r_init h) in
    snd (rstep s o) = RErr e /\ r_kv (fst (rstep s o)) <> r_kv s.
Lemma redis_failed_create_changes_holds : redis_failed_create_changes_stmt.
Proof.
  exists [OAddPod "p0" "d"; OAddPod "p1" "d"; OAddNode (nd0 "p0") "" "" ""], (OAddNode (nd0 "p1") "" "" ""), EExists.
  split; [reflexivity|]. split; [vm_compute; reflexivity|]. vm_compute. discriminate.
Qed.

(* ---- Redis: what is true.  On histories whose every step is redis-safe in
   the abstract state it is taken in (no create of a partially existing entity,
   AddWorkload-with-processing only with an existing counter and a new
   workload, node status only for existing nodes, duplicate-free name lists),
   the Redis store takes exactly the specified steps. ---- *)
Definition redis_refines_spec_partial_stmt : Prop :=
  forall h : list op, safe_history s_init h = true ->
    fst (run rstep r_init h) = fst (run spec_step s_init h) /\
    Forall2 res_equiv (snd (run rstep r_init h)) (snd (run spec_step s_init h)).
Lemma nodup_init : NoDup (map fst (r_kv r_init)).
Proof. constructor. Qed.
Lemma redis_refines_spec_partial_holds : redis_refines_spec_partial_stmt.
Proof. intros h SH. apply (rrun_refines h r_init nodup_init SH). Qed.

(* both stores behave identically on those histories *)
Definition equiv_stmt : Prop :=
  forall h : list op, safe_history s_init h = true ->
    abs (fst (run estep e_init h)) = fst (run rstep r_init h) /\
    Forall2 res_equiv (snd (run rstep r_init h)) (snd (run estep e_init h)).
Lemma equiv_holds : equiv_stmt.
Proof.
  intros h SH. destruct (redis_refines_spec_partial_holds h SH) as [R1 R2].
  pose proof (etcd_refines_spec_holds h) as E. rewrite E in R1, R2. cbn [fst snd] in R1, R2.
  split; [symmetry; exact R1 | exact R2].
Qed.

Lemma run_app : forall {S} (step : S -> op -> S * result) h1 h2 s,
  run step s (h1 ++ h2) =
  (fst (run step (fst (run step s h1)) h2), (snd (run step s h1) ++ snd (run step (fst (run step s h1)) h2))%list).
Proof.
  induction h1 as [|o t IH]; intros h2 s; cbn [run app fst snd].
  - destruct (run step s h2); reflexivity.
  - destruct (step s o) as [s1 r]. rewrite IH. destruct (run step s1 t) as [s2 rs]. cbn [fst snd].
    destruct (run step s2 h2); reflexivity.
Qed.
Lemma safe_history_app : forall h1 h2 s,
  safe_history s (h1 ++ h2) = safe_history s h1 && safe_history (fst (run spec_step s h1)) h2.
Proof.
  induction h1 as [|o t IH]; intros h2 s; cbn [safe_history app run fst]; [reflexivity|].
  rewrite IH, andb_assoc. destruct (spec_step s o) as [s1 r]. cbn [fst].
  destruct (run spec_step s1 t); reflexivity.
Qed.
Lemma spec_run_nodup : forall h s, NoDup (map fst (r_kv s)) -> NoDup (map fst (r_kv (fst (run spec_step s h)))).
Proof.
  induction h as [|o t IH]; intros s N; cbn [run fst]; [exact N|].
  pose proof (spec_nodup s o N) as N1. destruct (spec_step s o) as [s1 r]. cbn [fst] in N1.
  specialize (IH s1 N1). destruct (run spec_step s1 t). exact IH.
Qed.

(* a create that fails on Redis leaves the store unchanged, on redis-safe histories *)
Definition redis_failed_create_noop_partial_stmt : Prop :=
  forall (h : list op) (o : op) (e : err),
    let s := fst (run rstep r_init h) in
    safe_history s_init (h ++ [o]) = true ->
    is_create o = true -> snd (rstep s o) = RErr e -> fst (rstep s o) = s.
Lemma redis_failed_create_noop_partial_holds : redis_failed_create_noop_partial_stmt.
Proof.
  intros h o e s SH C R. rewrite safe_history_app in SH. apply andb_true_iff in SH. destruct SH as [S1 S2].
  cbn [safe_history] in S2. rewrite andb_true_r in S2.
  destruct (redis_refines_spec_partial_holds h S1) as [E _]. fold s in E. rewrite <- E in S2.
  assert (N : NoDup (map fst (r_kv s))) by (rewrite E; apply spec_run_nodup; apply nodup_init).
  destruct (rstep_refines s o N S2) as [F1 F2]. rewrite R in F2. rewrite F1.
  destruct (spec_step s o) as [s' r'] eqn:ST. cbn [fst snd] in *.
  destruct r' as [|e'|]; cbn in F2; try contradiction.
  apply (spec_failed_create_noop s o s' e' C ST).
Qed.

Example safe_history_example :
  safe_history s_init [OAddPod "p0" "d"; OAddNode (nd0 "p0") "" "" ""; OAddNode (nd0 "p0") "" "" "";
                       OSetNodeStatus "n0" "p0" 5; OGetNodesByPod "" [] false] = true.
Proof. vm_compute. reflexivity. Qed.

(* the hypotheses of the statements are satisfiable / the models are not vacuous *)
Example etcd_history_example :
  snd (run estep e_init witness_partial_create) =
  [ROk (PPod "p0" "d"); ROk (PPod "p1" "d"); ROk (PNode (mkNV (nd0 "p0") true)); RErr EExists; ROk (PNodes [])].
Proof. vm_compute. reflexivity. Qed.
