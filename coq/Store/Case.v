(* Case: the cases of the correspondence check for the metadata stores.

   A case is one operation history executed on both real stores.  [IOp] is an
   operation with the result observed on etcd and on Redis; [ISnap] is a
   read-back snapshot: a fixed list of read-only Store calls with both observed
   results, plus the raw content of both backing stores (key, value, remaining
   TTL in seconds).

   agree: the etcd model reproduces every etcd observation (results exactly,
          lists up to order, and the raw store content), and the Redis model
          every Redis observation.
   ok23:  boolean reflection of C23 on the observations: both backends agree on
          success/failure and payload of every call and every snapshot read, and
          a failed create leaves the snapshot of that backend unchanged. *)
From Coq Require Import List Bool ZArith String.
From Verif Require Import Base.RunLib Store.KVPrims Store.Ops Store.Status Store.EtcdModel Store.RedisModel.
Import ListNotations.
Local Open Scope Z_scope.

Definition dump := list (key * value * option Z).
Inductive item :=
| IOp (o : op) (re rr : result)
| ISnap (ops : list op) (res : list (result * result)) (de dr : dump)
| IKeys (raw_e raw_r : list string).   (* the raw key strings of both backing stores, sorted bytewise *)
Definition case := list item.
(* abbreviations used by the harness when both backends gave the same observation *)
Definition IOpS (o : op) (r : result) : item := IOp o r r.
Definition ISnapD (ops : list op) (res : list (result * result)) (d : dump) : item := ISnap ops res d d.
Definition same (r : result) : result * result := (r, r).
Definition nf : result * result := (RErr ECount, RErr ENil).   (* not found: etcd / redis *)

Definition dentry_eqb (a b : key * value * option Z) : bool :=
  key_eqb (fst (fst a)) (fst (fst b)) && value_eqb (snd (fst a)) (snd (fst b))
  && option_eqb Z.eqb (snd a) (snd b).
Definition dump_eqb (a b : dump) : bool := perm_eqb dentry_eqb a b.

Definition e_dump (s : estate) : dump :=
  map (fun kv => (fst kv, e_val (snd kv),
                  match e_lease (snd kv) with
                  | None => None
                  | Some id => match lookup_lease (e_leases s) id with
                               | Some l => Some (l_exp l - e_now s)
                               | None => Some (-2)
                               end
                  end)) (e_kv s).
Definition r_dump (s : rstate) : dump :=
  map (fun kv => (fst kv, s_val (snd kv), option_map (fun e => e - r_now s) (s_exp (snd kv)))) (r_kv s).

Fixpoint agree_e (s : estate) (l : case) : bool :=
  match l with
  | [] => true
  | IOp o re _ :: t => let '(s', r) := estep s o in result_eqb r re && agree_e s' t
  | ISnap os rs de _ :: t =>
      Nat.eqb (List.length os) (List.length rs)
      && forallb (fun p => result_eqb (snd (estep s (fst p))) (fst (snd p))) (combine os rs)
      && dump_eqb (e_dump s) de && agree_e s t
  | IKeys raw _ :: t =>
      (* validates [render] and the scan order against the real key strings *)
      list_eqb String.eqb (map (fun kv => render (fst kv)) (isort (e_kv s))) raw && agree_e s t
  end.
(* Redis ListWorkloads collects the scanned records in a Go map and keys the
   status lookup by workload ID: when two listed records share an ID (possible
   only after a non-atomic Redis create) the status attached to them depends on
   Go's map order.  Such observations are compared on the records only. *)
Fixpoint ids_nodup (l : list name) : bool :=
  match l with [] => true | x :: t => negb (existsb (name_eqb x) t) && ids_nodup t end.
Definition result_eqb_r (model obs : result) : bool :=
  match model, obs with
  | ROk (PWls l1), ROk (PWls l2) =>
      if ids_nodup (map (fun v => w_id (wv_d v)) l2) then result_eqb model obs
      else perm_eqb wdata_eqb (map wv_d l1) (map wv_d l2)
  | _, _ => result_eqb model obs
  end.
Fixpoint agree_r (s : rstate) (l : case) : bool :=
  match l with
  | [] => true
  | IOp o _ rr :: t => let '(s', r) := rstep s o in result_eqb_r r rr && agree_r s' t
  | ISnap os rs _ dr :: t =>
      Nat.eqb (List.length os) (List.length rs)
      && forallb (fun p => result_eqb_r (snd (rstep s (fst p))) (snd (snd p))) (combine os rs)
      && dump_eqb (r_dump s) dr && agree_r s t
  | IKeys _ raw :: t =>
      list_eqb String.eqb (map (fun kv => render (fst kv)) (isort (r_kv s))) raw && agree_r s t
  end.
Definition agree (c : case) : bool := agree_e e_init c && agree_r r_init c.

(* ---- C23 on the observations ---- *)
Definition is_create (o : op) : bool :=
  match o with OAddPod _ _ | OAddNode _ _ _ _ | OAddWorkload _ _ | OCreateProcessing _ _ => true | _ => false end.
Definition is_err (r : result) : bool := match r with RErr _ => true | _ => false end.

Definition item_sim (i : item) : bool :=
  match i with
  | IOp _ re rr => result_sim re rr
  | ISnap _ rs _ _ => forallb (fun p => result_sim (fst p) (snd p)) rs
  | IKeys _ _ => true
  end.
Fixpoint probes_same (sel : result * result -> result) (p1 p2 : list (result * result)) : bool :=
  match p1, p2 with
  | [], [] => true
  | a :: t1, b :: t2 => result_eqb (sel a) (sel b) && probes_same sel t1 t2
  | _, _ => false
  end.
Fixpoint failed_create_noop (l : case) : bool :=
  match l with
  | ISnap o1 p1 _ _ :: ((IOp o re rr :: ISnap o2 p2 _ _ :: _) as t) =>
      (if is_create o && is_err re then probes_same fst p1 p2 else true)
      && (if is_create o && is_err rr then probes_same snd p1 p2 else true)
      && failed_create_noop t
  | _ :: t => failed_create_noop t
  | [] => true
  end.
Definition ok23 (c : case) : bool := forallb item_sim c && failed_create_noop c.
