(* EtcdProofs: the etcd store model refines the abstract specification. *)
From Coq Require Import List Bool ZArith String Lia.
From Verif Require Import Base.RunLib Store.KVPrims Store.KVLemmas Store.Ops Store.Status Store.Spec Store.EtcdModel Store.RedisModel Store.Case.
Import ListNotations.
Local Open Scope Z_scope.

(* ---- value-wise maps over association lists ---- *)
Definition mapv {V W} (f : V -> W) (m : list (key * V)) : list (key * W) :=
  map (fun kv => (fst kv, f (snd kv))) m.

Section Mapv.
  Context {V W : Type} (f : V -> W).
  Lemma lookup_mapv : forall m k, lookup (mapv f m) k = option_map f (lookup m k).
  Proof. induction m as [|[k0 v0] t IH]; intro k; simpl; [reflexivity|]. destruct (key_eqb k k0); [reflexivity | apply IH]. Qed.
  Lemma mem_mapv : forall m k, mem (mapv f m) k = mem m k.
  Proof. intros. unfold mem. rewrite lookup_mapv. destruct (lookup m k); reflexivity. Qed.
  Lemma put_mapv : forall m k v, put (mapv f m) k (f v) = mapv f (put m k v).
  Proof. induction m as [|[k0 v0] t IH]; intros k v; simpl; [reflexivity|].
    destruct (key_eqb k k0); simpl; [reflexivity | f_equal; apply IH]. Qed.
  Lemma filter_key_mapv : forall (p : key -> bool) m,
    filter (fun kv => p (fst kv)) (mapv f m) = mapv f (filter (fun kv => p (fst kv)) m).
  Proof. induction m as [|[k0 v0] t IH]; simpl; [reflexivity|]. destruct (p k0); simpl; [f_equal|]; apply IH. Qed.
  Lemma del_mapv : forall m k, del (mapv f m) k = mapv f (del m k).
  Proof. intros. unfold del. apply (filter_key_mapv (fun x => negb (key_eqb k x))). Qed.
  Lemma ins_mapv : forall x m, ins (fst x, f (snd x)) (mapv f m) = mapv f (ins x m).
  Proof. intros x. induction m as [|[k0 v0] t IH]; simpl; [reflexivity|].
    destruct (key_leb (fst x) k0); simpl; [reflexivity | f_equal; apply IH]. Qed.
  Lemma isort_mapv : forall m, isort (mapv f m) = mapv f (isort m).
  Proof. induction m as [|x t IH]; simpl; [reflexivity|]. rewrite IH. apply ins_mapv. Qed.
  Lemma scan_mapv : forall m p, scan (mapv f m) p = mapv f (scan m p).
  Proof. intros. unfold scan. rewrite filter_key_mapv. apply isort_mapv. Qed.
  Lemma keys_mapv : forall m, map fst (mapv f m) = map fst m.
  Proof. intros. unfold mapv. rewrite map_map. reflexivity. Qed.
End Mapv.

(* ---- the abstraction function ---- *)
Definition abs_entry (ls : list (N * lease)) (e : eentry) : sentry :=
  mkS (e_val e) (match e_lease e with
                 | Some id => option_map l_exp (lookup_lease ls id)
                 | None => None
                 end).
Definition abs_kv (ls : list (N * lease)) (kv : list (key * eentry)) := mapv (abs_entry ls) kv.
Definition abs (s : estate) : sstate := mkRS (abs_kv (e_leases s) (e_kv s)) (e_now s).

Lemma view_abs : forall s, s_view (abs s) = e_view s.
Proof. intros. unfold s_view, e_view, abs, abs_kv, mapv. simpl. rewrite map_map. reflexivity. Qed.
Lemma mem_abs : forall s k, s_mem (abs s) k = mem (e_kv s) k.
Proof. intros. unfold s_mem, abs, abs_kv. simpl. apply mem_mapv. Qed.
Lemma lookup_view : forall s k, lookup (e_view s) k = option_map e_val (lookup (e_kv s) k).
Proof. intros. unfold e_view. apply (lookup_mapv e_val). Qed.

(* ---- transactions ---- *)
Fixpoint exec_list (kv : list (key * eentry)) (l : list top) : list (key * eentry) * list tresp :=
  match l with
  | [] => (kv, [])
  | o :: t => let '(kv1, r) := exec_top kv o in
              let '(kv2, rs) := exec_list kv1 t in (kv2, r :: rs)
  end.
Lemma exec_top_txn : forall kv c th el,
  exec_top kv (TTxn c th el) =
  let ok := forallb (eval_cmp kv) c in
  let '(kv', rs) := exec_list kv (if ok then th else el) in (kv', RsTxn ok rs).
Proof. reflexivity. Qed.
Lemma e_txn_eq : forall s c th el,
  e_txn s c th el =
  let ok := forallb (eval_cmp (e_kv s)) c in
  let '(kv', rs) := exec_list (e_kv s) (if ok then th else el) in
  (mkES kv' (e_leases s) (e_next s) (e_now s), ok, rs).
Proof.
  intros. unfold e_txn. rewrite exec_top_txn. cbv zeta.
  destruct (exec_list (e_kv s) (if forallb (eval_cmp (e_kv s)) c then th else el)). reflexivity.
Qed.

Definition puts_of (data : list (key * value)) : list top := map (fun d => TPut (fst d) (snd d) None) data.
Definition e_puts (kv : list (key * eentry)) (data : list (key * value)) :=
  fold_left (fun kv d => e_put kv (fst d) (snd d) None) data kv.
Lemma exec_list_puts : forall data kv, fst (exec_list kv (puts_of data)) = e_puts kv data.
Proof.
  induction data as [|d t IH]; intro kv; simpl; [reflexivity|].
  specialize (IH (e_put kv (fst d) (snd d) None)).
  destruct (exec_list (e_put kv (fst d) (snd d) None) (puts_of t)). simpl in *. exact IH.
Qed.
Lemma exec_list_app : forall l1 l2 kv,
  fst (exec_list kv (l1 ++ l2)) = fst (exec_list (fst (exec_list kv l1)) l2).
Proof.
  induction l1 as [|o t IH]; intros l2 kv; simpl; [reflexivity|].
  destruct (exec_top kv o) as [kv1 r]. specialize (IH l2 kv1).
  destruct (exec_list kv1 (t ++ l2)), (exec_list kv1 t). simpl in *. exact IH.
Qed.
Lemma exec_list_dels : forall ks kv, fst (exec_list kv (map TDel ks)) = fold_left (fun kv k => del kv k) ks kv.
Proof.
  induction ks as [|k t IH]; intro kv; simpl; [reflexivity|].
  specialize (IH (del kv k)). destruct (exec_list (del kv k) (map TDel t)). simpl in *. exact IH.
Qed.

Lemma version_zero : forall kv k, (version kv k =? 0) = negb (mem kv k).
Proof. intros. unfold version, mem. destruct (lookup kv k); reflexivity. Qed.
Lemma conds_create : forall kv data,
  forallb (eval_cmp kv) (map (fun d : key * value => CVer0 (fst d) true) data) = negb (existsb (mem kv) (map fst data)).
Proof.
  induction data as [|d t IH]; simpl; [reflexivity|].
  rewrite version_zero, IH. destruct (mem kv (fst d)); reflexivity.
Qed.
Lemma conds_update : forall kv data,
  forallb (eval_cmp kv) (map (fun d : key * value => CVer0 (fst d) false) data) = forallb (mem kv) (map fst data).
Proof.
  induction data as [|d t IH]; simpl; [reflexivity|].
  rewrite version_zero, IH, negb_involutive. reflexivity.
Qed.

(* ---- abstraction commutes with the lease-free writes ---- *)
Lemma abs_e_put : forall ls kv k v, abs_kv ls (e_put kv k v None) = put (abs_kv ls kv) k (mkS v None).
Proof. intros. unfold e_put, abs_kv. rewrite <- put_mapv. reflexivity. Qed.
Definition with_kv (s : estate) kv := mkES kv (e_leases s) (e_next s) (e_now s).
Lemma with_kv_id : forall s, with_kv s (e_kv s) = s.
Proof. destruct s; reflexivity. Qed.
Lemma abs_puts : forall data s kv,
  s_puts (mkRS (abs_kv (e_leases s) kv) (e_now s)) data = abs (with_kv s (e_puts kv data)).
Proof.
  induction data as [|d t IH]; intros s kv; simpl; [reflexivity|].
  unfold s_put at 1. simpl. rewrite <- abs_e_put. apply IH.
Qed.
Lemma abs_dels : forall ks s kv,
  s_dels (mkRS (abs_kv (e_leases s) kv) (e_now s)) ks = abs (with_kv s (fold_left (fun kv k => del kv k) ks kv)).
Proof.
  induction ks as [|k t IH]; intros s kv; simpl; [reflexivity|].
  unfold abs_kv at 1. rewrite del_mapv. apply IH.
Qed.
Lemma mem_abs_kv : forall ls kv k, mem (abs_kv ls kv) k = mem kv k.
Proof. intros. apply mem_mapv. Qed.

Lemma existsb_mem_abs : forall s l, existsb (s_mem (abs s)) l = existsb (mem (e_kv s)) l.
Proof. induction l as [|k t IH]; simpl; [reflexivity|]. rewrite mem_abs, IH. reflexivity. Qed.
Lemma forallb_mem_abs : forall s l, forallb (s_mem (abs s)) l = forallb (mem (e_kv s)) l.
Proof. induction l as [|k t IH]; simpl; [reflexivity|]. rewrite mem_abs, IH. reflexivity. Qed.

Lemma abs_eq : forall s, abs s = mkRS (abs_kv (e_leases s) (e_kv s)) (e_now s).
Proof. reflexivity. Qed.

Lemma batch_put_abs_cond : forall s d t lim,
  e_batch_put s (d :: t) lim =
  let ok := match lim with
            | Some true => negb (existsb (mem (e_kv s)) (map fst (d :: t)))
            | Some false => forallb (mem (e_kv s)) (map fst (d :: t))
            | None => true
            end in
  (if ok then with_kv s (e_puts (e_kv s) (d :: t)) else s, inl ok).
Proof.
  intros. unfold e_batch_put. rewrite e_txn_eq. cbv zeta.
  assert (C : forallb (eval_cmp (e_kv s))
                match lim with
                | Some eq => map (fun kv : key * value => CVer0 (fst kv) eq) (d :: t)
                | None => []
                end =
              match lim with
              | Some true => negb (existsb (mem (e_kv s)) (map fst (d :: t)))
              | Some false => forallb (mem (e_kv s)) (map fst (d :: t))
              | None => true
              end).
  { destruct lim as [[|]|]; [apply conds_create | apply conds_update | reflexivity]. }
  rewrite C. clear C.
  match goal with |- context [if ?b then _ else _] => destruct b end.
  - pose proof (exec_list_puts (d :: t) (e_kv s)) as P. unfold puts_of in P.
    destruct (exec_list (e_kv s) (map (fun kv : key * value => TPut (fst kv) (snd kv) None) (d :: t))) as [kv' rs].
    simpl in P. subst kv'. reflexivity.
  - simpl. destruct s; reflexivity.
Qed.

Lemma batch_create_abs : forall s data,
  s_create (abs s) data = (abs (fst (e_batch_create s data)), snd (e_batch_create s data)).
Proof.
  intros s data. unfold e_batch_create, s_create.
  destruct data as [|d t]; [reflexivity|].
  rewrite batch_put_abs_cond. cbv zeta. rewrite existsb_mem_abs.
  destruct (existsb (mem (e_kv s)) (map fst (d :: t))); cbn -[s_puts abs e_puts]; [reflexivity|].
  rewrite abs_eq, abs_puts. reflexivity.
Qed.
Lemma batch_update_abs : forall s data,
  s_update (abs s) data = (abs (fst (e_batch_update s data)), snd (e_batch_update s data)).
Proof.
  intros s data. unfold e_batch_update, s_update.
  destruct data as [|d t]; [reflexivity|].
  rewrite batch_put_abs_cond. cbv zeta. rewrite forallb_mem_abs.
  destruct (forallb (mem (e_kv s)) (map fst (d :: t))); cbn -[s_puts abs e_puts]; [|reflexivity].
  rewrite abs_eq, abs_puts. reflexivity.
Qed.
Lemma batch_delete_abs : forall s ks, s_dels (abs s) ks = abs (e_batch_delete s ks).
Proof.
  intros. unfold e_batch_delete. rewrite e_txn_eq. simpl.
  pose proof (exec_list_dels ks (e_kv s)) as P.
  destruct (exec_list (e_kv s) (map TDel ks)) as [kv' rs]. simpl in P. subst kv'.
  rewrite abs_eq, abs_dels. reflexivity.
Qed.
Lemma delete_abs : forall s k, s_dels (abs s) [k] = abs (fst (e_delete s k)).
Proof. intros. unfold e_delete. simpl. unfold abs, abs_kv. simpl. rewrite del_mapv. reflexivity. Qed.

Lemma batch_put_none_abs : forall s d t,
  e_batch_put s (d :: t) None = (with_kv s (e_puts (e_kv s) (d :: t)), inl true)
  /\ s_puts (abs s) (d :: t) = abs (with_kv s (e_puts (e_kv s) (d :: t))).
Proof. intros. split; [apply batch_put_abs_cond | rewrite abs_eq; apply abs_puts]. Qed.

(* BatchCreateAndDecr *)
Lemma e_puts_app : forall kv d1 d2, e_puts kv (d1 ++ d2) = e_puts (e_puts kv d1) d2.
Proof. intros. unfold e_puts. apply fold_left_app. Qed.
Lemma create_and_decr_abs : forall s data dk,
  match lookup (e_view s) dk with
  | None => e_batch_create_and_decr s data dk = (s, Some ENotExists)
  | Some (VCnt c) =>
      snd (e_batch_create_and_decr s data dk) = None /\
      fst (e_batch_create_and_decr s data dk) = with_kv s (e_puts (e_kv s) (data ++ [(dk, VCnt (c - 1))])) /\
      abs (fst (e_batch_create_and_decr s data dk)) = s_puts (abs s) (data ++ [(dk, VCnt (c - 1))])
  | Some _ => e_batch_create_and_decr s data dk = (s, Some EOther)
  end.
Proof.
  intros. rewrite lookup_view. unfold e_batch_create_and_decr.
  destruct (lookup (e_kv s) dk) as [e|] eqn:L; simpl; [|reflexivity].
  destruct (e_val e) eqn:EV; try reflexivity.
  rewrite e_txn_eq. cbv zeta. cbn [forallb eval_cmp]. rewrite L, EV. cbn [value_eqb]. rewrite Z.eqb_refl.
  cbn [andb].
  pose proof (exec_list_app (map (fun kv : key * value => TPut (fst kv) (snd kv) None) data)
                            [TPut dk (VCnt (z - 1)) None] (e_kv s)) as P.
  pose proof (exec_list_puts data (e_kv s)) as Q. unfold puts_of in Q. rewrite Q in P.
  cbn [exec_list exec_top fst] in P.
  destruct (exec_list (e_kv s) (map (fun kv : key * value => TPut (fst kv) (snd kv) None) data ++
                                    [TPut dk (VCnt (z - 1)) None])) as [kv' rs].
  cbn [fst] in P. subst kv'. cbn [fst snd]. split; [reflexivity|].
  split; [rewrite e_puts_app; reflexivity|].
  rewrite (abs_eq s), abs_puts, e_puts_app. reflexivity.
Qed.

(* ---- the clock ---- *)
Lemma lookup_lease_filter : forall (p : N -> bool) ls id,
  lookup_lease (filter (fun il : N * lease => p (fst il)) ls) id = if p id then lookup_lease ls id else None.
Proof.
  induction ls as [|[i l] t IH]; intro id; simpl; [destruct (p id); reflexivity|].
  destruct (p i) eqn:P; simpl.
  - destruct (N.eqb id i) eqn:E; [apply N.eqb_eq in E; subst; rewrite P; reflexivity | apply IH].
  - destruct (N.eqb id i) eqn:E; [apply N.eqb_eq in E; subst; rewrite IH, P; reflexivity | apply IH].
Qed.
Lemma tick_entry : forall ls now' e,
  negb (match e_lease e with Some i => lease_dead ls now' i | None => false end) =
  negb (match s_exp (abs_entry ls e) with Some x => x <=? now' | None => false end)
  /\ (negb (match e_lease e with Some i => lease_dead ls now' i | None => false end) = true ->
      abs_entry (filter (fun il : N * lease => negb (lease_dead ls now' (fst il))) ls) e = abs_entry ls e).
Proof.
  intros. unfold abs_entry. destruct (e_lease e) as [id|]; cbn [s_exp]; [|split; reflexivity].
  rewrite (lookup_lease_filter (fun i => negb (lease_dead ls now' i))).
  unfold lease_dead. destruct (lookup_lease ls id) as [l|] eqn:LL; cbn [option_map].
  - split; [reflexivity|]. intro H. rewrite H. reflexivity.
  - split; [reflexivity|]. intros _. reflexivity.
Qed.
Lemma tick_abs : forall s d, abs (e_tick s d) = r_tick (abs s) d.
Proof.
  intros s d. unfold e_tick, r_tick, abs. cbn [r_kv r_now e_kv e_leases e_now]. f_equal.
  induction (e_kv s) as [|[k e] t IH]; [reflexivity|].
  cbn [filter abs_kv mapv map fst snd].
  destruct (tick_entry (e_leases s) (e_now s + d) e) as [A B].
  rewrite <- A.
  destruct (negb match e_lease e with Some i => lease_dead (e_leases s) (e_now s + d) i | None => false end) eqn:AL.
  - cbn [abs_kv mapv map fst snd]. rewrite (B eq_refl). f_equal. exact IH.
  - exact IH.
Qed.

(* ---- invariant of reachable etcd states ---- *)
Record inv (s : estate) : Prop := mkInv {
  inv_nodup : NoDup (map fst (e_kv s));
  inv_lease_lt : forall k e id, In (k, e) (e_kv s) -> e_lease e = Some id -> (id < e_next s)%N;
  inv_table_lt : forall id l, In (id, l) (e_leases s) -> (id < e_next s)%N;
  inv_inj : forall k1 e1 k2 e2 id, In (k1, e1) (e_kv s) -> In (k2, e2) (e_kv s) ->
            e_lease e1 = Some id -> e_lease e2 = Some id -> k1 = k2;
  inv_ttl : forall id l, In (id, l) (e_leases s) -> l_ttl l <> 0
}.

Lemma inv_init : inv e_init.
Proof. constructor; simpl; try constructor; intros; contradiction. Qed.

Lemma in_put : forall {V} (m : list (key * V)) k v k' v',
  In (k', v') (put m k v) -> (k', v') = (k, v) \/ In (k', v') m.
Proof.
  induction m as [|[k0 v0] t IH]; intros k v k' v' H; simpl in *.
  - destruct H; [left; auto | tauto].
  - destruct (key_eqb k k0); simpl in H.
    + destruct H; [left; auto | right; right; assumption].
    + destruct H as [H | H]; [right; left; assumption|]. apply IH in H. tauto.
Qed.
Lemma in_del : forall {V} (m : list (key * V)) k x, In x (del m k) -> In x m.
Proof. intros V m k x H. unfold del in H. apply filter_In in H. tauto. Qed.

Lemma inv_kv_sub : forall s kv,
  inv s -> NoDup (map fst kv) ->
  (forall k e, In (k, e) kv -> In (k, e) (e_kv s) \/ e_lease e = None) ->
  inv (with_kv s kv).
Proof.
  intros s kv I ND SUB. destruct I as [I1 I2 I3 I4 I5].
  constructor; simpl; auto.
  - intros k e id HI HL. destruct (SUB _ _ HI) as [H | H]; [eauto | congruence].
  - intros k1 e1 k2 e2 id H1 H2 L1 L2.
    destruct (SUB _ _ H1) as [A | A]; [|congruence]. destruct (SUB _ _ H2) as [B | B]; [|congruence]. eauto.
Qed.
Lemma inv_put_none : forall s k v, inv s -> inv (with_kv s (e_put (e_kv s) k v None)).
Proof.
  intros s k v I. apply inv_kv_sub; auto.
  - unfold e_put. apply nodup_put. apply I.
  - intros k' e' H. unfold e_put in H. apply in_put in H. destruct H as [H | H]; [inversion H; subst; right; reflexivity | left; assumption].
Qed.
Lemma with_kv_kv : forall s kv, e_kv (with_kv s kv) = kv.
Proof. reflexivity. Qed.
Lemma with_kv_with_kv : forall s kv kv', with_kv (with_kv s kv) kv' = with_kv s kv'.
Proof. reflexivity. Qed.
Lemma inv_puts : forall data s, inv s -> inv (with_kv s (e_puts (e_kv s) data)).
Proof.
  induction data as [|d t IH]; intros s I; simpl.
  - rewrite with_kv_id. exact I.
  - specialize (IH _ (inv_put_none s (fst d) (snd d) I)). rewrite with_kv_kv, with_kv_with_kv in IH. exact IH.
Qed.
Lemma inv_del : forall s k, inv s -> inv (with_kv s (del (e_kv s) k)).
Proof.
  intros s k I. apply inv_kv_sub; auto.
  - apply nodup_del. apply I.
  - intros k' e' H. left. eapply in_del; eauto.
Qed.
Lemma inv_dels : forall ks s, inv s -> inv (with_kv s (fold_left (fun kv k => del kv k) ks (e_kv s))).
Proof.
  induction ks as [|k t IH]; intros s I; simpl.
  - rewrite with_kv_id. exact I.
  - specialize (IH _ (inv_del s k I)). rewrite with_kv_kv, with_kv_with_kv in IH. exact IH.
Qed.
Lemma inv_tick : forall s d, inv s -> inv (e_tick s d).
Proof.
  intros s d [I1 I2 I3 I4 I5]. unfold e_tick. constructor; simpl.
  - apply nodup_filter. exact I1.
  - intros k e id H L. apply filter_In in H. destruct H. eauto.
  - intros id l H. apply filter_In in H. destruct H. eauto.
  - intros k1 e1 k2 e2 id H1 H2. apply filter_In in H1. apply filter_In in H2. destruct H1, H2. eauto.
  - intros id l H. apply filter_In in H. destruct H. eauto.
Qed.

(* ---- BindStatus ---- *)
Lemma put_same : forall {V} (m : list (key * V)) k x, lookup m k = Some x -> put m k x = m.
Proof.
  induction m as [|[k0 v0] t IH]; intros k x H; simpl in *; [discriminate|].
  destruct (key_eqb k k0) eqn:E.
  - apply key_eqb_eq in E. inversion H. subst. reflexivity.
  - f_equal. apply IH. exact H.
Qed.
Lemma filter_all : forall {A} (f : A -> bool) l, (forall x, In x l -> f x = true) -> filter f l = l.
Proof.
  induction l as [|a t IH]; intro H; simpl; [reflexivity|].
  rewrite (H a (or_introl eq_refl)). f_equal. apply IH. intros x Hx. apply H. right. exact Hx.
Qed.
Lemma lookup_lease_in : forall ls id l, lookup_lease ls id = Some l -> In (id, l) ls.
Proof.
  induction ls as [|[i l0] t IH]; intros id l H; simpl in *; [discriminate|].
  destruct (N.eqb id i) eqn:E; [apply N.eqb_eq in E; inversion H; subst; left; reflexivity | right; apply IH; exact H].
Qed.
Lemma abs_kv_ext : forall ls1 ls2 kv,
  (forall k e, In (k, e) kv -> abs_entry ls1 e = abs_entry ls2 e) -> abs_kv ls1 kv = abs_kv ls2 kv.
Proof.
  intros. unfold abs_kv, mapv. apply map_ext_in. intros [k e] HI. simpl. f_equal. eapply H; eauto.
Qed.

(* after Grant: the new lease is attached to nothing *)
Lemma abs_kv_grant : forall s ttl, inv s ->
  abs_kv ((e_next s, mkL ttl (e_now s + ttl)) :: e_leases s) (e_kv s) = abs_kv (e_leases s) (e_kv s).
Proof.
  intros s ttl I. apply abs_kv_ext. intros k e HI. unfold abs_entry.
  destruct (e_lease e) as [id|] eqn:L; [|reflexivity]. simpl.
  destruct (N.eqb id (e_next s)) eqn:E; [|reflexivity].
  apply N.eqb_eq in E. subst. pose proof (inv_lease_lt s I _ _ _ HI L). lia.
Qed.
(* revoking the unused new lease restores kv and lease table *)
Lemma revoke_fresh : forall s ttl kv, inv s ->
  (forall k e, In (k, e) kv -> e_lease e <> Some (e_next s)) ->
  e_revoke (mkES kv ((e_next s, mkL ttl (e_now s + ttl)) :: e_leases s) (N.succ (e_next s)) (e_now s)) (e_next s)
  = mkES kv (e_leases s) (N.succ (e_next s)) (e_now s).
Proof.
  intros s ttl kv I F. unfold e_revoke. simpl. rewrite N.eqb_refl. simpl. f_equal.
  - apply filter_all. intros [k e] HI. simpl. unfold attached.
    destruct (e_lease e) as [i|] eqn:L; [|reflexivity].
    destruct (N.eqb i (e_next s)) eqn:E; [|reflexivity]. apply N.eqb_eq in E. subst. exfalso. eapply F; eauto.
  - apply filter_all. intros [i l] HI. simpl.
    destruct (N.eqb (e_next s) i) eqn:E; [|reflexivity]. apply N.eqb_eq in E. subst.
    pose proof (inv_table_lt s I _ _ HI). lia.
Qed.
Lemma inv_bump : forall s kv, inv (with_kv s kv) -> inv (mkES kv (e_leases s) (N.succ (e_next s)) (e_now s)).
Proof.
  intros s kv [I1 I2 I3 I4 I5]. simpl in *. constructor; simpl; auto.
  - intros. specialize (I2 _ _ _ H H0). lia.
  - intros. specialize (I3 _ _ H). lia.
Qed.

Lemma txn_simple : forall s1 ek sk v id,
  e_txn s1 [CVer0 ek false] [TPut sk v (Some id)] [] =
  if mem (e_kv s1) ek then (with_kv s1 (e_put (e_kv s1) sk v (Some id)), true, [RsPut]) else (s1, false, []).
Proof.
  intros. rewrite e_txn_eq. cbn [forallb eval_cmp]. rewrite version_zero, negb_involutive, andb_true_r.
  destruct (mem (e_kv s1) ek); cbn; [reflexivity | destruct s1; reflexivity].
Qed.

Lemma txn_tree : forall s1 ek sk v id e0 o,
  lookup (e_kv s1) sk = Some e0 -> e_lease e0 = Some o ->
  e_txn s1 [CVer0 ek false]
    [TTxn [CVer0 sk false]
       [TTxn [CLeaseNe0 sk]
          [TTxn [CVal sk true v] [TGet sk] [TPut sk v (Some id)]]
          [TPut sk v (Some id)]]
       [TPut sk v (Some id)]] [] =
  if mem (e_kv s1) ek then
    if value_eqb (e_val e0) v
    then (s1, true, [RsTxn true [RsTxn true [RsTxn true [RsGet (Some e0)]]]])
    else (with_kv s1 (e_put (e_kv s1) sk v (Some id)), true, [RsTxn true [RsTxn true [RsTxn false [RsPut]]]])
  else (s1, false, []).
Proof.
  intros s1 ek sk v id e0 o L0 LE. destruct s1 as [kv ls nx nw]. cbn [e_kv] in L0. rewrite e_txn_eq. cbn [e_kv e_leases e_next e_now]. cbn [forallb eval_cmp]. rewrite version_zero, negb_involutive, andb_true_r.
  assert (M : mem kv sk = true) by (unfold mem; rewrite L0; reflexivity).
  destruct (mem kv ek); [|reflexivity].
  cbn [exec_list]. rewrite exec_top_txn. cbn [forallb eval_cmp]. rewrite version_zero, M. cbn [negb andb].
  cbn [exec_list]. rewrite exec_top_txn. cbn [forallb eval_cmp]. rewrite L0, LE. cbn [andb].
  cbn [exec_list]. rewrite exec_top_txn. cbn [forallb eval_cmp]. rewrite L0. rewrite andb_true_r.
  destruct (value_eqb (e_val e0) v); cbn; [rewrite L0; reflexivity | reflexivity].
Qed.

Lemma put_lease_state : forall s sk v ttl, inv s -> ttl <> 0 ->
  let sP := mkES (e_put (e_kv s) sk v (Some (e_next s)))
                 ((e_next s, mkL ttl (e_now s + ttl)) :: e_leases s) (N.succ (e_next s)) (e_now s) in
  inv sP /\ abs sP = s_put (abs s) sk v (Some (e_now s + ttl)).
Proof.
  intros s sk v ttl I T sP. split.
  - destruct I as [I1 I2 I3 I4 I5]. constructor; cbn [e_kv e_leases e_next e_now sP].
    + apply nodup_put. exact I1.
    + intros k e id H L. unfold e_put in H. apply in_put in H. destruct H as [H | H].
      * inversion H; subst. cbn in L. inversion L. lia.
      * specialize (I2 _ _ _ H L). lia.
    + intros id l [H | H]; [inversion H; lia | specialize (I3 _ _ H); lia].
    + intros k1 e1 k2 e2 id H1 H2 L1 L2. unfold e_put in H1, H2. apply in_put in H1. apply in_put in H2.
      destruct H1 as [H1 | H1], H2 as [H2 | H2].
      * inversion H1; inversion H2; subst; reflexivity.
      * inversion H1; subst. cbn in L1. inversion L1; subst. specialize (I2 _ _ _ H2 L2). lia.
      * inversion H2; subst. cbn in L2. inversion L2; subst. specialize (I2 _ _ _ H1 L1). lia.
      * eauto.
    + intros id l [H | H]; [inversion H; subst; exact T | eauto].
  - unfold abs, s_put. cbn [e_kv e_leases e_now sP r_kv r_now]. f_equal.
    unfold e_put, abs_kv. rewrite <- put_mapv. f_equal.
    + apply (abs_kv_grant s ttl I).
    + unfold abs_entry. cbn. rewrite N.eqb_refl. reflexivity.
Qed.

Definition ka_upd (o : N) (now : Z) (il : N * lease) : N * lease :=
  if N.eqb o (fst il) then (fst il, mkL (l_ttl (snd il)) (now + l_ttl (snd il))) else il.
Lemma lookup_lease_upd : forall o now ls i,
  lookup_lease (map (ka_upd o now) ls) i =
  if N.eqb i o then option_map (fun l => mkL (l_ttl l) (now + l_ttl l)) (lookup_lease ls i) else lookup_lease ls i.
Proof.
  induction ls as [|[j lj] t IH]; intro i; simpl; [destruct (N.eqb i o); reflexivity|].
  unfold ka_upd at 1. simpl. destruct (N.eqb o j) eqn:OJ; simpl.
  - apply N.eqb_eq in OJ. subst j. destruct (N.eqb i o) eqn:IO; [reflexivity|]. rewrite IH, IO. reflexivity.
  - destruct (N.eqb i j) eqn:IJ.
    + apply N.eqb_eq in IJ. subst j. rewrite N.eqb_sym, OJ. reflexivity.
    + apply IH.
Qed.
Lemma abs_kv_keepalive : forall ls o now sk e0 l kv,
  NoDup (map fst kv) ->
  (forall k e, In (k, e) kv -> e_lease e = Some o -> k = sk) ->
  In (sk, e0) kv -> e_lease e0 = Some o -> lookup_lease ls o = Some l ->
  abs_kv (map (ka_upd o now) ls) kv = put (abs_kv ls kv) sk (mkS (e_val e0) (Some (now + l_ttl l))).
Proof.
  intros ls o now sk e0 l. induction kv as [|[k0 e] t IH]; intros ND ONLY HI LE LL; [contradiction|].
  cbn [abs_kv mapv map fst snd put]. inversion ND as [|? ? NI ND']; subst.
  destruct (key_eqb sk k0) eqn:E.
  - apply key_eqb_eq in E. subst k0.
    assert (e = e0).
    { destruct HI as [HI | HI]; [inversion HI; reflexivity|]. exfalso. apply NI. apply in_map_iff. exists (sk, e0). auto. }
    subst e.
    assert (A : abs_entry (map (ka_upd o now) ls) e0 = mkS (e_val e0) (Some (now + l_ttl l))).
    { unfold abs_entry. rewrite LE, lookup_lease_upd, N.eqb_refl, LL. reflexivity. }
    rewrite A. f_equal. change (abs_kv (map (ka_upd o now) ls) t = abs_kv ls t).
    apply abs_kv_ext. intros k e HIn. unfold abs_entry. destruct (e_lease e) as [i|] eqn:Li; [|reflexivity].
      rewrite lookup_lease_upd. destruct (N.eqb i o) eqn:IO; [|reflexivity].
      apply N.eqb_eq in IO. subst i. exfalso. assert (k = sk) by (eapply ONLY; [right; exact HIn | exact Li]).
      subst k. apply NI. apply in_map_iff. exists (sk, e). auto.
  - assert (A : abs_entry (map (ka_upd o now) ls) e = abs_entry ls e).
    { unfold abs_entry. destruct (e_lease e) as [i|] eqn:Li; [|reflexivity].
      rewrite lookup_lease_upd. destruct (N.eqb i o) eqn:IO; [|reflexivity].
      apply N.eqb_eq in IO. subst i. assert (k0 = sk) by (eapply ONLY; [left; reflexivity | exact Li]).
      subst k0. rewrite key_eqb_refl in E. discriminate. }
    rewrite A. f_equal. apply IH; auto.
      * intros k e' HIn. apply ONLY. right. exact HIn.
      * destruct HI as [HI | HI]; [inversion HI; subst; rewrite key_eqb_refl in E; discriminate | exact HI].
Qed.

Lemma keepalive_state : forall s sk e0 o l, inv s ->
  lookup (e_kv s) sk = Some e0 -> e_lease e0 = Some o -> lookup_lease (e_leases s) o = Some l ->
  let sR := mkES (e_kv s) (e_leases s) (N.succ (e_next s)) (e_now s) in
  snd (e_keepalive sR o) = true /\ inv (fst (e_keepalive sR o)) /\
  abs (fst (e_keepalive sR o)) = s_put (abs s) sk (e_val e0) (Some (e_now s + l_ttl l)).
Proof.
  intros s sk e0 o l I L0 LE LL sR. unfold e_keepalive. cbn [e_leases e_kv e_next e_now sR]. rewrite LL. cbn [fst snd].
  split; [reflexivity|]. split.
  - pose proof (inv_bump s (e_kv s)) as B. rewrite with_kv_id in B. specialize (B I).
    destruct B as [I1 I2 I3 I4 I5]. cbn [e_kv e_leases e_next e_now] in *.
    constructor; cbn [e_kv e_leases e_next e_now]; auto.
    + intros id l' H. apply in_map_iff in H. destruct H as [[j lj] [H1 H2]].
      cbn in H1. destruct (N.eqb o j); inversion H1; subst; eauto.
    + intros id l' H. apply in_map_iff in H. destruct H as [[j lj] [H1 H2]].
      cbn in H1. destruct (N.eqb o j); inversion H1; subst; cbn; eauto.
  - unfold abs, s_put. cbn [e_kv e_leases e_now r_kv r_now]. f_equal.
    apply (abs_kv_keepalive (e_leases s) o (e_now s) sk e0 l (e_kv s)); auto.
    + apply I.
    + intros k e HI Le. apply (inv_inj s I k e sk e0 o); auto. apply lookup_in. exact L0.
    + apply lookup_in. exact L0.
Qed.

Lemma abs_bump : forall s, abs (mkES (e_kv s) (e_leases s) (N.succ (e_next s)) (e_now s)) = abs s.
Proof. reflexivity. Qed.
Lemma inv_bump_s : forall s, inv s -> inv (mkES (e_kv s) (e_leases s) (N.succ (e_next s)) (e_now s)).
Proof. intros s I. apply inv_bump. rewrite with_kv_id. exact I. Qed.
Lemma revoke_fresh_s : forall s ttl, inv s ->
  e_revoke (mkES (e_kv s) ((e_next s, mkL ttl (e_now s + ttl)) :: e_leases s) (N.succ (e_next s)) (e_now s)) (e_next s)
  = mkES (e_kv s) (e_leases s) (N.succ (e_next s)) (e_now s).
Proof.
  intros s ttl I. apply revoke_fresh; auto. intros k e HI L.
  pose proof (inv_lease_lt s I _ _ _ HI L). lia.
Qed.

Lemma bind_with_ttl_abs : forall s ek sk v ttl, inv s -> ttl <> 0 ->
  inv (fst (e_bind_with_ttl s ek sk v ttl)) /\
  (if mem (e_kv s) ek
   then snd (e_bind_with_ttl s ek sk v ttl) = inl None /\
        abs (fst (e_bind_with_ttl s ek sk v ttl)) = s_put (abs s) sk v (Some (e_now s + ttl))
   else snd (e_bind_with_ttl s ek sk v ttl) = inl (Some ECount) /\
        abs (fst (e_bind_with_ttl s ek sk v ttl)) = abs s).
Proof.
  intros s ek sk v ttl I T.
  unfold e_bind_with_ttl, e_grant. cbv beta iota zeta.
  set (s1 := mkES (e_kv s) ((e_next s, mkL ttl (e_now s + ttl)) :: e_leases s) (N.succ (e_next s)) (e_now s)).
  destruct (put_lease_state s sk v ttl I T) as [IP AP].
  destruct (is_ttl_changed s1 sk ttl) eqn:CH.
  - rewrite txn_simple. cbn [e_kv s1]. destruct (mem (e_kv s) ek) eqn:M; cbn [negb fst snd].
    + split; [exact IP | split; [reflexivity | exact AP]].
    + unfold s1. rewrite revoke_fresh_s by exact I. split; [apply inv_bump_s; exact I | split; reflexivity].
  - unfold is_ttl_changed in CH. cbn [e_kv e_leases s1] in CH.
    assert (TZ : (ttl =? 0) = false) by (apply Z.eqb_neq; exact T).
    destruct (lookup (e_kv s) sk) as [e0|] eqn:L0; [|rewrite TZ in CH; discriminate].
    destruct (e_lease e0) as [o|] eqn:LE; [|rewrite TZ in CH; discriminate].
    assert (ON : N.eqb o (e_next s) = false).
    { apply N.eqb_neq. pose proof (inv_lease_lt s I _ _ _ (lookup_in _ _ _ L0) LE). lia. }
    cbn [lookup_lease] in CH. rewrite ON in CH.
    destruct (lookup_lease (e_leases s) o) as [l|] eqn:LL.
    2: { apply negb_false_iff in CH. apply Z.eqb_eq in CH. congruence. }
    apply negb_false_iff in CH. apply Z.eqb_eq in CH.
    rewrite (txn_tree s1 ek sk v (e_next s) e0 o L0 LE). cbn [e_kv s1].
    destruct (mem (e_kv s) ek) eqn:M.
    + destruct (value_eqb (e_val e0) v) eqn:VE; cbn [negb fst snd].
      * apply value_eqb_eq in VE. rewrite LE. cbn [lease_opt_eqb]. rewrite ON.
        unfold s1. rewrite revoke_fresh_s by exact I.
        destruct (keepalive_state s sk e0 o l I L0 LE LL) as [K1 [K2 K3]].
        destruct (e_keepalive (mkES (e_kv s) (e_leases s) (N.succ (e_next s)) (e_now s)) o) as [s4 found].
        cbn [fst snd] in *. subst found. split; [exact K2 | split; [reflexivity|]].
        rewrite K3, VE, CH. reflexivity.
      * split; [exact IP | split; [reflexivity | exact AP]].
    + cbn [negb fst snd]. unfold s1. rewrite revoke_fresh_s by exact I.
      split; [apply inv_bump_s; exact I | split; reflexivity].
Qed.

Lemma bind_without_ttl_abs : forall s sk v, inv s ->
  inv (fst (e_bind_without_ttl s sk v)) /\ snd (e_bind_without_ttl s sk v) = inl None /\
  abs (fst (e_bind_without_ttl s sk v)) = s_put (abs s) sk v None.
Proof.
  intros s sk v I. unfold e_bind_without_ttl.
  assert (PUT : inv (with_kv s (e_put (e_kv s) sk v None)) /\
                abs (with_kv s (e_put (e_kv s) sk v None)) = s_put (abs s) sk v None).
  { split; [apply inv_put_none; exact I|]. unfold abs, s_put, with_kv. cbn [e_kv e_leases e_now r_kv r_now]. rewrite abs_e_put. reflexivity. }
  destruct PUT as [IP AP].
  destruct (is_ttl_changed s sk 0) eqn:CH.
  - cbn [fst snd]. split; [exact IP | split; [reflexivity | exact AP]].
  - rewrite e_txn_eq. cbv zeta. cbn [forallb eval_cmp]. rewrite version_zero, negb_involutive, andb_true_r.
    unfold is_ttl_changed in CH.
    destruct (lookup (e_kv s) sk) as [e0|] eqn:L0.
    + assert (M : mem (e_kv s) sk = true) by (unfold mem; rewrite L0; reflexivity). rewrite M.
      cbn [exec_list]. rewrite exec_top_txn. cbn [forallb eval_cmp]. rewrite L0, andb_true_r.
      destruct (value_eqb (e_val e0) v) eqn:VE; cbn [negb exec_list exec_top fst snd].
      * split; [destruct s; exact I | split; [reflexivity|]].
        apply value_eqb_eq in VE.
        assert (AE : abs_entry (e_leases s) e0 = mkS v None).
        { unfold abs_entry. rewrite VE. destruct (e_lease e0) as [o|] eqn:LE; [|reflexivity].
          destruct (lookup_lease (e_leases s) o) as [l|] eqn:LL; [|reflexivity].
          apply negb_false_iff in CH. apply Z.eqb_eq in CH.
          exfalso. eapply (inv_ttl s I); [apply lookup_lease_in; exact LL | exact CH]. }
        unfold s_put. replace (mkES (e_kv s) (e_leases s) (e_next s) (e_now s)) with s by (destruct s; reflexivity).
        unfold abs at 2. cbn [r_kv r_now]. rewrite put_same; [reflexivity|].
        unfold abs_kv. rewrite lookup_mapv, L0. cbn. rewrite AE. reflexivity.
      * split; [exact IP | split; [reflexivity | exact AP]].
    + assert (M : mem (e_kv s) sk = false) by (unfold mem; rewrite L0; reflexivity). rewrite M.
      cbn [exec_list exec_top fst snd]. split; [exact IP | split; [reflexivity | exact AP]].
Qed.

Lemma fst_batch_create : forall s d, fst (e_batch_create s d) = fst (e_batch_put s d (Some true)).
Proof. intros. unfold e_batch_create. destruct (e_batch_put s d (Some true)) as [s' [[|]|e]]; reflexivity. Qed.
Lemma fst_batch_update : forall s d, fst (e_batch_update s d) = fst (e_batch_put s d (Some false)).
Proof. intros. unfold e_batch_update. destruct (e_batch_put s d (Some false)) as [s' [[|]|e]]; reflexivity. Qed.
Lemma inv_batch_put : forall s data lim, inv s -> inv (fst (e_batch_put s data lim)).
Proof.
  intros s data lim I. destruct data as [|d t]; [exact I|].
  rewrite batch_put_abs_cond. cbv zeta.
  match goal with |- context [if ?b then _ else _] => destruct b end; cbn [fst]; [apply inv_puts; exact I | exact I].
Qed.
Lemma inv_batch_delete : forall s ks, inv s -> inv (e_batch_delete s ks).
Proof.
  intros s ks I. unfold e_batch_delete. rewrite e_txn_eq. cbn [forallb]. cbv zeta.
  pose proof (exec_list_dels ks (e_kv s)) as P.
  destruct (exec_list (e_kv s) (map TDel ks)) as [kv' rs]. cbn [fst] in P. subst kv'.
  apply (inv_dels ks s I).
Qed.
Lemma inv_delete : forall s k, inv s -> inv (fst (e_delete s k)).
Proof. intros. unfold e_delete. cbn [fst]. apply (inv_del s k H). Qed.
Lemma dels_absent : forall s k, mem (e_kv s) k = false -> s_dels (abs s) [k] = abs s.
Proof.
  intros s k M. unfold s_dels. cbn [fold_left]. unfold abs. cbn [r_kv r_now]. f_equal.
  apply del_absent. unfold abs_kv. rewrite lookup_mapv. unfold mem in M. destruct (lookup (e_kv s) k); [discriminate | reflexivity].
Qed.

Theorem estep_refines : forall s o, inv s ->
  spec_step (abs s) o = (abs (fst (estep s o)), snd (estep s o)) /\ inv (fst (estep s o)).
Proof.
  intros s o I. unfold spec_step, estep. rewrite view_abs.
  destruct o; cbn [read_op]; try (split; [reflexivity | exact I]).
  - (* AddPod *)
    rewrite batch_create_abs. pose proof (inv_batch_put s [(KPod p, VPod p d)] (Some true) I) as IB.
    rewrite <- fst_batch_create in IB.
    destruct (e_batch_create s [(KPod p, VPod p d)]) as [s' [e|]]; cbn [fst snd] in *; split; auto.
  - (* RemovePod *)
    destruct (v_get_nodes_by_pod (e_view s) p [] true) as [[|x t]|e]; try (split; [reflexivity | exact I]).
    rewrite mem_abs. unfold e_delete. cbv beta iota zeta.
    pose proof (inv_delete s (KPod p) I) as ID. pose proof (delete_abs s (KPod p)) as DA.
    unfold e_delete in ID, DA. cbn [fst] in ID, DA.
    destruct (mem (e_kv s) (KPod p)) eqn:M.
    + rewrite DA. split; [reflexivity | exact ID].
    + rewrite <- (dels_absent s (KPod p) M) at 1. rewrite DA. split; [reflexivity | exact ID].
  - (* AddNode *)
    unfold v_get_one. destruct (lookup (e_view s) (KPod (n_pod nd))) as [[]|]; try (split; [reflexivity | exact I]).
    rewrite batch_create_abs. pose proof (inv_batch_put s (add_node_data nd ca cert key) (Some true) I) as IB.
    rewrite <- fst_batch_create in IB.
    destruct (e_batch_create s (add_node_data nd ca cert key)) as [s' [e|]]; cbn [fst snd] in *; split; auto.
  - (* RemoveNode *)
    cbn [fst snd]. rewrite batch_delete_abs. split; [reflexivity | apply inv_batch_delete; exact I].
  - (* UpdateNodes *)
    destruct (update_nodes_data l) as [|d t]; [split; [reflexivity | exact I]|].
    destruct (batch_put_none_abs s d t) as [A B]. rewrite A. cbn [fst snd]. rewrite B.
    split; [reflexivity | apply inv_puts; exact I].
  - (* SetNodeStatus *)
    unfold e_set_node_status. destruct (ttl =? 0) eqn:Z0; [split; [reflexivity | exact I]|].
    destruct (ttl <? 0) eqn:ZN.
    + cbn [fst snd]. rewrite delete_abs. split; [reflexivity | apply inv_delete; exact I].
    + unfold e_bind_status. rewrite Z0. rewrite mem_abs.
      assert (T : ttl <> 0) by (apply Z.eqb_neq; exact Z0).
      destruct (bind_with_ttl_abs s (KNode n) (KNStatus n) (VNSt n p) ttl I T) as [IB AB].
      destruct (e_bind_with_ttl s (KNode n) (KNStatus n) (VNSt n p) ttl) as [s' r]. cbn [fst snd] in *.
      destruct (mem (e_kv s) (KNode n)); destruct AB as [A1 A2]; subst r; cbn [res_of_bind fst snd]; rewrite A2; split; auto.
  - (* AddWorkload *)
    unfold e_ops_workload. destruct (w_parse w) as [[a e]|]; [|split; [reflexivity | exact I]].
    destruct pr as [p0|].
    + pose proof (create_and_decr_abs s (workload_data w a e) (proc_key p0)) as CD.
      destruct (lookup (e_view s) (proc_key p0)) as [[]|]; try (rewrite CD; split; [reflexivity | exact I]).
      destruct CD as [C1 [C2 C3]].
      destruct (e_batch_create_and_decr s (workload_data w a e) (proc_key p0)) as [s' r]. cbn [fst snd] in *.
      subst r. rewrite <- C3. split; [reflexivity|]. rewrite C2. apply inv_puts. exact I.
    + rewrite batch_create_abs. pose proof (inv_batch_put s (workload_data w a e) (Some true) I) as IB.
      rewrite <- fst_batch_create in IB.
      destruct (e_batch_create s (workload_data w a e)) as [s' [er|]]; cbn [fst snd res_unit] in *; split; auto.
  - (* UpdateWorkload *)
    unfold e_ops_workload. destruct (w_parse w) as [[a e]|]; [|split; [reflexivity | exact I]].
    rewrite batch_update_abs. pose proof (inv_batch_put s (workload_data w a e) (Some false) I) as IB.
    rewrite <- fst_batch_update in IB.
    destruct (e_batch_update s (workload_data w a e)) as [s' [er|]]; cbn [fst snd res_unit] in *; split; auto.
  - (* RemoveWorkload *)
    destruct (w_parse w) as [[a e]|]; [|split; [reflexivity | exact I]].
    cbn [fst snd]. rewrite batch_delete_abs. split; [reflexivity | apply inv_batch_delete; exact I].
  - (* SetWorkloadStatus *)
    unfold e_set_workload_status. destruct (status_args_bad a e n); [split; [reflexivity | exact I]|].
    unfold e_bind_status. destruct (ttl =? 0) eqn:Z0.
    + destruct (bind_without_ttl_abs s (KStatus a e n (ws_id st)) (VWSt st) I) as [IB [R AB]].
      destruct (e_bind_without_ttl s (KStatus a e n (ws_id st)) (VWSt st)) as [s' r]. cbn [fst snd] in *.
      subst r. cbn [res_of_bind fst snd]. rewrite AB. split; auto.
    + rewrite mem_abs. assert (T : ttl <> 0) by (apply Z.eqb_neq; exact Z0).
      destruct (bind_with_ttl_abs s (KWl (ws_id st)) (KStatus a e n (ws_id st)) (VWSt st) ttl I T) as [IB AB].
      destruct (e_bind_with_ttl s (KWl (ws_id st)) (KStatus a e n (ws_id st)) (VWSt st) ttl) as [s' r]. cbn [fst snd] in *.
      destruct (mem (e_kv s) (KWl (ws_id st))); destruct AB as [A1 A2]; subst r; cbn [res_of_bind fst snd]; rewrite A2; split; auto.
  - (* CreateProcessing *)
    rewrite batch_create_abs. pose proof (inv_batch_put s [(proc_key pr, VCnt cnt)] (Some true) I) as IB.
    rewrite <- fst_batch_create in IB.
    destruct (e_batch_create s [(proc_key pr, VCnt cnt)]) as [s' [er|]]; cbn [fst snd res_unit] in *; split; auto.
  - (* DeleteProcessing *)
    cbn [fst snd]. rewrite delete_abs. split; [reflexivity | apply inv_delete; exact I].
  - (* Advance *)
    cbn [fst snd]. rewrite tick_abs. split; [reflexivity | apply inv_tick; exact I].
Qed.

(* ---- histories ---- *)
Lemma abs_init : abs e_init = s_init.
Proof. reflexivity. Qed.

Theorem erun_refines : forall h s, inv s ->
  run spec_step (abs s) h = (abs (fst (run estep s h)), snd (run estep s h)) /\ inv (fst (run estep s h)).
Proof.
  induction h as [|o t IH]; intros s I; cbn [run]; [split; [reflexivity | exact I]|].
  destruct (estep_refines s o I) as [E IE]. rewrite E.
  destruct (estep s o) as [s1 r]. cbn [fst snd] in *.
  destruct (IH s1 IE) as [E2 I2]. rewrite E2.
  destruct (run estep s1 t) as [s2 rs]. cbn [fst snd] in *. split; [reflexivity | exact I2].
Qed.

(* a create that fails leaves the abstract state unchanged *)
Lemma spec_failed_create_noop : forall s o s' e,
  Case.is_create o = true -> spec_step s o = (s', RErr e) -> s' = s.
Proof.
  intros s o s' e C H. destruct o; try discriminate C; unfold spec_step in H; cbn [read_op] in H.
  - unfold s_create in H. destruct (existsb (s_mem s) (map fst [(KPod p, VPod p d)])); inversion H; reflexivity.
  - destruct (lookup (s_view s) (KPod (n_pod nd))) as [[]|]; try (inversion H; reflexivity).
    unfold s_create in H. destruct (add_node_data nd ca cert key); [inversion H; reflexivity|].
    destruct (existsb (s_mem s) (map fst (p :: l))); inversion H; reflexivity.
  - destruct (w_parse w) as [[a b]|]; [|inversion H; reflexivity].
    destruct pr as [p0|].
    + destruct (lookup (s_view s) (proc_key p0)) as [[]|]; inversion H; reflexivity.
    + unfold s_create in H. destruct (workload_data w a b); [inversion H; reflexivity|].
      destruct (existsb (s_mem s) (map fst (p :: l))); inversion H; reflexivity.
  - unfold s_create in H. destruct (existsb (s_mem s) (map fst [(proc_key pr, VCnt cnt)])); inversion H; reflexivity.
Qed.
