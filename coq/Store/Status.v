(* Status: models of the status-binding code of both stores (C25).

   etcd:  store/etcdv3/meta/etcd.go  BindStatus, bindStatusWithTTL,
          bindStatusWithoutTTL, isTTLChanged, revokeLease;
          store/etcdv3/node.go SetNodeStatus.
   redis: store/redis/rediaron.go BindStatus; store/redis/node.go SetNodeStatus.

   Executable definitions only. *)
From Coq Require Import List Bool ZArith String.
From Verif Require Import Base.RunLib Store.KVPrims.
Import ListNotations.
Local Open Scope Z_scope.

(* ---------------- etcd ---------------- *)

(* isTTLChanged: GetOne(key); missing key or no lease => ttl != 0; else
   TimeToLive(lease).GrantedTTL != ttl (a lease the server does not know has GrantedTTL 0) *)
Definition is_ttl_changed (s : estate) (k : key) (ttl : Z) : bool :=
  match lookup (e_kv s) k with
  | None => negb (ttl =? 0)
  | Some e =>
      match e_lease e with
      | None => negb (ttl =? 0)
      | Some id =>
          let granted := match lookup_lease (e_leases s) id with Some l => l_ttl l | None => 0 end in
          negb (granted =? ttl)
      end
  end.

Definition lease_opt_eqb (a : option N) (b : N) : bool :=
  match a with Some i => N.eqb i b | None => false end.

(* bindStatusWithTTL.  Returns the new state and the error (None = nil);
   [inr tt] stands for a Go panic (index out of range on an empty range response). *)
Definition e_bind_with_ttl (s : estate) (ek sk : key) (v : value) (ttl : Z)
  : estate * (option err + unit) :=
  let '(s1, id) := e_grant s ttl in                              (* e.Grant(ctx, ttl) *)
  let update_status := [TPut sk v (Some id)] in
  let changed := is_ttl_changed s1 sk ttl in
  if changed then
    (* If(Version(entity) != 0).Then(updateStatus...) *)
    let '(s2, ok, _) := e_txn s1 [CVer0 ek false] update_status [] in
    if negb ok then (e_revoke s2 id, inl (Some ECount))           (* revokeLease; ErrInvaildCount *)
    else (s2, inl None)
  else
    let tree :=
      TTxn [CVer0 sk false]                                       (* is the status there? *)
           [TTxn [CLeaseNe0 sk]                                   (* is a lease bound to it? *)
                 [TTxn [CVal sk true v]                           (* has the value changed? *)
                       [TGet sk]                                  (* unchanged *)
                       update_status]                             (* changed *)
                 update_status]                                   (* no lease *)
           update_status in                                       (* no status *)
    let '(s2, ok, rs) := e_txn s1 [CVer0 ek false] [tree] [] in
    if negb ok then (e_revoke s2 id, inl (Some ECount))
    else
      match rs with
      | [RsTxn st_ok rs1] =>
          if negb st_ok then (s2, inl None) else
          match rs1 with
          | [RsTxn l_ok rs2] =>
              if negb l_ok then (s2, inl None) else
              match rs2 with
              | [RsTxn v_ok rs3] =>
                  if negb v_ok then (s2, inl None) else
                  match rs3 with
                  | [RsGet (Some e)] =>
                      let orig := e_lease e in
                      (* if origLeaseID != leaseID { revokeLease(leaseID) } *)
                      let s3 := if lease_opt_eqb orig id then s2 else e_revoke s2 id in
                      (* KeepAliveOnce(origLeaseID) *)
                      match orig with
                      | Some o => let '(s4, found) := e_keepalive s3 o in
                                  (s4, inl (if found then None else Some EOther))
                      | None => (s3, inl (Some EOther))
                      end
                  | _ => (s2, inr tt)
                  end
              | _ => (s2, inr tt)
              end
          | _ => (s2, inr tt)
          end
      | _ => (s2, inr tt)
      end.

(* bindStatusWithoutTTL: no lease, no entity check *)
Definition e_bind_without_ttl (s : estate) (sk : key) (v : value) : estate * (option err + unit) :=
  if is_ttl_changed s sk 0 then
    (mkES (e_put (e_kv s) sk v None) (e_leases s) (e_next s) (e_now s), inl None)   (* e.Put *)
  else
    let '(s2, _, _) :=
      e_txn s [CVer0 sk false]
            [TTxn [CVal sk false v] [TPut sk v None] []]
            [TPut sk v None] in
    (s2, inl None).

Definition e_bind_status (s : estate) (ek sk : key) (v : value) (ttl : Z) :=
  if ttl =? 0 then e_bind_without_ttl s sk v else e_bind_with_ttl s ek sk v ttl.

Definition res_of_bind {S} (x : S * (option err + unit)) : S * result :=
  match x with
  | (s, inl None) => (s, ROk PUnit)
  | (s, inl (Some e)) => (s, RErr e)
  | (s, inr _) => (s, RPanic)
  end.

Definition e_delete (s : estate) (k : key) : estate * Z :=
  (mkES (del (e_kv s) k) (e_leases s) (e_next s) (e_now s), if mem (e_kv s) k then 1 else 0).

(* Mercury.SetNodeStatus *)
Definition e_set_node_status (s : estate) (n p : name) (ttl : Z) : estate * result :=
  if ttl =? 0 then (s, RErr ETTL)
  else if ttl <? 0 then (fst (e_delete s (KNStatus n)), ROk PUnit)
  else res_of_bind (e_bind_status s (KNode n) (KNStatus n) (VNSt n p) ttl).

Definition status_args_bad (a e n : name) : bool :=
  name_eqb a ""%string || name_eqb e ""%string || name_eqb n ""%string.

(* Mercury.SetWorkloadStatus *)
Definition e_set_workload_status (s : estate) (st : wstat) (a e n : name) (ttl : Z) : estate * result :=
  if status_args_bad a e n then (s, RErr EStatus)
  else res_of_bind (e_bind_status s (KWl (ws_id st)) (KStatus a e n (ws_id st)) (VWSt st) ttl).

(* ---------------- redis ---------------- *)

(* Rediaron.BindStatus: if ttl != 0, EXISTS entity; then SET status value [EX ttl] *)
Definition r_bind_status (s : rstate) (ek sk : key) (v : value) (ttl : Z) : rstate * (option err + unit) :=
  if negb (ttl =? 0) && negb (r_exists s [ek] =? 1) then (s, inl (Some ECount))
  else (r_set s sk v ttl, inl None).

(* Rediaron.SetNodeStatus: no existence check *)
Definition r_set_node_status (s : rstate) (n p : name) (ttl : Z) : rstate * result :=
  if ttl =? 0 then (s, RErr ETTL)
  else if ttl <? 0 then (r_del s (KNStatus n), ROk PUnit)
  else (r_set s (KNStatus n) (VNSt n p) ttl, ROk PUnit).

Definition r_set_workload_status (s : rstate) (st : wstat) (a e n : name) (ttl : Z) : rstate * result :=
  if status_args_bad a e n then (s, RErr EStatus)
  else res_of_bind (r_bind_status s (KWl (ws_id st)) (KStatus a e n (ws_id st)) (VWSt st) ttl).
