(* Proofs about the docker settings model (C31). *)
From Coq Require Import ZArith List Bool String Lia.
From Flocq Require Import IEEE754.BinarySingleNaN IEEE754.Binary IEEE754.Bits.
From Verif Require Import Base.GoFloat Base.GoInt Engine.Docker.
Import ListNotations.
Local Open Scope Z_scope.

(* what makeResourceSetting puts into CPUQuota when it does not override it *)
Definition quota_spec (rnd : bool) (cpu : f64) : Z :=
  if flt fzero cpu then quota_of rnd cpu else if feq cpu (f_of_Z (-1)) then -1 else 0.

Definition reservation_spec (memory : Z) : Z :=
  if negb (memory =? 0) && (Z.quot memory 2 <? mib4) then mib4 else Z.quot memory 2.

(* ---- makeResourceSetting ---- *)

Lemma make_bound : forall rnd cpu memory cores numa,
  cores <> [] ->
  let o := make_resource_setting rnd cpu memory cores numa false in
  o_outcome o = Ok /\ o_cpuset o = cores /\ o_mems o = numa /\ o_quota o = -1 /\
  o_shares o = shares_of cpu /\ o_period o = period.
Proof.
  intros rnd cpu memory cores numa Hc. destruct cores as [|c cs]; [congruence|].
  unfold make_resource_setting. cbn [is_nil]. repeat split; reflexivity.
Qed.

Lemma make_unbound : forall rnd cpu memory numa remap,
  let o := make_resource_setting rnd cpu memory [] numa remap in
  o_outcome o = Ok /\ o_cpuset o = [] /\ o_mems o = EmptyString /\ o_quota o = quota_spec rnd cpu /\
  o_shares o = 1024 /\ o_period o = period.
Proof. intros. unfold o, make_resource_setting, quota_spec. cbn [is_nil]. repeat split; reflexivity. Qed.

Lemma make_remap : forall rnd cpu memory cores numa,
  cores <> [] ->
  let o := make_resource_setting rnd cpu memory cores numa true in
  o_outcome o = Ok /\ o_cpuset o = cores /\ o_mems o = numa /\ o_quota o = quota_spec rnd cpu /\
  o_shares o = 1024 /\ o_period o = period.
Proof.
  intros rnd cpu memory cores numa Hc. destruct cores as [|c cs]; [congruence|].
  unfold make_resource_setting, quota_spec. cbn [is_nil]. repeat split; reflexivity.
Qed.

Lemma make_memory : forall rnd cpu memory cores numa remap,
  let o := make_resource_setting rnd cpu memory cores numa remap in
  o_memory o = memory /\ o_swap o = memory /\ o_reservation o = reservation_spec memory.
Proof.
  intros. unfold o, make_resource_setting, reservation_spec.
  destruct (is_nil cores); [|destruct remap]; repeat split; reflexivity.
Qed.

(* for a valid positive limit the reservation is max(limit/2, 4 MiB) and never above the limit *)
Lemma reservation_bounds : forall memory, mib4 <= memory ->
  reservation_spec memory = Z.max (Z.quot memory 2) mib4 /\ reservation_spec memory <= memory.
Proof.
  intros memory H. unfold reservation_spec, mib4 in *.
  assert (Hq : Z.quot memory 2 = memory / 2) by (apply Z.quot_div_nonneg; lia).
  rewrite Hq.
  assert (Hd : 2 * (memory / 2) <= memory) by (apply Z.mul_div_le; lia).
  destruct (memory =? 0) eqn:E0; [apply Z.eqb_eq in E0; lia|]. cbn [negb andb].
  destruct (memory / 2 <? 4194304) eqn:E1; [apply Z.ltb_lt in E1|apply Z.ltb_ge in E1]; split; lia.
Qed.

(* ---- create ---- *)

Lemma mem_valid_cases : forall m, mem_invalid m = false <-> (m = 0 \/ mib4 <= m).
Proof.
  intros m. unfold mem_invalid, mib4.
  destruct (0 <? m) eqn:A; destruct (m <? 4194304) eqn:B; destruct (m <? 0) eqn:C; cbn [andb orb];
    try apply Z.ltb_lt in A; try apply Z.ltb_ge in A; try apply Z.ltb_lt in B; try apply Z.ltb_ge in B;
    try apply Z.ltb_lt in C; try apply Z.ltb_ge in C; split; intros; try discriminate; try lia; try reflexivity.
Qed.

Lemma create_valid : forall rnd p, mem_invalid (p_memory p) = false ->
  create_with rnd p = make_resource_setting rnd (p_cpu p) (p_memory p) (p_cores p) (p_numa p) false.
Proof. intros rnd p H. unfold create_with. rewrite H. reflexivity. Qed.

Lemma create_invalid : forall rnd p, mem_invalid (p_memory p) = true ->
  o_outcome (create_with rnd p) = ErrInvalidMemory.
Proof. intros rnd p H. unfold create_with. rewrite H. reflexivity. Qed.

(* ---- float comparisons ---- *)

Lemma flt_not_feq : forall a b, flt a b = true -> feq b a = false.
Proof.
  intros a b H. unfold flt, feq in *. rewrite (Bcompare_swap 53 1024 a b).
  destruct (Bcompare 53 1024 a b) as [[]|]; try discriminate; reflexivity.
Qed.

(* ---- update ---- *)

Definition update_memory (m : Z) : Z := if m =? 0 then max_int else m.

Lemma update_invalid : forall f2 rnd n p, mem_invalid (p_memory p) = true ->
  o_outcome (update_with f2 rnd n p) = ErrInvalidMemory.
Proof. intros f2 rnd n p H. unfold update_with. rewrite H. reflexivity. Qed.

(* a bound (or remapped) workload with a cpu limit: exactly what create computes from the same parameters *)
Lemma update_keeps_map : forall f2 rnd n p,
  mem_invalid (p_memory p) = false -> p_cores p <> [] -> feq (p_cpu p) fzero = false ->
  update_with f2 rnd n p =
  make_resource_setting rnd (p_cpu p) (update_memory (p_memory p)) (p_cores p) (p_numa p) (p_remap p).
Proof.
  intros f2 rnd n p Hm Hc Hz. unfold update_with, update_memory. rewrite Hm, Hz.
  destruct (p_cores p) as [|c cs]; [congruence|]. cbn [is_nil orb]. reflexivity.
Qed.

Lemma update_same_as_create : forall n p,
  mib4 <= p_memory p -> p_cores p <> [] -> p_remap p = false -> feq (p_cpu p) fzero = false ->
  update n p = create p.
Proof.
  intros n p Hm Hc Hr Hz. unfold update, create.
  assert (Hv : mem_invalid (p_memory p) = false) by (apply mem_valid_cases; right; exact Hm).
  rewrite update_keeps_map by assumption. rewrite create_valid by assumption.
  unfold update_memory. replace (p_memory p =? 0) with false by (symmetry; apply Z.eqb_neq; unfold mib4 in Hm; lia).
  rewrite Hr. reflexivity.
Qed.

Lemma all_cores_nonempty : forall n, 0 < n -> seqZ 0 (Z.to_nat n) <> [].
Proof.
  intros n H. destruct (Z.to_nat n) eqn:E; [lia|]. simpl. discriminate.
Qed.

(* an unbound workload with a cpu limit: all cores, the quota of the limit, default shares *)
Lemma update_unbound : forall rnd n p,
  mem_invalid (p_memory p) = false -> p_cores p = [] -> flt fzero (p_cpu p) = true -> 0 < n ->
  let o := update_with true rnd n p in
  o_outcome o = Ok /\ o_cpuset o = seqZ 0 (Z.to_nat n) /\ o_mems o = p_numa p /\
  o_quota o = quota_of rnd (p_cpu p) /\ o_shares o = 1024 /\ o_period o = period /\
  o_memory o = update_memory (p_memory p) /\ o_swap o = update_memory (p_memory p).
Proof.
  intros rnd n p Hm Hc Hp Hn. unfold update_with. rewrite Hm, Hc.
  rewrite (flt_not_feq _ _ Hp). cbn [is_nil orb].
  pose proof (make_remap rnd (p_cpu p) (update_memory (p_memory p)) _ (p_numa p) (all_cores_nonempty n Hn)) as H.
  pose proof (make_memory rnd (p_cpu p) (update_memory (p_memory p)) (seqZ 0 (Z.to_nat n)) (p_numa p) true) as Hmem.
  cbv zeta in H, Hmem. unfold update_memory in *.
  destruct H as (A & B & C & D & E & F). destruct Hmem as (G & I & _).
  unfold quota_spec in D. rewrite Hp in D.
  repeat split; assumption.
Qed.

Lemma minus_one_facts : flt fzero (f_of_Z (-1)) = false /\ feq (f_of_Z (-1)) (f_of_Z (-1)) = true.
Proof. split; vm_compute; reflexivity. Qed.

(* no cpu limit: unrestricted on all cores *)
Lemma update_unlimited : forall f2 rnd n p,
  mem_invalid (p_memory p) = false -> feq (p_cpu p) fzero = true -> 0 < n ->
  let o := update_with f2 rnd n p in
  o_outcome o = Ok /\ o_cpuset o = seqZ 0 (Z.to_nat n) /\ o_mems o = EmptyString /\
  o_quota o = -1 /\ o_period o = period.
Proof.
  intros f2 rnd n p Hm Hz Hn. unfold update_with. rewrite Hm, Hz. cbn [orb].
  destruct minus_one_facts as [M1 M2].
  assert (Hq : quota_spec rnd (f_of_Z (-1)) = -1) by (unfold quota_spec; rewrite M1, M2; reflexivity).
  destruct (if f2 then true else p_remap p).
  - pose proof (make_remap rnd (f_of_Z (-1)) (if p_memory p =? 0 then max_int else p_memory p) _ EmptyString
                  (all_cores_nonempty n Hn)) as H.
    cbv zeta in H. destruct H as (A & B & C & D & E & F). rewrite Hq in D. repeat split; assumption.
  - pose proof (make_bound rnd (f_of_Z (-1)) (if p_memory p =? 0 then max_int else p_memory p) _ EmptyString
                  (all_cores_nonempty n Hn)) as H.
    cbv zeta in H. destruct H as (A & B & C & D & E & F). repeat split; assumption.
Qed.

(* memory on update: a positive limit is applied verbatim *)
Lemma update_memory_limit : forall f2 rnd n p, mib4 <= p_memory p ->
  o_memory (update_with f2 rnd n p) = p_memory p /\ o_swap (update_with f2 rnd n p) = p_memory p.
Proof.
  intros f2 rnd n p Hm.
  assert (Hv : mem_invalid (p_memory p) = false) by (apply mem_valid_cases; right; exact Hm).
  unfold update_with. rewrite Hv.
  replace (p_memory p =? 0) with false by (symmetry; apply Z.eqb_neq; unfold mib4 in Hm; lia).
  destruct (feq (p_cpu p) fzero || is_nil (p_cores p)); [destruct (feq (p_cpu p) fzero)|];
    match goal with |- context [make_resource_setting ?a ?b ?c ?d ?e ?f] =>
      destruct (make_memory a b c d e f) as (A & B & _) end; split; assumption.
Qed.

(* ---- numeric accuracy on the decimal grid (bounded sweep, bound in the statement) ---- *)

Definition hundredth (k : Z) : f64 := fdiv (f_of_Z k) (f_of_Z 100).   (* the float64 nearest to k/100 *)

Definition grid_ok (k : Z) : bool :=
  (quota_of true (hundredth k) =? 1000 * k)
  && (shares_of (hundredth k) =?
        (let r := k mod 100 in if r =? 0 then 1024 else (2 * 1024 * r + 100) / 200)).

Lemma grid_sweep : forallb grid_ok (seqZ 1 (Z.to_nat 6400)) = true.
Proof. vm_compute. reflexivity. Qed.

Lemma in_seqZ : forall n s k, s <= k < s + Z.of_nat n -> In k (seqZ s n).
Proof.
  induction n as [|n IH]; intros s k H; [lia|]. simpl.
  destruct (Z.eq_dec s k); [left; assumption|right; apply IH; lia].
Qed.

(* for every limit k/100 up to 64 cpus: quota = k/100 x period exactly, and the
   shares of a bound workload are 1024 x (fraction) rounded to the nearest integer *)
Lemma grid_exact : forall k, 1 <= k <= 6400 ->
  quota_of true (hundredth k) = 1000 * k /\
  shares_of (hundredth k) = (let r := k mod 100 in if r =? 0 then 1024 else (2 * 1024 * r + 100) / 200).
Proof.
  intros k Hk. pose proof grid_sweep as H. rewrite forallb_forall in H.
  assert (Hin : In k (seqZ 1 (Z.to_nat 6400))) by (apply in_seqZ; rewrite Z2Nat.id; lia).
  specialize (H k Hin). unfold grid_ok in H. apply andb_true_iff in H. destruct H as [A B].
  apply Z.eqb_eq in A. apply Z.eqb_eq in B. split; assumption.
Qed.

(* ---- the behaviour before the repairs ---- *)

Definition f029 : f64 := fb 4598895795485655695.   (* 0.29 *)
Definition f05 : f64 := fb 4602678819172646912.    (* 0.5 *)

Lemma truncation_refuted : quota_of false f029 = 28999 /\ quota_of true f029 = 29000.
Proof. split; vm_compute; reflexivity. Qed.

Lemma update_unbound_refuted :
  let p := mkParams f05 67108864 [] EmptyString false in
  o_quota (update_with false true 4 p) = -1 /\ o_shares (update_with false true 4 p) = 512 /\
  o_quota (create p) = 50000 /\ o_quota (update 4 p) = 50000 /\ o_shares (update 4 p) = 1024.
Proof. repeat split; vm_compute; reflexivity. Qed.

(* hypotheses are satisfiable *)
Example hyps_satisfiable :
  mem_invalid 67108864 = false /\ flt fzero f05 = true /\ feq f05 fzero = false /\
  fbits (hundredth 50) = fbits f05 /\ fbits (hundredth 29) = fbits f029.
Proof. repeat split; vm_compute; reflexivity. Qed.

(* ---- the statements of Properties/C31.v ---- *)

(* create, bound workload: exactly its cores and NUMA node, unrestricted quota,
   shares from the fractional core, memory and memory+swap = the limit *)
Lemma create_bound_statement : forall p,
  mem_invalid (p_memory p) = false -> p_cores p <> [] ->
  let o := create p in
  o_outcome o = Ok /\ o_cpuset o = p_cores p /\ o_mems o = p_numa p /\ o_quota o = -1 /\
  o_shares o = shares_of (p_cpu p) /\ o_period o = period /\
  o_memory o = p_memory p /\ o_swap o = p_memory p /\ o_reservation o = reservation_spec (p_memory p).
Proof.
  intros p Hm Hc. unfold create. cbv zeta. rewrite create_valid by assumption.
  pose proof (make_bound true (p_cpu p) (p_memory p) _ (p_numa p) Hc) as H.
  pose proof (make_memory true (p_cpu p) (p_memory p) (p_cores p) (p_numa p) false) as M.
  cbv zeta in H, M. destruct H as (A & B & C & D & E & F). destruct M as (G & I & J).
  repeat split; assumption.
Qed.

(* create, unbound workload: no cpuset, quota = round(limit x period) for a
   positive limit (0 = none), default shares *)
Lemma create_unbound_statement : forall p,
  mem_invalid (p_memory p) = false -> p_cores p = [] ->
  let o := create p in
  o_outcome o = Ok /\ o_cpuset o = [] /\ o_mems o = EmptyString /\
  o_quota o = quota_spec true (p_cpu p) /\ o_shares o = 1024 /\ o_period o = period /\
  o_memory o = p_memory p /\ o_swap o = p_memory p /\ o_reservation o = reservation_spec (p_memory p).
Proof.
  intros p Hm Hc. unfold create. cbv zeta. rewrite create_valid by assumption. rewrite Hc.
  pose proof (make_unbound true (p_cpu p) (p_memory p) (p_numa p) false) as H.
  pose proof (make_memory true (p_cpu p) (p_memory p) [] (p_numa p) false) as M.
  cbv zeta in H, M. destruct H as (A & B & C & D & E & F). destruct M as (G & I & J).
  repeat split; assumption.
Qed.

Lemma invalid_memory_statement : forall n p, mem_invalid (p_memory p) = true ->
  o_outcome (create p) = ErrInvalidMemory /\ o_outcome (update n p) = ErrInvalidMemory.
Proof. intros n p H. split; [apply create_invalid|apply update_invalid]; exact H. Qed.

(* update, remapped workload (shared core set) with a cpu limit *)
Lemma update_remap_statement : forall n p,
  mem_invalid (p_memory p) = false -> p_cores p <> [] -> p_remap p = true -> flt fzero (p_cpu p) = true ->
  let o := update n p in
  o_outcome o = Ok /\ o_cpuset o = p_cores p /\ o_mems o = p_numa p /\
  o_quota o = quota_of true (p_cpu p) /\ o_shares o = 1024 /\ o_period o = period.
Proof.
  intros n p Hm Hc Hr Hp. unfold update. cbv zeta.
  rewrite update_keeps_map by (try assumption; apply flt_not_feq; exact Hp). rewrite Hr.
  pose proof (make_remap true (p_cpu p) (update_memory (p_memory p)) _ (p_numa p) Hc) as H.
  cbv zeta in H. destruct H as (A & B & C & D & E & F). unfold quota_spec in D. rewrite Hp in D.
  repeat split; assumption.
Qed.

Lemma update_unbound_statement : forall n p,
  mem_invalid (p_memory p) = false -> p_cores p = [] -> flt fzero (p_cpu p) = true -> 0 < n ->
  let o := update n p in
  o_outcome o = Ok /\ o_cpuset o = seqZ 0 (Z.to_nat n) /\ o_mems o = p_numa p /\
  o_quota o = quota_of true (p_cpu p) /\ o_shares o = 1024 /\ o_period o = period /\
  o_memory o = update_memory (p_memory p) /\ o_swap o = update_memory (p_memory p).
Proof. intros n p. exact (update_unbound true n p). Qed.

Lemma update_unlimited_statement : forall n p,
  mem_invalid (p_memory p) = false -> feq (p_cpu p) fzero = true -> 0 < n ->
  let o := update n p in
  o_outcome o = Ok /\ o_cpuset o = seqZ 0 (Z.to_nat n) /\ o_mems o = EmptyString /\
  o_quota o = -1 /\ o_period o = period.
Proof. intros n p. exact (update_unlimited true true n p). Qed.

Lemma update_memory_statement : forall n p, mib4 <= p_memory p ->
  o_memory (update n p) = p_memory p /\ o_swap (update n p) = p_memory p.
Proof. intros n p. exact (update_memory_limit true true n p). Qed.

(* ---- int64(math.Round(y)) is an integer nearest to the exact value of the float y ---- *)

(* value of a finite float as a fraction num/den (magnitude) *)
Definition mag_frac (m e : Z) : Z * Z :=
  if e <? 0 then (m, Z.pow 2 (- e)) else (m * Z.pow 2 e, 1).

Lemma round_nearest : forall s m e H,
  let a : f64 := B754_finite 53 1024 s m e H in
  let z := if s then - f_round_Z a else f_round_Z a in
  let '(num, den) := mag_frac (Zpos m) e in
  0 < den /\ 0 <= z /\ Z.abs (z * den - num) * 2 <= den.
Proof.
  intros s m e H a z. unfold z, a, f_round_Z, mag_frac.
  destruct e as [|p|p].
  - cbn [Z.ltb Z.compare]. rewrite Z.pow_0_r.
    destruct s; rewrite ?Z.opp_involutive; repeat split; try lia.
  - replace (Z.pos p <? 0) with false by (symmetry; apply Z.ltb_ge; lia).
    assert (Hp : 0 < 2 ^ Z.pos p) by (apply Z.pow_pos_nonneg; lia).
    destruct s; rewrite ?Z.opp_involutive; repeat split; try lia; try nia.
  - replace (Z.neg p <? 0) with true by (symmetry; apply Z.ltb_lt; lia).
    change (- Z.neg p) with (Z.pos p).
    set (d := 2 ^ Z.pos p).
    assert (Hd : 0 < d) by (apply Z.pow_pos_nonneg; lia).
    assert (Hq : Z.quot (Z.pos m) d = Z.pos m / d) by (apply Z.quot_div_nonneg; lia).
    rewrite Hq.
    pose proof (Z.div_mod (Z.pos m) d ltac:(lia)) as Hdm.
    pose proof (Z.mod_pos_bound (Z.pos m) d Hd) as Hmod.
    assert (Hqq : 0 <= Z.pos m / d) by (apply Z.div_pos; lia).
    set (q := Z.pos m / d) in *. set (r := Z.pos m mod d) in *.
    assert (Hr : Z.pos m - q * d = r) by lia. rewrite Hr.
    destruct (2 * r >=? d) eqn:E; [apply Z.geb_le in E|rewrite Z.geb_leb in E; apply Z.leb_gt in E];
      destruct s; rewrite ?Z.opp_involutive; repeat split; try lia; try nia.
Qed.
