(* Model of the docker engine's translation of allocated resources into
   container settings (C31).

   Anchors: engine/docker/helper.go makeResourceSetting, engine/docker/container.go
   VirtualizationCreate / VirtualizationUpdateResource (the resource part),
   engine/transform.go MakeVirtualizationResource (decoding of the plugin's
   engine parameters: cpu, cpu_map, numa_node, memory, remap).

   The model follows the code after two repairs:
     fix: docker cpu quota rounds cpu*period instead of truncating
     fix: docker update of an unbound workload keeps the cpu quota
   The flags [rnd] / [fix2] select the repaired behaviour (true) or the behaviour
   before the repair (false); the latter is kept only to record the refutations.

   Floats are Flocq binary64 (bit exact).  cpu_map is represented by its key set
   (core ids, sorted: the order of CpusetCpus is Go map order and is compared as
   a set); IOPS options (another plugin) are empty.  No proofs in this file. *)
From Coq Require Import ZArith List Bool String.
From Flocq Require Import IEEE754.BinarySingleNaN IEEE754.Binary IEEE754.Bits.
From Verif Require Import Base.GoFloat Base.GoInt.
Import ListNotations.
Local Open Scope Z_scope.

Record params := mkParams {
  p_cpu : f64;            (* Quota: the cpu limit *)
  p_memory : Z;           (* memory limit, 0 = unlimited *)
  p_cores : list Z;       (* keys of cpu_map *)
  p_numa : string;
  p_remap : bool }.

Inductive outcome := Ok | ErrInvalidMemory | ErrOther.

(* dockercontainer.Resources, the fields the property is about *)
Record obs := mkObs {
  o_outcome : outcome;
  o_quota : Z; o_period : Z; o_shares : Z;
  o_cpuset : list Z; o_mems : string;
  o_memory : Z; o_swap : Z; o_reservation : Z }.

Definition period : Z := 100000.         (* cluster.CPUPeriodBase *)
Definition default_share : Z := 1024.
Definition mib4 : Z := 4194304.          (* units.MiB * 4 = minMemory *)
Definition fzero : f64 := f_of_Z 0.

(* int64(math.Round(x)): round half away from zero, exact on the mantissa *)
Definition f_round_Z (a : f64) : Z :=
  match a with
  | B754_finite _ _ s m e _ =>
      let z := match e with
               | Z0 => Zpos m
               | Zpos p => Zpos m * Z.pow 2 (Zpos p)
               | Zneg p =>
                   let d := Z.pow 2 (Zpos p) in
                   let q := Z.quot (Zpos m) d in
                   let r := Zpos m - q * d in
                   if 2 * r >=? d then q + 1 else q
               end in
      if s then - z else z
  | _ => 0
  end.

(* cpu * float64(CPUPeriodBase), then int64(math.Round(.)) -- or int64(.) before the repair *)
Definition quota_of (rnd : bool) (cpu : f64) : Z :=
  let x := fmul cpu (f_of_Z period) in
  if rnd then f_round_Z x else f_trunc x.

(* second result of math.Modf *)
Definition frac_part (cpu : f64) : f64 := fsub cpu (f_of_Z (f_trunc cpu)).

(* cpu share for fragile pieces *)
Definition shares_of (cpu : f64) : Z :=
  let d := frac_part cpu in
  if flt fzero d then f_round_Z (fmul (f_of_Z 1024) d) else default_share.

Definition is_nil {A} (l : list A) : bool := match l with [] => true | _ => false end.

(* helper.go makeResourceSetting *)
Definition make_resource_setting (rnd : bool) (cpu : f64) (memory : Z) (cores : list Z)
           (numa : string) (remap : bool) : obs :=
  let quota0 :=
    if flt fzero cpu then quota_of rnd cpu
    else if feq cpu (f_of_Z (-1)) then -1 else 0 in
  let '(quota, shares, cpuset, mems) :=
    if is_nil cores then (quota0, default_share, [], EmptyString)
    else if remap then (quota0, 1024, cores, numa)
    else (-1, shares_of cpu, cores, numa) in
  let half := Z.quot memory 2 in
  let resv := if negb (memory =? 0) && (half <? mib4) then mib4 else half in
  mkObs Ok quota period shares cpuset mems memory memory resv.

Definition err (e : outcome) : obs := mkObs e 0 0 0 [] EmptyString 0 0 0.

(* "memory should more than 4MiB" *)
Definition mem_invalid (m : Z) : bool := ((0 <? m) && (m <? mib4)) || (m <? 0).

(* container.go VirtualizationCreate: remap is always false here *)
Definition create_with (rnd : bool) (p : params) : obs :=
  if mem_invalid (p_memory p) then err ErrInvalidMemory
  else make_resource_setting rnd (p_cpu p) (p_memory p) (p_cores p) (p_numa p) false.

Fixpoint seqZ (start : Z) (n : nat) : list Z :=
  match n with O => [] | S n' => start :: seqZ (start + 1) n' end.

(* container.go VirtualizationUpdateResource (no volumes in these parameters) *)
Definition update_with (fix2 rnd : bool) (ncpu : Z) (p : params) : obs :=
  if mem_invalid (p_memory p) then err ErrInvalidMemory
  else
    let memory := if p_memory p =? 0 then max_int else p_memory p in
    let '(quota, cores, numa, remap) :=
      if feq (p_cpu p) fzero || is_nil (p_cores p) then
        (* "unlimited cpu": Info().NCPU cores *)
        let all := seqZ 0 (Z.to_nat ncpu) in
        let remap' := if fix2 then true else p_remap p in
        if feq (p_cpu p) fzero then (f_of_Z (-1), all, EmptyString, remap')
        else (p_cpu p, all, p_numa p, remap')
      else (p_cpu p, p_cores p, p_numa p, p_remap p) in
    make_resource_setting rnd quota memory cores numa remap.

(* the code as it is now *)
Definition make := make_resource_setting true.
Definition create := create_with true.
Definition update := update_with true true.

(* ---- correspondence cases ---- *)

Inductive path := PDirect | PCreate | PUpdate.
Record case := mkCase { c_path : path; c_params : params; c_ncpu : Z; c_obs : obs }.

Definition model (c : case) : obs :=
  let p := c_params c in
  match c_path c with
  | PDirect => make (p_cpu p) (p_memory p) (p_cores p) (p_numa p) (p_remap p)
  | PCreate => create p
  | PUpdate => update (c_ncpu c) p
  end.

Definition outcome_eqb (a b : outcome) : bool :=
  match a, b with Ok, Ok | ErrInvalidMemory, ErrInvalidMemory | ErrOther, ErrOther => true | _, _ => false end.

Fixpoint zlist_eqb (a b : list Z) : bool :=
  match a, b with
  | [], [] => true
  | x :: a', y :: b' => (x =? y) && zlist_eqb a' b'
  | _, _ => false
  end.

Definition obs_eqb (a b : obs) : bool :=
  outcome_eqb (o_outcome a) (o_outcome b)
  && (o_quota a =? o_quota b) && (o_period a =? o_period b) && (o_shares a =? o_shares b)
  && zlist_eqb (o_cpuset a) (o_cpuset b) && String.eqb (o_mems a) (o_mems b)
  && (o_memory a =? o_memory b) && (o_swap a =? o_swap b) && (o_reservation a =? o_reservation b).

Definition agree (c : case) : bool := obs_eqb (model c) (c_obs c).

(* ---- boolean reflection of the property, in exact rational arithmetic on the
   value of the float (independent of the float operations of the model) ---- *)

(* a finite float as sign, mantissa, exponent: value = (-1)^s * m * 2^e *)
Definition decode (a : f64) : option (bool * Z * Z) :=
  match a with
  | B754_zero _ _ s => Some (s, 0, 0)
  | B754_finite _ _ s m e _ => Some (s, Zpos m, e)
  | _ => None
  end.

(* |q - v * scale| <= 1/2 + 1/2048 for v = m * 2^e >= 0 *)
Definition near_scaled (q : Z) (m e : Z) (scale : Z) : bool :=
  let '(num, den) := if e <? 0 then (m * scale, Z.pow 2 (- e)) else (m * scale * Z.pow 2 e, 1) in
  (* |q*den - num| * 2048 <= den * 1025 *)
  Z.abs (q * den - num) * 2048 <=? den * 1025.

(* fractional part of v = m * 2^e >= 0 as a rational num/den *)
Definition frac_rat (m e : Z) : Z * Z :=
  if e <? 0 then (Z.modulo m (Z.pow 2 (- e)), Z.pow 2 (- e)) else (0, 1).

Definition shares_ok (shares : Z) (m e : Z) : bool :=
  let '(num, den) := frac_rat m e in
  if num =? 0 then shares =? 1024
  else Z.abs (shares * den - 1024 * num) * 2048 <=? den * 1025.

Definition ok (c : case) : bool :=
  let p := c_params c in
  let o := c_obs c in
  match decode (p_cpu p) with
  | None => true                                        (* NaN / Inf limits are outside the domain *)
  | Some (s, m, e) =>
    if s && negb (m =? 0) then true                     (* negative limits are outside the domain *)
    else
    if mem_invalid (p_memory p) then
      match c_path c with
      | PDirect => true                                 (* only reached with validated memory *)
      | _ => outcome_eqb (o_outcome o) ErrInvalidMemory
      end
    else
      let cpu_pos := negb (m =? 0) in
      let upd := match c_path c with PUpdate => true | _ => false end in
      let all := seqZ 0 (Z.to_nat (c_ncpu c)) in
      let remap := match c_path c with PCreate => false | _ => p_remap p end in
      outcome_eqb (o_outcome o) Ok
      && (o_period o =? period)
      (* memory and memory+swap capped at the limit (0 / MaxInt64 = unlimited) *)
      && (if 0 <? p_memory p then (o_memory o =? p_memory p) && (o_swap o =? p_memory p)
          else (o_memory o =? o_swap o) && ((o_memory o =? 0) || (o_memory o =? max_int)))
      && (if negb (is_nil (p_cores p)) && negb remap && (cpu_pos || negb upd) then
            (* bound: exactly its cores and NUMA node, unrestricted quota, shares of the fraction *)
            zlist_eqb (o_cpuset o) (p_cores p) && String.eqb (o_mems o) (p_numa p)
            && (o_quota o =? -1) && shares_ok (o_shares o) m e
          else if cpu_pos then
            (* unbound or remapped with a limit: quota = limit x period, default shares *)
            near_scaled (o_quota o) m e period && (o_shares o =? 1024)
            && (if is_nil (p_cores p) then
                  if upd then zlist_eqb (o_cpuset o) all else is_nil (o_cpuset o)
                else zlist_eqb (o_cpuset o) (p_cores p) && String.eqb (o_mems o) (p_numa p))
          else
            (* no cpu limit: unrestricted *)
            (o_shares o =? 1024)
            && (if upd then (o_quota o =? -1) && zlist_eqb (o_cpuset o) all
                else (o_quota o =? 0) && zlist_eqb (o_cpuset o) (p_cores p)))
  end.

(* ---- end-to-end cases: engine parameters produced by the real cpumem plugin
   (CalculateDeploy / CalculateRealloc / CalculateRemap) fed to the docker engine ---- *)

Record chain := mkChain {
  ch_case : case;
  ch_frag : Z;            (* pieces the plugin put on the fragment core (0: whole cores only / unbound) *)
  ch_base : Z;            (* Scheduler.ShareBase: pieces of one whole core *)
  ch_consistent : bool }. (* the engine parameters agree with the plugin's workload record
                             (same cpu_map, NUMA node, cpu and memory limits) *)

Definition cagree (c : chain) : bool := agree (ch_case c).

(* the settings enforce the allocation: the C31 reflection, plus the C05 -> C31 link:
   the shares of a bound workload are 1024 x (fragment pieces / share base) up to the
   granularity of the pieces (pieces = round(cpu x base), so the fraction and
   pieces/base differ by at most 1/(2 base)) and the rounding of the shares *)
Definition cok (c : chain) : bool :=
  ok (ch_case c) && ch_consistent c
  && (let k := ch_case c in
      let bound := negb (is_nil (p_cores (c_params k))) && negb (p_remap (c_params k)) in
      if bound && (0 <? ch_frag c) && outcome_eqb (o_outcome (c_obs k)) Ok
      then Z.abs (o_shares (c_obs k) * ch_base c - 1024 * ch_frag c) <=? 512 + ch_base c
      else true).
