(* C31: one real-number bound for the cpu quota, for all binary64 cpu limits in
   range: | quota - limit x period | <= 1/2 + 2^-22.
   Composition of Flocq's Bmult_correct (the binary64 product is the rounding of
   the real product), error_le_half_ulp (half an ulp), and round_nearest
   (int64(math.Round(y)) is an integer nearest to y, DockerProofs.v). *)
From Coq Require Import ZArith Reals Lra Lia.
From Flocq Require Import Core IEEE754.BinarySingleNaN IEEE754.Binary IEEE754.Bits.
From Verif Require Import Base.GoFloat Engine.Docker Engine.DockerProofs.
Local Open Scope R_scope.

Notation fexp64 := (SpecFloat.fexp 53 1024).
Notation rndNE := (round radix2 fexp64 (round_mode mode_NE)).

(* ---- int64(math.Round(y)) as a real statement ---- *)

Lemma near_frac : forall z num den : Z, (0 < den)%Z ->
  (Z.abs (z * den - num) * 2 <= den)%Z ->
  Rabs (IZR z - IZR num / IZR den) <= / 2.
Proof.
  intros z num den Hd H.
  assert (Hdr : 0 < IZR den) by (apply IZR_lt; exact Hd).
  replace (IZR z - IZR num / IZR den) with (IZR (z * den - num) / IZR den)
    by (rewrite minus_IZR, mult_IZR; field; lra).
  unfold Rdiv. rewrite Rabs_mult, Rabs_inv, (Rabs_pos_eq (IZR den)) by lra.
  rewrite <- abs_IZR.
  apply (Rmult_le_reg_r (IZR den)); [exact Hdr|].
  rewrite Rmult_assoc, Rinv_l by lra. rewrite Rmult_1_r.
  apply IZR_le in H. rewrite mult_IZR in H. simpl in H. lra.
Qed.

Lemma bpow_neg : forall p, bpow radix2 (Z.neg p) = / IZR (2 ^ Z.pos p).
Proof. intros p. reflexivity. Qed.
Lemma bpow_pos' : forall p, bpow radix2 (Z.pos p) = IZR (2 ^ Z.pos p).
Proof. intros p. reflexivity. Qed.

(* for every finite non-negative float y: | Round(y) - y | <= 1/2 *)
Lemma round_real : forall y : f64, is_finite 53 1024 y = true -> 0 <= B2R 53 1024 y ->
  Rabs (IZR (f_round_Z y) - B2R 53 1024 y) <= / 2.
Proof.
  intros y Hf Hpos. destruct y as [s|s|s pl Hpl|s m e He]; try discriminate.
  - simpl. rewrite Rminus_0_r, Rabs_R0. lra.
  - pose proof (round_nearest s m e He) as Hn. cbv zeta in Hn.
    assert (Hs : s = false).
    { destruct s; [|reflexivity]. exfalso. simpl in Hpos. unfold F2R in Hpos. simpl in Hpos.
      pose proof (bpow_gt_0 radix2 e) as Hb.
      assert (IZR (Z.neg m) < 0) by (apply IZR_lt; lia). nra. }
    subst s. cbn [B2R cond_Zopp SpecFloat.cond_Zopp]. unfold F2R. cbn [Fnum Fexp].
    unfold mag_frac in Hn.
    destruct e as [|p|p].
    + cbn [Z.ltb Z.compare] in Hn. rewrite Z.pow_0_r in Hn. destruct Hn as (Hd & Hz & Hn).
      simpl (bpow radix2 0). rewrite Rmult_1_r.
      pose proof (near_frac _ _ _ Hd Hn) as H. unfold Rdiv in H.
      replace (IZR (Z.pos m * 1) * / 1) with (IZR (Z.pos m)) in H by (rewrite Z.mul_1_r; field). exact H.
    + replace (Z.pos p <? 0)%Z with false in Hn by (symmetry; apply Z.ltb_ge; lia).
      destruct Hn as (Hd & Hz & Hn).
      pose proof (near_frac _ _ _ Hd Hn) as H. unfold Rdiv in H.
      rewrite bpow_pos'. rewrite mult_IZR in H.
      replace (IZR (Z.pos m) * IZR (2 ^ Z.pos p) * / 1) with (IZR (Z.pos m) * IZR (2 ^ Z.pos p)) in H by field.
      exact H.
    + replace (Z.neg p <? 0)%Z with true in Hn by (symmetry; apply Z.ltb_lt; lia).
      change (- Z.neg p)%Z with (Z.pos p) in Hn.
      destruct Hn as (Hd & Hz & Hn).
      pose proof (near_frac _ _ _ Hd Hn) as H. unfold Rdiv in H.
      rewrite bpow_neg. exact H.
Qed.

(* ---- the binary64 product ---- *)

Lemma period_val : B2R 53 1024 (f_of_Z period) = 100000.
Proof.
  assert (H : match f_of_Z period with
              | B754_finite _ _ s m e _ => (s, m, e) = (false, 6871947673600000%positive, (-36)%Z)
              | _ => False
              end) by (vm_compute; reflexivity).
  destruct (f_of_Z period) as [s|s|s pl Hpl|s m e He]; try contradiction.
  inversion H; subst. unfold B2R, F2R. cbn [Fnum Fexp cond_Zopp SpecFloat.cond_Zopp].
  rewrite bpow_neg. change (2 ^ 36)%Z with 68719476736%Z. lra.
Qed.

Lemma fexp64_32 : fexp64 32 = (-21)%Z.
Proof. reflexivity. Qed.

Lemma format_bpow31 : generic_format radix2 fexp64 (bpow radix2 31).
Proof. apply generic_format_bpow. vm_compute. discriminate. Qed.

(* the bound, for every finite cpu limit with 0 <= limit x period <= 2^31 (limits up to 21474 cpus):
   | quota - limit x period | <= 1/2 + 2^-22 *)
Theorem quota_real_bound : forall cpu : f64,
  is_finite 53 1024 cpu = true ->
  0 <= B2R 53 1024 cpu ->
  B2R 53 1024 cpu * 100000 <= bpow radix2 31 ->
  Rabs (IZR (quota_of true cpu) - B2R 53 1024 cpu * 100000) <= / 2 + bpow radix2 (-22).
Proof.
  intros cpu Hf Hpos Hle.
  set (x := B2R 53 1024 cpu * 100000) in *.
  assert (Hx0 : 0 <= x) by (unfold x; nra).
  assert (Hvalid : Valid_exp fexp64) by (apply fexp_correct; reflexivity).
  assert (Hr0 : 0 <= rndNE x).
  { apply round_ge_generic; [exact Hvalid|apply valid_rnd_round_mode|apply generic_format_0|exact Hx0]. }
  assert (Hr31 : rndNE x <= bpow radix2 31).
  { apply round_le_generic; [exact Hvalid|apply valid_rnd_round_mode|apply format_bpow31|exact Hle]. }
  pose proof (Bmult_correct 53 1024 eq_refl eq_refl binop_nan_pl64 mode_NE cpu (f_of_Z period)) as HB.
  rewrite period_val in HB. fold x in HB.
  rewrite Rlt_bool_true in HB.
  2:{ rewrite Rabs_pos_eq by exact Hr0. apply Rle_lt_trans with (1 := Hr31). apply bpow_lt. lia. }
  destruct HB as (HBr & HBf & _).
  unfold quota_of. change (fmul cpu (f_of_Z period)) with (Bmult 53 1024 eq_refl eq_refl binop_nan_pl64 mode_NE cpu (f_of_Z period)).
  set (y := Bmult 53 1024 eq_refl eq_refl binop_nan_pl64 mode_NE cpu (f_of_Z period)) in *.
  assert (Hyf : is_finite 53 1024 y = true).
  { rewrite HBf, Hf. simpl. assert (H : is_finite 53 1024 (f_of_Z period) = true) by (vm_compute; reflexivity). exact H. }
  assert (Hy0 : 0 <= B2R 53 1024 y) by (rewrite HBr; exact Hr0).
  pose proof (round_real y Hyf Hy0) as H1. rewrite HBr in H1.
  pose proof (@error_le_half_ulp radix2 fexp64 Hvalid (fun z => negb (Z.even z)) x) as H2.
  change (round radix2 fexp64 (Znearest (fun z => negb (Z.even z))) x) with (rndNE x) in H2.
  assert (Hulp : ulp radix2 fexp64 x <= bpow radix2 (-21)).
  { apply Rle_trans with (ulp radix2 fexp64 (bpow radix2 31)).
    - apply (@ulp_le_pos radix2 fexp64 Hvalid (fexp_monotone 53 1024)); [exact Hx0|exact Hle].
    - rewrite ulp_bpow. change (31 + 1)%Z with 32%Z. rewrite fexp64_32. apply Rle_refl. }
  assert (Hb : / 2 * bpow radix2 (-21) = bpow radix2 (-22)).
  { change (-21)%Z with (-22 + 1)%Z. rewrite bpow_plus. change (bpow radix2 1) with 2. lra. }
  replace (IZR (f_round_Z y) - x) with ((IZR (f_round_Z y) - rndNE x) + (rndNE x - x)) by ring.
  apply Rle_trans with (1 := Rabs_triang _ _).
  apply Rplus_le_compat; [exact H1|].
  apply Rle_trans with (1 := H2). rewrite <- Hb. apply Rmult_le_compat_l; [lra|exact Hulp].
Qed.

(* the hypotheses are satisfiable: cpu limit 0.5 *)
Example quota_real_bound_hyps :
  is_finite 53 1024 f05 = true /\ 0 <= B2R 53 1024 f05 /\ B2R 53 1024 f05 * 100000 <= bpow radix2 31.
Proof.
  assert (H : match f05 with
              | B754_finite _ _ s m e _ => (s, m, e) = (false, 4503599627370496%positive, (-53)%Z)
              | _ => False
              end) by (vm_compute; reflexivity).
  destruct f05 as [s|s|s pl Hpl|s m e He]; try contradiction. inversion H; subst.
  split; [reflexivity|]. unfold B2R, F2R. cbn [Fnum Fexp cond_Zopp SpecFloat.cond_Zopp].
  rewrite bpow_neg. change (2 ^ 53)%Z with 9007199254740992%Z.
  change (bpow radix2 31) with (IZR (2 ^ 31)). change (2 ^ 31)%Z with 2147483648%Z. split; lra.
Qed.
