(* Cpumem/BookRemapProofs.v — C32: CalculateRemap gives every workload without
   cpu binding exactly the cores with at least shareBase free pieces (all
   capacity cores when there is none), each at shareBase, and nothing to bound
   workloads; lifted over all histories with the bookkeeping invariant. *)
From Coq Require Import String Ascii List ZArith Bool Lia.
From Verif Require Import Base.GoInt Base.GoFloat Cpumem.Types Cpumem.Node Cpumem.BookProofs.
Import ListNotations.
Local Open Scope Z_scope.

(* a record as the plugin stores it: Go maps, and (Validate) every core that
   occurs in the usage occurs in the capacity *)
Definition wf_info (info : node_info) : Prop :=
  NoDup (keys (nr_cpumap (ni_cap info))) /\ NoDup (keys (nr_cpumap (ni_usage info))) /\
  (forall c, In c (keys (nr_cpumap (ni_usage info))) -> In c (keys (nr_cpumap (ni_cap info)))).

Definition free_of (info : node_info) (c : string) : Z :=
  lookup 0 (nr_cpumap (ni_cap info)) c - lookup 0 (nr_cpumap (ni_usage info)) c.

Lemma keys_upd_same {V} (m : smap V) k v : In k (keys m) -> keys (upd m k v) = keys m.
Proof.
  unfold keys. induction m as [|[k0 v0] t IH]; simpl; intro H; [tauto|].
  destruct (String.eqb k k0) eqn:E; simpl; [reflexivity|].
  f_equal. apply IH. destruct H as [H|H]; [|exact H].
  subst. rewrite String.eqb_refl in E. discriminate.
Qed.

Lemma keys_cpumap_sub c1 : forall c, (forall k, In k (keys c1) -> In k (keys c)) -> keys (cpumap_sub c c1) = keys c.
Proof.
  unfold cpumap_sub. induction c1 as [|[k1 v1] t IH]; intros c H; simpl; [reflexivity|].
  rewrite IH.
  - apply keys_upd_same. apply H. simpl. auto.
  - intros k Hk. rewrite keys_upd_same by (apply H; simpl; auto). apply H. simpl. auto.
Qed.

Lemma lookup_opt_in {V} (m : smap V) k v : NoDup (keys m) -> (In (k, v) m <-> lookup_opt m k = Some v).
Proof.
  unfold keys. induction m as [|[k0 v0] t IH]; simpl; intro ND.
  - split; [tauto|discriminate].
  - inversion ND as [|? ? NI ND']; subst. destruct (String.eqb k k0) eqn:E.
    + apply String.eqb_eq in E; subst k0. split.
      * intros [H|H]; [congruence|]. exfalso. apply NI. change k with (fst (k, v)). now apply in_map.
      * intro H; left; congruence.
    + apply String.eqb_neq in E. rewrite <- (IH ND'). split.
      * intros [H|H]; [congruence|exact H].
      * intro H; right; exact H.
Qed.

Lemma lookup_of_opt (m : smap Z) k v : lookup_opt m k = Some v -> lookup 0 m k = v.
Proof. unfold lookup. intros ->. reflexivity. Qed.

Lemma in_keys_lookup_opt {V} (m : smap V) k : In k (keys m) -> exists v, lookup_opt m k = Some v.
Proof.
  unfold keys. induction m as [|[k0 v0] t IH]; simpl; intro H; [tauto|].
  destruct (String.eqb k k0) eqn:E; [eexists; reflexivity|].
  apply IH. destruct H as [H|H]; [|exact H]. subst. rewrite String.eqb_refl in E. discriminate.
Qed.

(* the available cpu map: same cores as the capacity, free pieces *)
Lemma avail_spec info : wf_info info ->
  let av := nr_cpumap (get_available_nofloat info) in
  keys av = keys (nr_cpumap (ni_cap info)) /\ forall c, lookup 0 av c = free_of info c.
Proof.
  intros (NC & NU & SUB). unfold get_available_nofloat, nr_sub_nofloat, free_of. simpl. split.
  - apply keys_cpumap_sub. exact SUB.
  - intro c. rewrite cpumap_sub_lookup, msum_lookup by exact NU. reflexivity.
Qed.

(* cores with a full core's worth of free pieces *)
Definition roomy (info : node_info) (base : Z) (c : string) : Prop :=
  In c (keys (nr_cpumap (ni_cap info))) /\ base <= free_of info c.

Lemma keys_map_const {V W} (m : smap V) (f : string * V -> W) : keys (map (fun kv => (fst kv, f kv)) m) = keys m.
Proof. unfold keys. rewrite map_map. reflexivity. Qed.

Lemma keys_filter_in {V} (m : smap V) (p : string * V -> bool) c :
  NoDup (keys m) -> (In c (keys (filter p m)) <-> exists v, lookup_opt m c = Some v /\ p (c, v) = true).
Proof.
  intro ND. unfold keys. rewrite in_map_iff. split.
  - intros [[k v] [E H]]. simpl in E. subst k. apply filter_In in H. destruct H as [H P].
    exists v. split; [apply lookup_opt_in; assumption|exact P].
  - intros [v [L P]]. exists (c, v). split; [reflexivity|]. apply filter_In. split; [|exact P].
    apply lookup_opt_in; assumption.
Qed.

(* C32, the share map *)
Theorem share_spec info base : wf_info info ->
  let s := share_cpumap info base in
  (forall c v, In (c, v) s -> v = base) /\
  ((exists c, roomy info base c) -> forall c, In c (keys s) <-> roomy info base c) /\
  ((~ exists c, roomy info base c) -> keys s = keys (nr_cpumap (ni_cap info))).
Proof.
  intros WF. destruct (avail_spec info WF) as [KA LA]. destruct WF as (NC & NU & SUB).
  set (av := nr_cpumap (get_available_nofloat info)) in *.
  assert (NA : NoDup (keys av)) by (rewrite KA; exact NC).
  assert (R : forall c, In c (keys (filter (fun kv => base <=? snd kv) av)) <-> roomy info base c).
  { intro c. rewrite (keys_filter_in av _ c NA). unfold roomy. split.
    - intros [v [L P]]. simpl in P. apply Z.leb_le in P. split.
      + rewrite <- KA. unfold keys. apply in_map_iff. exists (c, v). split; [reflexivity|].
        apply lookup_opt_in; assumption.
      + rewrite <- LA. rewrite (lookup_of_opt _ _ _ L). exact P.
    - intros [I F]. rewrite <- KA in I. destruct (in_keys_lookup_opt av c I) as [v L].
      exists v. split; [exact L|]. simpl. apply Z.leb_le. rewrite <- LA in F.
      rewrite (lookup_of_opt _ _ _ L) in F. exact F. }
  unfold share_cpumap. fold av.
  destruct (map (fun kv => (fst kv, base)) (filter (fun kv => base <=? snd kv) av)) as [|e t] eqn:M.
  - (* no roomy core: all capacity cores *)
    assert (NR : ~ exists c, roomy info base c).
    { intros [c Hc]. apply R in Hc. destruct (filter _ av) as [|x l]; [exact Hc|discriminate]. }
    split; [|split].
    + intros c v H. apply in_map_iff in H. destruct H as [[k w] [E _]]. simpl in E. congruence.
    + intro H. contradiction.
    + intros _. apply (keys_map_const (nr_cpumap (ni_cap info)) (fun _ => base)).
  - rewrite <- M. split; [|split].
    + intros c v H. apply in_map_iff in H. destruct H as [[k w] [E _]]. simpl in E. congruence.
    + intros _ c. rewrite (keys_map_const _ (fun _ => base)). apply R.
    + intro NR. exfalso. apply NR.
      assert (I : In (fst e) (keys (map (fun kv => (fst kv, base)) (filter (fun kv => base <=? snd kv) av)))).
      { rewrite M. simpl. auto. }
      rewrite (keys_map_const _ (fun _ => base)) in I. exists (fst e). apply R. exact I.
Qed.

(* C32, who gets it: exactly the workloads without cpu binding *)
Theorem remap_spec {K} info base (ws : list (K * wres)) :
  let share := share_cpumap info base in
  forall id ep, In (id, ep) (calculate_remap info base ws) <->
    exists w, In (id, w) ws /\ wr_cpumap w = [] /\
              ep = mkEP (wr_cpu_lim w) share (wr_numanode w) (wr_mem_lim w) true.
Proof.
  intros share id ep. unfold calculate_remap. fold share. rewrite in_flat_map. split.
  - intros [[id' w] [I H]]. simpl in H. destruct (wr_cpumap w) eqn:E; simpl in H; [|tauto].
    destruct H as [H|[]]. injection H as <- <-. exists w. auto.
  - intros [w [I [E ->]]]. exists (id, w). split; [exact I|]. simpl. rewrite E. simpl. auto.
Qed.

(* ---------- lifted over histories ---------- *)
Lemma validate_usage_keys n n' : validate n = inr n' ->
  forall c, In c (keys (nr_cpumap (ni_usage n))) -> In c (keys (nr_cpumap (ni_cap n))).
Proof.
  unfold validate. intros V c Hc.
  destruct (nr_cpumap (ni_cap n)) as [|e t] eqn:EC; [discriminate|].
  destruct (usage_cpu_ok (e :: t) (nr_cpumap (ni_usage n))) eqn:U; simpl in V; [|discriminate].
  unfold usage_cpu_ok in U. rewrite forallb_forall in U.
  unfold keys in Hc. apply in_map_iff in Hc. destruct Hc as [[k v] [E I]]. simpl in E. subst k.
  specialize (U _ I). cbn [fst snd] in U.
  destruct (lookup_opt (e :: t) c) eqn:L; [|discriminate U].
  clear -L. unfold keys. revert L. generalize (e :: t). intro m.
  induction m as [|[k0 v0] m IH]; simpl; [discriminate|].
  destruct (String.eqb c k0) eqn:E; [apply String.eqb_eq in E; auto|]. intro L. right. apply IH. exact L.
Qed.

Lemma add_all_nodup ws : forall u, NoDup (keys (nr_cpumap u)) -> NoDup (keys (nr_cpumap (add_all u ws))).
Proof.
  unfold add_all. induction ws as [|w t IH]; intros u H; simpl; [exact H|].
  apply IH. simpl. apply cpumap_add_nodup. exact H.
Qed.
Lemma sub_all_nodup ws : forall u, NoDup (keys (nr_cpumap u)) -> NoDup (keys (nr_cpumap (sub_all u ws))).
Proof.
  unfold sub_all. induction ws as [|w t IH]; intros u H; simpl; [exact H|].
  apply IH. simpl. apply cpumap_sub_nodup. exact H.
Qed.

Lemma commit_wf s ws incr live' : wf_info (st_info s) -> wf_info (st_info (sr_state (commit s ws incr live'))).
Proof.
  intros WF. unfold commit, set_node_resource_usage, calculate_node_resource.
  destruct (validate _) as [e|i] eqn:V; simpl; [exact WF|].
  pose proof (validate_usage_keys _ _ V) as SUB. apply validate_inr in V. subst i. simpl in *.
  destruct WF as (NC & NU & _). split; [exact NC|split; [|exact SUB]].
  destruct incr.
  - apply (add_all_nodup ws). exact NU.
  - apply (sub_all_nodup ws). exact NU.
Qed.

Lemma step_wf o : forall s, inv_valid s -> wf_info (st_info s) -> wf_info (st_info (sr_state (step s o))).
Proof.
  induction o as [|ws|idxs|i|i req new|i origin|inner IH]; intros s IV WF; simpl; try exact WF; try (apply commit_wf; exact WF).
  - destruct (nth_error _ _); simpl; [apply commit_wf|]; exact WF.
  - destruct (nth_error _ _); simpl; [apply commit_wf|]; exact WF.
  - destruct (failed_commit_state s inner IV) as (_ & _ & [E|E]); simpl in E; rewrite E; [exact WF|].
    destruct IV as (_ & NC & NN). destruct (written_back_maps _ NC NN) as (M1 & _ & _).
    destruct WF as (W1 & W2 & W3). unfold wf_info. cbn [ni_cap ni_usage]. rewrite M1. auto.
Qed.

Lemma run_wf h : forall s, inv_valid s -> wf_info (st_info s) -> wf_info (st_info (run s h)).
Proof.
  unfold run. induction h as [|o t IH]; intros s IV WF; simpl; [exact WF|].
  apply IH; [apply step_valid; exact IV|apply step_wf; assumption].
Qed.

Lemma run_cap h : forall s, ni_cap (st_info (run s h)) = ni_cap (st_info s).
Proof.
  unfold run. induction h as [|o t IH]; intro s; simpl; [reflexivity|]. rewrite IH. apply step_cap.
Qed.

(* after any history: a core is shared out iff its capacity minus the pieces
   held by the live workloads leaves at least shareBase (or no core does) *)
Theorem remap_after_history info h base :
  inv_valid (mkState info []) -> wf_info info -> usage_zero (ni_usage info) -> Forall op_wf h ->
  let s := run (mkState info []) h in
  let free c := lookup 0 (nr_cpumap (ni_cap info)) c - zs (fun w => lookup 0 (wr_cpumap w) c) (st_live s) in
  let share := share_cpumap (st_info s) base in
  let roomy' c := In c (keys (nr_cpumap (ni_cap info))) /\ base <= free c in
  (forall c v, In (c, v) share -> v = base) /\
  ((exists c, roomy' c) -> forall c, In c (keys share) <-> roomy' c) /\
  ((~ exists c, roomy' c) -> keys share = keys (nr_cpumap (ni_cap info))).
Proof.
  intros IV WF UZ OW s free share roomy'.
  pose proof (run_wf h (mkState info []) IV WF) as WFs. fold s in WFs.
  pose proof (exact_int_all_histories info h IV UZ OW) as [EC _]. fold s in EC.
  assert (CAP : ni_cap (st_info s) = ni_cap info) by (apply (run_cap h (mkState info []))).
  destruct (share_spec (st_info s) base WFs) as (S1 & S2 & S3). fold share in S1, S2, S3.
  assert (RR : forall c, roomy (st_info s) base c <-> roomy' c).
  { intro c. unfold roomy, roomy', free_of, free. rewrite CAP, (EC c). tauto. }
  split; [exact S1|split].
  - intros [c Hc] c'. rewrite <- RR. apply S2. exists c. apply RR. exact Hc.
  - intro NR. rewrite <- CAP. apply S3. intros [c Hc]. apply NR. exists c. apply RR. exact Hc.
Qed.
