(* Cpumem/BookProofs.v — the plugin's bookkeeping is exact: integer components
   (per-core pieces, memory, per-NUMA-node memory).  The invariant

       usage = sum of the resources of the live workloads

   is preserved by every operation of Cpumem/Node.v for every oracle choice
   (whatever CalculateDeploy / CalculateRealloc returned), so it holds after
   every history; a rollback restores the usage. *)
From Coq Require Import String Ascii List ZArith Bool Lia Permutation.
From Verif Require Import Base.GoInt Base.GoFloat Cpumem.Types Cpumem.Node.
Import ListNotations.
Local Open Scope Z_scope.

(* ---------- association-list facts ---------- *)
Lemma lookup_opt_upd {V} (m : smap V) k v k' :
  lookup_opt (upd m k v) k' = if String.eqb k' k then Some v else lookup_opt m k'.
Proof.
  induction m as [|[k0 v0] t IH]; simpl.
  - destruct (String.eqb k' k); reflexivity.
  - destruct (String.eqb k k0) eqn:E; simpl.
    + apply String.eqb_eq in E; subst k0. destruct (String.eqb k' k); reflexivity.
    + destruct (String.eqb k' k0) eqn:E2.
      * apply String.eqb_eq in E2; subst k0. rewrite String.eqb_sym in E. rewrite E. reflexivity.
      * exact IH.
Qed.

Lemma lookup_upd {V} (d : V) (m : smap V) k v k' :
  lookup d (upd m k v) k' = if String.eqb k' k then v else lookup d m k'.
Proof. unfold lookup. rewrite lookup_opt_upd. destruct (String.eqb k' k); reflexivity. Qed.

Lemma keys_upd_in {V} (m : smap V) k v x : In x (keys (upd m k v)) <-> x = k \/ In x (keys m).
Proof.
  unfold keys. induction m as [|[k0 v0] t IH]; simpl.
  - intuition congruence.
  - destruct (String.eqb k k0) eqn:E; simpl.
    + apply String.eqb_eq in E; subst. intuition.
    + rewrite IH. intuition.
Qed.

Lemma nodup_upd {V} (m : smap V) k v : NoDup (keys m) -> NoDup (keys (upd m k v)).
Proof.
  unfold keys. induction m as [|[k0 v0] t IH]; simpl; intro ND.
  - constructor; [simpl; tauto|constructor].
  - inversion ND as [|? ? NI ND']; subst. destruct (String.eqb k k0) eqn:E; simpl.
    + constructor; assumption.
    + constructor; [|apply IH; exact ND'].
      intro H. apply (keys_upd_in t k v k0) in H. destruct H as [H|H].
      * subst. rewrite String.eqb_refl in E. discriminate.
      * exact (NI H).
Qed.

(* sum of the values stored under key k (all occurrences; = lookup for a Go map) *)
Fixpoint msum (m : smap Z) (k : string) : Z :=
  match m with
  | [] => 0
  | (k', v) :: t => (if String.eqb k k' then v else 0) + msum t k
  end.

Lemma msum_notin m k : ~ In k (keys m) -> msum m k = 0.
Proof.
  unfold keys. induction m as [|[k0 v0] t IH]; simpl; intro H; [reflexivity|].
  destruct (String.eqb k k0) eqn:E.
  - apply String.eqb_eq in E. subst. tauto.
  - rewrite IH; [lia|tauto].
Qed.

Lemma lookup_notin (m : smap Z) k : ~ In k (keys m) -> lookup 0 m k = 0.
Proof.
  unfold keys, lookup. induction m as [|[k0 v0] t IH]; simpl; intro H; [reflexivity|].
  destruct (String.eqb k k0) eqn:E.
  - apply String.eqb_eq in E. subst. tauto.
  - apply IH. tauto.
Qed.

Lemma msum_lookup m k : NoDup (keys m) -> msum m k = lookup 0 m k.
Proof.
  unfold keys, lookup. induction m as [|[k0 v0] t IH]; simpl; intro ND; [reflexivity|].
  inversion ND as [|? ? NI ND']; subst. destruct (String.eqb k k0) eqn:E.
  - apply String.eqb_eq in E. subst. rewrite msum_notin by exact NI. lia.
  - rewrite IH by exact ND'. lia.
Qed.

Lemma cpumap_add_lookup c1 : forall c k, lookup 0 (cpumap_add c c1) k = lookup 0 c k + msum c1 k.
Proof.
  unfold cpumap_add. induction c1 as [|[k1 v1] t IH]; intros c k; simpl; [lia|].
  rewrite IH, lookup_upd. destruct (String.eqb k k1) eqn:E.
  - apply String.eqb_eq in E. subst. lia.
  - lia.
Qed.

Lemma cpumap_sub_lookup c1 : forall c k, lookup 0 (cpumap_sub c c1) k = lookup 0 c k - msum c1 k.
Proof.
  unfold cpumap_sub. induction c1 as [|[k1 v1] t IH]; intros c k; simpl; [lia|].
  rewrite IH, lookup_upd. destruct (String.eqb k k1) eqn:E.
  - apply String.eqb_eq in E. subst. lia.
  - lia.
Qed.

Lemma cpumap_add_nodup c1 : forall c, NoDup (keys c) -> NoDup (keys (cpumap_add c c1)).
Proof.
  unfold cpumap_add. induction c1 as [|[k1 v1] t IH]; intros c ND; simpl; [exact ND|].
  apply IH. apply nodup_upd. exact ND.
Qed.
Lemma cpumap_sub_nodup c1 : forall c, NoDup (keys c) -> NoDup (keys (cpumap_sub c c1)).
Proof.
  unfold cpumap_sub. induction c1 as [|[k1 v1] t IH]; intros c ND; simpl; [exact ND|].
  apply IH. apply nodup_upd. exact ND.
Qed.

(* ---------- well-formed workload resources (Go maps: unique keys) ---------- *)
Definition wf_wres (w : wres) : Prop := NoDup (keys (wr_cpumap w)) /\ NoDup (keys (wr_numamem w)).

(* the integer resource vector of a workload at key k *)
Definition zs (f : wres -> Z) (l : list wres) : Z := fold_right Z.add 0 (map f l).

Lemma zs_app f l1 l2 : zs f (l1 ++ l2) = zs f l1 + zs f l2.
Proof. unfold zs. induction l1; simpl; lia. Qed.

Lemma zs_select_remove f (l : list wres) idxs : forall pos,
  zs f l = zs f (select_idxs l idxs pos) + zs f (remove_idxs l idxs pos).
Proof.
  unfold zs. induction l as [|x t IH]; intro pos; simpl; [reflexivity|].
  destruct (existsb (Nat.eqb pos) idxs); simpl; rewrite (IH (S pos)); lia.
Qed.

Lemma zs_replace f (l : list wres) : forall i x old, nth_error l i = Some old ->
  zs f (replace_nth l i x) = zs f l - f old + f x.
Proof.
  unfold zs. induction l as [|y t IH]; intros [|i] x old H; simpl in *; try discriminate.
  - injection H as <-. lia.
  - rewrite (IH i x old H). lia.
Qed.

Lemma Forall_select {A} (P : A -> Prop) (l : list A) idxs : forall pos,
  Forall P l -> Forall P (select_idxs l idxs pos).
Proof.
  induction l as [|x t IH]; intros pos H; simpl; [constructor|].
  inversion H; subst. destruct (existsb _ _); [constructor|]; auto.
Qed.
Lemma Forall_remove {A} (P : A -> Prop) (l : list A) idxs : forall pos,
  Forall P l -> Forall P (remove_idxs l idxs pos).
Proof.
  induction l as [|x t IH]; intros pos H; simpl; [constructor|].
  inversion H; subst. destruct (existsb _ _); [|constructor]; auto.
Qed.
Lemma Forall_replace {A} (P : A -> Prop) (l : list A) : forall i x,
  Forall P l -> P x -> Forall P (replace_nth l i x).
Proof.
  induction l as [|y t IH]; intros [|i] x H Hx; simpl; try constructor; inversion H; subst; auto.
Qed.
Lemma Forall_nth_error {A} (P : A -> Prop) (l : list A) i x : Forall P l -> nth_error l i = Some x -> P x.
Proof. intros H E. rewrite Forall_forall in H. apply H. eapply nth_error_In; eassumption. Qed.

(* ---------- usage after adding / subtracting a list of workload resources ---------- *)
Definition add_all (u : node_resource) (ws : list wres) : node_resource :=
  fold_left (fun r w => nr_add r (nr_of_wres w)) ws u.
Definition sub_all (u : node_resource) (ws : list wres) : node_resource :=
  fold_left (fun r w => nr_sub r (nr_of_wres w)) ws u.

Lemma add_all_cpumap ws : forall u k,
  lookup 0 (nr_cpumap (add_all u ws)) k = lookup 0 (nr_cpumap u) k + zs (fun w => msum (wr_cpumap w) k) ws.
Proof.
  unfold add_all, zs. induction ws as [|w t IH]; intros u k; simpl; [lia|].
  rewrite IH. simpl. rewrite cpumap_add_lookup. lia.
Qed.
Lemma add_all_numamem ws : forall u k,
  lookup 0 (nr_numamem (add_all u ws)) k = lookup 0 (nr_numamem u) k + zs (fun w => msum (wr_numamem w) k) ws.
Proof.
  unfold add_all, zs. induction ws as [|w t IH]; intros u k; simpl; [lia|].
  rewrite IH. simpl. rewrite cpumap_add_lookup. lia.
Qed.
Lemma add_all_mem ws : forall u, nr_mem (add_all u ws) = nr_mem u + zs wr_mem_req ws.
Proof.
  unfold add_all, zs. induction ws as [|w t IH]; intros u; simpl; [lia|]. rewrite IH. simpl. lia.
Qed.
Lemma sub_all_cpumap ws : forall u k,
  lookup 0 (nr_cpumap (sub_all u ws)) k = lookup 0 (nr_cpumap u) k - zs (fun w => msum (wr_cpumap w) k) ws.
Proof.
  unfold sub_all, zs. induction ws as [|w t IH]; intros u k; simpl; [lia|].
  rewrite IH. simpl. rewrite cpumap_sub_lookup. lia.
Qed.
Lemma sub_all_numamem ws : forall u k,
  lookup 0 (nr_numamem (sub_all u ws)) k = lookup 0 (nr_numamem u) k - zs (fun w => msum (wr_numamem w) k) ws.
Proof.
  unfold sub_all, zs. induction ws as [|w t IH]; intros u k; simpl; [lia|].
  rewrite IH. simpl. rewrite cpumap_sub_lookup. lia.
Qed.
Lemma sub_all_mem ws : forall u, nr_mem (sub_all u ws) = nr_mem u - zs wr_mem_req ws.
Proof.
  unfold sub_all, zs. induction ws as [|w t IH]; intros u; simpl; [lia|]. rewrite IH. simpl. lia.
Qed.

Lemma zs_msum_lookup (g : wres -> smap Z) k ws :
  Forall (fun w => NoDup (keys (g w))) ws -> zs (fun w => msum (g w) k) ws = zs (fun w => lookup 0 (g w) k) ws.
Proof.
  unfold zs. induction 1 as [|w t Hw _ IH]; simpl; [reflexivity|].
  rewrite IH, msum_lookup by exact Hw. reflexivity.
Qed.

(* ---------- validate returns its argument ---------- *)
Lemma validate_inr n n' : validate n = inr n' -> n' = n.
Proof.
  unfold validate. destruct (nr_cpumap (ni_cap n)); [discriminate|].
  destruct (negb _); [discriminate|].
  destruct (nr_numa (ni_cap n)); [congruence|].
  destruct (numa_cpu_fault _); [discriminate|].
  destruct (_ || _); [discriminate|congruence].
Qed.

(* ---------- the invariant (integer components) ---------- *)
Definition usage_exact_int (u : node_resource) (live : list wres) : Prop :=
  (forall k, lookup 0 (nr_cpumap u) k = zs (fun w => lookup 0 (wr_cpumap w) k) live) /\
  (forall k, lookup 0 (nr_numamem u) k = zs (fun w => lookup 0 (wr_numamem w) k) live) /\
  nr_mem u = zs wr_mem_req live.

Definition inv_int (s : state) : Prop :=
  usage_exact_int (ni_usage (st_info s)) (st_live s) /\ Forall wf_wres (st_live s).

(* oracle data carried by an operation is well formed (Go maps) *)
Fixpoint op_wf (o : op) : Prop :=
  match o with
  | OpAlloc ws => Forall wf_wres ws
  | OpRealloc _ _ new => wf_wres new
  | OpRollbackRealloc _ origin => wf_wres origin
  | OpFailedCommit inner => op_wf inner
  | _ => True
  end.

Lemma wf_cpumaps ws : Forall wf_wres ws -> Forall (fun w => NoDup (keys (wr_cpumap w))) ws.
Proof. apply Forall_impl. intros w [H _]. exact H. Qed.
Lemma wf_numamems ws : Forall wf_wres ws -> Forall (fun w => NoDup (keys (wr_numamem w))) ws.
Proof. apply Forall_impl. intros w [_ H]. exact H. Qed.

(* what commit does to the usage when Validate accepts *)
Lemma commit_usage_incr s ws live' r :
  commit s ws true live' = r -> sr_err r = false ->
  ni_usage (st_info (sr_state r)) = add_all (ni_usage (st_info s)) ws /\ st_live (sr_state r) = live'.
Proof.
  unfold commit, set_node_resource_usage, calculate_node_resource. intros <- E.
  destruct (validate _) as [e|i] eqn:V; simpl in *; [discriminate|].
  apply validate_inr in V. subst i. simpl. split; reflexivity.
Qed.
Lemma commit_usage_decr s ws live' r :
  commit s ws false live' = r -> sr_err r = false ->
  ni_usage (st_info (sr_state r)) = sub_all (ni_usage (st_info s)) ws /\ st_live (sr_state r) = live'.
Proof.
  unfold commit, set_node_resource_usage, calculate_node_resource. intros <- E.
  destruct (validate _) as [e|i] eqn:V; simpl in *; [discriminate|].
  apply validate_inr in V. subst i. simpl. split; reflexivity.
Qed.
Lemma commit_err_state s ws incr live' : sr_err (commit s ws incr live') = true -> sr_state (commit s ws incr live') = s.
Proof.
  unfold commit. destruct (set_node_resource_usage _ _ _ _ _); simpl; [reflexivity|discriminate].
Qed.
Lemma commit_cap s ws incr live' : ni_cap (st_info (sr_state (commit s ws incr live'))) = ni_cap (st_info s).
Proof.
  unfold commit, set_node_resource_usage. destruct (validate _) as [e|i] eqn:V; simpl; [reflexivity|].
  apply validate_inr in V. subst i. reflexivity.
Qed.

(* the delta of a re-allocation, pointwise *)
Lemma delta_cpumap new origin k : wf_wres new ->
  msum (wr_cpumap (realloc_delta new origin)) k = lookup 0 (wr_cpumap new) k - msum (wr_cpumap origin) k.
Proof.
  intros [H _]. unfold realloc_delta, wr_deepcopy, wr_sub. simpl.
  rewrite msum_lookup by (apply cpumap_sub_nodup; exact H). apply cpumap_sub_lookup.
Qed.
Lemma delta_numamem new origin k : wf_wres new ->
  msum (wr_numamem (realloc_delta new origin)) k = lookup 0 (wr_numamem new) k - msum (wr_numamem origin) k.
Proof.
  intros [_ H]. unfold realloc_delta, wr_deepcopy, wr_sub. simpl.
  rewrite msum_lookup by (apply cpumap_sub_nodup; exact H). apply cpumap_sub_lookup.
Qed.
Lemma delta_mem new origin : wr_mem_req (realloc_delta new origin) = wr_mem_req new - wr_mem_req origin.
Proof. reflexivity. Qed.

Lemma zs1 f (w : wres) : zs f [w] = f w.
Proof. unfold zs. simpl. lia. Qed.

(* ---------- validity of the stored record ---------- *)
Lemma upd_notin {V} (m : smap V) k v : ~ In k (keys m) -> upd m k v = m ++ [(k, v)].
Proof.
  unfold keys. induction m as [|[k0 v0] t IH]; simpl; intro H; [reflexivity|].
  destruct (String.eqb k k0) eqn:E.
  - apply String.eqb_eq in E. subst. tauto.
  - rewrite IH by tauto. reflexivity.
Qed.

Lemma cpumap_add_app m : forall acc, NoDup (keys (acc ++ m)) -> cpumap_add acc m = acc ++ m.
Proof.
  unfold cpumap_add. induction m as [|[k v] t IH]; intros acc ND; simpl; [now rewrite app_nil_r|].
  assert (NI : ~ In k (keys acc)).
  { unfold keys in *. rewrite map_app in ND. apply NoDup_remove_2 in ND. intro H. apply ND. apply in_or_app. auto. }
  rewrite (lookup_notin acc k NI), (upd_notin acc k (0 + v) NI). simpl.
  rewrite IH; rewrite <- app_assoc; [reflexivity|exact ND].
Qed.

Lemma cpumap_add_nil m : NoDup (keys m) -> cpumap_add [] m = m.
Proof. intro H. apply (cpumap_add_app m []). exact H. Qed.

(* Validate only reads the capacity and the two maps of the usage *)
Lemma validate_usage_congr cap u u' :
  nr_cpumap u = nr_cpumap u' -> nr_numamem u = nr_numamem u' ->
  (exists i, validate (mkNI cap u) = inr i) -> validate (mkNI cap u') = inr (mkNI cap u').
Proof.
  intros E1 E2 [i V]. unfold validate in *. simpl in *. rewrite <- E1.
  destruct (nr_cpumap cap); [discriminate|].
  destruct (negb _); [discriminate|].
  destruct (nr_numa cap); [reflexivity|].
  destruct (numa_cpu_fault cap); [discriminate|].
  unfold numa_mem_fault2 in *. simpl in *. rewrite <- E2.
  destruct (_ || _); [discriminate|reflexivity].
Qed.

Lemma add_all_nodup_c ws : forall u, NoDup (keys (nr_cpumap u)) -> NoDup (keys (nr_cpumap (add_all u ws))).
Proof.
  unfold add_all. induction ws as [|w t IH]; intros u H; simpl; [exact H|].
  apply IH. simpl. apply cpumap_add_nodup. exact H.
Qed.
Lemma sub_all_nodup_c ws : forall u, NoDup (keys (nr_cpumap u)) -> NoDup (keys (nr_cpumap (sub_all u ws))).
Proof.
  unfold sub_all. induction ws as [|w t IH]; intros u H; simpl; [exact H|].
  apply IH. simpl. apply cpumap_sub_nodup. exact H.
Qed.
Lemma add_all_nodup_n ws : forall u, NoDup (keys (nr_numamem u)) -> NoDup (keys (nr_numamem (add_all u ws))).
Proof.
  unfold add_all. induction ws as [|w t IH]; intros u H; simpl; [exact H|].
  apply IH. simpl. apply cpumap_add_nodup. exact H.
Qed.
Lemma sub_all_nodup_n ws : forall u, NoDup (keys (nr_numamem u)) -> NoDup (keys (nr_numamem (sub_all u ws))).
Proof.
  unfold sub_all. induction ws as [|w t IH]; intros u H; simpl; [exact H|].
  apply IH. simpl. apply cpumap_sub_nodup. exact H.
Qed.

(* the stored record passes Validate and its usage maps are Go maps *)
Definition inv_valid (s : state) : Prop :=
  validate (st_info s) = inr (st_info s) /\
  NoDup (keys (nr_cpumap (ni_usage (st_info s)))) /\ NoDup (keys (nr_numamem (ni_usage (st_info s)))).

Lemma commit_valid s ws incr live' : inv_valid s -> inv_valid (sr_state (commit s ws incr live')).
Proof.
  intros (V & NC & NN). unfold commit, set_node_resource_usage.
  destruct (validate (mkNI (ni_cap (st_info s)) (calculate_node_resource None (ni_usage (st_info s)) ws true incr))) as [e|i] eqn:V';
    simpl; [split; [exact V|split; assumption]|].
  pose proof (validate_inr _ _ V') as E. subst i. unfold inv_valid. simpl. split; [exact V'|].
  unfold calculate_node_resource. destruct incr.
  - split; [apply (add_all_nodup_c ws)|apply (add_all_nodup_n ws)]; assumption.
  - split; [apply (sub_all_nodup_c ws)|apply (sub_all_nodup_n ws)]; assumption.
Qed.

(* the capacity is never touched *)
Lemma step_cap s o : ni_cap (st_info (sr_state (step s o))) = ni_cap (st_info s).
Proof.
  revert s. induction o as [|ws|idxs|i|i req new|i origin|inner IH]; intro s; simpl; try reflexivity; try apply commit_cap.
  - destruct (nth_error _ _); simpl; [apply commit_cap|reflexivity].
  - destruct (nth_error _ _); simpl; [apply commit_cap|reflexivity].
  - destruct (sr_err (step s inner)); simpl; [reflexivity|].
    unfold set_node_resource_usage. destruct (validate _) as [e|i] eqn:V; simpl; [apply IH|].
    apply validate_inr in V. subst i. simpl. apply IH.
Qed.

(* the write-back of cobalt's rollback: usage := before (absolute write) *)
Definition written_back (u : node_resource) : node_resource := nr_add nr_empty u.

Lemma written_back_maps u :
  NoDup (keys (nr_cpumap u)) -> NoDup (keys (nr_numamem u)) ->
  nr_cpumap (written_back u) = nr_cpumap u /\ nr_numamem (written_back u) = nr_numamem u /\
  nr_mem (written_back u) = nr_mem u.
Proof.
  intros NC NN. unfold written_back, nr_add, nr_empty. simpl.
  rewrite !cpumap_add_nil by assumption. auto.
Qed.

(* from a valid state the rollback of a failed commit is always accepted *)
Lemma failed_commit_state s inner : inv_valid s ->
  let r := step s (OpFailedCommit inner) in
  sr_err r = true /\ st_live (sr_state r) = st_live s /\
  (st_info (sr_state r) = st_info s \/
   st_info (sr_state r) = mkNI (ni_cap (st_info s)) (written_back (ni_usage (st_info s)))).
Proof.
  intros (V & NC & NN). simpl.
  destruct (sr_err (step s inner)) eqn:E; simpl; [auto|].
  unfold set_node_resource_usage, calculate_node_resource. cbn [negb].
  fold (written_back (ni_usage (st_info s))).
  destruct (written_back_maps _ NC NN) as (M1 & M2 & _).
  rewrite step_cap.
  rewrite (validate_usage_congr (ni_cap (st_info s)) (ni_usage (st_info s)) (written_back (ni_usage (st_info s)))); simpl; auto.
  exists (st_info s). destruct (st_info s); exact V.
Qed.

Lemma step_valid o : forall s, inv_valid s -> inv_valid (sr_state (step s o)).
Proof.
  induction o as [|ws|idxs|i|i req new|i origin|inner IH]; intros s IV; simpl; try exact IV; try (apply commit_valid; exact IV).
  - destruct (nth_error _ _); simpl; [apply commit_valid|]; exact IV.
  - destruct (nth_error _ _); simpl; [apply commit_valid|]; exact IV.
  - destruct (failed_commit_state s inner IV) as (_ & _ & [E|E]); simpl in E; unfold inv_valid; rewrite E; [exact IV|].
    destruct IV as (V & NC & NN). destruct (written_back_maps _ NC NN) as (M1 & M2 & _).
    cbn [st_info ni_usage ni_cap]. rewrite M1, M2. split; [|split; assumption].
    apply (validate_usage_congr (ni_cap (st_info s)) (ni_usage (st_info s))); auto.
    exists (st_info s). destruct (st_info s); exact V.
Qed.

(* every step preserves the invariant, whatever the oracles returned *)
Theorem step_inv_int s o : op_wf o -> inv_valid s -> inv_int s -> inv_int (sr_state (step s o)).
Proof.
  intros WF IV [[Hc [Hn Hm]] Hl].
  destruct o as [|ws|idxs|i|i req new|i origin|inner].
  7: { (* a commit that failed in another plugin: usage written back, live set untouched *)
       destruct (failed_commit_state s inner IV) as (_ & L & [E|E]); unfold inv_int; rewrite L, E.
       - split; [split; [|split]|]; assumption.
       - destruct IV as (_ & NC & NN). destruct (written_back_maps _ NC NN) as (M1 & M2 & M3).
         cbn [st_info ni_usage ni_cap]. unfold usage_exact_int. rewrite M1, M2, M3. split; [split; [|split]|]; assumption. }
  all: simpl in *.
  - split; [split; [|split]|]; assumption.
  - (* alloc *)
    destruct (sr_err (commit s ws true (st_live s ++ ws))) eqn:E.
    + rewrite commit_err_state by exact E. split; [split; [|split]|]; assumption.
    + destruct (commit_usage_incr s ws _ _ eq_refl E) as [U L]. unfold inv_int. rewrite U, L.
      split; [split; [|split]|].
      * intro k. rewrite add_all_cpumap, zs_app, Hc, (zs_msum_lookup wr_cpumap) by (apply wf_cpumaps; exact WF). reflexivity.
      * intro k. rewrite add_all_numamem, zs_app, Hn, (zs_msum_lookup wr_numamem) by (apply wf_numamems; exact WF). reflexivity.
      * rewrite add_all_mem, zs_app, Hm. reflexivity.
      * apply Forall_app. split; assumption.
  - (* release *)
    set (sel := select_idxs (st_live s) idxs 0). set (rem := remove_idxs (st_live s) idxs 0).
    assert (Hsel : Forall wf_wres sel) by (apply Forall_select; exact Hl).
    destruct (sr_err (commit s sel false rem)) eqn:E.
    + rewrite commit_err_state by exact E. split; [split; [|split]|]; assumption.
    + destruct (commit_usage_decr s sel _ _ eq_refl E) as [U L]. unfold inv_int. rewrite U, L.
      split; [split; [|split]|].
      * intro k. rewrite sub_all_cpumap, Hc, (zs_msum_lookup wr_cpumap) by (apply wf_cpumaps; exact Hsel).
        rewrite (zs_select_remove _ (st_live s) idxs 0). fold sel rem. lia.
      * intro k. rewrite sub_all_numamem, Hn, (zs_msum_lookup wr_numamem) by (apply wf_numamems; exact Hsel).
        rewrite (zs_select_remove _ (st_live s) idxs 0). fold sel rem. lia.
      * rewrite sub_all_mem, Hm. rewrite (zs_select_remove _ (st_live s) idxs 0). fold sel rem. lia.
      * apply Forall_remove. exact Hl.
  - split; [split; [|split]|]; assumption.
  - (* realloc *)
    destruct (nth_error (st_live s) i) as [origin|] eqn:N; simpl; [|split; [split; [|split]|]; assumption].
    assert (Ho : wf_wres origin) by (eapply Forall_nth_error; eassumption).
    set (d := realloc_delta new origin).
    destruct (sr_err (commit s [d] true (replace_nth (st_live s) i new))) eqn:E.
    + rewrite commit_err_state by exact E. split; [split; [|split]|]; assumption.
    + destruct (commit_usage_incr s [d] _ _ eq_refl E) as [U L]. unfold inv_int. rewrite U, L.
      split; [split; [|split]|].
      * intro k. rewrite add_all_cpumap, zs1, Hc. unfold d. rewrite delta_cpumap by exact WF.
        rewrite (zs_replace _ _ i new origin N), (msum_lookup (wr_cpumap origin)) by apply Ho. lia.
      * intro k. rewrite add_all_numamem, zs1, Hn. unfold d. rewrite delta_numamem by exact WF.
        rewrite (zs_replace _ _ i new origin N), (msum_lookup (wr_numamem origin)) by apply Ho. lia.
      * rewrite add_all_mem, zs1, Hm. unfold d. rewrite delta_mem.
        rewrite (zs_replace _ _ i new origin N). lia.
      * apply Forall_replace; assumption.
  - (* rollback realloc *)
    destruct (nth_error (st_live s) i) as [cur|] eqn:N; simpl; [|split; [split; [|split]|]; assumption].
    assert (Hcur : wf_wres cur) by (eapply Forall_nth_error; eassumption).
    set (d := realloc_delta cur origin).
    destruct (sr_err (commit s [d] false (replace_nth (st_live s) i origin))) eqn:E.
    + rewrite commit_err_state by exact E. split; [split; [|split]|]; assumption.
    + destruct (commit_usage_decr s [d] _ _ eq_refl E) as [U L]. unfold inv_int. rewrite U, L.
      split; [split; [|split]|].
      * intro k. rewrite sub_all_cpumap, zs1, Hc. unfold d. rewrite delta_cpumap by exact Hcur.
        rewrite (zs_replace _ _ i origin cur N), (msum_lookup (wr_cpumap origin)) by apply WF. lia.
      * intro k. rewrite sub_all_numamem, zs1, Hn. unfold d. rewrite delta_numamem by exact Hcur.
        rewrite (zs_replace _ _ i origin cur N), (msum_lookup (wr_numamem origin)) by apply WF. lia.
      * rewrite sub_all_mem, zs1, Hm. unfold d. rewrite delta_mem.
        rewrite (zs_replace _ _ i origin cur N). lia.
      * apply Forall_replace; assumption.
Qed.

(* ---------- histories ---------- *)
Definition run (s : state) (h : list op) : state := fold_left (fun s o => sr_state (step s o)) h s.

(* a node as AddNode leaves it: every usage entry is zero *)
Definition usage_zero (u : node_resource) : Prop :=
  (forall k, lookup 0 (nr_cpumap u) k = 0) /\ (forall k, lookup 0 (nr_numamem u) k = 0) /\ nr_mem u = 0.

Theorem history_inv_int : forall h s, Forall op_wf h -> inv_valid s -> inv_int s ->
  inv_int (run s h) /\ inv_valid (run s h).
Proof.
  unfold run. induction h as [|o t IH]; intros s WF IV I; simpl; [split; assumption|].
  inversion WF; subst. apply IH; [assumption|apply step_valid; exact IV|]. apply step_inv_int; assumption.
Qed.

(* a valid empty node: the record passes Validate, its usage maps are Go maps
   and every usage entry is zero (what AddNode leaves) *)
Theorem exact_int_all_histories info h :
  inv_valid (mkState info []) -> usage_zero (ni_usage info) -> Forall op_wf h ->
  usage_exact_int (ni_usage (st_info (run (mkState info []) h))) (st_live (run (mkState info []) h)).
Proof.
  intros IV (Zc & Zn & Zm) WF.
  apply (history_inv_int h (mkState info [])); [exact WF|exact IV|].
  split; [|constructor]. split; [|split]; simpl; auto.
Qed.

(* ---------- rollback restores the usage (integer components) ---------- *)
Definition usage_equiv_int (a b : node_resource) : Prop :=
  (forall k, lookup 0 (nr_cpumap a) k = lookup 0 (nr_cpumap b) k) /\
  (forall k, lookup 0 (nr_numamem a) k = lookup 0 (nr_numamem b) k) /\
  nr_mem a = nr_mem b.

(* Manager.Alloc commits SetNodeResourceUsage(workloads, Incr); RollbackAlloc is
   SetNodeResourceUsage(the same workloads, Decr).  Likewise Realloc commits
   Incr of [delta] and RollbackRealloc is Decr of [delta].  Whenever both are
   accepted the usage is back where it was. *)
Theorem incr_then_decr_int info ws info1 info2 :
  set_node_resource_usage info None ws true true = inr info1 ->
  set_node_resource_usage info1 None ws true false = inr info2 ->
  usage_equiv_int (ni_usage info2) (ni_usage info) /\ ni_cap info2 = ni_cap info.
Proof.
  unfold set_node_resource_usage, calculate_node_resource. intros V1 V2.
  apply validate_inr in V1. apply validate_inr in V2. subst info1 info2. simpl.
  fold (add_all (ni_usage info) ws). fold (sub_all (add_all (ni_usage info) ws) ws).
  split; [|reflexivity]. split; [|split].
  - intro k. rewrite sub_all_cpumap, add_all_cpumap. lia.
  - intro k. rewrite sub_all_numamem, add_all_numamem. lia.
  - rewrite sub_all_mem, add_all_mem. lia.
Qed.

Theorem decr_then_incr_int info ws info1 info2 :
  set_node_resource_usage info None ws true false = inr info1 ->
  set_node_resource_usage info1 None ws true true = inr info2 ->
  usage_equiv_int (ni_usage info2) (ni_usage info) /\ ni_cap info2 = ni_cap info.
Proof.
  unfold set_node_resource_usage, calculate_node_resource. intros V1 V2.
  apply validate_inr in V1. apply validate_inr in V2. subst info1 info2. simpl.
  fold (sub_all (ni_usage info) ws). fold (add_all (sub_all (ni_usage info) ws) ws).
  split; [|reflexivity]. split; [|split].
  - intro k. rewrite add_all_cpumap, sub_all_cpumap. lia.
  - intro k. rewrite add_all_numamem, sub_all_numamem. lia.
  - rewrite add_all_mem, sub_all_mem. lia.
Qed.
