(* Cpumem/Schedule.v — model of resource/plugins/cpumem/schedule/schedule.go
   (executable, no proofs).  Mirrors the Go text function by function.

   INTERFACE (stable; builder C imports this — names are only ever added):
     core (mkCore cid cpieces), core_less                    cpuCore, cpuCore.Less
     isort less l                                            sort.SliceStable (stable insertion sort)
     host (mkHost h_base h_maxfrag h_full h_frag h_aff)
     new_host cpumap base maxfrag : outcome host             newHost
     reorder_by_affinity oldH newH : host                    reorderByAffinity
     pieces_request base cpu : Z                             int(math.Round(cpuRequest*float64(shareBase)))
   Generic in the final sort of getFullCPUPlans ([sortf], section variable):
     get_full_plans_g sortf … / host_cpu_plans_g sortf … / do_get_cpu_plans_g sortf … /
     get_cpu_plans_g sortf info origin base maxfrag req numa_order fuel
                                   : outcome (list (string * smap Z))      GetCPUPlans
   Instances:
     sort_exact    := Ok ∘ stable insertion sort      (sort.Slice for <= 12 plans; and whenever
                                                       no two DIFFERENT plans have the same key)
     sort_checked  := Ambiguous when > 12 plans and two different plans tie, else sort_exact (no longer used)
     sort_pdq      := Ok . Go's sort.Slice exactly (Cpumem/Pdqsort.v)
     get_cpu_plans     := get_cpu_plans_g sort_exact       (used by theorems and by other models)
     get_cpu_plans_chk := get_cpu_plans_g sort_pdq         (used by the correspondence check)
     numa_nodes info               distinct NUMA node ids of Capacity.NUMA (first-occurrence order)
     numa_visit_order info origin  the order GetCPUPlans visits them in (origin's nodes first, then by id)
     get_cpu_plans_det_g sortf info origin base maxfrag req fuel   = get_cpu_plans_g with that order
     default_fuel info             1 + total free pieces (enough for every loop, see C06)
   [numa_order] was the oracle for Go's map iteration order over NUMA nodes (a permutation of
   [numa_nodes info]); since /repo 3d8e6c0 the code uses [numa_visit_order info origin].  A plan is (numa node id or "", cpu map).
*)
From Coq Require Import String Ascii List ZArith Bool.
From Verif Require Import Base.GoInt Base.GoFloat Base.GoHeap Cpumem.Types Cpumem.Pdqsort.
Import ListNotations.
Local Open Scope Z_scope.

Record core := mkCore { cid : string; cpieces : Z }.
Definition dcore := mkCore EmptyString 0.

(* cpuCore.Less *)
Definition core_less (a b : core) : bool :=
  if cpieces a =? cpieces b then String.ltb (cid a) (cid b) else cpieces a <? cpieces b.
(* cpuCoreHeap.Less(i, j) = !c[i].Less(c[j]) *)
Definition heap_less (a b : core) : bool := negb (core_less a b).

(* sort.SliceStable: stable insertion sort *)
Fixpoint insert_by {A} (less : A -> A -> bool) (x : A) (l : list A) : list A :=
  match l with
  | [] => [x]
  | y :: t => if less y x then y :: insert_by less x t else x :: l
  end.
Fixpoint isort {A} (less : A -> A -> bool) (l : list A) : list A :=
  match l with [] => [] | x :: t => insert_by less x (isort less t) end.

Record host := mkHost {
  h_base : Z; h_maxfrag : Z; h_full : list core; h_frag : list core; h_aff : bool }.

Definition is_full_core (base : Z) (c : core) : bool :=
  (base <=? cpieces c) && (Z.rem (cpieces c) base =? 0).

(* newHost.  `pieces%shareBase` is evaluated for every core with pieces >= shareBase:
   integer division by zero panics when shareBase = 0. *)
Definition new_host (cpumap : smap Z) (base maxfrag : Z) : outcome host :=
  let cores := map (fun kv => mkCore (fst kv) (snd kv)) cpumap in
  if (base =? 0) && existsb (fun c => 0 <=? cpieces c) cores then Panic RDivZero else
  let fulls := filter (is_full_core base) cores in
  let frags := filter (fun c => negb (is_full_core base c) && (0 <? cpieces c)) cores in
  Ok (mkHost base maxfrag (isort core_less fulls) (isort core_less frags) false).

(* reorderByAffinity: position+1 of the id in the old list, 0 when absent *)
Fixpoint index1 (l : list core) (id : string) (i : Z) : Z :=
  match l with
  | [] => 0
  | c :: t => if String.eqb (cid c) id then i else index1 t id (i + 1)
  end.
Definition aff_less (old : list core) (a b : core) : bool :=
  let ia := index1 old (cid a) 1 in
  let ib := index1 old (cid b) 1 in
  if (ia =? 0) && (ib =? 0) then false          (* `i < j` on a stable sort: keep order *)
  else if (ia =? 0) || (ib =? 0) then ib <? ia
  else ia <? ib.
Definition reorder_by_affinity (oldh newh : host) : host :=
  mkHost (h_base newh) (h_maxfrag newh)
         (isort (aff_less (h_full oldh)) (h_full newh))
         (isort (aff_less (h_frag oldh)) (h_frag newh)) true.

(* int(math.Round(cpuRequest * float64(shareBase)))   [/repo 5bf30c8; before: int(cpu*base)] *)
Definition pieces_request (base : Z) (cpu : f64) : Z := f_to_int (f_round (fmul cpu (f_of_Z base))).
(* the computation before the repair, kept for the refutation witness of C05 *)
Definition pieces_request_trunc (base : Z) (cpu : f64) : Z := f_to_int (fmul cpu (f_of_Z base)).

(* getFragmentCPUPlans *)
Definition plan := smap Z.
Fixpoint repeat_plan (n : nat) (p : plan) : list plan :=
  match n with O => [] | S k => p :: repeat_plan k p end.
Definition get_fragment_plans (cores : list core) (fragment : Z) : outcome (list plan) :=
  match cores with
  | [] => Ok []
  | _ => if fragment =? 0 then Panic RDivZero else
         Ok (flat_map (fun c => repeat_plan (Z.to_nat (Z.quot (cpieces c) fragment)) [(cid c, fragment)]) cores)
  end.

(* position of an id in [cores] (indexMap); 0 when absent *)
Fixpoint index0 (l : list core) (id : string) (i : Z) : Z :=
  match l with
  | [] => 0
  | c :: t => if String.eqb (cid c) id then i else index0 t id (i + 1)
  end.
Definition sum_of_ids (cores : list core) (p : plan) : Z :=
  fold_left (fun s kv => s + index0 cores (fst kv) 0) p 0.

(* getFullCPUPlansWithAffinity: one round of the outer loop *)
Fixpoint chunks (n k : nat) (l : list core) : list (list core) :=
  match n with
  | O => []
  | S n' => firstn k l :: chunks n' k (skipn k l)
  end.
Fixpoint aff_loop (fuel : nat) (base full : Z) (cores : list core) (acc : list plan) : outcome (list plan) :=
  match fuel with
  | O => OutOfFuel
  | S f =>
    let len := Z.of_nat (length cores) in
    if len <? full then Ok acc else
    if full =? 0 then Panic RDivZero else
    let count := Z.quot len full in
    let used := Z.to_nat (count * full) in
    let cs := chunks (Z.to_nat count) (Z.to_nat full) cores in
    let plans := map (fun ch => fold_left (fun p c => upd p (cid c) base) ch []) cs in
    let temp := flat_map (fun c => let r := cpieces c - base in
                                   if 0 <? r then [mkCore (cid c) r] else []) (firstn used cores) in
    aff_loop f base full (temp ++ skipn used cores) (acc ++ plans)
  end.

(* getFullCPUPlans, heap variant: pop [k] cores into one plan *)
Fixpoint pop_n (k : nat) (base : Z) (h : list core) (p : plan) (push : list core)
  : outcome (plan * list core * list core) :=
  match k with
  | O => Ok (p, push, h)
  | S k' =>
    match GoHeap.pop dcore heap_less h with
    | None => Panic RIndex
    | Some (c, h') =>
      let r := cpieces c - base in
      pop_n k' base h' (upd p (cid c) base) (if 0 <? r then push ++ [mkCore (cid c) r] else push)
    end
  end.
Fixpoint full_loop (fuel : nat) (base full : Z) (h : list core) (acc : list plan) : outcome (list plan) :=
  match fuel with
  | O => OutOfFuel
  | S f =>
    if Z.of_nat (length h) <? full then Ok (rev acc) else
    do x <- pop_n (Z.to_nat full) base h [] [];
    let '(p, push, h') := x in
    full_loop f base full (fold_left (GoHeap.push dcore heap_less) push h') (p :: acc)
  end.

Definition keyed := (Z * plan)%type.
Definition keyed_less (a b : keyed) : bool := fst a <? fst b.
Definition plan_eqb (p q : plan) : bool := smap_eqb Z.eqb p q.

Definition sort_exact (l : list keyed) : outcome (list keyed) := Ok (isort keyed_less l).
(* two different plans with the same key *)
Fixpoint has_distinct_tie (l : list keyed) : bool :=
  match l with
  | [] => false
  | x :: t => existsb (fun y => (fst x =? fst y) && negb (plan_eqb (snd x) (snd y))) t || has_distinct_tie t
  end.
Definition sort_checked (l : list keyed) : outcome (list keyed) :=
  if (12 <? Z.of_nat (length l)) && has_distinct_tie l then Ambiguous else sort_exact l.

(* numaCPUMap[nid] = { cpu -> available[cpu] | Capacity.NUMA[cpu] = nid }  (keys of a Go map are unique) *)
Definition numa_cpu_map (numa : smap string) (avail_cpumap : smap Z) (nid : string) : smap Z :=
  map (fun kv => (fst kv, lookup 0 avail_cpumap (fst kv)))
      (filter (fun kv => String.eqb (snd kv) nid) numa).

(* sort.Slice exactly (Go 1.23 pdqsort, Cpumem/Pdqsort.v): what the correspondence check uses *)
Definition sort_pdq (l : list keyed) : outcome (list keyed) :=
  Ok (sort_slice keyed (0, []) keyed_less l).

Section WithSort.
(* the final sort.Slice of getFullCPUPlans (unstable for more than 12 elements) *)
Variable sortf : list keyed -> outcome (list keyed).

Definition get_full_plans_g (base : Z) (aff : bool) (cores : list core) (full : Z) (fuel : nat)
  : outcome (list plan) :=
  if aff then aff_loop fuel base full cores [] else
  do result <- full_loop fuel base full (GoHeap.init dcore heap_less cores) [];
  do sorted <- sortf (map (fun p => (sum_of_ids cores p, p)) result);
  Ok (map snd sorted).

(* the full -> fragment conversion loop of getCPUPlans *)
Fixpoint convert_loop (fuel fuel2 : nat) (base : Z) (aff : bool) (maxfrag full fragment : Z)
   (fulls frags : list core) (total : Z) (best0 best1 : list plan) (bestcap : Z)
  : outcome (list plan * list plan * Z) :=
  match fuel with
  | O => OutOfFuel
  | S f =>
    if negb (Z.of_nat (length frags) <? maxfrag) then Ok (best0, best1, bestcap) else
    match fulls with
    | [] => Panic RIndex                                   (* h.fullCores[0] *)
    | nf :: fulls' =>
      let frags' := frags ++ [nf] in
      let total' := total + Z.quot (cpieces nf) fragment in
      do fplans <- get_full_plans_g base aff fulls' full fuel2;
      let capacity := Z.min (Z.of_nat (length fplans)) total' in
      if bestcap <? capacity then
        do gplans <- get_fragment_plans frags' fragment;
        convert_loop f fuel2 base aff maxfrag full fragment fulls' frags' total' fplans gplans capacity
      else
        convert_loop f fuel2 base aff maxfrag full fragment fulls' frags' total' best0 best1 bestcap
    end
  end.

Fixpoint zip_plans (n : nat) (l0 l1 : list plan) : outcome (list plan) :=
  match n with
  | O => Ok []
  | S k =>
    match l0, l1 with
    | p0 :: t0, p1 :: t1 =>
      do rest <- zip_plans k t0 t1;
      Ok (cpumap_add (cpumap_add [] p0) p1 :: rest)
    | _, _ => Panic RIndex
    end
  end.

(* host.getCPUPlans, given piecesRequest *)
Definition host_plans_pieces_g (h : host) (pr : Z) (fuel : nat) : outcome (list plan) :=
  let base := h_base h in
  let full := Z.quot pr base in
  let fragment := Z.rem pr base in
  let nfull := Z.of_nat (length (h_full h)) in
  let nfrag := Z.of_nat (length (h_frag h)) in
  let mfc := nfull + nfrag - full in
  let maxfrag := if (h_maxfrag h =? -1) || (mfc <? h_maxfrag h) then mfc else h_maxfrag h in
  if fragment =? 0 then get_full_plans_g base (h_aff h) (h_full h) full fuel else
  if full =? 0 then
    let diff := maxfrag - nfrag in
    let diff := if diff <? 0 then 0 else diff in                 (* /repo 3e812cc *)
    if nfull <? diff then Panic RSlice else                      (* h.fullCores[:diff] *)
    get_fragment_plans (h_frag h ++ firstn (Z.to_nat diff) (h_full h)) fragment
  else
    do b0 <- get_full_plans_g base (h_aff h) (h_full h) full fuel;
    do b1 <- get_fragment_plans (h_frag h) fragment;
    let bestcap := Z.min (Z.of_nat (length b0)) (Z.of_nat (length b1)) in
    let total := fold_left (fun s c => s + Z.quot (cpieces c) fragment) (h_frag h) 0 in
    do r <- convert_loop (S (length (h_full h))) fuel base (h_aff h) maxfrag full fragment
                         (h_full h) (h_frag h) total b0 b1 bestcap;
    let '(best0, best1, cap) := r in
    zip_plans (Z.to_nat cap) best0 best1.

(* host.getCPUPlans; a request of zero (or unrepresentable) pieces yields no plan
   [/repo a3b3b84]; shareBase = 0 would divide by zero after that guard *)
Definition host_cpu_plans_g (h : host) (cpu : f64) (fuel : nat) : outcome (list plan) :=
  let pr := pieces_request (h_base h) cpu in
  if pr <=? 0 then Ok [] else
  if h_base h =? 0 then Panic RDivZero else
  host_plans_pieces_g h pr fuel.

(* doGetCPUPlans *)
Definition do_get_cpu_plans_g (origin avail : smap Z) (avail_mem base maxfrag : Z)
   (cpu : f64) (mem : Z) (fuel : nat) : outcome (list plan) :=
  do h <- new_host avail base maxfrag;
  do h <- match origin with
          | [] => Ok h
          | _ => do oh <- new_host origin base maxfrag; Ok (reorder_by_affinity oh h)
          end;
  do plans <- host_cpu_plans_g h cpu fuel;
  if 0 <? mem then
    let cap := Z.quot avail_mem mem in
    let cap := if cap <? 0 then 0 else cap in                    (* /repo 476e7d6 *)
    if cap <? Z.of_nat (length plans) then Ok (firstn (Z.to_nat cap) plans)
    else Ok plans
  else Ok plans.

(* the per-NUMA loop of GetCPUPlans *)
Fixpoint numa_loop (order : list string) (numa : smap string) (avail0 : smap Z) (origin : smap Z)
   (base maxfrag : Z) (cpu : f64) (mem : Z) (fuel : nat)
   (avail : node_resource) (acc : list (string * plan))
  : outcome (node_resource * list (string * plan)) :=
  match order with
  | [] => Ok (avail, acc)
  | nid :: rest =>
    (* utils.Min(NUMAMemory[nid], Memory)   [/repo 476e7d6] *)
    do plans <- do_get_cpu_plans_g origin (numa_cpu_map numa avail0 nid)
                                   (Z.min (lookup 0 (nr_numamem avail) nid) (nr_mem avail))
                                   base maxfrag cpu mem fuel;
    let avail' := fold_left (fun a p => nr_sub_nofloat a (mkNR f_zero p mem [(nid, mem)] [])) plans avail in
    numa_loop rest numa avail0 origin base maxfrag cpu mem fuel avail'
              (acc ++ map (fun p => (nid, p)) plans)
  end.

(* GetCPUPlans *)
Definition get_cpu_plans_g (info : node_info) (origin : smap Z) (base maxfrag : Z) (req : wreq)
   (numa_order : list string) (fuel : nat) : outcome (list (string * plan)) :=
  let avail := get_available_nofloat info in
  do r <- numa_loop numa_order (nr_numa (ni_cap info)) (nr_cpumap avail) origin base maxfrag (rq_cpu_req req) (rq_mem_req req) fuel avail [];
  let '(avail', acc) := r in
  do cross <- do_get_cpu_plans_g origin (nr_cpumap avail') (nr_mem avail') base maxfrag
                                 (rq_cpu_req req) (rq_mem_req req) fuel;
  Ok (acc ++ map (fun p => (EmptyString, p)) cross).
End WithSort.

Definition get_cpu_plans := get_cpu_plans_g sort_exact.
Definition get_cpu_plans_chk := get_cpu_plans_g sort_pdq.
Definition do_get_cpu_plans := do_get_cpu_plans_g sort_exact.
Definition host_cpu_plans := host_cpu_plans_g sort_exact.
Definition get_full_plans := get_full_plans_g sort_exact.

(* distinct NUMA node ids, in order of first occurrence in Capacity.NUMA *)
Fixpoint dedup (l : list string) : list string :=
  match l with
  | [] => []
  | x :: t => x :: filter (fun y => negb (String.eqb x y)) (dedup t)
  end.
Definition numa_nodes (info : node_info) : list string := dedup (map snd (nr_numa (ni_cap info))).

(* The order in which GetCPUPlans visits the NUMA nodes [/repo 3d8e6c0]: the nodes holding a
   core of the origin map first, then by id (sort.Slice with a strict total order on the
   distinct ids: the result does not depend on the sorting algorithm).  Before that commit
   the order was Go's map iteration order; [get_cpu_plans_g] still takes the order as an
   argument and every theorem holds for every duplicate-free order. *)
Definition origin_on (numa : smap string) (origin : smap Z) (nid : string) : bool :=
  existsb (fun kv => match lookup_opt numa (fst kv) with Some n => String.eqb n nid | None => false end) origin.
Definition numa_less (numa : smap string) (origin : smap Z) (a b : string) : bool :=
  let oa := origin_on numa origin a in
  let ob := origin_on numa origin b in
  if Bool.eqb oa ob then String.ltb a b else oa.
Definition numa_visit_order (info : node_info) (origin : smap Z) : list string :=
  isort (numa_less (nr_numa (ni_cap info)) origin) (numa_nodes info).
(* GetCPUPlans as it is in /repo now: no oracle left *)
Definition get_cpu_plans_det_g (sortf : list keyed -> outcome (list keyed)) (info : node_info) (origin : smap Z)
   (base maxfrag : Z) (req : wreq) (fuel : nat) : outcome (list (string * plan)) :=
  get_cpu_plans_g sortf info origin base maxfrag req (numa_visit_order info origin) fuel.
Definition get_cpu_plans_det := get_cpu_plans_det_g sort_exact.

(* fuel: 1 + free pieces of the node + free pieces of the cores listed in the NUMA map
   (every loop of the scheduler consumes at least one free piece per iteration) *)
Definition mweight (m : smap Z) : Z := fold_right (fun kv s => Z.max 0 (snd kv) + s) 0 m.
Definition nweight (numa : smap string) (avail : smap Z) : Z :=
  fold_right (fun kv s => Z.max 0 (lookup 0 avail (fst kv)) + s) 0 numa.
Definition default_fuel (info : node_info) : nat :=
  let avail := nr_cpumap (get_available_nofloat info) in
  S (Z.to_nat (mweight avail + nweight (nr_numa (ni_cap info)) avail)).

(* canonical plan list for comparison: cpu maps sorted by key *)
Definition canon_plans (l : list (string * plan)) : list (string * plan) :=
  map (fun tp => (fst tp, sort_smap (snd tp))) l.
Definition tagged_plan_eqb (a b : string * plan) : bool :=
  String.eqb (fst a) (fst b) && plan_eqb (snd a) (snd b).
Definition plans_eqb (l1 l2 : list (string * plan)) : bool := list_eqb' tagged_plan_eqb l1 l2.
