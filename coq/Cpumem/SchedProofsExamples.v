(* Cpumem/SchedProofsExamples.v — the hypotheses of the C04/C05/C06 theorems are
   satisfiable and their conclusions are not vacuous: a concrete NUMA node on
   which the scheduler returns plans. *)
From Coq Require Import String Ascii List ZArith Bool.
From Verif Require Import Base.GoInt Base.GoFloat Cpumem.Types Cpumem.Schedule Cpumem.Calc Cpumem.SchedCase.
From Verif Require Import Cpumem.SchedProofsPieces Cpumem.SchedProofsTop.
Import ListNotations.
Local Open Scope Z_scope.
Local Open Scope string_scope.

(* 4 cores at share 100 on two NUMA nodes, core 0 half used, memory 1000 (300 used), NUMA memory 400 + 400 *)
Definition ex_node : node_info :=
  mkNI (mkNR (f_of_Z 4) [("0", 100); ("1", 100); ("2", 100); ("3", 100)] 1000 [("a", 400); ("b", 400)]
             [("0", "a"); ("1", "a"); ("2", "b"); ("3", "b")])
       (mkNR f_zero [("0", 50)] 300 [("a", 100)] []).
(* bound request 1.29 cores = fl(129/100), 200 memory *)
Definition ex_req : wreq := mkReq true false (decimal_request 129 100) (decimal_request 129 100) 200 200.

Example ex_valid : valid_node ex_node = true.
Proof. vm_compute. reflexivity. Qed.

Example ex_wf : wf_maps ex_node.
Proof. split; simpl; repeat constructor; simpl; intuition discriminate. Qed.

Example ex_plans :
  get_cpu_plans ex_node [] 100 (-1) ex_req ["a"; "b"] (default_fuel ex_node)
  = Ok [("a", [("1", 100); ("0", 29)]); ("b", [("3", 100); ("2", 29)])].
Proof. vm_compute. reflexivity. Qed.

Example ex_ok :
  c04_plans_ok ex_node 200 [("a", [("1", 100); ("0", 29)]); ("b", [("3", 100); ("2", 29)])] = true
  /\ c05_plan_ok 100 129 [("1", 100); ("0", 29)] = true.
Proof. vm_compute. split; reflexivity. Qed.

Example ex_deploy :
  match calculate_deploy ex_node 100 (-1) 2 ex_req ["a"; "b"] (default_fuel ex_node) with
  | Ok (inr (eps, ws)) => validate_ok (commit_usage ex_node ws)
  | _ => false
  end = true.
Proof. vm_compute. reflexivity. Qed.
