(* Cpumem/SchedProofs.v — totality of the CPU scheduler model (C06) and the
   basic invariants used by C04/C05: every loop terminates within the fuel
   1 + free pieces, no slice/index/division panic is reachable, and every plan
   only carries non-negative piece counts.

   Everything is proved for an arbitrary final sort [sortf] of getFullCPUPlans
   that returns a permutation of its input (sort.Slice is unstable above 12
   elements; the theorems do not depend on how ties are broken). *)
From Coq Require Import String Ascii List ZArith Bool Lia Permutation.
From Coq Require Import ZifyBool ZifyNat.
From Verif Require Import Base.GoInt Base.GoFloat Base.GoHeap Base.GoHeapSpec.
From Verif Require Import Cpumem.Types Cpumem.Schedule.
Import ListNotations.
Local Open Scope Z_scope.

Lemma Forall_firstn' {A} (P : A -> Prop) n l : Forall P l -> Forall P (firstn n l).
Proof. intros H. rewrite <- (firstn_skipn n l) in H. apply Forall_app in H. tauto. Qed.
Lemma Forall_skipn' {A} (P : A -> Prop) n l : Forall P l -> Forall P (skipn n l).
Proof. intros H. rewrite <- (firstn_skipn n l) in H. apply Forall_app in H. tauto. Qed.

(* ---------- weights ---------- *)
Definition weight (l : list core) : Z := fold_right (fun c s => Z.max 0 (cpieces c) + s) 0 l.

Lemma weight_nonneg l : 0 <= weight l.
Proof. induction l; simpl; lia. Qed.
Lemma weight_app l1 l2 : weight (l1 ++ l2) = weight l1 + weight l2.
Proof. induction l1; simpl; lia. Qed.
Lemma weight_perm l1 l2 : Permutation l1 l2 -> weight l1 = weight l2.
Proof. induction 1; simpl; lia. Qed.
Lemma mweight_nonneg m : 0 <= mweight m.
Proof. induction m; simpl; lia. Qed.

Lemma weight_firstn_skipn n l : weight (firstn n l) + weight (skipn n l) = weight l.
Proof. rewrite <- (firstn_skipn n l) at 3. rewrite weight_app. reflexivity. Qed.

(* ---------- stable insertion sort is a permutation ---------- *)
Lemma insert_by_perm {A} (less : A -> A -> bool) x l : Permutation (insert_by less x l) (x :: l).
Proof.
  induction l as [|y t IH]; simpl; auto.
  destruct (less y x); auto.
  eapply perm_trans; [apply perm_skip, IH | apply perm_swap].
Qed.
Lemma isort_perm {A} (less : A -> A -> bool) l : Permutation (isort less l) l.
Proof.
  induction l as [|x t IH]; simpl; auto.
  eapply perm_trans; [apply insert_by_perm | apply perm_skip, IH].
Qed.

(* ---------- cores ---------- *)
Definition fullp (base : Z) (c : core) : Prop := exists q, 1 <= q /\ cpieces c = q * base.
Definition posp (c : core) : Prop := 0 < cpieces c.

Lemma is_full_core_fullp base c : 0 < base -> is_full_core base c = true -> fullp base c.
Proof.
  unfold is_full_core, fullp. intros Hb H.
  apply andb_true_iff in H. destruct H as [H1 H2].
  apply Z.leb_le in H1. apply Z.eqb_eq in H2.
  exists (Z.quot (cpieces c) base).
  pose proof (Z.quot_rem' (cpieces c) base) as E. rewrite H2 in E.
  split; [|lia].
  assert (0 <= Z.quot (cpieces c) base) by (apply Z.quot_pos; lia).
  destruct (Z.eq_dec (Z.quot (cpieces c) base) 0) as [E0|]; [|lia].
  rewrite E0 in E. lia.
Qed.

Lemma fullp_pos base c : 0 < base -> fullp base c -> base <= cpieces c.
Proof. intros Hb (q & Hq & E). rewrite E. nia. Qed.

Lemma fullp_weight base l : 0 < base -> Forall (fullp base) l ->
  weight l = fold_right (fun c s => cpieces c + s) 0 l.
Proof.
  intros Hb H. induction H as [|c t Hc Ht IH]; simpl; auto.
  pose proof (fullp_pos _ _ Hb Hc). lia.
Qed.

Lemma fullp_len_weight base l : 0 < base -> Forall (fullp base) l -> Z.of_nat (length l) * base <= weight l.
Proof.
  intros Hb H. induction H as [|c t Hc Ht IH]; simpl length; simpl weight; [lia|].
  pose proof (fullp_pos _ _ Hb Hc). lia.
Qed.

(* ---------- newHost ---------- *)
Lemma weight_filter_le f l : weight (filter f l) <= weight l.
Proof. induction l as [|c t IH]; simpl; [lia|]. destruct (f c); simpl; lia. Qed.

Lemma weight_partition f g l : (forall c, f c = true -> g c = true -> False) ->
  weight (filter f l) + weight (filter g l) <= weight l.
Proof.
  intros D. induction l as [|c t IH]; simpl; [lia|].
  destruct (f c) eqn:Ef, (g c) eqn:Eg; simpl; try lia.
  all: exfalso; eauto.
Qed.

Lemma weight_map_cores (m : smap Z) : weight (map (fun kv => mkCore (fst kv) (snd kv)) m) = mweight m.
Proof. induction m as [|kv t IH]; simpl; auto. rewrite IH. reflexivity. Qed.

Definition host_ok (base : Z) (h : host) : Prop :=
  h_base h = base /\ Forall (fullp base) (h_full h) /\ Forall posp (h_frag h).

Lemma new_host_ok m base mf : 0 < base ->
  exists h, new_host m base mf = Ok h /\ host_ok base h /\ h_aff h = false
            /\ weight (h_full h) + weight (h_frag h) <= mweight m.
Proof.
  intros Hb. unfold new_host.
  replace (base =? 0) with false by (symmetry; apply Z.eqb_neq; lia). simpl.
  eexists; split; [reflexivity|]. unfold host_ok; simpl.
  set (cores := map (fun kv => mkCore (fst kv) (snd kv)) m).
  repeat split.
  - eapply Permutation_Forall; [symmetry; apply isort_perm|].
    apply Forall_forall. intros c Hc. apply filter_In in Hc. destruct Hc as [_ Hc].
    apply is_full_core_fullp; auto.
  - eapply Permutation_Forall; [symmetry; apply isort_perm|].
    apply Forall_forall. intros c Hc. apply filter_In in Hc. destruct Hc as [_ Hc].
    apply andb_true_iff in Hc. destruct Hc as [_ Hc]. apply Z.ltb_lt in Hc. exact Hc.
  - rewrite (weight_perm _ _ (isort_perm core_less _)), (weight_perm _ _ (isort_perm core_less _)).
    rewrite <- weight_map_cores. fold cores.
    apply weight_partition. intros c H1 H2. rewrite H1 in H2. discriminate.
Qed.

Lemma reorder_ok base oh h : host_ok base h ->
  host_ok base (reorder_by_affinity oh h)
  /\ weight (h_full (reorder_by_affinity oh h)) = weight (h_full h)
  /\ weight (h_frag (reorder_by_affinity oh h)) = weight (h_frag h)
  /\ length (h_full (reorder_by_affinity oh h)) = length (h_full h)
  /\ length (h_frag (reorder_by_affinity oh h)) = length (h_frag h).
Proof.
  intros (Hb & Hf & Hg). unfold reorder_by_affinity, host_ok; simpl.
  repeat split; auto.
  - eapply Permutation_Forall; [symmetry; apply isort_perm|]; auto.
  - eapply Permutation_Forall; [symmetry; apply isort_perm|]; auto.
  - apply weight_perm, isort_perm.
  - apply weight_perm, isort_perm.
  - apply Permutation_length, isort_perm.
  - apply Permutation_length, isort_perm.
Qed.

(* ---------- plans carry non-negative pieces ---------- *)
Definition plan_nn (p : plan) : Prop := Forall (fun kv => 0 <= snd kv) p.
Definition plans_nn (l : list plan) : Prop := Forall plan_nn l.

Lemma upd_nn (p : plan) k v : 0 <= v -> plan_nn p -> plan_nn (upd p k v).
Proof.
  intros Hv H. induction H as [|[k' v'] t Hx Ht IH]; simpl.
  - constructor; auto.
  - destruct (String.eqb k k'); constructor; auto.
Qed.

Lemma lookup_nn (p : plan) k : plan_nn p -> 0 <= lookup 0 p k.
Proof.
  unfold lookup. intros H. induction H as [|[k' v'] t Hx Ht IH]; simpl; [lia|].
  destruct (String.eqb k k'); auto.
Qed.

Lemma cpumap_add_nn (c c1 : plan) : plan_nn c -> plan_nn c1 -> plan_nn (cpumap_add c c1).
Proof.
  unfold cpumap_add. intros Hc H1. revert c Hc.
  induction H1 as [|kv t Hx Ht IH]; intros c Hc; simpl; auto.
  apply IH. apply upd_nn; auto. pose proof (lookup_nn c (fst kv) Hc). lia.
Qed.

Lemma repeat_plan_nn n p : plan_nn p -> plans_nn (repeat_plan n p).
Proof. intros H. induction n; simpl; constructor; auto. Qed.

Lemma fragment_plans_ok cores fragment : 0 < fragment ->
  exists r, get_fragment_plans cores fragment = Ok r /\ plans_nn r
    /\ Z.of_nat (length r) = fold_right (fun c s => Z.of_nat (Z.to_nat (Z.quot (cpieces c) fragment)) + s) 0 cores.
Proof.
  intros Hf. unfold get_fragment_plans.
  destruct cores as [|c0 t0] eqn:E.
  - eexists; repeat split; constructor.
  - replace (fragment =? 0) with false by (symmetry; apply Z.eqb_neq; lia).
    rewrite <- E. clear E c0 t0.
    eexists; split; [reflexivity|]. split.
    + induction cores as [|c t IH]; simpl; [constructor|].
      apply Forall_app; split; auto. apply repeat_plan_nn. constructor; simpl; [lia|constructor].
    + induction cores as [|c t IH]; simpl; [reflexivity|].
      rewrite app_length, Nat2Z.inj_add, IH. f_equal. f_equal.
      clear. induction (Z.to_nat (Z.quot (cpieces c) fragment)); simpl; auto.
Qed.

(* ---------- the heap loop of getFullCPUPlans ---------- *)
Notation hpop := (GoHeap.pop dcore heap_less).
Notation hpush := (GoHeap.push dcore heap_less).

Lemma pop_n_ok base : 0 < base -> forall k h p push,
  (k <= length h)%nat -> Forall (fullp base) h -> Forall (fullp base) push -> plan_nn p ->
  exists p' push' h', pop_n k base h p push = Ok (p', push', h')
    /\ Forall (fullp base) h' /\ Forall (fullp base) push' /\ plan_nn p'
    /\ weight push' + weight h' + Z.of_nat k * base = weight push + weight h.
Proof.
  intros Hb. induction k as [|k IH]; intros h p push Hk Hh Hp Hn; cbn [pop_n].
  - do 3 eexists; repeat split; eauto. lia.
  - destruct h as [|c0 t0] eqn:Eh; [simpl in Hk; lia|]. rewrite <- Eh in *.
    assert (Hne : h <> []) by (rewrite Eh; discriminate).
    destruct (pop_some _ dcore heap_less h Hne) as (c & h' & Hpop). rewrite Hpop.
    pose proof (pop_perm _ dcore heap_less h c h' Hpop) as Pm.
    pose proof (pop_length _ dcore heap_less h c h' Hpop) as Ln.
    assert (Hch : Forall (fullp base) (c :: h')) by (eapply Permutation_Forall; eauto).
    inversion Hch as [|? ? Hc Hh']; subst.
    destruct Hc as (q & Hq & Eq).
    set (r := cpieces c - base).
    assert (Hpush : Forall (fullp base) (if 0 <? r then push ++ [mkCore (cid c) r] else push)).
    { destruct (0 <? r) eqn:Er; auto. apply Forall_app; split; auto. constructor; auto.
      apply Z.ltb_lt in Er. exists (q - 1). unfold r in *. simpl. split; nia. }
    destruct (IH h' (upd p (cid c) base) (if 0 <? r then push ++ [mkCore (cid c) r] else push))
      as (p' & push' & h'' & E & H1 & H2 & H3 & H4); auto.
    { lia. } { apply upd_nn; auto; lia. }
    exists p', push', h''. rewrite E. repeat split; auto.
    rewrite (weight_perm _ _ Pm). simpl weight.
    assert (W : weight (if 0 <? r then push ++ [mkCore (cid c) r] else push) = weight push + r).
    { destruct (0 <? r) eqn:Er.
      - rewrite weight_app. simpl. apply Z.ltb_lt in Er. lia.
      - apply Z.ltb_ge in Er. unfold r in *. nia. }
    rewrite W in H4. unfold r in *.
    assert (Z.max 0 (cpieces c) = cpieces c) by nia.
    rewrite Nat2Z.inj_succ. lia.
Qed.

Lemma fold_push_perm push : forall h, Permutation (fold_left hpush push h) (push ++ h).
Proof.
  induction push as [|x t IH]; intros h; simpl; auto.
  eapply perm_trans; [apply IH|].
  eapply perm_trans; [apply Permutation_app_head, push_perm|].
  apply Permutation_sym, Permutation_middle.
Qed.

Lemma full_loop_ok base full : 0 < base -> 1 <= full -> forall fuel h acc,
  Forall (fullp base) h -> plans_nn acc -> weight h < Z.of_nat fuel ->
  exists r, full_loop fuel base full h acc = Ok r /\ plans_nn r.
Proof.
  intros Hb Hf. induction fuel as [|fuel IH]; intros h acc Hh Ha Hw.
  - pose proof (weight_nonneg h). lia.
  - simpl. destruct (Z.of_nat (length h) <? full) eqn:El.
    + eexists; split; [reflexivity|]. apply Forall_rev; auto.
    + apply Z.ltb_ge in El.
      destruct (pop_n_ok base Hb (Z.to_nat full) h [] []) as (p' & push' & h' & E & H1 & H2 & H3 & H4); auto.
      { lia. } { constructor. }
      rewrite E. simpl.
      apply IH.
      * eapply Permutation_Forall; [symmetry; apply fold_push_perm|]. apply Forall_app; auto.
      * constructor; auto.
      * rewrite (weight_perm _ _ (fold_push_perm push' h')), weight_app.
        simpl in H4. rewrite Z2Nat.id in H4 by lia. nia.
Qed.

(* ---------- getFullCPUPlansWithAffinity ---------- *)
Lemma chunks_nn base : 0 <= base -> forall n k l,
  plans_nn (map (fun ch => fold_left (fun p c => upd p (cid c) base) ch []) (chunks n k l)).
Proof.
  intros Hb. induction n as [|n IH]; intros k l; simpl; constructor; [|apply IH].
  assert (G : forall ch p, plan_nn p -> plan_nn (fold_left (fun p c => upd p (cid c) base) ch p)).
  { induction ch as [|c t IHc]; intros p Hp; simpl; auto. apply IHc, upd_nn; auto. }
  apply G. constructor.
Qed.

Lemma temp_cores base l : 0 < base -> Forall (fullp base) l ->
  let temp := flat_map (fun c => let r := cpieces c - base in
                                 if 0 <? r then [mkCore (cid c) r] else []) l in
  Forall (fullp base) temp /\ weight temp + Z.of_nat (length l) * base = weight l.
Proof.
  intros Hb H. induction H as [|c t Hc Ht IH]; cbn [flat_map length].
  - split; [constructor|reflexivity].
  - cbv zeta in IH. destruct IH as [IH1 IH2]. destruct Hc as (q & Hq & Eq).
    rewrite Nat2Z.inj_succ. cbv zeta.
    destruct (0 <? cpieces c - base) eqn:Er.
    + apply Z.ltb_lt in Er. split.
      * cbn [app]. constructor; auto. exists (q - 1). cbn [cpieces]. split; nia.
      * rewrite weight_app.
        change (weight [mkCore (cid c) (cpieces c - base)]) with (Z.max 0 (cpieces c - base) + 0).
        change (weight (c :: t)) with (Z.max 0 (cpieces c) + weight t).
        rewrite Z.max_r by lia. rewrite Z.max_r by nia. lia.
    + apply Z.ltb_ge in Er. split; auto. cbn [app].
      change (weight (c :: t)) with (Z.max 0 (cpieces c) + weight t).
      rewrite Z.max_r by nia. nia.
Qed.

Lemma aff_loop_ok base full : 0 < base -> 1 <= full -> forall fuel cores acc,
  Forall (fullp base) cores -> plans_nn acc -> weight cores < Z.of_nat fuel ->
  exists r, aff_loop fuel base full cores acc = Ok r /\ plans_nn r.
Proof.
  intros Hb Hf. induction fuel as [|fuel IH]; intros cores acc Hc Ha Hw.
  - pose proof (weight_nonneg cores). lia.
  - simpl. destruct (Z.of_nat (length cores) <? full) eqn:El.
    + eexists; split; [reflexivity|]; auto.
    + apply Z.ltb_ge in El.
      replace (full =? 0) with false by (symmetry; apply Z.eqb_neq; lia).
      set (len := Z.of_nat (length cores)) in *.
      set (count := Z.quot len full).
      assert (Hcount : 1 <= count /\ count * full <= len).
      { unfold count. pose proof (Z.quot_rem' len full).
        pose proof (Z.rem_bound_pos len full ltac:(lia) ltac:(lia)).
        split; [|nia]. destruct (Z_lt_le_dec (Z.quot len full) 1); [|lia]. nia. }
      set (used := Z.to_nat (count * full)).
      assert (Hused : (used <= length cores)%nat) by (unfold used, len in *; lia).
      assert (Hfs : Forall (fullp base) (firstn used cores)) by (apply Forall_firstn'; auto).
      destruct (temp_cores base (firstn used cores) Hb Hfs) as [T1 T2].
      apply IH.
      * apply Forall_app; split; auto. apply Forall_skipn'; auto.
      * apply Forall_app; split; auto. apply chunks_nn; lia.
      * rewrite weight_app. pose proof (weight_firstn_skipn used cores).
        rewrite firstn_length_le in T2 by auto. cbv zeta in T2.
        assert (1 <= Z.of_nat used) by (unfold used; nia).
        assert (1 * base <= Z.of_nat used * base) by (apply Z.mul_le_mono_nonneg_r; lia). lia.
Qed.

(* ---------- getFullCPUPlans for any permuting final sort ---------- *)
Section Generic.
Variable sortf : list keyed -> outcome (list keyed).
Hypothesis sortf_perm : forall l, exists l', sortf l = Ok l' /\ Permutation l' l.

Lemma full_plans_ok base aff cores full fuel : 0 < base -> 1 <= full ->
  Forall (fullp base) cores -> weight cores < Z.of_nat fuel ->
  exists r, get_full_plans_g sortf base aff cores full fuel = Ok r /\ plans_nn r.
Proof.
  intros Hb Hf Hc Hw. unfold get_full_plans_g. destruct aff.
  - apply aff_loop_ok; auto. constructor.
  - destruct (full_loop_ok base full Hb Hf fuel (GoHeap.init dcore heap_less cores) []) as (r & E & Hr).
    + eapply Permutation_Forall; [symmetry; apply init_perm|]; auto.
    + constructor.
    + rewrite (weight_perm _ _ (init_perm _ dcore heap_less cores)); auto.
    + rewrite E. simpl.
      destruct (sortf_perm (map (fun p => (sum_of_ids cores p, p)) r)) as (l' & El & Pl).
      rewrite El. simpl. eexists; split; [reflexivity|].
      unfold plans_nn. eapply Permutation_Forall; [apply Permutation_map; symmetry; exact Pl|].
      rewrite map_map. simpl. rewrite map_id. exact Hr.
Qed.

(* ---------- the conversion loop ---------- *)
Definition fragcap (fragment : Z) (l : list core) : Z :=
  fold_left (fun s c => s + Z.quot (cpieces c) fragment) l 0.

Lemma fold_left_add_shift (f : core -> Z) l a : fold_left (fun s c => s + f c) l a = a + fold_left (fun s c => s + f c) l 0.
Proof.
  revert a. induction l as [|c t IH]; intros a; simpl; [lia|].
  rewrite (IH (a + f c)), (IH (f c)). lia.
Qed.

Lemma fragcap_eq fragment l : 0 < fragment -> Forall posp l ->
  fragcap fragment l = fold_right (fun c s => Z.of_nat (Z.to_nat (Z.quot (cpieces c) fragment)) + s) 0 l.
Proof.
  intros Hf H. unfold fragcap. induction H as [|c t Hc Ht IH]; simpl; auto.
  rewrite fold_left_add_shift, IH.
  assert (0 <= Z.quot (cpieces c) fragment) by (apply Z.quot_pos; unfold posp in Hc; lia).
  lia.
Qed.

Lemma fragcap_app fragment l c : fragcap fragment (l ++ [c]) = fragcap fragment l + Z.quot (cpieces c) fragment.
Proof. unfold fragcap. rewrite fold_left_app. simpl. reflexivity. Qed.

Lemma convert_loop_ok base aff full fragment maxfrag fuel2 :
  0 < base -> 1 <= full -> 0 < fragment ->
  forall fuel fulls frags total best0 best1 bestcap,
  Forall (fullp base) fulls -> Forall posp frags ->
  total = fragcap fragment frags ->
  maxfrag <= Z.of_nat (length fulls) + Z.of_nat (length frags) - full ->
  weight fulls < Z.of_nat fuel2 -> (length fulls < fuel)%nat ->
  plans_nn best0 -> plans_nn best1 ->
  bestcap <= Z.of_nat (length best0) -> bestcap <= Z.of_nat (length best1) ->
  exists b0 b1 cap, convert_loop sortf fuel fuel2 base aff maxfrag full fragment fulls frags total best0 best1 bestcap
                    = Ok (b0, b1, cap)
    /\ plans_nn b0 /\ plans_nn b1 /\ cap <= Z.of_nat (length b0) /\ cap <= Z.of_nat (length b1).
Proof.
  intros Hb Hfu Hfr. induction fuel as [|fuel IH];
    intros fulls frags total best0 best1 bestcap Hf Hg Ht Hm Hw Hl Hn0 Hn1 Hc0 Hc1.
  - lia.
  - simpl. destruct (Z.of_nat (length frags) <? maxfrag) eqn:Ec; simpl.
    2:{ do 3 eexists; split; [reflexivity|]; auto. }
    apply Z.ltb_lt in Ec.
    destruct fulls as [|nf fulls']; [simpl in Hm; lia|].
    inversion Hf as [|? ? Hnf Hf']; subst.
    assert (Hw' : weight fulls' < Z.of_nat fuel2) by (simpl in Hw; lia).
    destruct (full_plans_ok base aff fulls' full fuel2 Hb Hfu Hf' Hw') as (fplans & Ef & Hfp).
    rewrite Ef. simpl.
    assert (Hg' : Forall posp (frags ++ [nf])).
    { apply Forall_app; split; auto. constructor; auto. pose proof (fullp_pos _ _ Hb Hnf). unfold posp. lia. }
    assert (Hm' : maxfrag <= Z.of_nat (length fulls') + Z.of_nat (length (frags ++ [nf])) - full).
    { rewrite app_length. simpl length in *. lia. }
    assert (Hl' : (length fulls' < fuel)%nat) by (simpl in Hl; lia).
    assert (Ht' : fragcap fragment frags + Z.quot (cpieces nf) fragment = fragcap fragment (frags ++ [nf]))
      by (rewrite fragcap_app; reflexivity).
    destruct (bestcap <? Z.min (Z.of_nat (length fplans)) (fragcap fragment frags + Z.quot (cpieces nf) fragment)) eqn:Eb.
    + destruct (fragment_plans_ok (frags ++ [nf]) fragment Hfr) as (gplans & Eg & Hgp & Lg).
      rewrite Eg. simpl.
      apply IH; auto.
      * lia.
      * rewrite Lg, <- fragcap_eq, <- Ht' by auto. lia.
    + apply IH; auto.
Qed.

Lemma zip_plans_ok : forall n l0 l1, (n <= length l0)%nat -> (n <= length l1)%nat ->
  plans_nn l0 -> plans_nn l1 -> exists r, zip_plans n l0 l1 = Ok r /\ plans_nn r.
Proof.
  induction n as [|n IH]; intros l0 l1 H0 H1 N0 N1; simpl.
  - eexists; split; [reflexivity|constructor].
  - destruct l0 as [|p0 t0]; [simpl in H0; lia|]. destruct l1 as [|p1 t1]; [simpl in H1; lia|].
    inversion N0; inversion N1; subst.
    destruct (IH t0 t1) as (r & E & Hr); auto; try (simpl in *; lia).
    rewrite E. simpl. eexists; split; [reflexivity|]. constructor; auto.
    apply cpumap_add_nn; auto. apply cpumap_add_nn; auto. constructor.
Qed.

(* ---------- host.getCPUPlans ---------- *)
Lemma host_plans_pieces_ok base h pr fuel : 0 < base -> 0 < pr -> host_ok base h ->
  weight (h_full h) + weight (h_frag h) < Z.of_nat fuel ->
  exists r, host_plans_pieces_g sortf h pr fuel = Ok r /\ plans_nn r.
Proof.
  intros Hb Hp (Eb & Hf & Hg) Hw. unfold host_plans_pieces_g. rewrite Eb.
  pose proof (Z.quot_rem' pr base) as Eq.
  pose proof (Z.rem_bound_pos pr base ltac:(lia) ltac:(lia)) as Rb.
  assert (Hq : 0 <= Z.quot pr base) by (apply Z.quot_pos; lia).
  pose proof (weight_nonneg (h_full h)). pose proof (weight_nonneg (h_frag h)).
  set (full := Z.quot pr base) in *. set (fragment := Z.rem pr base) in *.
  set (nfull := Z.of_nat (length (h_full h))). set (nfrag := Z.of_nat (length (h_frag h))).
  set (mfc := nfull + nfrag - full).
  set (maxfrag := if (h_maxfrag h =? -1) || (mfc <? h_maxfrag h) then mfc else h_maxfrag h).
  assert (Hmax : maxfrag <= mfc).
  { unfold maxfrag. destruct ((h_maxfrag h =? -1) || (mfc <? h_maxfrag h)) eqn:E; [lia|].
    apply orb_false_iff in E. destruct E as [_ E]. apply Z.ltb_ge in E. lia. }
  destruct (fragment =? 0) eqn:Ef0.
  - apply Z.eqb_eq in Ef0. apply full_plans_ok; auto; [nia|lia].
  - apply Z.eqb_neq in Ef0.
    destruct (full =? 0) eqn:Efu.
    + apply Z.eqb_eq in Efu.
      set (diff0 := maxfrag - nfrag). set (diff := if diff0 <? 0 then 0 else diff0).
      assert (Hd : 0 <= diff <= nfull).
      { unfold diff, diff0, mfc in *. destruct (maxfrag - nfrag <? 0) eqn:E; [lia|]. apply Z.ltb_ge in E. lia. }
      replace (nfull <? diff) with false by (symmetry; apply Z.ltb_ge; lia).
      destruct (fragment_plans_ok (h_frag h ++ firstn (Z.to_nat diff) (h_full h)) fragment ltac:(lia)) as (r & E & Hr & _).
      exists r; auto.
    + apply Z.eqb_neq in Efu.
      assert (Hfu1 : 1 <= full) by lia.
      destruct (full_plans_ok base (h_aff h) (h_full h) full fuel Hb Hfu1 Hf ltac:(lia)) as (b0 & E0 & N0).
      rewrite E0. cbn [bind].
      destruct (fragment_plans_ok (h_frag h) fragment ltac:(lia)) as (b1 & E1 & N1 & L1).
      rewrite E1. cbn [bind].
      destruct (convert_loop_ok base (h_aff h) full fragment maxfrag fuel Hb Hfu1 ltac:(lia)
                  (S (length (h_full h))) (h_full h) (h_frag h)
                  (fold_left (fun s c => s + Z.quot (cpieces c) fragment) (h_frag h) 0) b0 b1
                  (Z.min (Z.of_nat (length b0)) (Z.of_nat (length b1))))
        as (c0 & c1 & cap & Ec & M0 & M1 & C0 & C1); auto; try lia.
      rewrite Ec. cbn [bind].
      destruct (Z_le_dec cap 0).
      * replace (Z.to_nat cap) with O by lia. simpl. eexists; split; [reflexivity|constructor].
      * apply zip_plans_ok; auto; lia.
Qed.

Lemma host_cpu_plans_ok base h cpu fuel : 0 < base -> host_ok base h ->
  weight (h_full h) + weight (h_frag h) < Z.of_nat fuel ->
  exists r, host_cpu_plans_g sortf h cpu fuel = Ok r /\ plans_nn r.
Proof.
  intros Hb Hh Hw. unfold host_cpu_plans_g.
  destruct (pieces_request (h_base h) cpu <=? 0) eqn:E.
  - eexists; split; [reflexivity|constructor].
  - apply Z.leb_gt in E. pose proof Hh as (Eb & _). rewrite Eb in *.
    replace (base =? 0) with false by (symmetry; apply Z.eqb_neq; lia).
    apply (host_plans_pieces_ok base); auto.
Qed.

(* ---------- doGetCPUPlans ---------- *)
Lemma do_get_cpu_plans_ok origin avail amem base mf cpu mem fuel : 0 < base ->
  mweight avail < Z.of_nat fuel ->
  exists r, do_get_cpu_plans_g sortf origin avail amem base mf cpu mem fuel = Ok r /\ plans_nn r.
Proof.
  intros Hb Hw. unfold do_get_cpu_plans_g.
  destruct (new_host_ok avail base mf Hb) as (h & Eh & Hh & _ & Wh). rewrite Eh. simpl.
  assert (exists h', (match origin with
                      | [] => Ok h
                      | _ => do oh <- new_host origin base mf; Ok (reorder_by_affinity oh h)
                      end) = Ok h' /\ host_ok base h' /\ weight (h_full h') + weight (h_frag h') <= mweight avail)
    as (h' & Eh' & Hh' & Wh').
  { destruct origin as [|o ot]; [exists h; auto|].
    destruct (new_host_ok (o :: ot) base mf Hb) as (oh & Eo & _). rewrite Eo. simpl.
    destruct (reorder_ok base oh h Hh) as (R1 & R2 & R3 & _).
    eexists; split; [reflexivity|]. split; auto. lia. }
  rewrite Eh'. simpl.
  destruct (host_cpu_plans_ok base h' cpu fuel Hb Hh' ltac:(lia)) as (plans & Ep & Np).
  rewrite Ep. simpl.
  destruct (0 <? mem); [|eauto].
  match goal with |- context [if ?c <? Z.of_nat (length plans) then _ else _] => destruct (c <? Z.of_nat (length plans)) end; eauto.
  eexists; split; [reflexivity|]. apply Forall_firstn'; auto.
Qed.
End Generic.

(* ---------- the NUMA loop and GetCPUPlans ---------- *)
Lemma mweight_upd_le (c : smap Z) k v : v <= lookup 0 c k -> mweight (upd c k v) <= mweight c.
Proof.
  unfold lookup. induction c as [|[k' w] t IH]; simpl; intros H.
  - lia.
  - destruct (String.eqb k k'); simpl in *; [lia|]. specialize (IH H). lia.
Qed.

Lemma mweight_sub_le (c p : smap Z) : plan_nn p -> mweight (cpumap_sub c p) <= mweight c.
Proof.
  unfold cpumap_sub. intros H. revert c.
  induction H as [|kv t Hx Ht IH]; intros c; simpl; [lia|].
  etransitivity; [apply IH|]. apply mweight_upd_le. lia.
Qed.

Lemma mweight_numa_map numa avail nid : mweight (numa_cpu_map numa avail nid) <= nweight numa avail.
Proof.
  unfold numa_cpu_map, nweight. induction numa as [|kv t IH]; simpl; [lia|].
  destruct (String.eqb (snd kv) nid); simpl; lia.
Qed.

Lemma nweight_nonneg numa avail : 0 <= nweight numa avail.
Proof. unfold nweight. induction numa; simpl; lia. Qed.

Lemma sub_plans_weight (plans : list plan) nid mem : plans_nn plans -> forall a,
  mweight (nr_cpumap (fold_left (fun a p => nr_sub_nofloat a (mkNR f_zero p mem [(nid, mem)] [])) plans a))
  <= mweight (nr_cpumap a).
Proof.
  intros H. induction H as [|p t Hp Ht IH]; intros a; simpl; [lia|].
  etransitivity; [apply IH|]. simpl. apply mweight_sub_le; auto.
Qed.

Section Generic2.
Variable sortf : list keyed -> outcome (list keyed).
Hypothesis sortf_perm : forall l, exists l', sortf l = Ok l' /\ Permutation l' l.

Lemma numa_loop_ok numa avail0 origin base mf cpu mem fuel : 0 < base ->
  nweight numa avail0 < Z.of_nat fuel ->
  forall order avail acc, Forall (fun tp => plan_nn (snd tp)) acc ->
  exists avail' acc', numa_loop sortf order numa avail0 origin base mf cpu mem fuel avail acc = Ok (avail', acc')
     /\ Forall (fun tp => plan_nn (snd tp)) acc'
     /\ mweight (nr_cpumap avail') <= mweight (nr_cpumap avail).
Proof.
  intros Hb Hw. induction order as [|nid rest IH]; intros avail acc Ha; simpl.
  - do 2 eexists; split; [reflexivity|]. split; auto. lia.
  - destruct (do_get_cpu_plans_ok sortf sortf_perm origin (numa_cpu_map numa avail0 nid)
                (Z.min (lookup 0 (nr_numamem avail) nid) (nr_mem avail)) base mf cpu mem fuel Hb)
      as (plans & E & Np).
    { pose proof (mweight_numa_map numa avail0 nid). lia. }
    rewrite E. cbn [bind].
    match goal with |- context [numa_loop sortf rest numa avail0 origin base mf cpu mem fuel ?a ?c] =>
      destruct (IH a c) as (avail' & acc' & E' & N' & W') end.
    { apply Forall_app; split; auto. apply Forall_forall. intros tp Hin.
      apply in_map_iff in Hin. destruct Hin as (p & <- & Hp). simpl.
      unfold plans_nn in Np. rewrite Forall_forall in Np. auto. }
    do 2 eexists; split; [exact E'|]. split; auto.
    etransitivity; [exact W'|]. apply sub_plans_weight; auto.
Qed.

(* GetCPUPlans never panics and terminates within the default fuel *)
Theorem get_cpu_plans_total info origin base mf req order fuel :
  0 < base -> (default_fuel info <= fuel)%nat ->
  exists plans, get_cpu_plans_g sortf info origin base mf req order fuel = Ok plans
                /\ Forall (fun tp => plan_nn (snd tp)) plans.
Proof.
  intros Hb Hf. unfold get_cpu_plans_g. unfold default_fuel in Hf.
  set (avail := get_available_nofloat info) in *.
  pose proof (mweight_nonneg (nr_cpumap avail)) as M0.
  pose proof (nweight_nonneg (nr_numa (ni_cap info)) (nr_cpumap avail)) as N0.
  destruct (numa_loop_ok (nr_numa (ni_cap info)) (nr_cpumap avail) origin base mf
              (rq_cpu_req req) (rq_mem_req req) fuel Hb ltac:(lia) order avail [] ltac:(constructor))
    as (avail' & acc & E & Na & Wa).
  rewrite E. cbn [bind].
  destruct (do_get_cpu_plans_ok sortf sortf_perm origin (nr_cpumap avail') (nr_mem avail') base mf
              (rq_cpu_req req) (rq_mem_req req) fuel Hb ltac:(lia)) as (cross & Ec & Nc).
  rewrite Ec. cbn [bind]. eexists; split; [reflexivity|].
  apply Forall_app; split; auto. apply Forall_forall. intros tp Hin.
  apply in_map_iff in Hin. destruct Hin as (p & <- & Hp). simpl.
  unfold plans_nn in Nc. rewrite Forall_forall in Nc. auto.
Qed.
End Generic2.

(* the concrete instance: stable insertion sort *)
Lemma sort_exact_perm : forall l, exists l', sort_exact l = Ok l' /\ Permutation l' l.
Proof. intros l. eexists; split; [reflexivity|]. apply isort_perm. Qed.
