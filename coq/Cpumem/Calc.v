(* Cpumem/Calc.v — model of Plugin.CalculateDeploy (calculate.go: doAllocByMemory,
   doAllocByCPU) and of node.go:doGetNodeDeployCapacity (executable, no proofs).

   INTERFACE (stable; names are only ever added):
     cerr := CErrInvalidMemory | CErrInvalidCPU | CErrInsufficientCapacity
     deploy_result := list eparams * list wres
     do_alloc_by_memory info count req            : cerr + deploy_result
     do_alloc_by_cpu_g sortf info base maxshare count req numa_order fuel
                                                  : outcome (cerr + deploy_result)
     calculate_deploy_g sortf info base maxshare count rawreq numa_order fuel
        (validates the raw request first)         : outcome (cerr + deploy_result)
     calculate_deploy / calculate_deploy_chk      instances (sort_exact / sort_checked)
     capinfo (mkCap cap_capacity cap_usage cap_rate cap_weight)     NodeDeployCapacity
     node_capacity_g sortf info base maxshare req numa_order fuel : outcome capinfo
                                                  doGetNodeDeployCapacity (req already validated)
     node_capacity / node_capacity_chk            instances
     commit_usage info ws                         usage after SetNodeResourceUsage(workloads, delta, incr)
     rerr2, realloc_result (mkRR rr_engine rr_delta rr_new), wres_sub (WorkloadResource.Sub)
     calculate_realloc_g sortf info base maxshare origin rawreq numa_order fuel
                                                  : outcome (rerr2 + realloc_result)   CalculateRealloc
     calculate_realloc / calculate_realloc_chk    instances;  realloc_info info origin (node with the origin given back)
*)
From Coq Require Import String Ascii List ZArith Bool.
From Verif Require Import Base.GoInt Base.GoFloat Cpumem.Types Cpumem.Schedule.
Import ListNotations.
Local Open Scope Z_scope.

Inductive cerr := CErrInvalidMemory | CErrInvalidCPU | CErrInsufficientCapacity.
Definition cerr_eqb (a b : cerr) : bool :=
  match a, b with
  | CErrInvalidMemory, CErrInvalidMemory | CErrInvalidCPU, CErrInvalidCPU
  | CErrInsufficientCapacity, CErrInsufficientCapacity => true
  | _, _ => false end.

Definition deploy_result := (list eparams * list wres)%type.

Fixpoint repeat_n {A} (n : nat) (x : A) : list A :=
  match n with O => [] | S k => x :: repeat_n k x end.

(* doAllocByMemory *)
Definition do_alloc_by_memory (info : node_info) (count : Z) (req : wreq) : cerr + deploy_result :=
  if fgt (rq_cpu_req req) (f_of_Z (Z.of_nat (length (nr_cpumap (ni_cap info))))) then inl CErrInsufficientCapacity else
  let avail := get_available_nofloat info in
  if (0 <? rq_mem_req req) && (Z.quot (nr_mem avail) (rq_mem_req req) <? count) then inl CErrInsufficientCapacity else
  let ep := mkEP (rq_cpu_lim req) [] EmptyString (rq_mem_lim req) false in
  let wr := mkWR (rq_cpu_req req) (rq_cpu_lim req) (rq_mem_req req) (rq_mem_lim req) [] [] EmptyString in
  inr (repeat_n (Z.to_nat count) ep, repeat_n (Z.to_nat count) wr).

(* float(x) / float(y) with utils.AdvancedDivide *)
Definition adv_div (a b : f64) : f64 :=
  if feq a f_zero || feq b f_zero then f_zero else fdiv a b.

Record capinfo := mkCap { cap_capacity : Z; cap_usage : f64; cap_rate : f64; cap_weight : f64 }.

Section WithSort.
Variable sortf : list keyed -> outcome (list keyed).

(* doAllocByCPU *)
Definition do_alloc_by_cpu_g (info : node_info) (base maxshare : Z) (count : Z) (req : wreq)
   (numa_order : list string) (fuel : nat) : outcome (cerr + deploy_result) :=
  do plans <- get_cpu_plans_g sortf info [] base maxshare req numa_order fuel;
  if Z.of_nat (length plans) <? count then Ok (inl CErrInsufficientCapacity) else
  if count <? 0 then Panic RSlice else                       (* cpuPlans[:deployCount] *)
  let plans := firstn (Z.to_nat count) plans in
  Ok (inr (map (fun tp => mkEP (rq_cpu_lim req) (snd tp) (fst tp) (rq_mem_lim req) false) plans,
           map (fun tp => mkWR (rq_cpu_req req) (rq_cpu_lim req) (rq_mem_req req) (rq_mem_lim req)
                               (snd tp)
                               (match fst tp with EmptyString => [] | nid => [(nid, rq_mem_req req)] end)
                               (fst tp)) plans)).

(* CalculateDeploy after the node has been read *)
Definition calculate_deploy_g (info : node_info) (base maxshare : Z) (count : Z) (raw : wreq)
   (numa_order : list string) (fuel : nat) : outcome (cerr + deploy_result) :=
  match wreq_validate raw with
  | inl ErrInvalidMemory => Ok (inl CErrInvalidMemory)
  | inl ErrInvalidCPU => Ok (inl CErrInvalidCPU)
  | inr req =>
    if negb (rq_bind req) then Ok (do_alloc_by_memory info count req)
    else do_alloc_by_cpu_g info base maxshare count req numa_order fuel
  end.

(* doGetNodeDeployCapacity *)
Definition node_capacity_g (info : node_info) (base maxshare : Z) (req : wreq)
   (numa_order : list string) (fuel : nat) : outcome capinfo :=
  let avail := get_available_nofloat info in
  let cap := ni_cap info in let usage := ni_usage info in
  if negb (rq_bind req) then
    if fgt (rq_cpu_req req) (f_of_Z (Z.of_nat (length (nr_cpumap cap)))) then
      Ok (mkCap 0 f_zero f_zero (f_of_Z 1))
    else
      let u := adv_div (f_of_Z (nr_mem usage)) (f_of_Z (nr_mem cap)) in
      if rq_mem_req req =? 0 then Ok (mkCap max_int u f_zero (f_of_Z 1))
      else Ok (mkCap (Z.quot (nr_mem avail) (rq_mem_req req)) u
                     (adv_div (f_of_Z (rq_mem_req req)) (f_of_Z (nr_mem cap))) (f_of_Z 1))
  else
    do plans <- get_cpu_plans_g sortf info [] base maxshare req numa_order fuel;
    Ok (mkCap (Z.of_nat (length plans))
              (adv_div (nr_cpu usage) (nr_cpu cap))
              (adv_div (rq_cpu_req req) (nr_cpu cap))
              (f_of_Z 100)).
End WithSort.

Definition calculate_deploy := calculate_deploy_g sort_exact.
Definition calculate_deploy_chk := calculate_deploy_g sort_pdq.
Definition node_capacity := node_capacity_g sort_exact.
Definition node_capacity_chk := node_capacity_g sort_pdq.

(* SetNodeResourceUsage(nil, nil, workloads, delta=true, incr=true): calculateNodeResource
   adds {CPU: CPURequest, CPUMap, NUMAMemory, Memory: MemoryRequest} of every workload *)
Definition commit_usage (info : node_info) (ws : list wres) : node_info :=
  mkNI (ni_cap info)
       (fold_left (fun u w => nr_add u (mkNR (wr_cpu_req w) (wr_cpumap w) (wr_mem_req w) (wr_numamem w) []))
                  ws (ni_usage info)).

(* ---------- CalculateRealloc ---------- *)
Inductive rerr2 := RErrInvalidMemory | RErrInvalidCPU | RErrInsufficientResource | RErrInsufficientCapacity.
Record realloc_result := mkRR { rr_engine : eparams; rr_delta : wres; rr_new : wres }.

(* WorkloadResource.Sub (on a DeepCopy): CPURequest and CPULimit through utils.Round,
   MemoryRequest, CPUMap, NUMAMemory; MemoryLimit and NUMANode are left alone *)
Definition wres_sub (w w1 : wres) : wres :=
  mkWR (f_round9 (fsub (wr_cpu_req w) (wr_cpu_req w1))) (f_round9 (fsub (wr_cpu_lim w) (wr_cpu_lim w1)))
       (wr_mem_req w - wr_mem_req w1) (wr_mem_lim w)
       (cpumap_sub (wr_cpumap w) (wr_cpumap w1)) (cpumap_sub (wr_numamem w) (wr_numamem w1)) (wr_numanode w).

Section WithSort.
Variable sortf : list keyed -> outcome (list keyed).

Definition calculate_realloc_g (info : node_info) (base maxshare : Z) (origin : wres) (raw : wreq)
   (numa_order : list string) (fuel : nat) : outcome (rerr2 + realloc_result) :=
  let bind := if rq_keep raw then (match wr_cpumap origin with [] => false | _ => true end) else rq_bind raw in
  (* put the origin's resources back into the pool *)
  let info' := mkNI (ni_cap info)
                    (nr_sub_nofloat (ni_usage info)
                       (mkNR (wr_cpu_req origin) (wr_cpumap origin) (wr_mem_req origin) (wr_numamem origin) [])) in
  let newraw := mkReq bind false (fadd (rq_cpu_req raw) (wr_cpu_req origin)) (fadd (rq_cpu_lim raw) (wr_cpu_lim origin))
                      (rq_mem_req raw + wr_mem_req origin) (rq_mem_lim raw + wr_mem_lim origin) in
  match wreq_validate newraw with
  | inl ErrInvalidMemory => Ok (inl RErrInvalidMemory)
  | inl ErrInvalidCPU => Ok (inl RErrInvalidCPU)
  | inr req =>
    let finish (cpumap : smap Z) (nid : string) :=
      let numamem := match nid with EmptyString => [] | _ => [(nid, rq_mem_req req)] end in
      let newres := mkWR (rq_cpu_req req) (rq_cpu_lim req) (rq_mem_req req) (rq_mem_lim req) cpumap numamem nid in
      Ok (inr (mkRR (mkEP (rq_cpu_lim req) cpumap nid (rq_mem_lim req) false) (wres_sub newres origin) newres)) in
    if bind then
      do plans <- get_cpu_plans_g sortf info' (wr_cpumap origin) base maxshare req numa_order fuel;
      match plans with
      | [] => Ok (inl RErrInsufficientResource)
      | tp :: _ => finish (snd tp) (fst tp)
      end
    else
      match do_alloc_by_memory info' 1 req with
      | inl _ => Ok (inl RErrInsufficientCapacity)
      | inr _ => finish [] EmptyString
      end
  end.
End WithSort.

Definition calculate_realloc := calculate_realloc_g sort_exact.
Definition calculate_realloc_chk := calculate_realloc_g sort_pdq.

(* fuel: the origin's pieces come back into the pool *)
Definition realloc_info (info : node_info) (origin : wres) : node_info :=
  mkNI (ni_cap info) (nr_sub_nofloat (ni_usage info)
     (mkNR (wr_cpu_req origin) (wr_cpumap origin) (wr_mem_req origin) (wr_numamem origin) [])).


Definition rerr2_eqb (a b : rerr2) : bool :=
  match a, b with
  | RErrInvalidMemory, RErrInvalidMemory | RErrInvalidCPU, RErrInvalidCPU
  | RErrInsufficientResource, RErrInsufficientResource | RErrInsufficientCapacity, RErrInsufficientCapacity => true
  | _, _ => false end.
