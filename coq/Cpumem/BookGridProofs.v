(* Cpumem/BookGridProofs.v — utils.Round keeps CPU sums on the 1e-9 decimal grid:
     Round(G a + G b) = G (a + b)   and   Round(G a - G b) = G (a - b)
   as real values, for |a|, |b|, |a +- b| <= 2^49 (G k = the double nearest to
   k * 1e-9).  Proof: Flocq's correctness theorems for + - * / and nearbyint,
   the 1+eps error bound of rounding to nearest, and linear arithmetic. *)
From Coq Require Import ZArith Reals Lia Lra Bool.
From Flocq Require Import Core Relative IEEE754.BinarySingleNaN IEEE754.Binary IEEE754.Bits.
From Verif Require Import Base.GoInt Base.GoFloat Cpumem.Types Cpumem.BookCpuProofs.
Local Open Scope R_scope.

Notation fexp := (FLT_exp (-1074) 53).
Notation rnd := (round radix2 fexp ZnearestE).
Notation b2r := (B2R 53 1024).

Definition eps : R := / 9007199254740992.            (* 2^-53 *)
Definition eta : R := / 1267650600228229401496703205376. (* 2^-100, a generous bound for 2^-1075 *)

Lemma eps_eq : eps = / 2 * bpow radix2 (-53 + 1).
Proof. unfold eps. change (-53 + 1)%Z with (-52)%Z. simpl. lra. Qed.

Lemma eta_ge : / 2 * bpow radix2 (-1074) <= eta.
Proof.
  unfold eta.
  apply Rle_trans with (bpow radix2 (-100)).
  - assert (bpow radix2 (-1074) <= bpow radix2 (-100)) by (apply bpow_le; lia).
    assert (0 < bpow radix2 (-1074)) by apply bpow_gt_0. lra.
  - simpl. lra.
Qed.

(* rounding error: |rnd x - x| <= eps |x| + eta *)
Lemma rnd_err x : Rabs (rnd x - x) <= eps * Rabs x + eta.
Proof.
  destruct (error_N_FLT radix2 (-1074) 53 ltac:(lia) (fun x => negb (Z.even x)) x) as (e & t & He & Ht & _ & E).
  rewrite E. replace (x * (1 + e) + t - x) with (x * e + t) by ring.
  eapply Rle_trans; [apply Rabs_triang|]. rewrite Rabs_mult.
  assert (He' : Rabs e <= eps) by (rewrite eps_eq; exact He).
  pose proof eta_ge. pose proof (Rabs_pos x).
  assert (Rabs x * Rabs e <= Rabs x * eps) by (apply Rmult_le_compat_l; assumption).
  lra.
Qed.

(* no overflow for moderate values *)
Lemma rnd_small x : Rabs x <= bpow radix2 100 -> Rabs (rnd x) < bpow radix2 1024.
Proof.
  intro H. apply Rle_lt_trans with (bpow radix2 100).
  - apply abs_round_le_generic; [apply FLT_exp_valid; reflexivity|apply valid_rnd_N| |exact H].
    apply generic_format_bpow. unfold FLT_exp. lia.
  - apply bpow_lt. lia.
Qed.

Lemma round_FIX0 (r : R -> Z) x : round radix2 (FIX_exp 0) r x = IZR (r x).
Proof.
  unfold round, scaled_mantissa, cexp, FIX_exp, F2R. simpl. rewrite !Rmult_1_r. reflexivity.
Qed.

(* ---------- float64(int) is exact below 2^53 ---------- *)
Lemma f_of_Z_correct k : (Z.abs k < 2 ^ 53)%Z -> b2r (f_of_Z k) = IZR k /\ f_finite (f_of_Z k) = true.
Proof.
  intro Hk. unfold f_of_Z, f_finite.
  pose proof (binary_normalize_correct 53 1024 (eq_refl _) (eq_refl _) mode_NE k 0 false) as H.
  assert (F : F2R (Float radix2 k 0) = IZR k) by (unfold F2R; simpl; ring).
  rewrite F in H.
  assert (GF : generic_format radix2 fexp (IZR k)).
  { apply generic_format_FLT. apply (FLT_spec radix2 (-1074) 53 (IZR k) (Float radix2 k 0)); simpl; [symmetry; exact F|exact Hk|lia]. }
  simpl round_mode in H; change (SpecFloat.fexp 53 1024) with (FLT_exp (-1074) 53) in H. rewrite (round_generic radix2 fexp ZnearestE (IZR k) GF) in H.
  rewrite Rlt_bool_true in H.
  - destruct H as (H1 & H2 & _). split; assumption.
  - apply Rlt_le_trans with (IZR (2 ^ 53)).
    + rewrite <- abs_IZR. apply IZR_lt. exact Hk.
    + change (IZR (2 ^ 53)) with (bpow radix2 53). apply bpow_le. lia.
Qed.

Definition e9 : R := 1000000000.
Lemma f_1e9_correct : b2r f_1e9 = e9 /\ f_finite f_1e9 = true.
Proof. unfold f_1e9, e9. apply (f_of_Z_correct 1000000000). simpl. lia. Qed.

(* ---------- the arithmetic steps, as real-number facts ---------- *)
Lemma fdiv_e9_correct x : f_finite x = true -> Rabs (b2r x) <= bpow radix2 90 ->
  b2r (fdiv x f_1e9) = rnd (b2r x / e9) /\ f_finite (fdiv x f_1e9) = true.
Proof.
  intros Fx Hx. destruct f_1e9_correct as [E9 F9]. unfold fdiv, b64_div, f_finite in *.
  match goal with |- context [Bdiv _ _ ?h1 ?h2 _ _ _ _] =>
    pose proof (Bdiv_correct 53 1024 h1 h2 binop_nan_pl64 mode_NE x f_1e9) as H end.
  rewrite E9 in H. simpl round_mode in H; change (SpecFloat.fexp 53 1024) with (FLT_exp (-1074) 53) in H.
  assert (NZ : e9 <> 0) by (unfold e9; lra). specialize (H NZ).
  rewrite Rlt_bool_true in H.
  - destruct H as (H1 & H2 & _). rewrite Fx in H2. split; assumption.
  - apply rnd_small. unfold Rdiv. rewrite Rabs_mult.
    assert (Rabs (/ e9) <= 1) by (unfold e9; rewrite Rabs_pos_eq; lra).
    pose proof (Rabs_pos (b2r x)).
    apply Rle_trans with (bpow radix2 90); [|apply bpow_le; lia].
    apply Rle_trans with (Rabs (b2r x) * 1); [|lra].
    apply Rmult_le_compat_l; assumption.
Qed.

Lemma fmul_e9_correct x : f_finite x = true -> Rabs (b2r x) <= bpow radix2 60 ->
  b2r (fmul x f_1e9) = rnd (b2r x * e9) /\ f_finite (fmul x f_1e9) = true.
Proof.
  intros Fx Hx. destruct f_1e9_correct as [E9 F9]. unfold fmul, b64_mult, f_finite in *.
  match goal with |- context [Bmult _ _ ?h1 ?h2 _ _ _ _] =>
    pose proof (Bmult_correct 53 1024 h1 h2 binop_nan_pl64 mode_NE x f_1e9) as H end.
  rewrite E9 in H. simpl round_mode in H; change (SpecFloat.fexp 53 1024) with (FLT_exp (-1074) 53) in H.
  rewrite Rlt_bool_true in H.
  - destruct H as (H1 & H2 & _). rewrite Fx, F9 in H2. split; assumption.
  - apply rnd_small. rewrite Rabs_mult.
    assert (Rabs e9 <= bpow radix2 30) by (unfold e9; rewrite Rabs_pos_eq by lra; simpl; lra).
    replace (bpow radix2 100) with (bpow radix2 60 * bpow radix2 40) by (rewrite <- bpow_plus; reflexivity).
    apply Rmult_le_compat; try apply Rabs_pos; [exact Hx|].
    apply Rle_trans with (bpow radix2 30); [assumption|apply bpow_le; lia].
Qed.

Lemma fadd_correct x y : f_finite x = true -> f_finite y = true ->
  Rabs (b2r x) <= bpow radix2 60 -> Rabs (b2r y) <= bpow radix2 60 ->
  b2r (fadd x y) = rnd (b2r x + b2r y) /\ f_finite (fadd x y) = true.
Proof.
  intros Fx Fy Hx Hy. unfold fadd, b64_plus, f_finite in *.
  match goal with |- context [Bplus _ _ ?h1 ?h2 _ _ _ _] =>
    pose proof (Bplus_correct 53 1024 h1 h2 binop_nan_pl64 mode_NE x y Fx Fy) as H end.
  simpl round_mode in H; change (SpecFloat.fexp 53 1024) with (FLT_exp (-1074) 53) in H. rewrite Rlt_bool_true in H.
  - destruct H as (H1 & H2 & _). split; assumption.
  - apply rnd_small. eapply Rle_trans; [apply Rabs_triang|].
    replace (bpow radix2 100) with (bpow radix2 60 * bpow radix2 40) by (rewrite <- bpow_plus; reflexivity).
    assert (2 <= bpow radix2 40) by (change 2 with (bpow radix2 1); apply bpow_le; lia).
    assert (0 < bpow radix2 60) by apply bpow_gt_0. nra.
Qed.

Lemma fsub_correct x y : f_finite x = true -> f_finite y = true ->
  Rabs (b2r x) <= bpow radix2 60 -> Rabs (b2r y) <= bpow radix2 60 ->
  b2r (fsub x y) = rnd (b2r x - b2r y) /\ f_finite (fsub x y) = true.
Proof.
  intros Fx Fy Hx Hy. unfold fsub, b64_minus, f_finite in *.
  match goal with |- context [Bminus _ _ ?h1 ?h2 _ _ _ _] =>
    pose proof (Bminus_correct 53 1024 h1 h2 binop_nan_pl64 mode_NE x y Fx Fy) as H end.
  simpl round_mode in H; change (SpecFloat.fexp 53 1024) with (FLT_exp (-1074) 53) in H. rewrite Rlt_bool_true in H.
  - destruct H as (H1 & H2 & _). split; assumption.
  - apply rnd_small. unfold Rminus. eapply Rle_trans; [apply Rabs_triang|]. rewrite Rabs_Ropp.
    replace (bpow radix2 100) with (bpow radix2 60 * bpow radix2 40) by (rewrite <- bpow_plus; reflexivity).
    assert (2 <= bpow radix2 40) by (change 2 with (bpow radix2 1); apply bpow_le; lia).
    assert (0 < bpow radix2 60) by apply bpow_gt_0. nra.
Qed.

Lemma f_round_correct x : f_finite x = true ->
  b2r (f_round x) = IZR (ZnearestA (b2r x)) /\ f_finite (f_round x) = true.
Proof.
  intro Fx. unfold f_round, f_finite in *.
  destruct (Bnearbyint_correct 53 1024 (eq_refl _) (fun _ => nan_pl64) mode_NA x) as (H1 & H2 & _).
  rewrite H1, H2. simpl round_mode. rewrite round_FIX0. split; [reflexivity|exact Fx].
Qed.

(* ---------- the error analysis ---------- *)
Lemma abs_le_add x y : Rabs x <= Rabs y + Rabs (x - y).
Proof. replace x with (y + (x - y)) at 1 by ring. apply Rabs_triang. Qed.

Lemma core (A B ga gb S P : R) (N : Z) :
  Rabs (ga - A) <= eps * Rabs A + eta ->
  Rabs (gb - B) <= eps * Rabs B + eta ->
  Rabs (S - (ga + gb)) <= eps * Rabs (ga + gb) + eta ->
  Rabs (P - S * e9) <= eps * Rabs (S * e9) + eta ->
  (Rabs A + Rabs B) * e9 <= 1125899906842624 ->
  IZR N = (A + B) * e9 ->
  Rabs (P - IZR N) < / 2.
Proof.
  intros H1 H2 H3 H4 HM HN. rewrite HN.
  pose proof (Rabs_pos A) as PA. pose proof (Rabs_pos B) as PB.
  pose proof (abs_le_add ga A) as G1. pose proof (abs_le_add gb B) as G2.
  pose proof (Rabs_triang ga gb) as T.
  assert (D : Rabs (ga + gb - (A + B)) <= Rabs (ga - A) + Rabs (gb - B)).
  { replace (ga + gb - (A + B)) with ((ga - A) + (gb - B)) by ring. apply Rabs_triang. }
  pose proof (abs_le_add S (ga + gb)) as GS.
  assert (DS : Rabs (S - (A + B)) <= Rabs (S - (ga + gb)) + Rabs (ga + gb - (A + B))).
  { replace (S - (A + B)) with ((S - (ga + gb)) + (ga + gb - (A + B))) by ring. apply Rabs_triang. }
  assert (SE : Rabs (S * e9) = Rabs S * e9).
  { rewrite Rabs_mult. f_equal. apply Rabs_pos_eq. unfold e9. lra. }
  assert (DP : Rabs (P - (A + B) * e9) <= Rabs (P - S * e9) + Rabs (S - (A + B)) * e9).
  { replace (P - (A + B) * e9) with ((P - S * e9) + (S - (A + B)) * e9) by ring.
    eapply Rle_trans; [apply Rabs_triang|]. rewrite (Rabs_mult (S - (A + B)) e9).
    rewrite (Rabs_pos_eq e9) by (unfold e9; lra). lra. }
  rewrite SE in H4.
  pose proof (Rabs_pos (ga + gb)). pose proof (Rabs_pos S). pose proof (Rabs_pos ga). pose proof (Rabs_pos gb).
  pose proof (Rabs_pos (S - (A + B))). pose proof (Rabs_pos (ga - A)). pose proof (Rabs_pos (gb - B)).
  pose proof (Rabs_pos (S - (ga + gb))). pose proof (Rabs_pos (ga + gb - (A + B))).
  generalize dependent (Rabs (P - (A + B) * e9)). generalize dependent (Rabs (P - S * e9)).
  generalize dependent (Rabs (S - (A + B))). generalize dependent (Rabs (S - (ga + gb))).
  generalize dependent (Rabs (ga + gb - (A + B))). generalize dependent (Rabs (ga + gb)).
  generalize dependent (Rabs (ga - A)). generalize dependent (Rabs (gb - B)).
  generalize dependent (Rabs ga). generalize dependent (Rabs gb). generalize dependent (Rabs S).
  generalize dependent (Rabs A). generalize dependent (Rabs B).
  unfold eps, eta, e9. intros. nra.
Qed.

(* ---------- assembling utils.Round ---------- *)
Lemma G_correct k : (Z.abs k <= 2 ^ 50)%Z ->
  b2r (G k) = rnd (IZR k / e9) /\ f_finite (G k) = true.
Proof.
  intro Hk. destruct (f_of_Z_correct k) as [E F]; [lia|]. unfold G.
  destruct (fdiv_e9_correct (f_of_Z k) F) as [E' F'].
  - rewrite E, <- abs_IZR. apply Rle_trans with (IZR (2 ^ 50)); [apply IZR_le; exact Hk|].
    change (IZR (2 ^ 50)) with (bpow radix2 50). apply bpow_le. lia.
  - rewrite E in E'. split; assumption.
Qed.

Lemma rnd_bound x n : Rabs x <= bpow radix2 n -> (-1074 < n)%Z -> Rabs (rnd x) <= bpow radix2 n.
Proof.
  intros H Hn. apply abs_round_le_generic; [apply FLT_exp_valid; reflexivity|apply valid_rnd_N| |exact H].
  apply generic_format_bpow. unfold FLT_exp. lia.
Qed.

Lemma finish (s : f64) (ga gb A B : R) (N : Z) :
  f_finite s = true -> b2r s = rnd (ga + gb) ->
  Rabs (ga - A) <= eps * Rabs A + eta ->
  Rabs (gb - B) <= eps * Rabs B + eta ->
  Rabs ga <= bpow radix2 58 -> Rabs gb <= bpow radix2 58 ->
  (Rabs A + Rabs B) * e9 <= 1125899906842624 ->
  IZR N = (A + B) * e9 -> (Z.abs N <= 2 ^ 50)%Z ->
  cpu_is (f_round9 s) N.
Proof.
  intros Fs Es H1 H2 Ba Bb HM HN BN.
  assert (Bs : Rabs (b2r s) <= bpow radix2 60).
  { rewrite Es. apply rnd_bound; [|lia]. eapply Rle_trans; [apply Rabs_triang|].
    replace (bpow radix2 60) with (bpow radix2 58 * 4) by (change 4 with (bpow radix2 2); rewrite <- bpow_plus; reflexivity).
    assert (0 < bpow radix2 58) by apply bpow_gt_0. lra. }
  destruct (fmul_e9_correct s Fs Bs) as [Ep Fp].
  destruct (f_round_correct _ Fp) as [Eq Fq].
  assert (NR : ZnearestA (b2r (fmul s f_1e9)) = N).
  { apply Znearest_imp. rewrite Ep.
    apply (core A B ga gb (b2r s) _ N H1 H2); [rewrite Es; apply rnd_err|apply rnd_err|exact HM|exact HN]. }
  rewrite NR in Eq.
  unfold f_round9. destruct (fdiv_e9_correct _ Fq) as [Er Fr].
  - rewrite Eq, <- abs_IZR. apply Rle_trans with (IZR (2 ^ 50)); [apply IZR_le; exact BN|].
    change (IZR (2 ^ 50)) with (bpow radix2 50). apply bpow_le. lia.
  - destruct (G_correct N BN) as [EG _]. split; [exact Fr|]. rewrite Er, Eq, EG. reflexivity.
Qed.

Lemma grid_value k : (Z.abs k <= 562949953421312)%Z ->
  let A := IZR k / e9 in
  Rabs (rnd A - A) <= eps * Rabs A + eta /\ Rabs (rnd A) <= bpow radix2 58 /\ Rabs A * e9 = IZR (Z.abs k).
Proof.
  intros Hk A. split; [apply rnd_err|]. 
  assert (EA : Rabs A * e9 = IZR (Z.abs k)).
  { unfold A, Rdiv. rewrite Rabs_mult, abs_IZR. rewrite (Rabs_pos_eq (/ e9)) by (unfold e9; lra).
    unfold e9. field. }
  split; [|exact EA].
  apply rnd_bound; [|lia].
  assert (Rabs A <= IZR (Z.abs k)).
  { rewrite <- EA. pose proof (Rabs_pos A). unfold e9. nra. }
  apply Rle_trans with (IZR (Z.abs k)); [assumption|].
  apply Rle_trans with (IZR (2 ^ 58)); [apply IZR_le; lia|].
  change (IZR (2 ^ 58)) with (bpow radix2 58). lra.
Qed.

Theorem grid_add_holds : grid_add_closed.
Proof.
  intros u c a b [Fu Eu] [Fc Ec] Ha Hb Hab. unfold BND in *.
  destruct (G_correct a) as [Ga _]; [lia|]. destruct (G_correct b) as [Gb _]; [lia|].
  rewrite Ga in Eu. rewrite Gb in Ec.
  destruct (grid_value a Ha) as (A1 & A2 & A3). destruct (grid_value b Hb) as (B1 & B2 & B3).
  destruct (fadd_correct u c Fu Fc) as [Es Fs].
  - rewrite Eu. eapply Rle_trans; [exact A2|]. apply bpow_le. lia.
  - rewrite Ec. eapply Rle_trans; [exact B2|]. apply bpow_le. lia.
  - rewrite Eu, Ec in Es.
    apply (finish _ _ _ (IZR a / e9) (IZR b / e9) (a + b) Fs Es A1 B1 A2 B2).
    + rewrite Rmult_plus_distr_r, A3, B3, <- plus_IZR. apply IZR_le. lia.
    + rewrite plus_IZR. unfold e9. field.
    + lia.
Qed.

Theorem grid_sub_holds : grid_sub_closed.
Proof.
  intros u c a b [Fu Eu] [Fc Ec] Ha Hb Hab. unfold BND in *.
  destruct (G_correct a) as [Ga _]; [lia|]. destruct (G_correct b) as [Gb _]; [lia|].
  rewrite Ga in Eu. rewrite Gb in Ec.
  destruct (grid_value a Ha) as (A1 & A2 & A3). destruct (grid_value b Hb) as (B1 & B2 & B3).
  destruct (fsub_correct u c Fu Fc) as [Es Fs].
  - rewrite Eu. eapply Rle_trans; [exact A2|]. apply bpow_le. lia.
  - rewrite Ec. eapply Rle_trans; [exact B2|]. apply bpow_le. lia.
  - rewrite Eu, Ec in Es. unfold Rminus in Es.
    apply (finish _ _ _ (IZR a / e9) (- (IZR b / e9)) (a - b) Fs Es A1).
    + replace (- rnd (IZR b / e9) - - (IZR b / e9)) with (- (rnd (IZR b / e9) - IZR b / e9)) by ring.
      rewrite !Rabs_Ropp. exact B1.
    + exact A2.
    + rewrite Rabs_Ropp. exact B2.
    + rewrite Rabs_Ropp, Rmult_plus_distr_r, A3, B3, <- plus_IZR. apply IZR_le. lia.
    + rewrite minus_IZR. unfold e9. field.
    + lia.
Qed.

Theorem grid_closed_holds : grid_closed.
Proof. split; [exact grid_add_holds|exact grid_sub_holds]. Qed.

(* ---------- the CPU theorems without side hypothesis ---------- *)
From Coq Require Import List String.
From Verif Require Import Cpumem.Node Cpumem.BookProofs.
Import ListNotations.

Lemma cpu_is_zero u : f_finite u = true -> b2r u = 0 -> cpu_is u 0.
Proof.
  intros F E. split; [exact F|]. destruct (G_correct 0) as [EG _]; [simpl; lia|].
  rewrite E, EG. unfold Rdiv. rewrite Rmult_0_l. symmetry. apply round_0. apply valid_rnd_N.
Qed.

Theorem cpu_all_histories (info : node_info) (h : list op) :
  inv_valid (mkState info []) ->
  f_finite (nr_cpu (ni_usage info)) = true -> b2r (nr_cpu (ni_usage info)) = 0 ->
  Forall op_grid h -> bounded_run (mkState info []) h ->
  inv_cpu (run (mkState info []) h).
Proof.
  intros IV F E OG BR. apply (history_inv_cpu grid_closed_holds h _ OG BR IV).
  split; [|split]; simpl.
  - apply cpu_is_zero; assumption.
  - constructor.
  - unfold ktotal, zs, BND. simpl. lia.
Qed.

Theorem cpu_step (s : state) (o : op) : op_grid o -> inv_valid s -> inv_cpu s ->
  (ktotal (st_live (sr_state (step s o))) <= BND)%Z -> inv_cpu (sr_state (step s o)).
Proof. exact (step_inv_cpu grid_closed_holds s o). Qed.

Theorem cpu_rollback info ws info1 info2 K :
  cpu_is (nr_cpu (ni_usage info)) K -> (0 <= K)%Z -> (K + ktotal ws <= BND)%Z -> Forall on_grid ws ->
  set_node_resource_usage info None ws true true = inr info1 ->
  set_node_resource_usage info1 None ws true false = inr info2 ->
  cpu_is (nr_cpu (ni_usage info2)) K.
Proof. exact (incr_then_decr_cpu grid_closed_holds info ws info1 info2 K). Qed.

(* the hypotheses are satisfiable: a workload asking for 0.5 cpu is on the grid *)
Example on_grid_example :
  on_grid (mkWR (G 500000000) (G 500000000) 100 100 [] [] EmptyString).
Proof.
  unfold on_grid, kf. simpl wr_cpu_req.
  assert (E : nano (G 500000000) = 500000000%Z) by (vm_compute; reflexivity).
  rewrite E. split; [|unfold BND; lia]. split; [vm_compute; reflexivity|reflexivity].
Qed.

(* ---------- the amount in 1e-9 units is read back exactly ---------- *)
Lemma nano_of_cpu_is x k : cpu_is x k -> (0 <= k <= BND)%Z -> nano x = k.
Proof.
  intros [Fx Ex] Hk. unfold BND in Hk.
  destruct (G_correct k) as [Gk _]; [lia|]. rewrite Gk in Ex.
  destruct (grid_value k ltac:(unfold BND; lia)) as (A1 & A2 & A3).
  assert (Bx : Rabs (b2r x) <= bpow radix2 60).
  { rewrite Ex. eapply Rle_trans; [exact A2|]. apply bpow_le. lia. }
  destruct (fmul_e9_correct x Fx Bx) as [Ep Fp].
  destruct (f_round_correct _ Fp) as [Eq Fq].
  assert (Z0 : Rabs (0 - 0) <= eps * Rabs 0 + eta).
  { rewrite Rminus_0_r, Rabs_R0. unfold eps, eta. lra. }
  assert (NR : ZnearestA (b2r (fmul x f_1e9)) = k).
  { apply Znearest_imp. rewrite Ep.
    apply (core (IZR k / e9) 0 (b2r x) 0 (b2r x) _ k).
    - rewrite Ex. exact A1.
    - exact Z0.
    - rewrite Rplus_0_r, Rminus_eq_0, Rabs_R0. pose proof (Rabs_pos (b2r x)). unfold eps, eta. nra.
    - apply rnd_err.
    - rewrite Rabs_R0, Rplus_0_r, A3. apply IZR_le. lia.
    - unfold e9. field. }
  rewrite NR in Eq.
  unfold nano, f_to_int. rewrite Fq.
  pose proof (Btrunc_correct 53 1024 (eq_refl _) (f_round (fmul x f_1e9))) as T.
  rewrite Eq, round_FIX0, Ztrunc_IZR in T. apply eq_IZR in T. rewrite T.
  replace (in_int64 k) with true; [reflexivity|].
  symmetry. unfold in_int64, min_int, max_int. apply andb_true_iff. split; apply Z.leb_le; lia.
Qed.

(* a workload whose cpu request is a decimal with at most nine places (up to
   2^49 units) is on the grid *)
Lemma on_grid_of_decimal (w : wres) k : cpu_is (wr_cpu_req w) k -> (0 <= k <= BND)%Z -> on_grid w.
Proof.
  intros C Hk. unfold on_grid, kf. rewrite (nano_of_cpu_is _ k C Hk). split; assumption.
Qed.
