(* Cpumem/BookFixProofs.v — C15: FixNodeResource leaves the usage equal to the
   sum of the recorded workloads, after which the check reports no differences. *)
From Coq Require Import String Ascii List ZArith Bool Lia Lra Reals.
From Flocq Require Import Core IEEE754.BinarySingleNaN IEEE754.Binary IEEE754.Bits.
From Verif Require Import Base.GoInt Base.GoFloat Cpumem.Types Cpumem.Node Cpumem.BookProofs
  Cpumem.BookRemapProofs Cpumem.BookCpuProofs Cpumem.BookGridProofs.
Import ListNotations.
Local Open Scope Z_scope.

(* ---------- the recomputed sum (actuallyWorkloadsUsage) ---------- *)
Lemma fold_add_cpumap ws : forall w0 k,
  lookup 0 (wr_cpumap (fold_left wr_add ws w0)) k = lookup 0 (wr_cpumap w0) k + zs (fun w => msum (wr_cpumap w) k) ws.
Proof.
  unfold zs. induction ws as [|w t IH]; intros w0 k; simpl; [lia|].
  rewrite IH. simpl. rewrite cpumap_add_lookup. lia.
Qed.

Lemma fold_add_mem ws : forall w0, wr_mem_req (fold_left wr_add ws w0) = wr_mem_req w0 + zs wr_mem_req ws.
Proof.
  unfold zs. induction ws as [|w t IH]; intros w0; simpl; [lia|]. rewrite IH. simpl. lia.
Qed.

Lemma fold_add_numamem ws : forall w0 k, Forall wf_wres ws ->
  lookup 0 (wr_numamem (fold_left wr_add ws w0)) k = lookup 0 (wr_numamem w0) k + zs (fun w => lookup 0 (wr_numamem w) k) ws.
Proof.
  unfold zs. induction ws as [|w t IH]; intros w0 k WF; simpl; [lia|].
  inversion WF as [|? ? [_ Hw] WF']; subst. rewrite IH by exact WF'. simpl.
  destruct (wr_numamem w0) as [|e l] eqn:E.
  - replace (lookup 0 (@nil (string * Z)) k) with 0 by reflexivity. lia.
  - rewrite cpumap_add_lookup, msum_lookup by exact Hw. lia.
Qed.

Lemma fold_add_numamem_keys ws : forall w0 k,
  In k (keys (wr_numamem (fold_left wr_add ws w0))) ->
  In k (keys (wr_numamem w0)) \/ exists w, In w ws /\ In k (keys (wr_numamem w)).
Proof.
  induction ws as [|w t IH]; intros w0 k H; simpl in *; [auto|].
  destruct (IH _ _ H) as [H1|[w' [I1 I2]]].
  - simpl in H1. destruct (wr_numamem w0) as [|e l] eqn:E.
    + right. exists w. auto.
    + assert (G : forall c1 c, In k (keys (cpumap_add c c1)) -> In k (keys c) \/ In k (keys c1)).
      { unfold cpumap_add. induction c1 as [|[k1 v1] c1 IHc]; intros c Hc; simpl in *; [auto|].
        destruct (IHc _ Hc) as [Hc'|Hc']; [|auto].
        apply keys_upd_in in Hc'. destruct Hc' as [->|Hc']; auto. }
      destruct (G _ _ H1) as [G1|G1]; [left; exact G1|right; exists w; auto].
  - right. exists w'. auto.
Qed.

Definition act_usage (ws : list wres) : node_resource :=
  let act := sum_workloads ws in
  mkNR (wr_cpu_req act) (wr_cpumap act) (wr_mem_req act) (wr_numamem act) [].

Lemma act_exact ws : Forall wf_wres ws -> usage_exact_int (act_usage ws) ws.
Proof.
  intro WF. unfold usage_exact_int, act_usage, sum_workloads.
  cbn [nr_cpumap nr_numamem nr_mem wr_cpumap wr_numamem wr_mem_req]. split; [|split].
  - intro k. rewrite fold_add_cpumap.
    replace (lookup 0 (wr_cpumap wr_zero) k) with 0 by reflexivity.
    rewrite (zs_msum_lookup wr_cpumap) by (apply wf_cpumaps; exact WF). lia.
  - intro k. rewrite fold_add_numamem by exact WF.
    replace (lookup 0 (wr_numamem wr_zero) k) with 0 by reflexivity. lia.
  - rewrite fold_add_mem. replace (wr_mem_req wr_zero) with 0 by reflexivity. lia.
Qed.

(* ---------- hypotheses of C15 ---------- *)
(* the recorded workloads fit the capacity: Validate accepts their sum as usage,
   and they name only NUMA nodes the capacity knows *)
Definition fits (cap : node_resource) (ws : list wres) : Prop :=
  (exists i, validate (mkNI cap (act_usage ws)) = inr i) /\
  (forall w k, In w ws -> In k (keys (wr_numamem w)) -> In k (keys (nr_numamem cap))).

(* drift is arbitrary in the values, but (as Validate enforces on every write)
   the usage only mentions cores and NUMA nodes of the capacity *)
Definition usage_keys_in_cap (info : node_info) : Prop :=
  (forall c, In c (keys (nr_cpumap (ni_usage info))) -> In c (keys (nr_cpumap (ni_cap info)))) /\
  (forall n, In n (keys (nr_numamem (ni_usage info))) -> In n (keys (nr_numamem (ni_cap info)))).

(* the recomputed cpu total is a fixed point of utils.Round (true on the
   decimal grid, see cpu_stable_on_grid below) *)
Definition cpu_stable (ws : list wres) : Prop :=
  feq (wr_cpu_req (sum_workloads ws)) (f_round9 (wr_cpu_req (sum_workloads ws))) = true.

Lemma filter_nil_forall {A} (p : A -> bool) l : filter p l = [] -> forall x, In x l -> p x = false.
Proof.
  induction l as [|y t IH]; simpl; intros H x I; [tauto|].
  destruct (p y) eqn:E; [discriminate|]. destruct I as [<-|I]; [exact E|apply IH; assumption].
Qed.
Lemma filter_same_nil {A} (l : list A) (p : A -> bool) : (forall x, p x = false) -> filter p l = [].
Proof. intro H. induction l as [|y t IH]; simpl; [reflexivity|]. rewrite H. exact IH. Qed.

Lemma in_keys_entry {V} (m : smap V) k : In k (keys m) -> exists v, In (k, v) m.
Proof.
  unfold keys. intro H. apply in_map_iff in H. destruct H as [[k' v] [E I]]. simpl in E. subst. eauto.
Qed.

(* the check finds nothing right after the usage was set to the recomputed sum *)
Lemma no_diffs_after_fix cap ws : cpu_stable ws ->
  no_diffs (get_diffs (mkNI cap (act_usage ws)) ws) = true.
Proof.
  intro CS. unfold get_diffs, no_diffs.
  cbn [ni_usage ni_cap d_cpu d_cores d_numa d_mem]. unfold act_usage.
  cbn [nr_cpu nr_cpumap nr_mem nr_numamem].
  rewrite CS. cbn [negb andb].
  rewrite filter_same_nil by (intro x; rewrite Z.eqb_refl; reflexivity).
  rewrite filter_same_nil by (intro x; rewrite Z.eqb_refl; reflexivity).
  rewrite Z.eqb_refl. reflexivity.
Qed.

Theorem fix_spec info ws :
  Forall wf_wres ws -> usage_keys_in_cap info -> fits (ni_cap info) ws -> cpu_stable ws ->
  let '(info', resp, d, failed) := fix_node_resource info ws in
  failed = false /\ ni_cap info' = ni_cap info /\ resp = ni_usage info' /\
  usage_exact_int (ni_usage info') ws /\
  feq (wr_cpu_req (sum_workloads ws)) (f_round9 (nr_cpu (ni_usage info'))) = true /\
  no_diffs (get_diffs info' ws) = true.
Proof.
  intros WF [KC KN] [[i V] FN] CS. unfold fix_node_resource.
  destruct (no_diffs (get_diffs info ws)) eqn:ND.
  - (* nothing to repair: the compared components were already equal *)
    split; [reflexivity|split; [reflexivity|split; [reflexivity|]]].
    unfold no_diffs, get_diffs in ND. simpl in ND.
    apply andb_true_iff in ND. destruct ND as [ND Dm]. apply andb_true_iff in ND. destruct ND as [ND Dn].
    apply andb_true_iff in ND. destruct ND as [Dc Dk].
    apply negb_true_iff, negb_false_iff in Dc. apply negb_true_iff, negb_false_iff, Z.eqb_eq in Dm.
    destruct (filter _ (nr_cpumap (ni_cap info))) eqn:Fk; [|discriminate].
    destruct (filter _ (nr_numamem (ni_cap info))) eqn:Fn; [|discriminate].
    pose proof (act_exact ws WF) as (AC & AN & AM). unfold act_usage in AC, AN, AM. simpl in AC, AN, AM.
    pose proof (validate_usage_keys _ _ V) as AK. simpl in AK.
    split; [|split; [exact Dc|]].
    + split; [|split].
      * intro k. rewrite <- AC.
        destruct (in_dec string_dec k (keys (nr_cpumap (ni_cap info)))) as [I|NI].
        -- destruct (in_keys_entry _ _ I) as [v Iv].
           pose proof (filter_nil_forall _ _ Fk _ Iv) as P. simpl in P.
           apply negb_false_iff, Z.eqb_eq in P. lia.
        -- rewrite (lookup_notin (nr_cpumap (ni_usage info))) by (intro H; apply NI, KC, H).
           rewrite lookup_notin; [reflexivity|]. intro H. apply NI, AK, H.
      * intro k. rewrite <- AN.
        destruct (in_dec string_dec k (keys (nr_numamem (ni_cap info)))) as [I|NI].
        -- destruct (in_keys_entry _ _ I) as [v Iv].
           pose proof (filter_nil_forall _ _ Fn _ Iv) as P. simpl in P.
           apply negb_false_iff, Z.eqb_eq in P. lia.
        -- rewrite (lookup_notin (nr_numamem (ni_usage info))) by (intro H; apply NI, KN, H).
           rewrite lookup_notin; [reflexivity|]. intro H.
           unfold sum_workloads in H. simpl in H.
           destruct (fold_add_numamem_keys _ _ _ H) as [H1|[w [I1 I2]]]; [simpl in H1; tauto|].
           apply NI. eapply FN; eassumption.
      * rewrite Dm. exact AM.
    + unfold no_diffs, get_diffs. simpl. rewrite Dc, Fk, Fn. simpl.
      apply Z.eqb_eq in Dm. rewrite Dm. reflexivity.
  - (* repaired: usage := recomputed sum, stored after Validate *)
    fold (act_usage ws). rewrite V. apply validate_inr in V. subst i.
    split; [reflexivity|split; [reflexivity|split; [reflexivity|]]]. simpl.
    split; [apply act_exact; exact WF|]. split; [exact CS|].
    apply no_diffs_after_fix. exact CS.
Qed.

(* ---------- cpu_stable holds on the decimal grid ---------- *)
Lemma round9_idem u k : cpu_is u k -> (Z.abs k <= BND)%Z -> cpu_is (f_round9 u) k.
Proof.
  intros [Fu Eu] Hk. unfold BND in Hk.
  destruct (G_correct k) as [Gk _]; [lia|]. rewrite Gk in Eu.
  destruct (grid_value k Hk) as (A1 & A2 & A3).
  assert (Z0 : (Rabs (0 - 0) <= eps * Rabs 0 + eta)%R).
  { rewrite Rminus_0_r, Rabs_R0. unfold eps, eta. lra. }
  apply (finish u (rnd (IZR k / e9)) 0%R (IZR k / e9) 0%R k Fu).
  - rewrite Eu, Rplus_0_r. symmetry. apply round_generic; [apply valid_rnd_N|].
    apply generic_format_round; [apply FLT_exp_valid; reflexivity|apply valid_rnd_N].
  - exact A1.
  - exact Z0.
  - exact A2.
  - rewrite Rabs_R0. apply bpow_ge_0.
  - rewrite Rabs_R0, Rplus_0_r, A3. apply IZR_le. lia.
  - unfold e9. field.
  - lia.
Qed.

Lemma feq_of_cpu_is u v k : cpu_is u k -> cpu_is v k -> feq u v = true.
Proof.
  intros [Fu Eu] [Fv Ev]. unfold feq, f_finite in *.
  rewrite (Bcompare_correct 53 1024 u v Fu Fv), Eu, Ev, Rcompare_Eq; reflexivity.
Qed.

Lemma fold_add_cpu ws : forall w0 K, Forall on_grid ws ->
  cpu_is (wr_cpu_req w0) K -> (0 <= K)%Z -> (K + ktotal ws <= BND)%Z ->
  cpu_is (wr_cpu_req (fold_left wr_add ws w0)) (K + ktotal ws).
Proof.
  unfold ktotal, zs. induction ws as [|w t IH]; intros w0 K Hg Hu HK HB; simpl.
  - rewrite Z.add_0_r. exact Hu.
  - inversion Hg as [|? ? [Hw [Hw0 Hw1]] Hg']; subst.
    pose proof (ktotal_nonneg t Hg') as Ht. unfold ktotal, zs in Ht. simpl in HB.
    replace (K + (kf w + fold_right Z.add 0 (map kf t))) with ((K + kf w) + fold_right Z.add 0 (map kf t)) by lia.
    apply IH; [exact Hg'| |lia|lia].
    simpl. apply grid_add_holds; [exact Hu|exact Hw|lia|lia|lia].
Qed.

Theorem cpu_stable_on_grid ws : Forall on_grid ws -> (ktotal ws <= BND)%Z -> cpu_stable ws.
Proof.
  intros Hg HB. unfold cpu_stable, sum_workloads. simpl.
  pose proof (ktotal_nonneg ws Hg) as H0.
  assert (C : cpu_is (wr_cpu_req (fold_left wr_add ws wr_zero)) (0 + ktotal ws)).
  { apply fold_add_cpu; [exact Hg| |lia|lia]. simpl. apply cpu_is_zero; [reflexivity|].
    unfold f_zero. apply (f_of_Z_correct 0). simpl. lia. }
  rewrite Z.add_0_l in C.
  assert (C1 : cpu_is (f_round9 (wr_cpu_req (fold_left wr_add ws wr_zero))) (ktotal ws)) by (apply round9_idem; [exact C|lia]).
  apply (feq_of_cpu_is _ _ (ktotal ws)); [exact C1|]. apply round9_idem; [exact C1|lia].
Qed.

(* C15 as stated: repair, then the check is clean and the usage is the sum *)
Theorem fix_then_clean info ws :
  Forall wf_wres ws -> Forall on_grid ws -> (ktotal ws <= BND)%Z ->
  usage_keys_in_cap info -> fits (ni_cap info) ws ->
  let '(info', resp, d, failed) := fix_node_resource info ws in
  failed = false /\ ni_cap info' = ni_cap info /\
  usage_exact_int (ni_usage info') ws /\
  feq (wr_cpu_req (sum_workloads ws)) (f_round9 (nr_cpu (ni_usage info'))) = true /\
  no_diffs (get_diffs info' ws) = true.
Proof.
  intros WF OG HB KI FT.
  pose proof (fix_spec info ws WF KI FT (cpu_stable_on_grid ws OG HB)) as H.
  destruct (fix_node_resource info ws) as [[[info' resp] d] failed].
  destruct H as (H1 & H2 & _ & H4 & H5 & H6). auto.
Qed.
