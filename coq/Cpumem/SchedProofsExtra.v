(* Cpumem/SchedProofsExtra.v — C05 for arbitrary float requests: every plan
   totals exactly the piece count int(math.Round(request * base)), i.e. the
   request times the share base to the nearest piece. *)
From Coq Require Import String Ascii List ZArith Bool Lia Permutation.
From Verif Require Import Base.GoInt Base.GoFloat.
From Verif Require Import Cpumem.Types Cpumem.Schedule Cpumem.Calc Cpumem.SchedCase.
From Verif Require Import Cpumem.SchedProofs Cpumem.SchedProofsFit Cpumem.SchedProofsFit2 Cpumem.SchedProofsTop.
Import ListNotations.
Local Open Scope Z_scope.

Section Extra.
Variable sortf : list keyed -> outcome (list keyed).
Hypothesis sortf_perm : forall l, exists l', sortf l = Ok l' /\ Permutation l' l.

Theorem plans_total_nearest info origin base mf req order fuel plans :
  get_cpu_plans_g sortf info origin base mf req order fuel = Ok plans ->
  wf_maps info -> NoDup order -> 0 < base ->
  forall tp, In tp plans ->
    let pr := pieces_request base (rq_cpu_req req) in
    0 < pr /\ total_pieces (snd tp) = pr /\ c05_plan_ok base pr (snd tp) = true.
Proof.
  intros H Wf Nd Hb tp Hin. cbv zeta.
  destruct (get_cpu_plans_content sortf sortf_perm _ _ _ _ _ _ _ _ H Hb (proj2 Wf) Nd (avail_nodup info Wf)) as (_ & _ & Sh).
  destruct (Sh tp Hin) as (IDS & Hpr & Sp).
  pose proof (shape_c05_ok base _ IDS (snd tp) Hb Hpr Sp) as Ok5.
  split; auto. split; auto.
  unfold c05_plan_ok in Ok5. cbv zeta in Ok5.
  apply andb_true_iff in Ok5. destruct Ok5 as [Ok5 _]. apply andb_true_iff in Ok5. destruct Ok5 as [Ok5 _].
  apply andb_true_iff in Ok5. destruct Ok5 as [Ok5 _]. apply Z.eqb_eq in Ok5. exact Ok5.
Qed.
End Extra.
