(* Cpumem/SchedProofsCalc.v — totality of CalculateDeploy and doGetNodeDeployCapacity
   (the callers of GetCPUPlans), for any permuting final sort. *)
From Coq Require Import String Ascii List ZArith Bool Lia Permutation.
From Verif Require Import Base.GoInt Base.GoFloat Cpumem.Types Cpumem.Schedule Cpumem.Calc Cpumem.SchedProofs.
Import ListNotations.
Local Open Scope Z_scope.

Section Generic.
Variable sortf : list keyed -> outcome (list keyed).
Hypothesis sortf_perm : forall l, exists l', sortf l = Ok l' /\ Permutation l' l.

Theorem calculate_deploy_total info base maxshare count raw order fuel :
  0 < base -> 0 <= count -> (default_fuel info <= fuel)%nat ->
  exists r, calculate_deploy_g sortf info base maxshare count raw order fuel = Ok r.
Proof.
  intros Hb Hc Hf. unfold calculate_deploy_g.
  destruct (wreq_validate raw) as [[|]|req]; eauto.
  destruct (negb (rq_bind req)); eauto.
  unfold do_alloc_by_cpu_g.
  destruct (get_cpu_plans_total sortf sortf_perm info [] base maxshare req order fuel Hb Hf) as (plans & E & _).
  rewrite E. cbn [bind].
  destruct (Z.of_nat (length plans) <? count); eauto.
  replace (count <? 0) with false by (symmetry; apply Z.ltb_ge; lia). eauto.
Qed.

Theorem node_capacity_total info base maxshare req order fuel :
  0 < base -> (default_fuel info <= fuel)%nat ->
  exists c, node_capacity_g sortf info base maxshare req order fuel = Ok c.
Proof.
  intros Hb Hf. unfold node_capacity_g.
  destruct (negb (rq_bind req)).
  - destruct (fgt _ _); eauto. destruct (rq_mem_req req =? 0); eauto.
  - destruct (get_cpu_plans_total sortf sortf_perm info [] base maxshare req order fuel Hb Hf) as (plans & E & _).
    rewrite E. cbn [bind]. eauto.
Qed.
End Generic.

Lemma get_cpu_plans_total' : forall sortf,
  (forall l, exists l', sortf l = Ok l' /\ Permutation l' l) ->
  forall info origin base maxfrag req numa_order fuel,
  0 < base -> (default_fuel info <= fuel)%nat ->
  exists plans, get_cpu_plans_g sortf info origin base maxfrag req numa_order fuel = Ok plans.
Proof.
  intros sortf Hs info origin base maxfrag req order fuel Hb Hf.
  destruct (get_cpu_plans_total sortf Hs info origin base maxfrag req order fuel Hb Hf) as (p & E & _).
  exists p; exact E.
Qed.

Lemma get_cpu_plans_total_model : forall info origin base maxfrag req numa_order,
  0 < base ->
  exists plans, get_cpu_plans info origin base maxfrag req numa_order (default_fuel info) = Ok plans.
Proof.
  intros. apply (get_cpu_plans_total' sort_exact sort_exact_perm); auto.
Qed.

(* the hypotheses are satisfiable and the conclusion is not vacuous: a 2-core node, request 1.5 *)
Example total_example :
  get_cpu_plans (mkNI (mkNR f_zero [("0", 100); ("1", 100)]%string 0 [] []) nr_empty) [] 100 (-1)
                (mkReq true false (fb 4609434218613702656) (fb 4609434218613702656) 0 0) [] 201
  = Ok [(EmptyString, [("1", 100); ("0", 50)]%string)].
Proof. vm_compute. reflexivity. Qed.

Section Realloc.
Variable sortf : list keyed -> outcome (list keyed).
Hypothesis sortf_perm : forall l, exists l', sortf l = Ok l' /\ Permutation l' l.
Theorem calculate_realloc_total info base maxshare origin raw order fuel :
  0 < base -> (default_fuel (realloc_info info origin) <= fuel)%nat ->
  exists r, calculate_realloc_g sortf info base maxshare origin raw order fuel = Ok r.
Proof.
  intros Hb Hf. unfold calculate_realloc_g. fold (realloc_info info origin).
  destruct (wreq_validate _) as [[|]|req]; eauto.
  destruct (if rq_keep raw then _ else _).
  - destruct (get_cpu_plans_total sortf sortf_perm (realloc_info info origin) (wr_cpumap origin) base maxshare req order fuel Hb Hf) as (plans & E & _).
    rewrite E. cbn [bind]. destruct plans; eauto.
  - destruct (do_alloc_by_memory _ _ _); eauto.
Qed.
End Realloc.
