(* Cpumem/BookFitsProofs.v — the hypothesis [fits] of C15 holds for the live set
   of every C08 history: the sum of the live workloads passes Validate against
   the capacity (because the stored usage does and has the same lookups). *)
From Coq Require Import String Ascii List ZArith Bool Lia.
From Verif Require Import Base.GoInt Base.GoFloat Cpumem.Types Cpumem.Node Cpumem.BookProofs
  Cpumem.BookRemapProofs Cpumem.BookCpuProofs Cpumem.BookGridProofs Cpumem.BookFixProofs.
Import ListNotations.
Local Open Scope Z_scope.

(* ---------- key sets only grow ---------- *)
Lemma cpumap_add_keys_l c1 : forall c k, In k (keys c) -> In k (keys (cpumap_add c c1)).
Proof.
  unfold cpumap_add. induction c1 as [|[k1 v1] t IH]; intros c k H; simpl; [exact H|].
  apply IH. apply keys_upd_in. auto.
Qed.
Lemma cpumap_add_keys_r c1 : forall c k, In k (keys c1) -> In k (keys (cpumap_add c c1)).
Proof.
  unfold cpumap_add. induction c1 as [|[k1 v1] t IH]; intros c k H; simpl in *; [tauto|].
  destruct H as [<-|H]; [|apply IH; exact H].
  apply (cpumap_add_keys_l t). apply keys_upd_in. auto.
Qed.
Lemma cpumap_sub_keys_l c1 : forall c k, In k (keys c) -> In k (keys (cpumap_sub c c1)).
Proof.
  unfold cpumap_sub. induction c1 as [|[k1 v1] t IH]; intros c k H; simpl; [exact H|].
  apply IH. apply keys_upd_in. auto.
Qed.
Lemma cpumap_sub_keys_r c1 : forall c k, In k (keys c1) -> In k (keys (cpumap_sub c c1)).
Proof.
  unfold cpumap_sub. induction c1 as [|[k1 v1] t IH]; intros c k H; simpl in *; [tauto|].
  destruct H as [<-|H]; [|apply IH; exact H].
  apply (cpumap_sub_keys_l t). apply keys_upd_in. auto.
Qed.

Lemma add_all_keys_l ws : forall u k, In k (keys (nr_cpumap u)) -> In k (keys (nr_cpumap (add_all u ws))).
Proof.
  unfold add_all. induction ws as [|w t IH]; intros u k H; simpl; [exact H|].
  apply IH. simpl. apply cpumap_add_keys_l. exact H.
Qed.
Lemma add_all_keys_r ws : forall u w k, In w ws -> In k (keys (wr_cpumap w)) -> In k (keys (nr_cpumap (add_all u ws))).
Proof.
  unfold add_all. induction ws as [|w0 t IH]; intros u w k I H; simpl in *; [tauto|].
  destruct I as [->|I]; [|eapply IH; eassumption].
  apply (add_all_keys_l t). simpl. apply cpumap_add_keys_r. exact H.
Qed.
Lemma sub_all_keys_l ws : forall u k, In k (keys (nr_cpumap u)) -> In k (keys (nr_cpumap (sub_all u ws))).
Proof.
  unfold sub_all. induction ws as [|w t IH]; intros u k H; simpl; [exact H|].
  apply IH. simpl. apply cpumap_sub_keys_l. exact H.
Qed.
Lemma sub_all_keys_r ws : forall u w k, In w ws -> In k (keys (wr_cpumap w)) -> In k (keys (nr_cpumap (sub_all u ws))).
Proof.
  unfold sub_all. induction ws as [|w0 t IH]; intros u w k I H; simpl in *; [tauto|].
  destruct I as [->|I]; [|eapply IH; eassumption].
  apply (sub_all_keys_l t). simpl. apply cpumap_sub_keys_r. exact H.
Qed.

(* ---------- every core of a live workload has an entry in the usage ---------- *)
Definition known_in (u : node_resource) (w : wres) : Prop :=
  forall k, In k (keys (wr_cpumap w)) -> In k (keys (nr_cpumap u)).
Definition inv_keys (s : state) : Prop := Forall (known_in (ni_usage (st_info s))) (st_live s).

Lemma commit_keys_mono s ws incr live' k :
  In k (keys (nr_cpumap (ni_usage (st_info s)))) ->
  In k (keys (nr_cpumap (ni_usage (st_info (sr_state (commit s ws incr live')))))).
Proof.
  intro H. unfold commit, set_node_resource_usage, calculate_node_resource.
  destruct (validate _) as [e|i] eqn:V; simpl; [exact H|].
  apply validate_inr in V. subst i. simpl. destruct incr.
  - apply (add_all_keys_l ws). exact H.
  - apply (sub_all_keys_l ws). exact H.
Qed.

Lemma Forall_known_mono (u u' : node_resource) l :
  (forall k, In k (keys (nr_cpumap u)) -> In k (keys (nr_cpumap u'))) ->
  Forall (known_in u) l -> Forall (known_in u') l.
Proof. intros M. apply Forall_impl. intros w H k I. apply M, H, I. Qed.

Lemma step_keys o : forall s, inv_valid s -> inv_keys s -> inv_keys (sr_state (step s o)).
Proof.
  induction o as [|ws|idxs|i|i req new|i origin|inner IH]; intros s IV IK; unfold inv_keys in *.
  - exact IK.
  - (* alloc *) simpl. destruct (sr_err (commit s ws true (st_live s ++ ws))) eqn:E.
    + rewrite commit_err_state by exact E. exact IK.
    + destruct (commit_usage_incr s ws _ _ eq_refl E) as [U L]. rewrite U, L. apply Forall_app. split.
      * eapply Forall_known_mono; [|exact IK]. intros k. apply add_all_keys_l.
      * apply Forall_forall. intros w I k Hk. eapply add_all_keys_r; eassumption.
  - (* release *) simpl.
    set (sel := select_idxs (st_live s) idxs 0). set (rem := remove_idxs (st_live s) idxs 0).
    destruct (sr_err (commit s sel false rem)) eqn:E.
    + rewrite commit_err_state by exact E. exact IK.
    + destruct (commit_usage_decr s sel _ _ eq_refl E) as [U L]. rewrite U, L.
      eapply Forall_known_mono; [intros k; apply sub_all_keys_l|]. apply Forall_remove. exact IK.
  - exact IK.
  - (* realloc *) simpl. destruct (nth_error (st_live s) i) as [origin|] eqn:N; simpl; [|exact IK].
    set (d := realloc_delta new origin).
    destruct (sr_err (commit s [d] true (replace_nth (st_live s) i new))) eqn:E.
    + rewrite commit_err_state by exact E. exact IK.
    + destruct (commit_usage_incr s [d] _ _ eq_refl E) as [U L]. rewrite U, L.
      apply Forall_replace.
      * eapply Forall_known_mono; [intros k; apply add_all_keys_l|exact IK].
      * intros k Hk. apply (add_all_keys_r [d] _ d); [simpl; auto|].
        unfold d, realloc_delta, wr_deepcopy, wr_sub. simpl. apply cpumap_sub_keys_l. exact Hk.
  - (* rollback realloc *) simpl. destruct (nth_error (st_live s) i) as [cur|] eqn:N; simpl; [|exact IK].
    set (d := realloc_delta cur origin).
    destruct (sr_err (commit s [d] false (replace_nth (st_live s) i origin))) eqn:E.
    + rewrite commit_err_state by exact E. exact IK.
    + destruct (commit_usage_decr s [d] _ _ eq_refl E) as [U L]. rewrite U, L.
      apply Forall_replace.
      * eapply Forall_known_mono; [intros k; apply sub_all_keys_l|exact IK].
      * intros k Hk. apply (sub_all_keys_r [d] _ d); [simpl; auto|].
        unfold d, realloc_delta, wr_deepcopy, wr_sub. simpl. apply cpumap_sub_keys_r. exact Hk.
  - (* failed commit *)
    destruct (failed_commit_state s inner IV) as (_ & L & [E|E]); rewrite L, E; [exact IK|].
    destruct IV as (_ & NC & NN). destruct (written_back_maps _ NC NN) as (M1 & _ & _).
    eapply Forall_known_mono; [|exact IK]. intros k H. cbn [ni_usage]. rewrite M1. exact H.
Qed.

Lemma run_keys h : forall s, inv_valid s -> inv_keys s -> inv_keys (run s h).
Proof.
  unfold run. induction h as [|o t IH]; intros s IV IK; simpl; [exact IK|].
  apply IH; [apply step_valid; exact IV|apply step_keys; assumption].
Qed.

Lemma existsb_ext' {A} (f g : A -> bool) l : (forall a, f a = g a) -> existsb f l = existsb g l.
Proof. intro H. induction l as [|x t IH]; simpl; [reflexivity|]. rewrite H, IH. reflexivity. Qed.

(* ---------- Validate only looks at lookups ---------- *)
Lemma entry_lookup (m : smap Z) k v : NoDup (keys m) -> In (k, v) m -> lookup 0 m k = v.
Proof. intros ND I. apply lookup_of_opt. apply lookup_opt_in; assumption. Qed.

Lemma validate_pointwise cap u u2 :
  (exists i, validate (mkNI cap u) = inr i) ->
  NoDup (keys (nr_cpumap u)) -> NoDup (keys (nr_cpumap u2)) ->
  (forall k, In k (keys (nr_cpumap u2)) -> In k (keys (nr_cpumap u))) ->
  (forall k, lookup 0 (nr_cpumap u2) k = lookup 0 (nr_cpumap u) k) ->
  (forall k, lookup 0 (nr_numamem u2) k = lookup 0 (nr_numamem u) k) ->
  validate (mkNI cap u2) = inr (mkNI cap u2).
Proof.
  intros [i V] NU NU2 SUB LC LN. unfold validate in *. simpl in *.
  destruct (nr_cpumap cap) as [|e t] eqn:EC; [discriminate|].
  destruct (usage_cpu_ok (e :: t) (nr_cpumap u)) eqn:OK; simpl in V; [|discriminate].
  assert (OK2 : usage_cpu_ok (e :: t) (nr_cpumap u2) = true).
  { unfold usage_cpu_ok in *. rewrite forallb_forall in *. intros [k v] I. cbn [fst snd].
    assert (Ik : In k (keys (nr_cpumap u))) by (apply SUB; unfold keys; change k with (fst (k, v)); now apply in_map).
    destruct (in_keys_entry _ _ Ik) as [v' Iv'].
    specialize (OK _ Iv'). cbn [fst snd] in OK.
    rewrite <- (entry_lookup _ _ _ NU2 I), LC, (entry_lookup _ _ _ NU Iv'). exact OK. }
  rewrite OK2. simpl.
  destruct (nr_numa cap); [reflexivity|].
  destruct (numa_cpu_fault cap); [discriminate|].
  destruct (numa_mem_fault1 cap); [discriminate|]. simpl in *.
  unfold numa_mem_fault2 in *. simpl in *.
  replace (existsb _ (nr_numamem cap)) with false; [reflexivity|].
  destruct (existsb _ (nr_numamem cap)) eqn:X in V; [discriminate|]. rewrite <- X.
  apply existsb_ext'. intros kv. rewrite LN. reflexivity.
Qed.

(* ---------- the link ---------- *)
Lemma fold_add_cpumap_nodup ws : forall w0, NoDup (keys (wr_cpumap w0)) -> NoDup (keys (wr_cpumap (fold_left wr_add ws w0))).
Proof.
  induction ws as [|w t IH]; intros w0 H; simpl; [exact H|]. apply IH. simpl. apply cpumap_add_nodup. exact H.
Qed.
Lemma fold_add_cpumap_keys ws : forall w0 k, In k (keys (wr_cpumap (fold_left wr_add ws w0))) ->
  In k (keys (wr_cpumap w0)) \/ exists w, In w ws /\ In k (keys (wr_cpumap w)).
Proof.
  induction ws as [|w t IH]; intros w0 k H; simpl in *; [auto|].
  destruct (IH _ _ H) as [H1|[w' [I1 I2]]].
  - simpl in H1.
    assert (G : forall c1 c, In k (keys (cpumap_add c c1)) -> In k (keys c) \/ In k (keys c1)).
    { unfold cpumap_add. induction c1 as [|[k1 v1] c1 IHc]; intros c Hc; simpl in *; [auto|].
      destruct (IHc _ Hc) as [Hc'|Hc']; [|auto].
      apply keys_upd_in in Hc'. destruct Hc' as [->|Hc']; auto. }
    destruct (G _ _ H1) as [G1|G1]; [left; exact G1|right; exists w; auto].
  - right. exists w'. auto.
Qed.

(* the live set of a state satisfying the C08 invariants fits the capacity; the
   only part that does not follow from the invariants is that the scheduler
   names NUMA nodes of the capacity (Validate never checks it) *)
Theorem live_fits (s : state) :
  inv_valid s -> inv_int s -> inv_keys s ->
  (forall w k, In w (st_live s) -> In k (keys (wr_numamem w)) -> In k (keys (nr_numamem (ni_cap (st_info s))))) ->
  fits (ni_cap (st_info s)) (st_live s).
Proof.
  intros (V & NC & NN) [(EC & EN & EM) WF] IK NK. split; [|exact NK].
  eexists. apply (validate_pointwise (ni_cap (st_info s)) (ni_usage (st_info s))).
  - exists (st_info s). destruct (st_info s); exact V.
  - exact NC.
  - unfold act_usage, sum_workloads. cbn [nr_cpumap wr_cpumap]. apply fold_add_cpumap_nodup. simpl. constructor.
  - intros k H. unfold act_usage, sum_workloads in H. cbn [nr_cpumap wr_cpumap] in H.
    destruct (fold_add_cpumap_keys _ _ _ H) as [H0|[w [I Hk]]]; [simpl in H0; tauto|].
    unfold inv_keys in IK. rewrite Forall_forall in IK. exact (IK w I k Hk).
  - intro k. destruct (act_exact (st_live s) WF) as (AC & _ & _). rewrite AC, EC. reflexivity.
  - intro k. destruct (act_exact (st_live s) WF) as (_ & AN & _). rewrite AN, EN. reflexivity.
Qed.

(* after any history from a valid empty node *)
Theorem live_fits_after_history (info : node_info) (h : list op) :
  inv_valid (mkState info []) -> usage_zero (ni_usage info) -> Forall op_wf h ->
  let s := run (mkState info []) h in
  (forall w k, In w (st_live s) -> In k (keys (wr_numamem w)) -> In k (keys (nr_numamem (ni_cap info)))) ->
  fits (ni_cap info) (st_live s).
Proof.
  intros IV (Zc & Zn & Zm) WF s NK.
  assert (I0 : inv_int (mkState info [])) by (split; [split; [|split]; simpl; auto|constructor]).
  destruct (history_inv_int h (mkState info []) WF IV I0) as [II IV'].
  assert (IK : inv_keys s) by (apply run_keys; [exact IV|constructor]).
  assert (CAP : ni_cap (st_info s) = ni_cap info) by (apply (run_cap h (mkState info []))).
  rewrite <- CAP. apply live_fits; try assumption. rewrite CAP. exact NK.
Qed.
