(* Cpumem/Node.v — model of the cpumem plugin's node-state bookkeeping
   (resource/plugins/cpumem/node.go, calculate.go, types/workload.go) and of
   the cobalt wrappers that drive it (resource/cobalt/alloc.go, realloc.go,
   node.go:SetNodeResourceUsage, remap.go).  Executable, no proofs.

   The plugin keeps one record per node in its etcd: NodeResourceInfo =
   {Capacity, Usage}.  Every operation below reads that record, computes, and
   (for the mutating ones) writes it back after NodeResourceInfo.Validate; a
   Validate error leaves the record untouched.

   The scheduler is NOT part of this file: an allocation step takes the
   workload resources that CalculateDeploy returned as part of the operation
   (an oracle), a re-allocation step takes the new workload resource that
   CalculateRealloc returned; everything downstream of that (the DeepCopy/Sub
   delta, SetNodeResourceUsage incr/decr, Validate, GetNodeResourceInfo diffs,
   FixNodeResource, CalculateRemap) is modelled statement by statement. *)
From Coq Require Import String Ascii List ZArith Bool.
From Verif Require Import Base.GoInt Base.GoFloat Base.RunLib Cpumem.Types.
Import ListNotations.
Local Open Scope Z_scope.

(* ---------- types/workload.go ---------- *)

(* WorkloadResource.DeepCopy (after the repair: ranges over w.NUMAMemory):
   every field and every map entry is copied; association lists are values, so
   the copy is the identity. *)
Definition wr_deepcopy (w : wres) : wres := w.

(* WorkloadResource.Sub: CPURequest, CPULimit rounded; MemoryRequest; CPUMap;
   NUMAMemory (nil replaced by an empty map first).  MemoryLimit and NUMANode
   are left alone. *)
Definition wr_sub (w w1 : wres) : wres :=
  mkWR (f_round9 (fsub (wr_cpu_req w) (wr_cpu_req w1)))
       (f_round9 (fsub (wr_cpu_lim w) (wr_cpu_lim w1)))
       (wr_mem_req w - wr_mem_req w1)
       (wr_mem_lim w)
       (cpumap_sub (wr_cpumap w) (wr_cpumap w1))
       (cpumap_sub (wr_numamem w) (wr_numamem w1))
       (wr_numanode w).

(* WorkloadResource.Add: CPURequest rounded; MemoryRequest; CPUMap;
   NUMAMemory: if len(w.NUMAMemory) == 0 { w.NUMAMemory = w1.NUMAMemory } else Add *)
Definition wr_add (w w1 : wres) : wres :=
  mkWR (f_round9 (fadd (wr_cpu_req w) (wr_cpu_req w1)))
       (wr_cpu_lim w)
       (wr_mem_req w + wr_mem_req w1)
       (wr_mem_lim w)
       (cpumap_add (wr_cpumap w) (wr_cpumap w1))
       (match wr_numamem w with [] => wr_numamem w1 | _ => cpumap_add (wr_numamem w) (wr_numamem w1) end)
       (wr_numanode w).

(* the NodeResource a workload resource stands for in calculateNodeResource and
   CalculateRealloc: {CPU: CPURequest, CPUMap, Memory: MemoryRequest, NUMAMemory} *)
Definition nr_of_wres (w : wres) : node_resource :=
  mkNR (wr_cpu_req w) (wr_cpumap w) (wr_mem_req w) (wr_numamem w) [].

(* ---------- node.go: calculateNodeResource ---------- *)
(* (req == nil: the node-resource-request path belongs to SetNodeResourceCapacity
   and is not modelled.)  origin is never nil for usage. *)
Definition calculate_node_resource (nres : option node_resource) (origin : node_resource)
    (ws : list wres) (delta incr : bool) : node_resource :=
  let resp := if delta then origin else nr_empty in
  let incr := if delta then incr else true in
  match nres with
  | Some nr => if incr then nr_add resp nr else nr_sub resp nr
  | None => fold_left (fun r w => if incr then nr_add r (nr_of_wres w) else nr_sub r (nr_of_wres w)) ws resp
  end.

(* Plugin.SetNodeResourceUsage: new usage, Validate, store. *)
Definition set_node_resource_usage (info : node_info) (nres : option node_resource)
    (ws : list wres) (delta incr : bool) : verr + node_info :=
  validate (mkNI (ni_cap info) (calculate_node_resource nres (ni_usage info) ws delta incr)).

(* ---------- node.go: getNodeResourceInfo / FixNodeResource ---------- *)
Definition wr_zero : wres := mkWR f_zero f_zero 0 0 [] [] EmptyString.

(* actuallyWorkloadsUsage: Add of every workload, then CPURequest = Round(CPURequest) *)
Definition sum_workloads (ws : list wres) : wres :=
  let a := fold_left wr_add ws wr_zero in
  mkWR (f_round9 (wr_cpu_req a)) (wr_cpu_lim a) (wr_mem_req a) (wr_mem_lim a)
       (wr_cpumap a) (wr_numamem a) (wr_numanode a).

(* the diffs, canonically: cpu total differs; the capacity cores that differ;
   the capacity NUMA nodes that differ; memory differs.  (Go appends one line
   per difference; the order of the per-core and per-NUMA lines is the map
   iteration order, the harness compares the sorted key lists.) *)
Record diffs := mkDiffs { d_cpu : bool; d_cores : list string; d_numa : list string; d_mem : bool }.

Definition get_diffs (info : node_info) (ws : list wres) : diffs :=
  let act := sum_workloads ws in
  let usage := ni_usage info in
  mkDiffs (negb (feq (wr_cpu_req act) (f_round9 (nr_cpu usage))))
          (map fst (filter (fun kv => negb (lookup 0 (wr_cpumap act) (fst kv) =? lookup 0 (nr_cpumap usage) (fst kv)))
                           (nr_cpumap (ni_cap info))))
          (map fst (filter (fun kv => negb (lookup 0 (wr_numamem act) (fst kv) =? lookup 0 (nr_numamem usage) (fst kv)))
                           (nr_numamem (ni_cap info))))
          (negb (nr_mem usage =? wr_mem_req act)).

Definition no_diffs (d : diffs) : bool :=
  negb (d_cpu d) && match d_cores d with [] => true | _ => false end
  && match d_numa d with [] => true | _ => false end && negb (d_mem d).
Definition n_diffs (d : diffs) : nat :=
  (if d_cpu d then 1 else 0) + List.length (d_cores d) + List.length (d_numa d) + (if d_mem d then 1 else 0).

(* FixNodeResource: when there are diffs the usage is replaced by the recomputed
   sum and stored (after Validate; a Validate error is reported as one more diff
   and nothing is stored, but the response still shows the recomputed usage).
   Returns (stored record, usage shown in the response, diffs, store failed). *)
Definition fix_node_resource (info : node_info) (ws : list wres) : node_info * node_resource * diffs * bool :=
  let d := get_diffs info ws in
  if no_diffs d then (info, ni_usage info, d, false)
  else
    let act := sum_workloads ws in
    let usage' := mkNR (wr_cpu_req act) (wr_cpumap act) (wr_mem_req act) (wr_numamem act) [] in
    match validate (mkNI (ni_cap info) usage') with
    | inr i => (i, usage', d, false)
    | inl _ => (info, usage', d, true)
    end.

(* ---------- calculate.go: CalculateRemap ---------- *)
(* the shared cpu map: cores of the available resource with at least shareBase
   free pieces (all capacity cores when there is none), each at shareBase *)
Definition share_cpumap (info : node_info) (base : Z) : smap Z :=
  let avail := get_available_nofloat info in
  let s := map (fun kv => (fst kv, base)) (filter (fun kv => base <=? snd kv) (nr_cpumap avail)) in
  match s with
  | [] => map (fun kv => (fst kv, base)) (nr_cpumap (ni_cap info))
  | _ => s
  end.

(* engine params for every workload without cpu binding (len(CPUMap) == 0);
   an empty workload map returns an empty result before the node is read *)
Definition calculate_remap {K} (info : node_info) (base : Z) (ws : list (K * wres)) : list (K * eparams) :=
  let share := share_cpumap info base in
  flat_map (fun kw => match wr_cpumap (snd kw) with
                      | [] => [(fst kw, mkEP (wr_cpu_lim (snd kw)) share (wr_numanode (snd kw)) (wr_mem_lim (snd kw)) true)]
                      | _ => []
                      end) ws.

(* ---------- calculate.go: the delta of CalculateRealloc ---------- *)
(* deltaWorkloadResource := newResource.DeepCopy(); deltaWorkloadResource.Sub(originResource) *)
Definition realloc_delta (new origin : wres) : wres := wr_sub (wr_deepcopy new) origin.

(* ---------- histories through cobalt.Manager (one plugin) ---------- *)
(* state: the plugin's record of the node + the live workloads (kept by the
   caller: calcium's store, here the harness) *)
Record state := mkState { st_info : node_info; st_live : list wres }.

Inductive op :=
| OpAllocFail                                  (* Manager.Alloc: CalculateDeploy refused *)
| OpAlloc (ws : list wres)                      (* Manager.Alloc: CalculateDeploy returned ws; commit Incr *)
| OpRelease (idxs : list nat)                   (* RollbackAlloc / release: Decr of the live workloads at idxs
                                                   (strictly increasing positions), which stop being live *)
| OpReallocFail (i : nat)                       (* Manager.Realloc: CalculateRealloc refused *)
| OpRealloc (i : nat) (req : wreq) (new : wres) (* Manager.Realloc of live[i]; CalculateRealloc returned new *)
| OpRollbackRealloc (i : nat) (origin : wres)   (* RollbackRealloc(delta) where delta = live[i] - origin *)
| OpFailedCommit (inner : op).                  (* the manager call for [inner] while ANOTHER plugin of the manager
                                                   fails in the commit step: cobalt rolls back the plugins that
                                                   succeeded by writing their [before] usage back *)

Fixpoint remove_idxs {A} (l : list A) (idxs : list nat) (pos : nat) : list A :=
  match l with
  | [] => []
  | x :: t => if existsb (Nat.eqb pos) idxs then remove_idxs t idxs (S pos) else x :: remove_idxs t idxs (S pos)
  end.
Fixpoint select_idxs {A} (l : list A) (idxs : list nat) (pos : nat) : list A :=
  match l with
  | [] => []
  | x :: t => if existsb (Nat.eqb pos) idxs then x :: select_idxs t idxs (S pos) else select_idxs t idxs (S pos)
  end.
Fixpoint replace_nth {A} (l : list A) (i : nat) (x : A) : list A :=
  match l, i with
  | [], _ => []
  | _ :: t, O => x :: t
  | y :: t, S j => y :: replace_nth t j x
  end.

(* result of a step: new state, whether the manager reported an error, and the
   delta handed back by Realloc (None for the other operations) *)
Record step_result := mkStep { sr_state : state; sr_err : bool; sr_delta : option wres }.

Definition commit (s : state) (ws : list wres) (incr : bool) (live' : list wres) : step_result :=
  match set_node_resource_usage (st_info s) None ws true incr with
  | inr i => mkStep (mkState i live') false None
  | inl _ => mkStep s true None
  end.

Fixpoint step (s : state) (o : op) : step_result :=
  match o with
  | OpFailedCommit inner =>
      let r := step s inner in
      if sr_err r then mkStep s true (sr_delta r)        (* cpumem refused as well: not rolled back, untouched *)
      else
        (* cobalt.SetNodeResourceUsage rollback: plugin.SetNodeResourceUsage(before, nil, nil, delta=false, incr=false) *)
        match set_node_resource_usage (st_info (sr_state r)) (Some (ni_usage (st_info s))) [] false false with
        | inr i => mkStep (mkState i (st_live s)) true (sr_delta r)
        | inl _ => mkStep (mkState (st_info (sr_state r)) (st_live s)) true (sr_delta r)
        end
  | OpAllocFail => mkStep s true None
  | OpAlloc ws => commit s ws true (st_live s ++ ws)
  | OpRelease idxs => commit s (select_idxs (st_live s) idxs 0) false (remove_idxs (st_live s) idxs 0)
  | OpReallocFail _ => mkStep s true None
  | OpRealloc i _ new =>
      match nth_error (st_live s) i with
      | None => mkStep s true None
      | Some origin =>
          let d := realloc_delta new origin in
          let r := commit s [d] true (replace_nth (st_live s) i new) in
          mkStep (sr_state r) (sr_err r) (Some d)
      end
  | OpRollbackRealloc i origin =>
      match nth_error (st_live s) i with
      | None => mkStep s true None
      | Some cur =>
          let d := realloc_delta cur origin in
          let r := commit s [d] false (replace_nth (st_live s) i origin) in
          mkStep (sr_state r) (sr_err r) (Some d)
      end
  end.

(* ---------- observations and cases of the correspondence check ---------- *)
(* what the harness reads back after every operation: the error flag of the
   manager call, the delta returned by Realloc (or passed to RollbackRealloc),
   the usage and the diffs reported by GetNodeResourceInfo(live workloads), and
   the cpu maps Manager.Remap hands to the live workloads (position, cpu map) *)
Record obs := mkObs {
  o_err : bool;
  o_delta : option wres;
  o_usage : node_resource;
  o_diffs : diffs;
  o_remap : list (nat * smap Z) }.

Record case := mkCase {
  c_base : Z;                        (* Scheduler.ShareBase *)
  c_init : node_info;                (* the record after AddNode *)
  c_steps : list (op * obs) }.

Definition nr_usage_eqb (a b : node_resource) : bool :=
  fbits_eqb (nr_cpu a) (nr_cpu b) && smap_eqb Z.eqb (nr_cpumap a) (nr_cpumap b)
  && (nr_mem a =? nr_mem b) && smap_eqb Z.eqb (nr_numamem a) (nr_numamem b).

Fixpoint sort_strs (l : list string) : list string :=
  match l with
  | [] => []
  | x :: t => (fix ins (x : string) (l : list string) : list string :=
                 match l with
                 | [] => [x]
                 | y :: t => if String.ltb y x then y :: ins x t else x :: l
                 end) x (sort_strs t)
  end.
Definition diffs_eqb (a b : diffs) : bool :=
  Bool.eqb (d_cpu a) (d_cpu b) && list_eqb String.eqb (sort_strs (d_cores a)) (sort_strs (d_cores b))
  && list_eqb String.eqb (sort_strs (d_numa a)) (sort_strs (d_numa b)) && Bool.eqb (d_mem a) (d_mem b).

Fixpoint number_from {A} (l : list A) (i : nat) : list (nat * A) :=
  match l with [] => [] | x :: t => (i, x) :: number_from t (S i) end.

Definition remap_eqb (a b : list (nat * smap Z)) : bool :=
  list_eqb (fun x y => Nat.eqb (fst x) (fst y) && smap_eqb Z.eqb (snd x) (snd y)) a b.

Definition model_remap (base : Z) (s : state) : list (nat * smap Z) :=
  map (fun ke => (fst ke, ep_cpumap (snd ke))) (calculate_remap (st_info s) base (number_from (st_live s) 0)).

(* agreement of one step (bookkeeping part): error flag, delta, usage, diffs *)
Definition agree_step (s' : step_result) (o : obs) : bool :=
  Bool.eqb (sr_err s') (o_err o)
  && option_eqb wres_eqb (sr_delta s') (o_delta o)
  && nr_usage_eqb (ni_usage (st_info (sr_state s'))) (o_usage o)
  && diffs_eqb (get_diffs (st_info (sr_state s')) (st_live (sr_state s'))) (o_diffs o).

Fixpoint run_agree (with_remap : bool) (base : Z) (s : state) (steps : list (op * obs)) : bool :=
  match steps with
  | [] => true
  | (o, ob) :: t =>
      let r := step s o in
      agree_step r ob
      && (if with_remap then remap_eqb (model_remap base (sr_state r)) (o_remap ob) else true)
      && run_agree with_remap base (sr_state r) t
  end.

Definition agree (c : case) : bool := run_agree false (c_base c) (mkState (c_init c) []) (c_steps c).
Definition agree_remap (c : case) : bool := run_agree true (c_base c) (mkState (c_init c) []) (c_steps c).

(* ---------- boolean reflection of C08 on the implementation's observations ---------- *)
(* the live set as the harness holds it: rebuilt from the operations and the
   observed error flags only (not from the model's Validate) *)
Definition live_after (live : list wres) (o : op) (err : bool) : list wres :=
  if err then live else
  match o with
  | OpAllocFail | OpReallocFail _ | OpFailedCommit _ => live
  | OpAlloc ws => live ++ ws
  | OpRelease idxs => remove_idxs live idxs 0
  | OpRealloc i _ new => replace_nth live i new
  | OpRollbackRealloc i origin => replace_nth live i origin
  end.

Definition zsum (l : list Z) : Z := fold_right Z.add 0 l.

(* exact decimal reading of a cpu amount: the integer number of 1e-9 units
   nearest to it (what utils.Round keeps), used to compare total CPU *)
Definition nano (x : f64) : Z := f_to_int (f_round (fmul x f_1e9)).

(* usage = sum of the live workloads' resources, all four components; the per
   core / per NUMA node comparison ranges over every key that occurs anywhere.
   [nanos] are the cpu amounts of the live workloads in 1e-9 units (computed
   once per workload by the caller) *)
Definition usage_is_sum (usage : node_resource) (live : list wres) (nanos : list Z) : bool :=
  let ks := keys (nr_cpumap usage) ++ flat_map (fun w => keys (wr_cpumap w)) live in
  let ns := keys (nr_numamem usage) ++ flat_map (fun w => keys (wr_numamem w)) live in
  forallb (fun k => lookup 0 (nr_cpumap usage) k =? zsum (map (fun w => lookup 0 (wr_cpumap w) k) live)) ks
  && forallb (fun k => lookup 0 (nr_numamem usage) k =? zsum (map (fun w => lookup 0 (wr_numamem w) k) live)) ns
  && (nr_mem usage =? zsum (map wr_mem_req live))
  && (nano (nr_cpu usage) =? zsum nanos).

Definition nr_usage_equiv (a b : node_resource) : bool :=
  let ks := keys (nr_cpumap a) ++ keys (nr_cpumap b) in
  let ns := keys (nr_numamem a) ++ keys (nr_numamem b) in
  forallb (fun k => lookup 0 (nr_cpumap a) k =? lookup 0 (nr_cpumap b) k) ks
  && forallb (fun k => lookup 0 (nr_numamem a) k =? lookup 0 (nr_numamem b) k) ns
  && (nr_mem a =? nr_mem b) && fbits_eqb (nr_cpu a) (nr_cpu b).

(* is [o] the rollback of the previous operation [p]? (RollbackAlloc of exactly
   the workloads the previous Alloc appended; RollbackRealloc of the previous
   Realloc to its origin) *)
Definition seq_from (start n : nat) : list nat := seq start n.
Definition is_rollback_of (live_before_p : list wres) (p o : op) : bool :=
  match p, o with
  | OpAlloc ws, OpRelease idxs =>
      list_eqb Nat.eqb idxs (seq_from (List.length live_before_p) (List.length ws))
      && negb (Nat.eqb (List.length ws) 0)
  | OpRealloc i _ _, OpRollbackRealloc j origin =>
      Nat.eqb i j && match nth_error live_before_p i with Some w => wres_eqb w origin | None => false end
  | _, _ => false
  end.

(* the cached cpu amounts follow the live list *)
Definition nanos_after (nanos : list Z) (o : op) (err : bool) : list Z :=
  if err then nanos else
  match o with
  | OpAllocFail | OpReallocFail _ | OpFailedCommit _ => nanos
  | OpAlloc ws => nanos ++ map (fun w => nano (wr_cpu_req w)) ws
  | OpRelease idxs => remove_idxs nanos idxs 0
  | OpRealloc i _ new => replace_nth nanos i (nano (wr_cpu_req new))
  | OpRollbackRealloc i origin => replace_nth nanos i (nano (wr_cpu_req origin))
  end.

(* prev = (usage before the previous operation, live before it, the previous
   operation) when the previous operation succeeded *)
Fixpoint run_ok (usage : node_resource) (live : list wres) (nanos : list Z)
    (prev : option (node_resource * list wres * op)) (steps : list (op * obs)) : bool :=
  match steps with
  | [] => true
  | (o, ob) :: t =>
      let live' := live_after live o (o_err ob) in
      let nanos' := nanos_after nanos o (o_err ob) in
      (* a failed operation leaves the usage untouched *)
      (if o_err ob then nr_usage_equiv (o_usage ob) usage else true)
      (* usage = sum of live resources, and the plugin itself reports no diffs *)
      && usage_is_sum (o_usage ob) live' nanos'
      && no_diffs (o_diffs ob)
      (* rolling back the previous operation succeeds and restores the usage exactly *)
      && match prev with
         | Some (u0, l0, p) => if is_rollback_of l0 p o then negb (o_err ob) && nr_usage_equiv (o_usage ob) u0 else true
         | None => true
         end
      && run_ok (o_usage ob) live' nanos' (if o_err ob then None else Some (usage, live, o)) t
  end.

Definition ok (c : case) : bool := run_ok (ni_usage (c_init c)) [] [] None (c_steps c).

(* ---------- boolean reflection of C32 on the implementation's observations ---------- *)
(* the cores that still have a full core's worth of free pieces according to
   the usage the implementation reports (all capacity cores when none has) *)
Definition expected_share (cap usage : node_resource) (base : Z) : list string :=
  let free := filter (fun c => base <=? lookup 0 (nr_cpumap cap) c - lookup 0 (nr_cpumap usage) c)
                     (keys (nr_cpumap cap)) in
  match free with [] => keys (nr_cpumap cap) | _ => free end.

Definition unbound_positions (live : list wres) : list nat :=
  map fst (filter (fun iw => match wr_cpumap (snd iw) with [] => true | _ => false end) (number_from live 0)).

(* exactly the unbound workloads are remapped, each onto exactly the expected
   cores at [base] pieces; bound workloads get nothing *)
Definition remap_ok_step (base : Z) (cap : node_resource) (live : list wres) (ob : obs) : bool :=
  let exp := sort_strs (expected_share cap (o_usage ob) base) in
  list_eqb Nat.eqb (map fst (o_remap ob)) (unbound_positions live)
  && forallb (fun e => list_eqb String.eqb (sort_strs (keys (snd e))) exp
                       && forallb (fun kv => snd kv =? base) (snd e)) (o_remap ob).

Fixpoint run_ok_remap (base : Z) (cap : node_resource) (live : list wres) (steps : list (op * obs)) : bool :=
  match steps with
  | [] => true
  | (o, ob) :: t =>
      let live' := live_after live o (o_err ob) in
      remap_ok_step base cap live' ob && run_ok_remap base cap live' t
  end.

Definition ok_remap (c : case) : bool := run_ok_remap (c_base c) (ni_cap (c_init c)) [] (c_steps c).

(* ---------- C15: cases of the repair check ---------- *)
(* f_info: the record (capacity + drifted usage) before the repair; f_ws: the
   recorded workloads; f_fits: the harness built the workloads by real
   allocations on this capacity (they fit); observation 1 = FixNodeResource
   (Manager.GetNodeResourceInfo fix=true), observation 2 = the check run again
   without repair *)
Record fixcase := mkFixCase {
  f_info : node_info; f_ws : list wres; f_fits : bool;
  f_usage1 : node_resource; f_diffs1 : diffs; f_failed1 : bool;
  f_usage2 : node_resource; f_diffs2 : diffs }.

Definition agree_fix (c : fixcase) : bool :=
  let '(info', resp, d, failed) := fix_node_resource (f_info c) (f_ws c) in
  nr_usage_eqb resp (f_usage1 c) && diffs_eqb d (f_diffs1 c) && Bool.eqb failed (f_failed1 c)
  && nr_usage_eqb (ni_usage info') (f_usage2 c)
  && diffs_eqb (get_diffs info' (f_ws c)) (f_diffs2 c).

(* after the repair the usage is the sum of the recorded workloads and the
   check reports no differences (for workloads that fit the capacity) *)
Definition ok_fix (c : fixcase) : bool :=
  if f_fits c then
    negb (f_failed1 c) && no_diffs (f_diffs2 c)
    && usage_is_sum (f_usage2 c) (f_ws c) (map (fun w => nano (wr_cpu_req w)) (f_ws c))
  else true.
