(* Cpumem/Pdqsort.v — exact executable model of Go 1.23's sort.Slice
   (sort/zsortfunc.go: pdqsort_func and its helpers, function by function), so
   that the final sort of getFullCPUPlans is modelled exactly also above 12
   elements and with ties.  No proofs; cross-checked against the real sort.Slice
   by the "pdq" stream of the c04 harness.

   Every loop has fuel (bounded by the slice length); indices are Z as in Go.
   [lt] is the comparison on elements: Go's less(i, j) = lt data[i] data[j]. *)
From Coq Require Import String Ascii List ZArith Bool.
From Verif Require Import Base.GoHeap.
Import ListNotations.
Local Open Scope Z_scope.

Section PDQ.
Variable A : Type.
Variable d : A.
Variable lt : A -> A -> bool.

Definition gz (l : list A) (i : Z) : A := nth (Z.to_nat i) l d.
Definition lessz (l : list A) (i j : Z) : bool := lt (gz l i) (gz l j).
Definition swz (l : list A) (i j : Z) : list A := GoHeap.swap d l (Z.to_nat i) (Z.to_nat j).

(* insertionSort_func *)
Fixpoint ins_inner (fuel : nat) (l : list A) (a j : Z) : list A :=
  match fuel with
  | O => l
  | S f => if (a <? j) && lessz l j (j - 1) then ins_inner f (swz l j (j - 1)) a (j - 1) else l
  end.
Fixpoint ins_outer (fuel : nat) (l : list A) (a b i : Z) : list A :=
  match fuel with
  | O => l
  | S f => if i <? b then ins_outer f (ins_inner (S (Z.to_nat (i - a))) l a i) a b (i + 1) else l
  end.
Definition insertion_sort (l : list A) (a b : Z) : list A := ins_outer (S (Z.to_nat (b - a))) l a b (a + 1).

(* siftDown_func / heapSort_func *)
Fixpoint sift_down (fuel : nat) (l : list A) (root hi first : Z) : list A :=
  match fuel with
  | O => l
  | S f =>
    let child := 2 * root + 1 in
    if hi <=? child then l else
    let child := if (child + 1 <? hi) && lessz l (first + child) (first + child + 1) then child + 1 else child in
    if negb (lessz l (first + root) (first + child)) then l
    else sift_down f (swz l (first + root) (first + child)) child hi first
  end.
Fixpoint heap_build (fuel : nat) (l : list A) (i hi first : Z) : list A :=
  match fuel with
  | O => l
  | S f => if i <? 0 then l else heap_build f (sift_down (S (Z.to_nat hi)) l i hi first) (i - 1) hi first
  end.
Fixpoint heap_pop (fuel : nat) (l : list A) (i first : Z) : list A :=
  match fuel with
  | O => l
  | S f => if i <? 0 then l else
           let l := swz l first (first + i) in
           heap_pop f (sift_down (S (Z.to_nat i)) l 0 i first) (i - 1) first
  end.
Definition heap_sort (l : list A) (a b : Z) : list A :=
  let hi := b - a in
  let l := heap_build (S (Z.to_nat hi)) l (Z.quot (hi - 1) 2) hi a in
  heap_pop (S (Z.to_nat hi)) l (hi - 1) a.

(* the two scans shared by the partitions: [up] while i<=j && c(i): i++ ; [down] while i<=j && c(j): j-- *)
Fixpoint scan_up (fuel : nat) (c : Z -> bool) (i j : Z) : Z :=
  match fuel with O => i | S f => if (i <=? j) && c i then scan_up f c (i + 1) j else i end.
Fixpoint scan_down (fuel : nat) (c : Z -> bool) (i j : Z) : Z :=
  match fuel with O => j | S f => if (i <=? j) && c j then scan_down f c i (j - 1) else j end.

(* partition_func *)
Fixpoint part_loop (fuel n : nat) (l : list A) (a i j : Z) : list A * Z :=
  match fuel with
  | O => (l, j)
  | S f =>
    let i := scan_up n (fun x => lessz l x a) i j in
    let j := scan_down n (fun x => negb (lessz l x a)) i j in
    if j <? i then (l, j) else part_loop f n (swz l i j) a (i + 1) (j - 1)
  end.
Definition partition (l : list A) (a b pivot : Z) : list A * Z * bool :=
  let n := S (Z.to_nat (b - a)) in
  let l := swz l a pivot in
  let i := scan_up n (fun x => lessz l x a) (a + 1) (b - 1) in
  let j := scan_down n (fun x => negb (lessz l x a)) i (b - 1) in
  if j <? i then (swz l j a, j, true) else
  let l := swz l i j in
  let '(l, j) := part_loop n n l a (i + 1) (j - 1) in
  (swz l j a, j, false).

(* partitionEqual_func *)
Fixpoint parteq_loop (fuel n : nat) (l : list A) (a i j : Z) : list A * Z :=
  match fuel with
  | O => (l, i)
  | S f =>
    let i := scan_up n (fun x => negb (lessz l a x)) i j in
    let j := scan_down n (fun x => lessz l a x) i j in
    if j <? i then (l, i) else parteq_loop f n (swz l i j) a (i + 1) (j - 1)
  end.
Definition partition_equal (l : list A) (a b pivot : Z) : list A * Z :=
  let n := S (Z.to_nat (b - a)) in
  parteq_loop n n (swz l a pivot) a (a + 1) (b - 1).

(* partialInsertionSort_func *)
Fixpoint shift_left (fuel : nat) (l : list A) (j : Z) : list A :=      (* for j >= 1; j-- *)
  match fuel with
  | O => l
  | S f => if j <? 1 then l else if negb (lessz l j (j - 1)) then l else shift_left f (swz l j (j - 1)) (j - 1)
  end.
Fixpoint shift_right (fuel : nat) (l : list A) (j b : Z) : list A :=   (* for j < b; j++ *)
  match fuel with
  | O => l
  | S f => if b <=? j then l else if negb (lessz l j (j - 1)) then l else shift_right f (swz l j (j - 1)) (j + 1) b
  end.
Fixpoint pins_steps (steps : nat) (l : list A) (a b i : Z) : list A * bool :=
  match steps with
  | O => (l, false)
  | S s =>
    let n := S (Z.to_nat (b - a)) in
    let i := scan_up n (fun x => negb (lessz l x (x - 1))) i (b - 1) in      (* while i < b && !less(i, i-1) *)
    if i =? b then (l, true) else
    if b - a <? 50 then (l, false) else
    let l := swz l i (i - 1) in
    let l := if 2 <=? i - a then shift_left (S (Z.to_nat i)) l (i - 1) else l in
    let l := if 2 <=? b - i then shift_right n l (i + 1) b else l in
    pins_steps s l a b i
  end.
Definition partial_insertion_sort (l : list A) (a b : Z) : list A * bool := pins_steps 5 l a b (a + 1).

(* breakPatterns_func *)
Definition two64 : Z := 18446744073709551616.
Definition xs_next (r : Z) : Z :=
  let r := Z.lxor r (Z.shiftl r 13 mod two64) in
  let r := Z.lxor r (Z.shiftr r 17) in
  Z.lxor r (Z.shiftl r 5 mod two64).
Definition bits_len (n : Z) : Z := if n <=? 0 then 0 else Z.log2 n + 1.
Definition break_patterns (l : list A) (a b : Z) : list A :=
  let length := b - a in
  if length <? 8 then l else
  let modulus := Z.shiftl 1 (bits_len length) in
  let idx0 := a + Z.quot length 4 * 2 - 1 in
  let step (st : list A * Z) (idx : Z) : list A * Z :=
    let r := xs_next (snd st) in
    let other := Z.land r (modulus - 1) in
    let other := if length <=? other then other - length else other in
    (swz (fst st) idx (a + other), r) in
  fst (step (step (step (l, length) idx0) (idx0 + 1)) (idx0 + 2)).

(* choosePivot_func *)
Inductive hint := HUnknown | HIncreasing | HDecreasing.
Definition order2 (l : list A) (a b swaps : Z) : Z * Z * Z :=
  if lessz l b a then (b, a, swaps + 1) else (a, b, swaps).
Definition median (l : list A) (a b c swaps : Z) : Z * Z :=
  let '(a, b, swaps) := order2 l a b swaps in
  let '(b, c, swaps) := order2 l b c swaps in
  let '(a, b, swaps) := order2 l a b swaps in
  (b, swaps).
Definition choose_pivot (l : list A) (a b : Z) : Z * hint :=
  let n := b - a in
  let i := a + Z.quot n 4 * 1 in
  let j := a + Z.quot n 4 * 2 in
  let k := a + Z.quot n 4 * 3 in
  let '(j, swaps) :=
    if 8 <=? n then
      let '(i, j, k, swaps) :=
        if 50 <=? n then
          let '(i, s) := median l (i - 1) i (i + 1) 0 in
          let '(j, s) := median l (j - 1) j (j + 1) s in
          let '(k, s) := median l (k - 1) k (k + 1) s in
          (i, j, k, s)
        else (i, j, k, 0) in
      median l i j k swaps
    else (j, 0) in
  (j, if swaps =? 0 then HIncreasing else if swaps =? 12 then HDecreasing else HUnknown).

(* reverseRange_func *)
Fixpoint rev_loop (fuel : nat) (l : list A) (i j : Z) : list A :=
  match fuel with
  | O => l
  | S f => if i <? j then rev_loop f (swz l i j) (i + 1) (j - 1) else l
  end.
Definition reverse_range (l : list A) (a b : Z) : list A := rev_loop (S (Z.to_nat (b - a))) l a (b - 1).

Definition is_inc (h : hint) : bool := match h with HIncreasing => true | _ => false end.
Definition is_dec (h : hint) : bool := match h with HDecreasing => true | _ => false end.

(* pdqsort_func: one loop iteration per call; the nested call gets fresh flags *)
Fixpoint pdq (fuel : nat) (l : list A) (a b limit : Z) (wb wp : bool) : list A :=
  match fuel with
  | O => l
  | S f =>
    let length := b - a in
    if length <=? 12 then insertion_sort l a b else
    if limit =? 0 then heap_sort l a b else
    let l1 := if wb then l else break_patterns l a b in
    let limit := if wb then limit else limit - 1 in
    let '(pivot, h) := choose_pivot l1 a b in
    let l2 := if is_dec h then reverse_range l1 a b else l1 in
    let pivot := if is_dec h then (b - 1) - (pivot - a) else pivot in
    let h := if is_dec h then HIncreasing else h in
    let '(l3, sorted) := if wb && wp && is_inc h then partial_insertion_sort l2 a b else (l2, false) in
    if sorted then l3 else
    if (0 <? a) && negb (lessz l3 (a - 1) pivot) then
      let '(l4, mid) := partition_equal l3 a b pivot in
      pdq f l4 mid b limit wb wp
    else
      let '(l4, mid, ap) := partition l3 a b pivot in
      let left := mid - a in
      let right := b - mid in
      let thr := Z.quot length 8 in
      if left <? right then
        pdq f (pdq f l4 a mid limit true true) (mid + 1) b limit (thr <=? left) ap
      else
        pdq f (pdq f l4 (mid + 1) b limit true true) a mid limit (thr <=? right) ap
  end.

(* sort.Slice *)
Definition sort_slice (l : list A) : list A :=
  let n := Z.of_nat (length l) in
  pdq (S (length l)) l 0 n (bits_len n) true true.
End PDQ.
