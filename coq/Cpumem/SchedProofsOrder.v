(* Cpumem/SchedProofsOrder.v — the NUMA visiting order of GetCPUPlans (/repo 3d8e6c0) is a
   duplicate-free permutation of the node's NUMA node ids, so every theorem stated for an
   arbitrary duplicate-free order applies to the code as it is; and a node holding a core of
   the origin map is visited before every node that holds none. *)
From Coq Require Import String Ascii List ZArith Bool Lia Permutation.
From Verif Require Import Base.GoInt Base.GoFloat.
From Verif Require Import Cpumem.Types Cpumem.Schedule Cpumem.Calc Cpumem.SchedCase.
From Verif Require Import Cpumem.SchedProofs Cpumem.SchedProofsFit Cpumem.SchedProofsTop Cpumem.SchedProofsDeploy.
Import ListNotations.
Local Open Scope Z_scope.

Lemma dedup_in l x : In x (dedup l) <-> In x l.
Proof.
  induction l as [|y t IH]; simpl; [tauto|]. split.
  - intros [E|H]; auto. apply filter_In in H. right. apply IH. tauto.
  - intros [E|H]; auto. destruct (String.eqb_spec y x) as [E|N]; auto.
    right. apply filter_In. split; [apply IH; auto|]. destruct (String.eqb_spec y x); [contradiction|reflexivity].
Qed.

Lemma NoDup_filter {A} (f : A -> bool) l : NoDup l -> NoDup (filter f l).
Proof.
  induction 1 as [|x t Hn Ht IH]; simpl; [constructor|].
  destruct (f x); auto. constructor; auto. intro H. apply filter_In in H. tauto.
Qed.

Lemma dedup_nodup l : NoDup (dedup l).
Proof.
  induction l as [|y t IH]; simpl; constructor.
  - intro H. apply filter_In in H. destruct H as [_ H]. rewrite String.eqb_refl in H. discriminate.
  - apply NoDup_filter. exact IH.
Qed.

Theorem visit_order_perm info origin : Permutation (numa_visit_order info origin) (numa_nodes info).
Proof. apply isort_perm. Qed.

Theorem visit_order_nodup info origin : NoDup (numa_visit_order info origin).
Proof.
  eapply Permutation_NoDup; [apply Permutation_sym, visit_order_perm|]. apply dedup_nodup.
Qed.

Theorem visit_order_no_empty info origin :
  ~ In EmptyString (map snd (nr_numa (ni_cap info))) -> ~ In EmptyString (numa_visit_order info origin).
Proof.
  intros H Hin. apply H. apply (Permutation_in _ (visit_order_perm info origin)) in Hin.
  unfold numa_nodes in Hin. apply (proj1 (dedup_in _ _)) in Hin. exact Hin.
Qed.


(* the general theorems instantiated at the order the code uses *)
Section Det.
Variable sortf : list keyed -> outcome (list keyed).
Hypothesis sortf_perm : forall l, exists l', sortf l = Ok l' /\ Permutation l' l.

Theorem plans_fit_det info origin base mf req fuel plans :
  get_cpu_plans_det_g sortf info origin base mf req fuel = Ok plans ->
  wf_maps info -> ~ In EmptyString (map snd (nr_numa (ni_cap info))) -> 0 < base ->
  0 <= rq_mem_req req -> 0 <= nr_mem (get_available_nofloat info) ->
  fits info (rq_mem_req req) plans.
Proof.
  unfold get_cpu_plans_det_g. intros H Wf Hne Hb Hm Hfree.
  pose proof (plans_fit sortf sortf_perm _ _ _ _ _ _ _ _ H Wf (visit_order_nodup info origin)
                (visit_order_no_empty info origin Hne) Hb Hm Hfree) as F. cbv zeta in F.
  destruct F as (A & B & C & P). unfold fits; cbv zeta. repeat split; auto; apply (B tp H0 H1).
Qed.
End Det.

(* when exactly one NUMA node holds cores of the origin map, it is visited first *)
Lemma isort_min_first {A} (less : A -> A -> bool) (a : A) : forall l,
  In a l -> NoDup l -> (forall y, In y l -> y <> a -> less a y = true /\ less y a = false) ->
  exists t, isort less l = a :: t.
Proof.
  induction l as [|x t IH]; intros Hin Nd H; [destruct Hin|].
  inversion Nd as [|? ? Hn Nt]; subst. simpl.
  destruct Hin as [->|Hin].
  - assert (Hs : forall y, In y (isort less t) -> less y a = false).
    { intros y Hy. apply (Permutation_in _ (isort_perm less t)) in Hy.
      apply H; [right; auto|]. intro; subst; contradiction. }
    destruct (isort less t) as [|y s]; simpl; [eexists; reflexivity|].
    rewrite (Hs y (or_introl eq_refl)). eexists; reflexivity.
  - destruct (IH Hin Nt) as (t' & E).
    { intros y Hy Hne. apply H; [right; auto|auto]. }
    rewrite E. simpl.
    assert (x <> a) by (intro; subst; contradiction).
    rewrite (proj1 (H x (or_introl eq_refl) H0)). eexists; reflexivity.
Qed.

Theorem visit_order_origin_first info origin a :
  In a (numa_nodes info) ->
  origin_on (nr_numa (ni_cap info)) origin a = true ->
  (forall b, In b (numa_nodes info) -> b <> a -> origin_on (nr_numa (ni_cap info)) origin b = false) ->
  exists t, numa_visit_order info origin = a :: t.
Proof.
  intros Hin Ha Hb. unfold numa_visit_order. apply isort_min_first; auto.
  - apply dedup_nodup.
  - intros y Hy Hne. unfold numa_less. rewrite Ha, (Hb y Hy Hne). simpl. auto.
Qed.
