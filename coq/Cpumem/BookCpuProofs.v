(* Cpumem/BookCpuProofs.v — the total-CPU component of the bookkeeping invariant.

   CPU amounts are binary64.  Every update goes through utils.Round (round to 9
   decimals), so the natural reading of "usage.CPU equals the sum of the live
   workloads' CPU requests" is on the decimal grid of 1e-9 units:
     G k        = the double nearest to k * 1e-9  (what a decimal literal with at
                  most 9 decimals parses to, and what utils.Round returns)
     cpu_is u k = u is finite and has the same real value as G k
   The invariant is  cpu_is usage.CPU (sum of the workloads' amounts in 1e-9 units).

   The float facts needed are isolated in [grid_closed] (proved in
   Cpumem/GridProofs.v): Round(G a + G b) = G (a+b) and Round(G a - G b) = G (a-b)
   as real values, for amounts up to 2^49 units (about 5.6e5 CPUs). *)
From Coq Require Import String Ascii List ZArith Bool Lia Reals.
From Flocq Require Import Core IEEE754.Binary IEEE754.Bits.
From Verif Require Import Base.GoInt Base.GoFloat Cpumem.Types Cpumem.Node Cpumem.BookProofs.
Import ListNotations.
Local Open Scope Z_scope.

Definition G (k : Z) : f64 := fdiv (f_of_Z k) f_1e9.
Definition cpu_is (u : f64) (k : Z) : Prop :=
  f_finite u = true /\ B2R 53 1024 u = B2R 53 1024 (G k).
Definition BND : Z := 562949953421312. (* 2^49 *)

Definition grid_add_closed : Prop := forall u c a b,
  cpu_is u a -> cpu_is c b -> Z.abs a <= BND -> Z.abs b <= BND -> Z.abs (a + b) <= BND ->
  cpu_is (f_round9 (fadd u c)) (a + b).
Definition grid_sub_closed : Prop := forall u c a b,
  cpu_is u a -> cpu_is c b -> Z.abs a <= BND -> Z.abs b <= BND -> Z.abs (a - b) <= BND ->
  cpu_is (f_round9 (fsub u c)) (a - b).
Definition grid_closed : Prop := grid_add_closed /\ grid_sub_closed.

(* the amount of a workload in 1e-9 units, as a function of its cpu request *)
Definition kf (w : wres) : Z := nano (wr_cpu_req w).
Definition on_grid (w : wres) : Prop := cpu_is (wr_cpu_req w) (kf w) /\ 0 <= kf w <= BND.
Definition ktotal (live : list wres) : Z := zs kf live.

Lemma ktotal_nonneg live : Forall on_grid live -> 0 <= ktotal live.
Proof. unfold ktotal, zs. induction 1 as [|w t [_ Hw] _ IH]; simpl; lia. Qed.

Section WithGrid.
Hypothesis GC : grid_closed.

Lemma add_all_cpu ws : forall u K, Forall on_grid ws ->
  cpu_is (nr_cpu u) K -> 0 <= K -> K + ktotal ws <= BND ->
  cpu_is (nr_cpu (add_all u ws)) (K + ktotal ws).
Proof.
  unfold add_all, ktotal, zs. induction ws as [|w t IH]; intros u K Hg Hu HK HB; simpl.
  - rewrite Z.add_0_r. exact Hu.
  - inversion Hg as [|? ? [Hw [Hw0 Hw1]] Hg']; subst.
    pose proof (ktotal_nonneg t Hg') as Ht. unfold ktotal, zs in Ht. simpl in HB.
    replace (K + (kf w + fold_right Z.add 0 (map kf t))) with ((K + kf w) + fold_right Z.add 0 (map kf t)) by lia.
    apply IH; [exact Hg'| |lia|lia].
    simpl. apply (proj1 GC); [exact Hu|exact Hw|lia|lia|lia].
Qed.

Lemma sub_all_cpu ws : forall u K, Forall on_grid ws ->
  cpu_is (nr_cpu u) K -> K <= BND -> 0 <= K - ktotal ws ->
  cpu_is (nr_cpu (sub_all u ws)) (K - ktotal ws).
Proof.
  unfold sub_all, ktotal, zs. induction ws as [|w t IH]; intros u K Hg Hu HK HB; simpl.
  - rewrite Z.sub_0_r. exact Hu.
  - inversion Hg as [|? ? [Hw [Hw0 Hw1]] Hg']; subst.
    pose proof (ktotal_nonneg t Hg') as Ht. unfold ktotal, zs in Ht. simpl in HB.
    replace (K - (kf w + fold_right Z.add 0 (map kf t))) with ((K - kf w) - fold_right Z.add 0 (map kf t)) by lia.
    apply IH; [exact Hg'| |lia|lia].
    simpl. apply (proj2 GC); [exact Hu|exact Hw|lia|lia|lia].
Qed.

(* ---------- the CPU invariant ---------- *)
Definition inv_cpu (s : state) : Prop :=
  cpu_is (nr_cpu (ni_usage (st_info s))) (ktotal (st_live s)) /\
  Forall on_grid (st_live s) /\ ktotal (st_live s) <= BND.

Fixpoint op_grid (o : op) : Prop :=
  match o with
  | OpAlloc ws => Forall on_grid ws
  | OpRealloc _ _ new => on_grid new
  | OpRollbackRealloc _ origin => on_grid origin
  | OpFailedCommit inner => op_grid inner
  | _ => True
  end.

Lemma G0 : G 0 = f_zero.
Proof. vm_compute. reflexivity. Qed.
Lemma cpu_is_f_zero : cpu_is f_zero 0.
Proof. split; [reflexivity|rewrite G0; reflexivity]. Qed.

Lemma ktotal_select_le live idxs pos : Forall on_grid live ->
  0 <= ktotal (select_idxs live idxs pos) /\ 0 <= ktotal (remove_idxs live idxs pos).
Proof.
  intro H. split; apply ktotal_nonneg; [apply Forall_select|apply Forall_remove]; exact H.
Qed.

(* the delta of a re-allocation is on the grid (possibly negative) *)
Lemma delta_cpu new origin : on_grid new -> on_grid origin ->
  cpu_is (wr_cpu_req (realloc_delta new origin)) (kf new - kf origin).
Proof.
  intros [Hn [Hn0 Hn1]] [Ho [Ho0 Ho1]]. unfold realloc_delta, wr_deepcopy, wr_sub. simpl.
  apply (proj2 GC); [exact Hn|exact Ho|lia|lia|lia].
Qed.

Lemma add_one_cpu u (d : wres) K kd :
  cpu_is (nr_cpu u) K -> cpu_is (wr_cpu_req d) kd ->
  Z.abs K <= BND -> Z.abs kd <= BND -> Z.abs (K + kd) <= BND ->
  cpu_is (nr_cpu (add_all u [d])) (K + kd).
Proof. intros. unfold add_all. simpl. apply (proj1 GC); assumption. Qed.
Lemma sub_one_cpu u (d : wres) K kd :
  cpu_is (nr_cpu u) K -> cpu_is (wr_cpu_req d) kd ->
  Z.abs K <= BND -> Z.abs kd <= BND -> Z.abs (K - kd) <= BND ->
  cpu_is (nr_cpu (sub_all u [d])) (K - kd).
Proof. intros. unfold sub_all. simpl. apply (proj2 GC); assumption. Qed.

(* every step preserves the CPU invariant, provided the oracle values are on
   the grid and the total stays within the bound *)
Theorem step_inv_cpu s o : op_grid o -> inv_valid s -> inv_cpu s ->
  ktotal (st_live (sr_state (step s o))) <= BND ->
  inv_cpu (sr_state (step s o)).
Proof.
  intros OG IV (Hu & Hl & HB) HB'.
  pose proof (ktotal_nonneg _ Hl) as H0.
  destruct o as [|ws|idxs|i|i req new|i origin|inner].
  7: { (* a commit that failed in another plugin: cpu written back through utils.Round *)
       destruct (failed_commit_state s inner IV) as (_ & L & [E|E]); unfold inv_cpu; rewrite L, E.
       - split; [assumption|split; assumption].
       - split; [|split; assumption]. cbn [st_info ni_usage]. unfold written_back, nr_add, nr_empty. cbn [nr_cpu].
         replace (ktotal (st_live s)) with (0 + ktotal (st_live s)) by lia.
         apply (proj1 GC); [exact cpu_is_f_zero|exact Hu|unfold BND; lia|lia|lia]. }
  all: simpl in *.
  - (split; [assumption|split; assumption]).
  - destruct (sr_err (commit s ws true (st_live s ++ ws))) eqn:E.
    + rewrite commit_err_state by exact E. (split; [assumption|split; assumption]).
    + destruct (commit_usage_incr s ws _ _ eq_refl E) as [U L]. unfold inv_cpu. rewrite U, L in *.
      unfold ktotal in *. rewrite zs_app in *. split; [|split].
      * apply add_all_cpu; [exact OG|exact Hu|exact H0|exact HB'].
      * apply Forall_app. split; assumption.
      * exact HB'.
  - set (sel := select_idxs (st_live s) idxs 0) in *. set (rem := remove_idxs (st_live s) idxs 0) in *.
    destruct (sr_err (commit s sel false rem)) eqn:E.
    + rewrite commit_err_state by exact E. (split; [assumption|split; assumption]).
    + destruct (commit_usage_decr s sel _ _ eq_refl E) as [U L]. unfold inv_cpu. rewrite U, L in *.
      destruct (ktotal_select_le (st_live s) idxs 0%nat Hl) as [S0 R0]. fold sel rem in S0, R0.
      assert (EQ : ktotal (st_live s) = ktotal sel + ktotal rem).
      { unfold ktotal. apply zs_select_remove. }
      split; [|split].
      * replace (ktotal rem) with (ktotal (st_live s) - ktotal sel) by lia.
        apply sub_all_cpu; [apply Forall_select; exact Hl|exact Hu|exact HB|lia].
      * apply Forall_remove. exact Hl.
      * exact HB'.
  - (split; [assumption|split; assumption]).
  - destruct (nth_error (st_live s) i) as [origin|] eqn:N; simpl in *; [|(split; [assumption|split; assumption])].
    assert (Ho : on_grid origin) by (eapply Forall_nth_error; eassumption).
    set (d := realloc_delta new origin) in *.
    destruct (sr_err (commit s [d] true (replace_nth (st_live s) i new))) eqn:E.
    + rewrite commit_err_state by exact E. (split; [assumption|split; assumption]).
    + destruct (commit_usage_incr s [d] _ _ eq_refl E) as [U L]. unfold inv_cpu. rewrite U, L in *.
      assert (EQ : ktotal (replace_nth (st_live s) i new) = ktotal (st_live s) - kf origin + kf new).
      { unfold ktotal. apply zs_replace. exact N. }
      assert (Hl' : Forall on_grid (replace_nth (st_live s) i new)) by (apply Forall_replace; assumption).
      pose proof (ktotal_nonneg _ Hl') as H0'.
      pose proof (proj2 OG) as [On0 On1]. pose proof (proj2 Ho) as [Oo0 Oo1].
      split; [|split; [exact Hl'|exact HB']].
      rewrite EQ. replace (ktotal (st_live s) - kf origin + kf new) with (ktotal (st_live s) + (kf new - kf origin)) by lia.
      apply add_one_cpu; [exact Hu|apply delta_cpu; assumption|lia|lia|lia].
  - destruct (nth_error (st_live s) i) as [cur|] eqn:N; simpl in *; [|(split; [assumption|split; assumption])].
    assert (Hc : on_grid cur) by (eapply Forall_nth_error; eassumption).
    set (d := realloc_delta cur origin) in *.
    destruct (sr_err (commit s [d] false (replace_nth (st_live s) i origin))) eqn:E.
    + rewrite commit_err_state by exact E. (split; [assumption|split; assumption]).
    + destruct (commit_usage_decr s [d] _ _ eq_refl E) as [U L]. unfold inv_cpu. rewrite U, L in *.
      assert (EQ : ktotal (replace_nth (st_live s) i origin) = ktotal (st_live s) - kf cur + kf origin).
      { unfold ktotal. apply zs_replace. exact N. }
      assert (Hl' : Forall on_grid (replace_nth (st_live s) i origin)) by (apply Forall_replace; assumption).
      pose proof (ktotal_nonneg _ Hl') as H0'.
      pose proof (proj2 OG) as [Oo0 Oo1]. pose proof (proj2 Hc) as [Oc0 Oc1].
      split; [|split; [exact Hl'|exact HB']].
      rewrite EQ. replace (ktotal (st_live s) - kf cur + kf origin) with (ktotal (st_live s) - (kf cur - kf origin)) by lia.
      apply sub_one_cpu; [exact Hu|apply delta_cpu; assumption|lia|lia|lia].
Qed.

(* all histories whose running total stays within the bound *)
Fixpoint bounded_run (s : state) (h : list op) : Prop :=
  match h with
  | [] => True
  | o :: t => ktotal (st_live (sr_state (step s o))) <= BND /\ bounded_run (sr_state (step s o)) t
  end.

Theorem history_inv_cpu : forall h s, Forall op_grid h -> bounded_run s h -> inv_valid s -> inv_cpu s -> inv_cpu (run s h).
Proof.
  unfold run. induction h as [|o t IH]; intros s OG BR IV I; simpl; [exact I|].
  inversion OG; subst. destruct BR as [B1 B2].
  apply IH; [assumption|assumption|apply step_valid; exact IV|]. apply step_inv_cpu; assumption.
Qed.

(* Incr then Decr of the same resources restores the CPU total *)
Theorem incr_then_decr_cpu info ws info1 info2 K :
  cpu_is (nr_cpu (ni_usage info)) K -> 0 <= K -> K + ktotal ws <= BND -> Forall on_grid ws ->
  set_node_resource_usage info None ws true true = inr info1 ->
  set_node_resource_usage info1 None ws true false = inr info2 ->
  cpu_is (nr_cpu (ni_usage info2)) K.
Proof.
  unfold set_node_resource_usage, calculate_node_resource. intros Hu H0 HB Hg V1 V2.
  apply validate_inr in V1. apply validate_inr in V2. subst info1 info2. simpl.
  fold (add_all (ni_usage info) ws). fold (sub_all (add_all (ni_usage info) ws) ws).
  pose proof (ktotal_nonneg _ Hg) as Hw.
  replace K with ((K + ktotal ws) - ktotal ws) at 1 by lia.
  apply sub_all_cpu; [exact Hg| |exact HB|lia].
  apply add_all_cpu; assumption.
Qed.
End WithGrid.
