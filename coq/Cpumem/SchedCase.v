(* Cpumem/SchedCase.v — case types of the correspondence check for C04, C05, C06
   (shared driver harness/c04), the agreement functions and the boolean
   reflections of the three properties.  Executable only; no proofs.

   stream "plans":  schedule.GetCPUPlans called directly            (pcase)
   stream "deploy": Plugin.CalculateDeploy + SetNodeResourceUsage + GetNodesDeployCapacity
                    on embedded etcd                                 (dcase)
*)
From Coq Require Import String Ascii List ZArith Bool.
From Verif Require Import Base.GoInt Base.GoFloat Cpumem.Types Cpumem.Pdqsort Cpumem.Schedule Cpumem.Calc.
Import ListNotations.
Local Open Scope Z_scope.

(* ---------- validity of inputs (the hypotheses of the theorems, as booleans) ---------- *)
Fixpoint nodup_keys {V} (m : smap V) : bool :=
  match m with
  | [] => true
  | (k, _) :: t => negb (mem_key t k) && nodup_keys t
  end.
Definition wf_info (n : node_info) : bool :=
  nodup_keys (nr_cpumap (ni_cap n)) && nodup_keys (nr_cpumap (ni_usage n))
  && nodup_keys (nr_numamem (ni_cap n)) && nodup_keys (nr_numamem (ni_usage n))
  && nodup_keys (nr_numa (ni_cap n)).

(* valid_node: the plugin's Validate accepts, memory usage within capacity, no
   negative usage, NUMA memory usage within capacity for every id that occurs *)
Definition valid_node (n : node_info) : bool :=
  let cap := ni_cap n in let usage := ni_usage n in
  wf_info n && validate_ok n
  && (0 <=? nr_mem usage) && (nr_mem usage <=? nr_mem cap)
  && forallb (fun kv => 0 <=? snd kv) (nr_cpumap usage)
  && forallb (fun kv => (0 <=? snd kv) && (snd kv <=? lookup 0 (nr_numamem cap) (fst kv))) (nr_numamem usage).

Definition f_pos_finite (x : f64) : bool := f_finite x && fgt x f_zero.

(* configuration named by C06: positive share base, max share -1 or positive *)
Definition valid_config (base maxfrag : Z) : bool := (0 <? base) && ((maxfrag =? -1) || (0 <? maxfrag)).

(* ---------- permutation check for the NUMA order oracle ---------- *)
Fixpoint remove_first (x : string) (l : list string) : option (list string) :=
  match l with
  | [] => None
  | y :: t => if String.eqb x y then Some t
              else match remove_first x t with Some t' => Some (y :: t') | None => None end
  end.
Fixpoint is_perm (l1 l2 : list string) : bool :=
  match l1 with
  | [] => match l2 with [] => true | _ => false end
  | x :: t => match remove_first x l2 with Some l2' => is_perm t l2' | None => false end
  end.

(* ---------- stream "plans" ---------- *)
Inductive pobs := PPlans (l : list (string * plan)) | PPanic (r : option reason) | PTimeout.

Record pcase := mkP {
  p_info : node_info; p_origin : smap Z; p_base : Z; p_maxfrag : Z;
  p_cpu : f64; p_mem : Z; p_order : list string;
  p_k : Z;                      (* request is fl(k / base) when k >= 0; -1: not on the decimal grid *)
  p_obs : pobs }.

Definition p_req (c : pcase) : wreq := mkReq true false (p_cpu c) (p_cpu c) (p_mem c) (p_mem c).

Definition p_model (c : pcase) : outcome (list (string * plan)) :=
  get_cpu_plans_chk (p_info c) (p_origin c) (p_base c) (p_maxfrag c) (p_req c)
                    (numa_visit_order (p_info c) (p_origin c)) (default_fuel (p_info c)).

Definition reason_opt_eqb (r : reason) (o : option reason) : bool :=
  match o with Some r' => reason_eqb r r' | None => false end.

Definition p_agree (c : pcase) : bool :=
  is_perm (p_order c) (numa_nodes (p_info c)) &&
  match p_model c, p_obs c with
  | Ok l, PPlans l' => plans_eqb l l'
  | Panic r, PPanic o => reason_opt_eqb r o
  | OutOfFuel, PTimeout => true
  | _, _ => false
  end.

(* ---------- C04: joint feasibility of a plan list ---------- *)
Definition all_plan_keys (plans : list (string * plan)) : list string :=
  flat_map (fun tp => keys (snd tp)) plans.
Definition pieces_on (plans : list (string * plan)) (core : string) : Z :=
  fold_left (fun s tp => s + lookup 0 (snd tp) core) plans 0.
Definition count_tag (plans : list (string * plan)) (nid : string) : Z :=
  Z.of_nat (length (filter (fun tp => String.eqb (fst tp) nid) plans)).

Definition c04_plans_ok (info : node_info) (mem : Z) (plans : list (string * plan)) : bool :=
  let avail := get_available_nofloat info in
  let cap := ni_cap info in
  (* every plan gives positive pieces *)
  forallb (fun tp => forallb (fun kv => 0 <? snd kv) (snd tp)) plans
  (* (a) no core is given more than it has free *)
  && forallb (fun core => pieces_on plans core <=? Z.max 0 (lookup 0 (nr_cpumap avail) core))
             (keys (nr_cpumap avail) ++ all_plan_keys plans)
  (* (b) a plan tagged with a NUMA node uses only that node's cores ... *)
  && forallb (fun tp => match fst tp with
                        | EmptyString => true
                        | nid => forallb (fun kv => match lookup_opt (nr_numa cap) (fst kv) with
                                                    | Some n' => String.eqb n' nid | None => false end) (snd tp)
                        end) plans
  (*     ... and the plans of a NUMA node fit its free memory *)
  && forallb (fun tp => match fst tp with
                        | EmptyString => true
                        | nid => count_tag plans nid * mem <=? Z.max 0 (lookup 0 (nr_numamem avail) nid)
                        end) plans
  (* (c) total memory *)
  && (Z.of_nat (length plans) * mem <=? Z.max 0 (nr_mem avail)).

Definition p_pre_c04 (c : pcase) : bool :=
  valid_node (p_info c) && (0 <? p_base c) && f_pos_finite (p_cpu c) && (0 <=? p_mem c).

Definition p_ok_c04 (c : pcase) : bool :=
  if p_pre_c04 c then
    match p_obs c with
    | PPlans l => c04_plans_ok (p_info c) (p_mem c) l
    | _ => true                       (* crashes are C06's business *)
    end
  else true.

(* ---------- C05: pieces = request x share base, whole cores + at most one fragment ---------- *)
Definition c05_plan_ok (base k : Z) (p : plan) : bool :=
  let q := Z.quot k base in let r := Z.rem k base in
  (total_pieces p =? k)
  && (Z.of_nat (length (filter (fun kv => snd kv =? base) p)) =? q)
  && (Z.of_nat (length p) =? q + (if r =? 0 then 0 else 1))
  && (if r =? 0 then true else Z.of_nat (length (filter (fun kv => snd kv =? r) p)) =? 1).

Definition p_pre_c05 (c : pcase) : bool :=
  (0 <? p_base c) && (1 <=? p_k c)
  && fbits_eqb (p_cpu c) (fdiv (f_of_Z (p_k c)) (f_of_Z (p_base c))).

Definition p_ok_c05 (c : pcase) : bool :=
  if p_pre_c05 c then
    match p_obs c with
    | PPlans l => forallb (fun tp => c05_plan_ok (p_base c) (p_k c) (snd tp)) l
    | _ => true
    end
  else true.

(* ---------- C06: no crash, no non-termination ---------- *)
Definition p_pre_c06 (c : pcase) : bool :=
  wf_info (p_info c) && validate_ok (p_info c) && valid_config (p_base c) (p_maxfrag c)
  && f_pos_finite (p_cpu c) && (0 <=? p_mem c).

Definition p_ok_c06 (c : pcase) : bool :=
  if p_pre_c06 c then match p_obs c with PPlans _ => true | _ => false end else true.

(* ---------- stream "deploy" ---------- *)
Inductive dobs :=
  | DErr (e : option cerr)
  | DOk (eps : list eparams) (ws : list wres)
        (commit_ok : bool)                 (* SetNodeResourceUsage(workloads, delta, incr) accepted *)
        (after : node_resource)            (* usage read back after the commit attempt *)
  | DPanic (r : option reason)
  | DTimeout.

Inductive capobs :=
  | CapOk (present : bool) (capacity : Z) (usage rate weight : f64) (total : Z)
  | CapErr | CapPanic (r : option reason) | CapTimeout.

Record dcase := mkD {
  d_info : node_info; d_base : Z; d_maxshare : Z; d_count : Z;
  d_raw : wreq; d_order : list string; d_k : Z;
  d_obs : dobs; d_cap : capobs }.

Definition d_model (c : dcase) : outcome (cerr + deploy_result) :=
  calculate_deploy_chk (d_info c) (d_base c) (d_maxshare c) (d_count c) (d_raw c)
                       (numa_visit_order (d_info c) []) (default_fuel (d_info c)).

Definition cerr_opt_eqb (e : cerr) (o : option cerr) : bool :=
  match o with Some e' => cerr_eqb e e' | None => false end.

Definition nr_ints_eqb (a b : node_resource) : bool :=
  fbits_eqb (nr_cpu a) (nr_cpu b)
  && smap_eqb Z.eqb (nr_cpumap a) (nr_cpumap b) && (nr_mem a =? nr_mem b)
  && smap_eqb Z.eqb (nr_numamem a) (nr_numamem b).

(* what the plugin stores: keys with value from Add; compare by lookup on the union *)
Definition smap_lookup_eqb (m1 m2 : smap Z) : bool :=
  forallb (fun k => lookup 0 m1 k =? lookup 0 m2 k) (keys m1 ++ keys m2).
Definition nr_lookup_eqb (a b : node_resource) : bool :=
  fbits_eqb (nr_cpu a) (nr_cpu b)
  && smap_lookup_eqb (nr_cpumap a) (nr_cpumap b) && (nr_mem a =? nr_mem b)
  && smap_lookup_eqb (nr_numamem a) (nr_numamem b).

Definition d_agree_deploy (c : dcase) : bool :=
  match d_model c, d_obs c with
  | Ok (inl e), DErr o => cerr_opt_eqb e o
  | Ok (inr (eps, ws)), DOk eps' ws' cok after =>
      list_eqb' eparams_eqb eps eps' && list_eqb' wres_eqb ws ws'
      && (let n' := commit_usage (d_info c) ws in
          if validate_ok n' then cok && nr_lookup_eqb (ni_usage n') after
          else negb cok && nr_lookup_eqb (ni_usage (d_info c)) after)
  | Panic r, DPanic o => reason_opt_eqb r o
  | OutOfFuel, DTimeout => true
  | _, _ => false
  end.

(* GetNodesDeployCapacity on the single node: the request is validated first *)
Definition d_agree_cap (c : dcase) : bool :=
  match wreq_validate (d_raw c), d_cap c with
  | inl _, CapErr => true
  | inr req, o =>
    match node_capacity_chk (d_info c) (d_base c) (d_maxshare c) req (numa_visit_order (d_info c) []) (default_fuel (d_info c)), o with
    | Ok ci, CapOk present capa u r w total =>
        if 0 <? cap_capacity ci then
          present && (capa =? cap_capacity ci) && (total =? cap_capacity ci)
          && fbits_eqb u (cap_usage ci) && fbits_eqb r (cap_rate ci) && fbits_eqb w (cap_weight ci)
        else negb present && (total =? 0)
    | Panic r, CapPanic o' => reason_opt_eqb r o'
    | OutOfFuel, CapTimeout => true
    | _, _ => false
    end
  | _, _ => false
  end.

Definition d_agree (c : dcase) : bool :=
  is_perm (d_order c) (numa_nodes (d_info c)) && d_agree_deploy c && d_agree_cap c.

Definition tagged_of (ws : list wres) : list (string * plan) :=
  map (fun w => (wr_numanode w, wr_cpumap w)) ws.

Definition d_valid_req (c : dcase) : option wreq :=
  match wreq_validate (d_raw c) with inr r => Some r | inl _ => None end.

(* C04 at the plugin: feasibility of the returned workloads, NUMA memory recorded,
   and the committed state is accepted (clause d) with memory usage within capacity *)
Definition d_ok_c04 (c : dcase) : bool :=
  match d_valid_req c with
  | None => true
  | Some req =>
    if valid_node (d_info c) && (0 <? d_base c) && (0 <=? d_count c) then
      match d_obs c with
      | DOk eps ws cok after =>
          (Z.of_nat (length ws) =? d_count c) && (Z.of_nat (length eps) =? d_count c)
          && c04_plans_ok (d_info c) (rq_mem_req req) (tagged_of ws)
          && forallb (fun w => (wr_mem_req w =? rq_mem_req req)
                               && match wr_numanode w with
                                  | EmptyString => match wr_numamem w with [] => true | _ => false end
                                  | nid => smap_eqb Z.eqb (wr_numamem w) [(nid, rq_mem_req req)]
                                  end) ws
          && cok
          && (nr_mem after <=? nr_mem (ni_cap (d_info c)))
          && validate_ok (mkNI (ni_cap (d_info c)) after)
      | _ => true
      end
    else true
  end.

Fixpoint forall2b {A B} (f : A -> B -> bool) (l1 : list A) (l2 : list B) : bool :=
  match l1, l2 with
  | [], [] => true
  | x :: t1, y :: t2 => f x y && forall2b f t1 t2
  | _, _ => false
  end.

Definition d_ok_c05 (c : dcase) : bool :=
  match d_valid_req c with
  | None => true
  | Some req =>
    if rq_bind req && (0 <? d_base c) && (1 <=? d_k c)
       && fbits_eqb (rq_cpu_req req) (fdiv (f_of_Z (d_k c)) (f_of_Z (d_base c))) then
      match d_obs c with
      | DOk eps ws _ _ =>
          forallb (fun w => c05_plan_ok (d_base c) (d_k c) (wr_cpumap w)
                            && fbits_eqb (wr_cpu_req w) (rq_cpu_req req)) ws
          && forall2b (fun e w => smap_eqb Z.eqb (ep_cpumap e) (wr_cpumap w)) eps ws
      | _ => true
      end
    else true
  end.

Definition d_ok_c06 (c : dcase) : bool :=
  match d_valid_req c with
  | None => true
  | Some req =>
    if rq_bind req && wf_info (d_info c) && validate_ok (d_info c) && valid_config (d_base c) (d_maxshare c)
       && f_pos_finite (rq_cpu_req req) && (0 <=? d_count c) then
      match d_obs c, d_cap c with
      | (DErr _ | DOk _ _ _ _), (CapOk _ _ _ _ _ _ | CapErr) => true
      | _, _ => false
      end
    else true
  end.

(* ---------- stream "validate" ---------- *)
Inductive vobs := VOk | VErr (e : verr).
Record vcase := mkV { v_info : node_info; v_obs : vobs }.
Definition v_agree (c : vcase) : bool :=
  match validate (v_info c), v_obs c with
  | inr _, VOk => true
  | inl e, VErr e' => verr_eqb e e'
  | _, _ => false
  end.
Definition v_ok (c : vcase) : bool := true.

(* typed constructors used by the generated case files (cheaper to elaborate than pair notation) *)
Definition kz (k : string) (v : Z) : string * Z := (k, v).
Definition ks (k : string) (v : string) : string * string := (k, v).
Definition tp (nid : string) (p : plan) : string * plan := (nid, p).

(* ---------- stream "realloc": Plugin.CalculateRealloc ---------- *)
Inductive robs := RErr (e : option rerr2) | ROk (ep : eparams) (delta newr : wres) | RPanic (r : option reason) | RTimeout.
Record rcase := mkR {
  r_info : node_info; r_base : Z; r_maxshare : Z; r_origin : wres; r_raw : wreq;
  r_order : list string; r_obs : robs }.
Definition r_model (c : rcase) : outcome (rerr2 + realloc_result) :=
  calculate_realloc_chk (r_info c) (r_base c) (r_maxshare c) (r_origin c) (r_raw c)
                        (numa_visit_order (r_info c) (wr_cpumap (r_origin c)))
                        (default_fuel (realloc_info (r_info c) (r_origin c))).
Definition rerr2_opt_eqb (e : rerr2) (o : option rerr2) : bool :=
  match o with Some e' => rerr2_eqb e e' | None => false end.
Definition r_agree (c : rcase) : bool :=
  is_perm (r_order c) (numa_nodes (r_info c)) &&
  match r_model c, r_obs c with
  | Ok (inl e), RErr o => rerr2_opt_eqb e o
  | Ok (inr rr), ROk ep d n => eparams_eqb (rr_engine rr) ep && wres_eqb (rr_delta rr) d && wres_eqb (rr_new rr) n
  | Panic r, RPanic o => reason_opt_eqb r o
  | OutOfFuel, RTimeout => true
  | _, _ => false
  end.
(* C06 on realloc: no crash, no non-termination *)
Definition r_ok_c06 (c : rcase) : bool :=
  if wf_info (r_info c) && validate_ok (r_info c) && valid_config (r_base c) (r_maxshare c) then
    match r_obs c with RErr _ | ROk _ _ _ => true | _ => false end
  else true.
(* C04 on realloc: the new placement fits the node once the origin has been given back *)
Definition r_ok_c04 (c : rcase) : bool :=
  let info' := realloc_info (r_info c) (r_origin c) in
  if valid_node info' && (0 <? r_base c) then
    match r_obs c with
    | ROk ep d n => match wr_cpumap n with
                    | [] => true
                    | _ => c04_plans_ok info' (wr_mem_req n) [(wr_numanode n, wr_cpumap n)]
                    end
    | _ => true
    end
  else true.
(* C05 on realloc: the pieces of a bound result are the recorded request to the nearest piece *)
Definition r_ok_c05 (c : rcase) : bool :=
  if 0 <? r_base c then
    match r_obs c with
    | ROk ep d n => match wr_cpumap n with
                    | [] => true
                    | m => c05_plan_ok (r_base c) (pieces_request (r_base c) (wr_cpu_req n)) m
                           && smap_eqb Z.eqb (ep_cpumap ep) m
                    end
    | _ => true
    end
  else true.

(* ---------- stream "pdq": Go's sort.Slice against the exact model of Cpumem/Pdqsort.v ---------- *)
Record qcase := mkQ { q_keys : list Z; q_obs : list Z }.   (* keys; observed order of the original indices *)
Fixpoint number_keys (l : list Z) (i : Z) : list (Z * Z) :=
  match l with [] => [] | k :: t => (k, i) :: number_keys t (i + 1) end.
Definition q_agree (c : qcase) : bool :=
  list_eqb' Z.eqb
    (map snd (sort_slice (Z * Z) (0, 0) (fun a b => fst a <? fst b) (number_keys (q_keys c) 0)))
    (q_obs c).
Definition q_ok (c : qcase) : bool := true.
