(* Cpumem/SchedProofsDeploy.v — lifting of the GetCPUPlans theorems to
   CalculateDeploy (doAllocByCPU): the returned workloads are a prefix of the
   plan list, so they are jointly feasible, and each records the request and the
   plan it was given. *)
From Coq Require Import String Ascii List ZArith Bool Lia Permutation.
From Verif Require Import Base.GoInt Base.GoFloat.
From Verif Require Import Cpumem.Types Cpumem.Schedule Cpumem.Calc Cpumem.SchedCase.
From Verif Require Import Cpumem.SchedProofs Cpumem.SchedProofsMem Cpumem.SchedProofsFit Cpumem.SchedProofsFit2
                          Cpumem.SchedProofsPieces Cpumem.SchedProofsTop.
Import ListNotations.
Local Open Scope Z_scope.

Definition mk_ep (req : wreq) (tp : string * plan) : eparams :=
  mkEP (rq_cpu_lim req) (snd tp) (fst tp) (rq_mem_lim req) false.
Definition mk_wr (req : wreq) (tp : string * plan) : wres :=
  mkWR (rq_cpu_req req) (rq_cpu_lim req) (rq_mem_req req) (rq_mem_lim req) (snd tp)
       (match fst tp with EmptyString => [] | nid => [(nid, rq_mem_req req)] end) (fst tp).

(* joint feasibility of a tagged plan list in a node (C04 a, b, c) *)
Definition fits (info : node_info) (mem : Z) (plans : list (string * plan)) : Prop :=
  let avail := get_available_nofloat info in
  (forall id, used (map snd plans) id <= Z.max 0 (lookup 0 (nr_cpumap avail) id))
  /\ (forall tp, In tp plans -> fst tp <> EmptyString ->
        (forall c, In c (keys (snd tp)) -> lookup_opt (nr_numa (ni_cap info)) c = Some (fst tp))
        /\ count_tag plans (fst tp) * mem <= Z.max 0 (lookup 0 (nr_numamem avail) (fst tp)))
  /\ Z.of_nat (length plans) * mem <= nr_mem avail
  /\ (forall tp c, In tp plans -> In c (snd tp) -> 0 < snd c).

Lemma count_tag_firstn n l nid : count_tag (firstn n l) nid <= count_tag l nid.
Proof.
  rewrite <- (firstn_skipn n l) at 2. rewrite count_tag_app. pose proof (count_tag_nonneg (skipn n l) nid). lia.
Qed.

Lemma fits_firstn info mem plans n : 0 <= mem -> fits info mem plans -> fits info mem (firstn n plans).
Proof.
  intros Hm (A & B & C & P). unfold fits. cbv zeta.
  assert (Nn : plans_nn (map snd plans)).
  { apply Forall_forall. intros p Hp. apply in_map_iff in Hp. destruct Hp as (tp & <- & Htp).
    apply Forall_forall. intros c Hc. specialize (P tp c Htp Hc). lia. }
  split; [|split; [|split]].
  - intros id. rewrite <- firstn_map. pose proof (used_firstn_le n (map snd plans) id Nn). specialize (A id). lia.
  - intros tp Hin Hne. apply In_firstn_in in Hin. destruct (B tp Hin Hne) as (B1 & B2). split; auto.
    pose proof (count_tag_firstn n plans (fst tp)).
    assert (count_tag (firstn n plans) (fst tp) * mem <= count_tag plans (fst tp) * mem) by (apply Z.mul_le_mono_nonneg_r; auto).
    lia.
  - assert (Z.of_nat (length (firstn n plans)) * mem <= Z.of_nat (length plans) * mem) by (apply Z.mul_le_mono_nonneg_r; [lia|rewrite firstn_length; lia]).
    lia.
  - intros tp c Hin Hc. apply In_firstn_in in Hin. eauto.
Qed.

Section Deploy.
Variable sortf : list keyed -> outcome (list keyed).
Hypothesis sortf_perm : forall l, exists l', sortf l = Ok l' /\ Permutation l' l.

Lemma deploy_struct info base maxshare count raw order fuel eps ws req :
  calculate_deploy_g sortf info base maxshare count raw order fuel = Ok (inr (eps, ws)) ->
  wreq_validate raw = inr req -> rq_bind req = true ->
  exists plans, get_cpu_plans_g sortf info [] base maxshare req order fuel = Ok plans
    /\ 0 <= count <= Z.of_nat (length plans)
    /\ eps = map (mk_ep req) (firstn (Z.to_nat count) plans)
    /\ ws = map (mk_wr req) (firstn (Z.to_nat count) plans).
Proof.
  unfold calculate_deploy_g. intros H Ev Eb. rewrite Ev, Eb in H. simpl in H.
  unfold do_alloc_by_cpu_g in H. apply bind_ok in H. destruct H as (plans & Ep & H).
  exists plans. split; auto.
  destruct (Z.of_nat (length plans) <? count) eqn:E1; [discriminate|]. apply Z.ltb_ge in E1.
  destruct (count <? 0) eqn:E2; [discriminate|]. apply Z.ltb_ge in E2.
  inversion H; subst. split; [lia|]. split; reflexivity.
Qed.

Theorem deploy_recorded info base maxshare count raw order fuel eps ws req k :
  calculate_deploy_g sortf info base maxshare count raw order fuel = Ok (inr (eps, ws)) ->
  wreq_validate raw = inr req -> rq_bind req = true ->
  wf_maps info -> NoDup order ->
  1 <= k < 2^50 -> 1 <= base <= 2^53 -> rq_cpu_req req = decimal_request k base ->
  length eps = length ws
  /\ forall i w e, nth_error ws i = Some w -> nth_error eps i = Some e ->
       wr_cpu_req w = decimal_request k base
       /\ total_pieces (wr_cpumap w) = k
       /\ c05_plan_ok base k (wr_cpumap w) = true
       /\ ep_cpumap e = wr_cpumap w.
Proof.
  intros H Ev Eb Wf Nd Hk Hb Er.
  destruct (deploy_struct _ _ _ _ _ _ _ _ _ _ H Ev Eb) as (plans & Ep & Hc & -> & ->).
  split; [rewrite !map_length; reflexivity|].
  intros i w e Hw He. rewrite nth_error_map in Hw, He.
  destruct (nth_error (firstn (Z.to_nat count) plans) i) as [tp|] eqn:En; [|discriminate].
  simpl in Hw, He. inversion Hw; inversion He; subst; clear Hw He.
  assert (Hin : In tp plans) by (eapply In_firstn_in; eapply nth_error_In; eauto).
  destruct (plans_exact sortf sortf_perm _ _ _ _ _ _ _ _ k Ep Wf Nd Hk Hb Er tp Hin) as (O5 & p0 & fr & _ & _ & _ & _ & Tp).
  simpl. auto.
Qed.

(* C04 (a) (b) (c) for the workloads CalculateDeploy returns *)
Theorem deploy_fit info base maxshare count raw order fuel eps ws req :
  calculate_deploy_g sortf info base maxshare count raw order fuel = Ok (inr (eps, ws)) ->
  wreq_validate raw = inr req -> rq_bind req = true ->
  wf_maps info -> NoDup order -> ~ In EmptyString order -> 0 < base ->
  0 <= rq_mem_req req -> 0 <= nr_mem (get_available_nofloat info) ->
  Z.of_nat (length ws) = count
  /\ fits info (rq_mem_req req) (tagged_of ws)
  /\ (forall w, In w ws -> wr_mem_req w = rq_mem_req req
        /\ wr_numamem w = match wr_numanode w with EmptyString => [] | nid => [(nid, rq_mem_req req)] end).
Proof.
  intros H Ev Eb Wf Nd Hne Hb Hm Hfree.
  destruct (deploy_struct _ _ _ _ _ _ _ _ _ _ H Ev Eb) as (plans & Ep & Hc & -> & ->).
  pose proof (plans_fit sortf sortf_perm _ _ _ _ _ _ _ _ Ep Wf Nd Hne Hb Hm Hfree) as F. cbv zeta in F.
  assert (Ff : fits info (rq_mem_req req) plans).
  { destruct F as (A & B & C & P). unfold fits; cbv zeta. repeat split; auto; apply (B tp H0 H1). }
  assert (Et : tagged_of (map (mk_wr req) (firstn (Z.to_nat count) plans)) = firstn (Z.to_nat count) plans).
  { unfold tagged_of. rewrite map_map. simpl. rewrite <- (map_id (firstn _ plans)) at 2.
    apply map_ext. intros [a b]; reflexivity. }
  split; [rewrite map_length, firstn_length; lia|]. split.
  - rewrite Et. apply fits_firstn; auto.
  - intros w Hw. apply in_map_iff in Hw. destruct Hw as (tp & <- & _). simpl. auto.
Qed.
End Deploy.
