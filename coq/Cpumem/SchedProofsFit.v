(* Cpumem/SchedProofsFit.v — content of the plans returned by the scheduler
   model: per-core joint feasibility (C04 a) and the shape of every plan
   (C05: [full] cores at exactly the share base plus at most one core carrying
   the fragment).  Proved for any permuting final sort. *)
From Coq Require Import String Ascii List ZArith Bool Lia Permutation.
From Verif Require Import Base.GoInt Base.GoFloat Base.GoHeap Base.GoHeapSpec.
From Verif Require Import Cpumem.Types Cpumem.Schedule Cpumem.SchedProofs Cpumem.SchedProofsMem.
Import ListNotations.
Local Open Scope Z_scope.

(* ---------- amounts ---------- *)
Definition ids (l : list core) : list string := map cid l.
Definition amount (l : list core) (id : string) : Z :=
  fold_right (fun c s => (if String.eqb (cid c) id then cpieces c else 0) + s) 0 l.
Definition cnt (l : list core) (id : string) : Z :=
  fold_right (fun c s => (if String.eqb (cid c) id then 1 else 0) + s) 0 l.
Definition used (ps : list plan) (id : string) : Z := fold_right (fun p s => lookup 0 p id + s) 0 ps.

Lemma amount_app l1 l2 id : amount (l1 ++ l2) id = amount l1 id + amount l2 id.
Proof. induction l1; simpl; lia. Qed.
Lemma amount_perm l1 l2 id : Permutation l1 l2 -> amount l1 id = amount l2 id.
Proof. induction 1; simpl; lia. Qed.
Lemma cnt_app l1 l2 id : cnt (l1 ++ l2) id = cnt l1 id + cnt l2 id.
Proof. induction l1; simpl; lia. Qed.
Lemma cnt_nonneg l id : 0 <= cnt l id.
Proof. induction l as [|c t IH]; simpl; [lia|]. destruct (String.eqb (cid c) id); lia. Qed.
Lemma used_app l1 l2 id : used (l1 ++ l2) id = used l1 id + used l2 id.
Proof. induction l1; simpl; lia. Qed.
Lemma used_perm l1 l2 id : Permutation l1 l2 -> used l1 id = used l2 id.
Proof. induction 1; simpl; lia. Qed.
Lemma used_rev l id : used (rev l) id = used l id.
Proof. apply used_perm. apply Permutation_sym, Permutation_rev. Qed.

Lemma amount_nonneg_pos l id : Forall posp l -> 0 <= amount l id.
Proof.
  intros H. induction H as [|c t Hc Ht IH]; simpl; [lia|].
  unfold posp in Hc. destruct (String.eqb (cid c) id); lia.
Qed.
Lemma fullp_posp base l : 0 < base -> Forall (fullp base) l -> Forall posp l.
Proof.
  intros Hb H. eapply Forall_impl; [|exact H]. intros c Hc.
  pose proof (fullp_pos _ _ Hb Hc). unfold posp. lia.
Qed.

Lemma cnt_notin l id : ~ In id (ids l) -> cnt l id = 0.
Proof.
  induction l as [|c t IH]; simpl; intros H; auto.
  destruct (String.eqb_spec (cid c) id) as [E|N]; [exfalso; auto|].
  rewrite IH; auto.
Qed.
Lemma amount_notin l id : ~ In id (ids l) -> amount l id = 0.
Proof.
  induction l as [|c t IH]; simpl; intros H; auto.
  destruct (String.eqb_spec (cid c) id) as [E|N]; [exfalso; auto|].
  rewrite IH; auto.
Qed.
Lemma cnt_nodup l id : NoDup (ids l) -> cnt l id = 0 \/ cnt l id = 1.
Proof.
  induction l as [|c t IH]; simpl; intros H; auto.
  inversion H as [|? ? Hn Ht]; subst.
  destruct (String.eqb_spec (cid c) id) as [E|N].
  - subst. rewrite cnt_notin; auto.
  - destruct (IH Ht); lia.
Qed.

(* ---------- association lists ---------- *)
Lemma upd_notin {V} (m : smap V) k v : ~ In k (keys m) -> upd m k v = m ++ [(k, v)].
Proof.
  induction m as [|[k' v'] t IH]; simpl; intros H; auto.
  destruct (String.eqb_spec k k') as [E|N]; [exfalso; auto|].
  rewrite IH; auto.
Qed.
Lemma lookup_notin (m : smap Z) k : ~ In k (keys m) -> lookup 0 m k = 0.
Proof.
  unfold lookup. induction m as [|[k' v'] t IH]; simpl; intros H; auto.
  destruct (String.eqb_spec k k') as [E|N]; [exfalso; auto|]. apply IH; auto.
Qed.
Lemma keys_app {V} (a b : smap V) : keys (a ++ b) = keys a ++ keys b.
Proof. unfold keys. apply map_app. Qed.
Lemma lookup_app (a b : smap Z) k : ~ In k (keys a) -> lookup 0 (a ++ b) k = lookup 0 b k.
Proof.
  unfold lookup. induction a as [|[k' v'] t IH]; simpl; intros H; auto.
  destruct (String.eqb_spec k k') as [E|N]; [exfalso; auto|]. apply IH; auto.
Qed.
Lemma lookup_app_l (a b : smap Z) k : In k (keys a) -> lookup 0 (a ++ b) k = lookup 0 a k.
Proof.
  unfold lookup. induction a as [|[k' v'] t IH]; simpl; intros H; [tauto|].
  destruct (String.eqb_spec k k') as [E|N]; auto. apply IH. destruct H; [congruence|auto].
Qed.
Lemma lookup_single k v k' : lookup 0 [(k, v)] k' = if String.eqb k' k then v else 0.
Proof. unfold lookup. simpl. destruct (String.eqb k' k); reflexivity. Qed.

(* a plan built from distinct cores, every core at [v] pieces *)
Definition plan_of (ch : list core) (v : Z) : plan := map (fun c => (cid c, v)) ch.
Lemma keys_plan_of ch v : keys (plan_of ch v) = ids ch.
Proof. unfold keys, plan_of, ids. rewrite map_map. reflexivity. Qed.
Lemma lookup_plan_of ch v id : NoDup (ids ch) -> lookup 0 (plan_of ch v) id = v * cnt ch id.
Proof.
  unfold lookup. induction ch as [|c t IH]; simpl; intros H; [lia|].
  inversion H as [|? ? Hn Ht]; subst.
  rewrite String.eqb_sym.
  destruct (String.eqb_spec (cid c) id) as [E|N].
  - subst. rewrite cnt_notin by auto. lia.
  - rewrite IH by auto. lia.
Qed.
Lemma fold_upd_plan_of base ch : forall p, NoDup (keys p ++ ids ch) ->
  fold_left (fun p c => upd p (cid c) base) ch p = p ++ plan_of ch base.
Proof.
  induction ch as [|c t IH]; intros p H; simpl; [rewrite app_nil_r; auto|].
  rewrite upd_notin.
  2:{ intro Hin. apply NoDup_remove_2 in H. apply H. apply in_or_app; auto. }
  rewrite IH.
  - rewrite <- app_assoc. reflexivity.
  - rewrite keys_app. simpl. rewrite <- app_assoc. simpl.
    eapply Permutation_NoDup; [|exact H]. apply Permutation_app_head. apply Permutation_refl.
Qed.

(* ---------- shape of a plan made of whole cores ---------- *)
Definition full_shape (base full : Z) (IDS : list string) (p : plan) : Prop :=
  NoDup (keys p) /\ Z.of_nat (length p) = full /\ Forall (fun kv => snd kv = base) p /\ incl (keys p) IDS.

Lemma amount_pop h c h' id : Permutation h (c :: h') ->
  amount h id = (if String.eqb (cid c) id then cpieces c else 0) + amount h' id.
Proof. intros P. rewrite (amount_perm _ _ id P). reflexivity. Qed.

Lemma ids_perm l1 l2 : Permutation l1 l2 -> Permutation (ids l1) (ids l2).
Proof. apply Permutation_map. Qed.

Notation hpop := (GoHeap.pop dcore heap_less).
Notation hpush := (GoHeap.push dcore heap_less).

Lemma pop_n_content base : 0 < base -> forall k h p push p' push' h',
  pop_n k base h p push = Ok (p', push', h') ->
  Forall (fullp base) h ->
  NoDup (keys p ++ ids h) -> NoDup (ids push ++ ids h) -> incl (ids push) (keys p) ->
  Forall (fun kv => snd kv = base) p ->
  (forall id, lookup 0 p' id + amount push' id + amount h' id = lookup 0 p id + amount push id + amount h id)
  /\ NoDup (keys p' ++ ids h') /\ NoDup (ids push' ++ ids h') /\ incl (ids push') (keys p')
  /\ Forall (fun kv => snd kv = base) p'
  /\ length p' = (length p + k)%nat
  /\ incl (keys p') (keys p ++ ids h) /\ incl (ids h') (ids h).
Proof.
  intros Hb. induction k as [|k IH]; intros h p push p' push' h' H Hf N1 N2 I1 V; cbn [pop_n] in H.
  - inversion H; subst. repeat split; auto; try lia.
    + intros x Hx. apply in_or_app; auto.
    + apply incl_refl.
  - destruct (hpop h) as [[c h1]|] eqn:Ep; [|discriminate].
    pose proof (pop_perm _ dcore heap_less h c h1 Ep) as Pm.
    assert (Hf1 : Forall (fullp base) (c :: h1)) by (eapply Permutation_Forall; eauto).
    inversion Hf1 as [|? ? Hc Hh1]; subst.
    assert (Pi : Permutation (ids h) (cid c :: ids h1)) by (apply (ids_perm _ _ Pm)).
    assert (N1' : NoDup (keys p ++ cid c :: ids h1)).
    { eapply Permutation_NoDup; [|exact N1]. apply Permutation_app_head; auto. }
    assert (Hcp : ~ In (cid c) (keys p)).
    { intro Hin. apply NoDup_remove_2 in N1'. apply N1'. apply in_or_app; auto. }
    assert (N2' : NoDup (ids push ++ cid c :: ids h1)).
    { eapply Permutation_NoDup; [|exact N2]. apply Permutation_app_head; auto. }
    set (r := cpieces c - base) in *.
    set (push1 := if 0 <? r then push ++ [mkCore (cid c) r] else push) in *.
    assert (Ipush1 : incl (ids push1) (keys (upd p (cid c) base))).
    { rewrite upd_notin by auto. rewrite keys_app. simpl. unfold push1.
      destruct (0 <? r).
      - unfold ids. rewrite map_app. simpl. intros x Hx. apply in_app_or in Hx.
        apply in_or_app. destruct Hx as [Hx|Hx]; [left; apply I1; auto|right; auto].
      - intros x Hx. apply in_or_app. left. apply I1; auto. }
    assert (Nk : NoDup (keys (upd p (cid c) base) ++ ids h1)).
    { rewrite upd_notin by auto. rewrite keys_app. simpl. rewrite <- app_assoc. simpl. exact N1'. }
    assert (Np : NoDup (ids push1 ++ ids h1)).
    { unfold push1. destruct (0 <? r).
      - unfold ids at 1. rewrite map_app. simpl. rewrite <- app_assoc. simpl. exact N2'.
      - apply NoDup_remove_1 in N2'. exact N2'. }
    assert (Vp : Forall (fun kv => snd kv = base) (upd p (cid c) base)).
    { rewrite upd_notin by auto. apply Forall_app; split; auto. }
    destruct (IH h1 (upd p (cid c) base) push1 p' push' h' H Hh1 Nk Np Ipush1 Vp)
      as (A & B1 & B2 & B3 & B4 & B5 & B6 & B7).
    split; [|split; [|split; [|split; [|split; [|split; [|split]]]]]]; auto.
    + intros id. rewrite A. rewrite (amount_pop h c h1 id Pm).
      rewrite upd_notin by auto.
      destruct Hc as (q & Hq & Eq).
      assert (Ap : amount push1 id = amount push id + (if String.eqb (cid c) id then r else 0)).
      { unfold push1. destruct (0 <? r) eqn:Er.
        - rewrite amount_app. simpl. lia.
        - apply Z.ltb_ge in Er. assert (r = 0) by (unfold r in *; nia).
          destruct (String.eqb (cid c) id); lia. }
      rewrite Ap.
      destruct (String.eqb_spec (cid c) id) as [E|N].
      * subst id. rewrite lookup_app by auto. rewrite lookup_single, String.eqb_refl.
        rewrite (lookup_notin p) by auto. unfold r. lia.
      * destruct (in_dec string_dec id (keys p)) as [Hi|Hi].
        -- rewrite lookup_app_l by auto. lia.
        -- rewrite lookup_app by auto. rewrite lookup_single.
           destruct (String.eqb_spec id (cid c)); [congruence|]. rewrite (lookup_notin p) by auto. lia.
    + rewrite B5. rewrite upd_notin by auto. rewrite app_length. simpl. lia.
    + intros x Hx. apply B6 in Hx. rewrite upd_notin in Hx by auto. rewrite keys_app in Hx. simpl in Hx.
      apply in_app_or in Hx. apply in_or_app. destruct Hx as [Hx|Hx].
      * apply in_app_or in Hx. destruct Hx as [Hx|[Hx|[]]]; [left; auto|].
        right. subst x. eapply Permutation_in; [apply Permutation_sym; exact Pi|]. left; auto.
      * right. eapply Permutation_in; [apply Permutation_sym; exact Pi|]. right; auto.
    + intros x Hx. apply B7 in Hx. eapply Permutation_in; [apply Permutation_sym; exact Pi|]. right; auto.
Qed.

Lemma NoDup_app_l {A} (l1 l2 : list A) : NoDup (l1 ++ l2) -> NoDup l1.
Proof. induction l2 as [|x t IH]; [rewrite app_nil_r; auto|]. intros H. apply NoDup_remove_1 in H. auto. Qed.

Lemma full_loop_content base full IDS : 0 < base -> 1 <= full -> forall fuel h acc r,
  full_loop fuel base full h acc = Ok r ->
  Forall (fullp base) h -> NoDup (ids h) -> incl (ids h) IDS ->
  Forall (full_shape base full IDS) acc ->
  (forall id, used r id <= used acc id + amount h id)
  /\ Forall (full_shape base full IDS) r.
Proof.
  intros Hb Hf. induction fuel as [|fuel IH]; intros h acc r H Hh Nd Inc Sa; cbn [full_loop] in H; [discriminate|].
  destruct (Z.of_nat (length h) <? full) eqn:El.
  - inversion H; subst. split.
    + intros id. rewrite used_rev. pose proof (amount_nonneg_pos h id (fullp_posp base h Hb Hh)). lia.
    + apply Forall_rev; auto.
  - apply Z.ltb_ge in El.
    assert (Q1 : (Z.to_nat full <= length h)%nat) by lia.
    assert (Q2 : Forall (fullp base) []) by constructor.
    assert (Q3 : plan_nn []) by constructor.
    destruct (pop_n_ok base Hb (Z.to_nat full) h [] [] Q1 Hh Q2 Q3) as (p' & push' & h' & E & F1 & F2 & _ & _).
    rewrite E in H. cbn [bind] in H.
    assert (P1 : NoDup (keys (@nil (string * Z)) ++ ids h)) by exact Nd.
    assert (P2' : NoDup (ids [] ++ ids h)) by exact Nd.
    assert (P3 : incl (ids []) (keys (@nil (string * Z)))) by (intros y []).
    assert (P4 : Forall (fun kv : string * Z => snd kv = base) []) by constructor.
    destruct (pop_n_content base Hb _ _ _ _ _ _ _ E Hh P1 P2' P3 P4) as (A & B1 & B2 & B3 & B4 & B5 & B6 & B7).
    set (h2 := fold_left hpush push' h') in *.
    pose proof (fold_push_perm push' h') as P2. fold h2 in P2.
    destruct (IH h2 (p' :: acc) r H) as (U & S).
    + eapply Permutation_Forall; [apply Permutation_sym; exact P2|]. apply Forall_app; auto.
    + eapply Permutation_NoDup; [apply Permutation_sym; apply (ids_perm _ _ P2)|].
      unfold ids. rewrite map_app. exact B2.
    + intros y Hx. apply (Permutation_in _ (ids_perm _ _ P2)) in Hx. unfold ids in Hx. rewrite map_app in Hx.
      apply in_app_or in Hx. destruct Hx as [Hx|Hx].
      * apply B3 in Hx. apply B6 in Hx. simpl in Hx. auto.
      * apply B7 in Hx. auto.
    + constructor; auto. split; [apply NoDup_app_l in B1; auto|]. split; [rewrite B5; simpl; lia|].
      split; auto. intros y Hx. apply B6 in Hx. simpl in Hx. auto.
    + split; auto. intros id. specialize (U id). specialize (A id).
      rewrite (amount_perm _ _ id P2), amount_app in U. simpl in U, A.
      unfold lookup in A. simpl in A. unfold lookup in U. lia.
Qed.

(* ---------- getFullCPUPlansWithAffinity ---------- *)
Definition temp_of (base : Z) (l : list core) : list core :=
  flat_map (fun c => let r := cpieces c - base in if 0 <? r then [mkCore (cid c) r] else []) l.

Lemma temp_cons base c t : temp_of base (c :: t) =
  (if 0 <? cpieces c - base then [mkCore (cid c) (cpieces c - base)] else []) ++ temp_of base t.
Proof. reflexivity. Qed.
Lemma amount_cons c t id : amount (c :: t) id = (if String.eqb (cid c) id then cpieces c else 0) + amount t id.
Proof. reflexivity. Qed.
Lemma cnt_cons c t id : cnt (c :: t) id = (if String.eqb (cid c) id then 1 else 0) + cnt t id.
Proof. reflexivity. Qed.
Lemma ids_cons c t : ids (c :: t) = cid c :: ids t.
Proof. reflexivity. Qed.
Lemma ids_app l1 l2 : ids (l1 ++ l2) = ids l1 ++ ids l2.
Proof. unfold ids. apply map_app. Qed.

Lemma temp_amount base l id : 0 < base -> Forall (fullp base) l ->
  amount (temp_of base l) id = amount l id - base * cnt l id.
Proof.
  intros Hb H. induction H as [|c t Hc Ht IH]; [cbn [temp_of flat_map amount cnt fold_right]; lia|].
  rewrite temp_cons, amount_app, IH, amount_cons, cnt_cons. destruct Hc as (q & Hq & Eq).
  destruct (0 <? cpieces c - base) eqn:Er.
  - rewrite amount_cons. cbn [cid cpieces]. change (amount [] id) with 0.
    destruct (String.eqb (cid c) id); lia.
  - change (amount [] id) with 0. apply Z.ltb_ge in Er.
    destruct (String.eqb (cid c) id); nia.
Qed.

Lemma temp_incl base l : incl (ids (temp_of base l)) (ids l).
Proof.
  induction l as [|c t IH]; [apply incl_refl|].
  rewrite temp_cons, ids_app, ids_cons. intros y Hy. apply in_app_or in Hy.
  destruct Hy as [Hy|Hy]; [|right; apply IH; exact Hy].
  destruct (0 <? cpieces c - base); simpl in Hy; [destruct Hy as [Hy|[]]; left; auto|tauto].
Qed.

Lemma temp_nodup base l X : NoDup (ids l ++ X) -> NoDup (ids (temp_of base l) ++ X).
Proof.
  induction l as [|c t IH]; intros H; auto.
  rewrite ids_cons in H. simpl in H. inversion H as [|? ? Hn Ht]; subst.
  rewrite temp_cons, ids_app, <- app_assoc.
  destruct (0 <? cpieces c - base).
  - simpl. constructor; [|apply IH; exact Ht].
    intro Hy. apply Hn. apply in_app_or in Hy. apply in_or_app.
    destruct Hy as [Hy|Hy]; auto. left. apply (temp_incl base). exact Hy.
  - simpl. apply IH. exact Ht.
Qed.

Lemma firstn_plus {A} (a b : nat) (l : list A) : firstn (a + b) l = firstn a l ++ firstn b (skipn a l).
Proof.
  revert l. induction a as [|a IH]; intros l; simpl; auto.
  destruct l as [|x t]; simpl; [rewrite firstn_nil; reflexivity|]. rewrite IH. reflexivity.
Qed.

Lemma NoDup_app_r {A} (l1 l2 : list A) : NoDup (l1 ++ l2) -> NoDup l2.
Proof. induction l1 as [|x t IH]; simpl; auto. intros H. inversion H; auto. Qed.

Lemma ids_firstn_skipn n l : ids l = ids (firstn n l) ++ ids (skipn n l).
Proof. unfold ids. rewrite <- map_app, firstn_skipn. reflexivity. Qed.

Lemma chunks_content base IDS k : (0 < k)%nat -> forall n l,
  NoDup (ids l) -> (n * k <= length l)%nat -> incl (ids l) IDS ->
  let plans := map (fun ch => fold_left (fun p c => upd p (cid c) base) ch []) (chunks n k l) in
  (forall id, used plans id = base * cnt (firstn (n * k) l) id)
  /\ Forall (full_shape base (Z.of_nat k) IDS) plans.
Proof.
  intros Hk. induction n as [|n IH]; intros l Nd Hl Inc; cbn [chunks map].
  - split; [intros id; simpl; lia|constructor].
  - cbv zeta in *. rewrite (ids_firstn_skipn k l) in Nd.
    assert (Nf : NoDup (ids (firstn k l))) by (apply NoDup_app_l in Nd; auto).
    assert (Ns : NoDup (ids (skipn k l))) by (apply NoDup_app_r in Nd; auto).
    assert (Ls : (n * k <= length (skipn k l))%nat) by (rewrite skipn_length; simpl in Hl; lia).
    assert (Is : incl (ids (skipn k l)) IDS).
    { intros y Hy. apply Inc. rewrite (ids_firstn_skipn k l). apply in_or_app; auto. }
    destruct (IH (skipn k l) Ns Ls Is) as (U & Sh).
    rewrite (fold_upd_plan_of base (firstn k l) []) by exact Nf. cbn [app].
    split.
    + intros id. cbn [used fold_right]. fold (used (map (fun ch => fold_left (fun p c => upd p (cid c) base) ch []) (chunks n k (skipn k l))) id).
      rewrite U, lookup_plan_of by auto.
      replace (S n * k)%nat with (k + n * k)%nat by lia. rewrite firstn_plus, cnt_app. lia.
    + constructor; auto. split; [rewrite keys_plan_of; auto|].
      split; [unfold plan_of; rewrite map_length, firstn_length; simpl in Hl; lia|].
      split; [unfold plan_of; apply Forall_forall; intros kv Hkv; apply in_map_iff in Hkv; destruct Hkv as (c & <- & _); reflexivity|].
      rewrite keys_plan_of. intros y Hy. apply Inc. rewrite (ids_firstn_skipn k l). apply in_or_app; auto.
Qed.

Lemma aff_loop_content base full IDS : 0 < base -> 1 <= full -> forall fuel cores acc r,
  aff_loop fuel base full cores acc = Ok r ->
  Forall (fullp base) cores -> NoDup (ids cores) -> incl (ids cores) IDS ->
  Forall (full_shape base full IDS) acc ->
  (forall id, used r id <= used acc id + amount cores id)
  /\ Forall (full_shape base full IDS) r.
Proof.
  intros Hb Hf. induction fuel as [|fuel IH]; intros cores acc r H Hc Nd Inc Sa; cbn [aff_loop] in H; [discriminate|].
  cbv zeta in H.
  destruct (Z.of_nat (length cores) <? full) eqn:El.
  - inversion H; subst. split; auto. intros id.
    pose proof (amount_nonneg_pos cores id (fullp_posp base cores Hb Hc)). lia.
  - apply Z.ltb_ge in El.
    replace (full =? 0) with false in H by (symmetry; apply Z.eqb_neq; lia).
    set (len := Z.of_nat (length cores)) in *.
    set (count := Z.quot len full) in *.
    assert (Hcount : 1 <= count /\ count * full <= len).
    { unfold count. pose proof (Z.quot_rem' len full).
      pose proof (Z.rem_bound_pos len full ltac:(lia) ltac:(lia)).
      split; [|nia]. destruct (Z_lt_le_dec (Z.quot len full) 1); [|lia]. nia. }
    set (usedn := Z.to_nat (count * full)) in *.
    assert (Hused : (usedn <= length cores)%nat) by (unfold usedn, len in *; lia).
    assert (Emul : (Z.to_nat count * Z.to_nat full)%nat = usedn) by (unfold usedn; rewrite Z2Nat.inj_mul; lia).
    fold (temp_of base (firstn usedn cores)) in H.
    destruct (chunks_content base IDS (Z.to_nat full) ltac:(lia) (Z.to_nat count) cores Nd ltac:(lia) Inc) as (U & Sh).
    cbv zeta in U, Sh. rewrite Emul in U. rewrite Z2Nat.id in Sh by lia.
    set (plans := map (fun ch => fold_left (fun p c => upd p (cid c) base) ch []) (chunks (Z.to_nat count) (Z.to_nat full) cores)) in *.
    assert (Hfs : Forall (fullp base) (firstn usedn cores)) by (apply Forall_firstn'; auto).
    destruct (temp_cores base (firstn usedn cores) Hb Hfs) as [T1 _]. cbv zeta in T1. fold (temp_of base (firstn usedn cores)) in T1.
    destruct (IH _ _ _ H) as (U2 & S2).
    + apply Forall_app; split; auto. apply Forall_skipn'; auto.
    + unfold ids. rewrite map_app. apply temp_nodup. rewrite <- ids_firstn_skipn. exact Nd.
    + unfold ids. rewrite map_app. intros y Hy. apply Inc. rewrite (ids_firstn_skipn usedn cores).
      apply in_app_or in Hy. apply in_or_app. destruct Hy as [Hy|Hy]; auto. left. apply (temp_incl base). exact Hy.
    + apply Forall_app; split; auto.
    + split; auto. intros id. specialize (U2 id). rewrite used_app, amount_app in U2.
      rewrite (temp_amount base _ id Hb Hfs) in U2. rewrite U in U2.
      assert (amount cores id = amount (firstn usedn cores) id + amount (skipn usedn cores) id).
      { rewrite <- amount_app, firstn_skipn. reflexivity. }
      lia.
Qed.

(* ---------- getFullCPUPlans / getFragmentCPUPlans ---------- *)
Definition frag_shape (fragment : Z) (IDS : list string) (p : plan) : Prop :=
  exists k, p = [(k, fragment)] /\ In k IDS.

Lemma fragment_plans_content cores fragment r : 0 < fragment -> Forall posp cores ->
  get_fragment_plans cores fragment = Ok r ->
  (forall id, used r id <= amount cores id) /\ Forall (frag_shape fragment (ids cores)) r.
Proof.
  intros Hf Hp H. unfold get_fragment_plans in H.
  assert (E : r = flat_map (fun c => repeat_plan (Z.to_nat (Z.quot (cpieces c) fragment)) [(cid c, fragment)]) cores).
  { destruct cores; [inversion H; reflexivity|].
    replace (fragment =? 0) with false in H by (symmetry; apply Z.eqb_neq; lia). inversion H; reflexivity. }
  subst r. clear H.
  assert (R : forall n k id, used (repeat_plan n [(k, fragment)]) id = Z.of_nat n * (if String.eqb id k then fragment else 0)).
  { induction n as [|n IHn]; intros k id; [reflexivity|].
    cbn [repeat_plan used fold_right]. fold (used (repeat_plan n [(k, fragment)]) id).
    rewrite IHn, lookup_single, Nat2Z.inj_succ. lia. }
  induction Hp as [|c t Hc Ht IH]; [split; [intros; simpl; lia|constructor]|].
  destruct IH as (U & Sh). cbn [flat_map]. split.
  - intros id. rewrite used_app, R, amount_cons. specialize (U id).
    rewrite String.eqb_sym. unfold posp in Hc.
    assert (0 <= Z.quot (cpieces c) fragment) by (apply Z.quot_pos; lia).
    rewrite Z2Nat.id by lia.
    pose proof (Z.quot_rem' (cpieces c) fragment). pose proof (Z.rem_bound_pos (cpieces c) fragment ltac:(lia) ltac:(lia)).
    destruct (String.eqb (cid c) id); nia.
  - apply Forall_app; split.
    + clear. induction (Z.to_nat (Z.quot (cpieces c) fragment)); simpl; constructor; auto.
      exists (cid c). split; auto. left; reflexivity.
    + eapply Forall_impl; [|exact Sh]. intros p (k & -> & Hk). exists k. split; auto. right; auto.
Qed.

Section GenericFit.
Variable sortf : list keyed -> outcome (list keyed).
Hypothesis sortf_perm : forall l, exists l', sortf l = Ok l' /\ Permutation l' l.

Lemma full_plans_content base aff cores full fuel r IDS : 0 < base -> 1 <= full ->
  get_full_plans_g sortf base aff cores full fuel = Ok r ->
  Forall (fullp base) cores -> NoDup (ids cores) -> incl (ids cores) IDS ->
  (forall id, used r id <= amount cores id) /\ Forall (full_shape base full IDS) r.
Proof.
  intros Hb Hf H Hc Nd Inc. unfold get_full_plans_g in H. destruct aff.
  - destruct (aff_loop_content base full IDS Hb Hf _ _ _ _ H Hc Nd Inc ltac:(constructor)) as (U & Sh).
    split; auto.
  - apply bind_ok in H. destruct H as (res & E & H).
    apply bind_ok in H. destruct H as (sorted & Es & H). inversion H; subst; clear H.
    destruct (sortf_perm (map (fun p => (sum_of_ids cores p, p)) res)) as (l' & El & Pl).
    rewrite El in Es. inversion Es; subst l'; clear Es.
    assert (Pr : Permutation (map snd sorted) res).
    { eapply perm_trans; [apply Permutation_map; exact Pl|]. rewrite map_map. simpl. rewrite map_id. apply Permutation_refl. }
    pose proof (init_perm _ dcore heap_less cores) as Pi.
    destruct (full_loop_content base full IDS Hb Hf _ _ _ _ E) as (U & Sh).
    + eapply Permutation_Forall; [apply Permutation_sym; exact Pi|]; auto.
    + eapply Permutation_NoDup; [apply Permutation_sym; apply (ids_perm _ _ Pi)|]; auto.
    + intros y Hy. apply Inc. eapply Permutation_in; [apply (ids_perm _ _ Pi)|]; auto.
    + constructor.
    + split.
      * intros id. rewrite (used_perm _ _ id Pr). specialize (U id). simpl in U.
        rewrite (amount_perm _ _ id Pi) in U. lia.
      * eapply Permutation_Forall; [apply Permutation_sym; exact Pr|]; auto.
Qed.
End GenericFit.

(* ---------- pairing whole-core plans with fragment plans ---------- *)
Definition plan_shape (base full fragment : Z) (IDS : list string) (p : plan) : Prop :=
  exists p0 fr, p = p0 ++ fr /\ NoDup (keys p) /\ Z.of_nat (length p0) = full
    /\ Forall (fun kv => snd kv = base) p0
    /\ ((fragment = 0 /\ fr = []) \/ (0 < fragment /\ exists k, fr = [(k, fragment)]))
    /\ incl (keys p) IDS.

Lemma cpumap_add_fresh (c1 : plan) : forall c, NoDup (keys c ++ keys c1) -> cpumap_add c c1 = c ++ c1.
Proof.
  unfold cpumap_add. induction c1 as [|[k v] t IH]; intros c H; simpl; [rewrite app_nil_r; auto|].
  assert (Hk : ~ In k (keys c)).
  { intro Hin. simpl in H. apply NoDup_remove_2 in H. apply H. apply in_or_app; auto. }
  rewrite (lookup_notin c k Hk), Z.add_0_l, upd_notin by auto.
  rewrite IH.
  - rewrite <- app_assoc. reflexivity.
  - rewrite keys_app. simpl. rewrite <- app_assoc. simpl. simpl in H. exact H.
Qed.

Lemma full_shape_nn base full IDS p : 0 < base -> full_shape base full IDS p -> plan_nn p.
Proof. intros Hb (_ & _ & V & _). eapply Forall_impl; [|exact V]. simpl. intros kv E. lia. Qed.
Lemma frag_shape_nn f IDS p : 0 < f -> frag_shape f IDS p -> plan_nn p.
Proof. intros Hf (k & -> & _). constructor; [simpl; lia|constructor]. Qed.

Lemma used_nonneg l id : plans_nn l -> 0 <= used l id.
Proof.
  intros H. induction H as [|q t Hq Ht IH]; simpl; [lia|]. pose proof (lookup_nn q id Hq). lia.
Qed.
Lemma used_firstn_le n l id : plans_nn l -> used (firstn n l) id <= used l id.
Proof.
  intros H. revert n. induction H as [|p t Hp Ht IH]; intros n.
  - rewrite firstn_nil. lia.
  - destruct n as [|n].
    + simpl. pose proof (lookup_nn p id Hp). pose proof (used_nonneg t id Ht). lia.
    + simpl. specialize (IH n). lia.
Qed.
Lemma NoDup_snoc {A} (l : list A) k : NoDup l -> ~ In k l -> NoDup (l ++ [k]).
Proof.
  intros N H. eapply Permutation_NoDup; [apply Permutation_cons_append|]. constructor; auto.
Qed.

Lemma zip_content base full f I0 I1 : 0 < base -> 0 < f ->
  (forall x, In x I0 -> In x I1 -> False) ->
  forall n l0 l1 r, zip_plans n l0 l1 = Ok r ->
  Forall (full_shape base full I0) l0 -> Forall (frag_shape f I1) l1 ->
  (forall id, used r id = used (firstn n l0) id + used (firstn n l1) id)
  /\ Forall (plan_shape base full f (I0 ++ I1)) r.
Proof.
  intros Hb Hf Dj. induction n as [|n IH]; intros l0 l1 r H S0 S1; cbn [zip_plans] in H.
  - inversion H; subst. split; [intros; reflexivity|constructor].
  - destruct l0 as [|p0 t0]; [discriminate|]. destruct l1 as [|p1 t1]; [discriminate|].
    apply bind_ok in H. destruct H as (rest & E & H). inversion H; subst; clear H.
    inversion S0 as [|? ? Sp0 St0]; subst. inversion S1 as [|? ? Sp1 St1]; subst.
    destruct (IH _ _ _ E St0 St1) as (U & Sh).
    destruct Sp0 as (N0 & L0 & V0 & Inc0). destruct Sp1 as (k & -> & Hk).
    assert (Hkp : ~ In k (keys p0)) by (intro Hin; apply (Dj k); auto).
    rewrite (cpumap_add_fresh p0 []) by (simpl; exact N0). cbn [app].
    rewrite (cpumap_add_fresh [(k, f)] p0).
    2:{ simpl. apply NoDup_snoc; auto. }
    split.
    + intros id. cbn [firstn used fold_right].
      fold (used rest id) (used (firstn n t0) id) (used (firstn n t1) id). rewrite U.
      assert (lookup 0 (p0 ++ [(k, f)]) id = lookup 0 p0 id + lookup 0 [(k, f)] id).
      { destruct (in_dec string_dec id (keys p0)) as [Hi|Hi].
        - rewrite lookup_app_l by auto. rewrite lookup_single.
          destruct (String.eqb_spec id k); [subst; contradiction|lia].
        - rewrite lookup_app by auto. rewrite (lookup_notin p0) by auto. lia. }
      lia.
    + constructor; auto. exists p0, [(k, f)]. split; [reflexivity|].
      split; [rewrite keys_app; simpl; apply NoDup_snoc; auto|].
      split; auto. split; auto. split; [right; split; auto; exists k; reflexivity|].
      rewrite keys_app. simpl. intros y Hy. apply in_app_or in Hy. apply in_or_app.
      destruct Hy as [Hy|[<-|[]]]; auto.
Qed.

(* ---------- the conversion loop and host.getCPUPlans ---------- *)
Section GenericFit2.
Variable sortf : list keyed -> outcome (list keyed).
Hypothesis sortf_perm : forall l, exists l', sortf l = Ok l' /\ Permutation l' l.

Definition best_inv (base full f : Z) (ALL : list core) (best0 best1 : list plan) : Prop :=
  exists F G, Forall (full_shape base full (ids F)) best0 /\ (forall id, used best0 id <= amount F id)
    /\ Forall (frag_shape f (ids G)) best1 /\ (forall id, used best1 id <= amount G id)
    /\ Permutation (F ++ G) ALL.

Lemma convert_loop_content base aff full f maxfrag fuel2 ALL : 0 < base -> 1 <= full -> 0 < f ->
  NoDup (ids ALL) ->
  forall fuel fulls frags total best0 best1 bestcap b0 b1 cap,
  convert_loop sortf fuel fuel2 base aff maxfrag full f fulls frags total best0 best1 bestcap = Ok (b0, b1, cap) ->
  Forall (fullp base) fulls -> Forall posp frags -> Permutation (fulls ++ frags) ALL ->
  best_inv base full f ALL best0 best1 -> best_inv base full f ALL b0 b1.
Proof.
  intros Hb Hfu Hf Nd. induction fuel as [|fuel IH];
    intros fulls frags total best0 best1 bestcap b0 b1 cap H Hc Hp Pm Inv; cbn [convert_loop] in H; [discriminate|].
  destruct (negb (Z.of_nat (length frags) <? maxfrag)); [inversion H; subst; exact Inv|].
  destruct fulls as [|nf fulls']; [discriminate|].
  apply bind_ok in H. destruct H as (fplans & Ef & H).
  inversion Hc as [|? ? Hnf Hc']; subst.
  assert (Hp' : Forall posp (frags ++ [nf])).
  { apply Forall_app; split; auto. constructor; auto. pose proof (fullp_pos _ _ Hb Hnf). unfold posp; lia. }
  assert (Pm' : Permutation (fulls' ++ frags ++ [nf]) ALL).
  { rewrite app_assoc. eapply perm_trans; [apply Permutation_sym, Permutation_cons_append|exact Pm]. }
  destruct (bestcap <? Z.min (Z.of_nat (length fplans)) (total + Z.quot (cpieces nf) f)).
  - apply bind_ok in H. destruct H as (gplans & Eg & H).
    apply (IH _ _ _ _ _ _ _ _ _ H Hc' Hp' Pm').
    assert (NdA : NoDup (ids (fulls' ++ frags ++ [nf]))).
    { eapply Permutation_NoDup; [apply Permutation_sym; apply (ids_perm _ _ Pm')|]; auto. }
    rewrite ids_app in NdA.
    destruct (full_plans_content sortf sortf_perm base aff fulls' full fuel2 fplans (ids fulls') Hb Hfu Ef Hc'
                (NoDup_app_l _ _ NdA) (incl_refl _)) as (U0 & S0).
    destruct (fragment_plans_content _ _ _ Hf Hp' Eg) as (U1 & S1).
    exists fulls', (frags ++ [nf]). repeat split; auto.
  - apply (IH _ _ _ _ _ _ _ _ _ H Hc' Hp' Pm' Inv).
Qed.

Lemma In_firstn_in {A} n (l : list A) x : In x (firstn n l) -> In x l.
Proof. intros H. rewrite <- (firstn_skipn n l). apply in_or_app; auto. Qed.

Lemma amount_firstn_le n l id : Forall posp l -> amount (firstn n l) id <= amount l id.
Proof.
  intros H. rewrite <- (firstn_skipn n l) at 2. rewrite amount_app.
  pose proof (amount_nonneg_pos (skipn n l) id (Forall_skipn' _ n l H)). lia.
Qed.

Lemma host_plans_content base h pr fuel r : 0 < base -> 0 < pr -> host_ok base h ->
  NoDup (ids (h_full h ++ h_frag h)) ->
  host_plans_pieces_g sortf h pr fuel = Ok r ->
  (forall id, used r id <= amount (h_full h ++ h_frag h) id)
  /\ Forall (plan_shape base (Z.quot pr base) (Z.rem pr base) (ids (h_full h ++ h_frag h))) r.
Proof.
  intros Hb Hp (Eb & Hf & Hg) Nd H. unfold host_plans_pieces_g in H. rewrite Eb in H.
  pose proof (Z.quot_rem' pr base) as Eq.
  pose proof (Z.rem_bound_pos pr base ltac:(lia) ltac:(lia)) as Rb.
  assert (Hq : 0 <= Z.quot pr base) by (apply Z.quot_pos; lia).
  set (full := Z.quot pr base) in *. set (fragment := Z.rem pr base) in *.
  set (ALL := h_full h ++ h_frag h) in *.
  assert (NdF : NoDup (ids (h_full h))) by (unfold ALL in Nd; rewrite ids_app in Nd; apply NoDup_app_l in Nd; auto).
  assert (IncF : incl (ids (h_full h)) (ids ALL)) by (unfold ALL; rewrite ids_app; apply incl_appl, incl_refl).
  assert (HpF : Forall posp (h_full h)) by (apply (fullp_posp base); auto).
  destruct (fragment =? 0) eqn:Ef0.
  - apply Z.eqb_eq in Ef0.
    destruct (full_plans_content sortf sortf_perm base (h_aff h) (h_full h) full fuel r (ids ALL) Hb ltac:(nia) H Hf NdF IncF) as (U & Sh).
    split.
    + intros id. specialize (U id). unfold ALL. rewrite amount_app.
      pose proof (amount_nonneg_pos (h_frag h) id Hg). lia.
    + eapply Forall_impl; [|exact Sh]. intros p (N & L & V & I). exists p, []. rewrite app_nil_r.
      repeat split; auto.
  - apply Z.eqb_neq in Ef0. assert (Hfr : 0 < fragment) by lia.
    destruct (full =? 0) eqn:Efu.
    + apply Z.eqb_eq in Efu.
      match type of H with (if ?c then _ else _) = _ => destruct c; [discriminate|] end.
      match type of H with get_fragment_plans (h_frag h ++ firstn ?d (h_full h)) _ = _ => set (dn := d) in * end.
      assert (Hpp : Forall posp (h_frag h ++ firstn dn (h_full h))) by (apply Forall_app; split; auto; apply Forall_firstn'; auto).
      destruct (fragment_plans_content _ _ _ Hfr Hpp H) as (U & Sh).
      split.
      * intros id. specialize (U id). rewrite amount_app in U. unfold ALL. rewrite amount_app.
        pose proof (amount_firstn_le dn (h_full h) id HpF). lia.
      * eapply Forall_impl; [|exact Sh]. intros p (k & -> & Hk). exists [], [(k, fragment)].
        split; [reflexivity|]. split; [simpl; constructor; [tauto|constructor]|].
        split; [simpl; lia|]. split; [constructor|]. split; [right; split; auto; exists k; reflexivity|].
        simpl. intros y [<-|[]]. rewrite ids_app in Hk. unfold ALL. rewrite ids_app.
        apply in_app_or in Hk. apply in_or_app. destruct Hk as [Hk|Hk]; auto. left.
        unfold ids in *. apply in_map_iff in Hk. destruct Hk as (c & <- & Hc). apply in_map.
        eapply In_firstn_in; eauto.
    + apply Z.eqb_neq in Efu. assert (Hfu1 : 1 <= full) by lia.
      apply bind_ok in H. destruct H as (b0 & E0 & H).
      apply bind_ok in H. destruct H as (b1 & E1 & H).
      apply bind_ok in H. destruct H as ([[c0 c1] cap] & Ec & H).
      destruct (full_plans_content sortf sortf_perm base (h_aff h) (h_full h) full fuel b0 (ids (h_full h)) Hb Hfu1 E0 Hf NdF (incl_refl _)) as (U0 & S0).
      destruct (fragment_plans_content _ _ _ Hfr Hg E1) as (U1 & S1).
      assert (Inv0 : best_inv base full fragment ALL b0 b1).
      { exists (h_full h), (h_frag h). repeat split; auto. }
      destruct (convert_loop_content base (h_aff h) full fragment _ fuel ALL Hb Hfu1 Hfr Nd _ _ _ _ _ _ _ _ _ _ Ec Hf Hg (Permutation_refl _) Inv0)
        as (F & G & SF & UF & SG & UG & PFG).
      assert (NdFG : NoDup (ids F ++ ids G)).
      { rewrite <- ids_app. eapply Permutation_NoDup; [apply Permutation_sym; apply (ids_perm _ _ PFG)|]; auto. }
      assert (Dj : forall x, In x (ids F) -> In x (ids G) -> False).
      { intros x H1 H2. revert NdFG H1 H2. generalize (ids F) (ids G). clear.
        induction l as [|y t IHt]; simpl; intros l0 N H1 H2; [tauto|].
        inversion N; subst. destruct H1 as [->|H1]; [apply H3; apply in_or_app; auto|eauto]. }
      destruct (zip_content base full fragment (ids F) (ids G) Hb Hfr Dj _ _ _ _ H SF SG) as (U & Sh).
      split.
      * intros id. rewrite U.
        pose proof (used_firstn_le (Z.to_nat cap) c0 id) as L0. pose proof (used_firstn_le (Z.to_nat cap) c1 id) as L1.
        assert (plans_nn c0) by (eapply Forall_impl; [|exact SF]; intros p; apply (full_shape_nn base full); auto).
        assert (plans_nn c1) by (eapply Forall_impl; [|exact SG]; intros p; apply frag_shape_nn; auto).
        specialize (UF id). specialize (UG id).
        rewrite <- (amount_perm _ _ id PFG), amount_app. specialize (L0 H0). specialize (L1 H1). lia.
      * eapply Forall_impl; [|exact Sh]. intros p (p0 & fr & E & N & L & V & Fr & I).
        exists p0, fr. repeat split; auto.
        intros y Hy. apply I in Hy. rewrite <- ids_app in Hy.
        eapply Permutation_in; [apply (ids_perm _ _ PFG)|]; auto.
Qed.
End GenericFit2.
