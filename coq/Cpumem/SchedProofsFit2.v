(* Cpumem/SchedProofsFit2.v — C04 (a), (b, cores) and the plan shape for
   doGetCPUPlans, the NUMA loop and GetCPUPlans. *)
From Coq Require Import String Ascii List ZArith Bool Lia Permutation.
From Verif Require Import Base.GoInt Base.GoFloat Base.GoHeap Base.GoHeapSpec.
From Verif Require Import Cpumem.Types Cpumem.Schedule Cpumem.SchedProofs Cpumem.SchedProofsMem Cpumem.SchedProofsFit.
Import ListNotations.
Local Open Scope Z_scope.

(* ---------- newHost ---------- *)
Definition amountp (l : list core) (id : string) : Z :=
  fold_right (fun c s => (if String.eqb (cid c) id then Z.max 0 (cpieces c) else 0) + s) 0 l.

Lemma amount_filters_le (f g : core -> bool) l id :
  (forall c, f c = true -> g c = true -> False) ->
  amount (filter f l) id + amount (filter g l) id <= amountp l id.
Proof.
  intros D. induction l as [|c t IH]; simpl; [lia|].
  destruct (f c) eqn:Ef, (g c) eqn:Eg; simpl; try (exfalso; eauto; fail);
    destruct (String.eqb (cid c) id); lia.
Qed.

Lemma amountp_map (m : smap Z) id : NoDup (keys m) ->
  amountp (map (fun kv => mkCore (fst kv) (snd kv)) m) id = Z.max 0 (lookup 0 m id).
Proof.
  unfold lookup. induction m as [|[k v] t IH]; simpl; intros H; [reflexivity|].
  inversion H as [|? ? Hn Ht]; subst. rewrite String.eqb_sym.
  destruct (String.eqb_spec id k) as [E|N].
  - subst. assert (Z0 : amountp (map (fun kv => mkCore (fst kv) (snd kv)) t) k = 0).
    { clear -Hn. induction t as [|[k' v'] t IHt]; simpl; auto.
      destruct (String.eqb_spec k' k) as [E|N]; [subst; exfalso; apply Hn; left; auto|].
      rewrite IHt; auto. intro; apply Hn; right; auto. }
    rewrite Z0. lia.
  - rewrite IH; auto.
Qed.

Lemma nodup_filter_partition (f g : core -> bool) l :
  (forall c, f c = true -> g c = true -> False) ->
  NoDup (ids l) -> NoDup (ids (filter f l ++ filter g l)).
Proof.
  intros D. induction l as [|c t IH]; simpl; intros H; [constructor|].
  inversion H as [|? ? Hn Ht]; subst. specialize (IH Ht).
  assert (Hin : forall y, In y (ids (filter f t ++ filter g t)) -> In y (ids t)).
  { intros y Hy. rewrite ids_app in Hy. unfold ids in *. apply in_app_or in Hy.
    destruct Hy as [Hy|Hy]; apply in_map_iff in Hy; destruct Hy as (d & <- & Hd);
      apply filter_In in Hd; apply in_map; tauto. }
  destruct (f c) eqn:Ef, (g c) eqn:Eg; try (exfalso; eauto; fail).
  - simpl. constructor; auto.
  - rewrite ids_app. simpl. eapply Permutation_NoDup; [apply Permutation_middle|].
    rewrite <- ids_app. constructor; auto.
  - exact IH.
Qed.

Lemma ids_map_cores (m : smap Z) : ids (map (fun kv => mkCore (fst kv) (snd kv)) m) = keys m.
Proof. unfold ids, keys. rewrite map_map. reflexivity. Qed.

Lemma new_host_content m base mf h : 0 < base -> NoDup (keys m) -> new_host m base mf = Ok h ->
  NoDup (ids (h_full h ++ h_frag h))
  /\ (forall id, amount (h_full h ++ h_frag h) id <= Z.max 0 (lookup 0 m id))
  /\ incl (ids (h_full h ++ h_frag h)) (keys m).
Proof.
  intros Hb Nd H. unfold new_host in H.
  replace (base =? 0) with false in H by (symmetry; apply Z.eqb_neq; lia). simpl in H.
  inversion H; subst; clear H. cbn [h_full h_frag].
  set (cores := map (fun kv => mkCore (fst kv) (snd kv)) m).
  set (g := fun c => negb (is_full_core base c) && (0 <? cpieces c)). set (f := is_full_core base).
  assert (D : forall c, f c = true -> g c = true -> False).
  { unfold f, g. intros c H1 H2. rewrite H1 in H2. discriminate. }
  assert (P : Permutation (isort core_less (filter f cores) ++ isort core_less (filter g cores))
                          (filter f cores ++ filter g cores)).
  { apply Permutation_app; apply isort_perm. }
  split; [|split].
  - eapply Permutation_NoDup; [apply Permutation_sym; apply (ids_perm _ _ P)|].
    apply nodup_filter_partition; auto. unfold cores. rewrite ids_map_cores. exact Nd.
  - intros id. rewrite (amount_perm _ _ id P), amount_app.
    rewrite <- (amountp_map m id Nd). apply amount_filters_le; auto.
  - intros y Hy. apply (Permutation_in _ (ids_perm _ _ P)) in Hy. rewrite ids_app in Hy.
    rewrite <- ids_map_cores. fold cores. unfold ids in *. apply in_app_or in Hy.
    destruct Hy as [Hy|Hy]; apply in_map_iff in Hy; destruct Hy as (d & <- & Hd);
      apply filter_In in Hd; apply in_map; tauto.
Qed.

Lemma plan_shape_nn base full fragment IDS p : 0 < base -> plan_shape base full fragment IDS p -> plan_nn p.
Proof.
  intros Hb (p0 & fr & -> & _ & _ & V & Fr & _). apply Forall_app; split.
  - eapply Forall_impl; [|exact V]. simpl. intros kv E. lia.
  - destruct Fr as [[_ ->]|[Hf (k & ->)]]; [constructor|]. constructor; [simpl; lia|constructor].
Qed.

Section GenericFit3.
Variable sortf : list keyed -> outcome (list keyed).
Hypothesis sortf_perm : forall l, exists l', sortf l = Ok l' /\ Permutation l' l.

Definition shape_of (base : Z) (cpu : f64) (IDS : list string) (p : plan) : Prop :=
  let pr := pieces_request base cpu in
  0 < pr /\ plan_shape base (Z.quot pr base) (Z.rem pr base) IDS p.

(* doGetCPUPlans: feasibility in the given cpu map, shape of every plan *)
Lemma do_get_content origin avail amem base mf cpu mem fuel r : 0 < base -> NoDup (keys avail) ->
  do_get_cpu_plans_g sortf origin avail amem base mf cpu mem fuel = Ok r ->
  (forall id, used r id <= Z.max 0 (lookup 0 avail id))
  /\ Forall (shape_of base cpu (keys avail)) r.
Proof.
  intros Hb Nd H. unfold do_get_cpu_plans_g in H.
  apply bind_ok in H. destruct H as (h & Eh & H).
  apply bind_ok in H. destruct H as (h' & Eh' & H).
  apply bind_ok in H. destruct H as (plans & Ep & H).
  destruct (new_host_ok avail base mf Hb) as (h0 & Eh0 & Hok & _ & _).
  rewrite Eh in Eh0. inversion Eh0; subst h0; clear Eh0.
  destruct (new_host_content avail base mf h Hb Nd Eh) as (N1 & A1 & I1).
  assert (Hh' : host_ok base h' /\ NoDup (ids (h_full h' ++ h_frag h'))
                /\ (forall id, amount (h_full h' ++ h_frag h') id <= Z.max 0 (lookup 0 avail id))
                /\ incl (ids (h_full h' ++ h_frag h')) (keys avail)).
  { destruct origin as [|o ot]; [inversion Eh'; subst; auto|].
    apply bind_ok in Eh'. destruct Eh' as (oh & _ & E). inversion E; subst; clear E.
    destruct (reorder_ok base oh h Hok) as (R1 & _).
    assert (P : Permutation (h_full (reorder_by_affinity oh h) ++ h_frag (reorder_by_affinity oh h)) (h_full h ++ h_frag h)).
    { unfold reorder_by_affinity; simpl. apply Permutation_app; apply isort_perm. }
    split; auto. split; [|split].
    - eapply Permutation_NoDup; [apply Permutation_sym; apply (ids_perm _ _ P)|]; auto.
    - intros id. rewrite (amount_perm _ _ id P). auto.
    - intros y Hy. apply I1. eapply Permutation_in; [apply (ids_perm _ _ P)|]; auto. }
  destruct Hh' as (Hok' & N2 & A2 & I2).
  assert (C : (forall id, used plans id <= Z.max 0 (lookup 0 avail id)) /\ Forall (shape_of base cpu (keys avail)) plans).
  { unfold host_cpu_plans_g in Ep. destruct Hok' as (Eb & Hf & Hg). rewrite Eb in Ep.
    destruct (pieces_request base cpu <=? 0) eqn:E0.
    - inversion Ep; subst. split; [intros; simpl; lia|constructor].
    - apply Z.leb_gt in E0.
      replace (base =? 0) with false in Ep by (symmetry; apply Z.eqb_neq; lia).
      destruct (host_plans_content sortf sortf_perm base h' _ fuel plans Hb E0 (conj Eb (conj Hf Hg)) N2 Ep) as (U & Sh).
      split.
      + intros id. specialize (U id). specialize (A2 id). lia.
      + eapply Forall_impl; [|exact Sh]. intros p (p0 & fr & E & N & L & V & Fr & I).
        split; auto. exists p0, fr. repeat split; auto. intros y Hy. apply I2, I. exact Hy. }
  destruct C as (U & Sh).
  assert (Nn : plans_nn plans).
  { eapply Forall_impl; [|exact Sh]. intros p (_ & Sp). eapply plan_shape_nn; eauto. }
  assert (F : forall n, (forall id, used (firstn n plans) id <= Z.max 0 (lookup 0 avail id))
                        /\ Forall (shape_of base cpu (keys avail)) (firstn n plans)).
  { intros n. split; [|apply Forall_firstn'; auto].
    intros id. pose proof (used_firstn_le n plans id Nn). specialize (U id). lia. }
  destruct (0 <? mem); [|inversion H; subst; auto].
  match type of H with (if ?c then _ else _) = _ => destruct c end; inversion H; subst; auto.
Qed.
End GenericFit3.

(* ---------- bookkeeping of the available resource ---------- *)
Lemma keys_upd_nodup {V} (c : smap V) k v : NoDup (keys c) -> NoDup (keys (upd c k v)).
Proof.
  destruct (in_dec string_dec k (keys c)) as [Hi|Hn].
  - intros H. assert (E : keys (upd c k v) = keys c); [|rewrite E; auto].
    clear H. induction c as [|[k' v'] t IH]; simpl in *; [tauto|].
    destruct (String.eqb_spec k k') as [->|N]; simpl; auto.
    f_equal. apply IH. destruct Hi; [congruence|auto].
  - intros H. rewrite upd_notin by auto. rewrite keys_app. simpl. apply NoDup_snoc; auto.
Qed.

Lemma cpumap_sub_nodup (p c : smap Z) : NoDup (keys c) -> NoDup (keys (cpumap_sub c p)).
Proof.
  unfold cpumap_sub. revert c. induction p as [|kv t IH]; intros c H; simpl; auto.
  apply IH. apply keys_upd_nodup; auto.
Qed.

Lemma lookup_cons (k : string) (v : Z) t id : lookup 0 ((k, v) :: t) id = if String.eqb id k then v else lookup 0 t id.
Proof. unfold lookup. simpl. destruct (String.eqb id k); reflexivity. Qed.

Lemma lookup_cpumap_sub (p : smap Z) : forall c id, NoDup (keys p) ->
  lookup 0 (cpumap_sub c p) id = lookup 0 c id - lookup 0 p id.
Proof.
  unfold cpumap_sub. induction p as [|[k v] t IH]; intros c id H; simpl.
  - unfold lookup at 3. simpl. lia.
  - inversion H as [|? ? Hn Ht]; subst. rewrite IH by auto. rewrite lookup_upd, lookup_cons.
    destruct (String.eqb_spec id k) as [->|N].
    + rewrite (lookup_notin t k) by auto. lia.
    + lia.
Qed.

Lemma sub_plans_cpumap (plans : list plan) nid mem : Forall (fun p => NoDup (keys p)) plans -> forall a,
  let a' := fold_left (fun a p => nr_sub_nofloat a (mkNR f_zero p mem [(nid, mem)] [])) plans a in
  (forall id, lookup 0 (nr_cpumap a') id = lookup 0 (nr_cpumap a) id - used plans id)
  /\ (NoDup (keys (nr_cpumap a)) -> NoDup (keys (nr_cpumap a'))).
Proof.
  intros H. induction H as [|p t Hp Ht IH]; intros a; cbn [fold_left].
  - split; auto. intros id. simpl. lia.
  - cbv zeta in IH. destruct (IH (nr_sub_nofloat a (mkNR f_zero p mem [(nid, mem)] []))) as (L & N).
    cbv zeta. split.
    + intros id. rewrite L. cbn [nr_sub_nofloat nr_cpumap]. rewrite lookup_cpumap_sub by auto.
      cbn [used fold_right]. fold (used t id). lia.
    + intros Nd. apply N. cbn [nr_sub_nofloat nr_cpumap]. apply cpumap_sub_nodup; auto.
Qed.

(* ---------- the per-NUMA cpu maps ---------- *)
Lemma numa_map_keys numa a nid k : NoDup (keys numa) ->
  In k (keys (numa_cpu_map numa a nid)) -> lookup_opt numa k = Some nid /\ lookup 0 (numa_cpu_map numa a nid) k = lookup 0 a k.
Proof.
  unfold numa_cpu_map. induction numa as [|[c n] t IH]; simpl; intros Nd Hin; [tauto|].
  inversion Nd as [|? ? Hn Ht]; subst.
  destruct (String.eqb_spec n nid) as [->|Nn]; simpl in Hin.
  - destruct Hin as [<-|Hin].
    + rewrite String.eqb_refl. unfold lookup at 1. simpl. rewrite String.eqb_refl. auto.
    + destruct (String.eqb_spec k c) as [->|Nk].
      * exfalso. apply Hn. unfold keys in *. rewrite map_map in Hin. simpl in Hin.
        apply in_map_iff in Hin. destruct Hin as (x & <- & Hx). apply filter_In in Hx. apply in_map. tauto.
      * destruct (IH Ht Hin) as (I1 & I2). split; auto.
        unfold lookup at 1. simpl. destruct (String.eqb_spec k c); [contradiction|]. exact I2.
  - destruct (String.eqb_spec k c) as [->|Nk].
    + exfalso. apply Hn. unfold keys in *. rewrite map_map in Hin. simpl in Hin.
      apply in_map_iff in Hin. destruct Hin as (x & <- & Hx). apply filter_In in Hx. apply in_map. tauto.
    + apply IH; auto.
Qed.

Lemma numa_map_nodup numa a nid : NoDup (keys numa) -> NoDup (keys (numa_cpu_map numa a nid)).
Proof.
  unfold numa_cpu_map, keys. rewrite map_map. simpl.
  induction numa as [|[c n] t IH]; simpl; intros Nd; [constructor|].
  inversion Nd as [|? ? Hn Ht]; subst.
  destruct (String.eqb n nid); simpl; auto. constructor; auto.
  intro Hin. apply Hn. apply in_map_iff in Hin. destruct Hin as (x & <- & Hx). apply filter_In in Hx. apply in_map. tauto.
Qed.

Lemma used_zero l id : (forall p, In p l -> ~ In id (keys p)) -> used l id = 0.
Proof.
  induction l as [|p t IH]; simpl; intros H; auto.
  rewrite (lookup_notin p id) by (apply H; left; auto).
  rewrite IH by (intros q Hq; apply H; right; auto). reflexivity.
Qed.

Lemma shape_keys_nodup base cpu IDS p : shape_of base cpu IDS p -> NoDup (keys p) /\ incl (keys p) IDS.
Proof. intros (_ & p0 & fr & _ & N & _ & _ & _ & I). auto. Qed.

Section GenericFit4.
Variable sortf : list keyed -> outcome (list keyed).
Hypothesis sortf_perm : forall l, exists l', sortf l = Ok l' /\ Permutation l' l.

Definition any_shape (base : Z) (cpu : f64) (p : plan) : Prop := exists IDS, shape_of base cpu IDS p.

Lemma numa_loop_content numa avail0 origin base mf cpu mem fuel : 0 < base -> NoDup (keys numa) ->
  forall order avail acc avail' acc',
  numa_loop sortf order numa avail0 origin base mf cpu mem fuel avail acc = Ok (avail', acc') ->
  NoDup order ->
  exists new, acc' = acc ++ new
    /\ (forall tp, In tp new -> In (fst tp) order
                                /\ (forall k, In k (keys (snd tp)) -> lookup_opt numa k = Some (fst tp))
                                /\ any_shape base cpu (snd tp))
    /\ (forall id, 0 <= used (map snd new) id <= Z.max 0 (lookup 0 avail0 id))
    /\ (forall id, lookup 0 (nr_cpumap avail') id = lookup 0 (nr_cpumap avail) id - used (map snd new) id)
    /\ (NoDup (keys (nr_cpumap avail)) -> NoDup (keys (nr_cpumap avail'))).
Proof.
  intros Hb Nn. induction order as [|nid rest IH]; intros avail acc avail' acc' H Nd; simpl in H.
  - inversion H; subst. exists []. rewrite app_nil_r. simpl.
    split; [reflexivity|]. split; [intros tp []|]. split; [intros; lia|]. split; [intros; lia|auto].
  - apply bind_ok in H. destruct H as (plans & Ep & H).
    inversion Nd as [|? ? Hnot Nd']; subst.
    destruct (do_get_content sortf sortf_perm _ _ _ _ _ _ _ _ _ Hb (numa_map_nodup numa avail0 nid Nn) Ep) as (U & Sh).
    assert (Kp : forall p, In p plans -> NoDup (keys p) /\ forall k, In k (keys p) -> lookup_opt numa k = Some nid).
    { intros p Hp. rewrite Forall_forall in Sh. destruct (shape_keys_nodup _ _ _ _ (Sh p Hp)) as (N & I).
      split; auto. intros k Hk. apply (numa_map_keys numa avail0 nid k Nn). apply I; auto. }
    assert (Np : Forall (fun p => NoDup (keys p)) plans).
    { apply Forall_forall. intros p Hp. apply Kp; auto. }
    destruct (sub_plans_cpumap plans nid mem Np avail) as (L1 & N1). cbv zeta in L1, N1.
    set (a1 := fold_left (fun a p => nr_sub_nofloat a (mkNR f_zero p mem [(nid, mem)] [])) plans avail) in *.
    destruct (IH a1 _ _ _ H Nd') as (new & E & T & B & L2 & N2).
    exists (map (fun p => (nid, p)) plans ++ new). rewrite E, app_assoc.
    assert (Nnp : plans_nn plans).
    { eapply Forall_impl; [|exact Sh]. intros p (_ & Sp). eapply plan_shape_nn; eauto. }
    assert (Msnd : map snd (map (fun p : plan => (nid, p)) plans ++ new) = plans ++ map snd new).
    { rewrite map_app, map_map. simpl. rewrite map_id. reflexivity. }
    split; [reflexivity|]. split; [|split; [|split]].
    + intros tp Hin. apply in_app_or in Hin. destruct Hin as [Hin|Hin].
      * apply in_map_iff in Hin. destruct Hin as (p & <- & Hp). simpl. split; auto. split; [apply Kp; auto|].
        rewrite Forall_forall in Sh. eexists. apply Sh; auto.
      * destruct (T tp Hin) as (T1 & T2 & T3). split; [right; auto|split; auto].
    + intros id. rewrite Msnd, used_app. specialize (B id). specialize (U id).
      pose proof (used_nonneg plans id Nnp) as P0.
      destruct (in_dec string_dec id (keys (numa_cpu_map numa avail0 nid))) as [Hi|Hi].
      * destruct (numa_map_keys numa avail0 nid id Nn Hi) as (Hn & Hl). rewrite Hl in U.
        assert (Z0 : used (map snd new) id = 0).
        { apply used_zero. intros p Hp Hk. apply in_map_iff in Hp. destruct Hp as (tp & <- & Htp).
          destruct (T tp Htp) as (T1 & T2 & _). specialize (T2 id Hk). rewrite Hn in T2. inversion T2; subst.
          contradiction. }
        lia.
      * rewrite (lookup_notin _ id Hi) in U. lia.
    + intros id. rewrite L2, L1, Msnd, used_app. lia.
    + intros Hn0. apply N2, N1, Hn0.
Qed.

(* C04 (a), (b, cores) and the shape of every plan returned by GetCPUPlans *)
Theorem get_cpu_plans_content info origin base mf req order fuel plans :
  get_cpu_plans_g sortf info origin base mf req order fuel = Ok plans ->
  0 < base -> NoDup (keys (nr_numa (ni_cap info))) -> NoDup order ->
  NoDup (keys (nr_cpumap (get_available_nofloat info))) ->
  (forall id, used (map snd plans) id <= Z.max 0 (lookup 0 (nr_cpumap (get_available_nofloat info)) id))
  /\ (forall tp, In tp plans -> fst tp <> EmptyString ->
        forall k, In k (keys (snd tp)) -> lookup_opt (nr_numa (ni_cap info)) k = Some (fst tp))
  /\ (forall tp, In tp plans -> any_shape base (rq_cpu_req req) (snd tp)).
Proof.
  unfold get_cpu_plans_g. intros H Hb Nn Nd Na.
  set (avail := get_available_nofloat info) in *.
  apply bind_ok in H. destruct H as ([avail' acc] & El & H).
  apply bind_ok in H. destruct H as (cross & Ec & H). inversion H; subst; clear H.
  destruct (numa_loop_content _ _ _ _ _ _ _ _ Hb Nn _ _ _ _ _ El Nd) as (new & E & T & B & L & N).
  simpl in E. subst acc.
  destruct (do_get_content sortf sortf_perm _ _ _ _ _ _ _ _ _ Hb (N Na) Ec) as (U & Sh).
  assert (Msnd : map snd (new ++ map (fun p : plan => (EmptyString, p)) cross) = map snd new ++ cross).
  { rewrite map_app, map_map. simpl. rewrite map_id. reflexivity. }
  split; [|split].
  - intros id. rewrite Msnd, used_app. specialize (U id). specialize (B id). rewrite L in U. lia.
  - intros tp Hin Hne k Hk. apply in_app_or in Hin. destruct Hin as [Hin|Hin].
    + destruct (T tp Hin) as (_ & T2 & _). auto.
    + apply in_map_iff in Hin. destruct Hin as (p & <- & _). simpl in Hne. congruence.
  - intros tp Hin. apply in_app_or in Hin. destruct Hin as [Hin|Hin].
    + destruct (T tp Hin) as (_ & _ & T3). auto.
    + apply in_map_iff in Hin. destruct Hin as (p & <- & Hp). simpl.
      rewrite Forall_forall in Sh. eexists. apply Sh; auto.
Qed.
End GenericFit4.
