(* Cpumem/SchedProofsMem.v — memory clauses of C04: the plans returned by
   GetCPUPlans fit the node's free memory (c) and the plans placed on a NUMA
   node fit that node's free NUMA memory (b, memory part).  Pure counting
   arguments over the truncation in doGetCPUPlans and the bookkeeping of the
   NUMA loop; they hold for any final sort (no hypothesis on [sortf]). *)
From Coq Require Import String Ascii List ZArith Bool Lia Permutation.
From Verif Require Import Base.GoInt Base.GoFloat Cpumem.Types Cpumem.Schedule Cpumem.SchedProofs.
Import ListNotations.
Local Open Scope Z_scope.

Lemma bind_ok {A B} (o : outcome A) (f : A -> outcome B) r :
  bind o f = Ok r -> exists a, o = Ok a /\ f a = Ok r.
Proof. destruct o; simpl; intros H; try discriminate. eauto. Qed.

Lemma firstn_length_le' {A} n (l : list A) : (length (firstn n l) <= n)%nat.
Proof. rewrite firstn_length. lia. Qed.

Section Mem.
Variable sortf : list keyed -> outcome (list keyed).

Lemma do_get_len origin avail amem base mf cpu mem fuel r :
  do_get_cpu_plans_g sortf origin avail amem base mf cpu mem fuel = Ok r -> 0 < mem ->
  Z.of_nat (length r) * mem <= Z.max 0 amem.
Proof.
  unfold do_get_cpu_plans_g. intros H Hm.
  apply bind_ok in H. destruct H as (h & _ & H).
  apply bind_ok in H. destruct H as (h' & _ & H).
  apply bind_ok in H. destruct H as (plans & _ & H).
  replace (0 <? mem) with true in H by (symmetry; apply Z.ltb_lt; lia).
  set (cap0 := Z.quot amem mem) in *.
  set (cap := if cap0 <? 0 then 0 else cap0) in *.
  assert (Hcap : 0 <= cap /\ cap * mem <= Z.max 0 amem).
  { unfold cap. destruct (cap0 <? 0) eqn:E; [lia|]. apply Z.ltb_ge in E.
    unfold cap0 in *. pose proof (Z.quot_rem' amem mem).
    destruct (Z_lt_le_dec amem 0).
    - assert (Z.quot amem mem <= 0).
      { replace amem with (- (- amem)) by lia. rewrite Z.quot_opp_l by lia.
        pose proof (Z.quot_pos (- amem) mem ltac:(lia) ltac:(lia)). lia. }
      nia.
    - pose proof (Z.rem_bound_pos amem mem ltac:(lia) ltac:(lia)). nia. }
  destruct (cap <? Z.of_nat (length plans)) eqn:E; inversion H; subst.
  - pose proof (firstn_length_le' (Z.to_nat cap) plans). nia.
  - apply Z.ltb_ge in E. nia.
Qed.
End Mem.

(* ---------- map lemmas ---------- *)
Lemma lookup_upd {V} (d : V) (m : smap V) k v k' :
  lookup d (upd m k v) k' = if String.eqb k' k then v else lookup d m k'.
Proof.
  unfold lookup. induction m as [|[k0 v0] t IH]; simpl.
  - destruct (String.eqb k' k); reflexivity.
  - destruct (String.eqb_spec k k0) as [->|N]; simpl.
    + destruct (String.eqb_spec k' k0); reflexivity.
    + destruct (String.eqb_spec k' k0) as [->|N'].
      * destruct (String.eqb_spec k0 k); [congruence|reflexivity].
      * exact IH.
Qed.

Lemma lookup_sub_single (m : smap Z) nid mem k :
  lookup 0 (cpumap_sub m [(nid, mem)]) k = if String.eqb k nid then lookup 0 m nid - mem else lookup 0 m k.
Proof. unfold cpumap_sub. simpl. apply lookup_upd. Qed.

From Verif Require Import Cpumem.Calc Cpumem.SchedCase.

Lemma count_tag_app l1 l2 nid : count_tag (l1 ++ l2) nid = count_tag l1 nid + count_tag l2 nid.
Proof. unfold count_tag. rewrite filter_app, app_length. lia. Qed.

Lemma count_tag_map_same (plans : list plan) nid :
  count_tag (map (fun p => (nid, p)) plans) nid = Z.of_nat (length plans).
Proof.
  unfold count_tag. induction plans as [|p t IH]; simpl; auto.
  rewrite String.eqb_refl. simpl length. lia.
Qed.

Lemma count_tag_none l nid : (forall tp, In tp l -> fst tp <> nid) -> count_tag l nid = 0.
Proof.
  unfold count_tag. induction l as [|tp t IH]; simpl; intros H; auto.
  destruct (String.eqb_spec (fst tp) nid) as [E|N].
  - exfalso. apply (H tp); auto.
  - apply IH. intros; apply H; auto.
Qed.

Lemma count_tag_nonneg l nid : 0 <= count_tag l nid.
Proof. unfold count_tag. lia. Qed.

(* effect of subtracting the plans of one NUMA node from the available resource *)
Lemma sub_plans_mem (plans : list plan) nid mem : forall a,
  let a' := fold_left (fun a p => nr_sub_nofloat a (mkNR f_zero p mem [(nid, mem)] [])) plans a in
  nr_mem a' = nr_mem a - Z.of_nat (length plans) * mem
  /\ (forall k, lookup 0 (nr_numamem a') k =
               if String.eqb k nid then lookup 0 (nr_numamem a) nid - Z.of_nat (length plans) * mem
               else lookup 0 (nr_numamem a) k).
Proof.
  induction plans as [|p t IH]; intros a; cbn [fold_left length].
  - split; [simpl; lia|]. intros k. destruct (String.eqb_spec k nid) as [->|]; simpl; lia.
  - cbv zeta in IH. destruct (IH (nr_sub_nofloat a (mkNR f_zero p mem [(nid, mem)] []))) as [I1 I2].
    cbv zeta. rewrite I1. split.
    + simpl nr_mem. lia.
    + intros k. rewrite I2. cbn [nr_sub_nofloat nr_numamem]. rewrite !lookup_sub_single.
      rewrite String.eqb_refl, Nat2Z.inj_succ. destruct (String.eqb k nid); lia.
Qed.

Section Mem2.
Variable sortf : list keyed -> outcome (list keyed).

Lemma numa_loop_mem numa avail0 origin base mf cpu mem fuel : 0 < mem ->
  forall order avail acc avail' acc',
  numa_loop sortf order numa avail0 origin base mf cpu mem fuel avail acc = Ok (avail', acc') ->
  NoDup order -> 0 <= nr_mem avail ->
  exists new, acc' = acc ++ new
    /\ (forall tp, In tp new -> In (fst tp) order)
    /\ nr_mem avail' = nr_mem avail - Z.of_nat (length new) * mem
    /\ 0 <= nr_mem avail'
    /\ (forall nid, In nid order -> count_tag new nid * mem <= Z.max 0 (lookup 0 (nr_numamem avail) nid)).
Proof.
  intros Hm. induction order as [|nid rest IH]; intros avail acc avail' acc' H Hnd Hmem; simpl in H.
  - inversion H; subst. exists []. rewrite app_nil_r. simpl.
    split; [reflexivity|]. split; [intros tp []|]. split; [lia|]. split; [lia|]. intros nid [].
  - apply bind_ok in H. destruct H as (plans & Ep & H).
    pose proof (do_get_len sortf _ _ _ _ _ _ _ _ _ Ep Hm) as Lp.
    inversion Hnd as [|? ? Hnot Hnd']; subst.
    destruct (sub_plans_mem plans nid mem avail) as [S1 S2]. cbv zeta in S1, S2.
    set (a1 := fold_left (fun a p => nr_sub_nofloat a (mkNR f_zero p mem [(nid, mem)] [])) plans avail) in *.
    assert (Hmem1 : 0 <= nr_mem a1) by lia.
    destruct (IH a1 _ _ _ H Hnd' Hmem1) as (new & E & Htags & M1 & M2 & M3).
    exists (map (fun p => (nid, p)) plans ++ new). rewrite E, app_assoc.
    split; [reflexivity|]. split; [|split; [|split]].
    + intros tp Hin. apply in_app_or in Hin. destruct Hin as [Hin|Hin].
      * apply in_map_iff in Hin. destruct Hin as (p & <- & _). simpl. auto.
      * right. apply Htags; auto.
    + rewrite M1, S1, app_length, map_length. lia.
    + exact M2.
    + intros nid' [->|Hin].
      * rewrite count_tag_app, count_tag_map_same.
        rewrite (count_tag_none new nid').
        2:{ intros tp Hin E'. apply Hnot. rewrite <- E'. apply Htags; auto. }
        lia.
      * assert (nid' <> nid) by (intro; subst; contradiction).
        rewrite count_tag_app. rewrite (count_tag_none (map _ plans) nid').
        2:{ intros tp Hi. apply in_map_iff in Hi. destruct Hi as (p & <- & _). simpl. congruence. }
        specialize (M3 nid' Hin). rewrite S2 in M3.
        destruct (String.eqb_spec nid' nid); [contradiction|]. lia.
Qed.

(* C04 (b, memory part) and (c) for GetCPUPlans *)
Theorem get_cpu_plans_memory info origin base mf req order fuel plans :
  get_cpu_plans_g sortf info origin base mf req order fuel = Ok plans ->
  0 < rq_mem_req req -> NoDup order -> ~ In EmptyString order ->
  0 <= nr_mem (get_available_nofloat info) ->
  Z.of_nat (length plans) * rq_mem_req req <= nr_mem (get_available_nofloat info)
  /\ (forall nid, In nid order ->
        count_tag plans nid * rq_mem_req req <= Z.max 0 (lookup 0 (nr_numamem (get_available_nofloat info)) nid))
  /\ (forall tp, In tp plans -> fst tp = EmptyString \/ In (fst tp) order).
Proof.
  unfold get_cpu_plans_g. intros H Hm Hnd Hne Hmem.
  set (avail := get_available_nofloat info) in *.
  apply bind_ok in H. destruct H as ([avail' acc] & El & H).
  apply bind_ok in H. destruct H as (cross & Ec & H). inversion H; subst; clear H.
  destruct (numa_loop_mem _ _ _ _ _ _ _ _ Hm _ _ _ _ _ El Hnd Hmem) as (new & E & Htags & M1 & M2 & M3).
  simpl in E. subst acc.
  pose proof (do_get_len sortf _ _ _ _ _ _ _ _ _ Ec Hm) as Lc.
  split; [|split].
  - rewrite app_length, map_length. lia.
  - intros nid Hin. rewrite count_tag_app. rewrite (count_tag_none (map _ cross) nid).
    + specialize (M3 nid Hin). lia.
    + intros tp Hi. apply in_map_iff in Hi. destruct Hi as (p & <- & _). simpl. intro; subst; contradiction.
  - intros tp Hin. apply in_app_or in Hin. destruct Hin as [Hin|Hin].
    + right. apply Htags; auto.
    + left. apply in_map_iff in Hin. destruct Hin as (p & <- & _). reflexivity.
Qed.
End Mem2.
