(* Cpumem/BookRollbackProofs.v — a rollback is never refused: from a valid
   record, once SetNodeResourceUsage(workloads, Incr) has been accepted, the
   Decr of the same workloads is accepted too (and symmetrically), provided the
   usage already has an entry for every core / NUMA node the workloads name
   (AddNode's Validate creates an entry for every capacity core and NUMA node). *)
From Coq Require Import String Ascii List ZArith Bool Lia.
From Verif Require Import Base.GoInt Base.GoFloat Cpumem.Types Cpumem.Node Cpumem.BookProofs Cpumem.BookRemapProofs.
Import ListNotations.
Local Open Scope Z_scope.

Lemma keys_cpumap_add c1 : forall c, (forall k, In k (keys c1) -> In k (keys c)) -> keys (cpumap_add c c1) = keys c.
Proof.
  unfold cpumap_add. induction c1 as [|[k1 v1] t IH]; intros c H; simpl; [reflexivity|].
  rewrite IH.
  - apply keys_upd_same. apply H. simpl. auto.
  - intros k Hk. rewrite keys_upd_same by (apply H; simpl; auto). apply H. simpl. auto.
Qed.

(* two Go maps with the same key list and the same lookups are the same list *)
Lemma smap_eq_of_lookup (a b : smap Z) :
  keys a = keys b -> NoDup (keys a) -> (forall k, lookup 0 a k = lookup 0 b k) -> a = b.
Proof.
  revert b. unfold keys. induction a as [|[k v] t IH]; intros [|[k' v'] t'] K ND L; simpl in *; try discriminate; [reflexivity|].
  injection K as -> K. inversion ND as [|? ? NI ND']; subst.
  assert (v = v').
  { specialize (L k'). unfold lookup in L. simpl in L. rewrite String.eqb_refl in L. exact L. }
  subst v'. f_equal. apply IH; [exact K|exact ND'|].
  intro k. specialize (L k). unfold lookup in *. simpl in L.
  destruct (String.eqb k k') eqn:E; [|exact L].
  apply String.eqb_eq in E. subst k.
  assert (N1 : lookup_opt t k' = None).
  { clear -NI. induction t as [|[a b] t IH]; simpl in *; [reflexivity|].
    destruct (String.eqb k' a) eqn:E; [apply String.eqb_eq in E; subst; tauto|]. apply IH. tauto. }
  assert (N2 : lookup_opt t' k' = None).
  { rewrite K in NI. clear -NI. induction t' as [|[a b] t IH]; simpl in *; [reflexivity|].
    destruct (String.eqb k' a) eqn:E; [apply String.eqb_eq in E; subst; tauto|]. apply IH. tauto. }
  rewrite N1, N2. reflexivity.
Qed.

Definition names_known (u : node_resource) (ws : list wres) : Prop :=
  forall w, In w ws ->
    (forall k, In k (keys (wr_cpumap w)) -> In k (keys (nr_cpumap u))) /\
    (forall k, In k (keys (wr_numamem w)) -> In k (keys (nr_numamem u))).

Lemma add_all_keys ws : forall u, names_known u ws ->
  keys (nr_cpumap (add_all u ws)) = keys (nr_cpumap u) /\ keys (nr_numamem (add_all u ws)) = keys (nr_numamem u).
Proof.
  unfold add_all. induction ws as [|w t IH]; intros u H; simpl; [auto|].
  destruct (H w (or_introl eq_refl)) as [Hc Hn].
  assert (K1 : keys (nr_cpumap (nr_add u (nr_of_wres w))) = keys (nr_cpumap u)) by (simpl; apply keys_cpumap_add; exact Hc).
  assert (K2 : keys (nr_numamem (nr_add u (nr_of_wres w))) = keys (nr_numamem u)) by (simpl; apply keys_cpumap_add; exact Hn).
  destruct (IH (nr_add u (nr_of_wres w))) as [A B].
  - intros w' I. destruct (H w' (or_intror I)) as [Hc' Hn']. rewrite K1, K2. auto.
  - rewrite A, B, K1, K2. auto.
Qed.

Lemma sub_all_keys ws : forall u, names_known u ws ->
  keys (nr_cpumap (sub_all u ws)) = keys (nr_cpumap u) /\ keys (nr_numamem (sub_all u ws)) = keys (nr_numamem u).
Proof.
  unfold sub_all. induction ws as [|w t IH]; intros u H; simpl; [auto|].
  destruct (H w (or_introl eq_refl)) as [Hc Hn].
  assert (K1 : keys (nr_cpumap (nr_sub u (nr_of_wres w))) = keys (nr_cpumap u)) by (simpl; apply keys_cpumap_sub; exact Hc).
  assert (K2 : keys (nr_numamem (nr_sub u (nr_of_wres w))) = keys (nr_numamem u)) by (simpl; apply keys_cpumap_sub; exact Hn).
  destruct (IH (nr_sub u (nr_of_wres w))) as [A B].
  - intros w' I. destruct (H w' (or_intror I)) as [Hc' Hn']. rewrite K1, K2. auto.
  - rewrite A, B, K1, K2. auto.
Qed.

Lemma names_known_keys u u' ws :
  keys (nr_cpumap u') = keys (nr_cpumap u) -> keys (nr_numamem u') = keys (nr_numamem u) ->
  names_known u ws -> names_known u' ws.
Proof. intros K1 K2 H w I. destruct (H w I) as [A B]. rewrite K1, K2. auto. Qed.

(* Incr then Decr gives back the very same maps *)
Lemma incr_decr_same_maps u ws :
  NoDup (keys (nr_cpumap u)) -> NoDup (keys (nr_numamem u)) -> names_known u ws ->
  nr_cpumap (sub_all (add_all u ws) ws) = nr_cpumap u /\ nr_numamem (sub_all (add_all u ws) ws) = nr_numamem u.
Proof.
  intros NC NN NK.
  destruct (add_all_keys ws u NK) as [A1 A2].
  destruct (sub_all_keys ws (add_all u ws) (names_known_keys u _ ws A1 A2 NK)) as [S1 S2].
  split; apply smap_eq_of_lookup.
  - rewrite S1, A1. reflexivity.
  - rewrite S1, A1. exact NC.
  - intro k. rewrite sub_all_cpumap, add_all_cpumap. lia.
  - rewrite S2, A2. reflexivity.
  - rewrite S2, A2. exact NN.
  - intro k. rewrite sub_all_numamem, add_all_numamem. lia.
Qed.

Lemma decr_incr_same_maps u ws :
  NoDup (keys (nr_cpumap u)) -> NoDup (keys (nr_numamem u)) -> names_known u ws ->
  nr_cpumap (add_all (sub_all u ws) ws) = nr_cpumap u /\ nr_numamem (add_all (sub_all u ws) ws) = nr_numamem u.
Proof.
  intros NC NN NK.
  destruct (sub_all_keys ws u NK) as [A1 A2].
  destruct (add_all_keys ws (sub_all u ws) (names_known_keys u _ ws A1 A2 NK)) as [S1 S2].
  split; apply smap_eq_of_lookup.
  - rewrite S1, A1. reflexivity.
  - rewrite S1, A1. exact NC.
  - intro k. rewrite add_all_cpumap, sub_all_cpumap. lia.
  - rewrite S2, A2. reflexivity.
  - rewrite S2, A2. exact NN.
  - intro k. rewrite add_all_numamem, sub_all_numamem. lia.
Qed.

(* RollbackAlloc / RollbackRealloc are never refused *)
Theorem rollback_never_refused (info info1 : node_info) (ws : list wres) :
  inv_valid (mkState info []) -> names_known (ni_usage info) ws ->
  set_node_resource_usage info None ws true true = inr info1 ->
  exists info2, set_node_resource_usage info1 None ws true false = inr info2 /\
                nr_cpumap (ni_usage info2) = nr_cpumap (ni_usage info) /\
                nr_numamem (ni_usage info2) = nr_numamem (ni_usage info) /\
                nr_mem (ni_usage info2) = nr_mem (ni_usage info).
Proof.
  intros (V & NC & NN) NK V1. simpl in V, NC, NN.
  unfold set_node_resource_usage, calculate_node_resource in *.
  apply validate_inr in V1. subst info1. cbn [ni_cap ni_usage].
  fold (add_all (ni_usage info) ws). fold (sub_all (add_all (ni_usage info) ws) ws).
  destruct (incr_decr_same_maps (ni_usage info) ws NC NN NK) as [M1 M2].
  eexists. split.
  - apply (validate_usage_congr (ni_cap info) (ni_usage info)); [symmetry; exact M1|symmetry; exact M2|].
    exists info. destruct info; exact V.
  - cbn [ni_usage]. split; [exact M1|split; [exact M2|]]. rewrite sub_all_mem, add_all_mem. lia.
Qed.

(* and the re-adding rollback of a release (remove / dissociate) *)
Theorem readd_never_refused (info info1 : node_info) (ws : list wres) :
  inv_valid (mkState info []) -> names_known (ni_usage info) ws ->
  set_node_resource_usage info None ws true false = inr info1 ->
  exists info2, set_node_resource_usage info1 None ws true true = inr info2 /\
                nr_cpumap (ni_usage info2) = nr_cpumap (ni_usage info) /\
                nr_numamem (ni_usage info2) = nr_numamem (ni_usage info) /\
                nr_mem (ni_usage info2) = nr_mem (ni_usage info).
Proof.
  intros (V & NC & NN) NK V1. simpl in V, NC, NN.
  unfold set_node_resource_usage, calculate_node_resource in *.
  apply validate_inr in V1. subst info1. cbn [ni_cap ni_usage].
  fold (sub_all (ni_usage info) ws). fold (add_all (sub_all (ni_usage info) ws) ws).
  destruct (decr_incr_same_maps (ni_usage info) ws NC NN NK) as [M1 M2].
  eexists. split.
  - apply (validate_usage_congr (ni_cap info) (ni_usage info)); [symmetry; exact M1|symmetry; exact M2|].
    exists info. destruct info; exact V.
  - cbn [ni_usage]. split; [exact M1|split; [exact M2|]]. rewrite add_all_mem, sub_all_mem. lia.
Qed.
