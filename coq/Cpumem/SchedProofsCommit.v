(* Cpumem/SchedProofsCommit.v — remaining clauses of C04: memory-only
   allocation, the boolean reflection used by the correspondence check, and
   (d) the committed state is accepted by the plugin's own Validate. *)
From Coq Require Import String Ascii List ZArith Bool Lia Permutation.
From Verif Require Import Base.GoInt Base.GoFloat.
From Verif Require Import Cpumem.Types Cpumem.Schedule Cpumem.Calc Cpumem.SchedCase.
From Verif Require Import Cpumem.SchedProofs Cpumem.SchedProofsMem Cpumem.SchedProofsFit Cpumem.SchedProofsFit2
                          Cpumem.SchedProofsTop Cpumem.SchedProofsDeploy.
Import ListNotations.
Local Open Scope Z_scope.

(* ---------- doAllocByMemory ---------- *)
Lemma repeat_n_length {A} n (x : A) : length (repeat_n n x) = n.
Proof. induction n; simpl; auto. Qed.
Lemma repeat_n_in {A} n (x y : A) : In y (repeat_n n x) -> y = x.
Proof. induction n; simpl; [tauto|]. intros [E|H]; auto. Qed.

Theorem alloc_by_memory_fit info count req eps ws :
  do_alloc_by_memory info count req = inr (eps, ws) -> 0 <= count -> 0 <= rq_mem_req req ->
  0 <= nr_mem (get_available_nofloat info) ->
  Z.of_nat (length ws) = count
  /\ count * rq_mem_req req <= nr_mem (get_available_nofloat info)
  /\ forall w, In w ws -> wr_mem_req w = rq_mem_req req /\ wr_cpumap w = [] /\ wr_numamem w = [].
Proof.
  unfold do_alloc_by_memory. intros H Hc Hm Hf.
  destruct (fgt _ _); [discriminate|].
  set (avail := get_available_nofloat info) in *.
  destruct ((0 <? rq_mem_req req) && (Z.quot (nr_mem avail) (rq_mem_req req) <? count)) eqn:E; [discriminate|].
  inversion H; subst; clear H. split; [rewrite repeat_n_length; lia|]. split.
  - apply andb_false_iff in E. destruct E as [E|E].
    + apply Z.ltb_ge in E. assert (rq_mem_req req = 0) by lia. nia.
    + apply Z.ltb_ge in E.
      destruct (Z.eq_dec (rq_mem_req req) 0) as [E0|N0]; [nia|].
      pose proof (Z.quot_rem' (nr_mem avail) (rq_mem_req req)).
      pose proof (Z.rem_bound_pos (nr_mem avail) (rq_mem_req req) ltac:(lia) ltac:(lia)).
      assert (count * rq_mem_req req <= Z.quot (nr_mem avail) (rq_mem_req req) * rq_mem_req req) by (apply Z.mul_le_mono_nonneg_r; lia).
      lia.
  - intros w Hw. apply repeat_n_in in Hw. subst. simpl. auto.
Qed.

(* ---------- the boolean reflection ---------- *)
Lemma pieces_on_used plans core : pieces_on plans core = used (map snd plans) core.
Proof.
  unfold pieces_on.
  assert (G : forall a, fold_left (fun s tp => s + lookup 0 (snd tp) core) plans a = a + used (map snd plans) core).
  { induction plans as [|tp t IH]; intros a; [simpl; lia|].
    simpl. rewrite IH. unfold used. symmetry. apply Z.add_assoc. }
  rewrite G. lia.
Qed.

Theorem fits_ok info mem plans :
  0 <= mem -> 0 <= nr_mem (get_available_nofloat info) ->
  fits info mem plans -> c04_plans_ok info mem plans = true.
Proof.
  intros Hm Hf (A & B & C & P). unfold c04_plans_ok. cbv zeta.
  repeat (apply andb_true_iff; split).
  - apply forallb_forall. intros tp Htp. apply forallb_forall. intros c Hc. apply Z.ltb_lt. eauto.
  - apply forallb_forall. intros core _. apply Z.leb_le. rewrite pieces_on_used. apply A.
  - apply forallb_forall. intros tp Htp. destruct (fst tp) as [|a s] eqn:Et; auto.
    apply forallb_forall. intros kv Hkv.
    assert (Hne : fst tp <> EmptyString) by (rewrite Et; discriminate).
    destruct (B tp Htp Hne) as (B1 & _).
    assert (E1 : lookup_opt (nr_numa (ni_cap info)) (fst kv) = Some (fst tp)) by (apply B1; unfold keys; apply in_map; exact Hkv).
    rewrite E1, Et. apply String.eqb_refl.
  - apply forallb_forall. intros tp Htp. destruct (fst tp) as [|a s] eqn:Et; auto.
    assert (Hne : fst tp <> EmptyString) by (rewrite Et; discriminate).
    destruct (B tp Htp Hne) as (_ & B2). rewrite Et in B2. apply Z.leb_le. exact B2.
  - apply Z.leb_le. lia.
Qed.

(* ---------- (d) commit ---------- *)
Lemma mem_key_in {V} (m : smap V) k : mem_key m k = true <-> In k (keys m).
Proof.
  unfold mem_key. induction m as [|[k' v] t IH]; simpl; [split; [discriminate|tauto]|].
  destruct (String.eqb_spec k k') as [->|N]; [split; auto|].
  rewrite IH. split; [auto|intros [E|H]; [congruence|auto]].
Qed.
Lemma nodup_keys_NoDup {V} (m : smap V) : nodup_keys m = true -> NoDup (keys m).
Proof.
  induction m as [|[k v] t IH]; simpl; intros H; [constructor|].
  apply andb_true_iff in H. destruct H as [H1 H2]. constructor; auto.
  intro Hin. apply mem_key_in in Hin. rewrite Hin in H1. discriminate.
Qed.
Lemma lookup_opt_some {V} (m : smap V) k v : NoDup (keys m) -> In (k, v) m -> lookup_opt m k = Some v.
Proof.
  induction m as [|[k' v'] t IH]; simpl; intros N H; [tauto|].
  inversion N as [|? ? Hn Ht]; subst. destruct H as [E|H].
  - inversion E; subst. rewrite String.eqb_refl. reflexivity.
  - destruct (String.eqb_spec k k') as [->|Nk]; [|auto].
    exfalso. apply Hn. unfold keys. change k' with (fst (k', v)). apply in_map. exact H.
Qed.
Lemma lookup_opt_lookup (m : smap Z) k v : lookup_opt m k = Some v -> lookup 0 m k = v.
Proof. unfold lookup. intros ->. reflexivity. Qed.
Lemma lookup_opt_none_notin {V} (m : smap V) k : lookup_opt m k = None -> ~ In k (keys m).
Proof. intros H Hin. apply mem_key_in in Hin. unfold mem_key in Hin. rewrite H in Hin. discriminate. Qed.
Lemma lookup_opt_in {V} (m : smap V) k : In k (keys m) -> exists v, lookup_opt m k = Some v.
Proof. intros H. apply mem_key_in in H. unfold mem_key in H. destruct (lookup_opt m k); [eauto|discriminate]. Qed.

Lemma lookup_cpumap_add (p : smap Z) : forall c id, NoDup (keys p) ->
  lookup 0 (cpumap_add c p) id = lookup 0 c id + lookup 0 p id.
Proof.
  unfold cpumap_add. induction p as [|[k v] t IH]; intros c id H; simpl.
  - unfold lookup at 3. simpl. lia.
  - inversion H as [|? ? Hn Ht]; subst. rewrite IH by auto. rewrite lookup_upd, lookup_cons.
    destruct (String.eqb_spec id k) as [->|N].
    + rewrite (lookup_notin t k) by auto. lia.
    + lia.
Qed.
Lemma keys_upd_incl {V} (c : smap V) k v x : In x (keys (upd c k v)) -> In x (keys c) \/ x = k.
Proof.
  induction c as [|[k' v'] t IH]; simpl; [intros [E|[]]; auto|].
  destruct (String.eqb_spec k k') as [->|N]; simpl; [tauto|].
  intros [E|H]; [auto|]. destruct (IH H); auto.
Qed.
Lemma cpumap_add_keys (p : smap Z) : forall c x, In x (keys (cpumap_add c p)) -> In x (keys c) \/ In x (keys p).
Proof.
  unfold cpumap_add. induction p as [|[k v] t IH]; intros c x H; simpl in *; auto.
  destruct (IH _ _ H) as [H1|H1]; [|auto]. apply keys_upd_incl in H1. destruct H1; auto.
Qed.
Lemma cpumap_add_nodup (p c : smap Z) : NoDup (keys c) -> NoDup (keys (cpumap_add c p)).
Proof.
  unfold cpumap_add. revert c. induction p as [|kv t IH]; intros c H; simpl; auto.
  apply IH. apply keys_upd_nodup; auto.
Qed.

Definition commit_fold (ws : list wres) (u : node_resource) : node_resource :=
  fold_left (fun u w => nr_add u (mkNR (wr_cpu_req w) (wr_cpumap w) (wr_mem_req w) (wr_numamem w) [])) ws u.

Lemma commit_fold_spec ws : Forall (fun w => NoDup (keys (wr_cpumap w)) /\ NoDup (keys (wr_numamem w))) ws ->
  forall u,
  (forall id, lookup 0 (nr_cpumap (commit_fold ws u)) id = lookup 0 (nr_cpumap u) id + used (map wr_cpumap ws) id)
  /\ (forall id, lookup 0 (nr_numamem (commit_fold ws u)) id = lookup 0 (nr_numamem u) id + used (map wr_numamem ws) id)
  /\ nr_mem (commit_fold ws u) = nr_mem u + fold_right (fun w s => wr_mem_req w + s) 0 ws
  /\ (NoDup (keys (nr_cpumap u)) -> NoDup (keys (nr_cpumap (commit_fold ws u))))
  /\ (forall k, In k (keys (nr_cpumap (commit_fold ws u))) ->
        In k (keys (nr_cpumap u)) \/ exists w, In w ws /\ In k (keys (wr_cpumap w))).
Proof.
  intros H. induction H as [|w t (N1 & N2) Ht IH]; intros u.
  - unfold commit_fold. simpl. repeat split; intros; auto; lia.
  - unfold commit_fold in *. cbn [fold_left].
    set (u1 := nr_add u (mkNR (wr_cpu_req w) (wr_cpumap w) (wr_mem_req w) (wr_numamem w) [])).
    destruct (IH u1) as (A & B & C & D & E).
    assert (Ec : nr_cpumap u1 = cpumap_add (nr_cpumap u) (wr_cpumap w)) by reflexivity.
    assert (En : nr_numamem u1 = cpumap_add (nr_numamem u) (wr_numamem w)) by reflexivity.
    assert (Em : nr_mem u1 = nr_mem u + wr_mem_req w) by reflexivity.
    split; [|split; [|split; [|split]]].
    + intros id. rewrite A, Ec, lookup_cpumap_add by auto. simpl. lia.
    + intros id. rewrite B, En, lookup_cpumap_add by auto. simpl. lia.
    + rewrite C, Em. simpl. lia.
    + intros Nu. apply D. rewrite Ec. apply cpumap_add_nodup; auto.
    + intros k Hk. destruct (E k Hk) as [H1|(w' & Hw' & Hk')].
      * rewrite Ec in H1. apply cpumap_add_keys in H1. destruct H1 as [H1|H1]; auto.
        right. exists w. split; [left; auto|auto].
      * right. exists w'. split; [right; auto|auto].
Qed.

Lemma used_ge_member l p id : plans_nn l -> In p l -> lookup 0 p id <= used l id.
Proof.
  intros N H. induction N as [|q t Hq Ht IH]; [destruct H|].
  simpl. destruct H as [->|H].
  - pose proof (used_nonneg t id Ht). lia.
  - specialize (IH H). pose proof (lookup_nn q id Hq). lia.
Qed.

Lemma lookup_entry (m : smap Z) k v : NoDup (keys m) -> In (k, v) m -> lookup 0 m k = v.
Proof. intros N H. apply lookup_opt_lookup. apply lookup_opt_some; auto. Qed.

Lemma count_tag_pos_in l nid : 0 < count_tag l nid -> exists tp, In tp l /\ fst tp = nid.
Proof.
  unfold count_tag. induction l as [|tp t IH]; simpl; [lia|].
  destruct (String.eqb_spec (fst tp) nid) as [E|N]; [exists tp; auto|].
  intros H. destruct (IH H) as (x & Hx & Ex). exists x; auto.
Qed.

Lemma count_tag_cons tp l nid : count_tag (tp :: l) nid = (if String.eqb (fst tp) nid then 1 else 0) + count_tag l nid.
Proof.
  unfold count_tag. cbn [filter]. destruct (String.eqb (fst tp) nid); [cbn [length]; rewrite Nat2Z.inj_succ|]; lia.
Qed.

Lemma used_numamem ws mem nid :
  (forall w, In w ws -> wr_numamem w = match wr_numanode w with EmptyString => [] | n => [(n, mem)] end) ->
  used (map wr_numamem ws) nid = if String.eqb nid EmptyString then 0 else count_tag (tagged_of ws) nid * mem.
Proof.
  intros H. destruct (String.eqb_spec nid "") as [->|Nn].
  - apply used_zero. intros p Hp. apply in_map_iff in Hp. destruct Hp as (w & <- & Hw).
    rewrite (H w Hw). destruct (wr_numanode w); simpl; [tauto|]. intros [E|[]]. discriminate.
  - induction ws as [|w t IH]; [reflexivity|].
    change (tagged_of (w :: t)) with ((wr_numanode w, wr_cpumap w) :: tagged_of t).
    rewrite count_tag_cons. cbn [fst map used fold_right]. fold (used (map wr_numamem t) nid).
    rewrite IH by (intros; apply H; right; auto). rewrite (H w) by (left; auto).
    destruct (wr_numanode w) as [|a s] eqn:En.
    + unfold lookup at 1. cbn [lookup_opt]. destruct (String.eqb_spec "" nid) as [E|N]; [congruence|lia].
    + rewrite lookup_single, (String.eqb_sym (String a s) nid).
      destruct (String.eqb nid (String a s)); lia.
Qed.

Lemma existsb_false_in {A} (f : A -> bool) l : existsb f l = false -> forall x, In x l -> f x = false.
Proof.
  intros H x Hx. destruct (f x) eqn:E; auto.
  assert (existsb f l = true) by (apply existsb_exists; exists x; auto). congruence.
Qed.

Theorem commit_valid info mem ws :
  valid_node info = true -> 0 <= mem ->
  fits info mem (tagged_of ws) ->
  (forall w, In w ws -> wr_mem_req w = mem
     /\ wr_numamem w = match wr_numanode w with EmptyString => [] | nid => [(nid, mem)] end) ->
  Forall (fun w => NoDup (keys (wr_cpumap w))) ws ->
  validate_ok (commit_usage info ws) = true
  /\ nr_mem (ni_usage (commit_usage info ws)) <= nr_mem (ni_cap info).
Proof.
  intros Hv Hm (A & B & C & P) Hw Nw.
  set (cap := ni_cap info) in *. set (usage := ni_usage info) in *.
  unfold valid_node, wf_info in Hv. fold cap usage in Hv.
  rewrite !andb_true_iff in Hv.
  destruct Hv as [[[[[[[[[NcC NuC] NcM] NuM] NcN] V] M1] M2] Up] Un].
  apply nodup_keys_NoDup in NcC, NuC, NcM, NuM, NcN.
  apply Z.leb_le in M1, M2. rewrite forallb_forall in Up, Un.
  (* the committed usage *)
  assert (Nws : Forall (fun w => NoDup (keys (wr_cpumap w)) /\ NoDup (keys (wr_numamem w))) ws).
  { rewrite Forall_forall in *. intros w Hin. split; [auto|]. rewrite (proj2 (Hw w Hin)).
    destruct (wr_numanode w); [constructor|]. constructor; [simpl; tauto|constructor]. }
  destruct (commit_fold_spec ws Nws usage) as (LA & LB & LC & LD & LE).
  change (commit_usage info ws) with (mkNI cap (commit_fold ws usage)).
  set (U' := commit_fold ws usage) in *.
  assert (Emap : map wr_cpumap ws = map snd (tagged_of ws)).
  { unfold tagged_of. rewrite map_map. reflexivity. }
  assert (Nn : plans_nn (map wr_cpumap ws)).
  { rewrite Emap. apply Forall_forall. intros p Hp. apply in_map_iff in Hp. destruct Hp as (tp & <- & Htp).
    apply Forall_forall. intros c Hc. specialize (P tp c Htp Hc). lia. }
  assert (Eavail : forall k, lookup 0 (nr_cpumap (get_available_nofloat info)) k = lookup 0 (nr_cpumap cap) k - lookup 0 (nr_cpumap usage) k).
  { intros k. simpl. apply lookup_cpumap_sub. exact NuC. }
  assert (EavailN : forall k, lookup 0 (nr_numamem (get_available_nofloat info)) k = lookup 0 (nr_numamem cap) k - lookup 0 (nr_numamem usage) k).
  { intros k. simpl. apply lookup_cpumap_sub. exact NuM. }
  (* what Validate accepted before *)
  unfold validate_ok, validate in V. cbn [ni_cap ni_usage] in V. fold cap usage in V.
  destruct (nr_cpumap cap) as [|c0 ct] eqn:Ecap; [discriminate|]. rewrite <- Ecap in *.
  destruct (usage_cpu_ok (nr_cpumap cap) (nr_cpumap usage)) eqn:Vu; [|discriminate]. simpl in V.
  unfold usage_cpu_ok in Vu. rewrite forallb_forall in Vu.
  split.
  2:{ cbn [ni_usage ni_cap]. rewrite LC.
      assert (Es : fold_right (fun w s => wr_mem_req w + s) 0 ws = Z.of_nat (length ws) * mem).
      { clear -Hw. induction ws as [|w t IH]; [reflexivity|].
        cbn [fold_right length]. rewrite IH by (intros; apply Hw; right; auto).
        rewrite (proj1 (Hw w (or_introl eq_refl))), Nat2Z.inj_succ. lia. }
      rewrite Es. unfold tagged_of in C. rewrite map_length in C. simpl in C. fold cap usage in C. lia. }
  unfold validate_ok, validate. cbn [ni_cap ni_usage]. rewrite Ecap. rewrite <- Ecap.
  assert (Vu' : usage_cpu_ok (nr_cpumap cap) (nr_cpumap U') = true).
  { unfold usage_cpu_ok. apply forallb_forall. intros [k v] Hkv. cbn [fst snd].
    assert (NU' : NoDup (keys (nr_cpumap U'))) by (apply LD; exact NuC).
    assert (Ev : v = lookup 0 (nr_cpumap usage) k + used (map wr_cpumap ws) k).
    { rewrite <- LA. symmetry. apply lookup_entry; auto. }
    assert (Hk : In k (keys (nr_cpumap U'))) by (unfold keys; change k with (fst (k, v)); apply in_map; exact Hkv).
    set (uk := lookup 0 (nr_cpumap usage) k) in *. set (Uk := used (map wr_cpumap ws) k) in *.
    assert (Uk0 : 0 <= Uk) by (apply used_nonneg; exact Nn).
    assert (uk0 : 0 <= uk).
    { unfold uk. destruct (lookup_opt (nr_cpumap usage) k) as [x|] eqn:El.
      - rewrite (lookup_opt_lookup _ _ _ El).
        assert (Hin : In (k, x) (nr_cpumap usage)).
        { clear -El. induction (nr_cpumap usage) as [|[k' v'] t IH]; simpl in *; [discriminate|].
          destruct (String.eqb_spec k k') as [->|N]; [inversion El; auto|auto]. }
        specialize (Up _ Hin). simpl in Up. apply Z.leb_le in Up. exact Up.
      - unfold lookup. rewrite El. lia. }
    pose proof (A k) as Ak. rewrite <- Emap in Ak. fold Uk in Ak. rewrite Eavail in Ak. fold uk in Ak.
    destruct (Z.eq_dec Uk 0) as [E0|N0].
    - (* not touched by the new workloads: it was in the usage map already *)
      assert (Hin : In k (keys (nr_cpumap usage))).
      { destruct (LE k Hk) as [H1|(w & Hw1 & Hk1)]; auto. exfalso.
        unfold keys in Hk1. apply in_map_iff in Hk1. destruct Hk1 as ([k1 x] & Ek & Hx). simpl in Ek. subst k1.
        assert (0 < x).
        { apply (P (wr_numanode w, wr_cpumap w) (k, x)); auto. unfold tagged_of. apply in_map_iff. exists w; auto. }
        rewrite Forall_forall in Nw.
        pose proof (lookup_entry _ _ _ (Nw w Hw1) Hx) as Lx.
        pose proof (used_ge_member (map wr_cpumap ws) (wr_cpumap w) k Nn (in_map _ _ _ Hw1)). fold Uk in H0. lia. }
      unfold keys in Hin. apply in_map_iff in Hin. destruct Hin as ([k1 x] & Ek & Hx). simpl in Ek. subst k1.
      specialize (Vu _ Hx). cbn [fst snd] in Vu.
      destruct (lookup_opt (nr_cpumap cap) k) as [total|]; [|discriminate].
      apply andb_true_iff in Vu. destruct Vu as [V1 V2].
      assert (Ex : uk = x) by (unfold uk; apply lookup_entry; auto).
      apply negb_true_iff in V1, V2. apply Z.ltb_ge in V1, V2.
      apply andb_true_iff; split; apply negb_true_iff; apply Z.ltb_ge; lia.
    - assert (Hc : uk < lookup 0 (nr_cpumap cap) k) by lia.
      destruct (lookup_opt (nr_cpumap cap) k) as [total|] eqn:El.
      + rewrite (lookup_opt_lookup _ _ _ El) in *.
        apply andb_true_iff; split; apply negb_true_iff; apply Z.ltb_ge; lia.
      + unfold lookup in Hc. rewrite El in Hc. lia. }
  rewrite Vu'. simpl.
  destruct (nr_numa cap) as [|n0 nt] eqn:En; [reflexivity|]. rewrite <- En in *.
  destruct (numa_cpu_fault cap); [discriminate|].
  destruct (numa_mem_fault1 cap); [discriminate|]. simpl in V |- *.
  destruct (numa_mem_fault2 cap usage) eqn:F2; [discriminate|].
  assert (F2' : numa_mem_fault2 cap U' = false); [|rewrite F2'; reflexivity].
  unfold numa_mem_fault2 in *. apply not_true_is_false. intro Hex.
  apply existsb_exists in Hex. destruct Hex as ([nid capn] & Hin & Hbad). cbn [fst snd] in Hbad.
  pose proof (existsb_false_in _ _ F2 _ Hin) as Hgood. cbn [fst snd] in Hgood.
  cbv zeta in Hgood, Hbad. apply orb_false_iff in Hgood. destruct Hgood as [G1 G2].
  apply orb_false_iff in G2. destruct G2 as [G2 G3]. apply Z.ltb_ge in G1, G2, G3.
  rewrite LB in Hbad.
  rewrite (used_numamem ws mem nid) in Hbad by (intros w Hin'; apply (proj2 (Hw w Hin'))).
  assert (Hcn : lookup 0 (nr_numamem cap) nid = capn) by (apply lookup_entry; auto).
  destruct (String.eqb nid "") eqn:Enid.
  - rewrite Z.add_0_r in Hbad. apply orb_true_iff in Hbad. destruct Hbad as [Hb|Hb]; [apply Z.ltb_lt in Hb; lia|].
    apply orb_true_iff in Hb. destruct Hb as [Hb|Hb]; apply Z.ltb_lt in Hb; lia.
  - set (cn := count_tag (tagged_of ws) nid) in *.
    assert (Cn0 : 0 <= cn) by apply count_tag_nonneg.
    assert (Hle : cn * mem <= capn - lookup 0 (nr_numamem usage) nid).
    { destruct (Z.eq_dec cn 0) as [E0|N0]; [rewrite E0; lia|].
      destruct (count_tag_pos_in (tagged_of ws) nid ltac:(unfold cn in *; lia)) as (tp & Htp & Et).
      assert (Hne : fst tp <> EmptyString).
      { rewrite Et. intro E. rewrite E in Enid. simpl in Enid. discriminate. }
      destruct (B tp Htp Hne) as (_ & B2). rewrite Et in B2. fold cn in B2.
      rewrite EavailN, Hcn in B2. lia. }
    assert (0 <= cn * mem) by nia.
    apply orb_true_iff in Hbad. destruct Hbad as [Hb|Hb]; [apply Z.ltb_lt in Hb; lia|].
    apply orb_true_iff in Hb. destruct Hb as [Hb|Hb]; apply Z.ltb_lt in Hb; lia.
Qed.

(* ---------- end to end: CalculateDeploy then commit ---------- *)
Lemma wreq_validate_mem raw req : wreq_validate raw = inr req -> 0 <= rq_mem_req req.
Proof.
  unfold wreq_validate. intros H.
  destruct ((rq_mem_lim raw <? 0) || (rq_mem_req raw <? 0)) eqn:E1; [discriminate|].
  apply orb_false_iff in E1. destruct E1 as [E1 E2]. apply Z.ltb_ge in E1, E2.
  destruct (flt _ _ || flt _ _); [discriminate|].
  destruct (feq _ _ && rq_bind raw); [discriminate|].
  inversion H; subst; clear H. cbn [rq_mem_req].
  destruct ((rq_mem_req raw =? 0) && (0 <? rq_mem_lim raw)); lia.
Qed.

Lemma valid_node_wf info : valid_node info = true ->
  wf_maps info /\ 0 <= nr_mem (get_available_nofloat info).
Proof.
  unfold valid_node, wf_info. rewrite !andb_true_iff.
  intros [[[[[[[[[NcC NuC] NcM] NuM] NcN] V] M1] M2] Up] Un].
  apply nodup_keys_NoDup in NcC, NcN. apply Z.leb_le in M1, M2.
  split; [split; auto|]. simpl. lia.
Qed.

Lemma alloc_by_memory_node info count req eps ws :
  do_alloc_by_memory info count req = inr (eps, ws) -> forall w, In w ws -> wr_numanode w = EmptyString.
Proof.
  unfold do_alloc_by_memory. intros H w Hw. destruct (fgt _ _); [discriminate|].
  destruct (_ && _); [discriminate|]. inversion H as [[E1 E2]]. rewrite <- E2 in Hw.
  apply repeat_n_in in Hw. rewrite Hw. reflexivity.
Qed.

Section E2E.
Variable sortf : list keyed -> outcome (list keyed).
Hypothesis sortf_perm : forall l, exists l', sortf l = Ok l' /\ Permutation l' l.

(* C04 end to end: whatever CalculateDeploy returns for a valid node can be committed *)
Theorem deploy_commit_valid info base maxshare count raw order fuel eps ws :
  calculate_deploy_g sortf info base maxshare count raw order fuel = Ok (inr (eps, ws)) ->
  valid_node info = true -> NoDup order -> ~ In EmptyString order -> 0 < base -> 0 <= count ->
  validate_ok (commit_usage info ws) = true
  /\ nr_mem (ni_usage (commit_usage info ws)) <= nr_mem (ni_cap info).
Proof.
  intros H Hv Nd Hne Hb Hc.
  destruct (valid_node_wf info Hv) as (Wf & Hfree).
  unfold calculate_deploy_g in H.
  destruct (wreq_validate raw) as [[|]|req] eqn:Ev; try discriminate.
  pose proof (wreq_validate_mem raw req Ev) as Hm.
  destruct (rq_bind req) eqn:Eb; simpl in H.
  - (* cpu-bind *)
    assert (H' : calculate_deploy_g sortf info base maxshare count raw order fuel = Ok (inr (eps, ws))).
    { unfold calculate_deploy_g. rewrite Ev, Eb. exact H. }
    destruct (deploy_fit sortf sortf_perm _ _ _ _ _ _ _ _ _ _ H' Ev Eb Wf Nd Hne Hb Hm Hfree) as (_ & F & Wm).
    apply (commit_valid info (rq_mem_req req) ws Hv Hm F Wm).
    destruct (deploy_struct sortf _ _ _ _ _ _ _ _ _ _ H' Ev Eb) as (plans & Ep & _ & _ & ->).
    destruct (get_cpu_plans_content sortf sortf_perm _ _ _ _ _ _ _ _ Ep Hb (proj2 Wf) Nd (avail_nodup info Wf)) as (_ & _ & Sh).
    apply Forall_forall. intros w Hw. apply in_map_iff in Hw. destruct Hw as (tp & <- & Htp). simpl.
    apply In_firstn_in in Htp. destruct (Sh tp Htp) as (IDS & S). apply (shape_keys_nodup _ _ _ _ S).
  - (* memory only *)
    inversion H as [H1]. 
    destruct (alloc_by_memory_fit info count req eps ws H1 Hc Hm Hfree) as (L & M & W).
    apply (commit_valid info (rq_mem_req req) ws Hv Hm).
    + assert (Et : forall w, In w ws -> wr_cpumap w = [] /\ wr_numanode w = EmptyString).
      { intros w Hw. split; [apply (W w Hw)|apply (alloc_by_memory_node _ _ _ _ _ H1 w Hw)]. }
      unfold fits. cbv zeta. repeat split.
      * intros id. assert (used (map snd (tagged_of ws)) id = 0); [|lia].
        apply used_zero. intros p Hp. apply in_map_iff in Hp. destruct Hp as (tp & <- & Htp).
        unfold tagged_of in Htp. apply in_map_iff in Htp. destruct Htp as (w & <- & Hw). simpl.
        rewrite (proj1 (Et w Hw)). simpl. tauto.
      * exfalso. unfold tagged_of in H0. apply in_map_iff in H0. destruct H0 as (w & <- & Hw). simpl in H2.
        apply H2. apply (Et w Hw).
      * exfalso. unfold tagged_of in H0. apply in_map_iff in H0. destruct H0 as (w & <- & Hw). simpl in H2.
        apply H2. apply (Et w Hw).
      * unfold tagged_of. rewrite map_length. lia.
      * intros tp c Htp Hcn. unfold tagged_of in Htp. apply in_map_iff in Htp. destruct Htp as (w & <- & Hw).
        simpl in Hcn. rewrite (proj1 (Et w Hw)) in Hcn. destruct Hcn.
    + intros w Hw. destruct (W w Hw) as (W1 & W2 & W3). split; auto. rewrite W3.
      assert (wr_numanode w = EmptyString) by (apply (alloc_by_memory_node _ _ _ _ _ H1 w Hw)).
      rewrite H0. reflexivity.
    + apply Forall_forall. intros w Hw. destruct (W w Hw) as (_ & W2 & _). rewrite W2. constructor.
Qed.
End E2E.

(* ---------- the correspondence check's boolean reflection on the model's own output ---------- *)
Section ModelOk.
Variable sortf : list keyed -> outcome (list keyed).
Hypothesis sortf_perm : forall l, exists l', sortf l = Ok l' /\ Permutation l' l.

Theorem plans_ok_on_model info origin base mf req order fuel plans :
  get_cpu_plans_g sortf info origin base mf req order fuel = Ok plans ->
  wf_maps info -> NoDup order -> ~ In EmptyString order -> 0 < base ->
  0 <= rq_mem_req req -> 0 <= nr_mem (get_available_nofloat info) ->
  c04_plans_ok info (rq_mem_req req) plans = true.
Proof.
  intros H Wf Nd Hne Hb Hm Hfree.
  pose proof (plans_fit sortf sortf_perm _ _ _ _ _ _ _ _ H Wf Nd Hne Hb Hm Hfree) as F. cbv zeta in F.
  apply fits_ok; auto.
  destruct F as (A & B & C & P). unfold fits; cbv zeta. repeat split; auto; apply (B tp H0 H1).
Qed.
End ModelOk.
