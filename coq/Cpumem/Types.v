(* Cpumem/Types.v — data types of resource/plugins/cpumem/types (executable, no proofs).

   INTERFACE (stable; builder C imports this — names are only ever added):
     smap V                      Go map[string]V as an association list (lookup semantics,
                                 first occurrence wins; constructors keep keys unique)
     lookup d m k / lookup_opt / mem_key / upd m k v / del m k / keys m
     sort_smap m                 canonical form (sorted by key, bytewise) for comparison
     smap_eqb eqb m1 m2          equality of canonical forms
     cpumap_add c c1 / cpumap_sub c c1     CPUMap.Add / CPUMap.Sub   (also used for NUMAMemory)
     total_pieces c              CPUMap.TotalPieces
     node_resource (mkNR nr_cpu nr_cpumap nr_mem nr_numamem nr_numa), nr_empty
     nr_deepcopy / nr_add / nr_sub      NodeResource.DeepCopy / Add / Sub  (CPU via utils.Round)
     node_info (mkNI ni_cap ni_usage), get_available    NodeResourceInfo.GetAvailableResource
     validate : node_info -> verr + node_info          NodeResourceInfo.Validate (usage non-nil)
     wreq (mkReq rq_bind rq_keep rq_cpu_req rq_cpu_lim rq_mem_req rq_mem_lim), wreq_validate
     wres (mkWR …) workload resource, eparams (mkEP …) engine params
     outcome A := Ok a | Panic r | OutOfFuel | Ambiguous     (every loop has fuel; bad slice
                                 bounds / index / division by zero are Panic outcomes)
     f_round9 (utils.Round), f_to_int (Go int(f) on amd64), f_round (math.Round)
*)
From Coq Require Import String Ascii List ZArith Bool.
From Flocq Require Import IEEE754.BinarySingleNaN IEEE754.Binary IEEE754.Bits Core.
From Verif Require Import Base.GoInt Base.GoFloat.
Import ListNotations.
Local Open Scope Z_scope.

(* ---------- outcomes ---------- *)
Inductive reason := RSlice | RIndex | RDivZero.
Inductive outcome (A : Type) : Type :=
  | Ok (a : A) | Panic (r : reason) | OutOfFuel | Ambiguous.
Arguments Ok {A} a. Arguments Panic {A} r. Arguments OutOfFuel {A}. Arguments Ambiguous {A}.

Definition bind {A B} (o : outcome A) (f : A -> outcome B) : outcome B :=
  match o with Ok a => f a | Panic r => Panic r | OutOfFuel => OutOfFuel | Ambiguous => Ambiguous end.
Notation "'do' x <- o ; k" := (bind o (fun x => k)) (at level 200, x pattern, o at level 100, k at level 200).

Definition reason_eqb (a b : reason) : bool :=
  match a, b with RSlice, RSlice | RIndex, RIndex | RDivZero, RDivZero => true | _, _ => false end.

(* ---------- Go map[string]V ---------- *)
Definition smap (V : Type) := list (string * V).

Fixpoint lookup_opt {V} (m : smap V) (k : string) : option V :=
  match m with
  | [] => None
  | (k', v) :: t => if String.eqb k k' then Some v else lookup_opt t k
  end.
Definition lookup {V} (d : V) (m : smap V) (k : string) : V :=
  match lookup_opt m k with Some v => v | None => d end.
Definition mem_key {V} (m : smap V) (k : string) : bool :=
  match lookup_opt m k with Some _ => true | None => false end.
(* m[k] = v : replace in place, or append a new key *)
Fixpoint upd {V} (m : smap V) (k : string) (v : V) : smap V :=
  match m with
  | [] => [(k, v)]
  | (k', v') :: t => if String.eqb k k' then (k', v) :: t else (k', v') :: upd t k v
  end.
Fixpoint del {V} (m : smap V) (k : string) : smap V :=
  match m with
  | [] => []
  | (k', v') :: t => if String.eqb k k' then t else (k', v') :: del t k
  end.
Definition keys {V} (m : smap V) : list string := map fst m.

(* canonical form: stable insertion sort by key (bytewise string order) *)
Fixpoint ins_key {V} (x : string * V) (l : smap V) : smap V :=
  match l with
  | [] => [x]
  | y :: t => if String.ltb (fst y) (fst x) then y :: ins_key x t else x :: l
  end.
Fixpoint sort_smap {V} (m : smap V) : smap V :=
  match m with [] => [] | x :: t => ins_key x (sort_smap t) end.

Fixpoint list_eqb' {A} (eqb : A -> A -> bool) (l1 l2 : list A) : bool :=
  match l1, l2 with
  | [], [] => true
  | x :: t1, y :: t2 => eqb x y && list_eqb' eqb t1 t2
  | _, _ => false
  end.
Definition smap_eqb {V} (eqb : V -> V -> bool) (m1 m2 : smap V) : bool :=
  list_eqb' (fun a b => String.eqb (fst a) (fst b) && eqb (snd a) (snd b)) (sort_smap m1) (sort_smap m2).

(* CPUMap.Add / Sub, NUMAMemory.Add / Sub: for k, v := range c1 { c[k] ±= v } *)
Definition cpumap_add (c c1 : smap Z) : smap Z :=
  fold_left (fun acc kv => upd acc (fst kv) (lookup 0 acc (fst kv) + snd kv)) c1 c.
Definition cpumap_sub (c c1 : smap Z) : smap Z :=
  fold_left (fun acc kv => upd acc (fst kv) (lookup 0 acc (fst kv) - snd kv)) c1 c.
Definition total_pieces (c : smap Z) : Z := fold_left (fun s kv => s + snd kv) c 0.

(* ---------- floats used by the plugin ---------- *)
Definition f_zero : f64 := f_of_Z 0.
Definition nan_pl64 : { x : binary64 | is_nan 53 1024 x = true } :=
  exist _ (B754_nan 53 1024 false 1%positive (eq_refl true)) (eq_refl true).
(* math.Round: nearest integer, halves away from zero *)
Definition f_round (a : f64) : f64 :=
  Binary.Bnearbyint 53 1024 (eq_refl _) (fun _ => nan_pl64) mode_NA a.
(* Go's int(f) on amd64 (CVTTSD2SQ): truncation toward zero; NaN, Inf and
   out-of-range values give the "integer indefinite" value MinInt64 *)
Definition f_to_int (a : f64) : Z :=
  if f_finite a then
    let z := Binary.Btrunc 53 1024 a in
    if in_int64 z then z else min_int
  else min_int.
(* utils.Round(f) = math.Round(f*1e9)/1e9 *)
Definition f_1e9 : f64 := f_of_Z 1000000000.
Definition f_round9 (a : f64) : f64 := fdiv (f_round (fmul a f_1e9)) f_1e9.

(* ---------- NodeResource ---------- *)
Record node_resource := mkNR {
  nr_cpu : f64;
  nr_cpumap : smap Z;
  nr_mem : Z;
  nr_numamem : smap Z;
  nr_numa : smap string }.
Definition nr_empty : node_resource := mkNR f_zero [] 0 [] [].

(* DeepCopy copies every map; association lists are immutable, so it is the identity *)
Definition nr_deepcopy (r : node_resource) : node_resource := r.

Definition nr_add (r r1 : node_resource) : node_resource :=
  mkNR (f_round9 (fadd (nr_cpu r) (nr_cpu r1)))
       (cpumap_add (nr_cpumap r) (nr_cpumap r1))
       (nr_mem r + nr_mem r1)
       (cpumap_add (nr_numamem r) (nr_numamem r1))
       (match nr_numa r1 with [] => nr_numa r | _ => nr_numa r1 end).
Definition nr_sub (r r1 : node_resource) : node_resource :=
  mkNR (f_round9 (fsub (nr_cpu r) (nr_cpu r1)))
       (cpumap_sub (nr_cpumap r) (nr_cpumap r1))
       (nr_mem r - nr_mem r1)
       (cpumap_sub (nr_numamem r) (nr_numamem r1))
       (nr_numa r).
(* the integer part of Sub only (the CPU float of the available resource is
   dead in GetCPUPlans; skipping it keeps the scheduler model float-free) *)
Definition nr_sub_nofloat (r r1 : node_resource) : node_resource :=
  mkNR (nr_cpu r)
       (cpumap_sub (nr_cpumap r) (nr_cpumap r1))
       (nr_mem r - nr_mem r1)
       (cpumap_sub (nr_numamem r) (nr_numamem r1))
       (nr_numa r).

Record node_info := mkNI { ni_cap : node_resource; ni_usage : node_resource }.

Definition get_available (n : node_info) : node_resource := nr_sub (ni_cap n) (ni_usage n).
Definition get_available_nofloat (n : node_info) : node_resource := nr_sub_nofloat (ni_cap n) (ni_usage n).

(* ---------- NodeResourceInfo.Validate (Usage != nil, Capacity != nil) ---------- *)
Inductive verr := ErrInvalidCapacity | ErrInvalidCPUMap | ErrInvalidNUMACPU | ErrInvalidNUMAMemory.
Definition verr_eqb (a b : verr) : bool :=
  match a, b with
  | ErrInvalidCapacity, ErrInvalidCapacity | ErrInvalidCPUMap, ErrInvalidCPUMap
  | ErrInvalidNUMACPU, ErrInvalidNUMACPU | ErrInvalidNUMAMemory, ErrInvalidNUMAMemory => true
  | _, _ => false end.

Definition usage_cpu_ok (cap usage : smap Z) : bool :=
  forallb (fun kv => match lookup_opt cap (fst kv) with
                     | None => false
                     | Some total => negb (total <? 0) && negb (total <? snd kv)
                     end) usage.
(* the NUMA block can fail with two different errors depending on map order only
   when both kinds of fault are present; [validate] reports the class, the
   harness compares accept/reject plus the class when it is unique *)
Definition numa_cpu_fault (cap : node_resource) : bool :=
  existsb (fun kv => negb (mem_key (nr_numa cap) (fst kv))) (nr_cpumap cap).
Definition numa_mem_fault1 (cap : node_resource) : bool :=
  existsb (fun kv => match lookup_opt (nr_numa cap) (fst kv) with
                     | Some nid => negb (mem_key (nr_numamem cap) nid)
                     | None => false end) (nr_cpumap cap).
Definition numa_mem_fault2 (cap usage : node_resource) : bool :=
  existsb (fun kv => (snd kv <? 0)
                     || (let used := lookup 0 (nr_numamem usage) (fst kv) in
                         (used <? 0) || (snd kv <? used))) (nr_numamem cap).

Definition validate (n : node_info) : verr + node_info :=
  let cap := ni_cap n in let usage := ni_usage n in
  match nr_cpumap cap with
  | [] => inl ErrInvalidCPUMap
  | _ =>
    if negb (usage_cpu_ok (nr_cpumap cap) (nr_cpumap usage)) then inl ErrInvalidCPUMap
    else match nr_numa cap with
         | [] => inr n
         | _ => if numa_cpu_fault cap then inl ErrInvalidNUMACPU
                else if numa_mem_fault1 cap || numa_mem_fault2 cap usage then inl ErrInvalidNUMAMemory
                else inr n
         end
  end.
Definition validate_ok (n : node_info) : bool :=
  match validate n with inr _ => true | inl _ => false end.

(* ---------- workload request / resource / engine params ---------- *)
Record wreq := mkReq {
  rq_bind : bool; rq_keep : bool;
  rq_cpu_req : f64; rq_cpu_lim : f64;
  rq_mem_req : Z; rq_mem_lim : Z }.

Inductive rerr := ErrInvalidMemory | ErrInvalidCPU.

(* WorkloadResourceRequest.Validate, statement by statement *)
Definition wreq_validate (w : wreq) : rerr + wreq :=
  let cr := rq_cpu_req w in let cl := rq_cpu_lim w in
  let cr := if feq cr f_zero && fgt cl f_zero then cl else cr in
  if (rq_mem_lim w <? 0) || (rq_mem_req w <? 0) then inl ErrInvalidMemory else
  if flt cr f_zero || flt cl f_zero then inl ErrInvalidCPU else
  if feq cr f_zero && rq_bind w then inl ErrInvalidCPU else
  let mr := rq_mem_req w in let ml := rq_mem_lim w in
  let mr := if (mr =? 0) && (0 <? ml) then ml else mr in
  let ml := if (0 <? ml) && (0 <? mr) && (ml <? mr) then mr else ml in
  let cl := if fgt cr f_zero && fgt cl f_zero && flt cl cr then cr else cl in
  let cr := if rq_bind w && fgt cr f_zero && fgt cl f_zero && fgt cl cr then cl else cr in
  inr (mkReq (rq_bind w) (rq_keep w) cr cl mr ml).

Record wres := mkWR {
  wr_cpu_req : f64; wr_cpu_lim : f64; wr_mem_req : Z; wr_mem_lim : Z;
  wr_cpumap : smap Z; wr_numamem : smap Z; wr_numanode : string }.
Record eparams := mkEP {
  ep_cpu : f64; ep_cpumap : smap Z; ep_numanode : string; ep_mem : Z; ep_remap : bool }.

Definition wres_eqb (a b : wres) : bool :=
  fbits_eqb (wr_cpu_req a) (wr_cpu_req b) && fbits_eqb (wr_cpu_lim a) (wr_cpu_lim b)
  && (wr_mem_req a =? wr_mem_req b) && (wr_mem_lim a =? wr_mem_lim b)
  && smap_eqb Z.eqb (wr_cpumap a) (wr_cpumap b) && smap_eqb Z.eqb (wr_numamem a) (wr_numamem b)
  && String.eqb (wr_numanode a) (wr_numanode b).
Definition eparams_eqb (a b : eparams) : bool :=
  fbits_eqb (ep_cpu a) (ep_cpu b) && smap_eqb Z.eqb (ep_cpumap a) (ep_cpumap b)
  && String.eqb (ep_numanode a) (ep_numanode b) && (ep_mem a =? ep_mem b)
  && Bool.eqb (ep_remap a) (ep_remap b).
