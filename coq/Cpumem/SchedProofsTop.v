(* Cpumem/SchedProofsTop.v — the statements of C04 and C05 assembled from the
   content lemmas: joint feasibility of GetCPUPlans (a, b, c), the exact piece
   amount and shape of every plan, and their lifting to CalculateDeploy. *)
From Coq Require Import String Ascii List ZArith Bool Lia Permutation.
From Verif Require Import Base.GoInt Base.GoFloat.
From Verif Require Import Cpumem.Types Cpumem.Schedule Cpumem.Calc Cpumem.SchedCase.
From Verif Require Import Cpumem.SchedProofs Cpumem.SchedProofsMem Cpumem.SchedProofsFit Cpumem.SchedProofsFit2 Cpumem.SchedProofsPieces.
Import ListNotations.
Local Open Scope Z_scope.

(* ---------- C05: boolean reflection of the plan shape ---------- *)
Lemma total_pieces_shift (p : plan) a : fold_left (fun s kv => s + snd kv) p a = a + total_pieces p.
Proof.
  unfold total_pieces. revert a. induction p as [|kv t IH]; intros a; simpl; [lia|].
  rewrite (IH (a + snd kv)), (IH (snd kv)). lia.
Qed.
Lemma total_pieces_app (p q : plan) : total_pieces (p ++ q) = total_pieces p + total_pieces q.
Proof. unfold total_pieces at 1. rewrite fold_left_app. rewrite total_pieces_shift. reflexivity. Qed.
Lemma total_pieces_all (p : plan) v : Forall (fun kv => snd kv = v) p -> total_pieces p = Z.of_nat (length p) * v.
Proof.
  intros H. induction H as [|kv t Hx Ht IH]; [reflexivity|].
  change (kv :: t) with ([kv] ++ t). rewrite total_pieces_app, IH.
  change (total_pieces [kv]) with (0 + snd kv). rewrite Hx.
  change (length ([kv] ++ t)) with (S (length t)). rewrite Nat2Z.inj_succ. lia.
Qed.
Lemma filter_all_eq (p : plan) v : Forall (fun kv => snd kv = v) p -> filter (fun kv => snd kv =? v) p = p.
Proof.
  intros H. induction H as [|kv t Hx Ht IH]; simpl; auto. rewrite Hx, Z.eqb_refl, IH. reflexivity.
Qed.
Lemma filter_all_ne (p : plan) v w : v <> w -> Forall (fun kv => snd kv = v) p -> filter (fun kv => snd kv =? w) p = [].
Proof.
  intros N H. induction H as [|kv t Hx Ht IH]; simpl; auto. rewrite Hx.
  destruct (Z.eqb_spec v w); [contradiction|]. exact IH.
Qed.

Lemma shape_c05_ok base pr IDS p : 0 < base -> 0 < pr ->
  plan_shape base (Z.quot pr base) (Z.rem pr base) IDS p -> c05_plan_ok base pr p = true.
Proof.
  intros Hb Hp (p0 & fr & -> & _ & L & V & Fr & _).
  pose proof (Z.quot_rem' pr base) as Eq.
  pose proof (Z.rem_bound_pos pr base ltac:(lia) ltac:(lia)) as Rb.
  unfold c05_plan_ok. cbv zeta.
  rewrite total_pieces_app, (total_pieces_all p0 base V), filter_app, (filter_all_eq p0 base V), !app_length.
  destruct Fr as [[E0 ->]|[Hf (k & ->)]].
  - replace (Z.rem pr base =? 0) with true by (symmetry; apply Z.eqb_eq; auto).
    cbn [filter length]. change (total_pieces []) with 0. rewrite Nat.add_0_r.
    rewrite !andb_true_iff. repeat split; try apply Z.eqb_eq; lia.
  - assert (Hne : Z.rem pr base =? 0 = false) by (apply Z.eqb_neq; lia).
    rewrite Hne. unfold total_pieces at 1. simpl fold_left.
    cbn [filter snd]. destruct (Z.eqb_spec (Z.rem pr base) base) as [E|N]; [lia|].
    rewrite filter_app, (filter_all_ne p0 base (Z.rem pr base)) by (auto; lia).
    cbn [filter snd app]. rewrite Z.eqb_refl. cbn [length].
    repeat (apply andb_true_iff; split); apply Z.eqb_eq; lia.
Qed.

Section Top.
Variable sortf : list keyed -> outcome (list keyed).
Hypothesis sortf_perm : forall l, exists l', sortf l = Ok l' /\ Permutation l' l.

(* wf of the Go maps of a node *)
Definition wf_maps (info : node_info) : Prop :=
  NoDup (keys (nr_cpumap (ni_cap info))) /\ NoDup (keys (nr_numa (ni_cap info))).

Lemma avail_nodup info : wf_maps info -> NoDup (keys (nr_cpumap (get_available_nofloat info))).
Proof. intros (H & _). simpl. apply cpumap_sub_nodup. exact H. Qed.

(* C05: every plan has pieces = request x base, as whole cores plus at most one fragment core *)
Theorem plans_exact info origin base mf req order fuel plans k :
  get_cpu_plans_g sortf info origin base mf req order fuel = Ok plans ->
  wf_maps info -> NoDup order ->
  1 <= k < 2^50 -> 1 <= base <= 2^53 -> rq_cpu_req req = decimal_request k base ->
  forall tp, In tp plans ->
    c05_plan_ok base k (snd tp) = true
    /\ exists p0 fr, snd tp = p0 ++ fr /\ Z.of_nat (length p0) = Z.quot k base
         /\ Forall (fun kv => snd kv = base) p0
         /\ ((Z.rem k base = 0 /\ fr = []) \/ (0 < Z.rem k base /\ exists c, fr = [(c, Z.rem k base)]))
         /\ total_pieces (snd tp) = k.
Proof.
  intros H Wf Nd Hk Hb Er tp Hin.
  destruct (get_cpu_plans_content sortf sortf_perm _ _ _ _ _ _ _ _ H ltac:(lia) (proj2 Wf) Nd (avail_nodup info Wf)) as (_ & _ & Sh).
  destruct (Sh tp Hin) as (IDS & Hpr & Sp).
  rewrite Er, (decimal_pieces k base Hk Hb) in *.
  pose proof (shape_c05_ok base k IDS (snd tp) ltac:(lia) ltac:(lia) Sp) as Ok5.
  split; auto.
  destruct Sp as (p0 & fr & E & _ & L & V & Fr & _). exists p0, fr. repeat split; auto.
  unfold c05_plan_ok in Ok5. cbv zeta in Ok5.
  apply andb_true_iff in Ok5. destruct Ok5 as [Ok5 _]. apply andb_true_iff in Ok5. destruct Ok5 as [Ok5 _].
  apply andb_true_iff in Ok5. destruct Ok5 as [Ok5 _]. apply Z.eqb_eq in Ok5. exact Ok5.
Qed.

(* C04 (a) (b) (c) for GetCPUPlans *)
Theorem plans_fit info origin base mf req order fuel plans :
  get_cpu_plans_g sortf info origin base mf req order fuel = Ok plans ->
  wf_maps info -> NoDup order -> ~ In EmptyString order -> 0 < base ->
  0 <= rq_mem_req req -> 0 <= nr_mem (get_available_nofloat info) ->
  let avail := get_available_nofloat info in
  (forall id, used (map snd plans) id <= Z.max 0 (lookup 0 (nr_cpumap avail) id))
  /\ (forall tp, In tp plans -> fst tp <> EmptyString ->
        In (fst tp) order
        /\ (forall c, In c (keys (snd tp)) -> lookup_opt (nr_numa (ni_cap info)) c = Some (fst tp))
        /\ count_tag plans (fst tp) * rq_mem_req req <= Z.max 0 (lookup 0 (nr_numamem avail) (fst tp)))
  /\ Z.of_nat (length plans) * rq_mem_req req <= nr_mem avail
  /\ (forall tp c, In tp plans -> In c (snd tp) -> 0 < snd c).
Proof.
  intros H Wf Nd Hne Hb Hm Hfree avail.
  destruct (get_cpu_plans_content sortf sortf_perm _ _ _ _ _ _ _ _ H Hb (proj2 Wf) Nd (avail_nodup info Wf)) as (A & Bc & Sh).
  assert (Mem : (Z.of_nat (length plans) * rq_mem_req req <= nr_mem avail)
                /\ (forall nid, In nid order -> count_tag plans nid * rq_mem_req req <= Z.max 0 (lookup 0 (nr_numamem avail) nid))
                /\ (forall tp, In tp plans -> fst tp = EmptyString \/ In (fst tp) order)).
  { destruct (Z.eq_dec (rq_mem_req req) 0) as [E0|N0].
    - rewrite E0. split; [fold avail in Hfree; lia|]. split; [intros; lia|].
      (* tags: from the structure of the result *)
      unfold get_cpu_plans_g in H. apply bind_ok in H. destruct H as ([avail' acc] & El & H).
      apply bind_ok in H. destruct H as (cross & Ec & H). inversion H; subst; clear H.
      destruct (numa_loop_content sortf sortf_perm _ _ _ _ _ _ _ _ Hb (proj2 Wf) _ _ _ _ _ El Nd) as (new & E & T & _).
      simpl in E. subst acc. intros tp Hin. apply in_app_or in Hin. destruct Hin as [Hin|Hin].
      + right. apply (T tp Hin).
      + left. apply in_map_iff in Hin. destruct Hin as (p & <- & _). reflexivity.
    - apply (get_cpu_plans_memory sortf _ _ _ _ _ _ _ _ H ltac:(lia) Nd Hne Hfree). }
  destruct Mem as (Mc & Mb & Mt).
  split; [exact A|]. split; [|split; [exact Mc|]].
  - intros tp Hin Hn. destruct (Mt tp Hin) as [E|Ho]; [contradiction|].
    split; [exact Ho|]. split; [apply Bc; auto|apply Mb; auto].
  - intros tp c Hin Hc. destruct (Sh tp Hin) as (IDS & Hpr & p0 & fr & E & _ & _ & V & Fr & _).
    rewrite E in Hc. apply in_app_or in Hc. destruct Hc as [Hc|Hc].
    + rewrite Forall_forall in V. rewrite (V c Hc). lia.
    + destruct Fr as [[_ ->]|[Hf (k & ->)]]; [destruct Hc|]. destruct Hc as [<-|[]]. simpl. lia.
Qed.
End Top.
