(* Cpumem/SchedProofsPieces.v — C05, arithmetic core: the piece count computed
   from a decimal request fl(k/b) is exactly k. *)
From Coq Require Import String Ascii List ZArith Bool Lia Reals Lra Psatz.
From Flocq Require Import Core IEEE754.BinarySingleNaN IEEE754.Binary IEEE754.Bits.
From Flocq Require Import Relative.
From Verif Require Import Base.GoInt Base.GoFloat Cpumem.Types Cpumem.Schedule.
Import ListNotations.
Local Open Scope Z_scope.

(* the request a client writes as the decimal k/b: the double nearest to k/b *)
Definition decimal_request (k b : Z) : f64 := fdiv (f_of_Z k) (f_of_Z b).

Fixpoint zrange (from : Z) (n : nat) : list Z :=
  match n with O => [] | S m => from :: zrange (from + 1) m end.

Definition pieces_sweep (b : Z) (n : nat) : bool :=
  forallb (fun k => pieces_request b (decimal_request k b) =? k) (zrange 1 n).

Lemma zrange_in from n k : from <= k < from + Z.of_nat n -> In k (zrange from n).
Proof.
  revert from. induction n as [|n IH]; intros from H; simpl; [lia|].
  destruct (Z.eq_dec from k); [left; auto|right; apply IH; lia].
Qed.

Lemma pieces_sweep_spec b n : pieces_sweep b n = true ->
  forall k, 1 <= k <= Z.of_nat n -> pieces_request b (decimal_request k b) = k.
Proof.
  unfold pieces_sweep. intros H k Hk. rewrite forallb_forall in H.
  apply Z.eqb_eq. apply H. apply zrange_in. lia.
Qed.

(* before the repair (int(cpu*base), truncation): 0.29 -> 28, 0.57 -> 56, 1.15 -> 114 *)
Lemma truncation_defect :
  pieces_request_trunc 100 (decimal_request 29 100) = 28
  /\ pieces_request_trunc 100 (decimal_request 57 100) = 56
  /\ pieces_request_trunc 100 (decimal_request 115 100) = 114.
Proof. vm_compute. repeat split. Qed.

Lemma sweep_100 : pieces_sweep 100 400 = true.
Proof. vm_compute. reflexivity. Qed.

(* ---------- analytic proof: two correctly rounded operations lose less than half a piece ---------- *)
Local Open Scope R_scope.


Lemma round_FIX0 rnd x : round radix2 (FIX_exp 0) rnd x = IZR (rnd x).
Proof.
  unfold round, scaled_mantissa, cexp, FIX_exp, F2R. simpl.
  rewrite Rmult_1_r. rewrite Rmult_1_r. reflexivity.
Qed.

Notation fexp64 := (SpecFloat.fexp 53 1024).
Lemma fexp64_FLT : fexp64 = FLT_exp (-1074) 53.
Proof. reflexivity. Qed.

Lemma f_of_Z_correct z : (Z.abs z <= 2^53)%Z ->
  B2R 53 1024 (f_of_Z z) = IZR z /\ is_finite 53 1024 (f_of_Z z) = true.
Proof.
  intros Hz. unfold f_of_Z.
  pose proof (binary_normalize_correct 53 1024 (eq_refl _) (eq_refl _) mode_NE z 0 false) as H.
  assert (F : F2R (Float radix2 z 0) = IZR z) by (unfold F2R; simpl; ring).
  rewrite F in H.
  assert (G : generic_format radix2 fexp64 (IZR z)).
  { rewrite fexp64_FLT. apply generic_format_FLT.
    destruct (Z.eq_dec (Z.abs z) (2^53)) as [E|N].
    - exists (Float radix2 (Z.sgn z) 53).
      + unfold F2R; simpl. rewrite <- mult_IZR. f_equal. lia.
      + simpl. lia.
      + simpl. lia.
    - exists (Float radix2 z 0); auto; simpl; lia. }
  rewrite round_generic in H; auto with typeclass_instances.
  rewrite Rlt_bool_true in H.
  - destruct H as (H1 & H2 & _). split; auto.
  - rewrite <- abs_IZR. change (bpow radix2 1024) with (IZR (2^1024)). apply IZR_lt.
    assert (2^53 < 2^1024)%Z by (apply Z.pow_lt_mono_r; lia). lia.
Qed.

Definition u53 : R := / 2 * bpow radix2 (-53 + 1).

Lemma rel_err x : bpow radix2 (-1022) <= Rabs x ->
  exists e, Rabs e <= u53 /\ round radix2 fexp64 (round_mode mode_NE) x = x * (1 + e).
Proof.
  intros H. rewrite fexp64_FLT.
  destruct (relative_error_N_FLT_ex radix2 (-1074) 53 ltac:(lia) (fun x => negb (Z.even x)) x) as (e & He & E).
  - exact H.
  - exists e. split; auto.
Qed.

Lemma u53_val : u53 = / IZR (2^53).
Proof.
  unfold u53. replace (bpow radix2 (-53 + 1)) with (/ bpow radix2 52) by (symmetry; apply (bpow_opp radix2 52)).
  rewrite <- (IZR_Zpower radix2 52) by lia. change (radix2 ^ 52)%Z with (2^52)%Z.
  replace (2^53)%Z with (2 * 2^52)%Z by reflexivity. rewrite mult_IZR.
  field. apply IZR_neq. lia.
Qed.

Lemma small_lt_bpow1024 x : Rabs x < IZR (2^60) -> Rabs x < bpow radix2 1024.
Proof.
  intros H. eapply Rlt_trans; [exact H|].
  change (2^60)%Z with (radix2 ^ 60)%Z. rewrite IZR_Zpower by lia. apply bpow_lt. lia.
Qed.

Lemma tiny_le x : / IZR (2^53) <= Rabs x -> bpow radix2 (-1022) <= Rabs x.
Proof.
  intros H. eapply Rle_trans; [|exact H].
  change (2^53)%Z with (radix2 ^ 53)%Z. rewrite IZR_Zpower by lia. rewrite <- bpow_opp.
  apply bpow_le. lia.
Qed.

Lemma Rabs_le_1e e : Rabs e <= u53 -> -u53 <= e <= u53.
Proof. intros H. apply Rabs_le_inv in H. lra. Qed.

Lemma u53_small : 0 < u53 < / 1000.
Proof.
  rewrite u53_val. split.
  - apply Rinv_0_lt_compat. apply IZR_lt. lia.
  - apply Rinv_lt_contravar; [|apply IZR_lt; lia]. apply Rmult_lt_0_compat; [lra|apply IZR_lt; lia].
Qed.

Lemma decimal_pieces k b : (1 <= k < 2^50)%Z -> (1 <= b <= 2^53)%Z ->
  pieces_request b (decimal_request k b) = k.
Proof.
  intros Hk Hb.
  destruct (f_of_Z_correct k ltac:(lia)) as [Rk Fk].
  destruct (f_of_Z_correct b ltac:(lia)) as [Rb Fb].
  assert (HK : 1 <= IZR k < IZR (2^50)) by (split; [apply IZR_le|apply IZR_lt]; lia).
  assert (HB : 1 <= IZR b <= IZR (2^53)) by (split; apply IZR_le; lia).
  set (K := IZR k) in *. set (B := IZR b) in *.
  pose proof u53_small as Hu. pose proof u53_val as Uv.
  (* division *)
  unfold pieces_request, decimal_request, fdiv, fmul, b64_div, b64_mult. cbv zeta.
  pose proof (Bdiv_correct 53 1024 (eq_refl _) (eq_refl _) binop_nan_pl64 mode_NE (f_of_Z k) (f_of_Z b)) as D.
  rewrite Rk, Rb in D. fold K B in D.
  assert (HKB : / IZR (2^53) <= K / B <= K).
  { unfold Rdiv. split.
    - apply Rle_trans with (1 * / B); [|apply Rmult_le_compat_r; [left; apply Rinv_0_lt_compat|]; lra].
      rewrite Rmult_1_l. apply Rinv_le_contravar; lra.
    - rewrite <- (Rmult_1_r K) at 2. apply Rmult_le_compat_l; [lra|].
      rewrite <- Rinv_1. apply Rinv_le_contravar; lra. }
  destruct (rel_err (K / B)) as (e1 & He1 & E1).
  { apply tiny_le. rewrite Rabs_pos_eq; lra. }
  apply Rabs_le_1e in He1.
  rewrite E1 in D. rewrite Rlt_bool_true in D.
  2:{ apply small_lt_bpow1024. rewrite Rabs_pos_eq.
      - apply Rle_lt_trans with (K * 2); [apply Rmult_le_compat; lra|].
        apply Rlt_trans with (IZR (2^50) * 2); [lra|]. rewrite <- mult_IZR. apply IZR_lt. lia.
      - apply Rmult_le_pos; lra. }
  destruct (D ltac:(lra)) as (Dx & Dfin & _). clear D.
  set (x := Bdiv 53 1024 eq_refl eq_refl binop_nan_pl64 mode_NE (f_of_Z k) (f_of_Z b)) in *.
  (* multiplication *)
  pose proof (Bmult_correct 53 1024 (eq_refl _) (eq_refl _) binop_nan_pl64 mode_NE x (f_of_Z b)) as M.
  rewrite Dx, Rb in M. fold B in M.
  assert (EM : K / B * (1 + e1) * B = K * (1 + e1)) by (field; lra).
  rewrite EM in M.
  destruct (rel_err (K * (1 + e1))) as (e2 & He2 & E2).
  { apply tiny_le. rewrite Rabs_pos_eq; [|apply Rmult_le_pos; lra].
    apply Rle_trans with (1 * (1 + e1)); [|apply Rmult_le_compat_r; lra].
    rewrite <- Uv. lra. }
  apply Rabs_le_1e in He2.
  rewrite E2 in M. rewrite Rlt_bool_true in M.
  2:{ apply small_lt_bpow1024. rewrite Rabs_pos_eq.
      - apply Rle_lt_trans with (K * 2 * 2); [repeat apply Rmult_le_compat; try lra; apply Rmult_le_pos; lra|].
        apply Rlt_trans with (IZR (2^50) * 2 * 2); [lra|]. rewrite <- !mult_IZR. apply IZR_lt. lia.
      - repeat apply Rmult_le_pos; lra. }
  destruct M as (My & Mfin & _).
  set (y := Bmult 53 1024 eq_refl eq_refl binop_nan_pl64 mode_NE x (f_of_Z b)) in *.
  (* rounding to the nearest integer *)
  unfold f_round.
  pose proof (Bnearbyint_correct 53 1024 (eq_refl _) (fun _ => nan_pl64) mode_NA y) as (Ny & Nfin & _).
  set (z := Bnearbyint 53 1024 eq_refl (fun _ => nan_pl64) mode_NA y) in *.
  rewrite round_FIX0 in Ny.
  assert (Near : round_mode mode_NA (B2R 53 1024 y) = k).
  { simpl round_mode. apply Znearest_imp. rewrite My. fold K.
    replace (K * (1 + e1) * (1 + e2) - K) with (K * (e1 + e2 + e1 * e2)) by ring.
    rewrite Rabs_mult, (Rabs_pos_eq K) by lra.
    assert (Rabs (e1 + e2 + e1 * e2) <= 3 * u53).
    { apply Rabs_le. split; nra. }
    apply Rle_lt_trans with (IZR (2^50) * (3 * u53)).
    - apply Rmult_le_compat; try lra. apply Rabs_pos.
    - rewrite Uv. replace (2^53)%Z with (2^50 * 8)%Z by reflexivity. rewrite mult_IZR.
      assert (0 < IZR (2^50)) by (apply IZR_lt; lia).
      field_simplify; [lra|lra]. }
  rewrite Near in Ny.
  (* truncation *)
  unfold f_to_int, f_finite.
  rewrite Nfin, Mfin, Dfin, Fk, Fb. simpl andb.
  assert (T : Btrunc 53 1024 z = k).
  { apply eq_IZR. rewrite Btrunc_correct by reflexivity. rewrite round_FIX0, Ny. rewrite Ztrunc_IZR. reflexivity. }
  rewrite T. unfold in_int64, min_int, max_int.
  replace ((-9223372036854775808 <=? k)%Z && (k <=? 9223372036854775807)%Z)%bool with true; auto.
  symmetry. apply andb_true_iff. split; apply Z.leb_le; lia.
Qed.
