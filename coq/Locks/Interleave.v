(* Locks/Interleave.v — the interleaving transition system shared by the lock and
   ephemeral-registration models.  Definitions only (lemmas: InterleaveProofs.v).

   A system is a state [S] and a total labelled step function
   [step : S -> L -> option S] ([None] = the label is not enabled).  A schedule
   is a list of labels; "every schedule" in the theorems is a quantification
   over [list L], "reachable" means reachable from the initial state by some
   schedule.  Threads are the indices of a list of per-thread records; [upd]
   replaces one record. *)
From Coq Require Import List Bool Arith.
Import ListNotations.

Section TS.
  Context {S L : Type}.
  Variable step : S -> L -> option S.

  Fixpoint run (s : S) (ls : list L) : option S :=
    match ls with
    | [] => Some s
    | l :: t => match step s l with Some s' => run s' t | None => None end
    end.

  Definition reachable (init s : S) : Prop := exists ls, run init ls = Some s.

  (* run that skips labels that are not enabled (used to replay generated schedules) *)
  Fixpoint run_skip (s : S) (ls : list L) : S :=
    match ls with
    | [] => s
    | l :: t => match step s l with Some s' => run_skip s' t | None => run_skip s t end
    end.
End TS.

Fixpoint upd {A} (i : nat) (x : A) (l : list A) : list A :=
  match l, i with
  | [], _ => []
  | _ :: t, O => x :: t
  | y :: t, S j => y :: upd j x t
  end.

(* indices 0 .. n-1 *)
Fixpoint iota_from (k n : nat) : list nat :=
  match n with O => [] | S m => k :: iota_from (S k) m end.
Definition iota (n : nat) : list nat := iota_from 0 n.

(* number of elements satisfying a predicate *)
Definition countb {A} (p : A -> bool) (l : list A) : nat := length (filter p l).
