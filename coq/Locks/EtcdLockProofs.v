(* Locks/EtcdLockProofs.v — the inductive invariant of the etcd lock transition
   system and the statements of C18 / C19 for the etcd backend. *)
From Coq Require Import List Bool ZArith Lia Arith.
From Verif Require Import Base.KV Base.KVProofs Locks.Interleave Locks.InterleaveProofs
  Locks.LockLog Locks.EtcdLock.
Import ListNotations.
Local Open Scope Z_scope.

Local Notation live kv l := (e_lease_live kv l = true).
Local Notation dead kv l := (e_lease_live kv l = false).

Lemma zeqb_eq : forall a b : Z, Z.eqb a b = true <-> a = b.
Proof. intros; apply Z.eqb_eq. Qed.

(* ---- store invariant ---- *)
Definition kv_ok (kv : store) : Prop :=
  0 < e_rev kv /\
  (forall x, In x (e_kvs kv) -> 0 < ek_create x <= e_rev kv) /\
  NoDup (map ek_key (e_kvs kv)) /\
  NoDup (map ek_create (e_kvs kv)) /\
  (forall x, In x (e_kvs kv) -> ek_lease x = ek_key x /\ live kv (ek_key x)) /\
  (forall id, In id (map l_id (e_leases kv)) -> 0 < id < e_next_lease kv) /\
  0 < e_next_lease kv.

(* kv' extends kv: leases are never revived, new keys get larger revisions, and
   only keys in R may have disappeared *)
Definition ext (R : Z -> Prop) (kv kv' : store) : Prop :=
  (forall id, id < e_next_lease kv -> live kv' id -> live kv id) /\
  e_next_lease kv <= e_next_lease kv' /\
  e_rev kv <= e_rev kv' /\
  (forall x, In x (e_kvs kv') -> In x (e_kvs kv) \/ e_rev kv < ek_create x) /\
  (forall x, In x (e_kvs kv) -> In x (e_kvs kv') \/ R (ek_key x)).

Definition none_removed : Z -> Prop := fun _ => False.

Lemma ext_refl : forall R kv, ext R kv kv.
Proof. intros R kv. repeat split; auto; lia. Qed.

Lemma ext_weaken : forall (R R' : Z -> Prop) kv kv', (forall k, R k -> R' k) -> ext R kv kv' -> ext R' kv kv'.
Proof.
  intros R R' kv kv' H (A & B & C & D & E). repeat split; auto.
  intros x Hx. destruct (E x Hx); auto.
Qed.

Lemma live_lt_next : forall kv id, kv_ok kv -> live kv id -> 0 < id < e_next_lease kv.
Proof. intros kv id (_ & _ & _ & _ & _ & H & _) L. apply H. apply live_iff. exact L. Qed.

(* ---- effect of each store operation ---- *)
Lemma grant_ok : forall kv ttl id kv',
  kv_ok kv -> e_grant kv ttl = (id, kv') ->
  kv_ok kv' /\ ext none_removed kv kv' /\ id = e_next_lease kv /\ live kv' id /\
  e_next_lease kv' = id + 1 /\ e_kvs kv' = e_kvs kv.
Proof.
  intros kv ttl id kv' (K0 & K1 & K2 & K3 & K4 & K5 & K6) H.
  apply grant_shape in H. destruct H as (Hid & Hk & Hr & Hl & Hn).
  assert (Hlive : forall x, live kv x -> live kv' x).
  { intros x L. apply live_iff. rewrite Hl. simpl. right. apply live_iff; auto. }
  assert (Hnew : live kv' id).
  { apply live_iff. rewrite Hl. simpl. left; auto. }
  repeat split; auto.
  - lia.
  - rewrite Hk in H. apply K1 in H. lia.
  - rewrite Hk in H. apply K1 in H. lia.
  - rewrite Hk; auto.
  - rewrite Hk; auto.
  - rewrite Hk in H. apply K4; auto.
  - rewrite Hk in H. apply Hlive. apply K4; auto.
  - rewrite Hl in H. simpl in H. destruct H as [<-|H]; [lia|]. apply K5 in H. lia.
  - rewrite Hl in H. simpl in H. destruct H as [<-|H]; [lia|]. apply K5 in H. lia.
  - lia.
  - intros x Hx L. apply live_iff in L. rewrite Hl in L. simpl in L. destruct L as [L|L]; [lia|].
    apply live_iff; auto.
  - lia.
  - lia.
  - intros x Hx. rewrite Hk in Hx. auto.
  - intros x Hx. rewrite Hk. auto.
Qed.

Lemma keepalive_ok : forall kv id b kv',
  kv_ok kv -> e_keepalive kv id = (b, kv') ->
  kv_ok kv' /\ ext none_removed kv kv' /\ e_kvs kv' = e_kvs kv /\
  (forall x, e_lease_live kv' x = e_lease_live kv x) /\ b = e_lease_live kv id.
Proof.
  intros kv id b kv' (K0 & K1 & K2 & K3 & K4 & K5 & K6) H.
  apply keepalive_shape in H. destruct H as (Hk & Hr & Hn & Hl & Hb).
  assert (Hlive : forall x, e_lease_live kv' x = e_lease_live kv x) by (intros; apply live_ids_eq; auto).
  repeat split; auto.
  - lia.
  - rewrite Hk in H. apply K1 in H. lia.
  - rewrite Hk in H. apply K1 in H. lia.
  - rewrite Hk; auto.
  - rewrite Hk; auto.
  - rewrite Hk in H. apply K4; auto.
  - rewrite Hk in H. rewrite Hlive. apply K4; auto.
  - rewrite Hl in H. apply K5 in H. lia.
  - rewrite Hl in H. apply K5 in H. lia.
  - lia.
  - intros x _ L. rewrite Hlive in L. auto.
  - lia.
  - lia.
  - intros x Hx. rewrite Hk in Hx. auto.
  - intros x Hx. rewrite Hk. auto.
Qed.

Lemma put_new_ok : forall kv k kv',
  kv_ok kv -> 0 < k -> e_get Z.eqb kv k = None -> e_put Z.eqb kv k tt k = Some kv' ->
  kv_ok kv' /\ ext none_removed kv kv' /\
  e_kvs kv' = e_kvs kv ++ [mkEkv k tt (e_rev kv + 1) (e_rev kv + 1) 1 k] /\
  e_rev kv' = e_rev kv + 1 /\ (forall x, e_lease_live kv' x = e_lease_live kv x).
Proof.
  intros kv k kv' (K0 & K1 & K2 & K3 & K4 & K5 & K6) Hk0 Hg H.
  apply put_shape in H; auto. destruct H as (Hr & Hk & Hl & Hn & Hlv).
  assert (Hlive : forall x, e_lease_live kv' x = e_lease_live kv x)
    by (intros; apply live_ids_eq; rewrite Hl; auto).
  destruct Hlv as [Hlv|Hlv]; [lia|].
  assert (Hin : forall x, In x (e_kvs kv') -> In x (e_kvs kv) \/ x = mkEkv k tt (e_rev kv + 1) (e_rev kv + 1) 1 k).
  { intros x Hx. rewrite Hk in Hx. apply in_app_or in Hx. destruct Hx as [Hx|[Hx|[]]]; auto. }
  split; [|split; [|split; [|split]]]; auto.
  - unfold kv_ok. split; [lia|]. split; [|split; [|split; [|split; [|split]]]].
    + intros x Hx. destruct (Hin x Hx) as [Hx'| ->]; simpl; [apply K1 in Hx'; lia|lia].
    + rewrite Hk, map_app. simpl. apply NoDup_app_one; auto.
      intro Hi. apply in_map_iff in Hi. destruct Hi as [x [Ex Hx]].
      eapply e_get_none in Hg; eauto. apply zeqb_eq.
    + rewrite Hk, map_app. simpl. apply NoDup_app_one; auto.
      intro Hi. apply in_map_iff in Hi. destruct Hi as [x [Ex Hx]]. apply K1 in Hx. lia.
    + intros x Hx. rewrite Hlive. destruct (Hin x Hx) as [Hx'| ->]; simpl; auto.
    + intros id Hi. rewrite Hl in Hi. rewrite Hn. auto.
    + lia.
  - unfold ext. split; [|split; [|split; [|split]]]; try lia.
    + intros id _ L. rewrite Hlive in L. auto.
    + intros x Hx. destruct (Hin x Hx) as [Hx'| ->]; simpl; auto. right; lia.
    + intros x Hx. left. rewrite Hk. apply in_or_app; auto.
Qed.

Lemma delete_ok : forall kv k n kv',
  kv_ok kv -> e_delete Z.eqb kv k = (n, kv') ->
  kv_ok kv' /\ ext (eq k) kv kv' /\
  (forall x, In x (e_kvs kv') <-> In x (e_kvs kv) /\ ek_key x <> k) /\
  (forall x, e_lease_live kv' x = e_lease_live kv x).
Proof.
  intros kv k n kv' (K0 & K1 & K2 & K3 & K4 & K5 & K6) H.
  apply (delete_shape Z.eqb zeqb_eq) in H. destruct H as (Hk & Hr & Hl & Hn).
  assert (Hlive : forall x, e_lease_live kv' x = e_lease_live kv x)
    by (intros; apply live_ids_eq; rewrite Hl; auto).
  assert (Hin : forall x, In x (e_kvs kv') <-> In x (e_kvs kv) /\ ek_key x <> k).
  { intros x. rewrite Hk, filter_In. split; intros [A B]; split; auto.
    - apply negb_true_iff in B. intro E. apply Z.eqb_neq in B. auto.
    - apply negb_true_iff. apply Z.eqb_neq. auto. }
  split; [|split; [|split]]; auto.
  - unfold kv_ok. split; [lia|]. split; [|split; [|split; [|split; [|split]]]].
    + intros x Hx. apply Hin in Hx. destruct Hx as [Hx _]. apply K1 in Hx. lia.
    + rewrite Hk. apply NoDup_map_filter; auto.
    + rewrite Hk. apply NoDup_map_filter; auto.
    + intros x Hx. apply Hin in Hx. destruct Hx as [Hx _]. rewrite Hlive. auto.
    + intros id Hi. rewrite Hl in Hi. rewrite Hn. auto.
    + lia.
  - unfold ext. split; [|split; [|split; [|split]]]; try lia.
    + intros id _ L. rewrite Hlive in L. auto.
    + intros x Hx. left. apply Hin in Hx. tauto.
    + intros x Hx. destruct (Z.eq_dec (ek_key x) k); [right; auto|left; apply Hin; auto].
Qed.

Lemma detach_ok : forall kv id,
  kv_ok kv ->
  kv_ok (e_detach kv id) /\ ext (eq id) kv (e_detach kv id) /\
  (forall x, In x (e_kvs (e_detach kv id)) <-> In x (e_kvs kv) /\ ek_key x <> id) /\
  (forall x, e_lease_live (e_detach kv id) x = e_lease_live kv x && negb (Z.eqb x id)).
Proof.
  intros kv id (K0 & K1 & K2 & K3 & K4 & K5 & K6).
  destruct (detach_shape kv id) as (Hk & Hr & Hl & Hn).
  pose proof (detach_live kv id) as Hlive.
  assert (Hin : forall x, In x (e_kvs (e_detach kv id)) <-> In x (e_kvs kv) /\ ek_key x <> id).
  { intros x. rewrite Hk, filter_In. split; intros [A B]; split; auto.
    - apply negb_true_iff in B. apply Z.eqb_neq in B. destruct (K4 x A) as [E _]. congruence.
    - apply negb_true_iff. apply Z.eqb_neq. destruct (K4 x A) as [E _]. congruence. }
  split; [|split; [|split]]; auto.
  - unfold kv_ok. split; [lia|]. split; [|split; [|split; [|split; [|split]]]].
    + intros x Hx. apply Hin in Hx. destruct Hx as [Hx _]. apply K1 in Hx. lia.
    + rewrite Hk. apply NoDup_map_filter; auto.
    + rewrite Hk. apply NoDup_map_filter; auto.
    + intros x Hx. apply Hin in Hx. destruct Hx as [Hx Hne]. rewrite Hlive.
      destruct (K4 x Hx) as [E L]. split; auto. rewrite L. simpl.
      apply negb_true_iff. apply Z.eqb_neq. auto.
    + intros i Hi. rewrite Hn. apply K5. rewrite Hl in Hi.
      apply in_map_iff in Hi. destruct Hi as [l [El Hi]]. apply filter_In in Hi.
      apply in_map_iff. exists l. tauto.
    + lia.
  - unfold ext. split; [|split; [|split; [|split]]]; try lia.
    + intros i _ L. rewrite Hlive in L. apply andb_true_iff in L. tauto.
    + intros x Hx. left. apply Hin in Hx. tauto.
    + intros x Hx. destruct (Z.eq_dec (ek_key x) id); [right; auto|left; apply Hin; auto].
Qed.

Lemma revoke_ok : forall kv id,
  kv_ok kv ->
  kv_ok (snd (e_revoke kv id)) /\ ext (eq id) kv (snd (e_revoke kv id)) /\
  dead (snd (e_revoke kv id)) id /\
  (forall x, In x (e_kvs (snd (e_revoke kv id))) <-> In x (e_kvs kv) /\ ek_key x <> id).
Proof.
  intros kv id H. unfold e_revoke. destruct (e_lease_live kv id) eqn:E; simpl.
  - destruct (detach_ok kv id H) as (A & B & C & D).
    split; [|split; [|split]]; auto.
    rewrite D, E. simpl. rewrite Z.eqb_refl. reflexivity.
  - split; auto. split; [apply ext_refl|]. split; auto.
    intros x. split; [|tauto]. intros Hx. split; auto.
    destruct H as (K0 & K1 & K2 & K3 & K4 & K5 & K6). destruct (K4 x Hx) as [_ L]. congruence.
Qed.

(* ext composes when the removed keys of the first stay dead *)
Lemma ext_trans_dead : forall kv kv1 kv2,
  kv_ok kv ->
  ext (fun k => dead kv1 k) kv kv1 -> ext (fun k => dead kv2 k) kv1 kv2 ->
  ext (fun k => dead kv2 k) kv kv2.
Proof.
  intros kv kv1 kv2 Hok (A1 & B1 & C1 & D1 & E1) (A2 & B2 & C2 & D2 & E2).
  unfold ext. split; [|split; [|split; [|split]]]; try lia.
  - intros id Hid L. apply A1; auto. apply A2; auto. lia.
  - intros x Hx. destruct (D2 x Hx) as [H|H]; [|right; lia].
    destruct (D1 x H); auto.
  - intros x Hx. destruct (E1 x Hx) as [H|H]; [apply E2; auto|].
    right. simpl in *. destruct (e_lease_live kv2 (ek_key x)) eqn:L; auto.
    apply A2 in L; [congruence|].
    destruct Hok as (K0 & K1 & K2 & K3 & K4 & K5 & K6).
    destruct (K4 x Hx) as [_ Lx]. apply live_iff in Lx. apply K5 in Lx. lia.
Qed.

Lemma detaches_ok : forall ids kv,
  kv_ok kv ->
  kv_ok (fold_left e_detach ids kv) /\
  ext (fun k => dead (fold_left e_detach ids kv) k) kv (fold_left e_detach ids kv).
Proof.
  induction ids as [|id t IH]; intros kv H; simpl.
  - split; auto. apply ext_refl.
  - destruct (detach_ok kv id H) as (A & B & C & D).
    destruct (IH _ A) as [A' B']. split; auto.
    eapply ext_trans_dead; eauto.
    eapply ext_weaken; [|exact B]. intros k <-. simpl. rewrite D. rewrite Z.eqb_refl.
    apply andb_false_r.
Qed.

Lemma tick_ok : forall kv d,
  kv_ok kv ->
  kv_ok (e_tick kv d) /\ ext (fun k => dead (e_tick kv d) k) kv (e_tick kv d).
Proof.
  intros kv d H. unfold e_tick.
  set (s1 := mkEtcd (e_rev kv) (e_kvs kv) (e_leases kv) (e_next_lease kv) (e_now kv + d)).
  assert (H1 : kv_ok s1) by exact H.
  destruct (detaches_ok (e_expired_ids s1) s1 H1) as [A B]. split; auto.
Qed.

(* ---- system invariant ---- *)
Definition queued (p : pc) : Prop := p = Waiting \/ p = Verify \/ p = Held.
Definition front (p : pc) : Prop := p = Verify \/ p = Held.

(* while its lease is live: a queued contender's key exists with create revision
   myRev; a contender at the front (verifying or holding) has the least create
   revision under the prefix *)
Definition cont_ok (kv : store) (c : cont) : Prop :=
  live kv (c_lease c) ->
    (queued (c_pc c) -> exists x, In x (e_kvs kv) /\ ek_key x = c_lease c /\ ek_create x = c_rev c) /\
    (front (c_pc c) -> forall x, In x (e_kvs kv) -> ek_key x <> c_lease c -> c_rev c < ek_create x).

(* the wrapper: flag, watcher, returned context, session *)
Definition wrap_ok (kv : store) (c : cont) : Prop :=
  (c_pc c = Held -> c_locked c = true /\
     ((c_w c = WWatching /\ c_ctx c = CtxLive) \/
      ((c_w c = WCancelling \/ c_w c = WExit) /\ c_ctx c = CtxSessionDone))) /\
  (c_ctx c = CtxSessionDone -> c_sdone c = true) /\
  (c_sdone c = true -> dead kv (c_lease c)) /\
  c_ctx c <> CtxOther.

Definition sys_ok (s : sys) : Prop :=
  kv_ok (s_kv s) /\ NoDup (map c_lease (s_cs s)) /\
  (forall c, In c (s_cs s) -> 0 < c_lease c < e_next_lease (s_kv s)) /\
  (forall c, In c (s_cs s) -> cont_ok (s_kv s) c /\ wrap_ok (s_kv s) c).

Lemma cont_ok_frame : forall R kv kv' c,
  kv_ok kv -> ext R kv kv' -> c_lease c < e_next_lease kv ->
  (R (c_lease c) -> dead kv' (c_lease c)) ->
  cont_ok kv c -> cont_ok kv' c.
Proof.
  intros R kv kv' c Hok (A & B & C & D & E) Hlt HR Hc. unfold cont_ok. intros L'.
  assert (L : live kv (c_lease c)) by (apply A; auto).
  destruct (Hc L) as [H1 H2]. split.
  - intros Q. destruct (H1 Q) as [x [Hx [Ek Ec]]]. destruct (E x Hx) as [Hx'|HRx].
    + exists x; auto.
    + rewrite Ek in HRx. apply HR in HRx. congruence.
  - intros F x Hx Hne. destruct (D x Hx) as [Hx'|Hnew]; [apply H2; auto|].
    assert (Q : queued (c_pc c)) by (destruct F; [right; left|right; right]; auto).
    destruct (H1 Q) as [x0 [Hx0 [_ Ec]]].
    destruct Hok as (_ & K1 & _). apply K1 in Hx0. lia.
Qed.

Lemma wrap_ok_frame : forall R kv kv' c,
  ext R kv kv' -> c_lease c < e_next_lease kv -> wrap_ok kv c -> wrap_ok kv' c.
Proof.
  intros R kv kv' c (A & _) Hlt (W1 & W2 & W3 & W4).
  unfold wrap_ok. split; [exact W1|]. split; [exact W2|]. split; [|exact W4].
  intros Hs. apply W3 in Hs. destruct (e_lease_live kv' (c_lease c)) eqn:L; auto.
  apply A in L; auto. congruence.
Qed.

Lemma cont_ok_unqueued : forall kv c, ~ queued (c_pc c) -> cont_ok kv c.
Proof.
  intros kv c H. unfold cont_ok. intros _. split; intros Q; exfalso; apply H; auto.
  destruct Q; [right; left|right; right]; auto.
Qed.

Lemma cont_ok_same : forall kv c c',
  c_pc c' = c_pc c -> c_lease c' = c_lease c -> c_rev c' = c_rev c -> cont_ok kv c -> cont_ok kv c'.
Proof. unfold cont_ok. intros kv c c' -> -> ->. auto. Qed.

Lemma wrap_ok_same : forall kv c c',
  c_pc c' <> Held -> c_lease c' = c_lease c -> c_sdone c' = c_sdone c -> c_ctx c' = c_ctx c ->
  wrap_ok kv c -> wrap_ok kv c'.
Proof.
  intros kv c c' Hp El Es Ec (W1 & W2 & W3 & W4). unfold wrap_ok. rewrite El, Es, Ec.
  split; [intros; contradiction|]. split; [exact W2|]. split; [exact W3|exact W4].
Qed.

Lemma NoDup_map_nth {A B} (f : A -> B) : forall l i j a b,
  NoDup (map f l) -> nth_error l i = Some a -> nth_error l j = Some b -> f a = f b -> i = j.
Proof.
  intros l i j a b Hnd Ha Hb E.
  rewrite NoDup_nth_error in Hnd. apply Hnd.
  - rewrite map_length. apply nth_error_Some. congruence.
  - rewrite (map_nth_error f _ _ Ha), (map_nth_error f _ _ Hb). congruence.
Qed.

Lemma sys_ok_upd : forall R s i c c' kv',
  sys_ok s -> nth_error (s_cs s) i = Some c -> c_lease c' = c_lease c ->
  kv_ok kv' -> ext R (s_kv s) kv' ->
  (forall k, R k -> k = c_lease c \/ dead kv' k) ->
  cont_ok kv' c' -> wrap_ok kv' c' ->
  sys_ok (mkSys kv' (upd i c' (s_cs s))).
Proof.
  intros R s i c c' kv' (Hkv & Hnd & Hrange & Hcs) Hi El Hkv' Hext HR Hc' Hw'.
  unfold sys_ok; simpl. split; auto. split; [|split].
  - erewrite map_upd_same; eauto.
  - intros y Hy. apply In_upd in Hy. destruct Hext as (_ & B & _).
    destruct Hy as [->|Hy].
    + rewrite El. apply nth_error_In in Hi. apply Hrange in Hi. lia.
    + apply Hrange in Hy. lia.
  - intros y Hy. apply In_nth_error in Hy. destruct Hy as [j Hj].
    apply nth_error_upd in Hj. destruct Hj as [[_ ->]|[Hne Hj]]; auto.
    assert (Hin : In y (s_cs s)) by (eapply nth_error_In; eauto).
    destruct (Hcs y Hin) as [Cy Wy]. destruct (Hrange y Hin) as [_ Hlt].
    split.
    + apply (cont_ok_frame R (s_kv s) kv' y Hkv Hext Hlt); [|exact Cy].
      intros Ry. destruct (HR _ Ry) as [E|D]; auto.
      exfalso. apply Hne. eapply NoDup_map_nth; eauto.
    + eapply wrap_ok_frame; eauto.
Qed.

Lemma sys_ok_env : forall R s kv',
  sys_ok s -> kv_ok kv' -> ext R (s_kv s) kv' -> (forall k, R k -> dead kv' k) ->
  sys_ok (mkSys kv' (s_cs s)).
Proof.
  intros R s kv' (Hkv & Hnd & Hrange & Hcs) Hkv' Hext HR.
  unfold sys_ok; simpl. split; auto. split; auto. split.
  - intros y Hy. apply Hrange in Hy. destruct Hext as (_ & B & _). lia.
  - intros y Hy. destruct (Hcs y Hy) as [Cy Wy]. destruct (Hrange y Hy) as [_ Hlt]. split.
    + apply (cont_ok_frame R (s_kv s) kv' y Hkv Hext Hlt); [|exact Cy]. intros Ry. auto.
    + eapply wrap_ok_frame; eauto.
Qed.

Lemma sys_init_ok : sys_ok sys_init.
Proof.
  unfold sys_ok, sys_init, kv_ok; simpl. repeat split; try lia; try constructor; intros; tauto.
Qed.

(* ---- the invariant is inductive ---- *)
Ltac inv_nth H c Hc :=
  match type of H with
  | context [nth_error ?l ?i] => destruct (nth_error l i) as [c|] eqn:Hc; [|discriminate]
  end.
Ltac not_queued := let Q := fresh in intros Q; destruct Q as [Q|[Q|Q]]; simpl in Q; congruence.

Lemma wrap_ok_acquire : forall kv c r, wrap_ok kv c -> wrap_ok kv (acquire c r).
Proof.
  intros kv c r (W1 & W2 & W3 & W4). unfold wrap_ok, acquire; simpl.
  split; [intros _; split; auto|]. split; [discriminate|]. split; [exact W3|discriminate].
Qed.

Lemma step_acq_ok : forall s i c o s',
  sys_ok s -> nth_error (s_cs s) i = Some c -> step_acq s i c o = Some s' -> sys_ok s'.
Proof.
  intros s i c o s' Hok Hi H.
  pose proof Hok as (Hkv & Hnd & Hrange & Hcs).
  assert (Hin : In c (s_cs s)) by (eapply nth_error_In; eauto).
  destruct (Hcs c Hin) as [Cc Wc]. destruct (Hrange c Hin) as [Hpos Hlt].
  unfold step_acq, e_put_if_absent, all_keys in H.
  destruct (e_get Z.eqb (s_kv s) (c_lease c)) as [x0|] eqn:Hg.
  - (* the key already exists: the txn does not put *)
    apply (e_get_some Z.eqb zeqb_eq) in Hg. destruct Hg as [Hx0 Ek0].
    rewrite (first_create_all (s_kv s)) in H.
    assert (Hcr : e_create_rev Z.eqb (s_kv s) (c_lease c) = ek_create x0).
    { unfold e_create_rev. rewrite (e_get_in Z.eqb zeqb_eq (s_kv s) (c_lease c) x0); auto.
      destruct Hkv as (_ & _ & K2 & _); auto. }
    rewrite Hcr in H.
    destruct (min_create (e_kvs (s_kv s))) as [m|] eqn:Hm.
    + destruct (min_create_spec _ _ Hm) as [Hmin Hle].
      destruct (Z.eqb (ek_create m) (ek_create x0)) eqn:Em; unfold with_c in H; inversion H; subst s'; clear H.
      * apply Z.eqb_eq in Em.
        apply (sys_ok_upd none_removed s i c); auto; try apply ext_refl; try (intros k []).
        -- unfold cont_ok, acquire; simpl. intros _. split.
           ++ intros _. exists x0; auto.
           ++ intros _ x Hx Hne. specialize (Hle x Hx).
              assert (ek_create x <> ek_create x0); [|lia].
              intro E. destruct Hkv as (_ & _ & _ & K3 & _).
              assert (x = x0) by (eapply (NoDup_map_inj ek_create); eauto). subst. auto.
        -- apply wrap_ok_acquire; auto.
      * apply (sys_ok_upd none_removed s i c); auto; try apply ext_refl; try (intros k []).
        -- destruct o; simpl.
           ++ unfold cont_ok; simpl. intros _. split; [intros _; exists x0; auto|].
              intros [F|F]; discriminate.
           ++ apply cont_ok_unqueued; simpl. not_queued.
        -- apply (wrap_ok_same (s_kv s) c); auto; destruct o; simpl; congruence.
    + apply min_create_none in Hm. rewrite Hm in Hx0. destruct Hx0.
  - destruct (e_put Z.eqb (s_kv s) (c_lease c) tt (c_lease c)) as [kv'|] eqn:Hp.
    + destruct (put_new_ok _ _ _ Hkv Hpos Hg Hp) as (Hkv' & Hext & Hk' & Hr' & Hl').
      rewrite (first_create_all kv') in H.
      set (nk := mkEkv (c_lease c) tt (e_rev (s_kv s) + 1) (e_rev (s_kv s) + 1) 1 (c_lease c)) in *.
      assert (Hnk : In nk (e_kvs kv')) by (rewrite Hk'; apply in_or_app; right; left; auto).
      destruct (min_create (e_kvs kv')) as [m|] eqn:Hm.
      * destruct (min_create_spec _ _ Hm) as [Hmin Hle].
        destruct (Z.eqb (ek_create m) (e_rev kv')) eqn:Em; unfold with_c in H; inversion H; subst s'; clear H.
        -- apply Z.eqb_eq in Em.
           apply (sys_ok_upd none_removed s i c); auto; try (intros k []).
           ++ unfold cont_ok, acquire; simpl. intros _. split.
              ** intros _. exists nk. rewrite Hr'. auto.
              ** intros _ x Hx Hne. exfalso.
                 rewrite Hk' in Hx. apply in_app_or in Hx. destruct Hx as [Hx|[<-|[]]]; [|simpl in Hne; auto].
                 assert (In x (e_kvs kv')) by (rewrite Hk'; apply in_or_app; auto).
                 specialize (Hle x H). destruct Hkv as (_ & K1 & _). apply K1 in Hx. lia.
           ++ apply wrap_ok_acquire. eapply wrap_ok_frame; eauto.
        -- apply (sys_ok_upd none_removed s i c); auto; try (intros k []).
           ++ destruct o; simpl.
              ** unfold cont_ok; simpl. intros _. split; [intros _; exists nk; rewrite Hr'; auto|].
                 intros [F|F]; discriminate.
              ** apply cont_ok_unqueued; simpl. not_queued.
           ++ apply (wrap_ok_same kv' c); [| | | |eapply wrap_ok_frame; eauto]; destruct o; simpl; congruence.
      * apply min_create_none in Hm. rewrite Hm in Hnk. destruct Hnk.
    + unfold with_c in H; inversion H; subst s'; clear H.
      apply (sys_ok_upd none_removed s i c); auto; try apply ext_refl; try (intros k []).
      * apply cont_ok_unqueued; simpl. not_queued.
      * apply (wrap_ok_same (s_kv s) c); auto; simpl; congruence.
Qed.

Lemma step_ok : forall s l s', sys_ok s -> step s l = Some s' -> sys_ok s'.
Proof.
  intros s l s' Hok H.
  pose proof Hok as (Hkv & Hnd & Hrange & Hcs).
  destruct l; unfold step in H; cbv zeta in H.
  - (* LNew *)
    destruct (e_grant (s_kv s) ttl) as [id kv'] eqn:Hg. inversion H; subst s'; clear H.
    destruct (grant_ok _ _ _ _ Hkv Hg) as (Hkv' & Hext & Hid & Hlive & Hnext & Hk).
    assert (K6 : 0 < e_next_lease (s_kv s)) by (destruct Hkv as (_&_&_&_&_&_&K); exact K).
    unfold sys_ok; simpl. split; auto. split; [|split].
    + rewrite map_app. simpl. apply NoDup_app_one; auto.
      intro Hi. apply in_map_iff in Hi. destruct Hi as [y [Ey Hy]]. apply Hrange in Hy. lia.
    + intros y Hy. apply in_app_or in Hy. destruct Hy as [Hy|[<-|[]]]; simpl; [apply Hrange in Hy; lia|lia].
    + intros y Hy. apply in_app_or in Hy. destruct Hy as [Hy|[<-|[]]].
      * destruct (Hcs y Hy) as [Cy Wy]. destruct (Hrange y Hy) as [_ Hlt]. split.
        -- apply (cont_ok_frame none_removed (s_kv s) kv' y Hkv Hext Hlt); [intros []|exact Cy].
        -- eapply wrap_ok_frame; eauto.
      * split; [apply cont_ok_unqueued; simpl; not_queued|].
        unfold wrap_ok; simpl. split; [discriminate|]. split; [discriminate|]. split; discriminate.
  - (* LCall *)
    inv_nth H c Hc. destruct (c_pc c) eqn:Hpc; try discriminate.
    unfold with_c in H; inversion H; subst s'; clear H.
    assert (Hin : In c (s_cs s)) by (eapply nth_error_In; eauto). destruct (Hcs c Hin) as [Cc Wc].
    apply (sys_ok_upd none_removed s i c); auto; try apply ext_refl; try (intros k []).
    + apply cont_ok_unqueued; simpl; not_queued.
    + apply (wrap_ok_same (s_kv s) c); auto; simpl; congruence.
  - (* LAcq *)
    inv_nth H c Hc. destruct (c_pc c) eqn:Hpc; try discriminate.
    eapply step_acq_ok; eauto.
  - (* LPoll *)
    inv_nth H c Hc. destruct (c_pc c) eqn:Hpc; try discriminate.
    assert (Hin : In c (s_cs s)) by (eapply nth_error_In; eauto). destruct (Hcs c Hin) as [Cc Wc].
    destruct (e_last_create_upto (s_kv s) all_keys (c_rev c - 1)) eqn:Hl.
    + inversion H; subst; auto.
    + unfold with_c in H; inversion H; subst s'; clear H.
      apply (sys_ok_upd none_removed s i c); auto; try apply ext_refl; try (intros k []).
      * unfold cont_ok; simpl. intros L. destruct (Cc L) as [H1 _].
        destruct H1 as [x0 [Hx0 [Ek Ec]]]; [left; auto|]. split; [intros _; exists x0; auto|].
        intros _ x Hx Hne. rewrite last_create_upto_none in Hl. specialize (Hl x Hx eq_refl).
        assert (ek_create x <> ek_create x0); [|lia].
        intro E. destruct Hkv as (_ & _ & _ & K3 & _).
        assert (x = x0) by (eapply (NoDup_map_inj ek_create); eauto). subst. auto.
      * apply (wrap_ok_same (s_kv s) c); auto; simpl; congruence.
  - (* LVerify *)
    inv_nth H c Hc. destruct (c_pc c) eqn:Hpc; try discriminate.
    assert (Hin : In c (s_cs s)) by (eapply nth_error_In; eauto). destruct (Hcs c Hin) as [Cc Wc].
    destruct (e_get Z.eqb (s_kv s) (c_lease c)) eqn:Hg; unfold with_c in H; inversion H; subst s'; clear H;
      apply (sys_ok_upd none_removed s i c); auto; try apply ext_refl; try (intros k []).
    + unfold cont_ok, acquire; simpl. intros L. destruct (Cc L) as [H1 H2]. split.
      * intros _. apply H1. right; left; auto.
      * intros _. apply H2. left; auto.
    + apply wrap_ok_acquire; auto.
    + apply cont_ok_unqueued; simpl; not_queued.
    + apply (wrap_ok_same (s_kv s) c); auto; simpl; congruence.
  - (* LTimeout *)
    inv_nth H c Hc.
    assert (Hin : In c (s_cs s)) by (eapply nth_error_In; eauto). destruct (Hcs c Hin) as [Cc Wc].
    destruct (c_pc c) eqn:Hpc; try discriminate; unfold with_c in H; inversion H; subst s'; clear H;
      apply (sys_ok_upd none_removed s i c); auto; try apply ext_refl; try (intros k []);
      try (apply cont_ok_unqueued; simpl; not_queued);
      apply (wrap_ok_same (s_kv s) c); auto; simpl; congruence.
  - (* LDelOwn *)
    inv_nth H c Hc.
    assert (Hin : In c (s_cs s)) by (eapply nth_error_In; eauto). destruct (Hcs c Hin) as [Cc Wc].
    destruct (Hrange c Hin) as [_ Hlt].
    destruct (e_delete Z.eqb (s_kv s) (c_lease c)) as [n kv'] eqn:Hd.
    destruct (delete_ok _ _ _ _ Hkv Hd) as (Hkv' & Hext & _ & _).
    destruct (c_pc c) eqn:Hpc; try discriminate; unfold with_c in H; simpl in H; inversion H; subst s'; clear H;
      apply (sys_ok_upd (eq (c_lease c)) s i c); auto; try (intros k <-; auto);
      try (apply cont_ok_unqueued; simpl; not_queued);
      (apply (wrap_ok_same kv' c); [simpl; congruence|auto|auto|auto|eapply wrap_ok_frame; eauto]).
  - (* LExit *)
    inv_nth H c Hc.
    assert (Hin : In c (s_cs s)) by (eapply nth_error_In; eauto). destruct (Hcs c Hin) as [Cc Wc].
    destruct (c_pc c) eqn:Hpc; try discriminate; unfold with_c in H; inversion H; subst s'; clear H;
      apply (sys_ok_upd none_removed s i c); auto; try apply ext_refl; try (intros k []);
      try (apply cont_ok_unqueued; simpl; not_queued);
      apply (wrap_ok_same (s_kv s) c); auto; simpl; congruence.
  - (* LUnlockTxn *)
    inv_nth H c Hc. destruct (c_pc c) eqn:Hpc; try discriminate.
    assert (Hin : In c (s_cs s)) by (eapply nth_error_In; eauto). destruct (Hcs c Hin) as [Cc Wc].
    destruct (Hrange c Hin) as [_ Hlt].
    unfold with_c in H; inversion H; subst s'; clear H.
    assert (Hd : kv_ok (snd (e_delete_if_create Z.eqb (s_kv s) (c_lease c) (c_rev c))) /\
                 ext (eq (c_lease c)) (s_kv s) (snd (e_delete_if_create Z.eqb (s_kv s) (c_lease c) (c_rev c)))).
    { unfold e_delete_if_create. destruct (Z.eqb _ _); simpl.
      - destruct (e_delete Z.eqb (s_kv s) (c_lease c)) as [n kv'] eqn:Hd.
        destruct (delete_ok _ _ _ _ Hkv Hd) as (Hkv' & Hext & _ & _). simpl. auto.
      - split; auto. apply ext_refl. }
    destruct Hd as [Hkv' Hext].
    apply (sys_ok_upd (eq (c_lease c)) s i c); auto; try (intros k <-; auto).
    + apply cont_ok_unqueued; simpl; not_queued.
    + apply (wrap_ok_same _ c); [simpl; congruence|auto|auto|auto|eapply wrap_ok_frame; eauto].
  - (* LClose *)
    inv_nth H c Hc. destruct (c_pc c) eqn:Hpc; try discriminate.
    assert (Hin : In c (s_cs s)) by (eapply nth_error_In; eauto). destruct (Hcs c Hin) as [Cc Wc].
    destruct (Hrange c Hin) as [_ Hlt].
    unfold with_c in H; inversion H; subst s'; clear H.
    destruct (revoke_ok (s_kv s) (c_lease c) Hkv) as (Hkv' & Hext & Hdead & _).
    apply (sys_ok_upd (eq (c_lease c)) s i c); auto; try (intros k <-; auto).
    + apply cont_ok_unqueued; simpl; not_queued.
    + destruct Wc as (W1 & W2 & W3 & W4). unfold wrap_ok; simpl.
      split; [discriminate|]. split; [auto|]. split; auto.
  - (* LRevoke *)
    inversion H; subst s'; clear H.
    destruct (revoke_ok (s_kv s) l Hkv) as (Hkv' & Hext & Hdead & _).
    apply (sys_ok_env (eq l)); auto. intros k <-; auto.
  - (* LTick *)
    destruct (Z.ltb d 0); [discriminate|]. inversion H; subst s'; clear H.
    destruct (tick_ok (s_kv s) d Hkv) as [Hkv' Hext].
    eapply sys_ok_env; eauto.
  - (* LKeepAlive *)
    inv_nth H c Hc. destruct (c_sdone c) eqn:Hsd; [discriminate|].
    assert (Hin : In c (s_cs s)) by (eapply nth_error_In; eauto). destruct (Hcs c Hin) as [Cc Wc].
    destruct (Hrange c Hin) as [_ Hlt].
    destruct (e_keepalive (s_kv s) (c_lease c)) as [alive kv'] eqn:Hka.
    destruct (keepalive_ok _ _ _ _ Hkv Hka) as (Hkv' & Hext & Hk & Hl & Hb).
    destruct alive; unfold with_c in H; inversion H; subst s'; clear H.
    + apply (sys_ok_upd none_removed s i c); auto; try (intros k []).
      * apply (cont_ok_frame none_removed (s_kv s) kv' c Hkv Hext Hlt); [intros []|exact Cc].
      * eapply wrap_ok_frame; eauto.
    + apply (sys_ok_upd none_removed s i c); auto; try apply ext_refl; try (intros k []);
        try (apply (cont_ok_same (s_kv s) c); auto; fail).
      destruct Wc as (W1 & W2 & W3 & W4). unfold wrap_ok; simpl.
      split; [exact W1|]. split; [auto|]. split; auto.
  - (* LWatch *)
    inv_nth H c Hc. destruct (c_w c) eqn:Hw; try discriminate.
    destruct (c_sdone c) eqn:Hsd; [|discriminate].
    assert (Hin : In c (s_cs s)) by (eapply nth_error_In; eauto). destruct (Hcs c Hin) as [Cc Wc].
    destruct Wc as (W1 & W2 & W3 & W4).
    destruct (c_locked c) eqn:Hlk; unfold with_c in H; inversion H; subst s'; clear H;
      apply (sys_ok_upd none_removed s i c); auto; try apply ext_refl; try (intros k []);
      try (apply (cont_ok_same (s_kv s) c); auto; fail).
    + unfold wrap_ok; simpl. split; [intros _; split; auto|]. split; [auto|]. split; [auto|discriminate].
    + unfold wrap_ok; simpl. split; [|split; [auto|split; auto]].
      intros Hh. apply W1 in Hh. destruct Hh as [Hh _]. congruence.
  - (* LAcqLost *)
    inv_nth H c Hc. destruct (c_pc c) eqn:Hpc; try discriminate.
    assert (Hin : In c (s_cs s)) by (eapply nth_error_In; eauto). destruct (Hcs c Hin) as [Cc Wc].
    destruct (Hrange c Hin) as [Hpos Hlt].
    unfold e_put_if_absent in H.
    destruct (e_get Z.eqb (s_kv s) (c_lease c)) eqn:Hg.
    + unfold with_c in H; inversion H; subst s'; clear H.
      apply (sys_ok_upd none_removed s i c); auto; try apply ext_refl; try (intros k []).
      * apply cont_ok_unqueued; simpl; not_queued.
      * apply (wrap_ok_same (s_kv s) c); auto; simpl; congruence.
    + destruct (e_put Z.eqb (s_kv s) (c_lease c) tt (c_lease c)) as [kv'|] eqn:Hp;
        unfold with_c in H; inversion H; subst s'; clear H.
      * destruct (put_new_ok _ _ _ Hkv Hpos Hg Hp) as (Hkv' & Hext & _).
        apply (sys_ok_upd none_removed s i c); auto; try (intros k []).
        -- apply cont_ok_unqueued; simpl; not_queued.
        -- apply (wrap_ok_same kv' c); [simpl; congruence|auto|auto|auto|eapply wrap_ok_frame; eauto].
      * apply (sys_ok_upd none_removed s i c); auto; try apply ext_refl; try (intros k []).
        -- apply cont_ok_unqueued; simpl; not_queued.
        -- apply (wrap_ok_same (s_kv s) c); auto; simpl; congruence.
  - (* LCancel *)
    inv_nth H c Hc. destruct (c_w c) eqn:Hw; try discriminate.
    assert (Hin : In c (s_cs s)) by (eapply nth_error_In; eauto). destruct (Hcs c Hin) as [Cc Wc].
    destruct Wc as (W1 & W2 & W3 & W4).
    unfold with_c in H; inversion H; subst s'; clear H.
    apply (sys_ok_upd none_removed s i c); auto; try apply ext_refl; try (intros k []);
      try (apply (cont_ok_same (s_kv s) c); auto; fail).
    unfold wrap_ok; simpl. split; [|split; [auto|split; auto]].
    intros Hh. destruct (W1 Hh) as [Hl [[Hx _]|[_ Hc']]]; [congruence|]. split; auto.
  - (* LAbort *)
    inv_nth H c Hc. destruct (c_pc c) eqn:Hpc; try discriminate.
    unfold with_c in H; inversion H; subst s'; clear H.
    assert (Hin : In c (s_cs s)) by (eapply nth_error_In; eauto). destruct (Hcs c Hin) as [Cc Wc].
    apply (sys_ok_upd none_removed s i c); auto; try apply ext_refl; try (intros k []).
    + apply cont_ok_unqueued; simpl; not_queued.
    + apply (wrap_ok_same (s_kv s) c); auto; simpl; congruence.
Qed.

Theorem reachable_ok : forall s, reachable step sys_init s -> sys_ok s.
Proof. apply invariant_reachable; [exact sys_init_ok|]. intros; eapply step_ok; eauto. Qed.

(* ================= C18, etcd backend ================= *)

Lemma holds_spec : forall s c, holds s c = true <-> c_pc c = Held /\ live (s_kv s) (c_lease c).
Proof.
  intros s c. unfold holds, lease_live. rewrite andb_true_iff. split; intros [A B]; split; auto.
  - destruct (c_pc c); simpl in A; try discriminate; auto.
  - rewrite A. reflexivity.
Qed.

(* mutual exclusion: in every reachable state (any number of contenders, any
   schedule, including lease revocations and expiries) at most one contender is
   in its critical section with a live lease *)
Theorem etcd_mutex : forall s i j a b,
  reachable step sys_init s ->
  nth_error (s_cs s) i = Some a -> nth_error (s_cs s) j = Some b ->
  holds s a = true -> holds s b = true -> i = j.
Proof.
  intros s i j a b Hr Ha Hb Pa Pb.
  apply reachable_ok in Hr. destruct Hr as (Hkv & Hnd & Hrange & Hcs).
  apply holds_spec in Pa. apply holds_spec in Pb. destruct Pa as [Pa La]. destruct Pb as [Pb Lb].
  destruct (Hcs a (nth_error_In _ _ Ha)) as [Ca _]. destruct (Hcs b (nth_error_In _ _ Hb)) as [Cb _].
  destruct (Ca La) as [A1 A2]. destruct (Cb Lb) as [B1 B2].
  destruct A1 as [xa [Hxa [Eka Eca]]]; [right; right; auto|].
  destruct B1 as [xb [Hxb [Ekb Ecb]]]; [right; right; auto|].
  destruct (Z.eq_dec (c_lease a) (c_lease b)) as [E|Hne].
  - eapply NoDup_map_nth; eauto.
  - exfalso.
    assert (c_rev a < ek_create xb) by (apply A2; [right; auto|auto|congruence]).
    assert (c_rev b < ek_create xa) by (apply B2; [right; auto|auto|congruence]).
    lia.
Qed.

Theorem etcd_holders_le_one : forall s, reachable step sys_init s -> (holders s <= 1)%nat.
Proof.
  intros s Hr. unfold holders. apply countb_le_one. intros. eapply etcd_mutex; eauto.
Qed.

(* with leases that do not expire: at most one contender in its critical section *)
Corollary etcd_mutex_no_expiry : forall s i j a b,
  reachable step sys_init s ->
  (forall c, In c (s_cs s) -> c_pc c = Held -> live (s_kv s) (c_lease c)) ->
  nth_error (s_cs s) i = Some a -> nth_error (s_cs s) j = Some b ->
  c_pc a = Held -> c_pc b = Held -> i = j.
Proof.
  intros s i j a b Hr Hlive Ha Hb Pa Pb.
  eapply etcd_mutex; eauto; apply holds_spec; split; auto; apply Hlive; auto; eapply nth_error_In; eauto.
Qed.

(* a try-lock step taken while another contender holds fails in that step: the
   caller is never made to wait (it goes to the clean-up delete, whose only
   outcome is the ErrLocked failure) *)
Theorem etcd_trylock_fails : forall s s' i j c h,
  reachable step sys_init s ->
  nth_error (s_cs s) j = Some h -> holds s h = true -> i <> j ->
  nth_error (s_cs s) i = Some c -> c_pc c = Called OpTry ->
  step s (LAcq i) = Some s' ->
  exists c', nth_error (s_cs s') i = Some c' /\
             (c_pc c' = TryDel \/ c_pc c' = Failed ErrLeaseNotFound).
Proof.
  intros s s' i j c h Hr Hj Hh Hij Hi Hpc Hstep.
  apply reachable_ok in Hr. destruct Hr as (Hkv & Hnd & Hrange & Hcs).
  apply holds_spec in Hh. destruct Hh as [Ph Lh].
  destruct (Hcs h (nth_error_In _ _ Hj)) as [Ch _]. destruct (Ch Lh) as [H1 H2].
  destruct H1 as [xh [Hxh [Ekh Ech]]]; [right; right; auto|].
  assert (Hlne : c_lease c <> c_lease h).
  { intro E. apply Hij. eapply NoDup_map_nth; eauto. }
  assert (Hlen : (i < length (s_cs s))%nat) by (apply nth_error_Some; congruence).
  simpl in Hstep. rewrite Hi, Hpc in Hstep.
  unfold step_acq, e_put_if_absent, all_keys in Hstep.
  destruct (e_get Z.eqb (s_kv s) (c_lease c)) as [x0|] eqn:Hg.
  - apply (e_get_some Z.eqb zeqb_eq) in Hg. destruct Hg as [Hx0 Ek0].
    rewrite (first_create_all (s_kv s)) in Hstep.
    assert (Hcr : e_create_rev Z.eqb (s_kv s) (c_lease c) = ek_create x0).
    { unfold e_create_rev. rewrite (e_get_in Z.eqb zeqb_eq (s_kv s) (c_lease c) x0); auto.
      destruct Hkv as (_ & _ & K2 & _); auto. }
    rewrite Hcr in Hstep.
    destruct (min_create (e_kvs (s_kv s))) as [m|] eqn:Hm.
    + destruct (min_create_spec _ _ Hm) as [Hmin Hle].
      assert (ek_create m < ek_create x0).
      { specialize (Hle xh Hxh). assert (c_rev h < ek_create x0) by (apply H2; [right; auto|auto|congruence]). lia. }
      destruct (Z.eqb (ek_create m) (ek_create x0)) eqn:Em; [apply Z.eqb_eq in Em; lia|].
      unfold with_c in Hstep. inversion Hstep; subst s'; simpl.
      eexists. split; [apply nth_error_upd_same; auto|]. left. reflexivity.
    + apply min_create_none in Hm. rewrite Hm in Hx0. destruct Hx0.
  - destruct (e_put Z.eqb (s_kv s) (c_lease c) tt (c_lease c)) as [kv'|] eqn:Hp.
    + destruct (Hrange c (nth_error_In _ _ Hi)) as [Hpos _].
      destruct (put_new_ok _ _ _ Hkv Hpos Hg Hp) as (Hkv' & Hext & Hk' & Hr' & Hl').
      rewrite (first_create_all kv') in Hstep.
      destruct (min_create (e_kvs kv')) as [m|] eqn:Hm.
      * destruct (min_create_spec _ _ Hm) as [Hmin Hle].
        assert (ek_create m < e_rev kv').
        { assert (In xh (e_kvs kv')) by (rewrite Hk'; apply in_or_app; auto).
          specialize (Hle xh H). destruct Hkv as (_ & K1 & _). apply K1 in Hxh. lia. }
        destruct (Z.eqb (ek_create m) (e_rev kv')) eqn:Em; [apply Z.eqb_eq in Em; lia|].
        unfold with_c in Hstep. inversion Hstep; subst s'; simpl.
        eexists. split; [apply nth_error_upd_same; auto|]. left. reflexivity.
      * apply min_create_none in Hm. rewrite Hk' in Hm. destruct (e_kvs (s_kv s)); discriminate.
    + unfold with_c in Hstep. inversion Hstep; subst s'; simpl.
      eexists. split; [apply nth_error_upd_same; auto|]. right. reflexivity.
Qed.

(* ... and the clean-up step is always enabled and ends in the ErrLocked failure *)
Theorem etcd_trydel_fails : forall s i c,
  nth_error (s_cs s) i = Some c -> c_pc c = TryDel ->
  exists s' c', step s (LDelOwn i) = Some s' /\ nth_error (s_cs s') i = Some c' /\ c_pc c' = Failed ErrLocked.
Proof.
  intros s i c Hi Hpc. simpl. rewrite Hi, Hpc. unfold with_c.
  assert (Hlen : (i < length (s_cs s))%nat) by (apply nth_error_Some; congruence).
  eexists. eexists. split; [reflexivity|]. simpl. split; [apply nth_error_upd_same; auto|reflexivity].
Qed.

(* a waiter with nobody ahead of it acquires in its next two own steps
   (the waitDeletes poll and the Get of its own key) *)
Definition nobody_ahead (s : sys) (c : cont) : Prop :=
  forall x, In x (e_kvs (s_kv s)) -> c_rev c <= ek_create x.

Theorem etcd_wait_acquires : forall s i c,
  reachable step sys_init s ->
  nth_error (s_cs s) i = Some c -> c_pc c = Waiting -> live (s_kv s) (c_lease c) ->
  nobody_ahead s c ->
  exists s1 s2 c2, step s (LPoll i) = Some s1 /\ step s1 (LVerify i) = Some s2 /\
                   nth_error (s_cs s2) i = Some c2 /\ c_pc c2 = Held /\ s_kv s2 = s_kv s.
Proof.
  intros s i c Hr Hi Hpc Hl Hna.
  apply reachable_ok in Hr. destruct Hr as (Hkv & Hnd & Hrange & Hcs).
  destruct (Hcs c (nth_error_In _ _ Hi)) as [Cc _]. destruct (Cc Hl) as [H1 _].
  destruct H1 as [x0 [Hx0 [Ek Ec]]]; [left; auto|].
  assert (Hlen : (i < length (s_cs s))%nat) by (apply nth_error_Some; congruence).
  assert (Hnone : e_last_create_upto (s_kv s) all_keys (c_rev c - 1) = None).
  { apply last_create_upto_none. intros x Hx _. specialize (Hna x Hx). lia. }
  simpl. rewrite Hi, Hpc, Hnone. unfold with_c.
  eexists. eexists. eexists. split; [reflexivity|]. simpl.
  rewrite nth_error_upd_same by auto. simpl.
  rewrite (e_get_in Z.eqb zeqb_eq (s_kv s) (c_lease c) x0); auto;
    [|destruct Hkv as (_ & _ & K2 & _); auto].
  unfold with_c. split; [reflexivity|]. simpl.
  split; [apply nth_error_upd_same; rewrite length_upd; auto|]. split; reflexivity.
Qed.

(* a waiter whose deadline passes fails with the deadline error after its
   clean-up delete; both steps are enabled in every state *)
Theorem etcd_wait_timeout : forall s i c,
  nth_error (s_cs s) i = Some c -> c_pc c = Waiting ->
  exists s1 s2 c2, step s (LTimeout i) = Some s1 /\ step s1 (LDelOwn i) = Some s2 /\
                   nth_error (s_cs s2) i = Some c2 /\ c_pc c2 = Failed ErrDeadline.
Proof.
  intros s i c Hi Hpc.
  assert (Hlen : (i < length (s_cs s))%nat) by (apply nth_error_Some; congruence).
  simpl. rewrite Hi, Hpc. unfold with_c.
  eexists. eexists. eexists. split; [reflexivity|]. simpl.
  rewrite nth_error_upd_same by auto. simpl. unfold with_c.
  split; [reflexivity|]. simpl.
  split; [apply nth_error_upd_same; rewrite length_upd; auto|reflexivity].
Qed.

(* ================= C19, etcd backend ================= *)

(* the helper steps that deliver the loss to holder i: one iteration of the
   session keepalive loop (if it has not yet seen the loss), the watcher (sets the
   error), the watcher's deferred cancel (closes Done) *)
Definition notify_steps (i : nat) (c : cont) : list label :=
  match c_w c with
  | WCancelling => [LCancel i]
  | _ => if c_sdone c then [LWatch i; LCancel i] else [LKeepAlive i; LWatch i; LCancel i]
  end.

Theorem etcd_notify : forall s i c,
  reachable step sys_init s ->
  nth_error (s_cs s) i = Some c -> c_pc c = Held -> dead (s_kv s) (c_lease c) ->
  ctx_view c <> CtxSessionDone ->
  exists s' c', run step s (notify_steps i c) = Some s' /\
                nth_error (s_cs s') i = Some c' /\ ctx_view c' = CtxSessionDone /\ c_pc c' = Held.
Proof.
  intros s i c Hr Hi Hpc Hd Hctx.
  apply reachable_ok in Hr. destruct Hr as (Hkv & Hnd & Hrange & Hcs).
  destruct (Hcs c (nth_error_In _ _ Hi)) as [_ (W1 & W2 & W3 & W4)].
  assert (Hlen : (i < length (s_cs s))%nat) by (apply nth_error_Some; congruence).
  destruct (W1 Hpc) as [Hlk [[Hw Hlive]|[[Hw|Hw] Hx]]].
  - (* watcher still waiting *)
    unfold notify_steps. rewrite Hw. destruct (c_sdone c) eqn:Hsd.
    + simpl. rewrite Hi, Hw, Hsd, Hlk. unfold with_c. simpl.
      rewrite nth_error_upd_same by auto. simpl. unfold with_c.
      eexists. eexists. split; [reflexivity|]. simpl.
      split; [apply nth_error_upd_same; rewrite length_upd; auto|]. split; auto.
    + simpl. rewrite Hi, Hsd.
      destruct (e_keepalive (s_kv s) (c_lease c)) as [alive kv'] eqn:Hka.
      destruct (keepalive_ok _ _ _ _ Hkv Hka) as (_ & _ & _ & _ & Hb).
      rewrite Hd in Hb. subst alive. unfold with_c. simpl.
      rewrite nth_error_upd_same by auto. simpl. rewrite Hw, Hlk. unfold with_c. simpl.
      rewrite nth_error_upd_same by (rewrite length_upd; auto). simpl. unfold with_c.
      eexists. eexists. split; [reflexivity|]. simpl.
      split; [apply nth_error_upd_same; rewrite !length_upd; auto|]. split; auto.
  - (* error set, Done not yet closed *)
    unfold notify_steps. rewrite Hw. simpl. rewrite Hi, Hw. unfold with_c.
    eexists. eexists. split; [reflexivity|]. simpl.
    split; [apply nth_error_upd_same; auto|]. unfold ctx_view; simpl. rewrite Hx. split; auto.
  - exfalso. apply Hctx. unfold ctx_view. rewrite Hx, Hw. reflexivity.
Qed.

(* the watcher's two steps neither read nor write the store: they are enabled and
   have the same effect whatever the store contains, in particular when etcd is
   unreachable — no store call precedes the cancel *)
Theorem etcd_watch_cancel_store_free : forall s kv' i l,
  l = LWatch i \/ l = LCancel i ->
  step (mkSys kv' (s_cs s)) l =
  match step s l with Some s' => Some (mkSys kv' (s_cs s')) | None => None end /\
  (forall s', step s l = Some s' -> s_kv s' = s_kv s).
Proof.
  intros s kv' i l [->| ->]; simpl; destruct (nth_error (s_cs s) i) as [c|]; try (split; [reflexivity|discriminate]);
    destruct (c_w c); try (split; [reflexivity|discriminate]).
  - destruct (c_sdone c); [|split; [reflexivity|discriminate]].
    destruct (c_locked c); unfold with_c; simpl; (split; [reflexivity|intros s' E; inversion E; reflexivity]).
  - unfold with_c; simpl. split; [reflexivity|intros s' E; inversion E; reflexivity].
Qed.

(* a context cancelled with ErrLockSessionDone means the lease is really gone *)
Theorem etcd_ctx_sound : forall s i c,
  reachable step sys_init s ->
  nth_error (s_cs s) i = Some c -> c_ctx c = CtxSessionDone -> dead (s_kv s) (c_lease c).
Proof.
  intros s i c Hr Hi Hctx.
  apply reachable_ok in Hr. destruct Hr as (Hkv & Hnd & Hrange & Hcs).
  destruct (Hcs c (nth_error_In _ _ Hi)) as [_ (W1 & W2 & W3 & W4)]. auto.
Qed.

(* overlap bound: if two contenders are in their critical sections, j with a live
   lease and i not yet woken up (Done of its context not closed), then i's lease
   is gone and i's notification is in flight (its watcher has not finished); by
   [etcd_notify] it is delivered by at most three helper steps of i, which are
   enabled and (the last two) independent of the store *)
Theorem etcd_overlap_bound : forall s i j a b,
  reachable step sys_init s ->
  nth_error (s_cs s) i = Some a -> nth_error (s_cs s) j = Some b -> i <> j ->
  c_pc a = Held -> ctx_view a <> CtxSessionDone -> holds s b = true ->
  dead (s_kv s) (c_lease a) /\ (c_w a = WWatching \/ c_w a = WCancelling) /\
  (exists s' a', run step s (notify_steps i a) = Some s' /\
                 nth_error (s_cs s') i = Some a' /\ ctx_view a' = CtxSessionDone).
Proof.
  intros s i j a b Hr Ha Hb Hij Pa Ca Hb'.
  assert (Hd : dead (s_kv s) (c_lease a)).
  { destruct (e_lease_live (s_kv s) (c_lease a)) eqn:L; auto.
    exfalso. apply Hij. eapply etcd_mutex; eauto. apply holds_spec. auto. }
  split; auto.
  pose proof (reachable_ok _ Hr) as (Hkv & Hnd & Hrange & Hcs).
  destruct (Hcs a (nth_error_In _ _ Ha)) as [_ (W1 & _)].
  split.
  - destruct (W1 Pa) as [_ [[Hw _]|[[Hw|Hw] Hx]]]; auto.
    exfalso. apply Ca. unfold ctx_view. rewrite Hx, Hw. reflexivity.
  - destruct (etcd_notify s i a Hr Ha Pa Hd Ca) as (s' & a' & H1 & H2 & H3 & _).
    exists s', a'. auto.
Qed.

(* the hypotheses of the statements above are satisfiable: a reachable state with
   a holder (live lease), a try-locker about to try, and a waiter; and one where
   the holder's lease has been revoked while it is in its critical section *)
Example etcd_hyps_satisfiable :
  exists s h c w, run step sys_init
      [LNew 60; LNew 60; LNew 60; LCall 0 OpLock; LAcq 0; LCall 1 OpTry; LCall 2 OpLock; LAcq 2] = Some s /\
    nth_error (s_cs s) 0 = Some h /\ holds s h = true /\
    nth_error (s_cs s) 1 = Some c /\ c_pc c = Called OpTry /\
    nth_error (s_cs s) 2 = Some w /\ c_pc w = Waiting /\ live (s_kv s) (c_lease w).
Proof.
  eexists. eexists. eexists. eexists. split; [vm_compute; reflexivity|].
  split; [reflexivity|]. split; [vm_compute; reflexivity|]. split; [reflexivity|].
  split; [reflexivity|]. split; [reflexivity|]. split; reflexivity.
Qed.

Example etcd_loss_satisfiable :
  exists s a b, run step sys_init
      [LNew 2; LNew 2; LCall 0 OpLock; LAcq 0; LCall 1 OpLock; LAcq 1; LRevoke 1; LPoll 1; LVerify 1] = Some s /\
    nth_error (s_cs s) 0 = Some a /\ nth_error (s_cs s) 1 = Some b /\
    c_pc a = Held /\ ctx_view a = CtxLive /\ dead (s_kv s) (c_lease a) /\ holds s b = true.
Proof.
  eexists. eexists. eexists. split; [vm_compute; reflexivity|].
  split; [reflexivity|]. split; [reflexivity|]. split; [reflexivity|]. split; [reflexivity|].
  split; vm_compute; reflexivity.
Qed.
