(* Locks/RedisAcceptProofs.v — soundness of the redis state-set acceptor: every
   state it keeps is reachable in the transition system, and a log (without
   injected TTL loss) that it accepts has no overlapping critical sections. *)
From Coq Require Import List Bool ZArith Lia Arith.
From Verif Require Import Base.KV Base.KVProofs Locks.Interleave Locks.InterleaveProofs
  Locks.LockLog Locks.RedisLock Locks.RedisLockProofs Locks.EtcdAcceptProofs.
Import ListNotations.
Local Open Scope Z_scope.

Definition rokl (ins : list nat) (l : rlabel) : Prop :=
  match l with
  | RTick _ => False
  | RExit i => ~ In i ins
  | _ => True
  end.

Definition inside_at (s : rsys) (i : nat) : Prop :=
  exists c, nth_error (rs_cs s) i = Some c /\ r_pc c = RHeld /\ r_in c = true.

Record rpinv (ins : list nat) (s : rsys) : Prop := mkRpinv {
  rp_reach : reachable rstep rsys_init s;
  rp_now : r_now (rs_kv s) = 0;
  rp_until : forall c t, In c (rs_cs s) -> r_until c = Some t -> 0 < t;
  rp_in : forall i, In i ins -> inside_at s i }.

Ltac rinv2 H c Hc :=
  match type of H with
  | context [nth_error ?l ?i] => destruct (nth_error l i) as [c|] eqn:Hc; [|discriminate]
  end.

Lemma inside_upd_other : forall s kv' j c' i,
  i <> j -> inside_at s i -> inside_at (mkRS kv' (upd j c' (rs_cs s))) i.
Proof.
  intros s kv' j c' i Hne (c & Hc & Hp & Hi). exists c. simpl. rewrite nth_error_upd_other; auto.
Qed.

Lemma until_upd : forall (s : rsys) j c c',
  (forall x t, In x (rs_cs s) -> r_until x = Some t -> 0 < t) ->
  nth_error (rs_cs s) j = Some c -> (forall t, r_until c' = Some t -> 0 < t) ->
  forall x t, In x (upd j c' (rs_cs s)) -> r_until x = Some t -> 0 < t.
Proof. intros s j c c' H Hj Hc' x t Hx Ht. apply In_upd in Hx. destruct Hx as [->|Hx]; eauto. Qed.

Lemma rstep_rpinv : forall ins s l s', rstep s l = Some s' -> rokl ins l -> rpinv ins s -> rpinv ins s'.
Proof.
  intros ins s l s' H Hok [R N U I].
  assert (R' : reachable rstep rsys_init s') by (eapply reachable_step; eauto).
  destruct l; unfold rstep in H; cbv zeta in H; simpl in Hok; try contradiction.
  - (* RNew *)
    inversion H; subst s'. split; auto; cbn [rs_kv rs_cs].
    + intros c t Hc Ht. apply in_app_or in Hc. destruct Hc as [Hc|[<-|[]]]; eauto. discriminate.
    + intros i Hi. destruct (I i Hi) as (c & Hc & Hp). exists c. cbn [rs_cs]. split; auto.
      rewrite nth_error_app1; auto. apply nth_error_Some. congruence.
  - (* RCall *)
    rinv2 H c Hc. destruct (r_pc c) eqn:Hp; try discriminate.
    unfold rwith in H; inversion H; subst s'. split; auto; cbn [rs_kv rs_cs].
    + eapply until_upd; eauto. intros t Ht. simpl in Ht. eapply U; eauto. eapply nth_error_In; eauto.
    + intros j Hj. apply inside_upd_other; auto. intro E; subst j.
      destruct (I i Hj) as (c0 & Hc0 & Hp0 & _). congruence.
  - (* RTry *)
    rinv2 H c Hc.
    assert (Hne : forall j, In j ins -> j <> i).
    { intros j Hj E; subst j. destruct (I i Hj) as (c0 & Hc0 & Hp0 & _).
      rewrite Hc in Hc0. inversion Hc0; subst c0. rewrite Hp0 in H. discriminate. }
    assert (Hgen : forall o, rtry s i c o = Some s' -> rpinv ins s').
    { intros o Ht. unfold rtry in Ht. destruct (r_dead c).
      - unfold rwith in Ht; inversion Ht; subst s'. split; auto; cbn [rs_kv rs_cs].
        + eapply until_upd; eauto. intros t Hu. simpl in Hu. eapply U; eauto. eapply nth_error_In; eauto.
        + intros j Hj. apply inside_upd_other; auto.
      - unfold r_setnx in Ht. destruct (r_exists ueqb (rs_kv s) tt).
        + destruct o; unfold rwith in Ht; inversion Ht; subst s'; (split; auto; cbn [rs_kv rs_cs];
            [eapply until_upd; eauto; intros t Hu; simpl in Hu; eapply U; eauto; eapply nth_error_In; eauto
            |intros j Hj; apply inside_upd_other; auto]).
        + unfold rwith in Ht; inversion Ht; subst s'. apply mkRpinv; cbn [rs_kv rs_cs].
          * exact R'.
          * unfold r_set; simpl. exact N.
          * eapply until_upd; eauto. intros t Hu. simpl in Hu.
            destruct (Z.ltb 0 (r_ttl c)) eqn:T; [|discriminate]. apply Z.ltb_lt in T.
            inversion Hu. rewrite N. lia.
          * intros j Hj. apply inside_upd_other; auto. }
    destruct (r_pc c); try discriminate; eauto.
  - (* RTimeout *)
    rinv2 H c Hc.
    assert (Hne : forall j, In j ins -> j <> i).
    { intros j Hj E; subst j. destruct (I i Hj) as (c0 & Hc0 & Hp0 & _).
      rewrite Hc in Hc0. inversion Hc0; subst c0. rewrite Hp0 in H. discriminate. }
    destruct (r_pc c); try discriminate; try (destruct o; try discriminate);
      unfold rwith in H; inversion H; subst s'; (split; auto; cbn [rs_kv rs_cs];
        [eapply until_upd; eauto; intros t Hu; simpl in Hu; eapply U; eauto; eapply nth_error_In; eauto
        |intros j Hj; apply inside_upd_other; auto]).
  - (* RRet *)
    rinv2 H c Hc. destruct (r_pc c) eqn:Hp; try discriminate. destruct (r_in c) eqn:Hi; [discriminate|].
    assert (Hne : forall j, In j ins -> j <> i).
    { intros j Hj E; subst j. destruct (I i Hj) as (c0 & Hc0 & _ & Hi0).
      rewrite Hc in Hc0. inversion Hc0; subst c0. congruence. }
    unfold rwith in H; inversion H; subst s'. split; auto; cbn [rs_kv rs_cs].
    + eapply until_upd; eauto. intros t Hu. simpl in Hu. eapply U; eauto. eapply nth_error_In; eauto.
    + intros j Hj. apply inside_upd_other; auto.
  - (* RExit *)
    rinv2 H c Hc.
    assert (Hne : forall j, In j ins -> j <> i) by (intros j Hj E; subst j; auto).
    destruct (r_pc c) eqn:Hp; try discriminate.
    + destruct (r_in c); [|discriminate].
      unfold rwith in H; inversion H; subst s'. split; auto; cbn [rs_kv rs_cs].
      * eapply until_upd; eauto. intros t Hu. simpl in Hu. eapply U; eauto. eapply nth_error_In; eauto.
      * intros j Hj. apply inside_upd_other; auto.
    + unfold rwith in H; inversion H; subst s'. split; auto; cbn [rs_kv rs_cs].
      * eapply until_upd; eauto. intros t Hu. simpl in Hu. eapply U; eauto. eapply nth_error_In; eauto.
      * intros j Hj. apply inside_upd_other; auto.
  - (* RRelease *)
    rinv2 H c Hc. destruct (r_pc c) eqn:Hp; try discriminate.
    assert (Hne : forall j, In j ins -> j <> i).
    { intros j Hj E; subst j. destruct (I i Hj) as (c0 & Hc0 & Hp0 & _).
      rewrite Hc in Hc0. inversion Hc0; subst c0. congruence. }
    destruct (r_cad ueqb Z.eqb (rs_kv s) tt (r_tok c)) as [b kv'] eqn:Hcad.
    unfold rwith in H; inversion H; subst s'. split; auto; cbn [rs_kv rs_cs].
    + unfold r_cad in Hcad. destruct (r_get ueqb (rs_kv s) tt); [destruct (Z.eqb z (r_tok c))|];
        inversion Hcad; subst; auto.
      unfold r_del. destruct (r_exists ueqb (rs_kv s) tt); simpl; auto.
    + eapply until_upd; eauto. intros t Hu. simpl in Hu. eapply U; eauto. eapply nth_error_In; eauto.
    + intros j Hj. apply inside_upd_other; auto.
  - (* RTryLost *)
    rinv2 H c Hc.
    assert (Hne : forall j, In j ins -> j <> i).
    { intros j Hj E; subst j. destruct (I i Hj) as (c0 & Hc0 & Hp0 & _).
      rewrite Hc in Hc0. inversion Hc0; subst c0. rewrite Hp0 in H. discriminate. }
    assert (H' : (let '(okb, kv') := r_setnx ueqb (rs_kv s) tt (r_tok c) (Some (r_ttl c)) in
                  rwith s i kv' (mkR (RFailed RDeadline) (r_tok c) (r_ttl c) (r_dead c)
                     (if okb then (if Z.ltb 0 (r_ttl c) then Some (r_now (rs_kv s) + r_ttl c) else None) else r_until c)
                     false (r_ctx c))) = Some s').
    { destruct (r_pc c); try discriminate; exact H. }
    clear H. unfold r_setnx in H'. destruct (r_exists ueqb (rs_kv s) tt);
      unfold rwith in H'; inversion H'; subst s'; apply mkRpinv; cbn [rs_kv rs_cs]; auto.
    + eapply until_upd; eauto. intros t Hu. simpl in Hu. eapply U; eauto. eapply nth_error_In; eauto.
    + intros j Hj. apply inside_upd_other; auto.
    + eapply until_upd; eauto. intros t Hu. simpl in Hu.
      destruct (Z.ltb 0 (r_ttl c)) eqn:T; [|discriminate]. apply Z.ltb_lt in T. inversion Hu. rewrite N. lia.
    + intros j Hj. apply inside_upd_other; auto.
Qed.

Lemma rpinv_weaken : forall ins ins' s, (forall i, In i ins' -> In i ins) -> rpinv ins s -> rpinv ins' s.
Proof. intros ins ins' s H [R N U I]. split; auto. Qed.

(* at most one contender inside *)
Lemma rpinv_inside_le_one : forall ins s, rpinv ins s -> NoDup ins -> (length ins <= 1)%nat.
Proof.
  intros ins s [R N U I] Hnd.
  destruct ins as [|i [|j t]]; simpl; try lia. exfalso.
  destruct (I i) as (a & Ha & Pa & _); [simpl; auto|].
  destruct (I j) as (b & Hb & Pb & _); [simpl; auto|].
  assert (Hw : forall c, In c (rs_cs s) -> within_lease s c = true).
  { intros c Hc. unfold within_lease. destruct (r_until c) eqn:E; auto. apply Z.ltb_lt. rewrite N. eauto. }
  assert (i = j).
  { eapply redis_mutex; eauto; unfold rholds, is_held; [rewrite Pa|rewrite Pb]; simpl;
      apply Hw; eapply nth_error_In; eauto. }
  subst. inversion Hnd. apply H1. left; auto.
Qed.

(* ---- the state-set machinery ---- *)
Definition all_inv (ins : list nat) (l : list rsys) : Prop := forall s, In s l -> rpinv ins s.

Lemma internal_succ_inv : forall ins s x, rpinv ins s -> In x (internal_succ s) -> rpinv ins x.
Proof.
  intros ins s x P Hx. unfold internal_succ in Hx. apply in_flat_map in Hx. destruct Hx as [i [_ Hx]].
  destruct (nth_error (rs_cs s) i) as [c|]; [|destruct Hx].
  destruct (r_pc c); try (simpl in Hx; contradiction).
  - destruct (rstep s (RTry i)) as [s'|] eqn:E; [|destruct Hx].
    destruct (rsys_eqb s s'); [destruct Hx|]. destruct Hx as [<-|[]]. eapply rstep_rpinv; eauto; simpl; auto.
  - destruct (rstep s (RTry i)) as [s'|] eqn:E; [|destruct Hx].
    destruct (rsys_eqb s s'); [destruct Hx|]. destruct Hx as [<-|[]]. eapply rstep_rpinv; eauto; simpl; auto.
  - destruct (rstep s (RRelease i)) as [s'|] eqn:E; [|destruct Hx]. destruct Hx as [<-|[]].
    eapply rstep_rpinv; eauto; simpl; auto.
Qed.

Lemma fresh_subset : forall seen l x, In x (fresh seen l) -> In x l.
Proof.
  intros seen l. unfold fresh.
  assert (G : forall acc x, In x (fold_left (fun acc y => if existsb (rsys_eqb y) (seen ++ acc) then acc else acc ++ [y]) l acc)
              -> In x acc \/ In x l).
  { induction l as [|y t IH]; intros acc x Hx; simpl in *; auto.
    apply IH in Hx. destruct (existsb (rsys_eqb y) (seen ++ acc)).
    - destruct Hx; auto.
    - destruct Hx as [Hx|Hx]; auto. apply in_app_or in Hx. destruct Hx as [Hx|[<-|[]]]; auto. }
  intros x Hx. apply G in Hx. destruct Hx as [[]|Hx]; auto.
Qed.

Lemma close_inv : forall ins fuel todo seen,
  all_inv ins todo -> all_inv ins seen -> all_inv ins (close fuel todo seen).
Proof.
  intros ins. induction fuel as [|f IH]; intros todo seen Ht Hs; simpl; auto.
  destruct todo as [|x rest]; auto.
  assert (Hnew : all_inv ins (fresh seen (internal_succ x))).
  { intros y Hy. apply fresh_subset in Hy. eapply internal_succ_inv; eauto. apply Ht. left; auto. }
  apply IH.
  - intros y Hy. apply in_app_or in Hy. destruct Hy; auto. apply Ht. right; auto.
  - intros y Hy. apply in_app_or in Hy. destruct Hy; auto.
Qed.

Lemma dedup_subset : forall l x, In x (dedup l) -> In x l.
Proof.
  intros l. unfold dedup.
  assert (G : forall acc x, In x (fold_left (fun acc y => add_state y acc) l acc) -> In x acc \/ In x l).
  { induction l as [|y t IH]; intros acc x Hx; simpl in *; auto.
    apply IH in Hx. unfold add_state in Hx. destruct (existsb (rsys_eqb y) acc).
    - destruct Hx; auto.
    - destruct Hx as [Hx|Hx]; auto. apply in_app_or in Hx. destruct Hx as [Hx|[<-|[]]]; auto. }
  intros x Hx. apply G in Hx. destruct Hx as [[]|Hx]; auto.
Qed.

Lemma fold_add_nonempty : forall (l acc : list rsys),
  acc <> [] -> fold_left (fun acc y => add_state y acc) l acc <> [].
Proof.
  induction l as [|z u IH]; intros acc Ha; simpl; auto. apply IH. unfold add_state.
  destruct (existsb (rsys_eqb z) acc); auto. destruct acc; simpl; congruence.
Qed.

Lemma dedup_nonempty : forall l, l <> [] -> dedup l <> [].
Proof.
  intros l H. destruct l as [|y t]; [congruence|]. unfold dedup. simpl.
  apply fold_add_nonempty. unfold add_state. simpl. congruence.
Qed.

(* effect of one observed event on one state *)
Lemma rdo_ev_inv : forall ins s e s', rdo_ev s e = Some s' -> not_lose e -> rpinv ins s -> NoDup ins ->
  rpinv (next_in ins e) s' /\ NoDup (next_in ins e).
Proof.
  intros ins s e s' H Hnl P Hnd. destruct e; simpl in Hnl; try contradiction; unfold rdo_ev in H; cbn [next_in].
  - split; auto. eapply rstep_rpinv; eauto; simpl; auto.
  - (* EEnter: RRet i *)
    assert (P' : rpinv ins s') by (eapply rstep_rpinv; eauto; simpl; auto).
    unfold rstep in H. rinv2 H c Hc. destruct (r_pc c) eqn:Hp; try discriminate.
    destruct (r_in c) eqn:Hi; [discriminate|].
    assert (Hlen : (i < length (rs_cs s))%nat) by (apply nth_error_Some; congruence).
    unfold rwith in H; inversion H; subst s'.
    split.
    + destruct P' as [R N U I]. split; auto. intros j [<-|Hj]; auto.
      eexists. cbn [rs_cs]. split; [apply nth_error_upd_same; auto|]. simpl. auto.
    + constructor; auto. intro Hin. destruct P as [_ _ _ I]. destruct (I i Hin) as (c0 & Hc0 & _ & Hi0).
      congruence.
  - (* EFail *)
    split; auto.
    destruct (rpc_at s i) as [[| | | | | |[]]|]; try discriminate.
    + destruct o; try discriminate. destruct (ferr_eqb e FTimeout); [|discriminate].
      destruct (rstep s (RTimeout i)) as [s1|] eqn:E1; [|discriminate].
      eapply rstep_rpinv; [exact H|simpl; auto|]. eapply rstep_rpinv; eauto; simpl; auto.
    + destruct (ferr_eqb e FTimeout); [|discriminate].
      destruct (rstep s (RTimeout i)) as [s1|] eqn:E1; [|discriminate].
      eapply rstep_rpinv; [exact H|simpl; auto|]. eapply rstep_rpinv; eauto; simpl; auto.
    + destruct (ferr_eqb e FBusy); inversion H; subst; auto.
  - (* EExit *)
    destruct (rpc_at s i) as [[]|]; try discriminate.
    set (ins' := filter (fun j => negb (Nat.eqb i j)) ins).
    assert (Hsub : forall j, In j ins' -> In j ins) by (intros j Hj; apply filter_In in Hj; tauto).
    assert (Hni : ~ In i ins').
    { intro Hi. apply filter_In in Hi. destruct Hi as [_ Hi]. rewrite Nat.eqb_refl in Hi. discriminate. }
    split; [|apply NoDup_filter; auto].
    eapply rstep_rpinv; [exact H|simpl; exact Hni|]. eapply rpinv_weaken; eauto.
  - (* EURet *)
    destruct (rpc_at s i) as [[]|]; try discriminate. inversion H; subst; auto.
  - (* ELost *)
    inversion H; subst; auto.
  - (* ECtx *)
    destruct (nth_error (rs_cs s) i); [|discriminate]. destruct (cerr_eqb (r_ctx r) c); inversion H; subst; auto.
Qed.

Theorem raccept_mutex : forall (l : log) states ins,
  raccept states (map snd l) = true -> all_inv ins states -> NoDup ins -> no_lose l ->
  mutex_scan l ins = true.
Proof.
  induction l as [|[t e] r IH]; intros states ins H Hinv Hnd Hnl; [reflexivity|].
  destruct Hnl as [Hn1 Hn2].
  destruct states as [|s0 rest]; [discriminate|].
  cbn [map snd raccept] in H.
  set (cl := close 4096 (s0 :: rest) (s0 :: rest)) in *.
  set (next := flat_map (fun s => match rdo_ev s e with Some s' => [s'] | None => [] end) cl) in *.
  assert (Hcl : all_inv ins cl) by (apply close_inv; auto).
  assert (Hnext : forall s', In s' next -> rpinv (next_in ins e) s' /\ NoDup (next_in ins e)).
  { intros s' Hs'. apply in_flat_map in Hs'. destruct Hs' as [s [Hs Hd]].
    destruct (rdo_ev s e) as [s1|] eqn:E; [|destruct Hd]. destruct Hd as [<-|[]].
    eapply rdo_ev_inv; eauto. }
  assert (Hne : dedup next <> []).
  { intro E. rewrite E in H. destruct r; discriminate. }
  assert (Hex : exists s', In s' next).
  { destruct next as [|x u]; [exfalso; apply Hne; reflexivity|]. exists x; left; auto. }
  destruct Hex as [s' Hs']. destruct (Hnext s' Hs') as [P' Nd'].
  rewrite mutex_scan_step.
  - eapply IH; eauto. intros x Hx. apply dedup_subset in Hx. apply Hnext; auto.
  - destruct e; auto. cbn [next_in] in *.
    pose proof (rpinv_inside_le_one _ _ P' Nd') as Hlen. simpl in Hlen.
    destruct ins; auto. simpl in Hlen. lia.
Qed.

Lemma rrun_skip_inv : forall ls s,
  (forall l, In l ls -> rokl [] l) -> rpinv [] s -> rpinv [] (run_skip rstep s ls).
Proof.
  induction ls as [|l t IH]; intros s H P; simpl; auto.
  destruct (rstep s l) as [s'|] eqn:E.
  - apply IH; [intros; apply H; right; auto|]. eapply rstep_rpinv; eauto. apply H. left; auto.
  - apply IH; auto. intros; apply H; right; auto.
Qed.

(* the tie for redis: agreement with the model implies the mutual-exclusion clause of C18_ok *)
Theorem redis_agree_implies_mutex_ok : forall c,
  ragree c = true -> no_lose (rk_log c) -> mutex_ok (rk_log c) = true.
Proof.
  intros c H Hnl. unfold ragree in H. unfold mutex_ok.
  eapply raccept_mutex; eauto; [|constructor].
  intros s [<-|[]]. unfold rsys_of. apply rrun_skip_inv.
  - intros l Hl. apply in_map_iff in Hl. destruct Hl as [x [<- _]]. simpl; auto.
  - split; [apply reachable_refl|reflexivity|intros c0 t []|intros i []].
Qed.
