(* Locks/EphemeralProofs.v — C26: inductive invariant of the etcd ephemeral
   registration system (exclusive, notified, owner-safe) and refutation of the
   same statements for the redis implementation. *)
From Coq Require Import List Bool ZArith Lia Arith.
From Verif Require Import Base.KV Base.KVProofs Locks.Interleave Locks.InterleaveProofs Locks.Ephemeral.
Import ListNotations.
Local Open Scope Z_scope.

Local Notation live kv l := (e_lease_live kv l = true).
Local Notation dead kv l := (e_lease_live kv l = false).

Lemma ueq_eq : forall a b : unit, ueq a b = true <-> a = b.
Proof. intros [] []. unfold ueq. tauto. Qed.

(* ================================================================== etcd *)
Definition act (p : epc) : Prop := p = EGranted \/ p = EActive \/ p = ERevoking.
Definition bel (p : epc) : Prop := p = EActive \/ p = ERevoking.

Definition est_ok (kv : estore) (rs : list ereg) : Prop :=
  (* at most one key; it is attached to a live lease *)
  (e_kvs kv = [] \/ exists x, e_kvs kv = [x] /\ live kv (ek_lease x)) /\
  (forall id, In id (map l_id (e_leases kv)) -> 0 < id < e_next_lease kv) /\
  0 < e_next_lease kv /\
  (* current leases of registrants are in range and pairwise distinct *)
  (forall g, In g rs -> act (g_pc g) -> 0 < g_lease g < e_next_lease kv) /\
  (forall i j a b, nth_error rs i = Some a -> nth_error rs j = Some b ->
     act (g_pc a) -> act (g_pc b) -> g_lease a = g_lease b -> i = j) /\
  (* a registrant that believes it holds, with a live lease, owns the key *)
  (forall g, In g rs -> bel (g_pc g) -> live kv (g_lease g) ->
     exists x, e_kvs kv = [x] /\ ek_lease x = g_lease g).

Definition esys_ok (s : esys) : Prop := est_ok (es_kv s) (es_rs s).

Lemma esys_init_ok : esys_ok esys_init.
Proof.
  unfold esys_ok, est_ok, esys_init; simpl. split; [left; reflexivity|].
  split; [intros id []|]. split; [lia|]. split; [intros g []|]. split.
  - intros i j a b H. destruct i; discriminate.
  - intros g [].
Qed.

Lemma bel_act : forall p, bel p -> act p.
Proof. intros p [H|H]; [right; left|right; right]; auto. Qed.

(* detaching any lease preserves the invariant *)
Lemma ok_detach : forall kv rs id, est_ok kv rs -> est_ok (e_detach kv id) rs.
Proof.
  intros kv rs id (S & L & N & R & D & A).
  destruct (detach_shape kv id) as (Hk & Hr & Hl & Hn).
  pose proof (detach_live kv id) as Hlive.
  unfold est_ok. rewrite Hn. split; [|split; [|split; [|split; [|split]]]]; auto.
  - destruct S as [E|[x [E Lx]]]; rewrite Hk, E; simpl; auto.
    destruct (Z.eqb (ek_lease x) id) eqn:Ex; simpl; auto.
    right. exists x. split; auto. rewrite Hlive, Lx, Ex. reflexivity.
  - intros i Hi. apply L. rewrite Hl in Hi. apply in_map_iff in Hi. destruct Hi as [l [El Hi]].
    apply filter_In in Hi. apply in_map_iff. exists l. tauto.
  - intros g Hg B Lg. rewrite Hlive in Lg. apply andb_true_iff in Lg. destruct Lg as [Lg Ne].
    destruct (A g Hg B Lg) as [x [E Ex]]. exists x. split; auto.
    rewrite Hk, E. simpl. rewrite Ex, Ne. reflexivity.
Qed.

Lemma ok_detaches : forall ids kv rs, est_ok kv rs -> est_ok (fold_left e_detach ids kv) rs.
Proof. induction ids as [|id t IH]; intros; simpl; auto. apply IH. apply ok_detach; auto. Qed.

Lemma ok_revoke : forall kv rs id, est_ok kv rs -> est_ok (snd (e_revoke kv id)) rs.
Proof. intros. unfold e_revoke. destruct (e_lease_live kv id); simpl; auto. apply ok_detach; auto. Qed.

Lemma ok_tick : forall kv rs d, est_ok kv rs -> est_ok (e_tick kv d) rs.
Proof. intros kv rs d H. unfold e_tick. apply ok_detaches. exact H. Qed.

(* a registrant drops to a state without a current lease *)
Lemma ok_deact : forall kv rs i g g',
  est_ok kv rs -> nth_error rs i = Some g -> ~ act (g_pc g') -> est_ok kv (upd i g' rs).
Proof.
  intros kv rs i g g' (S & L & N & R & D & A) Hi Hn.
  unfold est_ok. split; [|split; [|split; [|split; [|split]]]]; auto.
  - intros y Hy Ay. apply In_upd in Hy. destruct Hy as [->|Hy]; [contradiction|auto].
  - intros a b x y Ha Hb Ax Ay E.
    apply nth_error_upd in Ha. apply nth_error_upd in Hb.
    destruct Ha as [[_ ->]|[_ Ha]]; [contradiction|].
    destruct Hb as [[_ ->]|[_ Hb]]; [contradiction|]. eapply D; eauto.
  - intros y Hy By Ly. apply In_upd in Hy. destruct Hy as [->|Hy]; [exfalso; apply Hn; apply bel_act; auto|auto].
Qed.

(* a registrant keeps its lease and moves between believing states *)
Lemma ok_keep : forall kv rs i g p',
  est_ok kv rs -> nth_error rs i = Some g -> bel (g_pc g) -> bel p' -> est_ok kv (upd i (eset g p') rs).
Proof.
  intros kv rs i g p' (S & L & N & R & D & A) Hi Hb Hb'.
  assert (Hin : In g rs) by (eapply nth_error_In; eauto).
  unfold est_ok. split; [|split; [|split; [|split; [|split]]]]; auto.
  - intros y Hy Ay. apply In_upd in Hy. destruct Hy as [->|Hy]; auto. simpl. apply R; auto. apply bel_act; auto.
  - intros a b x y Ha Hb0 Ax Ay E.
    apply nth_error_upd in Ha. apply nth_error_upd in Hb0.
    destruct Ha as [[<- ->]|[Na Ha]]; destruct Hb0 as [[<- ->]|[Nb Hb0]]; auto.
    + simpl in E. eapply D; eauto. apply bel_act; auto.
    + simpl in E. eapply D; eauto. apply bel_act; auto.
    + eapply D; eauto.
  - intros y Hy By Ly. apply In_upd in Hy. destruct Hy as [->|Hy]; auto. simpl in *. apply A; auto.
Qed.

Ltac einv_nth H g Hg :=
  match type of H with
  | context [nth_error ?l ?i] => destruct (nth_error l i) as [g|] eqn:Hg; [|discriminate]
  end.

Lemma estep_ok : forall s l s', esys_ok s -> estep s l = Some s' -> esys_ok s'.
Proof.
  intros s l s' Hok H. unfold esys_ok in *.
  pose proof Hok as (S & L & N & R & D & A).
  destruct l; unfold estep in H; cbv zeta in H.
  - (* GNew *)
    inversion H; subst s'; clear H. cbn [es_kv es_rs].
    unfold est_ok. split; [|split; [|split; [|split; [|split]]]]; auto.
    + intros g Hg Ag. apply in_app_or in Hg. destruct Hg as [Hg|[<-|[]]]; auto.
      destruct Ag as [F|[F|F]]; discriminate.
    + intros i j a b Ha Hb Aa Ab E.
      apply nth_error_app_new in Ha. apply nth_error_app_new in Hb.
      destruct Ha as [Ha|[_ ->]]; [|destruct Aa as [F|[F|F]]; discriminate].
      destruct Hb as [Hb|[_ ->]]; [|destruct Ab as [F|[F|F]]; discriminate].
      eapply D; eauto.
    + intros g Hg Bg Lg. apply in_app_or in Hg. destruct Hg as [Hg|[<-|[]]]; auto.
      destruct Bg as [F|F]; discriminate.
  - (* GGrant *)
    einv_nth H g Hg. destruct (can_register (g_pc g)) eqn:Hc; [|discriminate].
    destruct (e_grant (es_kv s) (g_ttl g)) as [id kv'] eqn:Hgr.
    unfold ewith in H; inversion H; subst s'; clear H. cbn [es_kv es_rs].
    apply grant_shape in Hgr. destruct Hgr as (Hid & Hk & Hr & Hl & Hn).
    assert (Hlive : forall x, live kv' x -> x = id \/ live (es_kv s) x).
    { intros x Lx. apply live_iff in Lx. rewrite Hl in Lx. simpl in Lx. destruct Lx; auto.
      right. apply live_iff; auto. }
    assert (Hlive' : forall x, live (es_kv s) x -> live kv' x).
    { intros x Lx. apply live_iff. rewrite Hl. simpl. right. apply live_iff; auto. }
    assert (Hnact : ~ act (g_pc g)).
    { intros [F|[F|F]]; rewrite F in Hc; discriminate. }
    unfold est_ok. rewrite Hk, Hn. split; [|split; [|split; [|split; [|split]]]].
    + destruct S as [E|[x [E Lx]]]; auto. right. exists x. auto.
    + intros i0 Hi0. rewrite Hl in Hi0. simpl in Hi0. destruct Hi0 as [<-|Hi0]; [lia|].
      apply L in Hi0. lia.
    + lia.
    + intros y Hy Ay. apply In_upd in Hy. destruct Hy as [->|Hy]; simpl; [lia|].
      apply R in Hy; auto. lia.
    + intros a b x y Ha Hb Ax Ay E.
      apply nth_error_upd in Ha. apply nth_error_upd in Hb.
      destruct Ha as [[<- ->]|[Na Ha]]; destruct Hb as [[<- ->]|[Nb Hb]]; auto.
      * simpl in E. apply nth_error_In in Hb. apply R in Hb; auto. lia.
      * simpl in E. apply nth_error_In in Ha. apply R in Ha; auto. lia.
      * eapply D; eauto.
    + intros y Hy By Ly. apply In_upd in Hy. destruct Hy as [->|Hy].
      * destruct By as [F|F]; discriminate.
      * destruct (Hlive _ Ly) as [E|Ly']; [|apply A; auto].
        apply R in Hy; [|apply bel_act; auto]. lia.
  - (* GPut *)
    einv_nth H g Hg. destruct (g_pc g) eqn:Hpc; try discriminate.
    assert (Hin : In g (es_rs s)) by (eapply nth_error_In; eauto).
    assert (Hrange : 0 < g_lease g < e_next_lease (es_kv s)) by (apply R; auto; left; auto).
    unfold e_put_if_absent in H.
    destruct (e_get ueq (es_kv s) tt) as [x0|] eqn:Hget.
    + unfold ewith in H; inversion H; subst s'; clear H. cbn [es_kv es_rs].
      eapply ok_deact; eauto. simpl. intros [F|[F|F]]; discriminate.
    + destruct (e_put ueq (es_kv s) tt tt (g_lease g)) as [kv'|] eqn:Hput.
      * unfold ewith in H; inversion H; subst s'; clear H. cbn [es_kv es_rs].
        apply put_shape in Hput; auto. destruct Hput as (Hr & Hk & Hl & Hn & Hlv).
        destruct Hlv as [Hlv|Hlv]; [lia|].
        assert (Hlive : forall x, e_lease_live kv' x = e_lease_live (es_kv s) x)
          by (intros; apply live_ids_eq; rewrite Hl; auto).
        assert (Hempty : e_kvs (es_kv s) = []).
        { destruct S as [E|[x [E _]]]; auto. exfalso.
          eapply (e_get_none ueq ueq_eq) in Hget; [|rewrite E; left; reflexivity].
          destruct (ek_key x). auto. }
        rewrite Hempty in Hk. simpl in Hk.
        unfold est_ok. rewrite Hk, Hn. split; [|split; [|split; [|split; [|split]]]]; auto.
        -- right. eexists. split; [reflexivity|]. simpl. rewrite Hlive. auto.
        -- intros i0 Hi0. rewrite Hl in Hi0. auto.
        -- intros y Hy Ay. apply In_upd in Hy. destruct Hy as [->|Hy]; simpl; auto.
        -- intros a b x y Ha Hb Ax Ay E.
           apply nth_error_upd in Ha. apply nth_error_upd in Hb.
           destruct Ha as [[<- ->]|[Na Ha]]; destruct Hb as [[<- ->]|[Nb Hb]]; auto.
           ++ simpl in E. eapply D; eauto. left; auto.
           ++ simpl in E. eapply D; eauto. left; auto.
           ++ eapply D; eauto.
        -- intros y Hy By Ly. apply In_upd in Hy. destruct Hy as [->|Hy].
           ++ eexists. split; [reflexivity|]. reflexivity.
           ++ rewrite Hlive in Ly. destruct (A y Hy By Ly) as [x [E _]]. rewrite Hempty in E. discriminate.
      * unfold ewith in H; inversion H; subst s'; clear H. cbn [es_kv es_rs].
        eapply ok_deact; eauto. simpl. intros [F|[F|F]]; discriminate.
  - (* GTick *)
    einv_nth H g Hg. destruct (g_pc g) eqn:Hpc; try discriminate.
    destruct (e_keepalive (es_kv s) (g_lease g)) as [alive kv'] eqn:Hka.
    destruct alive; unfold ewith in H; inversion H; subst s'; clear H; cbn [es_kv es_rs].
    + apply keepalive_shape in Hka. destruct Hka as (Hk & Hr & Hn & Hl & Hb).
      assert (Hlive : forall x, e_lease_live kv' x = e_lease_live (es_kv s) x)
        by (intros; apply live_ids_eq; auto).
      assert (Hupd : upd i g (es_rs s) = es_rs s).
      { clear -Hg. revert i Hg. induction (es_rs s) as [|a t IH]; intros [|i] Hg; simpl in *; try discriminate; auto.
        - inversion Hg; auto.
        - f_equal. auto. }
      rewrite Hupd. unfold est_ok. rewrite Hk, Hn. split; [|split; [|split; [|split; [|split]]]]; auto.
      * destruct S as [E|[x [E Lx]]]; auto. right. exists x. rewrite Hlive. auto.
      * intros i0 Hi0. rewrite Hl in Hi0. auto.
      * intros y Hy By Ly. rewrite Hlive in Ly. auto.
    + apply ok_keep; auto; rewrite ?Hpc; [left|right]; auto.
  - (* GStop *)
    einv_nth H g Hg. destruct (g_pc g) eqn:Hpc; try discriminate.
    unfold ewith in H; inversion H; subst s'; clear H; cbn [es_kv es_rs].
    apply ok_keep; auto; rewrite ?Hpc; [left|right]; auto.
  - (* GRevokeOwn *)
    einv_nth H g Hg. destruct (g_pc g) eqn:Hpc; try discriminate.
    unfold ewith in H; inversion H; subst s'; clear H; cbn [es_kv es_rs].
    eapply ok_deact; [apply ok_revoke; eauto|eauto|]. simpl. intros [F|[F|F]]; discriminate.
  - (* GLapse *)
    inversion H; subst s'; clear H; cbn [es_kv es_rs]. apply ok_revoke; auto.
  - (* GTime *)
    destruct (Z.ltb d 0); [discriminate|]. inversion H; subst s'; clear H; cbn [es_kv es_rs].
    apply ok_tick; auto.
Qed.

Theorem ereachable_ok : forall s, reachable estep esys_init s -> esys_ok s.
Proof. apply invariant_reachable; [exact esys_init_ok|]. intros; eapply estep_ok; eauto. Qed.

(* ---- C26, etcd: exclusive ---- *)
Lemma e_holds_spec : forall s g, e_holds s g = true <-> bel (g_pc g) /\ live (es_kv s) (g_lease g).
Proof.
  intros s g. unfold e_holds, e_believes, e_live. rewrite andb_true_iff. split; intros [A B]; split; auto.
  - destruct (g_pc g); try discriminate; [left|right]; auto.
  - destruct A as [A|A]; rewrite A; auto.
Qed.

(* under every schedule (registrations, ticks, stops, third-party revocations,
   expiries) at most one registrant believes it holds the key with a live lease,
   and it is the registrant whose lease the key carries *)
Theorem etcd_exclusive : forall s i j a b,
  reachable estep esys_init s ->
  nth_error (es_rs s) i = Some a -> nth_error (es_rs s) j = Some b ->
  e_holds s a = true -> e_holds s b = true -> i = j.
Proof.
  intros s i j a b Hr Ha Hb Pa Pb.
  apply ereachable_ok in Hr. destruct Hr as (S & L & N & R & D & A).
  apply e_holds_spec in Pa. apply e_holds_spec in Pb. destruct Pa as [Ba La]. destruct Pb as [Bb Lb].
  destruct (A a (nth_error_In _ _ Ha) Ba La) as [x [Ex Ea]].
  destruct (A b (nth_error_In _ _ Hb) Bb Lb) as [y [Ey Eb]].
  rewrite Ex in Ey. inversion Ey; subst y.
  eapply D; eauto using bel_act. congruence.
Qed.

Theorem etcd_holder_owns_key : forall s i a,
  reachable estep esys_init s -> nth_error (es_rs s) i = Some a -> e_holds s a = true ->
  e_owner_lease s = Some (g_lease a).
Proof.
  intros s i a Hr Ha Pa.
  apply ereachable_ok in Hr. destruct Hr as (S & L & N & R & D & A).
  apply e_holds_spec in Pa. destruct Pa as [Ba La].
  destruct (A a (nth_error_In _ _ Ha) Ba La) as [x [Ex Ea]].
  unfold e_owner_lease, e_key, e_get. rewrite Ex. simpl. congruence.
Qed.

(* ---- C26, etcd: a lapsed registrant is notified at its next tick ---- *)
Theorem etcd_notified : forall s i g,
  nth_error (es_rs s) i = Some g -> g_pc g = EActive -> dead (es_kv s) (g_lease g) ->
  exists s1 s2 g2, estep s (GTick i) = Some s1 /\ estep s1 (GRevokeOwn i) = Some s2 /\
                   nth_error (es_rs s2) i = Some g2 /\ g_pc g2 = EClosed.
Proof.
  intros s i g Hi Hpc Hd.
  assert (Hlen : (i < length (es_rs s))%nat) by (apply nth_error_Some; congruence).
  unfold estep at 1. rewrite Hi, Hpc.
  destruct (e_keepalive (es_kv s) (g_lease g)) as [alive kv'] eqn:Hka.
  apply keepalive_shape in Hka. destruct Hka as (_ & _ & _ & _ & Hb). rewrite Hd in Hb. subst alive.
  unfold ewith. eexists. eexists. eexists. split; [reflexivity|].
  unfold estep; cbn [es_rs es_kv]. rewrite nth_error_upd_same by auto. cbn [g_pc eset].
  unfold ewith. split; [reflexivity|]. cbn [es_rs].
  split; [apply nth_error_upd_same; rewrite length_upd; auto|reflexivity].
Qed.

(* ---- C26, etcd: refresh / revoke / register touch only the own lease ---- *)
Definition own_step (i : nat) (l : elabel) : Prop :=
  l = GGrant i \/ l = GPut i \/ l = GTick i \/ l = GStop i \/ l = GRevokeOwn i.

Definition touches_only (L : Z) (kv kv' : estore) : Prop :=
  (forall x, In x (e_kvs kv) -> ek_lease x <> L -> In x (e_kvs kv')) /\
  (forall x, In x (e_kvs kv') -> In x (e_kvs kv) \/ ek_lease x = L) /\
  (forall id, id <> L -> e_find_lease kv' id = e_find_lease kv id).

Lemma touches_refl : forall L kv, touches_only L kv kv.
Proof. intros; repeat split; auto. Qed.

Lemma find_lease_filter : forall (kv : estore) id L,
  id <> L ->
  find (fun l => Z.eqb (l_id l) id) (filter (fun l => negb (Z.eqb (l_id l) L)) (e_leases kv))
  = find (fun l => Z.eqb (l_id l) id) (e_leases kv).
Proof.
  intros kv id L Hne. induction (e_leases kv) as [|a t IH]; simpl; auto.
  destruct (Z.eqb (l_id a) L) eqn:EL; simpl.
  - apply Z.eqb_eq in EL. destruct (Z.eqb (l_id a) id) eqn:Ei; auto. apply Z.eqb_eq in Ei. lia.
  - rewrite IH. reflexivity.
Qed.

Lemma find_lease_refresh : forall (ls : list lease) L now id,
  id <> L ->
  find (fun l => Z.eqb (l_id l) id)
       (map (fun l => if Z.eqb (l_id l) L then mkLease L (l_ttl l) (now + l_ttl l) else l) ls)
  = find (fun l => Z.eqb (l_id l) id) ls.
Proof.
  intros ls L now id Hne. induction ls as [|a t IH]; simpl; auto.
  destruct (Z.eqb (l_id a) L) eqn:Ea; simpl.
  - apply Z.eqb_eq in Ea. destruct (Z.eqb L id) eqn:E1; [apply Z.eqb_eq in E1; congruence|].
    destruct (Z.eqb (l_id a) id) eqn:E2; [apply Z.eqb_eq in E2; congruence|]. exact IH.
  - destruct (Z.eqb (l_id a) id); auto.
Qed.

Lemma touches_detach : forall (kv : estore) L, touches_only L kv (e_detach kv L).
Proof.
  intros kv L. destruct (detach_shape kv L) as (Hk & _ & Hl & _). repeat split.
  - intros x Hx Hne. rewrite Hk. apply filter_In. split; auto. apply negb_true_iff. apply Z.eqb_neq. auto.
  - intros x Hx. rewrite Hk in Hx. apply filter_In in Hx. tauto.
  - intros id Hne. unfold e_find_lease. rewrite Hl. apply find_lease_filter. auto.
Qed.

Lemma touches_revoke : forall (kv : estore) L, touches_only L kv (snd (e_revoke kv L)).
Proof. intros. unfold e_revoke. destruct (e_lease_live kv L); simpl; [apply touches_detach|apply touches_refl]. Qed.

(* every step of registrant i leaves alone every key that does not carry i's
   lease and every lease other than i's (its lease after the step) *)
Theorem etcd_owner_safe : forall s l s' i g',
  own_step i l -> estep s l = Some s' -> nth_error (es_rs s') i = Some g' ->
  touches_only (g_lease g') (es_kv s) (es_kv s').
Proof.
  intros s l s' i g' Hown H Hg'.
  destruct Hown as [->|[->|[->|[->| ->]]]]; unfold estep in H; cbv zeta in H.
  - (* GGrant *)
    einv_nth H g Hg. destruct (can_register (g_pc g)); [|discriminate].
    assert (Hlen : (i < length (es_rs s))%nat) by (apply nth_error_Some; congruence).
    destruct (e_grant (es_kv s) (g_ttl g)) as [id kv'] eqn:Hgr.
    unfold ewith in H; inversion H; subst s'; clear H. cbn [es_kv es_rs] in *.
    rewrite nth_error_upd_same in Hg' by auto. inversion Hg'; subst g'; clear Hg'. cbn [g_lease].
    apply grant_shape in Hgr. destruct Hgr as (Hid & Hk & Hr & Hl & Hn).
    repeat split; try (rewrite Hk; auto).
    intros id0 Hne. unfold e_find_lease. rewrite Hl. simpl.
    destruct (Z.eqb id id0) eqn:E; auto. apply Z.eqb_eq in E. congruence.
  - (* GPut *)
    einv_nth H g Hg. destruct (g_pc g); try discriminate.
    assert (Hlen : (i < length (es_rs s))%nat) by (apply nth_error_Some; congruence).
    unfold e_put_if_absent in H.
    destruct (e_get ueq (es_kv s) tt) eqn:Hget.
    + unfold ewith in H; inversion H; subst s'; apply touches_refl.
    + destruct (e_put ueq (es_kv s) tt tt (g_lease g)) as [kv'|] eqn:Hput.
      * unfold ewith in H; inversion H; subst s'; clear H. cbn [es_kv es_rs] in *.
        rewrite nth_error_upd_same in Hg' by auto. inversion Hg'; subst g'; clear Hg'. cbn [g_lease eset].
        apply put_shape in Hput; auto. destruct Hput as (Hr & Hk & Hl & Hn & _).
        repeat split.
        -- intros x Hx _. rewrite Hk. apply in_or_app; auto.
        -- intros x Hx. rewrite Hk in Hx. apply in_app_or in Hx. destruct Hx as [Hx|[<-|[]]]; auto.
        -- intros id0 _. unfold e_find_lease. rewrite Hl. reflexivity.
      * unfold ewith in H; inversion H; subst s'; apply touches_refl.
  - (* GTick *)
    einv_nth H g Hg. destruct (g_pc g); try discriminate.
    assert (Hlen : (i < length (es_rs s))%nat) by (apply nth_error_Some; congruence).
    destruct (e_keepalive (es_kv s) (g_lease g)) as [alive kv'] eqn:Hka.
    destruct alive; unfold ewith in H; inversion H; subst s'; clear H; cbn [es_kv es_rs] in *;
      [|apply touches_refl].
    rewrite nth_error_upd_same in Hg' by auto. inversion Hg'; subst g'; clear Hg'.
    unfold e_keepalive in Hka. destruct (e_find_lease (es_kv s) (g_lease g)); inversion Hka; subst kv'.
    repeat split; auto. intros id0 Hne. unfold e_find_lease; cbn [e_leases].
    apply find_lease_refresh. auto.
  - (* GStop *)
    einv_nth H g Hg. destruct (g_pc g); try discriminate.
    unfold ewith in H; inversion H; subst s'; apply touches_refl.
  - (* GRevokeOwn *)
    einv_nth H g Hg. destruct (g_pc g); try discriminate.
    assert (Hlen : (i < length (es_rs s))%nat) by (apply nth_error_Some; congruence).
    unfold ewith in H; inversion H; subst s'; clear H. cbn [es_kv es_rs] in *.
    rewrite nth_error_upd_same in Hg' by auto. inversion Hg'; subst g'; clear Hg'. cbn [g_lease eset].
    apply touches_revoke.
Qed.

(* the lease a registrant carries after an own step is either the one it carried
   before (and it was a current lease) or a freshly granted one *)
Lemma own_step_lease : forall s l s' i g',
  own_step i l -> estep s l = Some s' -> nth_error (es_rs s') i = Some g' ->
  exists g, nth_error (es_rs s) i = Some g /\
    ((act (g_pc g) /\ g_lease g' = g_lease g) \/ g_lease g' = e_next_lease (es_kv s)).
Proof.
  intros s l s' i g' Hown H Hg'.
  destruct Hown as [->|[->|[->|[->| ->]]]]; unfold estep in H; cbv zeta in H;
    einv_nth H g Hg; exists g; (split; [reflexivity|]);
    assert (Hlen : (i < length (es_rs s))%nat) by (apply nth_error_Some; congruence).
  - destruct (can_register (g_pc g)); [|discriminate].
    destruct (e_grant (es_kv s) (g_ttl g)) as [id kv'] eqn:Hgr.
    unfold ewith in H; inversion H; subst s'; clear H. cbn [es_rs] in Hg'.
    rewrite nth_error_upd_same in Hg' by auto. inversion Hg'; subst g'. simpl.
    right. unfold e_grant in Hgr. inversion Hgr. reflexivity.
  - destruct (g_pc g) eqn:Hpc; try discriminate.
    left. split; [left; auto|].
    destruct (e_put_if_absent ueq (es_kv s) tt tt (g_lease g)) as [[[|] kv']|];
      unfold ewith in H; inversion H; subst s'; cbn [es_rs] in Hg';
      rewrite nth_error_upd_same in Hg' by auto; inversion Hg'; reflexivity.
  - destruct (g_pc g) eqn:Hpc; try discriminate.
    left. split; [right; left; auto|].
    destruct (e_keepalive (es_kv s) (g_lease g)) as [[|] kv'];
      unfold ewith in H; inversion H; subst s'; cbn [es_rs] in Hg';
      rewrite nth_error_upd_same in Hg' by auto; inversion Hg'; reflexivity.
  - destruct (g_pc g) eqn:Hpc; try discriminate.
    left. split; [right; left; auto|].
    unfold ewith in H; inversion H; subst s'; cbn [es_rs] in Hg';
      rewrite nth_error_upd_same in Hg' by auto; inversion Hg'; reflexivity.
  - destruct (g_pc g) eqn:Hpc; try discriminate.
    left. split; [right; right; auto|].
    unfold ewith in H; inversion H; subst s'; cbn [es_rs] in Hg';
      rewrite nth_error_upd_same in Hg' by auto; inversion Hg'; reflexivity.
Qed.

Lemma own_step_others : forall s l s' i j,
  own_step i l -> i <> j -> estep s l = Some s' -> nth_error (es_rs s') j = nth_error (es_rs s) j.
Proof.
  intros s l s' i j Hown Hij H.
  destruct Hown as [->|[->|[->|[->| ->]]]]; unfold estep in H; cbv zeta in H;
    einv_nth H g Hg;
    repeat match type of H with
           | (if ?b then _ else _) = _ => destruct b
           | (let '(_, _) := ?x in _) = _ => destruct x
           | match ?x with _ => _ end = _ => destruct x
           end; try discriminate;
    unfold ewith in H; inversion H; subst s'; cbn [es_rs];
    apply nth_error_upd_other; auto.
Qed.

(* consequence: no own step of another registrant ends j's holding or changes
   the owner of the key *)
Theorem etcd_others_cannot_disturb : forall s l s' i j a,
  reachable estep esys_init s ->
  own_step i l -> i <> j -> estep s l = Some s' ->
  nth_error (es_rs s) j = Some a -> e_holds s a = true ->
  nth_error (es_rs s') j = Some a /\ e_holds s' a = true /\ e_owner_lease s' = Some (g_lease a).
Proof.
  intros s l s' i j a Hr Hown Hij H Ha Pa.
  assert (Hr' : reachable estep esys_init s') by (eapply reachable_step; eauto).
  assert (Hj' : nth_error (es_rs s') j = Some a) by (rewrite (own_step_others _ _ _ _ _ Hown Hij H); auto).
  split; auto.
  pose proof (ereachable_ok _ Hr) as (S0 & L0 & N0 & R0 & D0 & A0).
  pose proof Pa as Pa0. apply e_holds_spec in Pa. destruct Pa as [Ba La].
  (* registrant i exists after the step *)
  assert (Hi' : exists g', nth_error (es_rs s') i = Some g').
  { destruct Hown as [->|[->|[->|[->| ->]]]]; unfold estep in H; cbv zeta in H;
      einv_nth H g Hg;
      assert (Hlen : (i < length (es_rs s))%nat) by (apply nth_error_Some; congruence);
      repeat match type of H with
             | (if ?b then _ else _) = _ => destruct b
             | (let '(_, _) := ?x in _) = _ => destruct x
             | match ?x with _ => _ end = _ => destruct x
             end; try discriminate;
      unfold ewith in H; inversion H; subst s'; cbn [es_rs];
      eexists; apply nth_error_upd_same; auto. }
  destruct Hi' as [g' Hg'].
  pose proof (etcd_owner_safe _ _ _ _ _ Hown H Hg') as (T1 & T2 & T3).
  destruct (own_step_lease _ _ _ _ _ Hown H Hg') as (g & Hg & Hcase).
  assert (Hne : g_lease a <> g_lease g').
  { destruct Hcase as [[Ag El]|El]; rewrite El.
    - intro E. apply Hij. eapply D0; eauto using bel_act.
    - assert (0 < g_lease a < e_next_lease (es_kv s)) by (apply R0; eauto using bel_act, nth_error_In). lia. }
  assert (Hlive' : live (es_kv s') (g_lease a)).
  { unfold e_lease_live in *. rewrite T3; auto. }
  assert (Hh' : e_holds s' a = true) by (apply e_holds_spec; auto).
  split; auto. eapply etcd_holder_owns_key; eauto.
Qed.

(* ================================================================= redis *)

(* a registrant's belief ends only by its own stop: nothing ever notifies it *)
Theorem redis_never_notified : forall s l s' i g,
  sstep s l = Some s' -> nth_error (ss_rs s) i = Some g -> q_pc g = SActive -> l <> QStop i ->
  exists g', nth_error (ss_rs s') i = Some g' /\ q_pc g' = SActive.
Proof.
  intros s l s' i g H Hi Hpc Hne.
  assert (Hlen : (i < length (ss_rs s))%nat) by (apply nth_error_Some; congruence).
  destruct l; unfold sstep in H; cbv zeta in H.
  - inversion H; subst s'. exists g. split; auto. cbn [ss_rs]. rewrite nth_error_app1; auto.
  - destruct (nth_error (ss_rs s) i0) as [g0|] eqn:Hg0; [|discriminate].
    destruct (Nat.eq_dec i0 i) as [->|Hn].
    + rewrite Hi in Hg0. inversion Hg0; subst g0. rewrite Hpc in H. discriminate.
    + destruct (s_can_register (q_pc g0)); [|discriminate].
      destruct (r_setnx ueq (ss_kv s) tt i0 (Some (q_ttl g0))) as [[|] kv'];
        unfold swith in H; inversion H; subst s'; cbn [ss_rs];
        exists g; rewrite nth_error_upd_other; auto.
  - destruct (nth_error (ss_rs s) i0) as [g0|] eqn:Hg0; [|discriminate].
    destruct (q_pc g0) eqn:Hp0; try discriminate.
    unfold swith in H; inversion H; subst s'; cbn [ss_rs].
    destruct (Nat.eq_dec i0 i) as [->|Hn].
    + rewrite Hi in Hg0. inversion Hg0; subst g0. exists g. split; auto. apply nth_error_upd_same; auto.
    + exists g. rewrite nth_error_upd_other; auto.
  - destruct (nth_error (ss_rs s) i0) as [g0|] eqn:Hg0; [|discriminate].
    destruct (q_pc g0) eqn:Hp0; try discriminate.
    unfold swith in H; inversion H; subst s'; cbn [ss_rs].
    destruct (Nat.eq_dec i0 i) as [->|Hn]; [congruence|].
    exists g. rewrite nth_error_upd_other; auto.
  - destruct (Z.ltb d 0); [discriminate|]. inversion H; subst s'. exists g. auto.
Qed.

Fixpoint no_stop (i : nat) (ls : list slabel) : Prop :=
  match ls with
  | [] => True
  | l :: t => l <> QStop i /\ no_stop i t
  end.

Theorem redis_never_notified_run : forall ls s s' i g,
  run sstep s ls = Some s' -> nth_error (ss_rs s) i = Some g -> q_pc g = SActive -> no_stop i ls ->
  exists g', nth_error (ss_rs s') i = Some g' /\ q_pc g' = SActive.
Proof.
  induction ls as [|l t IH]; intros s s' i g Hr Hi Hpc Hn; simpl in Hr.
  - inversion Hr; subst. eauto.
  - destruct (sstep s l) as [s1|] eqn:E; [|discriminate]. destruct Hn as [Hn1 Hn2].
    destruct (redis_never_notified _ _ _ _ _ E Hi Hpc Hn1) as [g1 [Hg1 Hp1]].
    eapply IH; eauto.
Qed.

(* the witness: A (0) registers, its key lapses, B (1) registers; A's next tick
   refreshes B's key and A is not notified; A's stop deletes B's registration *)
Definition c26_prefix : list slabel :=
  [QNew 300; QNew 300; QReg 0; QTime 301; QReg 1; QTime 100].

Theorem redis_c26_refuted :
  exists s0 s1 s2 a0 b0 a1 b2,
    run sstep ssys_init c26_prefix = Some s0 /\
    (* both believe they hold; the key was created by B *)
    nth_error (ss_rs s0) 0 = Some a0 /\ nth_error (ss_rs s0) 1 = Some b0 /\
    s_believes a0 = true /\ s_believes b0 = true /\ s_owner s0 = Some 1%nat /\
    r_ttl ueq (ss_kv s0) tt = Some (Some 200) /\
    (* A's tick refreshes the registration created by B, and A still believes *)
    sstep s0 (QTick 0) = Some s1 /\
    s_owner s1 = Some 1%nat /\ r_ttl ueq (ss_kv s1) tt = Some (Some 1000) /\
    nth_error (ss_rs s1) 0 = Some a1 /\ s_believes a1 = true /\
    (* A's exit deletes the registration created by B, who still believes *)
    sstep s1 (QStop 0) = Some s2 /\
    s_owner s2 = None /\ nth_error (ss_rs s2) 1 = Some b2 /\ s_believes b2 = true.
Proof.
  do 7 eexists.
  split; [vm_compute; reflexivity|].
  split; [reflexivity|]. split; [reflexivity|].
  split; [reflexivity|]. split; [reflexivity|]. split; [vm_compute; reflexivity|].
  split; [vm_compute; reflexivity|].
  split; [vm_compute; reflexivity|].
  split; [vm_compute; reflexivity|]. split; [vm_compute; reflexivity|].
  split; [reflexivity|]. split; [reflexivity|].
  split; [vm_compute; reflexivity|].
  split; [vm_compute; reflexivity|]. split; reflexivity.
Qed.

(* ---- the strongest true statement for redis: without lapses ---- *)
(* steps that never let a registration lapse: positive heartbeats, and the clock
   never advances past the expiry of an existing key *)
Definition sstep_nl (s : ssys) (l : slabel) : option ssys :=
  match l with
  | QNew ttl => if Z.ltb 0 ttl then sstep s l else None
  | QTime d =>
      if Bool.eqb (r_exists ueq (r_tick (ss_kv s) d) tt) (r_exists ueq (ss_kv s) tt) then sstep s l else None
  | _ => sstep s l
  end.

Definition skv1 (kv : sstore) : Prop :=
  r_kvs kv = [] \/ exists x, r_kvs kv = [x] /\ rkv_live (r_now kv) x = true.

Definition ssys_ok (s : ssys) : Prop :=
  skv1 (ss_kv s) /\
  (forall g, In g (ss_rs s) -> 0 < q_ttl g) /\
  (forall i g, nth_error (ss_rs s) i = Some g -> q_pc g = SActive -> r_get ueq (ss_kv s) tt = Some i) /\
  (forall i, r_get ueq (ss_kv s) tt = Some i -> exists g, nth_error (ss_rs s) i = Some g /\ q_pc g = SActive).

Lemma s_remove_nil : forall kv : sstore, r_remove ueq kv tt = [].
Proof. intros kv. unfold r_remove. apply all_false_filter_nil. intros; reflexivity. Qed.

Lemma s_get_empty : forall kv : sstore, r_kvs kv = [] -> r_get ueq kv tt = None /\ r_exists ueq kv tt = false.
Proof. intros kv H. unfold r_get, r_exists, r_find. rewrite H. auto. Qed.

Lemma s_get_one : forall (kv : sstore) x, r_kvs kv = [x] -> rkv_live (r_now kv) x = true ->
  r_get ueq kv tt = Some (rk_val x) /\ r_find ueq kv tt = Some x /\ r_exists ueq kv tt = true.
Proof. intros kv x H L. unfold r_get, r_exists, r_find. rewrite H. simpl. rewrite L. auto. Qed.

Lemma ssys_init_ok : ssys_ok ssys_init.
Proof.
  unfold ssys_ok, ssys_init; simpl. split; [left; reflexivity|]. split; [intros g []|]. split.
  - intros i g H. destruct i; discriminate.
  - intros i H. discriminate.
Qed.

Lemma sstep_nl_ok : forall s l s', ssys_ok s -> sstep_nl s l = Some s' -> ssys_ok s'.
Proof.
  intros s l s' Hok H. pose proof Hok as (K & T & P2 & P3).
  destruct l; unfold sstep_nl, sstep in H; cbv zeta in H.
  - (* QNew *)
    destruct (Z.ltb 0 ttl) eqn:Ht; [|discriminate]. apply Z.ltb_lt in Ht.
    inversion H; subst s'; clear H. unfold ssys_ok; cbn [ss_kv ss_rs]. split; auto. split; [|split].
    + intros g Hg. apply in_app_or in Hg. destruct Hg as [Hg|[<-|[]]]; auto.
    + intros i g Hi Hp. apply nth_error_app_new in Hi. destruct Hi as [Hi|[_ ->]]; [eauto|discriminate].
    + intros i Hi. destruct (P3 i Hi) as [g [Hg Hp]]. exists g. split; auto.
      rewrite nth_error_app1; auto. apply nth_error_Some. congruence.
  - (* QReg *)
    destruct (nth_error (ss_rs s) i) as [g|] eqn:Hg; [|discriminate].
    assert (Hlen : (i < length (ss_rs s))%nat) by (apply nth_error_Some; congruence).
    assert (Tg : 0 < q_ttl g) by (apply T; eapply nth_error_In; eauto).
    destruct (s_can_register (q_pc g)) eqn:Hc; [|discriminate].
    assert (Hna : q_pc g <> SActive) by (intro E; rewrite E in Hc; discriminate).
    unfold r_setnx in H. destruct (r_exists ueq (ss_kv s) tt) eqn:Hex.
    + (* exists: rejected *)
      unfold swith in H; inversion H; subst s'; clear H. unfold ssys_ok; cbn [ss_kv ss_rs].
      split; auto. split; [|split].
      * intros y Hy. apply In_upd in Hy. destruct Hy as [->|Hy]; auto.
      * intros j y Hj Hp. apply nth_error_upd in Hj. destruct Hj as [[_ ->]|[_ Hj]]; [discriminate|eauto].
      * intros j Hj. destruct (P3 j Hj) as [y [Hy Hp]]. exists y. split; auto.
        rewrite nth_error_upd_other; auto. intro E; subst j. congruence.
    + (* absent: set *)
      unfold swith in H; inversion H; subst s'; clear H.
      assert (Hempty : r_kvs (ss_kv s) = []).
      { destruct K as [E|[x [E Lx]]]; auto. destruct (s_get_one _ _ E Lx) as (_ & _ & X). congruence. }
      assert (Hk : r_kvs (r_set ueq (ss_kv s) tt i (Some (q_ttl g))) = [mkRkv tt i (Some (r_now (ss_kv s) + q_ttl g))]
                   /\ r_now (r_set ueq (ss_kv s) tt i (Some (q_ttl g))) = r_now (ss_kv s)).
      { unfold r_set; simpl. rewrite s_remove_nil. apply Z.ltb_lt in Tg. rewrite Tg. simpl. auto. }
      destruct Hk as [Hk Hn].
      assert (Hl : rkv_live (r_now (ss_kv s)) (mkRkv tt i (Some (r_now (ss_kv s) + q_ttl g))) = true)
        by (unfold rkv_live; simpl; apply Z.ltb_lt; lia).
      destruct (s_get_one _ _ Hk) as (G & _ & _); [rewrite Hn; exact Hl|]. simpl in G.
      unfold ssys_ok; cbn [ss_kv ss_rs]. split; [|split; [|split]].
      * right. eexists. split; [exact Hk|]. rewrite Hn. exact Hl.
      * intros y Hy. apply In_upd in Hy. destruct Hy as [->|Hy]; auto.
      * intros j y Hj Hp. apply nth_error_upd in Hj. destruct Hj as [[<- ->]|[_ Hj]]; auto.
        specialize (P2 j y Hj Hp). destruct (s_get_empty _ Hempty) as [X _]. congruence.
      * intros j Hj. rewrite G in Hj. inversion Hj; subst j.
        eexists. split; [apply nth_error_upd_same; auto|reflexivity].
  - (* QTick *)
    destruct (nth_error (ss_rs s) i) as [g|] eqn:Hg; [|discriminate].
    assert (Hlen : (i < length (ss_rs s))%nat) by (apply nth_error_Some; congruence).
    assert (Tg : 0 < q_ttl g) by (apply T; eapply nth_error_In; eauto).
    destruct (q_pc g) eqn:Hp; try discriminate.
    unfold swith in H; inversion H; subst s'; clear H.
    specialize (P2 i g Hg Hp) as Gi.
    destruct K as [E|[x [E Lx]]]; [destruct (s_get_empty _ E) as [X _]; congruence|].
    destruct (s_get_one _ _ E Lx) as (G & F & X). assert (Ev : rk_val x = i) by congruence.
    assert (Tr : 0 < refresh_ms (q_ttl g)).
    { unfold refresh_ms. destruct (Z.ltb 0 (q_ttl g) && Z.ltb (q_ttl g) 1000) eqn:Eb; [lia|].
      apply andb_false_iff in Eb. destruct Eb as [Eb|Eb]; [apply Z.ltb_ge in Eb; lia|].
      apply Z.ltb_ge in Eb. assert (1 <= Z.quot (q_ttl g) 1000) by (apply Z.quot_le_lower_bound; lia). lia. }
    set (rt := refresh_ms (q_ttl g)) in *.
    assert (Hk : r_kvs (snd (r_expire ueq (ss_kv s) tt rt)) = [mkRkv tt (rk_val x) (Some (r_now (ss_kv s) + rt))]
                 /\ r_now (snd (r_expire ueq (ss_kv s) tt rt)) = r_now (ss_kv s)).
    { unfold r_expire. rewrite F. assert (Z.leb rt 0 = false) as -> by (apply Z.leb_gt; lia).
      simpl. rewrite s_remove_nil. auto. }
    destruct Hk as [Hk Hn].
    assert (Hl : rkv_live (r_now (ss_kv s)) (mkRkv tt (rk_val x) (Some (r_now (ss_kv s) + rt))) = true)
      by (unfold rkv_live; simpl; apply Z.ltb_lt; lia).
    destruct (s_get_one _ _ Hk) as (G' & _ & _); [rewrite Hn; exact Hl|]. simpl in G'.
    assert (Hupd : upd i g (ss_rs s) = ss_rs s).
    { clear -Hg. revert i Hg. induction (ss_rs s) as [|a t IH]; intros [|i] Hg; simpl in *; try discriminate; auto.
      - inversion Hg; auto.
      - f_equal. auto. }
    unfold ssys_ok; cbn [ss_kv ss_rs]. rewrite Hupd. split; [|split; [|split]]; auto.
    + right. eexists. split; [exact Hk|]. rewrite Hn. exact Hl.
    + intros j y Hj Hpj. rewrite G'. specialize (P2 j y Hj Hpj). congruence.
    + intros j Hj. rewrite G' in Hj. apply P3. congruence.
  - (* QStop *)
    destruct (nth_error (ss_rs s) i) as [g|] eqn:Hg; [|discriminate].
    assert (Hlen : (i < length (ss_rs s))%nat) by (apply nth_error_Some; congruence).
    destruct (q_pc g) eqn:Hp; try discriminate.
    unfold swith in H; inversion H; subst s'; clear H.
    specialize (P2 i g Hg Hp) as Gi.
    assert (Hex : r_exists ueq (ss_kv s) tt = true).
    { unfold r_get in Gi. unfold r_exists. destruct (r_find ueq (ss_kv s) tt); [auto|discriminate]. }
    assert (Hk : r_kvs (snd (r_del ueq (ss_kv s) tt)) = []).
    { unfold r_del. rewrite Hex. simpl. apply s_remove_nil. }
    destruct (s_get_empty _ Hk) as [G' _].
    unfold ssys_ok; cbn [ss_kv ss_rs]. split; [left; auto|]. split; [|split].
    + intros y Hy. apply In_upd in Hy. destruct Hy as [->|Hy]; simpl; auto.
      apply (T g). eapply nth_error_In; eauto.
    + intros j y Hj Hpj. apply nth_error_upd in Hj. destruct Hj as [[_ ->]|[Hne Hj]]; [discriminate|].
      specialize (P2 j y Hj Hpj). exfalso. apply Hne. congruence.
    + intros j Hj. congruence.
  - (* QTime *)
    destruct (Bool.eqb (r_exists ueq (r_tick (ss_kv s) d) tt) (r_exists ueq (ss_kv s) tt)) eqn:Hpres; [|discriminate].
    destruct (Z.ltb d 0) eqn:Hd; [discriminate|]. apply Z.ltb_ge in Hd.
    inversion H; subst s'; clear H. apply eqb_prop in Hpres.
    unfold ssys_ok; cbn [ss_kv ss_rs].
    destruct K as [E|[x [E Lx]]].
    + assert (Hk : r_kvs (r_tick (ss_kv s) d) = []) by (unfold r_tick; simpl; rewrite E; reflexivity).
      destruct (s_get_empty _ Hk) as [G' _]. destruct (s_get_empty _ E) as [G _].
      split; [left; auto|]. split; auto. split.
      * intros j y Hj Hpj. specialize (P2 j y Hj Hpj). congruence.
      * intros j Hj. congruence.
    + destruct (s_get_one _ _ E Lx) as (G & F & X). rewrite X in Hpres.
      assert (Lx' : rkv_live (r_now (ss_kv s) + d) x = true).
      { destruct (rkv_live (r_now (ss_kv s) + d) x) eqn:L'; auto. exfalso.
        unfold r_exists, r_find, r_tick in Hpres. cbn [r_kvs r_now] in Hpres. rewrite E in Hpres.
        simpl in Hpres. rewrite L' in Hpres. simpl in Hpres. discriminate. }
      assert (Hk : r_kvs (r_tick (ss_kv s) d) = [x] /\ r_now (r_tick (ss_kv s) d) = r_now (ss_kv s) + d).
      { unfold r_tick; simpl. rewrite E. simpl. rewrite Lx'. auto. }
      destruct Hk as [Hk Hn].
      destruct (s_get_one _ _ Hk) as (G' & _ & _); [rewrite Hn; exact Lx'|].
      split; [right; exists x; rewrite Hn; auto|]. split; auto. split.
      * intros j y Hj Hpj. rewrite G'. specialize (P2 j y Hj Hpj). congruence.
      * intros j Hj. apply P3. congruence.
Qed.

Theorem sreachable_nl_ok : forall s, reachable sstep_nl ssys_init s -> ssys_ok s.
Proof. apply invariant_reachable; [exact ssys_init_ok|]. intros; eapply sstep_nl_ok; eauto. Qed.

(* without lapses the redis registrations are exclusive and the owner of the key
   is the one registrant that believes it holds *)
Theorem redis_exclusive_without_lapse : forall s i j a b,
  reachable sstep_nl ssys_init s ->
  nth_error (ss_rs s) i = Some a -> nth_error (ss_rs s) j = Some b ->
  s_believes a = true -> s_believes b = true -> i = j /\ s_owner s = Some i.
Proof.
  intros s i j a b Hr Ha Hb Pa Pb. apply sreachable_nl_ok in Hr. destruct Hr as (K & T & P2 & P3).
  unfold s_believes in *.
  destruct (q_pc a) eqn:Ea; try discriminate. destruct (q_pc b) eqn:Eb; try discriminate.
  pose proof (P2 i a Ha Ea) as Gi. pose proof (P2 j b Hb Eb) as Gj.
  split; [congruence|exact Gi].
Qed.

(* the hypotheses are satisfiable: a reachable etcd state in which A's lease has
   been revoked (A still believes, not yet ticked) and B holds the key *)
Example etcd_c26_hyps_satisfiable :
  exists s a b, run estep esys_init
      [GNew 1; GNew 1; GGrant 0; GPut 0; GLapse 1; GGrant 1; GPut 1] = Some s /\
    nth_error (es_rs s) 0 = Some a /\ nth_error (es_rs s) 1 = Some b /\
    g_pc a = EActive /\ dead (es_kv s) (g_lease a) /\ e_holds s b = true /\ e_holds s a = false.
Proof.
  do 3 eexists. split; [vm_compute; reflexivity|].
  split; [reflexivity|]. split; [reflexivity|]. split; [reflexivity|].
  split; [vm_compute; reflexivity|]. split; vm_compute; reflexivity.
Qed.

(* ---- the boolean reflection accepts the etcd model (bounded sweep) ----
   All schedules of at most 5 macro operations over two registrants (6 operations:
   MReg 0/1, MLapse, MTickAll, MStop 0/1), both directly and through the
   withActiveLock layer: [ok] evaluates to true on what the etcd model produces,
   i.e. the reflection raises no alarm on any behaviour of the verified model. *)
Definition mop_alphabet : list mop := [MReg 0; MReg 1; MLapse; MTickAll; MStop 0; MStop 1].

Fixpoint seqs (n : nat) : list (list mop) :=
  match n with
  | O => [[]]
  | S k => flat_map (fun t => map (fun m => m :: t) mop_alphabet) (seqs k)
  end.
Definition schedules (n : nat) : list (list mop) := flat_map seqs (seq 0 (S n)).

Definition ok_on_model (b : backend) (ttls : list Z) (ops : list mop) : bool :=
  ok (mkCase b ttls ops (model_obs (mkCase b ttls ops []))).

(* schedules the harness can produce: a registrant is (re)started only when it is
   not registered, and (watcher mode) only when no watcher is pending *)
Definition e_can_reg (s : esys) (i : nat) : bool :=
  match nth_error (es_rs s) i with Some g => can_register (g_pc g) | None => false end.

Fixpoint e_legal (s : esys) (ops : list mop) : bool :=
  match ops with
  | [] => true
  | m :: t => match m with MReg i => e_can_reg s i | _ => true end && e_legal (fst (e_mop s m)) t
  end.

Fixpoint ew_legal (st : esys * option nat) (ops : list mop) : bool :=
  match ops with
  | [] => true
  | m :: t =>
      match m with
      | MReg i => e_can_reg (fst st) i && match snd st with None => true | Some _ => false end
      | _ => true
      end && ew_legal (fst (w_mop WOnce e_mop e_obs st m)) t
  end.

Definition e_start : esys := run_skip estep esys_init (map GNew [1; 1]).

(* restart / re-registration modes: additionally at most one registrant at a time
   whose registration has lapsed without it having been notified yet, and
   (RegisterService) no new registrant is started while one is in that state *)
Definition e_lapsed (s : esys) : bool :=
  existsb (fun g => e_believes g && negb (e_lease_live (es_kv s) (g_lease g))) (es_rs s).

Fixpoint er_legal (mode : wmode) (obsf : esys -> mres -> bool -> obs) (st : esys * option nat) (ops : list mop) : bool :=
  match ops with
  | [] => true
  | m :: t =>
      match m with
      | MReg i => e_can_reg (fst st) i && match snd st with None => true | Some _ => false end
                  && match mode with WService => negb (e_lapsed (fst st)) | _ => true end
      | MLapse => negb (e_lapsed (fst st))
      | _ => true
      end && er_legal mode obsf (fst (w_mop mode e_mop obsf st m)) t
  end.

Lemma ok_sound_on_etcd_model_bounded :
  forallb (fun ops => negb (e_legal e_start ops) || ok_on_model BEtcd [1; 1] ops) (schedules 5) = true /\
  forallb (fun ops => negb (ew_legal (e_start, None) ops) || ok_on_model BEtcdW [1; 1] ops) (schedules 5) = true.
Proof. split; vm_compute; reflexivity. Qed.

Lemma ok_sound_on_etcd_loops_bounded :
  forallb (fun ops => negb (er_legal WRun e_obs2 (e_start, None) ops) || ok_on_model BEtcdR [1; 1] ops) (schedules 5) = true /\
  forallb (fun ops => negb (er_legal WService e_obs2 (e_start, None) ops) || ok_on_model BEtcdS [1; 1] ops) (schedules 5) = true.
Proof. split; vm_compute; reflexivity. Qed.

(* the sweep is not vacuous: many schedules are legal *)
Lemma legal_schedules_counted :
  Nat.leb 1000 (length (filter (e_legal e_start) (schedules 5))) = true /\
  Nat.leb 1000 (length (filter (ew_legal (e_start, None)) (schedules 5))) = true /\
  Nat.leb 1000 (length (filter (er_legal WRun e_obs2 (e_start, None)) (schedules 5))) = true /\
  Nat.leb 1000 (length (filter (er_legal WService e_obs2 (e_start, None)) (schedules 5))) = true.
Proof. repeat split; vm_compute; reflexivity. Qed.

(* ... while on the redis model it does raise alarms (the witness is among them) *)
Lemma ok_rejects_redis_witness :
  ok_on_model BRedis [300; 300] [MReg 0; MLapse; MReg 1; MTickAll; MStop 0] = false.
Proof. vm_compute; reflexivity. Qed.

(* ---- the client loops (withActiveLock, selfmon.run, RegisterService) ----
   Whatever the loops do — retry, restart after a lapse, register again at once —
   they only ever take steps of the registrant system, so every state they pass
   through is reachable and the exclusivity / notification / owner-safety theorems
   apply to it: across restarts and re-registrations at most one registrant
   believes it holds the key with a live lease. *)
Lemma try_step_reach : forall s l, reachable estep esys_init s -> reachable estep esys_init (try_step estep s l).
Proof.
  intros s l H. unfold try_step. destruct (estep s l) eqn:E; auto. eapply reachable_step; eauto.
Qed.

Lemma e_mop_reach : forall s m, reachable estep esys_init s -> reachable estep esys_init (fst (e_mop s m)).
Proof.
  intros s m H. destruct m; simpl.
  - repeat apply try_step_reach; auto.
  - destruct (e_owner_lease s); simpl; auto. apply try_step_reach; auto.
  - generalize (seq 0 (length (es_rs s))). intros l. revert s H.
    induction l as [|i t IH]; intros s H; simpl; auto. apply IH. repeat apply try_step_reach; auto.
  - repeat apply try_step_reach; auto.
Qed.

Lemma retry_reach : forall s p, reachable estep esys_init s ->
  reachable estep esys_init (fst (retry_pending e_mop s p)).
Proof.
  intros s p H. unfold retry_pending. destruct p as [j|]; [|exact H].
  pose proof (e_mop_reach s (MReg j) H) as H'. destruct (e_mop s (MReg j)) as [s' o]. cbn [fst] in H'.
  destruct (o_res o); exact H'.
Qed.

Lemma w_mid_reach : forall mode s1 p newly, reachable estep esys_init s1 ->
  reachable estep esys_init (fst (w_mid mode e_mop s1 p newly)).
Proof.
  intros mode s1 p newly H1. unfold w_mid.
  destruct mode; destruct newly as [j|]; try (apply retry_reach; exact H1).
  - pose proof (retry_reach s1 p H1) as Hx. destruct (retry_pending e_mop s1 p) as [sb pb]. exact Hx.
  - pose proof (e_mop_reach s1 (MReg j) H1) as Ha. destruct (e_mop s1 (MReg j)) as [sa o]. cbn [fst] in Ha.
    destruct (o_res o); try (apply retry_reach; exact Ha); destruct p; try exact Ha; apply retry_reach; exact Ha.
Qed.

Lemma w_mop_reach : forall mode obsf st m,
  reachable estep esys_init (fst st) ->
  reachable estep esys_init (fst (fst (w_mop mode e_mop obsf st m))).
Proof.
  intros mode obsf [s p] m H. cbn [fst] in H. destruct m; unfold w_mop.
  - pose proof (e_mop_reach s (MReg i) H) as H'. destruct (e_mop s (MReg i)) as [s' o]. cbn [fst] in H'.
    destruct (o_res o); exact H'.
  - pose proof (e_mop_reach s MLapse H) as H'. destruct (e_mop s MLapse) as [s' o]. exact H'.
  - pose proof (e_mop_reach s MTickAll H) as H1. destruct (e_mop s MTickAll) as [s1 o1]. cbn [fst] in H1.
    set (newly := newly_closed _ _ _).
    pose proof (w_mid_reach mode s1 p newly H1) as H2.
    destruct (w_mid mode e_mop s1 p newly) as [s2 p2]. cbn [fst] in H2.
    pose proof (e_mop_reach s2 MTickAll H2) as H3. destruct (e_mop s2 MTickAll) as [s3 o3]. exact H3.
  - destruct p as [j|].
    + destruct (Nat.eqb i j); [exact H|].
      pose proof (e_mop_reach s (MStop i) H) as H'. destruct (e_mop s (MStop i)) as [s' o]. exact H'.
    + pose proof (e_mop_reach s (MStop i) H) as H'. destruct (e_mop s (MStop i)) as [s' o]. exact H'.
Qed.

(* state of the registrant system after a client-loop schedule *)
Fixpoint w_state (mode : wmode) (obsf : esys -> mres -> bool -> obs) (st : esys * option nat) (ms : list mop)
  : esys * option nat :=
  match ms with
  | [] => st
  | m :: t => w_state mode obsf (fst (w_mop mode e_mop obsf st m)) t
  end.

Lemma w_state_reach : forall mode obsf ms st,
  reachable estep esys_init (fst st) -> reachable estep esys_init (fst (w_state mode obsf st ms)).
Proof.
  induction ms as [|m t IH]; intros st H; simpl; auto. apply IH. apply w_mop_reach; auto.
Qed.

Lemma run_skip_reach : forall ls s, reachable estep esys_init s -> reachable estep esys_init (run_skip estep s ls).
Proof.
  induction ls as [|l t IH]; intros s H; simpl; auto.
  destruct (estep s l) eqn:E; auto. apply IH. eapply reachable_step; eauto.
Qed.

Lemma e_init_reach : forall ttls, reachable estep esys_init (run_skip estep esys_init (map GNew ttls)).
Proof. intros. apply run_skip_reach. apply reachable_refl. Qed.

(* across restarts and re-registrations, in any of the three client loops, for any
   number of registrants and any schedule of start / lapse / tick / stop: at most
   one registrant believes it holds the key with a live lease, and the key carries
   its lease *)
Theorem etcd_loops_exclusive : forall mode obsf ttls ops s i j a b,
  s = fst (w_state mode obsf (run_skip estep esys_init (map GNew ttls), None) ops) ->
  nth_error (es_rs s) i = Some a -> nth_error (es_rs s) j = Some b ->
  e_holds s a = true -> e_holds s b = true ->
  i = j /\ e_owner_lease s = Some (g_lease a).
Proof.
  intros mode obsf ttls ops s i j a b -> Ha Hb Pa Pb.
  assert (R : reachable estep esys_init
                (fst (w_state mode obsf (run_skip estep esys_init (map GNew ttls), None) ops))).
  { apply w_state_reach. simpl. apply e_init_reach. }
  split; [eapply etcd_exclusive; eauto|eapply etcd_holder_owns_key; eauto].
Qed.

(* the same sweeps over three registrants (8 operations), schedules of at most 4 operations *)
Definition mop_alphabet3 : list mop := [MReg 0; MReg 1; MReg 2; MLapse; MTickAll; MStop 0; MStop 1; MStop 2].
Fixpoint seqs3 (n : nat) : list (list mop) :=
  match n with
  | O => [[]]
  | S k => flat_map (fun t => map (fun m => m :: t) mop_alphabet3) (seqs3 k)
  end.
Definition schedules3 (n : nat) : list (list mop) := flat_map seqs3 (seq 0 (S n)).
Definition e_start3 : esys := run_skip estep esys_init (map GNew [1; 1; 1]).

Lemma ok_sound_on_etcd_loops_bounded3 :
  forallb (fun ops => negb (ew_legal (e_start3, None) ops) || ok_on_model BEtcdW [1; 1; 1] ops) (schedules3 4) = true /\
  forallb (fun ops => negb (er_legal WRun e_obs2 (e_start3, None) ops) || ok_on_model BEtcdR [1; 1; 1] ops) (schedules3 4) = true /\
  forallb (fun ops => negb (er_legal WService e_obs2 (e_start3, None) ops) || ok_on_model BEtcdS [1; 1; 1] ops) (schedules3 4) = true.
Proof. repeat split; vm_compute; reflexivity. Qed.
