(* Locks/LockLog.v — the client-visible event log of a run of lock contenders and
   the boolean reflections of C18 / C19 on such a log.  Executable, no proofs.

   The correspondence harness runs N contenders (goroutines, one lock object
   each, created by the real store.CreateLock) and appends one record per event
   to a single log under a mutex; the position in the log is the global sequence
   number, [Z] is the wall-clock time in milliseconds since the start of the run.

     ECall i o   just before contender i invokes Lock / TryLock
     EEnter i    the call returned nil; logged inside the critical section
     EFail i e   the call returned an error
     EExit i     contender i leaves its critical section (just before Unlock)
     EURet i     Unlock returned
     ELose i d   the harness makes holder i lose its lock: etcd = revoke the
                 session lease through the cluster client; redis = miniredis
                 FastForward(d ms).  Logged before the call ...
     ELost i     ... and after it returned
     ECtx i c    the harness inspected the context returned to i (after waiting
                 for Done() at most the observation window): its state.
   For etcd an ELose is either a revocation of the session lease through the
   cluster client or a network partition between the client and the server
   (the lease then runs out on the server). *)
From Coq Require Import List Bool ZArith Arith.
Import ListNotations.
Local Open Scope Z_scope.

Inductive lop := OpLock | OpTry.
Inductive ferr := FBusy | FTimeout | FExpired | FOther.
(* state of a returned context: CtxSessionDone = Done() is closed and Err() is
   ErrLockSessionDone; CtxErrOpen = Err() already reports ErrLockSessionDone but
   Done() is not closed (the holder is not woken up) *)
Inductive cerr := CtxLive | CtxSessionDone | CtxErrOpen | CtxOther | CtxCanceled.
(* CtxCanceled: Done() is closed and Err() is context.Canceled — the state of a context
   derived from a lock context that was cancelled (chained locks of the cluster helpers) *)

Inductive cev :=
| ECall (i : nat) (o : lop)
| EEnter (i : nat)
| EFail (i : nat) (e : ferr)
| EExit (i : nat)
| EURet (i : nat)
| ELose (i : nat) (d : Z)
| ELost (i : nat)
| ECtx (i : nat) (c : cerr).

Definition log := list (Z * cev).

Definition lop_eqb (a b : lop) := match a, b with OpLock, OpLock | OpTry, OpTry => true | _, _ => false end.
Definition ferr_eqb (a b : ferr) :=
  match a, b with FBusy, FBusy | FTimeout, FTimeout | FExpired, FExpired | FOther, FOther => true | _, _ => false end.
Definition cerr_eqb (a b : cerr) :=
  match a, b with
  | CtxLive, CtxLive | CtxSessionDone, CtxSessionDone | CtxErrOpen, CtxErrOpen | CtxOther, CtxOther
  | CtxCanceled, CtxCanceled => true
  | _, _ => false
  end.

Definition ev_thread (e : cev) : nat :=
  match e with
  | ECall i _ | EEnter i | EFail i _ | EExit i | EURet i | ELose i _ | ELost i | ECtx i _ => i
  end.

(* ---- queries on a log (logs are short: quadratic scans are fine) ---- *)
Definition is_call (i : nat) (e : cev) := match e with ECall j _ => Nat.eqb i j | _ => false end.
Definition is_enter (i : nat) (e : cev) := match e with EEnter j => Nat.eqb i j | _ => false end.
Definition is_fail (i : nat) (e : cev) := match e with EFail j _ => Nat.eqb i j | _ => false end.
Definition is_ret (i : nat) (e : cev) := is_enter i e || is_fail i e.
Definition is_exit (i : nat) (e : cev) := match e with EExit j => Nat.eqb i j | _ => false end.
Definition is_uret (i : nat) (e : cev) := match e with EURet j => Nat.eqb i j | _ => false end.
Definition is_end (i : nat) (e : cev) := is_uret i e || is_fail i e.
Definition is_lose (i : nat) (e : cev) := match e with ELose j _ => Nat.eqb i j | _ => false end.
Definition is_lost (i : nat) (e : cev) := match e with ELost j => Nat.eqb i j | _ => false end.
Definition is_ctx (i : nat) (e : cev) := match e with ECtx j _ => Nat.eqb i j | _ => false end.

Fixpoint find_pos_from (p : cev -> bool) (l : log) (k : nat) : option (nat * Z) :=
  match l with
  | [] => None
  | (t, e) :: r => if p e then Some (k, t) else find_pos_from p r (S k)
  end.
Definition find_pos (p : cev -> bool) (l : log) : option (nat * Z) := find_pos_from p l 0.

Definition op_of (i : nat) (l : log) : option lop :=
  match find (fun te => is_call i (snd te)) l with
  | Some (_, ECall _ o) => Some o
  | _ => None
  end.

(* position a strictly before position b; a missing b counts as "never" (infinitely late),
   a missing a as "never happened" *)
Definition before (a b : option (nat * Z)) : bool :=
  match a, b with
  | Some (x, _), Some (y, _) => Nat.ltb x y
  | Some _, None => true
  | None, _ => false
  end.

(* ---- C18 ---- *)

(* R1: at most one contender inside its critical section at any time *)
Fixpoint mutex_scan (l : log) (inside : list nat) : bool :=
  match l with
  | [] => true
  | (_, EEnter i) :: r => match inside with [] => mutex_scan r [i] | _ => false end
  | (_, EExit i) :: r => mutex_scan r (filter (fun j => negb (Nat.eqb i j)) inside)
  | _ :: r => mutex_scan r inside
  end.
Definition mutex_ok (l : log) : bool := mutex_scan l [].

(* R2: a try-lock returns without waiting: well under the 500 ms retry period of the
   redis Lock loop, whatever the outcome (a try-lock that waited for a retry and
   then failed or succeeded is a violation); the harness validates the timing of
   every emitted run with an independent stall probe;
   R3: a failing Lock fails with the time-out error no earlier than its wait
       time-out; a failing TryLock fails with the busy error *)
Definition try_bound_ms : Z := 300.
(* R3: a Lock call returns — acquired or failed — no later than its effective wait
   time-out plus this slack; the effective wait time-out of a call is
   min (the lock's wait time-out, the caller's own deadline): the harness emits it
   per contender in the time-out list of the case *)
Definition lock_slack_ms : Z := 300.

Definition call_ret_ok (tmo : list Z) (l : log) (i : nat) : bool :=
  match find_pos (is_call i) l, op_of i l with
  | Some (_, t0), Some o =>
      match find (fun te => is_ret i (snd te)) l with
      | None => true                       (* still pending at the end of the log *)
      | Some (t1, EEnter _) =>
          match o with
          | OpTry => Z.leb (t1 - t0) try_bound_ms
          | OpLock => Z.leb (t1 - t0) (nth i tmo 0 + lock_slack_ms)
          end
      | Some (t1, EFail _ e) =>
          match o with
          | OpTry => ferr_eqb e FBusy && Z.leb (t1 - t0) try_bound_ms
          | OpLock => ferr_eqb e FTimeout && Z.leb (nth i tmo 0 - 2) (t1 - t0)
                      && Z.leb (t1 - t0) (nth i tmo 0 + lock_slack_ms)
          end
      | _ => false
      end
  | None, _ => true
  | _, _ => false
  end.

(* R4: no spurious failure: a contender fails only if some other contender was
   active (between its call and its Unlock return / failure) during the call *)
Definition overlaps (l : log) (i j : nat) : bool :=
  before (find_pos (is_call j) l) (find_pos (is_ret i) l)
  && negb (before (find_pos (is_end j) l) (find_pos (is_call i) l)).
Definition fail_ok (n : nat) (tmo : list Z) (l : log) (i : nat) : bool :=
  match find_pos (is_fail i) l with
  | None => true
  | Some _ =>
      (* a call made on an already-cancelled caller context (effective time-out 0) fails by itself *)
      Z.leb (nth i tmo 0) 0 || existsb (fun j => negb (Nat.eqb i j) && overlaps l i j) (seq 0 n)
  end.

(* every contender's own events are in protocol order *)
Fixpoint proto_scan (l : log) (i : nat) (st : nat) : bool :=
  (* st: 0 idle, 1 called, 2 inside, 3 unlocking, 4 finished *)
  match l with
  | [] => true
  | (_, e) :: r =>
      if negb (Nat.eqb (ev_thread e) i) then proto_scan r i st else
      match e, st with
      | ECall _ _, O => proto_scan r i 1%nat
      | EEnter _, 1%nat => proto_scan r i 2%nat
      | EFail _ _, 1%nat => proto_scan r i 4%nat
      | EExit _, 2%nat => proto_scan r i 3%nat
      | EURet _, 3%nat => proto_scan r i 4%nat
      | ELose _ _, _ | ELost _, _ | ECtx _ _, _ => proto_scan r i st
      | _, _ => false
      end
  end.

Definition c18_ok (n : nat) (tmo : list Z) (l : log) : bool :=
  mutex_ok l
  && forallb (fun i => proto_scan l i 0 && call_ret_ok tmo l i && fail_ok n tmo l i) (seq 0 n).

(* ---- C19 ---- *)
(* A holder i "lost" its lock when an ELose i event lies inside its critical
   section.  The property: its context is then observed cancelled
   (CtxSessionDone) within [bound] ms of the loss, and any other contender that
   enters while i is still inside does so only after the loss (so the overlap is
   bounded by the notification delay).  A holder that did not lose its lock
   keeps a live context. *)
Definition lost_inside (l : log) (i : nat) : bool :=
  let lose := find_pos (is_lose i) l in
  before (find_pos (is_enter i) l) lose && before lose (find_pos (is_exit i) l)
  && match lose with Some _ => true | None => false end.

Definition ctx_obs (l : log) (i : nat) : option (Z * cerr) :=
  match find (fun te => is_ctx i (snd te)) l with
  | Some (t, ECtx _ c) => Some (t, c)
  | _ => None
  end.

Definition c19_holder_ok (bound : Z) (l : log) (i : nat) : bool :=
  match find_pos (is_enter i) l with
  | None => true
  | Some _ =>
    if lost_inside l i then
      match ctx_obs l i, find_pos (is_lost i) l with
      | Some (t1, CtxSessionDone), Some (_, t0) => Z.leb (t1 - t0) bound
      | _, _ => false
      end
    else
      match ctx_obs l i with
      | Some (_, CtxLive) | None => true
      | _ => false
      end
  end.

(* overlap only after a loss: scanning, a second contender may enter while i is
   inside only if i's ELose has been logged *)
Fixpoint c19_scan (l : log) (inside lostl : list nat) : bool :=
  match l with
  | [] => true
  | (_, EEnter i) :: r =>
      forallb (fun j => existsb (Nat.eqb j) lostl) inside && c19_scan r (i :: inside) lostl
  | (_, EExit i) :: r => c19_scan r (filter (fun j => negb (Nat.eqb i j)) inside) lostl
  | (_, ELose i _) :: r => c19_scan r inside (i :: lostl)
  | _ :: r => c19_scan r inside lostl
  end.

Definition c19_ok (n : nat) (bound : Z) (l : log) : bool :=
  c19_scan l [] [] && forallb (fun i => proto_scan l i 0 && c19_holder_ok bound l i) (seq 0 n).
