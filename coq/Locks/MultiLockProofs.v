(* Locks/MultiLockProofs.v — the chain of lock contexts of the multi-lock helpers:
   if any of the locks is lost (its own context ends up cancelled with
   ErrLockSessionDone, EtcdLockProofs.etcd_notify), the context the critical
   section runs under is cancelled. *)
From Coq Require Import List Bool ZArith Lia.
From Verif Require Import Locks.LockLog Locks.MultiLock.
Import ListNotations.

Definition own_state (c : cerr) : Prop := c = CtxLive \/ c = CtxSessionDone \/ c = CtxErrOpen.

Lemma chain_length : forall own pd, length (chain pd own) = length own.
Proof. induction own as [|c t IH]; intros pd; simpl; auto. Qed.

(* below a cancelled parent every context of the chain is cancelled *)
Lemma chain_done_all : forall own, Forall own_state own -> forall e, In e (chain true own) -> is_done e = true.
Proof.
  induction own as [|c t IH]; intros Hf e He; simpl in He; [destruct He|].
  inversion Hf; subst. destruct He as [<-|He].
  - destruct H1 as [->|[->| ->]]; reflexivity.
  - apply IH; auto.
Qed.

Lemma last_in {A} : forall (l : list A) d, l <> [] -> In (last l d) l.
Proof.
  induction l as [|a t IH]; intros d H; [congruence|]. destruct t as [|b u]; [left; reflexivity|].
  right. apply IH. discriminate.
Qed.

Lemma last_cons {A} : forall (x : A) l d, l <> [] -> last (x :: l) d = last l d.
Proof. intros x l d H. destruct l; [congruence|reflexivity]. Qed.

Lemma chain_nonempty : forall pd own, own <> [] -> chain pd own <> [].
Proof. intros pd own H E. apply H. apply length_zero_iff_nil. rewrite <- (chain_length own pd), E. reflexivity. Qed.

(* the critical section's context (the last of the chain) is cancelled as soon as
   the own context of any key is cancelled with the session-done error *)
Theorem chain_cancelled : forall own,
  Forall own_state own -> In CtxSessionDone own -> is_done (last (chain false own) CtxLive) = true.
Proof.
  intros own. generalize false as pd.
  induction own as [|c t IH]; intros pd Hf Hin; [destruct Hin|].
  inversion Hf; subst. cbn [chain].
  set (e := match c with CtxLive => if pd then CtxCanceled else CtxLive
                        | CtxErrOpen => if pd then CtxSessionDone else CtxErrOpen | x => x end).
  destruct t as [|c2 u].
  - destruct Hin as [->|[]]. reflexivity.
  - rewrite last_cons by (apply chain_nonempty; discriminate).
    destruct Hin as [->|Hin].
    + subst e. cbn [is_done]. rewrite orb_true_r.
      apply (chain_done_all (c2 :: u)); auto. apply last_in. apply chain_nonempty. discriminate.
    + apply IH; auto.
Qed.
