(* Locks/RedisLockProofs.v — inductive invariant of the redis lock transition
   system; C18 for the redis backend; C19 refuted for the redis backend. *)
From Coq Require Import List Bool ZArith Lia Arith.
From Verif Require Import Base.KV Base.KVProofs Locks.Interleave Locks.InterleaveProofs
  Locks.LockLog Locks.RedisLock.
Import ListNotations.
Local Open Scope Z_scope.

(* ---- the single-key store ---- *)
Definition kv1_ok (kv : rstore) : Prop :=
  r_kvs kv = [] \/ exists x, r_kvs kv = [x] /\ rkv_live (r_now kv) x = true.

Lemma remove_nil : forall kv : rstore, r_remove ueqb kv tt = [].
Proof. intros kv. unfold r_remove. apply all_false_filter_nil. intros; reflexivity. Qed.

Lemma get_empty : forall kv : rstore, r_kvs kv = [] -> r_get ueqb kv tt = None.
Proof. intros kv H. unfold r_get, r_find. rewrite H. reflexivity. Qed.

Lemma get_one : forall (kv : rstore) x, r_kvs kv = [x] -> rkv_live (r_now kv) x = true ->
  r_get ueqb kv tt = Some (rk_val x) /\ r_find ueqb kv tt = Some x.
Proof. intros kv x H L. unfold r_get, r_find. rewrite H. simpl. rewrite L. auto. Qed.

Definition owning (p : rpc) : Prop := p = RHeld \/ p = RReleasing.

Definition within (now : Z) (c : rcont) : Prop :=
  match r_until c with None => True | Some t => now < t end.

(* a contender whose SET NX reply was lost may have left its token in the key *)
Definition ghostable (p : rpc) : Prop := p = RFailed RDeadline \/ p = RDone false.

Definition rcont_ok (kv : rstore) (c : rcont) : Prop :=
  (owning (r_pc c) -> within (r_now kv) c -> r_get ueqb kv tt = Some (r_tok c)) /\
  (forall x, In x (r_kvs kv) -> rk_val x = r_tok c ->
     (owning (r_pc c) \/ ghostable (r_pc c)) /\ rk_exp x = r_until c) /\
  r_ctx c = CtxLive.

Definition rsys_ok (s : rsys) : Prop :=
  kv1_ok (rs_kv s) /\
  (forall i c, nth_error (rs_cs s) i = Some c -> r_tok c = Z.of_nat i) /\
  (forall x, In x (r_kvs (rs_kv s)) -> exists i c, nth_error (rs_cs s) i = Some c /\ rk_val x = r_tok c) /\
  (forall c, In c (rs_cs s) -> rcont_ok (rs_kv s) c).

Lemma rsys_init_ok : rsys_ok rsys_init.
Proof.
  unfold rsys_ok, rsys_init; simpl. split; [left; reflexivity|]. split; [|split].
  - intros i c H. destruct i; discriminate.
  - intros x [].
  - intros c [].
Qed.

Lemma within_spec : forall s c, within_lease s c = true <-> within (r_now (rs_kv s)) c.
Proof.
  intros s c. unfold within_lease, within. destruct (r_until c); [apply Z.ltb_lt|tauto].
Qed.

(* other contenders are unaffected by a step of contender i that leaves the store alone *)
Lemma rsys_ok_upd_same_kv : forall s i c c',
  rsys_ok s -> nth_error (rs_cs s) i = Some c -> r_tok c' = r_tok c ->
  rcont_ok (rs_kv s) c' ->
  rsys_ok (mkRS (rs_kv s) (upd i c' (rs_cs s))).
Proof.
  intros s i c c' (Hkv & Htok & HT & Hcs) Hi Et Hc'. unfold rsys_ok; simpl. split; auto. split; [|split].
  - intros j y Hj. apply nth_error_upd in Hj. destruct Hj as [[<- ->]|[_ Hj]]; auto.
    rewrite Et. auto.
  - intros x Hx. destruct (HT x Hx) as (j & y & Hj & Ey).
    assert (Hlen : (i < length (rs_cs s))%nat) by (apply nth_error_Some; congruence).
    destruct (Nat.eq_dec i j) as [<-|Hne].
    + exists i, c'. split; [apply nth_error_upd_same; auto|]. congruence.
    + exists j, y. split; [rewrite nth_error_upd_other; auto|auto].
  - intros y Hy. apply In_upd in Hy. destruct Hy as [->|Hy]; auto.
Qed.

Ltac rinv_nth H c Hc :=
  match type of H with
  | context [nth_error ?l ?i] => destruct (nth_error l i) as [c|] eqn:Hc; [|discriminate]
  end.

Lemma tok_inj : forall s i j a b,
  rsys_ok s -> nth_error (rs_cs s) i = Some a -> nth_error (rs_cs s) j = Some b ->
  r_tok a = r_tok b -> i = j.
Proof.
  intros s i j a b (_ & Htok & _ & _) Ha Hb E. apply Htok in Ha. apply Htok in Hb. lia.
Qed.

Lemma rtry_ok : forall s i c o s',
  rsys_ok s -> nth_error (rs_cs s) i = Some c -> ~ owning (r_pc c) -> ~ ghostable (r_pc c) ->
  rtry s i c o = Some s' -> rsys_ok s'.
Proof.
  intros s i c o s' Hok Hi Hno Hng H.
  pose proof Hok as (Hkv & Htok & HT & Hcs).
  assert (Hlen : (i < length (rs_cs s))%nat) by (apply nth_error_Some; congruence).
  assert (Hin : In c (rs_cs s)) by (eapply nth_error_In; eauto).
  destruct (Hcs c Hin) as (C1 & C2 & C3).
  unfold rtry in H. destruct (r_dead c).
  { unfold rwith in H; inversion H; subst s'; clear H.
    apply (rsys_ok_upd_same_kv s i c); auto. unfold rcont_ok; simpl.
    split; [intros [F|F]; discriminate|]. split; auto.
    intros x Hx Ex. destruct (C2 x Hx Ex) as [[O|Gh] _]; contradiction. }
  unfold r_setnx, r_exists in H.
  destruct (r_find ueqb (rs_kv s) tt) as [x0|] eqn:Hf.
  - (* key present: not obtained *)
    destruct o; unfold rwith in H; inversion H; subst s'; clear H;
      apply (rsys_ok_upd_same_kv s i c); auto; unfold rcont_ok; simpl;
      (split; [intros [F|F]; discriminate|]); (split; auto);
      intros x Hx Ex; destruct (C2 x Hx Ex) as [[O|Gh] _]; contradiction.
  - (* key absent: set *)
    unfold rwith in H; inversion H; subst s'; clear H.
    assert (Hempty : r_kvs (rs_kv s) = []).
    { destruct Hkv as [E|[x [E L]]]; auto. unfold r_find in Hf. rewrite E in Hf. simpl in Hf.
      rewrite L in Hf. discriminate. }
    set (e := if Z.ltb 0 (r_ttl c) then Some (r_now (rs_kv s) + r_ttl c) else None).
    assert (Hset : r_kvs (r_set ueqb (rs_kv s) tt (r_tok c) (Some (r_ttl c))) = [mkRkv tt (r_tok c) e]
                   /\ r_now (r_set ueqb (rs_kv s) tt (r_tok c) (Some (r_ttl c))) = r_now (rs_kv s)).
    { unfold r_set; simpl. rewrite remove_nil. simpl. auto. }
    destruct Hset as [Hk Hn].
    assert (Hlive : rkv_live (r_now (rs_kv s)) (mkRkv tt (r_tok c) e) = true).
    { unfold rkv_live; simpl. unfold e. destruct (Z.ltb 0 (r_ttl c)) eqn:T; auto.
      apply Z.ltb_lt in T. apply Z.ltb_lt. lia. }
    unfold rsys_ok; cbn [rs_kv rs_cs]. split; [|split; [|split]].
    + right. eexists. split; [exact Hk|]. rewrite Hn. exact Hlive.
    + intros j y Hj. apply nth_error_upd in Hj. destruct Hj as [[<- ->]|[_ Hj]]; simpl; auto.
    + intros x Hx. rewrite Hk in Hx. destruct Hx as [<-|[]]. simpl.
      eexists i, _. split; [apply nth_error_upd_same; auto|reflexivity].
    + intros y Hy. apply In_nth_error in Hy. destruct Hy as [j Hj].
      apply nth_error_upd in Hj. destruct Hj as [[<- ->]|[Hne Hj]].
      * unfold rcont_ok; cbn [r_pc r_tok r_ttl r_until r_ctx r_in r_dead]. split; [|split; auto].
        -- intros _ _. destruct (get_one _ _ Hk) as [G _]; [rewrite Hn; exact Hlive|]. exact G.
        -- intros x Hx Ex. rewrite Hk in Hx. destruct Hx as [<-|[]]. simpl. split; [left; left|]; auto.
      * assert (Hyin : In y (rs_cs s)) by (eapply nth_error_In; eauto).
        destruct (Hcs y Hyin) as (Y1 & Y2 & Y3).
        unfold rcont_ok. rewrite Hn. split; [|split; auto].
        -- intros O W. specialize (Y1 O W). rewrite get_empty in Y1 by auto. discriminate.
        -- intros x Hx Ex. rewrite Hk in Hx. destruct Hx as [<-|[]]. simpl in Ex.
           exfalso. apply Hne. eapply tok_inj; eauto.
Qed.

Lemma rcont_ok_same : forall kv c c',
  r_pc c' = r_pc c -> r_tok c' = r_tok c -> r_until c' = r_until c -> r_ctx c' = r_ctx c ->
  rcont_ok kv c -> rcont_ok kv c'.
Proof. unfold rcont_ok, within. intros kv c c' -> -> -> ->. auto. Qed.

Lemma rcont_ok_not_owning : forall kv c c',
  ~ owning (r_pc c) -> ~ owning (r_pc c') -> (ghostable (r_pc c) -> ghostable (r_pc c')) ->
  r_tok c' = r_tok c -> r_until c' = r_until c -> r_ctx c' = r_ctx c ->
  rcont_ok kv c -> rcont_ok kv c'.
Proof.
  intros kv c c' Hn Hn' Hg Et Eu Ec (C1 & C2 & C3). unfold rcont_ok. rewrite Et, Ec, Eu.
  split; [intros O; contradiction|]. split; auto.
  intros x Hx Ex. destruct (C2 x Hx Ex) as [[O|Gh] E]; [contradiction|]. split; auto.
Qed.

Ltac not_owning := let O := fresh in intros O; destruct O as [O|O]; simpl in O; congruence.
Ltac not_ghost := let O := fresh in intros O; destruct O as [O|O]; simpl in O; congruence.

Lemma rstep_ok : forall s l s', rsys_ok s -> rstep s l = Some s' -> rsys_ok s'.
Proof.
  intros s l s' Hok H.
  pose proof Hok as (Hkv & Htok & HT & Hcs).
  destruct l; unfold rstep in H; cbv zeta in H.
  - (* RNew *)
    inversion H; subst s'; clear H. unfold rsys_ok; cbn [rs_kv rs_cs]. split; auto. split; [|split].
    + intros i c Hi. apply nth_error_app_new in Hi. destruct Hi as [Hi|[-> ->]]; auto.
    + intros x Hx. destruct (HT x Hx) as (j & y & Hj & Ey). exists j, y. split; auto.
      rewrite nth_error_app1; auto. apply nth_error_Some. congruence.
    + intros c Hc. apply in_app_or in Hc. destruct Hc as [Hc|[<-|[]]]; auto.
      unfold rcont_ok; cbn [r_pc r_tok r_until r_ctx]. split; [intros [F|F]; discriminate|]. split; auto.
      intros x Hx Ex. exfalso. destruct (HT x Hx) as (j & y & Hj & Ey).
      assert (j < length (rs_cs s))%nat by (apply nth_error_Some; congruence).
      apply Htok in Hj. lia.
  - (* RCall *)
    rinv_nth H c Hc. destruct (r_pc c) eqn:Hpc; try discriminate.
    unfold rwith in H; inversion H; subst s'; clear H.
    apply (rsys_ok_upd_same_kv s i c); auto.
    apply (rcont_ok_not_owning _ c); auto; try (rewrite Hpc); try not_owning; try not_ghost.
    apply Hcs. eapply nth_error_In; eauto.
  - (* RTry *)
    rinv_nth H c Hc. destruct (r_pc c) eqn:Hpc; try discriminate;
      eapply rtry_ok; eauto; rewrite Hpc; first [not_owning|not_ghost].
  - (* RTimeout *)
    rinv_nth H c Hc.
    assert (Cc : rcont_ok (rs_kv s) c) by (apply Hcs; eapply nth_error_In; eauto).
    destruct (r_pc c) eqn:Hpc; try discriminate; try (destruct o; try discriminate);
      unfold rwith in H; inversion H; subst s'; clear H;
      apply (rsys_ok_upd_same_kv s i c); auto;
      apply (rcont_ok_same _ c); auto.
  - (* RRet *)
    rinv_nth H c Hc.
    assert (Cc : rcont_ok (rs_kv s) c) by (apply Hcs; eapply nth_error_In; eauto).
    destruct (r_pc c) eqn:Hpc; try discriminate. destruct (r_in c); [discriminate|].
    unfold rwith in H; inversion H; subst s'; clear H.
    apply (rsys_ok_upd_same_kv s i c); auto. apply (rcont_ok_same _ c); auto.
  - (* RExit *)
    rinv_nth H c Hc.
    assert (Cc : rcont_ok (rs_kv s) c) by (apply Hcs; eapply nth_error_In; eauto).
    destruct (r_pc c) eqn:Hpc; try discriminate.
    + destruct (r_in c); [|discriminate].
      unfold rwith in H; inversion H; subst s'; clear H.
      apply (rsys_ok_upd_same_kv s i c); auto.
      destruct Cc as (C1 & C2 & C3). unfold rcont_ok, within; simpl. rewrite Hpc in *.
      split; [intros _ W; apply C1; [left; auto|exact W]|]. split; auto.
      intros x Hx Ex. destruct (C2 x Hx Ex) as [_ E]. split; [left; right; auto|auto].
    + unfold rwith in H; inversion H; subst s'; clear H.
      apply (rsys_ok_upd_same_kv s i c); auto.
      apply (rcont_ok_not_owning _ c); auto; try (rewrite Hpc); try not_owning.
      intros _. right. reflexivity.
  - (* RRelease *)
    rinv_nth H c Hc.
    assert (Hlen : (i < length (rs_cs s))%nat) by (apply nth_error_Some; congruence).
    assert (Cc : rcont_ok (rs_kv s) c) by (apply Hcs; eapply nth_error_In; eauto).
    destruct (r_pc c) eqn:Hpc; try discriminate.
    unfold r_cad in H.
    destruct (r_get ueqb (rs_kv s) tt) as [v|] eqn:Hg.
    + destruct (Z.eqb v (r_tok c)) eqn:Ev.
      * (* compare succeeded: the key is deleted *)
        apply Z.eqb_eq in Ev. subst v.
        unfold r_del, r_exists in H.
        assert (Hf : exists x, r_find ueqb (rs_kv s) tt = Some x).
        { unfold r_get in Hg. destruct (r_find ueqb (rs_kv s) tt); [eexists; eauto|discriminate]. }
        destruct Hf as [x0 Hf]. rewrite Hf in H. cbn [snd] in H. rewrite remove_nil in H.
        unfold rwith in H; inversion H; subst s'; clear H.
        unfold rsys_ok; cbn [rs_kv rs_cs r_kvs r_now]. split; [left; reflexivity|]. split; [|split].
        -- intros j y Hj. apply nth_error_upd in Hj. destruct Hj as [[<- ->]|[_ Hj]]; simpl; auto.
        -- intros x [].
        -- intros y Hy. apply In_nth_error in Hy. destruct Hy as [j Hj].
           apply nth_error_upd in Hj. destruct Hj as [[<- ->]|[Hne Hj]].
           ++ unfold rcont_ok; simpl. split; [intros [F|F]; discriminate|]. split; [intros x []|].
              destruct Cc as (_ & _ & C3); auto.
           ++ assert (Hyin : In y (rs_cs s)) by (eapply nth_error_In; eauto).
              destruct (Hcs y Hyin) as (Y1 & Y2 & Y3).
              unfold rcont_ok; simpl. split; [|split; [intros x []|auto]].
              intros O W. specialize (Y1 O W). rewrite Hg in Y1. inversion Y1.
              exfalso. apply Hne. eapply tok_inj; eauto.
      * (* another value: untouched *)
        unfold rwith in H; cbn [snd] in H; inversion H; subst s'; clear H.
        apply (rsys_ok_upd_same_kv s i c); auto.
        destruct Cc as (C1 & C2 & C3). unfold rcont_ok; simpl.
        split; [intros [F|F]; discriminate|]. split; auto.
        intros x Hx Ex. exfalso.
        destruct Hkv as [E|[x1 [E L]]]; rewrite E in Hx; [destruct Hx|].
        destruct Hx as [<-|[]]. destruct (get_one _ _ E L) as [G _]. rewrite G in Hg.
        inversion Hg. subst v. rewrite Ex, Z.eqb_refl in Ev. discriminate.
    + unfold rwith in H; cbn [snd] in H; inversion H; subst s'; clear H.
      apply (rsys_ok_upd_same_kv s i c); auto.
      destruct Cc as (C1 & C2 & C3). unfold rcont_ok; simpl.
      split; [intros [F|F]; discriminate|]. split; auto.
      intros x Hx Ex. exfalso.
      destruct Hkv as [E|[x1 [E L]]]; rewrite E in Hx; [destruct Hx|].
      destruct (get_one _ _ E L) as [G _]. rewrite G in Hg. discriminate.
  - (* RTick *)
    destruct (Z.ltb d 0) eqn:Hd; [discriminate|]. apply Z.ltb_ge in Hd.
    inversion H; subst s'; clear H.
    unfold rsys_ok; cbn [rs_kv rs_cs]. unfold r_tick.
    set (now' := r_now (rs_kv s) + d).
    split; [|split; [|split]]; auto.
    + destruct Hkv as [E|[x [E L]]]; unfold kv1_ok; cbn [r_kvs r_now]; rewrite E; simpl; auto.
      destruct (rkv_live now' x) eqn:L'; auto. right. exists x. auto.
    + cbn [r_kvs]. intros x Hx. apply filter_In in Hx. destruct Hx as [Hx _]. auto.
    + intros y Hy. destruct (Hcs y Hy) as (Y1 & Y2 & Y3).
      unfold rcont_ok; cbn [r_kvs r_now]. split; [|split; auto].
      * intros O W.
        assert (W0 : within (r_now (rs_kv s)) y).
        { unfold within in *. destruct (r_until y); auto. unfold now' in W. lia. }
        specialize (Y1 O W0).
        destruct Hkv as [E|[x [E L]]]; [rewrite get_empty in Y1 by auto; discriminate|].
        destruct (get_one _ _ E L) as [G _]. rewrite G in Y1. inversion Y1 as [Ev].
        destruct (Y2 x) as [_ Ee]; [rewrite E; left; auto|auto|].
        assert (L' : rkv_live now' x = true).
        { unfold rkv_live. rewrite Ee. unfold within in W. destruct (r_until y); auto. apply Z.ltb_lt; auto. }
        unfold r_get, r_find; cbn [r_kvs r_now]. rewrite E. simpl. rewrite L'. simpl. rewrite L'. simpl. congruence.
      * intros x Hx Ex. apply filter_In in Hx. destruct Hx as [Hx _]. auto.
  - (* RTryLost *)
    rinv_nth H c Hc.
    assert (Hlen : (i < length (rs_cs s))%nat) by (apply nth_error_Some; congruence).
    assert (Cc : rcont_ok (rs_kv s) c) by (apply Hcs; eapply nth_error_In; eauto).
    assert (Hpcs : r_pc c = RRetrying \/ exists o, r_pc c = RCalled o).
    { destruct (r_pc c); try discriminate; eauto. }
    assert (Hno : ~ owning (r_pc c)) by (destruct Hpcs as [E|[o E]]; rewrite E; not_owning).
    assert (Hng : ~ ghostable (r_pc c)) by (destruct Hpcs as [E|[o E]]; rewrite E; not_ghost).
    assert (H' : (let '(okb, kv') := r_setnx ueqb (rs_kv s) tt (r_tok c) (Some (r_ttl c)) in
                  rwith s i kv' (mkR (RFailed RDeadline) (r_tok c) (r_ttl c) (r_dead c)
                     (if okb then (if Z.ltb 0 (r_ttl c) then Some (r_now (rs_kv s) + r_ttl c) else None) else r_until c)
                     false (r_ctx c))) = Some s').
    { destruct Hpcs as [E|[o E]]; rewrite E in H; exact H. }
    clear H. unfold r_setnx, r_exists in H'.
    destruct Cc as (C1 & C2 & C3).
    destruct (r_find ueqb (rs_kv s) tt) as [x0|] eqn:Hf.
    + unfold rwith in H'; inversion H'; subst s'; clear H'.
      apply (rsys_ok_upd_same_kv s i c); auto. unfold rcont_ok; simpl.
      split; [intros [F|F]; discriminate|]. split; auto.
      intros x Hx Ex. destruct (C2 x Hx Ex) as [[O|Gh] _]; contradiction.
    + unfold rwith in H'; inversion H'; subst s'; clear H'.
      assert (Hempty : r_kvs (rs_kv s) = []).
      { destruct Hkv as [E|[x [E L]]]; auto. unfold r_find in Hf. rewrite E in Hf. simpl in Hf.
        rewrite L in Hf. discriminate. }
      set (e := if Z.ltb 0 (r_ttl c) then Some (r_now (rs_kv s) + r_ttl c) else None).
      assert (Hset : r_kvs (r_set ueqb (rs_kv s) tt (r_tok c) (Some (r_ttl c))) = [mkRkv tt (r_tok c) e]
                     /\ r_now (r_set ueqb (rs_kv s) tt (r_tok c) (Some (r_ttl c))) = r_now (rs_kv s)).
      { unfold r_set; simpl. rewrite remove_nil. simpl. auto. }
      destruct Hset as [Hk Hn].
      assert (Hlive : rkv_live (r_now (rs_kv s)) (mkRkv tt (r_tok c) e) = true).
      { unfold rkv_live; simpl. unfold e. destruct (Z.ltb 0 (r_ttl c)) eqn:T; auto.
        apply Z.ltb_lt in T. apply Z.ltb_lt. lia. }
      unfold rsys_ok; cbn [rs_kv rs_cs]. split; [|split; [|split]].
      * right. eexists. split; [exact Hk|]. rewrite Hn. exact Hlive.
      * intros j y Hj. apply nth_error_upd in Hj. destruct Hj as [[<- ->]|[_ Hj]]; simpl; auto.
      * intros x Hx. rewrite Hk in Hx. destruct Hx as [<-|[]]. simpl.
        eexists i, _. split; [apply nth_error_upd_same; auto|reflexivity].
      * intros y Hy. apply In_nth_error in Hy. destruct Hy as [j Hj].
        apply nth_error_upd in Hj. destruct Hj as [[<- ->]|[Hne Hj]].
        -- unfold rcont_ok; cbn [r_pc r_tok r_ttl r_until r_ctx r_in r_dead]. split; [|split; auto].
           ++ intros [F|F]; discriminate.
           ++ intros x Hx Ex. rewrite Hk in Hx. destruct Hx as [<-|[]]. simpl. split; [right; left|]; auto.
        -- assert (Hyin : In y (rs_cs s)) by (eapply nth_error_In; eauto).
           destruct (Hcs y Hyin) as (Y1 & Y2 & Y3).
           unfold rcont_ok. rewrite Hn. split; [|split; auto].
           ++ intros O W. specialize (Y1 O W). rewrite get_empty in Y1 by auto. discriminate.
           ++ intros x Hx Ex. rewrite Hk in Hx. destruct Hx as [<-|[]]. simpl in Ex.
              exfalso. apply Hne. eapply tok_inj; eauto.
Qed.

Theorem rreachable_ok : forall s, reachable rstep rsys_init s -> rsys_ok s.
Proof. apply invariant_reachable; [exact rsys_init_ok|]. intros; eapply rstep_ok; eauto. Qed.

(* ================= C18, redis backend ================= *)
Lemma rholds_spec : forall s c, rholds s c = true <-> r_pc c = RHeld /\ within (r_now (rs_kv s)) c.
Proof.
  intros s c. unfold rholds, is_held. rewrite andb_true_iff, within_spec.
  split; intros [A B]; split; auto.
  - destruct (r_pc c); try discriminate; auto.
  - rewrite A; auto.
Qed.

(* mutual exclusion: in every reachable state (any number of contenders, any
   schedule, any advance of the clock) at most one contender is in its critical
   section within the TTL of the key it set *)
Theorem redis_mutex : forall s i j a b,
  reachable rstep rsys_init s ->
  nth_error (rs_cs s) i = Some a -> nth_error (rs_cs s) j = Some b ->
  rholds s a = true -> rholds s b = true -> i = j.
Proof.
  intros s i j a b Hr Ha Hb Pa Pb.
  apply rreachable_ok in Hr. pose proof Hr as (Hkv & Htok & HT & Hcs).
  apply rholds_spec in Pa. apply rholds_spec in Pb. destruct Pa as [Pa Wa]. destruct Pb as [Pb Wb].
  destruct (Hcs a (nth_error_In _ _ Ha)) as (A1 & _). destruct (Hcs b (nth_error_In _ _ Hb)) as (B1 & _).
  assert (Ga : r_get ueqb (rs_kv s) tt = Some (r_tok a)) by (apply A1; auto; left; auto).
  assert (Gb : r_get ueqb (rs_kv s) tt = Some (r_tok b)) by (apply B1; auto; left; auto).
  eapply tok_inj; eauto. congruence.
Qed.

Theorem redis_holders_le_one : forall s, reachable rstep rsys_init s -> (rholders s <= 1)%nat.
Proof.
  intros s Hr. unfold rholders. apply countb_le_one. intros. eapply redis_mutex; eauto.
Qed.

(* a try-lock step taken while another contender holds (within its TTL) fails in
   that very step *)
Theorem redis_trylock_fails : forall s s' i j c h,
  reachable rstep rsys_init s ->
  nth_error (rs_cs s) j = Some h -> rholds s h = true -> i <> j ->
  nth_error (rs_cs s) i = Some c -> r_pc c = RCalled OpTry ->
  rstep s (RTry i) = Some s' ->
  exists c' e, nth_error (rs_cs s') i = Some c' /\ r_pc c' = RFailed e /\ rs_kv s' = rs_kv s.
Proof.
  intros s s' i j c h Hr Hj Hh Hij Hi Hpc Hstep.
  apply rreachable_ok in Hr. pose proof Hr as (Hkv & Htok & HT & Hcs).
  apply rholds_spec in Hh. destruct Hh as [Ph Wh].
  destruct (Hcs h (nth_error_In _ _ Hj)) as (H1 & _).
  assert (G : r_get ueqb (rs_kv s) tt = Some (r_tok h)) by (apply H1; auto; left; auto).
  assert (Hlen : (i < length (rs_cs s))%nat) by (apply nth_error_Some; congruence).
  unfold rstep in Hstep. rewrite Hi, Hpc in Hstep. unfold rtry in Hstep.
  destruct (r_dead c).
  - unfold rwith in Hstep; inversion Hstep; subst s'; simpl.
    eexists. eexists. split; [apply nth_error_upd_same; auto|]. split; reflexivity.
  - unfold r_setnx, r_exists in Hstep. unfold r_get in G.
    destruct (r_find ueqb (rs_kv s) tt); [|discriminate].
    unfold rwith in Hstep; inversion Hstep; subst s'; simpl.
    eexists. eexists. split; [apply nth_error_upd_same; auto|]. split; reflexivity.
Qed.

Definition waiting_pc (p : rpc) : Prop := p = RCalled OpLock \/ p = RRetrying.

(* a waiter's retry taken when the key is free (released or expired) acquires *)
Theorem redis_wait_acquires : forall s i c,
  nth_error (rs_cs s) i = Some c -> waiting_pc (r_pc c) -> r_dead c = false -> key_free s = true ->
  exists s' c', rstep s (RTry i) = Some s' /\ nth_error (rs_cs s') i = Some c' /\ r_pc c' = RHeld.
Proof.
  intros s i c Hi Hpc Hd Hf.
  assert (Hlen : (i < length (rs_cs s))%nat) by (apply nth_error_Some; congruence).
  unfold key_free in Hf. apply negb_true_iff in Hf.
  unfold rstep. rewrite Hi.
  destruct Hpc as [Hpc|Hpc]; rewrite Hpc; unfold rtry; rewrite Hd; unfold r_setnx; rewrite Hf;
    unfold rwith; eexists; eexists; (split; [reflexivity|]); simpl;
    (split; [apply nth_error_upd_same; auto|reflexivity]).
Qed.

(* while the key is taken the retry leaves the waiter waiting *)
Theorem redis_wait_blocked : forall s i c,
  nth_error (rs_cs s) i = Some c -> waiting_pc (r_pc c) -> r_dead c = false -> key_free s = false ->
  exists s' c', rstep s (RTry i) = Some s' /\ nth_error (rs_cs s') i = Some c' /\ r_pc c' = RRetrying
                /\ rs_kv s' = rs_kv s.
Proof.
  intros s i c Hi Hpc Hd Hf.
  assert (Hlen : (i < length (rs_cs s))%nat) by (apply nth_error_Some; congruence).
  unfold key_free in Hf. apply negb_false_iff in Hf.
  unfold rstep. rewrite Hi.
  destruct Hpc as [Hpc|Hpc]; rewrite Hpc; unfold rtry; rewrite Hd; unfold r_setnx; rewrite Hf;
    unfold rwith; eexists; eexists; (split; [reflexivity|]); simpl;
    (split; [apply nth_error_upd_same; auto|split; reflexivity]).
Qed.

(* a waiter whose deadline has passed fails at its next retry; both steps are enabled *)
Theorem redis_wait_timeout : forall s i c,
  nth_error (rs_cs s) i = Some c -> waiting_pc (r_pc c) ->
  exists s1 s2 c2, rstep s (RTimeout i) = Some s1 /\ rstep s1 (RTry i) = Some s2 /\
                   nth_error (rs_cs s2) i = Some c2 /\ r_pc c2 = RFailed RDeadline /\ rs_kv s2 = rs_kv s.
Proof.
  intros s i c Hi Hpc.
  assert (Hlen : (i < length (rs_cs s))%nat) by (apply nth_error_Some; congruence).
  unfold rstep at 1. rewrite Hi.
  destruct Hpc as [Hpc|Hpc]; rewrite Hpc; unfold rwith;
    eexists; eexists; eexists; (split; [reflexivity|]);
    unfold rstep; cbn [rs_cs rs_kv]; rewrite nth_error_upd_same by auto; cbn [r_pc];
    unfold rtry; cbn [r_dead]; unfold rwith; (split; [reflexivity|]); cbn [rs_cs rs_kv];
    (split; [apply nth_error_upd_same; rewrite length_upd; auto|split; reflexivity]).
Qed.

(* ================= C19, redis backend: refuted ================= *)

(* the context returned by the redis lock is never cancelled, under any schedule *)
Theorem redis_ctx_never_cancelled : forall s c,
  reachable rstep rsys_init s -> In c (rs_cs s) -> r_ctx c = CtxLive.
Proof.
  intros s c Hr Hc. apply rreachable_ok in Hr. destruct Hr as (_ & _ & _ & Hcs).
  destruct (Hcs c Hc) as (_ & _ & C3). exact C3.
Qed.

(* witness: A (0) locks, B (1) waits, A's TTL elapses, B's retry acquires *)
Definition c19_witness : list rlabel :=
  [RNew 1000; RNew 1000; RCall 0 OpLock; RTry 0; RRet 0; RCall 1 OpLock; RTry 1;
   RTick 1001; RTry 1; RRet 1].

Definition in_cs (c : rcont) : bool := is_held c && r_in c.

Theorem redis_c19_refuted :
  exists s a b,
    run rstep rsys_init c19_witness = Some s /\
    nth_error (rs_cs s) 0 = Some a /\ nth_error (rs_cs s) 1 = Some b /\
    (* both are in their critical sections, B legitimately (within its TTL) *)
    in_cs a = true /\ in_cs b = true /\ rholds s b = true /\
    (* A lost its lock (its TTL elapsed) ... *)
    within_lease s a = false /\
    (* ... and is never told: its context stays live under every continuation *)
    (forall ls s' a', run rstep s ls = Some s' -> nth_error (rs_cs s') 0 = Some a' -> r_ctx a' = CtxLive).
Proof.
  destruct (run rstep rsys_init c19_witness) as [s|] eqn:E; [|vm_compute in E; discriminate].
  assert (Hr : reachable rstep rsys_init s) by (exists c19_witness; exact E).
  vm_compute in E. inversion E as [Es].
  eexists. eexists. eexists. split; [reflexivity|].
  split; [reflexivity|]. split; [reflexivity|].
  split; [vm_compute; reflexivity|]. split; [vm_compute; reflexivity|].
  split; [vm_compute; reflexivity|]. split; [vm_compute; reflexivity|].
  intros ls s' a' Hrun Hn. rewrite Es in Hrun.
  eapply redis_ctx_never_cancelled; [eapply reachable_run; eauto|eapply nth_error_In; eauto].
Qed.

(* the strongest true statement about overlap on redis: two contenders can be in
   their critical sections together only if one of them is past the TTL of its key *)
Theorem redis_overlap_only_after_ttl : forall s i j a b,
  reachable rstep rsys_init s ->
  nth_error (rs_cs s) i = Some a -> nth_error (rs_cs s) j = Some b -> i <> j ->
  r_pc a = RHeld -> r_pc b = RHeld ->
  within_lease s a = false \/ within_lease s b = false.
Proof.
  intros s i j a b Hr Ha Hb Hij Pa Pb.
  destruct (within_lease s a) eqn:Wa; auto. destruct (within_lease s b) eqn:Wb; auto.
  exfalso. apply Hij. eapply redis_mutex; eauto; unfold rholds, is_held.
  - rewrite Pa, Wa. reflexivity.
  - rewrite Pb, Wb. reflexivity.
Qed.

(* the hypotheses of the statements above are satisfiable: a reachable state with
   a holder within its TTL, a try-locker about to try, and a waiter *)
Example redis_hyps_satisfiable :
  exists s h c w, run rstep rsys_init
      [RNew 1000; RNew 1000; RNew 1000; RCall 0 OpLock; RTry 0; RRet 0; RCall 1 OpTry; RCall 2 OpLock; RTry 2] = Some s /\
    nth_error (rs_cs s) 0 = Some h /\ rholds s h = true /\
    nth_error (rs_cs s) 1 = Some c /\ r_pc c = RCalled OpTry /\
    nth_error (rs_cs s) 2 = Some w /\ waiting_pc (r_pc w) /\ r_dead w = false /\ key_free s = false.
Proof.
  eexists. eexists. eexists. eexists. split; [vm_compute; reflexivity|].
  split; [reflexivity|]. split; [vm_compute; reflexivity|]. split; [reflexivity|].
  split; [reflexivity|]. split; [reflexivity|]. split; [right; reflexivity|]. split; reflexivity.
Qed.
