(* Locks/RedisLock.v — model of lock/redis/lock.go over github.com/muroq/redislock
   over Base/KV's abstract redis.  Executable, no proofs (RedisLockProofs.v).

   One lock key.  A contender is one lock object (store.CreateLock ->
   redislock.New(cli, key, ttl, ttl)): wait time-out = lock TTL = ttl.

   Go text                                          model step
   ----------------------------------------------   ---------------------------
   redis.New                                         RNew ttl   (token: see below)
   Lock / TryLock invoked (Lock: lockCtx and          RCall i o
     Obtain's deadlinectx = WithTimeout(timeout))
   one iteration of Obtain's loop: SET key token      RTry i
     NX PX ttl; ok -> return lock; else NextBackoff:
     TryLock (NoRetry, backoff 0) -> ErrNotObtained,
     Lock (LinearBackoff) -> wait for the timer; an
     iteration entered after the deadline fails
   the wait deadline of i passes                      RTimeout i
   Unlock invoked (r.l == nil -> ErrLockNotHeld)      RExit i
   Release: Lua compare-and-delete(key, token)        RRelease i
   the clock advances d ms; keys past their TTL go    RTick d
   an iteration of Obtain whose SET NX reply is lost   RTryLost i
     (the deadline fires inside the call): the call
     fails although the server may have set the key,
     which then stays until its TTL (nobody can
     release it)

   The context returned by lock() is context.TODO(): no step of the model ever
   changes [r_ctx].

   Tokens: redislock draws 16 random bytes per Obtain; the model gives contender
   number k the token k (ASSUMPTION: tokens of distinct acquisitions are
   distinct). *)
From Coq Require Import List Bool ZArith Arith.
From Verif Require Import Base.KV Locks.Interleave Locks.LockLog.
Import ListNotations.
Local Open Scope Z_scope.

Inductive rerr := RNotObtained | RDeadline.
Inductive rpc :=
| RIdle | RCalled (o : lop) | RRetrying | RHeld | RReleasing | RDone (released : bool) | RFailed (e : rerr).

Record rcont := mkR {
  r_pc : rpc;
  r_tok : Z;
  r_ttl : Z;               (* lock TTL (ms) *)
  r_dead : bool;           (* the wait deadline has passed *)
  r_until : option Z;      (* ghost: expiry of the key this contender set (None = never) *)
  r_in : bool;             (* the call has returned nil to the caller *)
  r_ctx : cerr }.

Definition rstore := redis unit Z.
Record rsys := mkRS { rs_kv : rstore; rs_cs : list rcont }.
Definition rsys_init : rsys := mkRS redis_init [].

Inductive rlabel :=
| RNew (ttl : Z)
| RCall (i : nat) (o : lop)
| RTry (i : nat)
| RTimeout (i : nat)
| RRet (i : nat)
| RExit (i : nat)
| RRelease (i : nat)
| RTick (d : Z)
| RTryLost (i : nat).

Definition ueqb (_ _ : unit) : bool := true.

Definition rset_pc (c : rcont) (p : rpc) : rcont :=
  mkR p (r_tok c) (r_ttl c) (r_dead c) (r_until c) (r_in c) (r_ctx c).

Definition rwith (s : rsys) (i : nat) (kv : rstore) (c : rcont) : option rsys :=
  Some (mkRS kv (upd i c (rs_cs s))).

Definition rtry (s : rsys) (i : nat) (c : rcont) (o : lop) : option rsys :=
  let kv := rs_kv s in
  if r_dead c then rwith s i kv (rset_pc c (RFailed RDeadline)) else
  let '(okb, kv') := r_setnx ueqb kv tt (r_tok c) (Some (r_ttl c)) in
  if okb then
    rwith s i kv' (mkR RHeld (r_tok c) (r_ttl c) (r_dead c)
                       (if Z.ltb 0 (r_ttl c) then Some (r_now kv + r_ttl c) else None) false CtxLive)
  else match o with
       | OpTry => rwith s i kv (rset_pc c (RFailed RNotObtained))
       | OpLock => rwith s i kv (rset_pc c RRetrying)
       end.

Definition rstep (s : rsys) (l : rlabel) : option rsys :=
  let kv := rs_kv s in
  match l with
  | RNew ttl =>
      Some (mkRS kv (rs_cs s ++ [mkR RIdle (Z.of_nat (length (rs_cs s))) ttl false None false CtxLive]))
  | RTick d => if Z.ltb d 0 then None else Some (mkRS (r_tick kv d) (rs_cs s))
  | RCall i o =>
      match nth_error (rs_cs s) i with
      | Some c => match r_pc c with RIdle => rwith s i kv (rset_pc c (RCalled o)) | _ => None end
      | None => None
      end
  | RTry i =>
      match nth_error (rs_cs s) i with
      | Some c =>
          match r_pc c with
          | RCalled o => rtry s i c o
          | RRetrying => rtry s i c OpLock
          | _ => None
          end
      | None => None
      end
  | RTimeout i =>
      match nth_error (rs_cs s) i with
      | Some c =>
          match r_pc c with
          | RCalled OpLock | RRetrying =>
              rwith s i kv (mkR (r_pc c) (r_tok c) (r_ttl c) true (r_until c) (r_in c) (r_ctx c))
          | _ => None
          end
      | None => None
      end
  | RRet i =>
      match nth_error (rs_cs s) i with
      | Some c =>
          match r_pc c with
          | RHeld => if r_in c then None else
              rwith s i kv (mkR RHeld (r_tok c) (r_ttl c) (r_dead c) (r_until c) true (r_ctx c))
          | _ => None
          end
      | None => None
      end
  | RExit i =>
      match nth_error (rs_cs s) i with
      | Some c =>
          match r_pc c with
          | RHeld => if r_in c then rwith s i kv (rset_pc c RReleasing) else None
          | RFailed _ => rwith s i kv (rset_pc c (RDone false))
          | _ => None
          end
      | None => None
      end
  | RTryLost i =>
      match nth_error (rs_cs s) i with
      | Some c =>
          match r_pc c with
          | RCalled _ | RRetrying =>
              let '(okb, kv') := r_setnx ueqb kv tt (r_tok c) (Some (r_ttl c)) in
              rwith s i kv' (mkR (RFailed RDeadline) (r_tok c) (r_ttl c) (r_dead c)
                                 (if okb then (if Z.ltb 0 (r_ttl c) then Some (r_now kv + r_ttl c) else None)
                                  else r_until c)
                                 false (r_ctx c))
          | _ => None
          end
      | None => None
      end
  | RRelease i =>
      match nth_error (rs_cs s) i with
      | Some c =>
          match r_pc c with
          | RReleasing => let '(b, kv') := r_cad ueqb Z.eqb kv tt (r_tok c) in rwith s i kv' (rset_pc c (RDone b))
          | _ => None
          end
      | None => None
      end
  end.

(* ---- observations ---- *)
Definition within_lease (s : rsys) (c : rcont) : bool :=
  match r_until c with None => true | Some t => Z.ltb (r_now (rs_kv s)) t end.
Definition is_held (c : rcont) : bool := match r_pc c with RHeld => true | _ => false end.
Definition rholds (s : rsys) (c : rcont) : bool := is_held c && within_lease s c.
Definition rholders (s : rsys) : nat := countb (rholds s) (rs_cs s).
Definition key_free (s : rsys) : bool := negb (r_exists ueqb (rs_kv s) tt).

(* ---- equality (for the state-set acceptor) ---- *)
Definition rpc_eqb (a b : rpc) : bool :=
  match a, b with
  | RIdle, RIdle | RRetrying, RRetrying | RHeld, RHeld | RReleasing, RReleasing => true
  | RCalled o1, RCalled o2 => lop_eqb o1 o2
  | RDone b1, RDone b2 => Bool.eqb b1 b2
  | RFailed RNotObtained, RFailed RNotObtained | RFailed RDeadline, RFailed RDeadline => true
  | _, _ => false
  end.
Definition oz_eqb (a b : option Z) : bool :=
  match a, b with Some x, Some y => Z.eqb x y | None, None => true | _, _ => false end.
Definition rcont_eqb (a b : rcont) : bool :=
  rpc_eqb (r_pc a) (r_pc b) && Z.eqb (r_tok a) (r_tok b) && Z.eqb (r_ttl a) (r_ttl b)
  && Bool.eqb (r_dead a) (r_dead b) && oz_eqb (r_until a) (r_until b) && Bool.eqb (r_in a) (r_in b)
  && cerr_eqb (r_ctx a) (r_ctx b).
Fixpoint leqb {A} (f : A -> A -> bool) (x y : list A) : bool :=
  match x, y with
  | [], [] => true
  | a :: s, b :: t => f a b && leqb f s t
  | _, _ => false
  end.
Definition rkv_eqb (a b : rkv unit Z) : bool := Z.eqb (rk_val a) (rk_val b) && oz_eqb (rk_exp a) (rk_exp b).
Definition rsys_eqb (a b : rsys) : bool :=
  Z.eqb (r_now (rs_kv a)) (r_now (rs_kv b)) && leqb rkv_eqb (r_kvs (rs_kv a)) (r_kvs (rs_kv b))
  && leqb rcont_eqb (rs_cs a) (rs_cs b).

(* ---- trace acceptor: simulation with sets of states ----
   Between its call and its return a contender performs internal steps (RTry;
   RRelease between Unlock's call and return) at points the log does not show.
   The acceptor keeps the set of all model states compatible with the log so
   far, closes it under internal steps and filters it by each observed event. *)
Definition add_state (x : rsys) (l : list rsys) : list rsys :=
  if existsb (rsys_eqb x) l then l else l ++ [x].

Definition internal_succ (s : rsys) : list rsys :=
  flat_map (fun i =>
    match nth_error (rs_cs s) i with
    | Some c =>
        match r_pc c with
        | RCalled _ | RRetrying =>
            match rstep s (RTry i) with
            | Some s' => if rsys_eqb s s' then [] else [s']
            | None => []
            end
        | RReleasing => match rstep s (RRelease i) with Some s' => [s'] | None => [] end
        | _ => []
        end
    | None => []
    end) (seq 0 (length (rs_cs s))).

(* worklist closure *)
Definition fresh (seen l : list rsys) : list rsys :=
  fold_left (fun acc y => if existsb (rsys_eqb y) (seen ++ acc) then acc else acc ++ [y]) l [].
Fixpoint close (fuel : nat) (todo seen : list rsys) : list rsys :=
  match fuel with
  | O => seen
  | S f =>
      match todo with
      | [] => seen
      | x :: rest => let new := fresh seen (internal_succ x) in close f (rest ++ new) (seen ++ new)
      end
  end.

Definition rpc_at (s : rsys) (i : nat) : option rpc :=
  match nth_error (rs_cs s) i with Some c => Some (r_pc c) | None => None end.

Definition rferr_ok (o : rpc) (e : rerr) (fe : ferr) : bool :=
  match e, fe with
  | RNotObtained, FBusy => true
  | RDeadline, FTimeout => true
  | _, _ => false
  end.

Definition rdo_ev (s : rsys) (e : cev) : option rsys :=
  match e with
  | ECall i o => rstep s (RCall i o)
  | EEnter i => rstep s (RRet i)
  | EFail i fe =>
      match rpc_at s i with
      | Some (RFailed RNotObtained) => if ferr_eqb fe FBusy then Some s else None
      | Some (RCalled OpLock) | Some RRetrying =>
          if ferr_eqb fe FTimeout then
            match rstep s (RTimeout i) with
            | Some s1 => rstep s1 (RTry i)
            | None => None
            end
          else None
      | _ => None
      end
  | EExit i => match rpc_at s i with Some RHeld => rstep s (RExit i) | _ => None end
  | EURet i => match rpc_at s i with Some (RDone _) => Some s | _ => None end
  | ELose _ d => rstep s (RTick d)
  | ELost _ => Some s
  | ECtx i c =>
      match nth_error (rs_cs s) i with
      | Some k => if cerr_eqb (r_ctx k) c then Some s else None
      | None => None
      end
  end.

Definition dedup (l : list rsys) : list rsys := fold_left (fun acc y => add_state y acc) l [].

Fixpoint raccept (states : list rsys) (l : list cev) : bool :=
  match states with
  | [] => false
  | _ =>
      match l with
      | [] => true
      | e :: r =>
          let cl := close 4096 states states in
          let next := flat_map (fun s => match rdo_ev s e with Some s' => [s'] | None => [] end) cl in
          raccept (dedup next) r
      end
  end.

(* ---- correspondence cases ---- *)
Record rcase := mkRCase {
  rk_ttls : list Z;        (* per contender: ttl = wait time-out (ms) *)
  rk_log : log;
  rk_bound : Z }.

Definition rsys_of (ttls : list Z) : rsys := run_skip rstep rsys_init (map RNew ttls).

Definition ragree (c : rcase) : bool := raccept [rsys_of (rk_ttls c)] (map snd (rk_log c)).
Definition rok18 (c : rcase) : bool := c18_ok (length (rk_ttls c)) (rk_ttls c) (rk_log c).
Definition rok19 (c : rcase) : bool := c19_ok (length (rk_ttls c)) (rk_bound c) (rk_log c).
