(* Locks/MultiLock.v — the multi-lock helpers of cluster/calcium/lock.go
   (withWorkloadsLocked, withNodesLocked): locks on several keys are taken one
   after the other, each doLock on the context the previous one returned, and the
   critical section runs under the last returned context.  The contexts are
   therefore chained: the context returned for key k is cancelled when the lock on
   key k is lost OR when the context of an earlier key is cancelled.
   Executable, no proofs (MultiLockProofs.v).

   Every key is an instance of the single-key system of EtcdLock.v (one contender:
   the helper); the chain is a function of the per-key model states. *)
From Coq Require Import List Bool ZArith Arith.
From Verif Require Import Base.KV Locks.Interleave Locks.LockLog Locks.EtcdLock.
Import ListNotations.
Local Open Scope Z_scope.

Record mkey := mkMKey {
  mk_case : EtcdLock.case;   (* this key's own run: contender 0 = the helper; log without ECtx *)
  mk_pre : nat;              (* number of this key's mutations that precede the inspection *)
  mk_obs : cerr }.           (* observed state, at the inspection, of the context Lock returned for this key *)

Record mcase := mkMCase {
  m_keys : list mkey;        (* in the order the helper locked them *)
  m_f : cerr;                (* observed state of the critical section's context at the inspection *)
  m_lost : bool;             (* the harness made the helper lose one of the locks *)
  m_delay : Z;               (* ms from the loss to the observation of Done (0 when not lost) *)
  m_bound : Z }.

(* the part of a key's log that precedes the inspection: before the helper leaves *)
Fixpoint before_exit (l : list cev) : list cev :=
  match l with
  | [] => []
  | EExit _ :: _ => []
  | e :: r => e :: before_exit r
  end.

(* the state the single-key model gives this key's own context at the inspection *)
Definition model_ctx (k : mkey) : option cerr :=
  let c := mk_case k in
  let pre := before_exit (map snd (k_log c)) in
  let muts := firstn (mk_pre k) (k_muts c) in
  find (fun x => accept (S (S (length muts + length pre))) (mkAcc (sys_of (k_ttl c)) [] []) muts (pre ++ [ECtx 0 x]))
       [CtxLive; CtxSessionDone; CtxErrOpen].

Definition is_done (c : cerr) : bool :=
  match c with CtxSessionDone | CtxCanceled => true | _ => false end.

(* expected states along the chain, given each key's own state; [pd]: the parent
   context (returned for the previous key) is cancelled *)
Fixpoint chain (pd : bool) (own : list cerr) : list cerr :=
  match own with
  | [] => []
  | c :: t =>
      let e := match c with
               | CtxLive => if pd then CtxCanceled else CtxLive
               | CtxErrOpen => if pd then CtxSessionDone else CtxErrOpen
               | x => x
               end in
      e :: chain (pd || is_done e) t
  end.

Fixpoint all_some {A} (l : list (option A)) : option (list A) :=
  match l with
  | [] => Some []
  | Some x :: t => match all_some t with Some r => Some (x :: r) | None => None end
  | None :: _ => None
  end.

Fixpoint cerrs_eqb (a b : list cerr) : bool :=
  match a, b with
  | [], [] => true
  | x :: s, y :: t => cerr_eqb x y && cerrs_eqb s t
  | _, _ => false
  end.

Definition magree (m : mcase) : bool :=
  forallb (fun k => EtcdLock.agree (mk_case k)) (m_keys m)
  && match all_some (map model_ctx (m_keys m)) with
     | Some own =>
         let ex := chain false own in
         cerrs_eqb ex (map mk_obs (m_keys m)) && cerr_eqb (last ex CtxLive) (m_f m)
     | None => false
     end.

(* C19 on a multi-lock run: if a lock was lost, the critical section's context is
   observed cancelled (Done closed) within the bound; otherwise it stays live *)
Definition mok19 (m : mcase) : bool :=
  if m_lost m then is_done (m_f m) && Z.leb (m_delay m) (m_bound m)
  else cerr_eqb (m_f m) CtxLive.
