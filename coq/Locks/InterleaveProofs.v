(* Lemmas about the generic interleaving machinery of Interleave.v. *)
From Coq Require Import List Bool Arith Lia.
From Verif Require Import Locks.Interleave.
Import ListNotations.

Section TS.
  Context {S L : Type}.
  Variable step : S -> L -> option S.

  (* an inductive invariant holds in every reachable state, i.e. under every schedule *)
  Lemma invariant_run (Inv : S -> Prop) :
    (forall s l s', Inv s -> step s l = Some s' -> Inv s') ->
    forall ls s s', Inv s -> run step s ls = Some s' -> Inv s'.
  Proof.
    intros Hstep ls. induction ls as [|l t IH]; intros s s' Hi Hr; simpl in Hr.
    - inversion Hr; subst; exact Hi.
    - destruct (step s l) eqn:E; [|discriminate]. eapply IH; [|exact Hr]. eapply Hstep; eauto.
  Qed.

  Lemma invariant_reachable (Inv : S -> Prop) (init : S) :
    Inv init ->
    (forall s l s', Inv s -> step s l = Some s' -> Inv s') ->
    forall s, reachable step init s -> Inv s.
  Proof. intros Hi Hs s [ls Hr]. eapply invariant_run; eauto. Qed.

  Lemma run_app : forall l1 l2 s,
    run step s (l1 ++ l2) = match run step s l1 with Some s' => run step s' l2 | None => None end.
  Proof.
    induction l1 as [|a t IH]; intros; simpl; [reflexivity|].
    destruct (step s a); [apply IH|reflexivity].
  Qed.

  Lemma reachable_step : forall init s l s',
    reachable step init s -> step s l = Some s' -> reachable step init s'.
  Proof.
    intros init s l s' [ls Hr] Hs. exists (ls ++ [l]). rewrite run_app, Hr. simpl. rewrite Hs. reflexivity.
  Qed.

  Lemma reachable_run : forall init s ls s',
    reachable step init s -> run step s ls = Some s' -> reachable step init s'.
  Proof.
    intros init s ls s' [l0 Hr] Hs. exists (l0 ++ ls). rewrite run_app, Hr. exact Hs.
  Qed.

  Lemma reachable_refl : forall init, reachable step init init.
  Proof. intros; exists []; reflexivity. Qed.
End TS.

(* ---- upd / nth_error ---- *)
Lemma length_upd {A} : forall i (x : A) l, length (upd i x l) = length l.
Proof. induction i; destruct l; simpl; auto. Qed.

Lemma nth_error_upd_same {A} : forall i (x : A) l, i < length l -> nth_error (upd i x l) i = Some x.
Proof. induction i; destruct l; simpl; intros; try lia; auto. apply IHi; lia. Qed.

Lemma nth_error_upd_other {A} : forall i j (x : A) l, i <> j -> nth_error (upd i x l) j = nth_error l j.
Proof.
  induction i; destruct l; destruct j; simpl; intros; try congruence; auto.
Qed.

Lemma nth_error_upd {A} : forall i j (x y : A) l,
  nth_error (upd i x l) j = Some y -> (i = j /\ y = x) \/ (i <> j /\ nth_error l j = Some y).
Proof.
  intros. destruct (Nat.eq_dec i j).
  - subst. left. split; auto.
    destruct (lt_dec j (length l)).
    + rewrite nth_error_upd_same in H by auto. congruence.
    + assert (nth_error (upd j x l) j = None) by (apply nth_error_None; rewrite length_upd; lia).
      congruence.
  - right. split; auto. rewrite nth_error_upd_other in H; auto.
Qed.

Lemma In_upd {A} : forall i (x y : A) l, In y (upd i x l) -> y = x \/ In y l.
Proof.
  induction i; destruct l; simpl; intros; auto.
  - destruct H; auto.
  - destruct H; auto. apply IHi in H. destruct H; auto.
Qed.

Lemma In_upd_other {A} : forall i (x c y : A) l,
  nth_error l i = Some c -> In y (upd i x l) -> y = x \/ (In y l).
Proof. intros. eapply In_upd; eauto. Qed.

Lemma map_upd_same {A B} (f : A -> B) : forall i x c l,
  nth_error l i = Some c -> f x = f c -> map f (upd i x l) = map f l.
Proof.
  induction i; destruct l; simpl; intros; try discriminate; auto.
  - inversion H; subst. rewrite H0. reflexivity.
  - f_equal. eapply IHi; eauto.
Qed.

Lemma nth_error_app_new {A} : forall (l : list A) x j y,
  nth_error (l ++ [x]) j = Some y -> nth_error l j = Some y \/ (j = length l /\ y = x).
Proof.
  intros. destruct (lt_dec j (length l)).
  - rewrite nth_error_app1 in H by auto. auto.
  - rewrite nth_error_app2 in H by lia. right.
    destruct (j - length l) eqn:E; simpl in H.
    + inversion H. split; auto. lia.
    + destruct n0; discriminate.
Qed.

Lemma nth_error_In' {A} : forall (l : list A) i x, nth_error l i = Some x -> In x l.
Proof. intros; eapply nth_error_In; eauto. Qed.

(* ---- at most one element satisfies p ---- *)
Lemma countb_le_one {A} (p : A -> bool) : forall l,
  (forall i j a b, nth_error l i = Some a -> nth_error l j = Some b -> p a = true -> p b = true -> i = j) ->
  countb p l <= 1.
Proof.
  unfold countb. induction l as [|x t IH]; intros H; simpl; [lia|].
  destruct (p x) eqn:E.
  - simpl. assert (filter p t = []) as ->; [|simpl; lia].
    destruct (filter p t) eqn:F; auto.
    assert (In a (filter p t)) by (rewrite F; left; auto).
    apply filter_In in H0. destruct H0 as [Hin Hp].
    apply In_nth_error in Hin. destruct Hin as [n Hn].
    specialize (H 0 (Datatypes.S n) x a eq_refl Hn E Hp). discriminate.
  - apply IH. intros i j a b Ha Hb Pa Pb.
    specialize (H (Datatypes.S i) (Datatypes.S j) a b Ha Hb Pa Pb). lia.
Qed.
