(* Locks/EtcdLock.v — model of lock/etcdlock/mutex.go (the repo's wrapper) over
   go.etcd.io/etcd/client/v3/concurrency (Mutex + Session) over Base/KV's
   abstract etcd.  Executable, no proofs (EtcdLockProofs.v).

   One lock key ("pfx").  A contender is one lock object as the cluster creates
   it (store.CreateLock -> etcdlock.New): its own Session = its own lease; its
   key under the prefix is pfx/<lease id in hex>, so the model identifies the
   key with the lease id (K := Z) and the store below contains exactly the keys
   under the prefix.

   Go text                                         model step
   ---------------------------------------------   ----------------------------
   etcdlock.New: concurrency.NewSession (Grant,     LNew ttl
     KeepAlive loop started)
   Mutex.Lock / TryLock invoked                     LCall i o
   concurrency tryAcquire: Txn If(CreateRevision(   LAcq i
     myKey)=0) Then(Put(myKey,lease), Get(pfx,
     FirstCreate)) Else(Get(myKey), Get(pfx,
     FirstCreate)); owner test; wrapper sets
     locked=true and starts the watcher goroutine
   waitDeletes: Get(pfx, LastCreate, MaxCreateRev   LPoll i  (blocked = stutter)
     = myRev-1); none -> done, else watch it
   Get(myKey) after the wait (session expired?)     LVerify i
   lockCtx deadline (m.timeout) fires while          LTimeout i
     waiting
   m.Unlock(client.Ctx()) after a failed wait /     LDelOwn i
     client.Delete(myKey) in TryLock
   wrapper Unlock: locked=false                      LExit i
   Txn If(IsOwner) Then(Delete(myKey))               LUnlockTxn i
   defer session.Close(): Orphan (donec closes)      LClose i
     + Revoke(lease)
   a third party revokes a lease                     LRevoke l
   the clock advances; leases past their deadline    LTick d
     expire (keys attached to them are deleted)
   one iteration of the session keepalive loop:      LKeepAlive i
     refreshes the lease, or finds it gone and
     closes session.Done()
   watcher goroutine: <-session.Done(): if locked    LWatch i
     {setError(ErrLockSessionDone); return} else
     wait for the parent context
   the call's context (caller deadline / lockCtx) is    LAbort i
     already done before the tryAcquire RPC is sent:
     the call fails without touching the store
   the watcher's deferred cancel(): Done() of the     LCancel i
     returned context closes.  Between LWatch and
     LCancel the code performs no call to the store
     (theorem etcd_watch_cancel_store_free): the
     notification cannot block on an unreachable etcd
   the lockCtx deadline fires inside the tryAcquire  LAcqLost i
     RPC after the server applied the txn: the call
     fails with the deadline error, myRev stays -1
     and the key stays until the session is closed
     (observed on the real code under machine load)

   Not modelled: cancellation of the caller's own context; RPC errors other than
   "lease not found" (the lost tryAcquire reply is modelled: LAcqLost, and the trace
   acceptor tries it as an alternative to LAcq when the call is going to fail). *)
From Coq Require Import List Bool ZArith Arith.
From Verif Require Import Base.KV Locks.Interleave Locks.LockLog.
Import ListNotations.
Local Open Scope Z_scope.

Inductive err := ErrLocked | ErrDeadline | ErrSessionExpired | ErrLeaseNotFound.
Inductive pc :=
| Idle | Called (o : lop) | Waiting | Verify | TimingOut | TryDel
| Held | Unlocking | Closing | Done | Failed (e : err).
Inductive wst := WNone | WWatching | WCancelling | WParked | WExit.

Record cont := mkCont {
  c_pc : pc;
  c_lease : Z;          (* session lease = key under the prefix *)
  c_rev : Z;            (* concurrency.Mutex.myRev *)
  c_locked : bool;      (* wrapper's locked flag *)
  c_sdone : bool;       (* session.Done() is closed *)
  c_w : wst;            (* watcher goroutine *)
  c_ctx : cerr }.       (* the context returned by Lock/TryLock *)

Definition store := etcd Z unit.
Record sys := mkSys { s_kv : store; s_cs : list cont }.

Definition sys_init : sys := mkSys etcd_init [].

Inductive label :=
| LNew (ttl : Z)
| LCall (i : nat) (o : lop)
| LAcq (i : nat)
| LPoll (i : nat)
| LVerify (i : nat)
| LTimeout (i : nat)
| LDelOwn (i : nat)
| LExit (i : nat)
| LUnlockTxn (i : nat)
| LClose (i : nat)
| LRevoke (l : Z)
| LTick (d : Z)
| LKeepAlive (i : nat)
| LWatch (i : nat)
| LAcqLost (i : nat)
| LCancel (i : nat)
| LAbort (i : nat).

Definition all_keys (_ : Z) : bool := true.

Definition set_pc (c : cont) (p : pc) : cont :=
  mkCont p (c_lease c) (c_rev c) (c_locked c) (c_sdone c) (c_w c) (c_ctx c).
Definition set_rev (c : cont) (r : Z) : cont :=
  mkCont (c_pc c) (c_lease c) r (c_locked c) (c_sdone c) (c_w c) (c_ctx c).
(* mutex.Lock returned nil: locked = true, watcher started, context returned *)
Definition acquire (c : cont) (r : Z) : cont :=
  mkCont Held (c_lease c) r true (c_sdone c) WWatching CtxLive.

Definition with_c (s : sys) (i : nat) (kv : store) (c : cont) : option sys :=
  Some (mkSys kv (upd i c (s_cs s))).

Definition step_acq (s : sys) (i : nat) (c : cont) (o : lop) : option sys :=
  let kv := s_kv s in
  let L := c_lease c in
  match e_put_if_absent Z.eqb kv L tt L with
  | None => with_c s i kv (set_pc c (Failed ErrLeaseNotFound))
  | Some (succ, kv') =>
      let my := if succ then e_rev kv' else e_create_rev Z.eqb kv' L in
      let owner := e_first_create kv' all_keys in
      let mine := match owner with None => true | Some x => Z.eqb (ek_create x) my end in
      if mine then with_c s i kv' (acquire c my)
      else with_c s i kv' (set_rev (set_pc c (match o with OpLock => Waiting | OpTry => TryDel end)) my)
  end.

Definition step (s : sys) (l : label) : option sys :=
  let kv := s_kv s in
  match l with
  | LNew ttl =>
      let '(id, kv') := e_grant kv ttl in
      Some (mkSys kv' (s_cs s ++ [mkCont Idle id (-1) false false WNone CtxLive]))
  | LRevoke lid => Some (mkSys (snd (e_revoke kv lid)) (s_cs s))
  | LTick d => if Z.ltb d 0 then None else Some (mkSys (e_tick kv d) (s_cs s))
  | LCall i o =>
      match nth_error (s_cs s) i with
      | Some c => match c_pc c with Idle => with_c s i kv (set_pc c (Called o)) | _ => None end
      | None => None
      end
  | LAcq i =>
      match nth_error (s_cs s) i with
      | Some c => match c_pc c with Called o => step_acq s i c o | _ => None end
      | None => None
      end
  | LPoll i =>
      match nth_error (s_cs s) i with
      | Some c =>
          match c_pc c with
          | Waiting =>
              match e_last_create_upto kv all_keys (c_rev c - 1) with
              | None => with_c s i kv (set_pc c Verify)
              | Some _ => Some s
              end
          | _ => None
          end
      | None => None
      end
  | LVerify i =>
      match nth_error (s_cs s) i with
      | Some c =>
          match c_pc c with
          | Verify =>
              match e_get Z.eqb kv (c_lease c) with
              | None => with_c s i kv (set_pc c (Failed ErrSessionExpired))
              | Some _ => with_c s i kv (acquire c (c_rev c))
              end
          | _ => None
          end
      | None => None
      end
  | LTimeout i =>
      match nth_error (s_cs s) i with
      | Some c =>
          match c_pc c with
          | Waiting | Verify => with_c s i kv (set_pc c TimingOut)
          | _ => None
          end
      | None => None
      end
  | LDelOwn i =>
      match nth_error (s_cs s) i with
      | Some c =>
          match c_pc c with
          | TimingOut => with_c s i (snd (e_delete Z.eqb kv (c_lease c))) (set_rev (set_pc c (Failed ErrDeadline)) (-1))
          | TryDel => with_c s i (snd (e_delete Z.eqb kv (c_lease c))) (set_rev (set_pc c (Failed ErrLocked)) (-1))
          | _ => None
          end
      | None => None
      end
  | LExit i =>
      match nth_error (s_cs s) i with
      | Some c =>
          match c_pc c with
          | Held | Failed _ =>
              with_c s i kv (mkCont Unlocking (c_lease c) (c_rev c) false (c_sdone c) (c_w c) (c_ctx c))
          | _ => None
          end
      | None => None
      end
  | LUnlockTxn i =>
      match nth_error (s_cs s) i with
      | Some c =>
          match c_pc c with
          | Unlocking => with_c s i (snd (e_delete_if_create Z.eqb kv (c_lease c) (c_rev c))) (set_pc c Closing)
          | _ => None
          end
      | None => None
      end
  | LClose i =>
      match nth_error (s_cs s) i with
      | Some c =>
          match c_pc c with
          | Closing =>
              with_c s i (snd (e_revoke kv (c_lease c)))
                     (mkCont Done (c_lease c) (c_rev c) (c_locked c) true (c_w c) (c_ctx c))
          | _ => None
          end
      | None => None
      end
  | LKeepAlive i =>
      match nth_error (s_cs s) i with
      | Some c =>
          if c_sdone c then None else
          let '(alive, kv') := e_keepalive kv (c_lease c) in
          if alive then with_c s i kv' c
          else with_c s i kv (mkCont (c_pc c) (c_lease c) (c_rev c) (c_locked c) true (c_w c) (c_ctx c))
      | None => None
      end
  | LAcqLost i =>
      match nth_error (s_cs s) i with
      | Some c =>
          match c_pc c with
          | Called _ =>
              match e_put_if_absent Z.eqb kv (c_lease c) tt (c_lease c) with
              | Some (_, kv') => with_c s i kv' (set_pc c (Failed ErrDeadline))
              | None => with_c s i kv (set_pc c (Failed ErrLeaseNotFound))
              end
          | _ => None
          end
      | None => None
      end
  | LAbort i =>
      match nth_error (s_cs s) i with
      | Some c => match c_pc c with Called _ => with_c s i kv (set_pc c (Failed ErrDeadline)) | _ => None end
      | None => None
      end
  | LCancel i =>
      match nth_error (s_cs s) i with
      | Some c =>
          match c_w c with
          | WCancelling => with_c s i kv (mkCont (c_pc c) (c_lease c) (c_rev c) (c_locked c) (c_sdone c) WExit (c_ctx c))
          | _ => None
          end
      | None => None
      end
  | LWatch i =>
      match nth_error (s_cs s) i with
      | Some c =>
          match c_w c with
          | WWatching =>
              if c_sdone c then
                if c_locked c
                then with_c s i kv (mkCont (c_pc c) (c_lease c) (c_rev c) (c_locked c) (c_sdone c) WCancelling CtxSessionDone)
                else with_c s i kv (mkCont (c_pc c) (c_lease c) (c_rev c) (c_locked c) (c_sdone c) WParked (c_ctx c))
              else None
          | _ => None
          end
      | None => None
      end
  end.

(* ---- observations used in the statements ---- *)
Definition pc_eqb (a b : pc) : bool :=
  match a, b with
  | Idle, Idle | Waiting, Waiting | Verify, Verify | TimingOut, TimingOut | TryDel, TryDel
  | Held, Held | Unlocking, Unlocking | Closing, Closing | Done, Done => true
  | Called o1, Called o2 => lop_eqb o1 o2
  | Failed e1, Failed e2 =>
      match e1, e2 with
      | ErrLocked, ErrLocked | ErrDeadline, ErrDeadline
      | ErrSessionExpired, ErrSessionExpired | ErrLeaseNotFound, ErrLeaseNotFound => true
      | _, _ => false
      end
  | _, _ => false
  end.

(* what an observer of the returned context sees *)
Definition ctx_view (c : cont) : cerr :=
  match c_ctx c, c_w c with
  | CtxSessionDone, WExit => CtxSessionDone
  | CtxSessionDone, _ => CtxErrOpen
  | x, _ => x
  end.

Definition lease_live (s : sys) (c : cont) : bool := e_lease_live (s_kv s) (c_lease c).
(* in its critical section, within its lease *)
Definition holds (s : sys) (c : cont) : bool := pc_eqb (c_pc c) Held && lease_live s c.
Definition holders (s : sys) : nat := countb (holds s) (s_cs s).
(* number of keys queued before contender c *)
Definition ahead (s : sys) (c : cont) : nat :=
  countb (fun x => Z.ltb (ek_create x) (c_rev c)) (e_kvs (s_kv s)).

(* ---- trace acceptor (correspondence) ----
   [muts]: the mutations of the keys under the prefix as reported by an etcd
   watch on the prefix (ground truth, in revision order); contenders are
   identified by the order in which their leases were granted.
   [log]: the client-visible events.  The acceptor merges the two sequences
   eagerly (a mutation is replayed as soon as the model enables it) and checks
   that every observed event is what the model produces. *)
Inductive mut := MPut (i : nat) | MDel (i : nat).

Record acc := mkAcc {
  a_sys : sys;
  a_lose : list nat;     (* revocations in flight *)
  a_in : list nat }.     (* contenders whose call has returned nil and who have not left *)

Definition pc_at (s : sys) (i : nat) : option pc :=
  match nth_error (s_cs s) i with Some c => Some (c_pc c) | None => None end.
Definition rev_of (s : sys) : Z := e_rev (s_kv s).
Definition lease_at (s : sys) (i : nat) : Z :=
  match nth_error (s_cs s) i with Some c => c_lease c | None => 0 end.

Definition bumped (s s' : sys) : bool := Z.eqb (rev_of s') (rev_of s + 1).
Definition same_rev (s s' : sys) : bool := Z.eqb (rev_of s') (rev_of s).

(* does the call of contender i return a failure (next event of i in the rest of the log)? *)
Fixpoint fails_next (i : nat) (l : list cev) : bool :=
  match l with
  | [] => false
  | e :: r => if Nat.eqb (ev_thread e) i
              then match e with EFail _ _ => true | ELose _ _ | ELost _ | ECtx _ _ => fails_next i r | _ => false end
              else fails_next i r
  end.

(* try to replay mutation m now; None = not (yet) enabled.  A deletion of the key
   of a waiting contender is its time-out path only if its call is going to fail
   (otherwise it is the deletion by its later Unlock and is not enabled yet). *)
Definition try_mut (a : acc) (m : mut) (l : list cev) : option acc :=
  let s := a_sys a in
  match m with
  | MPut i =>
      match pc_at s i with
      | Some (Called _) =>
          match step s (LAcq i) with
          | Some s' => if bumped s s' then Some (mkAcc s' (a_lose a) (a_in a)) else None
          | None => None
          end
      | _ => None
      end
  | MDel i =>
      match pc_at s i with
      | Some TryDel | Some TimingOut =>
          match step s (LDelOwn i) with
          | Some s' => if bumped s s' then Some (mkAcc s' (a_lose a) (a_in a)) else None
          | None => None
          end
      | Some Unlocking =>
          match step s (LUnlockTxn i) with
          | Some s' => if bumped s s' then Some (mkAcc s' (a_lose a) (a_in a)) else None
          | None => None
          end
      | Some (Failed _) =>
          (* a key left behind by a lost tryAcquire reply disappears when the caller's
             clean-up Unlock (not logged) closes the session: LExit, LUnlockTxn (no-op),
             LClose (revoke); only after the failure has been reported *)
          if fails_next i l then None else
          match step s (LExit i) with
          | Some s1 => match step s1 (LUnlockTxn i) with
                       | Some s2 => match step s2 (LClose i) with
                                    | Some s' => if bumped s s' then Some (mkAcc s' (a_lose a) (a_in a)) else None
                                    | None => None
                                    end
                       | None => None
                       end
          | None => None
          end
      | Some Waiting | Some Verify | Some Held =>
          if existsb (Nat.eqb i) (a_lose a) then
            match step s (LRevoke (lease_at s i)) with
            | Some s' => if bumped s s' then Some (mkAcc s' (filter (fun j => negb (Nat.eqb i j)) (a_lose a)) (a_in a)) else None
            | None => None
            end
          else
            match pc_at s i with
            | Some Waiting | Some Verify =>
                if negb (fails_next i l) then None else
                match step s (LTimeout i) with
                | Some s1 => match step s1 (LDelOwn i) with
                             | Some s' => if bumped s s' then Some (mkAcc s' (a_lose a) (a_in a)) else None
                             | None => None
                             end
                | None => None
                end
            | _ => None
            end
      | _ => None
      end
  end.

(* the alternative for a put whose reply is lost (the deadline fired inside the RPC
   after the server applied the txn): the call fails at once, the key stays *)
Definition try_mut_lost (a : acc) (m : mut) (l : list cev) : option acc :=
  let s := a_sys a in
  match m with
  | MPut i =>
      match pc_at s i with
      | Some (Called _) =>
          if fails_next i l then
            match step s (LAcqLost i) with
            | Some s' => if bumped s s' then Some (mkAcc s' (a_lose a) (a_in a)) else None
            | None => None
            end
          else None
      | _ => None
      end
  | MDel _ => None
  end.

Definition opt_bind {A B} (o : option A) (f : A -> option B) : option B :=
  match o with Some x => f x | None => None end.

(* bring contender i to the state in which its call returns *)
Definition settle_ret (s : sys) (i : nat) : option sys :=
  match pc_at s i with
  | Some Waiting => opt_bind (step s (LPoll i)) (fun s1 =>
                    match pc_at s1 i with Some Verify => step s1 (LVerify i) | _ => None end)
  | Some Verify => step s (LVerify i)
  | _ => Some s
  end.

Definition ferr_of (e : err) : ferr :=
  match e with
  | ErrLocked => FBusy | ErrDeadline => FTimeout | ErrSessionExpired => FExpired | ErrLeaseNotFound => FOther
  end.

(* helper threads of i run to quiescence: keepalive iteration, the watcher, its deferred cancel *)
Definition settle_ctx (s : sys) (i : nat) : sys :=
  let s1 := match step s (LKeepAlive i) with Some x => x | None => s end in
  let s2 := match step s1 (LWatch i) with Some x => x | None => s1 end in
  match step s2 (LCancel i) with Some x => x | None => s2 end.

Definition do_ev (a : acc) (e : cev) : option acc :=
  let s := a_sys a in
  match e with
  | ECall i o => opt_bind (step s (LCall i o)) (fun s' => Some (mkAcc s' (a_lose a) (a_in a)))
  | EEnter i =>
      opt_bind (settle_ret s i) (fun s' =>
      match pc_at s' i with
      | Some Held => if existsb (Nat.eqb i) (a_in a) then None else Some (mkAcc s' (a_lose a) (i :: a_in a))
      | _ => None
      end)
  | EFail i fe =>
      opt_bind (match pc_at s i with Some (Called _) => step s (LAbort i) | _ => settle_ret s i end) (fun s' =>
      match pc_at s' i with
      | Some (Failed e) => if ferr_eqb (ferr_of e) fe then Some (mkAcc s' (a_lose a) (a_in a)) else None
      | _ => None
      end)
  | EExit i =>
      if existsb (Nat.eqb i) (a_in a)
      then opt_bind (step s (LExit i)) (fun s' => Some (mkAcc s' (a_lose a) (filter (fun j => negb (Nat.eqb i j)) (a_in a))))
      else None
  | EURet i =>
      (* the unlock txn, if not yet replayed through a mutation, deleted nothing *)
      let s1 := match pc_at s i with
                | Some Unlocking => match step s (LUnlockTxn i) with
                                    | Some s' => if same_rev s s' then Some s' else None
                                    | None => None end
                | _ => Some s end in
      opt_bind s1 (fun s1 => opt_bind (step s1 (LClose i)) (fun s' =>
      if same_rev s1 s' then Some (mkAcc s' (a_lose a) (a_in a)) else None))
  | ELose i _ => Some (mkAcc s (i :: a_lose a) (a_in a))
  | ELost i => if existsb (Nat.eqb i) (a_lose a) then None else Some a
  | ECtx i c =>
      let s' := settle_ctx s i in
      match nth_error (s_cs s') i with
      | Some k => if cerr_eqb (ctx_view k) c then Some (mkAcc s' (a_lose a) (a_in a)) else None
      | None => None
      end
  end.

Fixpoint accept (fuel : nat) (a : acc) (muts : list mut) (l : list cev) : bool :=
  match fuel with
  | O => false
  | S f =>
      match muts with
      | m :: muts' =>
          match try_mut a m l with
          | Some a' =>
              accept f a' muts' l
              || match try_mut_lost a m l with Some a2 => accept f a2 muts' l | None => false end
          | None =>
              match l with
              | e :: l' => match do_ev a e with Some a' => accept f a' muts l' | None => false end
              | [] => false
              end
          end
      | [] =>
          match l with
          | e :: l' => match do_ev a e with Some a' => accept f a' [] l' | None => false end
          | [] => true
          end
      end
  end.

(* ---- correspondence cases ---- *)
Record case := mkCase {
  k_ttl : list Z;          (* session ttl (s) per contender, in lease-grant order *)
  k_tmo : list Z;          (* wait time-out (ms) per contender *)
  k_muts : list mut;
  k_log : log;
  k_bound : Z }.           (* C19: notification bound (ms) *)

Definition sys_of (ttls : list Z) : sys :=
  run_skip step sys_init (map LNew ttls).

Definition agree (c : case) : bool :=
  accept (S (length (k_muts c) + length (k_log c))) (mkAcc (sys_of (k_ttl c)) [] [])
         (k_muts c) (map snd (k_log c)).

Definition ok18 (c : case) : bool := c18_ok (length (k_ttl c)) (k_tmo c) (k_log c).
Definition ok19 (c : case) : bool := c19_ok (length (k_ttl c)) (k_bound c) (k_log c).
