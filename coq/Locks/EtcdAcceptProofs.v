(* Locks/EtcdAcceptProofs.v — soundness of the etcd trace acceptor with respect to
   the transition system, and the consequence that ties the three parts of C18
   together: a log (without injected losses) that the model can explain has no
   overlapping critical sections.  Hence an implementation run that violates
   mutual exclusion is necessarily also a model disagreement. *)
From Coq Require Import List Bool ZArith Lia Arith.
From Verif Require Import Base.KV Base.KVProofs Locks.Interleave Locks.InterleaveProofs
  Locks.LockLog Locks.EtcdLock Locks.EtcdLockProofs.
Import ListNotations.
Local Open Scope Z_scope.

Local Notation live kv l := (e_lease_live kv l = true).

(* labels the acceptor uses when no loss is injected; [ins] = contenders inside *)
Definition okl (ins : list nat) (l : label) : Prop :=
  match l with
  | LRevoke _ | LTick _ => False
  | LExit i => ~ In i ins
  | _ => True
  end.

Inductive path (ins : list nat) : sys -> sys -> Prop :=
| path_refl : forall s, path ins s s
| path_step : forall s l s1 s2, step s l = Some s1 -> okl ins l -> path ins s1 s2 -> path ins s s2.

Lemma path_one : forall ins s l s', step s l = Some s' -> okl ins l -> path ins s s'.
Proof. intros. eapply path_step; eauto. constructor. Qed.

Lemma path_trans : forall ins s1 s2 s3, path ins s1 s2 -> path ins s2 s3 -> path ins s1 s3.
Proof. intros ins s1 s2 s3 H. induction H; auto. intros. eapply path_step; eauto. Qed.

Lemma path_reachable : forall ins s s', path ins s s' -> reachable step sys_init s -> reachable step sys_init s'.
Proof. intros ins s s' H. induction H; auto. intros. apply IHpath. eapply reachable_step; eauto. Qed.

(* every contender that has not closed its session has a live lease *)
Definition all_live (s : sys) : Prop :=
  forall c, In c (s_cs s) -> c_pc c <> Done -> live (s_kv s) (c_lease c).
Definition held_in (ins : list nat) (s : sys) : Prop :=
  forall i, In i ins -> pc_at s i = Some Held.

Lemma all_live_upd : forall s i c c' kv',
  all_live s -> nth_error (s_cs s) i = Some c -> c_lease c' = c_lease c -> c_pc c <> Done ->
  (forall x, live (s_kv s) x -> live kv' x) ->
  all_live (mkSys kv' (upd i c' (s_cs s))).
Proof.
  intros s i c c' kv' Hal Hi El Hp Hl y Hy Hnd. simpl in *. apply In_upd in Hy. destruct Hy as [->|Hy].
  - rewrite El. apply Hl. apply Hal; auto. eapply nth_error_In; eauto.
  - apply Hl. apply Hal; auto.
Qed.

Ltac inv_nth2 H c Hc :=
  match type of H with
  | context [nth_error ?l ?i] => destruct (nth_error l i) as [c|] eqn:Hc; [|discriminate]
  end.

Lemma step_all_live : forall s l s',
  sys_ok s -> all_live s -> step s l = Some s' ->
  (forall x, l <> LRevoke x) -> (forall d, l <> LTick d) -> all_live s'.
Proof.
  intros s l s' Hok Hal H Hnr Hnt.
  pose proof Hok as (Hkv & Hnd & Hrange & Hcs).
  destruct l; unfold step in H; cbv zeta in H; try (exfalso; eapply Hnr; reflexivity);
    try (exfalso; eapply Hnt; reflexivity).
  - (* LNew *)
    destruct (e_grant (s_kv s) ttl) as [id kv'] eqn:Hg. inversion H; subst s'; clear H.
    destruct (grant_ok _ _ _ _ Hkv Hg) as (_ & _ & Hid & Hlive & _ & _).
    apply grant_shape in Hg. destruct Hg as (_ & _ & _ & Hl & _).
    intros c Hc Hnd'. simpl in *. apply in_app_or in Hc. destruct Hc as [Hc|[<-|[]]]; simpl; auto.
    apply live_iff. rewrite Hl. simpl. right. apply live_iff. apply Hal; auto.
  - (* LCall *)
    inv_nth2 H c Hc. destruct (c_pc c) eqn:Hpc; try discriminate.
    unfold with_c in H; inversion H; subst s'; clear H.
    eapply all_live_upd; eauto; congruence.
  - (* LAcq *)
    inv_nth2 H c Hc. destruct (c_pc c) eqn:Hpc; try discriminate.
    assert (Hin : In c (s_cs s)) by (eapply nth_error_In; eauto).
    destruct (Hrange c Hin) as [Hpos _].
    unfold step_acq, e_put_if_absent in H.
    destruct (e_get Z.eqb (s_kv s) (c_lease c)) eqn:Hg.
    + destruct (match e_first_create (s_kv s) all_keys with
                | Some x => ek_create x =? e_create_rev Z.eqb (s_kv s) (c_lease c) | None => true end);
        unfold with_c in H; inversion H; subst s'; clear H;
        (eapply all_live_upd; eauto; congruence).
    + destruct (e_put Z.eqb (s_kv s) (c_lease c) tt (c_lease c)) as [kv'|] eqn:Hp.
      * destruct (put_new_ok _ _ _ Hkv Hpos Hg Hp) as (_ & _ & _ & _ & Hl').
        destruct (match e_first_create kv' all_keys with
                  | Some x => ek_create x =? e_rev kv' | None => true end);
          unfold with_c in H; inversion H; subst s'; clear H;
          (eapply all_live_upd; eauto; try congruence; try (intros x Lx; rewrite Hl'; auto)).
      * unfold with_c in H; inversion H; subst s'; clear H.
        eapply all_live_upd; eauto; congruence.
  - (* LPoll *)
    inv_nth2 H c Hc. destruct (c_pc c) eqn:Hpc; try discriminate.
    destruct (e_last_create_upto (s_kv s) all_keys (c_rev c - 1)).
    + inversion H; subst; auto.
    + unfold with_c in H; inversion H; subst s'; clear H.
      eapply all_live_upd; eauto; congruence.
  - (* LVerify *)
    inv_nth2 H c Hc. destruct (c_pc c) eqn:Hpc; try discriminate.
    destruct (e_get Z.eqb (s_kv s) (c_lease c)); unfold with_c in H; inversion H; subst s'; clear H;
      (eapply all_live_upd; eauto; congruence).
  - (* LTimeout *)
    inv_nth2 H c Hc. destruct (c_pc c) eqn:Hpc; try discriminate;
      unfold with_c in H; inversion H; subst s'; clear H;
      (eapply all_live_upd; eauto; congruence).
  - (* LDelOwn *)
    inv_nth2 H c Hc.
    destruct (e_delete Z.eqb (s_kv s) (c_lease c)) as [n kv'] eqn:Hd.
    destruct (delete_ok _ _ _ _ Hkv Hd) as (_ & _ & _ & Hl').
    destruct (c_pc c) eqn:Hpc; try discriminate;
      unfold with_c in H; simpl in H; inversion H; subst s'; clear H;
      (eapply all_live_upd; eauto; try congruence; try (intros x Lx; rewrite Hl'; auto)).
  - (* LExit *)
    inv_nth2 H c Hc. destruct (c_pc c) eqn:Hpc; try discriminate;
      unfold with_c in H; inversion H; subst s'; clear H;
      (eapply all_live_upd; eauto; congruence).
  - (* LUnlockTxn *)
    inv_nth2 H c Hc. destruct (c_pc c) eqn:Hpc; try discriminate.
    unfold with_c in H; inversion H; subst s'; clear H.
    assert (Hl' : forall x, live (s_kv s) x ->
                  live (snd (e_delete_if_create Z.eqb (s_kv s) (c_lease c) (c_rev c))) x).
    { intros x Lx. unfold e_delete_if_create. destruct (Z.eqb _ _); simpl; auto.
      destruct (e_delete Z.eqb (s_kv s) (c_lease c)) as [n kv'] eqn:Hd.
      destruct (delete_ok _ _ _ _ Hkv Hd) as (_ & _ & _ & Hl'). simpl. rewrite Hl'. auto. }
    eapply all_live_upd; eauto; congruence.
  - (* LClose *)
    inv_nth2 H c Hc. destruct (c_pc c) eqn:Hpc; try discriminate.
    unfold with_c in H; inversion H; subst s'; clear H.
    intros y Hy Hnd'. simpl in *.
    apply In_nth_error in Hy. destruct Hy as [j Hj]. apply nth_error_upd in Hj.
    destruct Hj as [[_ ->]|[Hne Hj]]; [simpl in Hnd'; congruence|].
    assert (Hyin : In y (s_cs s)) by (eapply nth_error_In; eauto).
    assert (Hlne : c_lease y <> c_lease c).
    { intro E. apply Hne. symmetry. eapply NoDup_map_nth; eauto. }
    unfold e_revoke. destruct (e_lease_live (s_kv s) (c_lease c)); simpl; [|apply Hal; auto].
    rewrite detach_live. rewrite (Hal y Hyin Hnd'). simpl. apply negb_true_iff. apply Z.eqb_neq. auto.
  - (* LKeepAlive *)
    inv_nth2 H c Hc. destruct (c_sdone c); [discriminate|].
    destruct (e_keepalive (s_kv s) (c_lease c)) as [alive kv'] eqn:Hka.
    destruct (keepalive_ok _ _ _ _ Hkv Hka) as (_ & _ & _ & Hl' & Hb).
    assert (Hin : In c (s_cs s)) by (eapply nth_error_In; eauto).
    destruct alive; unfold with_c in H; inversion H; subst s'; clear H.
    + intros y Hy Hnd'. simpl in *. apply In_upd in Hy. rewrite Hl'. destruct Hy as [->|Hy]; apply Hal; auto.
    + intros y Hy Hnd'. simpl in *. apply In_upd in Hy. destruct Hy as [->|Hy]; [|apply Hal; auto].
      simpl in *. apply Hal; auto.
  - (* LWatch *)
    inv_nth2 H c Hc. destruct (c_w c); try discriminate. destruct (c_sdone c); [|discriminate].
    assert (Hin : In c (s_cs s)) by (eapply nth_error_In; eauto).
    destruct (c_locked c); unfold with_c in H; inversion H; subst s'; clear H;
      (intros y Hy Hnd'; simpl in *; apply In_upd in Hy; destruct Hy as [->|Hy]; [|apply Hal; auto];
       simpl in *; apply Hal; auto).
  - (* LAcqLost *)
    inv_nth2 H c Hc. destruct (c_pc c) eqn:Hpc; try discriminate.
    assert (Hin : In c (s_cs s)) by (eapply nth_error_In; eauto).
    destruct (Hrange c Hin) as [Hpos _].
    unfold e_put_if_absent in H.
    destruct (e_get Z.eqb (s_kv s) (c_lease c)) eqn:Hg.
    + unfold with_c in H; inversion H; subst s'; clear H. eapply all_live_upd; eauto; congruence.
    + destruct (e_put Z.eqb (s_kv s) (c_lease c) tt (c_lease c)) as [kv'|] eqn:Hp;
        unfold with_c in H; inversion H; subst s'; clear H.
      * destruct (put_new_ok _ _ _ Hkv Hpos Hg Hp) as (_ & _ & _ & _ & Hl').
        eapply all_live_upd; eauto; try congruence; try (intros x Lx; rewrite Hl'; auto).
      * eapply all_live_upd; eauto; congruence.
  - (* LCancel *)
    inv_nth2 H c Hc. destruct (c_w c); try discriminate.
    assert (Hin : In c (s_cs s)) by (eapply nth_error_In; eauto).
    unfold with_c in H; inversion H; subst s'; clear H.
    intros y Hy Hnd'; simpl in *; apply In_upd in Hy; destruct Hy as [->|Hy]; [|apply Hal; auto].
    simpl in *; apply Hal; auto.
  - (* LAbort *)
    inv_nth2 H c Hc. destruct (c_pc c) eqn:Hpc; try discriminate.
    unfold with_c in H; inversion H; subst s'; clear H.
    eapply all_live_upd; eauto; congruence.
Qed.

Lemma pc_at_upd : forall s kv' j c' i,
  (j < length (s_cs s))%nat ->
  pc_at (mkSys kv' (upd j c' (s_cs s))) i = if Nat.eqb i j then Some (c_pc c') else pc_at s i.
Proof.
  intros s kv' j c' i Hlen. unfold pc_at; simpl. destruct (Nat.eqb i j) eqn:E.
  - apply Nat.eqb_eq in E. subst. rewrite nth_error_upd_same; auto.
  - apply Nat.eqb_neq in E. rewrite nth_error_upd_other; auto.
Qed.

(* only its own LExit takes a contender out of Held *)
Lemma held_stable : forall s l s' i,
  step s l = Some s' -> pc_at s i = Some Held -> l <> LExit i -> pc_at s' i = Some Held.
Proof.
  intros s l s' i H Hh Hne.
  assert (Hpc : forall c, nth_error (s_cs s) i = Some c -> c_pc c = Held).
  { intros c Hc. unfold pc_at in Hh. rewrite Hc in Hh. congruence. }
  destruct l; unfold step in H; cbv zeta in H;
    try (inv_nth2 H c Hc;
         assert (Hlen : (i0 < length (s_cs s))%nat) by (apply nth_error_Some; congruence)).
  - destruct (e_grant (s_kv s) ttl). inversion H; subst s'. unfold pc_at in *; simpl.
    destruct (nth_error (s_cs s) i) eqn:E; [|discriminate]. rewrite nth_error_app1; [rewrite E; auto|].
    apply nth_error_Some. congruence.
  - destruct (c_pc c) eqn:P; try discriminate. unfold with_c in H; inversion H; subst s'.
    rewrite pc_at_upd by auto. destruct (Nat.eqb i i0) eqn:E; auto.
    apply Nat.eqb_eq in E; subst. rewrite (Hpc c Hc) in P. discriminate.
  - destruct (c_pc c) eqn:P; try discriminate.
    destruct (Nat.eqb i i0) eqn:E; [apply Nat.eqb_eq in E; subst; rewrite (Hpc c Hc) in P; discriminate|].
    unfold step_acq in H.
    repeat match type of H with
           | match ?x with _ => _ end = Some _ => destruct x; try discriminate
           | (if ?b then _ else _) = Some _ => destruct b
           end; unfold with_c in H; inversion H; subst s'; rewrite pc_at_upd by auto; rewrite E; auto.
  - destruct (c_pc c) eqn:P; try discriminate.
    destruct (Nat.eqb i i0) eqn:E; [apply Nat.eqb_eq in E; subst; rewrite (Hpc c Hc) in P; discriminate|].
    destruct (e_last_create_upto (s_kv s) all_keys (c_rev c - 1)); [inversion H; subst; auto|].
    unfold with_c in H; inversion H; subst s'; rewrite pc_at_upd by auto; rewrite E; auto.
  - destruct (c_pc c) eqn:P; try discriminate.
    destruct (Nat.eqb i i0) eqn:E; [apply Nat.eqb_eq in E; subst; rewrite (Hpc c Hc) in P; discriminate|].
    destruct (e_get Z.eqb (s_kv s) (c_lease c)); unfold with_c in H; inversion H; subst s';
      rewrite pc_at_upd by auto; rewrite E; auto.
  - destruct (Nat.eqb i i0) eqn:E;
      [apply Nat.eqb_eq in E; subst; rewrite (Hpc c Hc) in H; discriminate|].
    destruct (c_pc c); try discriminate; unfold with_c in H; inversion H; subst s';
      rewrite pc_at_upd by auto; rewrite E; auto.
  - destruct (Nat.eqb i i0) eqn:E;
      [apply Nat.eqb_eq in E; subst; rewrite (Hpc c Hc) in H; discriminate|].
    destruct (c_pc c); try discriminate; unfold with_c in H; inversion H; subst s';
      rewrite pc_at_upd by auto; rewrite E; auto.
  - destruct (Nat.eqb i i0) eqn:E; [apply Nat.eqb_eq in E; subst; congruence|].
    destruct (c_pc c); try discriminate; unfold with_c in H; inversion H; subst s';
      rewrite pc_at_upd by auto; rewrite E; auto.
  - destruct (Nat.eqb i i0) eqn:E;
      [apply Nat.eqb_eq in E; subst; rewrite (Hpc c Hc) in H; discriminate|].
    destruct (c_pc c); try discriminate; unfold with_c in H; inversion H; subst s';
      rewrite pc_at_upd by auto; rewrite E; auto.
  - destruct (Nat.eqb i i0) eqn:E;
      [apply Nat.eqb_eq in E; subst; rewrite (Hpc c Hc) in H; discriminate|].
    destruct (c_pc c); try discriminate; unfold with_c in H; inversion H; subst s';
      rewrite pc_at_upd by auto; rewrite E; auto.
  - inversion H; subst s'. exact Hh.
  - destruct (Z.ltb d 0); [discriminate|]. inversion H; subst s'. exact Hh.
  - destruct (c_sdone c); [discriminate|].
    destruct (e_keepalive (s_kv s) (c_lease c)) as [[|] kv']; unfold with_c in H; inversion H; subst s';
      rewrite pc_at_upd by auto; destruct (Nat.eqb i i0) eqn:E; auto;
      apply Nat.eqb_eq in E; subst; simpl; rewrite <- (Hpc c Hc); auto.
  - destruct (c_w c); try discriminate. destruct (c_sdone c); [|discriminate].
    destruct (c_locked c); unfold with_c in H; inversion H; subst s';
      rewrite pc_at_upd by auto; destruct (Nat.eqb i i0) eqn:E; auto;
      apply Nat.eqb_eq in E; subst; simpl; rewrite <- (Hpc c Hc); auto.
  - destruct (c_pc c) eqn:P; try discriminate.
    destruct (Nat.eqb i i0) eqn:E; [apply Nat.eqb_eq in E; subst; rewrite (Hpc c Hc) in P; discriminate|].
    destruct (e_put_if_absent Z.eqb (s_kv s) (c_lease c) tt (c_lease c)) as [[b kv']|];
      unfold with_c in H; inversion H; subst s'; rewrite pc_at_upd by auto; rewrite E; auto.
  - destruct (c_w c); try discriminate.
    unfold with_c in H; inversion H; subst s';
      rewrite pc_at_upd by auto; destruct (Nat.eqb i i0) eqn:E; auto;
      apply Nat.eqb_eq in E; subst; simpl; rewrite <- (Hpc c Hc); auto.
  - destruct (c_pc c) eqn:P; try discriminate.
    destruct (Nat.eqb i i0) eqn:E; [apply Nat.eqb_eq in E; subst; rewrite (Hpc c Hc) in P; discriminate|].
    unfold with_c in H; inversion H; subst s'; rewrite pc_at_upd by auto; rewrite E; auto.
Qed.

Lemma okl_not_exit : forall ins l i, okl ins l -> In i ins -> l <> LExit i.
Proof. intros ins l i H Hi E. subst l. simpl in H. auto. Qed.

Record pinv (ins : list nat) (s : sys) : Prop := mkPinv {
  p_reach : reachable step sys_init s;
  p_live : all_live s;
  p_held : held_in ins s }.

Lemma path_pinv : forall ins s s', path ins s s' -> pinv ins s -> pinv ins s'.
Proof.
  intros ins s s' H. induction H; auto. intros [R L Hd]. apply IHpath.
  assert (Hok : sys_ok s) by (apply reachable_ok; auto).
  split.
  - eapply reachable_step; eauto.
  - eapply step_all_live; eauto; intros x E; subst l; simpl in H0; auto.
  - intros i Hi. eapply held_stable; eauto. eapply okl_not_exit; eauto.
Qed.

(* at most one contender is inside: the inside list has at most one element *)
Lemma pinv_inside_le_one : forall ins s, pinv ins s -> NoDup ins -> (length ins <= 1)%nat.
Proof.
  intros ins s [R L Hd] Hnd.
  destruct ins as [|i [|j t]]; simpl; try lia. exfalso.
  assert (Hi : pc_at s i = Some Held) by (apply Hd; simpl; auto).
  assert (Hj : pc_at s j = Some Held) by (apply Hd; simpl; auto).
  unfold pc_at in *.
  destruct (nth_error (s_cs s) i) as [a|] eqn:Ea; [|discriminate].
  destruct (nth_error (s_cs s) j) as [b|] eqn:Eb; [|discriminate].
  inversion Hi. inversion Hj.
  assert (i = j).
  { eapply etcd_mutex; eauto; apply holds_spec; split; auto; apply L; eauto using nth_error_In; congruence. }
  subst. inversion Hnd. apply H3. left; auto.
Qed.

(* ---- the acceptor only ever moves along paths of the transition system ---- *)
Record ainv (a : acc) : Prop := mkAinv {
  ai_p : pinv (a_in a) (a_sys a);
  ai_lose : a_lose a = [];
  ai_nd : NoDup (a_in a) }.

Ltac crack H :=
  repeat match type of H with
  | match ?x with _ => _ end = Some _ => let E := fresh "E" in destruct x eqn:E; try discriminate
  | (if ?b then _ else _) = Some _ => let E := fresh "E" in destruct b eqn:E; try discriminate
  | opt_bind ?o _ = Some _ => let E := fresh "E" in destruct o eqn:E; cbn [opt_bind] in H; try discriminate
  end.

Lemma okl_plain : forall ins l,
  match l with LRevoke _ | LTick _ | LExit _ => False | _ => True end -> okl ins l.
Proof. intros ins l H. destruct l; simpl in *; auto; contradiction. Qed.

Ltac solve_path :=
  first [ apply path_refl
        | eapply path_one; [eassumption|simpl; auto]
        | eapply path_step; [eassumption|simpl; auto|solve_path] ].

Lemma failed_not_inside : forall a i e, ainv a -> pc_at (a_sys a) i = Some (Failed e) -> ~ In i (a_in a).
Proof.
  intros a i e [P _ _] Hp Hi. destruct P as [_ _ Hd]. rewrite (Hd i Hi) in Hp. discriminate.
Qed.

Lemma try_mut_ainv : forall a m l a', try_mut a m l = Some a' -> ainv a -> ainv a' /\ a_in a' = a_in a.
Proof.
  intros a m l a' H Hinv. pose proof Hinv as [P Lo Nd]. unfold try_mut in H. rewrite Lo in H. cbn [existsb] in H.
  destruct m; crack H; inversion H; subst a'; cbn [a_sys a_lose a_in]; (split; [|reflexivity]);
    (split; cbn [a_sys a_lose a_in]; auto);
    (eapply path_pinv; [|exact P]);
    try solve_path.
  (* the clean-up of a key left by a lost reply: LExit of a failed contender *)
  eapply failed_not_inside; eauto.
Qed.

Lemma try_mut_lost_ainv : forall a m l a', try_mut_lost a m l = Some a' -> ainv a -> ainv a' /\ a_in a' = a_in a.
Proof.
  intros a m l a' H [P Lo Nd]. unfold try_mut_lost in H.
  destruct m; crack H; inversion H; subst a'; cbn [a_sys a_lose a_in]; (split; [|reflexivity]);
    (split; cbn [a_sys a_lose a_in]; auto);
    (eapply path_pinv; [|exact P]); solve_path.
Qed.

Lemma settle_ret_path : forall ins s i s', settle_ret s i = Some s' -> path ins s s'.
Proof.
  intros ins s i s' H. unfold settle_ret in H. crack H; try (inversion H; subst; constructor).
  - eapply path_step; [eauto|simpl; auto|]. eapply path_one; eauto. simpl; auto.
  - eapply path_one; eauto. simpl; auto.
Qed.

Lemma try_step_path : forall ins s l,
  okl ins l -> path ins s (match step s l with Some x => x | None => s end).
Proof. intros ins s l H. destruct (step s l) eqn:E; [eapply path_one; eauto|constructor]. Qed.

Lemma settle_ctx_path : forall ins s i, path ins s (settle_ctx s i).
Proof.
  intros ins s i. unfold settle_ctx.
  eapply path_trans; [apply (try_step_path ins s (LKeepAlive i)); simpl; auto|].
  eapply path_trans; [apply (try_step_path ins _ (LWatch i)); simpl; auto|].
  apply (try_step_path ins _ (LCancel i)); simpl; auto.
Qed.

Lemma pinv_weaken : forall ins ins' s, (forall i, In i ins' -> In i ins) -> pinv ins s -> pinv ins' s.
Proof. intros ins ins' s H [R L Hd]. split; auto. intros i Hi. apply Hd. auto. Qed.

Definition not_lose (e : cev) : Prop := match e with ELose _ _ => False | _ => True end.

Definition next_in (ins : list nat) (e : cev) : list nat :=
  match e with
  | EEnter i => i :: ins
  | EExit i => filter (fun j => negb (Nat.eqb i j)) ins
  | _ => ins
  end.

Lemma existsb_nat_false : forall i l, existsb (Nat.eqb i) l = false -> ~ In i l.
Proof.
  intros i l H Hi. assert (existsb (Nat.eqb i) l = true); [|congruence].
  apply existsb_exists. exists i. split; auto. apply Nat.eqb_refl.
Qed.

Lemma do_ev_ainv : forall a e a', do_ev a e = Some a' -> not_lose e -> ainv a ->
  ainv a' /\ a_in a' = next_in (a_in a) e.
Proof.
  intros a e a' H Hnl [P Lo Nd]. destruct e; simpl in Hnl; try contradiction; unfold do_ev in H; cbn [next_in].
  - (* ECall *)
    crack H. inversion H; subst a'; cbn [a_sys a_lose a_in]. split; [|reflexivity].
    split; cbn [a_sys a_lose a_in]; auto. eapply path_pinv; [|exact P]. solve_path.
  - (* EEnter *)
    crack H. inversion H; subst a'; cbn [a_sys a_lose a_in]. split; [|reflexivity].
    assert (P' : pinv (a_in a) s) by (eapply path_pinv; [eapply settle_ret_path; eauto|exact P]).
    split; cbn [a_sys a_lose a_in]; auto.
    + destruct P' as [R L Hd]. split; auto. intros j [<-|Hj]; auto.
    + constructor; auto. apply existsb_nat_false; auto.
  - (* EFail *)
    crack H. inversion H; subst a'; cbn [a_sys a_lose a_in]. split; [|reflexivity].
    split; cbn [a_sys a_lose a_in]; auto. eapply path_pinv; [|exact P].
    match goal with E : match pc_at _ _ with _ => _ end = Some _ |- _ =>
      destruct (pc_at (a_sys a) i) as [[]|] in E; first [ solve_path | eapply settle_ret_path; exact E ]
    end.
  - (* EExit *)
    crack H. inversion H; subst a'; cbn [a_sys a_lose a_in]. split; [|reflexivity].
    set (ins' := filter (fun j => negb (Nat.eqb i j)) (a_in a)).
    assert (Hsub : forall j, In j ins' -> In j (a_in a)) by (intros j Hj; apply filter_In in Hj; tauto).
    assert (Hni : ~ In i ins').
    { intro Hi. apply filter_In in Hi. destruct Hi as [_ Hi]. rewrite Nat.eqb_refl in Hi. discriminate. }
    split; cbn [a_sys a_lose a_in]; auto.
    + eapply path_pinv; [|eapply pinv_weaken; [exact Hsub|exact P]].
      eapply path_one; [eassumption|simpl; exact Hni].
    + apply NoDup_filter. auto.
  - (* EURet *)
    crack H; inversion H; subst a'; cbn [a_sys a_lose a_in]; (split; [|reflexivity]);
      (split; cbn [a_sys a_lose a_in]; auto); (eapply path_pinv; [|exact P]).
    all: match goal with E : match pc_at _ _ with _ => _ end = Some _ |- _ => crack E; inversion E; subst end; solve_path.
  - (* ELost *)
    crack H. inversion H; subst a'. split; [split; auto|reflexivity].
  - (* ECtx *)
    crack H. inversion H; subst a'; cbn [a_sys a_lose a_in]. split; [|reflexivity].
    split; cbn [a_sys a_lose a_in]; auto. eapply path_pinv; [apply settle_ctx_path|exact P].
Qed.

Fixpoint no_lose (l : log) : Prop :=
  match l with
  | [] => True
  | (_, e) :: r => not_lose e /\ no_lose r
  end.

Lemma mutex_scan_step : forall t e r ins,
  (match e with EEnter _ => ins = [] | _ => True end) ->
  mutex_scan ((t, e) :: r) ins = mutex_scan r (next_in ins e).
Proof.
  intros t e r ins H. destruct e; simpl; auto. subst ins. reflexivity.
Qed.

(* a log (without injected losses) explained by the model has no two overlapping
   critical sections *)
Theorem accept_mutex : forall fuel a muts (l : log),
  accept fuel a muts (map snd l) = true -> ainv a -> no_lose l -> mutex_scan l (a_in a) = true.
Proof.
  induction fuel as [|f IH]; intros a muts l H Hinv Hnl; simpl in H; [discriminate|].
  assert (Hev : forall e r (l0 : log) muts0, l = e :: l0 -> r = map snd l0 ->
            forall a', do_ev a (snd e) = Some a' -> accept f a' muts0 r = true ->
            mutex_scan l (a_in a) = true).
  { intros [t e] r l0 muts0 -> -> a' Hd Hacc. destruct Hnl as [Hn1 Hn2]. simpl in Hd.
    destruct (do_ev_ainv _ _ _ Hd Hn1 Hinv) as [Hinv' Hin'].
    rewrite mutex_scan_step.
    - rewrite <- Hin'. eapply IH; eauto.
    - destruct e; auto.
      (* entering: the inside list must have been empty *)
      destruct Hinv' as [P' _ Nd']. rewrite Hin' in *. cbn [next_in] in *.
      pose proof (pinv_inside_le_one _ _ P' Nd') as Hlen. simpl in Hlen.
      destruct (a_in a); auto. simpl in Hlen. lia. }
  destruct muts as [|m muts'].
  - destruct l as [|e l0]; [reflexivity|]. simpl in H.
    destruct (do_ev a (snd e)) as [a'|] eqn:Hd; [|discriminate]. eapply Hev; eauto.
  - destruct (try_mut a m (map snd l)) as [a1|] eqn:Hm.
    + apply orb_true_iff in H. destruct H as [H|H].
      * destruct (try_mut_ainv _ _ _ _ Hm Hinv) as [Hinv1 Hin1]. rewrite <- Hin1. eapply IH; eauto.
      * destruct (try_mut_lost a m (map snd l)) as [a2|] eqn:Hm2; [|discriminate].
        destruct (try_mut_lost_ainv _ _ _ _ Hm2 Hinv) as [Hinv2 Hin2]. rewrite <- Hin2. eapply IH; eauto.
    + destruct l as [|e l0]; [discriminate|]. simpl in H.
      destruct (do_ev a (snd e)) as [a'|] eqn:Hd; [|discriminate]. eapply Hev; eauto.
Qed.

Lemma run_skip_path : forall ls s,
  (forall l, In l ls -> okl [] l) -> path [] s (run_skip step s ls).
Proof.
  induction ls as [|l t IH]; intros s H; simpl; [constructor|].
  destruct (step s l) as [s'|] eqn:E.
  - eapply path_step; [eauto|apply H; left; auto|]. apply IH. intros; apply H; right; auto.
  - apply IH. intros; apply H; right; auto.
Qed.

Lemma init_ainv : forall ttls, ainv (mkAcc (sys_of ttls) [] []).
Proof.
  intros ttls. split; cbn [a_sys a_lose a_in]; auto; [|constructor].
  unfold sys_of. eapply path_pinv.
  - apply run_skip_path. intros l Hl. apply in_map_iff in Hl. destruct Hl as [x [<- _]]. simpl; auto.
  - split.
    + apply reachable_refl.
    + intros c [].
    + intros i [].
Qed.

(* the tie: agreement with the model implies the mutual-exclusion clause of C18_ok *)
Theorem etcd_agree_implies_mutex_ok : forall c,
  agree c = true -> no_lose (k_log c) -> mutex_ok (k_log c) = true.
Proof.
  intros c H Hnl. unfold agree in H. unfold mutex_ok.
  apply (accept_mutex _ _ _ _ H (init_ainv (k_ttl c)) Hnl).
Qed.
