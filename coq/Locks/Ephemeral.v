(* Locks/Ephemeral.v — models of the ephemeral registrations
     store/etcdv3/meta/ephemeral.go : ETCD.StartEphemeral
     store/redis/ephemeral.go       : Rediaron.StartEphemeral, refreshEphemeral, revokeEphemeral
   over Base/KV's abstract etcd / redis.  One key ("path").  Executable, no proofs
   (EphemeralProofs.v).

   etcd (registrant i)                                    model step
   ----------------------------------------------------   ------------------
   a new registrant (heartbeat given)                     GNew ttl
   lease := Grant(heartbeat/second)                       GGrant i
   Txn If(Version(path)=0) Then(Put(path,"",lease)):      GPut i
     !Succeeded -> ErrKeyExists (the lease is left to
     expire); else goroutine + expiry channel
   ticker (heartbeat/3): KeepAliveOnce(lease); error ->   GTick i
     return (deferred: Revoke(lease); close(expiry))
   stop(): cancel() -> ctx.Done() -> return (same defers) GStop i
   deferred Revoke(lease), then close(expiry)             GRevokeOwn i
   a third party revokes lease l                          GLapse l
   the clock advances; leases past their deadline expire  GTime d

   redis (registrant i)                                   model step
   ----------------------------------------------------   ------------------
   a new registrant                                       QNew ttl
   SETNX path "__aaron__" ttl: false -> ErrKeyExists      QReg i
   ticker: EXPIRE path ttl (error only if the call        QTick i
     itself fails: never in the model).  go-redis
     v8 Expire sends whole seconds (formatSec: a
     duration in (0,1s) becomes 1, otherwise it is
     truncated), SetNX sends exact milliseconds
   stop(): cancel() -> ctx.Done() -> DEL path; close      QStop i
   the clock advances; keys past their TTL disappear      QTime d

   The redis value is the constant "__aaron__"; the model stores instead the
   index of the registrant whose SETNX created the key (a ghost: no model step
   reads it), which is what "a registration created by someone else" refers to. *)
From Coq Require Import List Bool ZArith Arith.
From Verif Require Import Base.KV Locks.Interleave.
Import ListNotations.
Local Open Scope Z_scope.

Definition ueq (_ _ : unit) : bool := true.

(* ------------------------------------------------------------------ etcd *)
Inductive rej := KeyExists | OtherErr.
Inductive epc := EInit | EGranted | EActive | ERevoking | EClosed | ERejected (e : rej).

Record ereg := mkEreg { g_pc : epc; g_lease : Z; g_ttl : Z }.
Definition estore := etcd unit unit.
Record esys := mkES { es_kv : estore; es_rs : list ereg }.
Definition esys_init : esys := mkES etcd_init [].

Inductive elabel :=
| GNew (ttl : Z)
| GGrant (i : nat)
| GPut (i : nat)
| GTick (i : nat)
| GStop (i : nat)
| GRevokeOwn (i : nat)
| GLapse (l : Z)
| GTime (d : Z).

Definition eset (g : ereg) (p : epc) : ereg := mkEreg p (g_lease g) (g_ttl g).
Definition ewith (s : esys) (i : nat) (kv : estore) (g : ereg) : option esys :=
  Some (mkES kv (upd i g (es_rs s))).

Definition can_register (p : epc) : bool :=
  match p with EInit | EClosed | ERejected _ => true | _ => false end.

Definition estep (s : esys) (l : elabel) : option esys :=
  let kv := es_kv s in
  match l with
  | GNew ttl => Some (mkES kv (es_rs s ++ [mkEreg EInit 0 ttl]))
  | GLapse lid => Some (mkES (snd (e_revoke kv lid)) (es_rs s))
  | GTime d => if Z.ltb d 0 then None else Some (mkES (e_tick kv d) (es_rs s))
  | GGrant i =>
      match nth_error (es_rs s) i with
      | Some g =>
          if can_register (g_pc g) then
            let '(id, kv') := e_grant kv (g_ttl g) in ewith s i kv' (mkEreg EGranted id (g_ttl g))
          else None
      | None => None
      end
  | GPut i =>
      match nth_error (es_rs s) i with
      | Some g =>
          match g_pc g with
          | EGranted =>
              match e_put_if_absent ueq kv tt tt (g_lease g) with
              | Some (true, kv') => ewith s i kv' (eset g EActive)
              | Some (false, _) => ewith s i kv (eset g (ERejected KeyExists))
              | None => ewith s i kv (eset g (ERejected OtherErr))
              end
          | _ => None
          end
      | None => None
      end
  | GTick i =>
      match nth_error (es_rs s) i with
      | Some g =>
          match g_pc g with
          | EActive =>
              let '(alive, kv') := e_keepalive kv (g_lease g) in
              if alive then ewith s i kv' g else ewith s i kv (eset g ERevoking)
          | _ => None
          end
      | None => None
      end
  | GStop i =>
      match nth_error (es_rs s) i with
      | Some g => match g_pc g with EActive => ewith s i kv (eset g ERevoking) | _ => None end
      | None => None
      end
  | GRevokeOwn i =>
      match nth_error (es_rs s) i with
      | Some g =>
          match g_pc g with
          | ERevoking => ewith s i (snd (e_revoke kv (g_lease g))) (eset g EClosed)
          | _ => None
          end
      | None => None
      end
  end.

(* the registrant believes it holds the key: its expiry channel is open *)
Definition e_believes (g : ereg) : bool :=
  match g_pc g with EActive | ERevoking => true | _ => false end.
Definition e_live (s : esys) (g : ereg) : bool := e_lease_live (es_kv s) (g_lease g).
Definition e_holds (s : esys) (g : ereg) : bool := e_believes g && e_live s g.
Definition e_key (s : esys) : option (ekv unit unit) := e_get ueq (es_kv s) tt.
Definition e_owner_lease (s : esys) : option Z :=
  match e_key s with Some x => Some (ek_lease x) | None => None end.

(* ----------------------------------------------------------------- redis *)
Inductive spc := SInit | SActive | SClosed | SRejected.
Record sreg := mkSreg { q_pc : spc; q_ttl : Z }.
Definition sstore := redis unit nat.
Record ssys := mkSS { ss_kv : sstore; ss_rs : list sreg }.
Definition ssys_init : ssys := mkSS redis_init [].

Inductive slabel :=
| QNew (ttl : Z)
| QReg (i : nat)
| QTick (i : nat)
| QStop (i : nat)
| QTime (d : Z).

(* go-redis formatSec, in milliseconds *)
Definition refresh_ms (ttl : Z) : Z :=
  if Z.ltb 0 ttl && Z.ltb ttl 1000 then 1000 else Z.quot ttl 1000 * 1000.

Definition swith (s : ssys) (i : nat) (kv : sstore) (g : sreg) : option ssys :=
  Some (mkSS kv (upd i g (ss_rs s))).
Definition s_can_register (p : spc) : bool :=
  match p with SInit | SClosed | SRejected => true | _ => false end.

Definition sstep (s : ssys) (l : slabel) : option ssys :=
  let kv := ss_kv s in
  match l with
  | QNew ttl => Some (mkSS kv (ss_rs s ++ [mkSreg SInit ttl]))
  | QTime d => if Z.ltb d 0 then None else Some (mkSS (r_tick kv d) (ss_rs s))
  | QReg i =>
      match nth_error (ss_rs s) i with
      | Some g =>
          if s_can_register (q_pc g) then
            let '(okb, kv') := r_setnx ueq kv tt i (Some (q_ttl g)) in
            if okb then swith s i kv' (mkSreg SActive (q_ttl g)) else swith s i kv (mkSreg SRejected (q_ttl g))
          else None
      | None => None
      end
  | QTick i =>
      match nth_error (ss_rs s) i with
      | Some g =>
          match q_pc g with
          | SActive => swith s i (snd (r_expire ueq kv tt (refresh_ms (q_ttl g)))) g
          | _ => None
          end
      | None => None
      end
  | QStop i =>
      match nth_error (ss_rs s) i with
      | Some g =>
          match q_pc g with
          | SActive => swith s i (snd (r_del ueq kv tt)) (mkSreg SClosed (q_ttl g))
          | _ => None
          end
      | None => None
      end
  end.

Definition s_believes (g : sreg) : bool := match q_pc g with SActive => true | _ => false end.
Definition s_owner (s : ssys) : option nat := r_get ueq (ss_kv s) tt.

(* ------------------------------------------------- correspondence (both) *)
(* The harness drives the real StartEphemeral with macro operations and records
   after each one: the result of the call, whether the key exists, who owns it
   (etcd: the registrant whose lease the key carries; redis: not observable),
   the remaining TTL in ms (redis only) and, after TickAll / Stop, which expiry
   channels are closed.  Background ticks of the real tickers between two
   operations are idempotent refreshes and are subsumed by the next TickAll. *)
Inductive mop := MReg (i : nat) | MLapse | MTickAll | MStop (i : nat).
Inductive mres := ResNone | ResOk | ResExists | ResOther.

Record obs := mkObs {
  o_res : mres;
  o_key : bool;
  o_owner : option nat;
  o_ttl : Z;
  o_closed : list bool }.     (* [] when not observed at this step *)

Definition mres_eqb (a b : mres) : bool :=
  match a, b with ResNone, ResNone | ResOk, ResOk | ResExists, ResExists | ResOther, ResOther => true | _, _ => false end.
Definition onat_eqb (a b : option nat) : bool :=
  match a, b with Some x, Some y => Nat.eqb x y | None, None => true | _, _ => false end.
Fixpoint lbool_eqb (a b : list bool) : bool :=
  match a, b with
  | [], [] => true
  | x :: s, y :: t => Bool.eqb x y && lbool_eqb s t
  | _, _ => false
  end.
Definition obs_eqb (a b : obs) : bool :=
  mres_eqb (o_res a) (o_res b) && Bool.eqb (o_key a) (o_key b) && onat_eqb (o_owner a) (o_owner b)
  && Z.eqb (o_ttl a) (o_ttl b) && lbool_eqb (o_closed a) (o_closed b).
Fixpoint lobs_eqb (a b : list obs) : bool :=
  match a, b with
  | [], [] => true
  | x :: s, y :: t => obs_eqb x y && lobs_eqb s t
  | _, _ => false
  end.

Definition try_step {S L} (step : S -> L -> option S) (s : S) (l : L) : S :=
  match step s l with Some s' => s' | None => s end.

(* --- etcd interpreter of macro operations --- *)
Definition e_closed_flags (s : esys) : list bool :=
  map (fun g => match g_pc g with EClosed => true | _ => false end) (es_rs s).
Definition e_owner_idx (s : esys) : option nat :=
  match e_owner_lease s with
  | None => None
  | Some l =>
      (* the registrant whose current lease is l *)
      (fix go (rs : list ereg) (k : nat) : option nat :=
         match rs with
         | [] => None
         | g :: t => if Z.eqb (g_lease g) l then Some k else go t (S k)
         end) (es_rs s) O
  end.
Definition e_obs (s : esys) (r : mres) (closed : bool) : obs :=
  mkObs r (match e_key s with Some _ => true | None => false end) (e_owner_idx s) 0
        (if closed then e_closed_flags s else []).

Definition e_mop (s : esys) (m : mop) : esys * obs :=
  match m with
  | MReg i =>
      let s1 := try_step estep s (GGrant i) in
      let s2 := try_step estep s1 (GPut i) in
      let r := match nth_error (es_rs s2) i with
               | Some g => match g_pc g with
                           | EActive => ResOk
                           | ERejected KeyExists => ResExists
                           | _ => ResOther end
               | None => ResOther end in
      (s2, e_obs s2 r false)
  | MLapse =>
      let s1 := match e_owner_lease s with Some l => try_step estep s (GLapse l) | None => s end in
      (s1, e_obs s1 ResNone false)
  | MTickAll =>
      let s1 := fold_left (fun st i => try_step estep (try_step estep st (GTick i)) (GRevokeOwn i))
                          (seq 0 (length (es_rs s))) s in
      (s1, e_obs s1 ResNone true)
  | MStop i =>
      let s1 := try_step estep (try_step estep s (GStop i)) (GRevokeOwn i) in
      (s1, e_obs s1 ResNone true)
  end.

Fixpoint e_run (s : esys) (ms : list mop) : list obs :=
  match ms with
  | [] => []
  | m :: t => let '(s', o) := e_mop s m in o :: e_run s' t
  end.

(* --- redis interpreter --- *)
Definition s_closed_flags (s : ssys) : list bool :=
  map (fun g => match q_pc g with SClosed => true | _ => false end) (ss_rs s).
Definition s_obs (s : ssys) (r : mres) (closed : bool) : obs :=
  mkObs r (r_exists ueq (ss_kv s) tt) None
        (match r_ttl ueq (ss_kv s) tt with Some (Some t) => t | Some None => (-1) | None => (-2) end)
        (if closed then s_closed_flags s else []).
(* after MReg / MStop the TTL of an existing key is not compared: a background
   tick of any registered registrant may or may not have refreshed it already;
   it is compared after MTickAll (settled) and MLapse (key absent) *)
Definition mask_ttl (o : obs) : obs :=
  mkObs (o_res o) (o_key o) (o_owner o) (if o_key o then 0 else o_ttl o) (o_closed o).

Definition max_ttl (s : ssys) : Z :=
  fold_left (fun m g => Z.max m (Z.max (q_ttl g) (refresh_ms (q_ttl g)))) (ss_rs s) 0.

Definition s_mop (s : ssys) (m : mop) : ssys * obs :=
  match m with
  | MReg i =>
      let s1 := try_step sstep s (QReg i) in
      let r := match nth_error (ss_rs s1) i with
               | Some g => match q_pc g with SActive => ResOk | SRejected => ResExists | _ => ResOther end
               | None => ResOther end in
      (s1, mask_ttl (s_obs s1 r false))
  | MLapse => let s1 := try_step sstep s (QTime (max_ttl s + 1)) in (s1, s_obs s1 ResNone false)
  | MTickAll =>
      let s1 := fold_left (fun st i => try_step sstep st (QTick i)) (seq 0 (length (ss_rs s))) s in
      (s1, s_obs s1 ResNone true)
  | MStop i => let s1 := try_step sstep s (QStop i) in (s1, mask_ttl (s_obs s1 ResNone true))
  end.

Fixpoint s_run (s : ssys) (ms : list mop) : list obs :=
  match ms with
  | [] => []
  | m :: t => let '(s', o) := s_mop s m in o :: s_run s' t
  end.

(* --- the client loop selfmon.withActiveLock over StartEphemeral ---
   A watcher calls StartEphemeral until it succeeds (ErrKeyExists: sleep 1 s and
   retry), then runs f under a context that is cancelled when the expiry channel
   closes or the caller cancels; when f returns it unregisters.  In the macro
   operations a watcher is a registrant plus "pending" (still retrying):
     MReg i    start watcher i: registered at once (ResOk, f runs) or pending;
     MTickAll  all tickers fire, then the pending watcher's retry happens;
     MStop i   the caller cancels watcher i's context;
   closed = f has run and returned.  The harness keeps at most one watcher
   pending at a time, so the order of retries is determined. *)
Definition retry_pending {S} (mopf : S -> mop -> S * obs) (s : S) (p : option nat) : S * option nat :=
  match p with
  | None => (s, None)
  | Some j => let '(s', o) := mopf s (MReg j) in
              match o_res o with ResOk => (s', None) | _ => (s', Some j) end
  end.

(* The restart / re-registration loops around the same layer:
     WOnce     selfmon.withActiveLock called once (above);
     WRun      selfmon.run: for { withActiveLock(monitor); sleep ConnectionTimeout }:
               a watcher whose registration lapsed and who was notified goes back to
               registering (after the pause), i.e. becomes the pending one;
     WService  calcium.RegisterService: on notification it registers again at once
               and, if that fails, retries every heartbeat interval (pending).
   The harness keeps at most one contender for a free key (pending, or lapsed and
   not yet notified) at a time and aligns the retries, so these orders hold. *)
Inductive wmode := WOnce | WRun | WService.

Fixpoint newly_closed (before after : list bool) (k : nat) : option nat :=
  match before, after with
  | b :: bt, a :: at_ => if negb b && a then Some k else newly_closed bt at_ (S k)
  | _, _ => None
  end.

(* what happens between the two tick rounds of an MTickAll *)
Definition w_mid {S} (mode : wmode) (mopf : S -> mop -> S * obs) (s1 : S) (p : option nat)
                 (newly : option nat) : S * option nat :=
  match mode, newly with
  | WService, Some j =>
      (* the notified registrant registers again at once *)
      let '(sa, o) := mopf s1 (MReg j) in
      match o_res o with
      | ResOk => retry_pending mopf sa p
      | _ => match p with
             | None => (sa, Some j)
             | Some _ => retry_pending mopf sa p
             end
      end
  | WRun, Some j =>
      let '(sb, pb) := retry_pending mopf s1 p in
      (sb, match pb with None => Some j | Some _ => pb end)
  | _, _ => retry_pending mopf s1 p
  end.

Definition reobs {S} (obsf : S -> mres -> bool -> obs) (s' : S) (o : obs) : obs :=
  mkObs (o_res o) (o_key o) (o_owner o) (o_ttl o)
        (match o_closed o with [] => [] | _ => o_closed (obsf s' ResNone true) end).

Definition w_mop {S} (mode : wmode) (mopf : S -> mop -> S * obs) (obsf : S -> mres -> bool -> obs)
                 (st : S * option nat) (m : mop) : (S * option nat) * obs :=
  let '(s, p) := st in
  match m with
  | MReg i =>
      let '(s', o) := mopf s (MReg i) in
      match o_res o with ResOk => ((s', p), o) | _ => ((s', Some i), o) end
  | MLapse => let '(s', o) := mopf s MLapse in ((s', p), o)
  | MTickAll =>
      let before := o_closed (obsf s ResNone true) in
      let '(s1, _) := mopf s MTickAll in
      let newly := newly_closed before (o_closed (obsf s1 ResNone true)) O in
      let '(s2, p2) := w_mid mode mopf s1 p newly in
      (* a registrant that has just registered ticks as well before the observation *)
      let '(s3, _) := mopf s2 MTickAll in
      ((s3, p2), obsf s3 ResNone true)
  | MStop i =>
      match p with
      | Some j => if Nat.eqb i j then ((s, None), mask_ttl (obsf s ResNone true))
                  else let '(s', o) := mopf s (MStop i) in ((s', p), reobs obsf s' o)
      | None => let '(s', o) := mopf s (MStop i) in ((s', p), reobs obsf s' o)
      end
  end.

Fixpoint w_run {S} (mode : wmode) (mopf : S -> mop -> S * obs) (obsf : S -> mres -> bool -> obs)
               (st : S * option nat) (ms : list mop) : list obs :=
  match ms with
  | [] => []
  | m :: t => let '(st', o) := w_mop mode mopf obsf st m in o :: w_run mode mopf obsf st' t
  end.

(* in the restart / re-registration modes the flag reported per registrant is
   "does not (any longer) believe it holds": no successful registration whose
   expiry channel is still open *)
Definition e_obs2 (s : esys) (r : mres) (closed : bool) : obs :=
  let o := e_obs s r closed in
  mkObs (o_res o) (o_key o) (o_owner o) (o_ttl o)
        (if closed then map (fun g => negb (e_believes g)) (es_rs s) else []).
Definition s_obs2 (s : ssys) (r : mres) (closed : bool) : obs :=
  let o := s_obs s r closed in
  mkObs (o_res o) (o_key o) (o_owner o) (o_ttl o)
        (if closed then map (fun g => negb (s_believes g)) (ss_rs s) else []).

(* --- cases --- *)
(* BEtcd / BRedis: StartEphemeral driven directly; ..W: through selfmon.withActiveLock;
   ..R: through selfmon.run (restart loop); ..S: through calcium.RegisterService *)
Inductive backend := BEtcd | BRedis | BEtcdW | BRedisW | BEtcdR | BRedisR | BEtcdS | BRedisS.
Record case := mkCase {
  k_backend : backend;
  k_ttls : list Z;          (* per registrant: etcd lease ttl (s) / redis ttl (ms) *)
  k_ops : list mop;
  k_obs : list obs }.

Definition model_obs (c : case) : list obs :=
  match k_backend c with
  | BEtcd => e_run (run_skip estep esys_init (map GNew (k_ttls c))) (k_ops c)
  | BRedis => s_run (run_skip sstep ssys_init (map QNew (k_ttls c))) (k_ops c)
  | BEtcdW => w_run WOnce e_mop e_obs (run_skip estep esys_init (map GNew (k_ttls c)), None) (k_ops c)
  | BRedisW => w_run WOnce s_mop s_obs (run_skip sstep ssys_init (map QNew (k_ttls c)), None) (k_ops c)
  | BEtcdR => w_run WRun e_mop e_obs2 (run_skip estep esys_init (map GNew (k_ttls c)), None) (k_ops c)
  | BRedisR => w_run WRun s_mop s_obs2 (run_skip sstep ssys_init (map QNew (k_ttls c)), None) (k_ops c)
  | BEtcdS => w_run WService e_mop e_obs2 (run_skip estep esys_init (map GNew (k_ttls c)), None) (k_ops c)
  | BRedisS => w_run WService s_mop s_obs2 (run_skip sstep ssys_init (map QNew (k_ttls c)), None) (k_ops c)
  end.

Definition agree (c : case) : bool := lobs_eqb (model_obs c) (k_obs c).

(* --- boolean reflection of C26 on the implementation's observations ---
   The harness view of "who registered": a registrant is active from a
   successful Reg until it is observed closed or stopped.  The owner of the key
   is the registrant whose successful Reg created it (for etcd cross-checked with
   the owner the store reports); it is forgotten when the key is observed absent.
     (X) after TickAll, every active registrant is the owner of an existing key
         (at most one believes; a lapsed registrant has been notified);
     (Y) a Stop by a registrant that is not the owner does not remove the key;
     (W) a Reg succeeds only when the key was absent, and then the key exists. *)
Record view := mkView { v_active : list nat; v_owner : option nat; v_key : bool; v_pend : option nat }.
Definition is_w (b : backend) : bool := match b with BEtcd | BRedis => false | _ => true end.
Definition is_etcd (b : backend) : bool := match b with BEtcd | BEtcdW | BEtcdR | BEtcdS => true | _ => false end.
Definition mode_of (b : backend) : wmode :=
  match b with BEtcdR | BRedisR => WRun | BEtcdS | BRedisS => WService | _ => WOnce end.

Definition remove_nat (i : nat) (l : list nat) : list nat := filter (fun j => negb (Nat.eqb i j)) l.
Definition mem_nat (i : nat) (l : list nat) : bool := existsb (Nat.eqb i) l.

Definition closed_at (o : obs) (i : nat) : bool := nth i (o_closed o) false.

Definition ok_step (b : backend) (v : view) (m : mop) (o : obs) : bool * view :=
  let owner0 := if o_key o then v_owner v else None in
  match m with
  | MReg i =>
      match o_res o with
      | ResOk =>
          (negb (v_key v) && o_key o
           && (if is_etcd b then onat_eqb (o_owner o) (Some i) else true),
           mkView (i :: remove_nat i (v_active v)) (Some i) (o_key o) (v_pend v))
      | _ => (true, mkView (v_active v) owner0 (o_key o) (if is_w b then Some i else v_pend v))
      end
  | MLapse => (true, mkView (v_active v) owner0 (o_key o) (v_pend v))
  | MTickAll =>
      let act := filter (fun i => negb (closed_at o i)) (v_active v) in
      let notified := filter (closed_at o) (v_active v) in
      (* client modes: a key that appears during the tick was created by the pending
         registrant or (RegisterService) by a notified registrant registering again;
         etcd tells who, for redis only the pending one can be (redis never notifies) *)
      let taken := is_w b && negb (v_key v) && o_key o in
      let creator := if taken then (if is_etcd b then o_owner o else v_pend v) else None in
      let candidate c :=
        match v_pend v with Some j => Nat.eqb c j | None => false end
        || match mode_of b with WService => mem_nat c (v_active v) | _ => false end in
      let owner' := if is_etcd b then (if o_key o then (if is_w b then o_owner o else owner0) else None)
                    else match creator with Some c => Some c | None => owner0 end in
      let act1 := match creator with Some c => c :: remove_nat c act | None => act end in
      let pend1 := match creator, v_pend v with
                   | Some c, Some j => if Nat.eqb c j then None else Some j
                   | _, pj => pj end in
      (* a notified registrant that did not get the key goes back to registering *)
      let pend' := match mode_of b, notified with
                   | WOnce, _ => pend1
                   | _, n :: _ => if mem_nat n act1 then pend1
                                  else match pend1 with None => Some n | Some _ => pend1 end
                   | _, [] => pend1
                   end in
      (forallb (fun i => o_key o && onat_eqb owner' (Some i)) act1
       && match creator with Some c => candidate c | None => negb (taken && is_etcd b) end
       (* client loops keep trying: a key that was free with somebody still registering
          has been taken by the end of the tick *)
       && (if is_w b && negb (v_key v) then match v_pend v with Some _ => o_key o | None => true end else true),
       mkView act1 owner' (o_key o) pend')
  | MStop i =>
      let act := filter (fun j => negb (closed_at o j)) (remove_nat i (v_active v)) in
      let mine := onat_eqb (v_owner v) (Some i) in
      let pend' := match v_pend v with Some j => if Nat.eqb i j then None else Some j | None => None end in
      ((if mine then true else Bool.eqb (o_key o) (v_key v)),
       mkView act (if mine then None else owner0) (o_key o) pend')
  end.

Fixpoint ok_run (b : backend) (v : view) (ms : list mop) (os : list obs) : bool :=
  match ms, os with
  | [], [] => true
  | m :: mt, o :: ot => let '(r, v') := ok_step b v m o in r && ok_run b v' mt ot
  | _, _ => false
  end.

Definition ok (c : case) : bool := ok_run (k_backend c) (mkView [] None false None) (k_ops c) (k_obs c).
