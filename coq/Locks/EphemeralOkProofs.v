(* Locks/EphemeralOkProofs.v — the boolean reflection of C26 accepts every behaviour
   of the etcd registrant model, for schedules of ANY length over ANY number of
   registrants (plain StartEphemeral mode): [ok] raises no alarm on the verified
   model, so an alarm on the implementation's observations is a disagreement with
   the model or a genuine violation. *)
From Coq Require Import List Bool ZArith Lia Arith.
From Verif Require Import Base.KV Base.KVProofs Locks.Interleave Locks.InterleaveProofs
  Locks.Ephemeral Locks.EphemeralProofs.
Import ListNotations.
Local Open Scope Z_scope.

Local Notation live kv l := (e_lease_live kv l = true).

(* ---- every lease value a registrant carries (current or stale) is distinct ---- *)
Definition lease_ok (s : esys) : Prop :=
  0 < e_next_lease (es_kv s) /\
  (forall g, In g (es_rs s) -> 0 <= g_lease g < e_next_lease (es_kv s)) /\
  (forall i j a b, nth_error (es_rs s) i = Some a -> nth_error (es_rs s) j = Some b ->
     g_lease a = g_lease b -> g_lease a <> 0 -> i = j).

Lemma next_revoke : forall (kv : estore) id, e_next_lease (snd (e_revoke kv id)) = e_next_lease kv.
Proof. intros. unfold e_revoke. destruct (e_lease_live kv id); reflexivity. Qed.

Lemma next_detaches : forall ids (kv : estore), e_next_lease (fold_left e_detach ids kv) = e_next_lease kv.
Proof. induction ids as [|a t IH]; intros; simpl; auto. rewrite IH. reflexivity. Qed.

Lemma lease_ok_kv : forall s kv', lease_ok s -> e_next_lease kv' = e_next_lease (es_kv s) ->
  lease_ok (mkES kv' (es_rs s)).
Proof. intros s kv' (A & B & C) E. unfold lease_ok; simpl. rewrite E. auto. Qed.

Lemma lease_ok_upd : forall s kv' i g g',
  lease_ok s -> e_next_lease kv' = e_next_lease (es_kv s) ->
  nth_error (es_rs s) i = Some g -> g_lease g' = g_lease g ->
  lease_ok (mkES kv' (upd i g' (es_rs s))).
Proof.
  intros s kv' i g g' (A & B & C) E Hi El. unfold lease_ok; simpl. rewrite E.
  split; auto. split.
  - intros y Hy. apply In_upd in Hy. destruct Hy as [->|Hy]; auto. rewrite El. apply B. eapply nth_error_In; eauto.
  - intros a b x y Ha Hb Exy Hnz.
    apply nth_error_upd in Ha. apply nth_error_upd in Hb.
    destruct Ha as [[<- ->]|[Na Ha]]; destruct Hb as [[<- ->]|[Nb Hb]]; auto.
    + rewrite El in *. eapply C; eauto.
    + rewrite El in *. eapply C; eauto.
    + eapply C; eauto.
Qed.

Ltac einv H g Hg :=
  match type of H with
  | context [nth_error ?l ?i] => destruct (nth_error l i) as [g|] eqn:Hg; [|discriminate]
  end.

Lemma estep_lease_ok : forall s l s', lease_ok s -> estep s l = Some s' -> lease_ok s'.
Proof.
  intros s l s' Hok H. pose proof Hok as (A & B & C).
  destruct l; unfold estep in H; cbv zeta in H.
  - inversion H; subst s'. unfold lease_ok; simpl. split; auto. split.
    + intros g Hg. apply in_app_or in Hg. destruct Hg as [Hg|[<-|[]]]; auto. simpl; lia.
    + intros i j a b Ha Hb E Hnz.
      apply nth_error_app_new in Ha. apply nth_error_app_new in Hb.
      destruct Ha as [Ha|[-> ->]]; destruct Hb as [Hb|[-> ->]]; auto.
      * eapply C; eauto.
      * simpl in E. congruence.
      * simpl in Hnz. congruence.
  - einv H g Hg. destruct (can_register (g_pc g)); [|discriminate].
    destruct (e_grant (es_kv s) (g_ttl g)) as [id kv'] eqn:Hgr.
    unfold ewith in H; inversion H; subst s'.
    apply grant_shape in Hgr. destruct Hgr as (Hid & _ & _ & _ & Hn).
    unfold lease_ok; simpl. rewrite Hn. split; [lia|]. split.
    + intros y Hy. apply In_upd in Hy. destruct Hy as [->|Hy]; simpl; [lia|]. apply B in Hy. lia.
    + intros a b x y Ha Hb Exy Hnz.
      apply nth_error_upd in Ha. apply nth_error_upd in Hb.
      destruct Ha as [[<- ->]|[Na Ha]]; destruct Hb as [[<- ->]|[Nb Hb]]; auto; simpl in *.
      * apply nth_error_In in Hb. apply B in Hb. lia.
      * apply nth_error_In in Ha. apply B in Ha. lia.
      * eapply C; eauto.
  - einv H g Hg. destruct (g_pc g); try discriminate.
    unfold e_put_if_absent in H. destruct (e_get ueq (es_kv s) tt) eqn:Hget.
    + unfold ewith in H; inversion H; subst s'. eapply lease_ok_upd; eauto.
    + destruct (e_put ueq (es_kv s) tt tt (g_lease g)) as [kv'|] eqn:Hp;
        unfold ewith in H; inversion H; subst s'.
      * apply put_shape in Hp; auto. destruct Hp as (_ & _ & _ & Hn & _). eapply lease_ok_upd; eauto.
      * eapply lease_ok_upd; eauto.
  - einv H g Hg. destruct (g_pc g); try discriminate.
    destruct (e_keepalive (es_kv s) (g_lease g)) as [alive kv'] eqn:Hka.
    apply keepalive_shape in Hka. destruct Hka as (_ & _ & Hn & _).
    destruct alive; unfold ewith in H; inversion H; subst s'; eapply lease_ok_upd; eauto.
  - einv H g Hg. destruct (g_pc g); try discriminate.
    unfold ewith in H; inversion H; subst s'. eapply lease_ok_upd; eauto.
  - einv H g Hg. destruct (g_pc g); try discriminate.
    unfold ewith in H; inversion H; subst s'. eapply lease_ok_upd; eauto. apply next_revoke.
  - inversion H; subst s'. apply lease_ok_kv; auto. apply next_revoke.
  - destruct (Z.ltb d 0); [discriminate|]. inversion H; subst s'. apply lease_ok_kv; auto.
    unfold e_tick. rewrite next_detaches. reflexivity.
Qed.

Lemma reachable_lease_ok : forall s, reachable estep esys_init s -> lease_ok s.
Proof.
  apply invariant_reachable.
  - unfold lease_ok, esys_init; simpl. split; [lia|]. split; [intros g []|].
    intros i j a b H. destruct i; discriminate.
  - intros; eapply estep_lease_ok; eauto.
Qed.

(* ---- the owner index ---- *)
Definition find_idx (l : Z) :=
  fix go (rs : list ereg) (k : nat) : option nat :=
    match rs with
    | [] => None
    | g :: t => if Z.eqb (g_lease g) l then Some k else go t (S k)
    end.

Lemma owner_idx_unfold : forall s,
  e_owner_idx s = match e_owner_lease s with None => None | Some l => find_idx l (es_rs s) O end.
Proof. reflexivity. Qed.

Lemma find_idx_spec : forall l rs k i g,
  nth_error rs i = Some g -> g_lease g = l ->
  (forall j b, nth_error rs j = Some b -> g_lease b = l -> j = i) ->
  find_idx l rs k = Some (k + i)%nat.
Proof.
  intros l rs. induction rs as [|a t IH]; intros k i g Hi El Hu; [destruct i; discriminate|].
  simpl. destruct (Z.eqb (g_lease a) l) eqn:E.
  - apply Z.eqb_eq in E. specialize (Hu O a eq_refl E). subst i. f_equal. lia.
  - destruct i as [|i]; [simpl in Hi; inversion Hi; subst a; rewrite El, Z.eqb_refl in E; discriminate|].
    simpl in Hi. rewrite (IH (S k) i g Hi El).
    + f_equal. lia.
    + intros j b Hj Eb. specialize (Hu (S j) b Hj Eb). lia.
Qed.

Lemma find_idx_none : forall l rs k, (forall g, In g rs -> g_lease g <> l) -> find_idx l rs k = None.
Proof.
  intros l rs. induction rs as [|a t IH]; intros k H; simpl; auto.
  destruct (Z.eqb (g_lease a) l) eqn:E.
  - apply Z.eqb_eq in E. exfalso. eapply H; eauto. left; auto.
  - apply IH. intros g Hg. apply H. right; auto.
Qed.

(* ---- states between two macro operations ---- *)
Definition stable_pc (p : epc) : Prop :=
  p = EInit \/ p = EActive \/ p = EClosed \/ exists e, p = ERejected e.
Definition active_at (s : esys) (i : nat) : Prop :=
  exists g, nth_error (es_rs s) i = Some g /\ g_pc g = EActive.
Definition key_present (s : esys) : bool := match e_key s with Some _ => true | None => false end.

Record ms (s : esys) : Prop := mkMs {
  ms_reach : reachable estep esys_init s;
  ms_stable : forall g, In g (es_rs s) -> stable_pc (g_pc g);
  ms_owner : forall x, e_kvs (es_kv s) = [x] ->
             exists c g, nth_error (es_rs s) c = Some g /\ g_pc g = EActive /\ g_lease g = ek_lease x }.

Record vr (v : view) (s : esys) : Prop := mkVr {
  vr_key : v_key v = key_present s;
  vr_owner : v_owner v = e_owner_idx s;
  vr_active : forall i, In i (v_active v) <-> active_at s i }.

Lemma kvs_cases : forall s, reachable estep esys_init s ->
  e_kvs (es_kv s) = [] \/ exists x, e_kvs (es_kv s) = [x] /\ live (es_kv s) (ek_lease x).
Proof. intros s H. apply ereachable_ok in H. destruct H as (S & _). exact S. Qed.

Lemma key_empty : forall s, e_kvs (es_kv s) = [] -> e_key s = None /\ key_present s = false /\ e_owner_idx s = None.
Proof.
  intros s E. unfold key_present, e_owner_idx, e_owner_lease, e_key, e_get. rewrite E. simpl. auto.
Qed.

Lemma key_one : forall s x, e_kvs (es_kv s) = [x] ->
  e_key s = Some x /\ key_present s = true /\ e_owner_lease s = Some (ek_lease x).
Proof.
  intros s x E. unfold key_present, e_owner_lease, e_key, e_get. rewrite E. simpl. auto.
Qed.

Lemma owner_idx_of : forall s x c g,
  lease_ok s -> e_kvs (es_kv s) = [x] -> nth_error (es_rs s) c = Some g -> g_lease g = ek_lease x ->
  ek_lease x <> 0 -> e_owner_idx s = Some c.
Proof.
  intros s x c g (_ & _ & C) E Hc El Hnz. rewrite owner_idx_unfold.
  destruct (key_one s x E) as (_ & _ & ->).
  rewrite (find_idx_spec (ek_lease x) (es_rs s) O c g Hc El); auto.
  intros j b Hj Eb. eapply C; eauto; congruence.
Qed.

Lemma active_lease_pos : forall s i g, reachable estep esys_init s ->
  nth_error (es_rs s) i = Some g -> g_pc g = EActive -> 0 < g_lease g.
Proof.
  intros s i g H Hi Hp. apply ereachable_ok in H. destruct H as (_ & _ & _ & R & _).
  apply R; [eapply nth_error_In; eauto|]. right; left; auto.
Qed.

(* with a key present, the owner index is the active registrant carrying its lease *)
Lemma ms_owner_idx : forall s x, ms s -> e_kvs (es_kv s) = [x] ->
  exists c g, nth_error (es_rs s) c = Some g /\ g_pc g = EActive /\ g_lease g = ek_lease x /\ e_owner_idx s = Some c.
Proof.
  intros s x M E. destruct (ms_owner s M x E) as (c & g & Hc & Hp & El).
  exists c, g. repeat split; auto.
  eapply owner_idx_of; eauto.
  - apply reachable_lease_ok. apply M.
  - rewrite <- El. pose proof (active_lease_pos s c g (ms_reach s M) Hc Hp). lia.
Qed.

Lemma upd_same_id {A} : forall (l : list A) i x, nth_error l i = Some x -> upd i x l = l.
Proof.
  induction l as [|a t IH]; intros [|i] x H; simpl in *; try discriminate; auto.
  - inversion H; auto.
  - f_equal. auto.
Qed.

Definition step_ok_for (v : view) (s : esys) (m : mop) : Prop :=
  let '(s', o) := e_mop s m in
  let '(r, v') := ok_step BEtcd v m o in
  r = true /\ ms s' /\ vr v' s'.

Lemma ms_reach_mop : forall s m, ms s -> reachable estep esys_init (fst (e_mop s m)).
Proof. intros s m M. apply e_mop_reach. apply M. Qed.

(* ---- MLapse ---- *)
Lemma lapse_ok : forall v s, ms s -> vr v s -> step_ok_for v s MLapse.
Proof.
  intros v s M V. unfold step_ok_for.
  pose proof (ms_reach_mop s MLapse M) as R'.
  destruct (kvs_cases s (ms_reach s M)) as [E|[x [E Lx]]].
  - (* no key: nothing happens *)
    destruct (key_empty s E) as (K1 & K2 & K3).
    assert (Hm : e_mop s MLapse = (s, e_obs s ResNone false)).
    { unfold e_mop, e_owner_lease. rewrite K1. reflexivity. }
    rewrite Hm. cbn [ok_step e_obs o_key o_closed]. fold (key_present s). rewrite K2.
    split; auto. split; auto. destruct V as [Vk Vo Va]. split; cbn [v_key v_owner v_active]; auto.
  - destruct (key_one s x E) as (K1 & K2 & K3).
    set (s1 := mkES (snd (e_revoke (es_kv s) (ek_lease x))) (es_rs s)).
    assert (Hm : e_mop s MLapse = (s1, e_obs s1 ResNone false)).
    { unfold e_mop. rewrite K3. reflexivity. }
    rewrite Hm in *. cbn [fst] in R'.
    assert (E1 : e_kvs (es_kv s1) = []).
    { unfold s1; cbn [es_kv]. unfold e_revoke. rewrite Lx. cbn [snd].
      destruct (detach_shape (es_kv s) (ek_lease x)) as (Hk & _). rewrite Hk, E. simpl.
      rewrite Z.eqb_refl. reflexivity. }
    destruct (key_empty s1 E1) as (K1' & K2' & K3').
    cbn [ok_step e_obs o_key o_closed]. fold (key_present s1). rewrite K2'.
    split; auto. split.
    + split; auto.
      * intros g Hg. apply (ms_stable s M). exact Hg.
      * intros y Ey. rewrite E1 in Ey. discriminate.
    + destruct V as [Vk Vo Va]. split; cbn [v_key v_owner v_active]; auto.
Qed.

(* ---- helpers ---- *)
Lemma upd_upd {A} : forall (l : list A) i a b, upd i a (upd i b l) = upd i a l.
Proof. induction l as [|x t IH]; intros [|i] a b; simpl; auto. f_equal. auto. Qed.

Lemma find_idx_ext : forall l rs rs' k, map g_lease rs = map g_lease rs' -> find_idx l rs k = find_idx l rs' k.
Proof.
  intros l rs. induction rs as [|a t IH]; intros [|b u] k H; simpl in *; try discriminate; auto.
  inversion H. rewrite H1. destruct (Z.eqb (g_lease b) l); auto.
Qed.

Lemma owner_idx_ext : forall s s', e_kvs (es_kv s') = e_kvs (es_kv s) ->
  map g_lease (es_rs s') = map g_lease (es_rs s) -> e_owner_idx s' = e_owner_idx s.
Proof.
  intros s s' Hk Hl. rewrite !owner_idx_unfold. unfold e_owner_lease, e_key, e_get. rewrite Hk.
  destruct (find _ (e_kvs (es_kv s))); auto. apply find_idx_ext; auto.
Qed.

Lemma key_present_ext : forall s s', e_kvs (es_kv s') = e_kvs (es_kv s) -> key_present s' = key_present s.
Proof. intros s s' Hk. unfold key_present, e_key, e_get. rewrite Hk. reflexivity. Qed.

Definition is_closed (g : ereg) : bool := match g_pc g with EClosed => true | _ => false end.

Lemma closed_at_obs : forall s r j,
  closed_at (e_obs s r true) j = match nth_error (es_rs s) j with Some g => is_closed g | None => false end.
Proof.
  intros s r j. unfold closed_at, e_obs, e_closed_flags; cbn [o_closed].
  destruct (nth_error (es_rs s) j) as [g|] eqn:E.
  - change (nth j (map is_closed (es_rs s)) false = is_closed g).
    rewrite nth_indep with (d' := is_closed g) by (rewrite map_length; apply nth_error_Some; congruence).
    rewrite (map_nth is_closed). rewrite (nth_error_nth _ _ g E). reflexivity.
  - change (nth j (map is_closed (es_rs s)) false = false).
    apply nth_overflow. rewrite map_length. apply nth_error_None. auto.
Qed.

Lemma filter_ext_in_iff {A} (f : A -> bool) (l : list A) (P : A -> Prop) :
  (forall x, In x l -> (f x = true <-> P x)) -> forall x, In x (filter f l) <-> In x l /\ P x.
Proof.
  intros H x. rewrite filter_In. split; intros [A1 A2]; split; auto; apply (H x A1); auto.
Qed.

Lemma in_remove_nat : forall i j l, In j (remove_nat i l) <-> In j l /\ j <> i.
Proof.
  intros i j l. unfold remove_nat. rewrite filter_In. split; intros [A B]; split; auto.
  - apply negb_true_iff in B. apply Nat.eqb_neq in B. auto.
  - apply negb_true_iff. apply Nat.eqb_neq. auto.
Qed.

Lemma stable_not_transient : forall p, stable_pc p -> p <> ERevoking /\ p <> EGranted.
Proof. intros p [H|[H|[H|[e H]]]]; subst; split; discriminate. Qed.

(* ---- MStop ---- *)
Lemma not_active_not_in : forall v s i, vr v s ->
  (forall g, nth_error (es_rs s) i = Some g -> g_pc g <> EActive) -> ~ In i (v_active v).
Proof.
  intros v s i V Hn Hi. apply (vr_active v s V) in Hi. destruct Hi as (g & Hg & Hp). eapply Hn; eauto.
Qed.

Lemma act_filter_same : forall v s i,
  vr v s -> ms s -> ~ In i (v_active v) ->
  forall j, In j (filter (fun j => negb (closed_at (e_obs s ResNone true) j)) (remove_nat i (v_active v)))
            <-> active_at s j.
Proof.
  intros v s i V M Hni j. rewrite filter_In, in_remove_nat, closed_at_obs. split.
  - intros [[Hj _] _]. apply (vr_active v s V). auto.
  - intros Ha. pose proof Ha as (g & Hg & Hp). split; [split|].
    + apply (vr_active v s V). auto.
    + intro E; subst. apply Hni. apply (vr_active v s V). auto.
    + rewrite Hg. unfold is_closed. rewrite Hp. reflexivity.
Qed.

Lemma stop_ok : forall v s i, ms s -> vr v s -> step_ok_for v s (MStop i).
Proof.
  intros v s i M V. unfold step_ok_for.
  pose proof (ms_reach_mop s (MStop i) M) as R'.
  pose proof (reachable_lease_ok s (ms_reach s M)) as LK.
  pose proof V as [Vk Vo Va].
  destruct (nth_error (es_rs s) i) as [g|] eqn:Hg.
  2:{ (* no such registrant *)
    assert (Hm : e_mop s (MStop i) = (s, e_obs s ResNone true)).
    { assert (H1 : try_step estep s (GStop i) = s) by (unfold try_step, estep; rewrite Hg; reflexivity).
      assert (H2 : try_step estep s (GRevokeOwn i) = s) by (unfold try_step, estep; rewrite Hg; reflexivity).
      unfold e_mop. rewrite H1, H2. reflexivity. }
    rewrite Hm. cbn [ok_step].
    assert (Hni : ~ In i (v_active v)) by (eapply not_active_not_in; eauto; intros g0 E; congruence).
    assert (Hnm : onat_eqb (v_owner v) (Some i) = false).
    { rewrite Vo. destruct (e_owner_idx s) as [c|] eqn:Eo; auto. simpl.
      destruct (Nat.eqb c i) eqn:Ec; auto. apply Nat.eqb_eq in Ec. subst c. exfalso.
      destruct (kvs_cases s (ms_reach s M)) as [E|[x [E _]]].
      - destruct (key_empty s E) as (_ & _ & K). congruence.
      - destruct (ms_owner_idx s x M E) as (c & gc & Hc & _ & _ & Ho). congruence. }
    rewrite Hnm. cbn [e_obs o_key]. fold (key_present s). rewrite Vk, eqb_reflx.
    split; auto. split; auto. split; cbn [v_key v_owner v_active]; auto.
    - rewrite Vo. destruct (key_present s) eqn:Kp; auto.
      unfold key_present in Kp. rewrite owner_idx_unfold. unfold e_owner_lease.
      destruct (e_key s); [discriminate|reflexivity].
    - apply act_filter_same; auto. }
  destruct (ms_stable s M g (nth_error_In _ _ Hg)) as [Hp|[Hp|[Hp|[e Hp]]]].
  1,3,4: (* not active: nothing happens *)
    assert (Hm : e_mop s (MStop i) = (s, e_obs s ResNone true))
      by (assert (H1 : try_step estep s (GStop i) = s) by (unfold try_step, estep; rewrite Hg, Hp; reflexivity);
          assert (H2 : try_step estep s (GRevokeOwn i) = s) by (unfold try_step, estep; rewrite Hg, Hp; reflexivity);
          unfold e_mop; rewrite H1, H2; reflexivity);
    rewrite Hm; cbn [ok_step];
    assert (Hni : ~ In i (v_active v))
      by (eapply not_active_not_in; eauto; intros g0 E; rewrite Hg in E; inversion E; subst; congruence);
    assert (Hnm : onat_eqb (v_owner v) (Some i) = false);
    [ rewrite Vo; destruct (e_owner_idx s) as [c|] eqn:Eo; auto; simpl;
      destruct (Nat.eqb c i) eqn:Ec; auto; apply Nat.eqb_eq in Ec; subst c; exfalso;
      destruct (kvs_cases s (ms_reach s M)) as [E|[x [E _]]];
      [ destruct (key_empty s E) as (_ & _ & K); congruence
      | destruct (ms_owner_idx s x M E) as (c & gc & Hc & Hpc & _ & Ho);
        assert (c = i) by congruence; subst c; rewrite Hg in Hc; inversion Hc; subst gc; congruence ]
    | rewrite Hnm; cbn [e_obs o_key]; fold (key_present s); rewrite Vk, eqb_reflx;
      split; auto; split; auto; split; cbn [v_key v_owner v_active]; auto;
      [ rewrite Vo; destruct (key_present s) eqn:Kp; auto;
        unfold key_present in Kp; rewrite owner_idx_unfold; unfold e_owner_lease;
        destruct (e_key s); [discriminate|reflexivity]
      | apply act_filter_same; auto ] ].
  (* active: stop, revoke own lease, closed *)
  assert (Hlen : (i < length (es_rs s))%nat) by (apply nth_error_Some; congruence).
  set (gc := eset (eset g ERevoking) EClosed).
  set (s1 := mkES (snd (e_revoke (es_kv s) (g_lease g))) (upd i gc (es_rs s))).
  assert (Hm : e_mop s (MStop i) = (s1, e_obs s1 ResNone true)).
  { assert (H1 : try_step estep s (GStop i) = mkES (es_kv s) (upd i (eset g ERevoking) (es_rs s)))
      by (unfold try_step, estep; rewrite Hg, Hp; reflexivity).
    unfold e_mop. rewrite H1. unfold try_step, estep. cbn [es_rs es_kv].
    rewrite nth_error_upd_same by auto. cbn [g_pc eset].
    unfold ewith. cbn [es_rs es_kv g_lease eset]. rewrite upd_upd. reflexivity. }
  rewrite Hm in *. cbn [fst] in R'. cbn [ok_step].
  assert (Hl1 : map g_lease (es_rs s1) = map g_lease (es_rs s)).
  { unfold s1; cbn [es_rs]. eapply map_upd_same; eauto. }
  assert (Hnth1 : forall j, j <> i -> nth_error (es_rs s1) j = nth_error (es_rs s) j).
  { intros j Hj. unfold s1; cbn [es_rs]. apply nth_error_upd_other; auto. }
  assert (Hi1 : nth_error (es_rs s1) i = Some gc) by (unfold s1; cbn [es_rs]; apply nth_error_upd_same; auto).
  assert (Hact1 : forall j, active_at s1 j <-> active_at s j /\ j <> i).
  { intros j. unfold active_at. destruct (Nat.eq_dec j i) as [->|Hj].
    - rewrite Hi1. split; [intros (g0 & E & P); inversion E; subst g0; discriminate|intros [_ F]; congruence].
    - rewrite (Hnth1 j Hj). tauto. }
  assert (Hstable1 : forall g0, In g0 (es_rs s1) -> stable_pc (g_pc g0)).
  { intros g0 Hg0. unfold s1 in Hg0; cbn [es_rs] in Hg0. apply In_upd in Hg0. destruct Hg0 as [->|Hg0].
    - right; right; left; reflexivity.
    - apply (ms_stable s M); auto. }
  assert (Hfilter : forall j, In j (filter (fun j => negb (closed_at (e_obs s1 ResNone true) j)) (remove_nat i (v_active v)))
                              <-> active_at s1 j).
  { intros j. rewrite filter_In, in_remove_nat, closed_at_obs, Hact1. split.
    - intros [[Hj Hne] _]. split; auto. apply Va; auto.
    - intros [Ha Hne]. split; [split; auto; apply Va; auto|].
      rewrite (Hnth1 j Hne). destruct Ha as (g0 & E & P). rewrite E. unfold is_closed. rewrite P. reflexivity. }
  destruct (kvs_cases s (ms_reach s M)) as [E|[x [E Lx]]].
  - (* no key *)
    destruct (key_empty s E) as (K1 & K2 & K3).
    assert (E1 : e_kvs (es_kv s1) = []).
    { unfold s1; cbn [es_kv]. unfold e_revoke. destruct (e_lease_live (es_kv s) (g_lease g)); cbn [snd]; auto.
      destruct (detach_shape (es_kv s) (g_lease g)) as (Hk & _). rewrite Hk, E. reflexivity. }
    destruct (key_empty s1 E1) as (K1' & K2' & K3').
    rewrite Vo, K3. cbn [onat_eqb e_obs o_key]. fold (key_present s1). rewrite K2', Vk, K2. cbn [Bool.eqb].
    split; auto. split.
    + split; auto. intros y Ey. rewrite E1 in Ey. discriminate.
    + split; cbn [v_key v_owner v_active]; auto.
  - destruct (ms_owner_idx s x M E) as (c & gown & Hc & Hpc & Elc & Ho).
    destruct (key_one s x E) as (K1 & K2 & K3).
    destruct (Nat.eq_dec c i) as [->|Hci].
    + (* i owns the key: it disappears with the lease *)
      rewrite Hg in Hc. inversion Hc; subst gown.
      assert (E1 : e_kvs (es_kv s1) = []).
      { unfold s1; cbn [es_kv]. unfold e_revoke. rewrite Elc, Lx. cbn [snd].
        destruct (detach_shape (es_kv s) (ek_lease x)) as (Hk & _). rewrite Hk, E. simpl.
        rewrite Z.eqb_refl. reflexivity. }
      destruct (key_empty s1 E1) as (K1' & K2' & K3').
      rewrite Vo, Ho. cbn [onat_eqb]. rewrite Nat.eqb_refl. cbn [e_obs o_key]. fold (key_present s1). rewrite K2'.
      split; auto. split.
      * split; auto. intros y Ey. rewrite E1 in Ey. discriminate.
      * split; cbn [v_key v_owner v_active]; auto.
    + (* somebody else owns the key: untouched *)
      assert (Hne : g_lease g <> ek_lease x).
      { intro El. apply Hci. destruct LK as (_ & _ & C). eapply C; eauto; try congruence.
        rewrite Elc. pose proof (active_lease_pos s c gown (ms_reach s M) Hc Hpc). lia. }
      assert (E1 : e_kvs (es_kv s1) = [x]).
      { unfold s1; cbn [es_kv]. unfold e_revoke. destruct (e_lease_live (es_kv s) (g_lease g)); cbn [snd]; auto.
        destruct (detach_shape (es_kv s) (g_lease g)) as (Hk & _). rewrite Hk, E. simpl.
        destruct (Z.eqb (ek_lease x) (g_lease g)) eqn:Ez; [apply Z.eqb_eq in Ez; congruence|reflexivity]. }
      assert (Ho1 : e_owner_idx s1 = Some c).
      { rewrite (owner_idx_ext s s1); auto. rewrite E1, E. reflexivity. }
      assert (Kp1 : key_present s1 = true) by (rewrite (key_present_ext s s1); auto; rewrite E1, E; reflexivity).
      rewrite Vo, Ho. cbn [onat_eqb].
      assert (Nat.eqb c i = false) as -> by (apply Nat.eqb_neq; auto).
      cbn [e_obs o_key]. fold (key_present s1). rewrite Kp1, Vk, K2. cbn [Bool.eqb].
      split; auto. split.
      * split; auto. intros y Ey. rewrite E1 in Ey. inversion Ey; subst y.
        exists c, gown. rewrite (Hnth1 c Hci). auto.
      * split; cbn [v_key v_owner v_active]; auto; try (rewrite Vo, Ho; auto).
Qed.

(* ---- MReg ---- *)
Lemma reg_ok : forall v s i, ms s -> vr v s -> e_can_reg s i = true -> step_ok_for v s (MReg i).
Proof.
  intros v s i M V Hcan. unfold step_ok_for.
  pose proof (ms_reach_mop s (MReg i) M) as R'.
  pose proof V as [Vk Vo Va].
  unfold e_can_reg in Hcan. destruct (nth_error (es_rs s) i) as [g|] eqn:Hg; [|discriminate].
  assert (Hlen : (i < length (es_rs s))%nat) by (apply nth_error_Some; congruence).
  assert (Hna : g_pc g <> EActive) by (intro E; rewrite E in Hcan; discriminate).
  destruct (e_grant (es_kv s) (g_ttl g)) as [id kv1] eqn:Hgr.
  pose proof (grant_shape _ _ _ _ Hgr) as (Hid & Hk1 & Hr1 & Hl1 & Hn1).
  set (s1 := mkES kv1 (upd i (mkEreg EGranted id (g_ttl g)) (es_rs s))).
  assert (H1 : try_step estep s (GGrant i) = s1).
  { unfold try_step, estep. rewrite Hg, Hcan, Hgr. reflexivity. }
  assert (Hlive1 : live kv1 id).
  { apply live_iff. rewrite Hl1. left. reflexivity. }
  assert (Hidpos : 0 < id).
  { pose proof (ereachable_ok s (ms_reach s M)) as (_ & _ & N & _). lia. }
  assert (Hget1 : e_get ueq kv1 tt = e_get ueq (es_kv s) tt) by (unfold e_get; rewrite Hk1; reflexivity).
  destruct (kvs_cases s (ms_reach s M)) as [E|[x [E Lx]]].
  - (* key absent: the registration succeeds *)
    destruct (key_empty s E) as (K1 & K2 & K3).
    assert (Hg1 : e_get ueq kv1 tt = None) by (rewrite Hget1; exact K1).
    destruct (e_put ueq kv1 tt tt id) as [kv2|] eqn:Hp.
    2:{ apply (put_none ueq) in Hp. destruct Hp as [_ Hp]. congruence. }
    pose proof (put_shape ueq _ _ _ _ _ Hg1 Hp) as (Hr2 & Hk2 & Hl2 & Hn2 & _).
    set (ga := mkEreg EActive id (g_ttl g)).
    set (s2 := mkES kv2 (upd i ga (es_rs s))).
    assert (H2 : try_step estep s1 (GPut i) = s2).
    { unfold try_step, estep, s1. cbn [es_rs es_kv]. rewrite nth_error_upd_same by auto. cbn [g_pc g_lease].
      unfold e_put_if_absent. rewrite Hg1, Hp. unfold ewith. cbn [es_rs]. rewrite upd_upd. reflexivity. }
    assert (Hi2 : nth_error (es_rs s2) i = Some ga) by (unfold s2; cbn [es_rs]; apply nth_error_upd_same; auto).
    assert (Hm : e_mop s (MReg i) = (s2, e_obs s2 ResOk false)).
    { unfold e_mop. rewrite H1, H2, Hi2. reflexivity. }
    rewrite Hm in *. cbn [fst] in R'.
    set (nk := mkEkv tt tt (e_rev kv1 + 1) (e_rev kv1 + 1) 1 id) in *.
    assert (E2 : e_kvs (es_kv s2) = [nk]) by (unfold s2; cbn [es_kv]; rewrite Hk2, Hk1, E; reflexivity).
    destruct (key_one s2 nk E2) as (K1' & K2' & K3').
    assert (Ho2 : e_owner_idx s2 = Some i).
    { apply (owner_idx_of s2 nk i ga); [apply reachable_lease_ok; auto|exact E2|exact Hi2|reflexivity|simpl; lia]. }
    cbn [ok_step e_obs o_res o_key o_owner is_etcd]. fold (key_present s2). rewrite K2', Ho2, Vk, K2.
    cbn [negb andb onat_eqb]. rewrite Nat.eqb_refl.
    assert (Hnth2 : forall j, j <> i -> nth_error (es_rs s2) j = nth_error (es_rs s) j)
      by (intros j Hj; unfold s2; cbn [es_rs]; apply nth_error_upd_other; auto).
    split; auto. split.
    + split; auto.
      * intros g0 Hg0. unfold s2 in Hg0; cbn [es_rs] in Hg0. apply In_upd in Hg0. destruct Hg0 as [->|Hg0].
        -- right; left; reflexivity.
        -- apply (ms_stable s M); auto.
      * intros y Ey. rewrite E2 in Ey. inversion Ey; subst y. exists i, ga. auto.
    + split; cbn [v_key v_owner v_active]; auto.
      intros j. simpl. rewrite in_remove_nat. unfold active_at. destruct (Nat.eq_dec j i) as [->|Hj].
      * split; [intros _; exists ga; auto|auto].
      * rewrite (Hnth2 j Hj). split.
        -- intros [F|[Hin _]]; [congruence|]. apply Va; auto.
        -- intros Ha. right. split; auto. apply Va; auto.
  - (* key present: rejected *)
    destruct (key_one s x E) as (K1 & K2 & K3).
    destruct (ms_owner_idx s x M E) as (c & gown & Hc & Hpc & Elc & Ho).
    assert (Hci : c <> i) by (intro Ec; subst c; rewrite Hg in Hc; inversion Hc; subst gown; congruence).
    assert (Hg1 : e_get ueq kv1 tt = Some x) by (rewrite Hget1; exact K1).
    set (gr := mkEreg (ERejected KeyExists) id (g_ttl g)).
    set (s2 := mkES kv1 (upd i gr (es_rs s))).
    assert (H2 : try_step estep s1 (GPut i) = s2).
    { unfold try_step, estep, s1. cbn [es_rs es_kv]. rewrite nth_error_upd_same by auto. cbn [g_pc g_lease].
      unfold e_put_if_absent. rewrite Hg1. unfold ewith. cbn [es_rs]. rewrite upd_upd. reflexivity. }
    assert (Hi2 : nth_error (es_rs s2) i = Some gr) by (unfold s2; cbn [es_rs]; apply nth_error_upd_same; auto).
    assert (Hm : e_mop s (MReg i) = (s2, e_obs s2 ResExists false)).
    { unfold e_mop. rewrite H1, H2, Hi2. reflexivity. }
    rewrite Hm in *. cbn [fst] in R'.
    assert (E2 : e_kvs (es_kv s2) = [x]) by (unfold s2; cbn [es_kv]; rewrite Hk1; exact E).
    destruct (key_one s2 x E2) as (K1' & K2' & K3').
    assert (Hnth2 : forall j, j <> i -> nth_error (es_rs s2) j = nth_error (es_rs s) j)
      by (intros j Hj; unfold s2; cbn [es_rs]; apply nth_error_upd_other; auto).
    assert (Ho2 : e_owner_idx s2 = Some c).
    { apply (owner_idx_of s2 x c gown); [apply reachable_lease_ok; auto|exact E2|rewrite (Hnth2 c Hci); exact Hc|exact Elc|].
      rewrite <- Elc. pose proof (active_lease_pos s c gown (ms_reach s M) Hc Hpc). lia. }
    cbn [ok_step e_obs o_res o_key is_w]. fold (key_present s2). rewrite K2'.
    split; auto. split.
    + split; auto.
      * intros g0 Hg0. unfold s2 in Hg0; cbn [es_rs] in Hg0. apply In_upd in Hg0. destruct Hg0 as [->|Hg0].
        -- right; right; right. eexists; reflexivity.
        -- apply (ms_stable s M); auto.
      * intros y Ey. rewrite E2 in Ey. inversion Ey; subst y. exists c, gown. rewrite (Hnth2 c Hci). auto.
    + split; cbn [v_key v_owner v_active]; auto; try congruence.
      intros j. unfold active_at. destruct (Nat.eq_dec j i) as [->|Hj].
      * rewrite Hi2. split.
        -- intros Hin. apply Va in Hin. destruct Hin as (g0 & E0 & P0). rewrite Hg in E0. inversion E0; subst; congruence.
        -- intros (g0 & E0 & P0). inversion E0; subst g0. discriminate.
      * rewrite (Hnth2 j Hj). apply Va.
Qed.

(* ---- MTickAll ---- *)
Definition tick_reg (lv : Z -> bool) (g : ereg) : ereg :=
  match g_pc g with
  | EActive => if lv (g_lease g) then g else eset (eset g ERevoking) EClosed
  | _ => g
  end.

Definition tick_step (st : esys) (i : nat) : esys :=
  try_step estep (try_step estep st (GTick i)) (GRevokeOwn i).

Record kv_same (kv kv' : estore) : Prop := mkKvSame {
  ks_kvs : e_kvs kv' = e_kvs kv;
  ks_live : forall x, e_lease_live kv' x = e_lease_live kv x }.

Lemma kv_same_refl : forall kv, kv_same kv kv.
Proof. intros; split; auto. Qed.
Lemma kv_same_trans : forall a b c, kv_same a b -> kv_same b c -> kv_same a c.
Proof. intros a b c [A1 A2] [B1 B2]. split; [congruence|intros; rewrite B2; auto]. Qed.

Lemma tick_one : forall s i,
  (forall g, nth_error (es_rs s) i = Some g -> stable_pc (g_pc g)) ->
  kv_same (es_kv s) (es_kv (tick_step s i)) /\
  es_rs (tick_step s i) =
    match nth_error (es_rs s) i with
    | Some g => upd i (tick_reg (e_lease_live (es_kv s)) g) (es_rs s)
    | None => es_rs s
    end.
Proof.
  intros s i Hst. unfold tick_step.
  destruct (nth_error (es_rs s) i) as [g|] eqn:Hg.
  2:{ assert (H1 : try_step estep s (GTick i) = s) by (unfold try_step, estep; rewrite Hg; reflexivity).
      assert (H2 : try_step estep s (GRevokeOwn i) = s) by (unfold try_step, estep; rewrite Hg; reflexivity).
      rewrite H1, H2. split; [apply kv_same_refl|reflexivity]. }
  assert (Hlen : (i < length (es_rs s))%nat) by (apply nth_error_Some; congruence).
  destruct (Hst g eq_refl) as [Hp|[Hp|[Hp|[e Hp]]]].
  1,3,4: assert (H1 : try_step estep s (GTick i) = s) by (unfold try_step, estep; rewrite Hg, Hp; reflexivity);
         assert (H2 : try_step estep s (GRevokeOwn i) = s) by (unfold try_step, estep; rewrite Hg, Hp; reflexivity);
         rewrite H1, H2; split; [apply kv_same_refl|]; unfold tick_reg; rewrite Hp;
         symmetry; apply upd_same_id; auto.
  (* active *)
  destruct (e_keepalive (es_kv s) (g_lease g)) as [alive kv1] eqn:Hka.
  pose proof (keepalive_shape _ _ _ _ Hka) as (Hk & _ & _ & Hl & Hb).
  unfold tick_reg. rewrite Hp, <- Hb.
  destruct alive.
  - assert (H1 : try_step estep s (GTick i) = mkES kv1 (es_rs s)).
    { unfold try_step, estep. rewrite Hg, Hp, Hka. unfold ewith. rewrite upd_same_id; auto. }
    assert (H2 : try_step estep (mkES kv1 (es_rs s)) (GRevokeOwn i) = mkES kv1 (es_rs s)).
    { unfold try_step, estep. cbn [es_rs]. rewrite Hg, Hp. reflexivity. }
    rewrite H1, H2. cbn [es_kv es_rs]. split.
    + split; auto. intros x. apply live_ids_eq; auto.
    + symmetry. apply upd_same_id; auto.
  - assert (H1 : try_step estep s (GTick i) = mkES (es_kv s) (upd i (eset g ERevoking) (es_rs s))).
    { unfold try_step, estep. rewrite Hg, Hp, Hka. reflexivity. }
    rewrite H1. unfold try_step, estep. cbn [es_rs es_kv]. rewrite nth_error_upd_same by auto. cbn [g_pc eset g_lease].
    unfold ewith. cbn [es_rs es_kv]. rewrite upd_upd.
    assert (Hrev : snd (e_revoke (es_kv s) (g_lease g)) = es_kv s).
    { unfold e_revoke. rewrite <- Hb. reflexivity. }
    rewrite Hrev. split; [apply kv_same_refl|reflexivity].
Qed.

Lemma tick_reg_stable : forall lv g, stable_pc (g_pc g) -> stable_pc (g_pc (tick_reg lv g)).
Proof.
  intros lv g H. unfold tick_reg. destruct (g_pc g) eqn:E; try (rewrite E; exact H).
  destruct (lv (g_lease g)); [rewrite E; exact H|]. right; right; left; reflexivity.
Qed.

Lemma tick_reg_idem : forall lv g, tick_reg lv (tick_reg lv g) = tick_reg lv g.
Proof.
  intros lv g. remember (tick_reg lv g) as h eqn:Hh. unfold tick_reg in Hh.
  destruct (g_pc g) eqn:E; subst h; try (unfold tick_reg; rewrite E; reflexivity).
  destruct (lv (g_lease g)) eqn:L.
  - unfold tick_reg. rewrite E, L. reflexivity.
  - reflexivity.
Qed.

Lemma tick_reg_lease : forall lv g, g_lease (tick_reg lv g) = g_lease g.
Proof. intros lv g. unfold tick_reg. destruct (g_pc g); auto. destruct (lv (g_lease g)); auto. Qed.

(* the loop over all registrants *)
Lemma tick_fold : forall l s,
  (forall g, In g (es_rs s) -> stable_pc (g_pc g)) ->
  let s' := fold_left tick_step l s in
  kv_same (es_kv s) (es_kv s') /\
  (forall g, In g (es_rs s') -> stable_pc (g_pc g)) /\
  (forall j, nth_error (es_rs s') j =
     match nth_error (es_rs s) j with
     | Some g => Some (if existsb (Nat.eqb j) l then tick_reg (e_lease_live (es_kv s)) g else g)
     | None => None
     end).
Proof.
  induction l as [|i t IH]; intros s Hst; simpl.
  - split; [apply kv_same_refl|]. split; auto. intros j. destruct (nth_error (es_rs s) j); auto.
  - destruct (tick_one s i) as [Hkv Hrs]; [intros g Hg; apply Hst; eapply nth_error_In; eauto|].
    set (s1 := tick_step s i) in *.
    assert (Hst1 : forall g, In g (es_rs s1) -> stable_pc (g_pc g)).
    { intros g Hg. rewrite Hrs in Hg. destruct (nth_error (es_rs s) i) as [gi|] eqn:Hi; auto.
      apply In_upd in Hg. destruct Hg as [->|Hg]; auto. apply tick_reg_stable. apply Hst. eapply nth_error_In; eauto. }
    destruct (IH s1 Hst1) as (Hkv' & Hst' & Hnth').
    split; [eapply kv_same_trans; eauto|]. split; auto.
    intros j. rewrite Hnth'.
    assert (Hlv : forall g, tick_reg (e_lease_live (es_kv s1)) g = tick_reg (e_lease_live (es_kv s)) g).
    { intros g. unfold tick_reg. destruct (g_pc g); auto. rewrite (ks_live _ _ Hkv). reflexivity. }
    rewrite Hrs. destruct (nth_error (es_rs s) i) as [gi|] eqn:Hi.
    + destruct (Nat.eq_dec j i) as [->|Hj].
      * rewrite nth_error_upd_same by (apply nth_error_Some; congruence). rewrite Hi, Nat.eqb_refl. cbn [orb].
        destruct (existsb (Nat.eqb i) t); rewrite ?Hlv, ?tick_reg_idem; reflexivity.
      * rewrite nth_error_upd_other by auto.
        assert (Nat.eqb j i = false) as -> by (apply Nat.eqb_neq; auto). cbn [orb].
        destruct (nth_error (es_rs s) j); auto. rewrite Hlv. reflexivity.
    + destruct (nth_error (es_rs s) j) as [gj|] eqn:Hjn; auto.
      assert (Nat.eqb j i = false) as -> by (apply Nat.eqb_neq; intro; subst; congruence). cbn [orb].
      rewrite Hlv. reflexivity.
Qed.

Lemma existsb_seq : forall j n, (j < n)%nat -> existsb (Nat.eqb j) (seq 0 n) = true.
Proof.
  intros j n H. apply existsb_exists. exists j. split; [apply in_seq; lia|apply Nat.eqb_refl].
Qed.

Lemma tick_all_shape : forall s,
  (forall g, In g (es_rs s) -> stable_pc (g_pc g)) ->
  let s' := fst (e_mop s MTickAll) in
  kv_same (es_kv s) (es_kv s') /\
  (forall g, In g (es_rs s') -> stable_pc (g_pc g)) /\
  (forall j, nth_error (es_rs s') j = option_map (tick_reg (e_lease_live (es_kv s))) (nth_error (es_rs s) j)).
Proof.
  intros s Hst. cbn [e_mop fst].
  change (fold_left (fun st i => try_step estep (try_step estep st (GTick i)) (GRevokeOwn i))
                    (seq 0 (length (es_rs s))) s)
    with (fold_left tick_step (seq 0 (length (es_rs s))) s).
  destruct (tick_fold (seq 0 (length (es_rs s))) s Hst) as (A & B & C).
  split; auto. split; auto. intros j. rewrite C.
  destruct (nth_error (es_rs s) j) as [g|] eqn:E; auto. simpl.
  rewrite existsb_seq; auto. apply nth_error_Some. congruence.
Qed.

Lemma list_eq_nth_error {A} : forall (l l' : list A), (forall j, nth_error l j = nth_error l' j) -> l = l'.
Proof.
  induction l as [|a t IH]; intros [|b u] H; auto.
  - specialize (H O). discriminate.
  - specialize (H O). discriminate.
  - pose proof (H O) as H0. simpl in H0. inversion H0; subst. f_equal. apply IH. intros j. apply (H (S j)).
Qed.

Lemma owner0_none : forall s, key_present s = false -> e_owner_idx s = None.
Proof.
  intros s H. unfold key_present in H. rewrite owner_idx_unfold. unfold e_owner_lease.
  destruct (e_key s); [discriminate|reflexivity].
Qed.

Lemma tick_ok : forall v s, ms s -> vr v s -> step_ok_for v s MTickAll.
Proof.
  intros v s M V. unfold step_ok_for.
  pose proof (ms_reach_mop s MTickAll M) as R'.
  pose proof (reachable_lease_ok s (ms_reach s M)) as LK.
  pose proof V as [Vk Vo Va].
  destruct (tick_all_shape s (ms_stable s M)) as (Hkv & Hst1 & Hnth).
  set (s1 := fst (e_mop s MTickAll)) in *.
  assert (Hm : e_mop s MTickAll = (s1, e_obs s1 ResNone true)) by reflexivity.
  rewrite Hm. clear Hm.
  set (lv := e_lease_live (es_kv s)) in *.
  assert (Hleases : map g_lease (es_rs s1) = map g_lease (es_rs s)).
  { apply list_eq_nth_error. intros j. rewrite !nth_error_map, Hnth.
    destruct (nth_error (es_rs s) j); simpl; auto. rewrite tick_reg_lease. reflexivity. }
  assert (Hkp : key_present s1 = key_present s) by (apply key_present_ext; apply (ks_kvs _ _ Hkv)).
  assert (Hoi : e_owner_idx s1 = e_owner_idx s) by (apply owner_idx_ext; [apply (ks_kvs _ _ Hkv)|exact Hleases]).
  assert (Hact1 : forall j, active_at s1 j <-> exists g, nth_error (es_rs s) j = Some g /\ g_pc g = EActive /\ lv (g_lease g) = true).
  { intros j. unfold active_at. rewrite Hnth. split.
    - intros (g1 & E1 & P1). destruct (nth_error (es_rs s) j) as [g|] eqn:Eg; [|discriminate].
      simpl in E1. inversion E1; subst g1. exists g. split; auto.
      unfold tick_reg in P1. destruct (g_pc g) eqn:Pg; try congruence.
      destruct (lv (g_lease g)) eqn:L; auto. simpl in P1. discriminate.
    - intros (g & Eg & Pg & L). rewrite Eg. simpl. eexists. split; [reflexivity|].
      unfold tick_reg. rewrite Pg, L. exact Pg. }
  assert (Hclosed : forall j g, nth_error (es_rs s) j = Some g -> g_pc g = EActive ->
                    closed_at (e_obs s1 ResNone true) j = negb (lv (g_lease g))).
  { intros j g Eg Pg. rewrite closed_at_obs, Hnth, Eg. simpl. unfold tick_reg. rewrite Pg.
    destruct (lv (g_lease g)); unfold is_closed; [rewrite Pg|]; reflexivity. }
  assert (Hfilter : forall j, In j (filter (fun i => negb (closed_at (e_obs s1 ResNone true) i)) (v_active v))
                              <-> active_at s1 j).
  { intros j. rewrite filter_In, Hact1. split.
    - intros [Hin Hc]. apply Va in Hin. destruct Hin as (g & Eg & Pg). exists g. split; auto. split; auto.
      rewrite (Hclosed j g Eg Pg) in Hc. rewrite negb_involutive in Hc. exact Hc.
    - intros (g & Eg & Pg & L). split; [apply Va; exists g; auto|].
      rewrite (Hclosed j g Eg Pg), L. reflexivity. }
  (* shape of ok_step for the plain etcd mode *)
  cbn [ok_step is_w is_etcd mode_of andb negb orb].
  cbn [e_obs o_key]. fold (key_present s1). rewrite Hkp.
  set (act := filter (fun i => negb (closed_at (e_obs s1 ResNone true) i)) (v_active v)) in *.
  assert (Hcheck : forallb (fun i => key_present s &&
             onat_eqb (if key_present s then (if key_present s then v_owner v else None) else None) (Some i)) act = true).
  { apply forallb_forall. intros j Hj. apply Hfilter in Hj. apply Hact1 in Hj. destruct Hj as (g & Eg & Pg & L).
    pose proof (ereachable_ok s (ms_reach s M)) as (_ & _ & _ & _ & _ & A).
    destruct (A g (nth_error_In _ _ Eg)) as [x [E Ex]]; [left; auto|exact L|].
    destruct (key_one s x E) as (_ & K2 & _). rewrite K2. cbn [andb].
    destruct (ms_owner_idx s x M E) as (c & gown & Hc & Hpc & Elc & Ho).
    assert (c = j).
    { destruct LK as (_ & _ & C). eapply C; eauto; try congruence.
      rewrite Elc, Ex. pose proof (active_lease_pos s j g (ms_reach s M) Eg Pg). lia. }
    subst c. rewrite Vo, Ho. simpl. apply Nat.eqb_refl. }
  destruct (key_present s) eqn:Kp.
  - rewrite Hcheck. split; auto. split.
    + split; auto. intros x Ex. rewrite (ks_kvs _ _ Hkv) in Ex.
      destruct (ms_owner_idx s x M Ex) as (c & gown & Hc & Hpc & Elc & _).
      destruct (kvs_cases s (ms_reach s M)) as [E0|[x0 [E0 Lx0]]]; [congruence|].
      assert (x0 = x) by congruence. subst x0.
      assert (active_at s1 c) as (g1 & E1 & P1).
      { apply Hact1. exists gown. split; auto. split; auto. unfold lv. rewrite Elc. exact Lx0. }
      exists c, g1. split; auto. split; auto.
      rewrite Hnth, Hc in E1. simpl in E1. inversion E1. rewrite tick_reg_lease. exact Elc.
    + split; cbn [v_key v_owner v_active]; auto; try congruence.
  - rewrite Hcheck. split; auto. split.
    + split; auto. intros x Ex. rewrite (ks_kvs _ _ Hkv) in Ex.
      destruct (key_one s x Ex) as (_ & K2 & _). congruence.
    + split; cbn [v_key v_owner v_active]; auto; try congruence.
      rewrite Hoi. symmetry. apply owner0_none. exact Kp.
Qed.

(* ---- all schedules ---- *)
Lemma op_ok : forall v s m, ms s -> vr v s ->
  match m with MReg i => e_can_reg s i = true | _ => True end -> step_ok_for v s m.
Proof.
  intros v s m M V L. destruct m.
  - apply reg_ok; auto.
  - apply lapse_ok; auto.
  - apply tick_ok; auto.
  - apply stop_ok; auto.
Qed.

Lemma ok_run_model : forall ops v s, ms s -> vr v s -> e_legal s ops = true ->
  ok_run BEtcd v ops (e_run s ops) = true.
Proof.
  induction ops as [|m t IH]; intros v s M V L; [reflexivity|].
  cbn [e_legal] in L. apply andb_true_iff in L. destruct L as [L1 L2].
  assert (Hop : step_ok_for v s m).
  { apply op_ok; auto. destruct m; auto. }
  unfold step_ok_for in Hop. cbn [e_run].
  destruct (e_mop s m) as [s' o] eqn:Em. cbn [ok_run].
  destruct (ok_step BEtcd v m o) as [r v'] eqn:Eo.
  destruct Hop as (Hr & M' & V'). rewrite Hr. cbn [andb].
  apply IH; auto.
Qed.

Lemma init_regs : forall l kv rs,
  run_skip estep (mkES kv rs) (map GNew l) = mkES kv (rs ++ map (fun ttl => mkEreg EInit 0 ttl) l).
Proof.
  induction l as [|a t IH]; intros kv rs; simpl.
  - rewrite app_nil_r. reflexivity.
  - rewrite IH. rewrite <- app_assoc. reflexivity.
Qed.

Lemma init_ms_vr : forall ttls,
  let s0 := run_skip estep esys_init (map GNew ttls) in
  ms s0 /\ vr (mkView [] None false None) s0.
Proof.
  intros ttls s0.
  assert (Hs0 : s0 = mkES etcd_init (map (fun ttl => mkEreg EInit 0 ttl) ttls)).
  { unfold s0, esys_init. rewrite init_regs. reflexivity. }
  assert (Hinit : forall g, In g (es_rs s0) -> g_pc g = EInit).
  { intros g Hg. rewrite Hs0 in Hg. cbn [es_rs] in Hg. apply in_map_iff in Hg. destruct Hg as [t [<- _]]. reflexivity. }
  assert (E : e_kvs (es_kv s0) = []) by (rewrite Hs0; reflexivity).
  destruct (key_empty s0 E) as (K1 & K2 & K3).
  split.
  - split.
    + apply e_init_reach.
    + intros g Hg. left. auto.
    + intros x Ex. rewrite E in Ex. discriminate.
  - split; cbn [v_key v_owner v_active]; auto.
    intros i. split; [intros []|]. intros (g & Hg & Hp).
    rewrite (Hinit g (nth_error_In _ _ Hg)) in Hp. discriminate.
Qed.

(* the boolean reflection of C26 is true on what the etcd model produces, for every
   schedule the harness can produce (a registrant is (re)started only when it is
   not registered), of any length, over any number of registrants *)
Theorem ok_accepts_etcd_model : forall ttls ops,
  e_legal (run_skip estep esys_init (map GNew ttls)) ops = true ->
  ok (mkCase BEtcd ttls ops (model_obs (mkCase BEtcd ttls ops []))) = true.
Proof.
  intros ttls ops L. unfold ok, model_obs. cbn [k_backend k_ttls k_ops k_obs].
  destruct (init_ms_vr ttls) as [M V]. apply ok_run_model; auto.
Qed.
