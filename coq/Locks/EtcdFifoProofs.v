(* Locks/EtcdFifoProofs.v — bounded response of etcd lock waiters: nobody overtakes
   a waiter.  The number of keys ahead of a waiting contender (smaller create
   revision) never increases under any step of anybody, so after the finitely
   many contenders ahead of it have released / failed / lost their leases the
   waiter has nobody ahead and acquires in its next two own steps
   (EtcdLockProofs.etcd_wait_acquires). *)
From Coq Require Import List Bool ZArith Lia Arith.
From Verif Require Import Base.KV Base.KVProofs Locks.Interleave Locks.InterleaveProofs
  Locks.LockLog Locks.EtcdLock Locks.EtcdLockProofs.
Import ListNotations.
Local Open Scope Z_scope.

Local Notation live kv l := (e_lease_live kv l = true).

(* every step extends the store in the sense of [ext] (for some set of removed keys) *)
Lemma step_ext : forall s l s', sys_ok s -> step s l = Some s' -> exists R, ext R (s_kv s) (s_kv s').
Proof.
  intros s l s' Hok H. pose proof Hok as (Hkv & Hnd & Hrange & Hcs).
  assert (Hsame : forall cs', ext none_removed (s_kv s) (s_kv (mkSys (s_kv s) cs'))) by (intros; apply ext_refl).
  destruct l; unfold step in H; cbv zeta in H;
    try (destruct (nth_error (s_cs s) i) as [c|] eqn:Hc; [|discriminate];
         assert (Hin : In c (s_cs s)) by (eapply nth_error_In; eauto);
         destruct (Hrange c Hin) as [Hpos Hlt]).
  - destruct (e_grant (s_kv s) ttl) as [id kv'] eqn:Hg. inversion H; subst s'.
    destruct (grant_ok _ _ _ _ Hkv Hg) as (_ & Hext & _). eexists; exact Hext.
  - destruct (c_pc c); try discriminate. unfold with_c in H; inversion H; subst. exists none_removed; apply ext_refl.
  - destruct (c_pc c); try discriminate. unfold step_acq, e_put_if_absent in H.
    destruct (e_get Z.eqb (s_kv s) (c_lease c)) eqn:Hg.
    + destruct (match e_first_create (s_kv s) all_keys with
                | Some x => ek_create x =? e_create_rev Z.eqb (s_kv s) (c_lease c) | None => true end);
        unfold with_c in H; inversion H; subst; exists none_removed; apply ext_refl.
    + destruct (e_put Z.eqb (s_kv s) (c_lease c) tt (c_lease c)) as [kv'|] eqn:Hp.
      * destruct (put_new_ok _ _ _ Hkv Hpos Hg Hp) as (_ & Hext & _).
        destruct (match e_first_create kv' all_keys with
                  | Some x => ek_create x =? e_rev kv' | None => true end);
          unfold with_c in H; inversion H; subst; eexists; exact Hext.
      * unfold with_c in H; inversion H; subst; exists none_removed; apply ext_refl.
  - destruct (c_pc c); try discriminate.
    destruct (e_last_create_upto (s_kv s) all_keys (c_rev c - 1)); [inversion H; subst|
      unfold with_c in H; inversion H; subst]; exists none_removed; apply ext_refl.
  - destruct (c_pc c); try discriminate.
    destruct (e_get Z.eqb (s_kv s) (c_lease c)); unfold with_c in H; inversion H; subst; exists none_removed; apply ext_refl.
  - destruct (c_pc c); try discriminate; unfold with_c in H; inversion H; subst; exists none_removed; apply ext_refl.
  - destruct (e_delete Z.eqb (s_kv s) (c_lease c)) as [n kv'] eqn:Hd.
    destruct (delete_ok _ _ _ _ Hkv Hd) as (_ & Hext & _).
    destruct (c_pc c); try discriminate; unfold with_c in H; simpl in H; inversion H; subst; eexists; exact Hext.
  - destruct (c_pc c); try discriminate; unfold with_c in H; inversion H; subst; exists none_removed; apply ext_refl.
  - destruct (c_pc c); try discriminate. unfold with_c in H; inversion H; subst s'. simpl.
    unfold e_delete_if_create. destruct (Z.eqb _ _); simpl; [|exists none_removed; apply ext_refl].
    destruct (e_delete Z.eqb (s_kv s) (c_lease c)) as [n kv'] eqn:Hd.
    destruct (delete_ok _ _ _ _ Hkv Hd) as (_ & Hext & _). eexists; exact Hext.
  - destruct (c_pc c); try discriminate. unfold with_c in H; inversion H; subst s'. simpl.
    destruct (revoke_ok (s_kv s) (c_lease c) Hkv) as (_ & Hext & _). eexists; exact Hext.
  - inversion H; subst s'. simpl. destruct (revoke_ok (s_kv s) l Hkv) as (_ & Hext & _). eexists; exact Hext.
  - destruct (Z.ltb d 0); [discriminate|]. inversion H; subst s'. simpl.
    destruct (tick_ok (s_kv s) d Hkv) as [_ Hext]. eexists; exact Hext.
  - destruct (c_sdone c); [discriminate|].
    destruct (e_keepalive (s_kv s) (c_lease c)) as [alive kv'] eqn:Hka.
    destruct (keepalive_ok _ _ _ _ Hkv Hka) as (_ & Hext & _).
    destruct alive; unfold with_c in H; inversion H; subst; [eexists; exact Hext|exists none_removed; apply ext_refl].
  - destruct (c_w c); try discriminate. destruct (c_sdone c); [|discriminate].
    destruct (c_locked c); unfold with_c in H; inversion H; subst; exists none_removed; apply ext_refl.
  - destruct (c_pc c); try discriminate. unfold e_put_if_absent in H.
    destruct (e_get Z.eqb (s_kv s) (c_lease c)) eqn:Hg.
    + unfold with_c in H; inversion H; subst; exists none_removed; apply ext_refl.
    + destruct (e_put Z.eqb (s_kv s) (c_lease c) tt (c_lease c)) as [kv'|] eqn:Hp;
        unfold with_c in H; inversion H; subst.
      * destruct (put_new_ok _ _ _ Hkv Hpos Hg Hp) as (_ & Hext & _). eexists; exact Hext.
      * exists none_removed; apply ext_refl.
  - destruct (c_w c); try discriminate. unfold with_c in H; inversion H; subst; exists none_removed; apply ext_refl.
  - destruct (c_pc c); try discriminate. unfold with_c in H; inversion H; subst; exists none_removed; apply ext_refl.
Qed.

(* a waiting contender keeps its record under every step that leaves it waiting *)
Lemma waiting_rev_stable : forall s l s' i c c',
  step s l = Some s' -> nth_error (s_cs s) i = Some c -> nth_error (s_cs s') i = Some c' ->
  c_pc c = Waiting -> c_pc c' = Waiting -> c_rev c' = c_rev c.
Proof.
  intros s l s' i c c' H Hi Hi' Hp Hp'.
  destruct l; unfold step in H; cbv zeta in H;
    try (destruct (nth_error (s_cs s) i0) as [c0|] eqn:Hc0; [|discriminate];
         destruct (Nat.eq_dec i0 i) as [->|Hne];
         [rewrite Hi in Hc0; inversion Hc0; subst c0; rewrite ?Hp in H|]).
  1: { destruct (e_grant (s_kv s) ttl). inversion H; subst s'. simpl in Hi'.
       rewrite nth_error_app1 in Hi' by (apply nth_error_Some; congruence). congruence. }
  all: try discriminate.
  all: try (repeat match type of H with
            | match ?x with _ => _ end = Some _ => destruct x; try discriminate
            | (if ?b then _ else _) = Some _ => destruct b; try discriminate
            | (let '(_, _) := ?x in _) = Some _ => destruct x
            | step_acq _ _ _ _ = Some _ => unfold step_acq in H
            end;
            unfold with_c in H; inversion H; subst s'; simpl in Hi';
            first [ rewrite nth_error_upd_other in Hi' by auto; congruence
                  | rewrite nth_error_upd_same in Hi' by (apply nth_error_Some; congruence);
                    inversion Hi'; subst c'; simpl in *; congruence
                  | congruence ]).
Qed.

Lemma NoDup_map_NoDup {A B} (f : A -> B) : forall l, NoDup (map f l) -> NoDup l.
Proof.
  induction l as [|a t IH]; intros H; [constructor|]. inversion H; subst. constructor; auto.
  intro Hi. apply H2. apply in_map; auto.
Qed.

(* nobody overtakes a waiter with a live lease *)
Theorem etcd_ahead_mono : forall s l s' i c c',
  reachable step sys_init s -> step s l = Some s' ->
  nth_error (s_cs s) i = Some c -> nth_error (s_cs s') i = Some c' ->
  c_pc c = Waiting -> c_pc c' = Waiting -> live (s_kv s) (c_lease c) ->
  (ahead s' c' <= ahead s c)%nat.
Proof.
  intros s l s' i c c' Hr H Hi Hi' Hp Hp' Hl.
  pose proof (reachable_ok _ Hr) as Hok. pose proof Hok as (Hkv & Hnd & Hrange & Hcs).
  assert (Hrev : c_rev c' = c_rev c) by (eapply waiting_rev_stable; eauto).
  destruct (step_ext _ _ _ Hok H) as [R (_ & _ & _ & D & _)].
  destruct (Hcs c (nth_error_In _ _ Hi)) as [Cc _]. destruct (Cc Hl) as [H1 _].
  destruct H1 as [x0 [Hx0 [_ Ec]]]; [left; auto|].
  assert (Hle : c_rev c <= e_rev (s_kv s)).
  { destruct Hkv as (_ & K1 & _). apply K1 in Hx0. lia. }
  assert (Hok' : sys_ok s') by (eapply step_ok; eauto). destruct Hok' as (Hkv' & _).
  unfold ahead, countb. rewrite Hrev.
  apply NoDup_incl_length.
  - apply NoDup_filter. destruct Hkv' as (_ & _ & K2 & _). eapply NoDup_map_NoDup; eauto.
  - intros x Hx. apply filter_In in Hx. destruct Hx as [Hx Hlt]. apply Z.ltb_lt in Hlt.
    apply filter_In. split; [|apply Z.ltb_lt; auto].
    destruct (D x Hx); auto. lia.
Qed.
