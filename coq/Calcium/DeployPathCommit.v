(* Calcium/DeployPathCommit.v — the commit step of the composed deploy path: after
   the planned count has been allocated on a node (Manager.Alloc = CalculateDeploy +
   SetNodeResourceUsage), the node's capacity is unchanged and its memory usage is
   the usage before plus count * memory request; the number of workload resources
   recorded is the planned count.  Composes DeployPathProofs (allocation accepted)
   with builder B/C's commit_usage lemmas and deploy_struct. *)
From Coq Require Import String Ascii.
From Coq Require Import List Bool ZArith Arith Lia Permutation.
From Verif Require Import Base.GoInt Base.GoFloat Cpumem.Types Cpumem.Schedule Cpumem.Calc
  Cpumem.BookProofs Cpumem.SchedProofsDeploy Cobalt.Merge Cobalt.Capacity Cobalt.CapacityProofs
  Strategy.Model Strategy.Glue Calcium.DeployPath Calcium.DeployPathProofs.
Import ListNotations.
Local Open Scope Z_scope.

Lemma zs_mk_wr req (l : list (string * plan)) :
  zs wr_mem_req (map (mk_wr req) l) = Z.of_nat (length l) * rq_mem_req req.
Proof.
  unfold zs. induction l as [|x t IH]; [reflexivity|].
  cbn [map fold_right length]. rewrite IH. unfold mk_wr at 1. cbn [wr_mem_req]. lia.
Qed.

Section Commit.
Variable sortf : list keyed -> outcome (list keyed).
Variables (base maxshare : Z) (raw req : wreq) (orders : string -> list string).

(* an accepted allocation of [count] >= 0 instances records [count] workloads whose
   memory requests sum to count * request, and leaves the capacity alone *)
Lemma accepted_commit (n : pnode) count eps ws :
  wreq_validate raw = inr req -> 0 <= count ->
  calculate_deploy_g sortf (snd n) base maxshare count raw (orders (fst n)) (default_fuel (snd n)) = Types.Ok (inr (eps, ws)) ->
  length ws = Z.to_nat count /\
  ni_cap (commit_usage (snd n) ws) = ni_cap (snd n) /\
  nr_mem (ni_usage (commit_usage (snd n) ws)) = nr_mem (ni_usage (snd n)) + count * rq_mem_req req.
Proof.
  intros Hv Hc H. rewrite commit_usage_cap, commit_usage_mem.
  destruct (rq_bind req) eqn:Eb.
  - destruct (deploy_struct sortf _ _ _ _ _ _ _ _ _ _ H Hv Eb) as (plans & _ & Hle & _ & ->).
    rewrite zs_mk_wr, map_length, !firstn_length_le by lia.
    split; [reflexivity|]. split; [reflexivity|]. rewrite Z2Nat.id by lia. reflexivity.
  - unfold calculate_deploy_g in H. rewrite Hv, Eb in H. cbn [negb] in H.
    injection H as H. unfold do_alloc_by_memory in H.
    destruct (fgt _ _); [discriminate|]. destruct (_ && _); [discriminate|].
    injection H as _ <-. rewrite repeat_n_mem. cbn [wr_mem_req].
    assert (Hlen : forall (A : Type) k (x : A), length (repeat_n k x) = k) by (induction k; simpl; auto).
    rewrite Hlen. split; [reflexivity|]. split; [reflexivity|]. rewrite Z2Nat.id by lia. reflexivity.
Qed.

(* (d) along the path: every node that received instances ends with its capacity
   unchanged and memory usage = usage + planned count * request *)
Theorem deploy_path_commit nodes caps morder status need limit s p n :
  path_hyps sortf base maxshare raw req orders nodes caps morder status need limit ->
  deploy_path sortf base maxshare raw orders nodes morder status s need limit = PResult (Model.Ok p) ->
  In n nodes -> 1 <= mget p (fst n) ->
  exists info', node_after sortf base maxshare raw orders n (mget p (fst n)) = Some info' /\
    ni_cap info' = ni_cap (snd n) /\
    nr_mem (ni_usage info') = nr_mem (ni_usage (snd n)) + mget p (fst n) * rq_mem_req req.
Proof.
  intros Hh Hd Hn Hp.
  pose proof (deploy_path_alloc_accepted sortf base maxshare raw req orders nodes caps morder status need limit s p n Hh Hd Hn Hp) as Ha.
  destruct Hh as (Hv & _).
  unfold alloc_accepts in Ha. unfold node_after.
  destruct (calculate_deploy_g sortf (snd n) base maxshare (mget p (fst n)) raw (orders (fst n)) (default_fuel (snd n)))
    as [[e|[eps ws]]| | |] eqn:E; try discriminate.
  destruct (accepted_commit n (mget p (fst n)) eps ws Hv ltac:(lia) E) as (_ & H2 & H3).
  eexists. split; [reflexivity|]. simpl. split; assumption.
Qed.
End Commit.

(* ======================================================================== *)
(* CPU side of the commit step                                               *)
(* ======================================================================== *)
From Verif Require Import Cpumem.SchedCase Cpumem.SchedProofsFit Cpumem.SchedProofsFit2 Cpumem.SchedProofsTop
  Cpumem.SchedProofsCommit.

Section CommitCPU.
Variable sortf : list keyed -> outcome (list keyed).
Hypothesis sortf_perm : forall l, exists l', sortf l = Types.Ok l' /\ Permutation l' l.
Variables (base maxshare : Z) (raw req : wreq) (orders : string -> list string).

(* the recorded cpu maps of an accepted allocation have distinct cores *)
Lemma accepted_cpumaps_nodup (n : pnode) count eps ws :
  wreq_validate raw = inr req -> 0 < base -> wf_maps (snd n) -> NoDup (orders (fst n)) ->
  calculate_deploy_g sortf (snd n) base maxshare count raw (orders (fst n)) (default_fuel (snd n)) = Types.Ok (inr (eps, ws)) ->
  Forall (fun w => NoDup (keys (wr_cpumap w)) /\ NoDup (keys (wr_numamem w))) ws.
Proof.
  intros Hv Hb Wf Nd H. destruct (rq_bind req) eqn:Eb.
  - destruct (deploy_struct sortf _ _ _ _ _ _ _ _ _ _ H Hv Eb) as (plans & Ep & _ & _ & ->).
    destruct (get_cpu_plans_content sortf sortf_perm _ _ _ _ _ _ _ _ Ep Hb (proj2 Wf) Nd (avail_nodup (snd n) Wf))
      as (_ & _ & Sh).
    apply Forall_forall. intros w Hw. apply in_map_iff in Hw. destruct Hw as (tp & <- & Htp).
    assert (Htp' : In tp plans).
    { clear -Htp. revert Htp. generalize (Z.to_nat count) as k. induction plans as [|h t IH]; intros [|k] H; simpl in *; try tauto.
      destruct H as [->|H]; [left; reflexivity|right; eapply IH; eauto]. }
    destruct (Sh tp Htp') as (IDS & _ & p0 & fr & _ & Hnd & _). split; [exact Hnd|].
    unfold mk_wr. cbn [wr_numamem]. destruct (fst tp); [constructor|]. simpl. constructor; [tauto|constructor].
  - unfold calculate_deploy_g in H. rewrite Hv, Eb in H. cbn [negb] in H.
    injection H as H. unfold do_alloc_by_memory in H.
    destruct (fgt _ _); [discriminate|]. destruct (_ && _); [discriminate|].
    injection H as _ <-. apply Forall_forall. intros w Hw. apply repeat_n_in in Hw. subst w.
    simpl. split; constructor.
Qed.

(* (d, cpu) along the path: on every node that received instances the usage of every core
   grows by exactly what the recorded workloads bind on it, and the node record stays valid
   (in particular: per-core usage <= capacity, memory usage <= capacity) *)
Theorem deploy_path_commit_cpu nodes caps morder status need limit s p n :
  path_hyps sortf base maxshare raw req orders nodes caps morder status need limit ->
  0 < base -> valid_node (snd n) = true -> NoDup (orders (fst n)) -> ~ In EmptyString (orders (fst n)) ->
  deploy_path sortf base maxshare raw orders nodes morder status s need limit = PResult (Model.Ok p) ->
  In n nodes -> 1 <= mget p (fst n) ->
  exists eps ws,
    calculate_deploy_g sortf (snd n) base maxshare (mget p (fst n)) raw (orders (fst n)) (default_fuel (snd n))
      = Types.Ok (inr (eps, ws)) /\
    node_after sortf base maxshare raw orders n (mget p (fst n)) = Some (commit_usage (snd n) ws) /\
    length ws = Z.to_nat (mget p (fst n)) /\
    (forall id, Types.lookup 0 (nr_cpumap (ni_usage (commit_usage (snd n) ws))) id =
                Types.lookup 0 (nr_cpumap (ni_usage (snd n))) id + used (map wr_cpumap ws) id) /\
    validate_ok (commit_usage (snd n) ws) = true.
Proof.
  intros Hh Hb Hvn Nd Hne Hd Hn Hp.
  pose proof (deploy_path_alloc_accepted sortf base maxshare raw req orders nodes caps morder status need limit s p n Hh Hd Hn Hp) as Ha.
  destruct Hh as (Hv & _).
  unfold alloc_accepts in Ha. unfold node_after.
  destruct (calculate_deploy_g sortf (snd n) base maxshare (mget p (fst n)) raw (orders (fst n)) (default_fuel (snd n)))
    as [[e|[eps ws]]| | |] eqn:E; try discriminate.
  exists eps, ws. split; [reflexivity|]. split; [reflexivity|].
  destruct (accepted_commit sortf base maxshare raw req orders n (mget p (fst n)) eps ws Hv ltac:(lia) E) as (Hl & _ & _).
  split; [exact Hl|].
  destruct (valid_node_wf (snd n) Hvn) as (Wf & _).
  pose proof (accepted_cpumaps_nodup n (mget p (fst n)) eps ws Hv Hb Wf Nd E) as Hnd.
  destruct (commit_fold_spec ws Hnd (ni_usage (snd n))) as (A & _).
  split; [exact A|].
  exact (proj1 (deploy_commit_valid sortf sortf_perm (snd n) base maxshare (mget p (fst n)) raw (orders (fst n))
                  (default_fuel (snd n)) eps ws E Hvn Nd Hne Hb ltac:(lia))).
Qed.
End CommitCPU.
