(* Calcium/LambdaHistory.v — run-and-wait keeps the invariant of the history theorem (whole operation: create, the
   closure of every created workload, the stream's close; EVERY world satisfying Inv, EVERY fault position, no
   hypothesis beyond create's), and the history theorem with run-and-wait as a step. *)
From Coq Require Import List Bool Arith ZArith Lia Permutation.
From Verif Require Import Base.Effects Calcium.World Calcium.Ops Calcium.Run Calcium.EffectsProofs Calcium.OpsProofs Calcium.OpsProofs2 Calcium.InvProofs Calcium.DeployProofs Calcium.DeployProofs2 Calcium.CreateProofs Calcium.CreateProofs2 Calcium.CapProofs Calcium.NodeProofs Calcium.HistoryProofs Calcium.LambdaProofs Calcium.Interleave Calcium.InterleaveOps.
Import ListNotations.
Local Open Scope Z_scope.

(* ---- run-and-wait keeps the invariant ---- *)
(* the calls of the closure's body: reads, engine logs/attach/wait, sends, WAL *)
Definition body_call (c : call) : Prop :=
  match c with
  | SGetWorkload _ | ELogs _ | EAttach _ | EWait _ | Send _ | WLog _ | WCommit _ _ => True
  | _ => False
  end.

Lemma body_call_Inv : forall c w, body_call c -> Inv w -> Inv (fst (exec w c)).
Proof.
  intros c w Hc HI. destruct c; simpl in Hc; try contradiction; cbn [exec].
  - destruct (find_wl w id); exact HI.
  - destruct (find_cont w id); [destruct (ls_logs_err (script w))|]; exact HI.
  - destruct (find_cont w id); [destruct (ls_attach_err (script w))|]; exact HI.
  - destruct (find_cont w id) eqn:E; [destruct (ls_wait_err (script w))|]; try exact HI. cbn [fst].
    apply Inv_conts; [exact HI|]. intros i Hi. apply find_cont_upd_exists. exact Hi.
  - cbn [fst]. eapply Inv_ext; [| | | |exact HI]; reflexivity.
  - cbn [fst]. eapply Inv_ext; [| | | |exact HI]; reflexivity.
  - cbn [fst]. apply Inv_out. exact HI.
Qed.

Lemma safe_keeps : forall (P : call -> Prop) (I : world -> Prop), (forall c w, P c -> I w -> I (fst (exec w c))) ->
  forall A (p : cprog A), safe P I p -> forall w k, I w -> I (after p w k).
Proof.
  intros P I HP A p Hs. induction Hs as [a|c q Hc Hq IHq Hf IHf]; intros w k HI.
  - exact HI.
  - unfold after in *. rewrite crunk_step. unfold step1.
    pose proof (HP c w Hc HI) as HI'. specialize (IHq w HI). 
    destruct (is_faultable c) eqn:Ef.
    + destruct k as [[|j]|].
      * apply IHf; [reflexivity|exact HI].
      * destruct (exec w c) as [w1 r]. apply IHq. exact HI'.
      * destruct (exec w c) as [w1 r]. apply IHq. exact HI'.
    + destruct (exec w c) as [w1 r]. apply IHq. exact HI'.
Qed.

Ltac sq := unfold rok, skip; first [exact (InterleaveOps.sq_ret _ _ (fun _ => True) _ Logic.I) | constructor; exact Logic.I].

Lemma safe_send : forall m, safeq body_call Inv (fun _ => True) (send m).
Proof. intros m. unfold send. apply safeq_ign, safeq_doc. exact Logic.I. Qed.

Lemma safe_send_lines : forall id n, safeq body_call Inv (fun _ => True) (send_lines id n).
Proof.
  induction n as [|n IH]; cbn [send_lines]; [sq|].
  eapply safeq_bind; [apply safe_send|]. intros _ _. exact IH.
Qed.

Lemma safe_lambda_body : forall stdin lines id, safeq body_call Inv (fun _ => True) (lambda_body stdin lines id).
Proof.
  intros stdin lines id. unfold lambda_body.
  eapply safeq_bind; [apply safeq_call1_any; exact Logic.I|]. intros r _. destruct r; try sq.
  eapply safeq_bind; [apply safeq_doc; exact Logic.I|]. intros [e|] _; [sq|].
  eapply safeq_bind.
  - instantiate (1 := fun _ => True). destruct stdin; [apply safeq_doc; exact Logic.I|sq].
  - intros [e|] _; [sq|].
    eapply safeq_bind; [apply safe_send_lines|]. intros _ _.
    eapply safeq_bind; [apply safeq_call1_any; exact Logic.I|]. intros c _. destruct c; sq.
Qed.

Lemma after_ign : forall (p : cprog oerr) w k, after (ign p) w k = after p w k.
Proof. intros. unfold ign. rewrite after_bind. reflexivity. Qed.

Lemma lambda_one_keeps_Inv : forall stdin lines m w k, Inv w -> Inv (after (lambda_one stdin lines m) w k).
Proof.
  intros stdin lines m w k HI.
  assert (Hsend : forall m0 w0 k0, Inv w0 -> Inv (after (send m0) w0 k0)).
  { intros. apply (safe_keeps body_call Inv body_call_Inv _ _ (safeq_safe _ _ _ _ _ (safe_send m0))). assumption. }
  assert (Hrm : forall id w0 k0, Inv w0 -> Inv (after (ign (remove false [id] true)) w0 k0)).
  { intros. rewrite after_ign. apply remove_keeps_Inv; [assumption|left; reflexivity]. }
  destruct m as [|n0|i r0|i0 ok| |i0 e0|o1 o2 o3 o4|i0|i0|i0 c0|]; cbn [lambda_one]; try (apply Hsend; exact HI).
  rewrite after_bind.
  assert (H1 : Inv (after (call1 (WLog (EvLambda i))) w k)).
  { apply (safe_keeps body_call Inv body_call_Inv _ _ (safeq_safe _ _ _ _ _ (safeq_call1_any body_call Inv (WLog (EvLambda i)) Logic.I))). exact HI. }
  destruct (snd (crunk (call1 (WLog (EvLambda i))) w k)).
  all: try (rewrite after_bind; apply Hsend; apply Hrm; exact H1).
  (* RToken *)
  rewrite after_bind. unfold lambda_cleanup. rewrite after_bind. rewrite after_bind.
  apply Hsend.
  match goal with |- Inv (after (ign (doc ?c)) ?W ?K) =>
    apply (safe_keeps body_call Inv body_call_Inv _ _ (safeq_safe _ _ _ _ _ (safeq_ign _ _ _ (safeq_doc body_call Inv c Logic.I)))) end.
  apply Hrm.
  apply (safe_keeps body_call Inv body_call_Inv _ _ (safeq_safe _ _ _ _ _ (safe_lambda_body stdin lines i))). exact H1.
Qed.

Theorem lambda_keeps_Inv : forall opi pod r plan stdin lines w k, create_hyp w opi r plan -> Inv w ->
  Inv (after (lambda opi pod r plan stdin lines) w k).
Proof.
  intros opi pod r plan stdin lines w k Hhyp HI. unfold lambda. rewrite after_bind. rewrite after_bind.
  apply (safe_keeps body_call Inv body_call_Inv _ _ (safeq_safe _ _ _ _ _ (safe_send MClose))).
  apply (for_all_world Inv); [intros m w1 k1 _ H1; apply lambda_one_keeps_Inv; exact H1|].
  apply create_keeps_Inv; assumption.
Qed.

(* ---- the history theorem with run-and-wait as a step ---- *)
Definition valid_step_all (w : world) (s : hstep) : Prop :=
  match fst s with
  | OLambda opi pod count r plan stdin ls =>
    count <> 0%nat -> (stdin = true -> count = 1%nat) -> create_hyp w opi r plan
  | _ => valid_step w s
  end.

Fixpoint valid_hist_all (w : world) (h : list hstep) : Prop :=
  match h with
  | [] => True
  | s :: t => valid_step_all w s /\ valid_hist_all (step_world w s) t
  end.

Lemma step_keeps_Inv_all : forall w o k, Inv w -> valid_step_all w (o, k) -> Inv (step_world w (o, k)).
Proof.
  intros w o k HI Hv.
  destruct o; try (apply step_keeps_Inv; [exact HI|exact Hv]).
  unfold valid_step_all in Hv. cbn [fst] in Hv.
  assert (HI' : Inv (prepare_world w (OLambda opi pod count r plan stdin ls))).
  { unfold prepare_world. eapply Inv_ext; [| | | |exact HI]; reflexivity. }
  unfold step_world. cbn [fst snd script_of].
  destruct (Nat.eqb count 0) eqn:E0; [exact HI'|].
  destruct (stdin && negb (Nat.eqb count 1)) eqn:E1; [exact HI'|].
  unfold unit_ok. rewrite after_bind.
  match goal with |- Inv (after rok ?W ?K) => change (after rok W K) with W end.
  apply lambda_keeps_Inv; [|exact HI'].
  apply Nat.eqb_neq in E0.
  assert (Hc : create_hyp w opi r plan).
  { apply Hv; [exact E0|]. intros ->. simpl in E1. apply negb_false_iff in E1. apply Nat.eqb_eq in E1. exact E1. }
  exact Hc.
Qed.

Theorem history_all_keeps_Inv : forall h w, Inv w -> valid_hist_all w h -> Inv (run_hist w h).
Proof.
  induction h as [|[o k] t IH]; intros w HI Hv.
  - exact HI.
  - destruct Hv as [Hv Ht]. simpl. apply IH; [apply step_keeps_Inv_all; assumption|exact Ht].
Qed.

Corollary history_all_keeps_usage : forall h w, Inv w -> valid_hist_all w h -> use_ok (run_hist w h).
Proof. intros h w HI Hv. apply inv_use. apply history_all_keeps_Inv; assumption. Qed.

Lemma valid_hist_all_of : forall h w, valid_hist w h -> valid_hist_all w h.
Proof.
  induction h as [|[o k] t IH]; intros w Hv; [exact I|]. destruct Hv as [Hv Ht]. split; [|apply IH; exact Ht].
  unfold valid_step_all. destruct o; try exact Hv. destruct Hv.
Qed.
