(* Calcium/InterleaveGen.v — Interleave.v for an arbitrary single-call semantics [ex] (the theorem does not depend on
   what a call does, only on the commutation of the two classes).  Used with [exec_h], the semantics that forgets the
   shared message channel: in the model all operations write to ONE channel [out], in the code each operation has
   its own; under [exec_h] a send is invisible, so operations that only update in place and send messages
   (dissociate) join the commuting family. *)
From Coq Require Import List Bool Arith ZArith Lia.
From Verif Require Import Base.Effects Calcium.World Calcium.Ops Calcium.OpsProofs Calcium.OpsProofs2 Calcium.Interleave.
Import ListNotations.

Section Gen.
Variable ex : world -> call -> world * reply.

Definition crunkx {A} (p : cprog A) (w : world) (k : option nat) := runk call reply world ex fail_reply is_faultable p w k.

Definition step1x (c : call) (w : world) (k : option nat) : world * reply * option nat :=
  if is_faultable c then
    match k with
    | Some O => (w, fail_reply c, None)
    | Some (S j) => let (w', r) := ex w c in (w', r, Some j)
    | None => let (w', r) := ex w c in (w', r, None)
    end
  else let (w', r) := ex w c in (w', r, k).

Lemma crunk_stepx : forall A c (q : reply -> cprog A) w k,
  crunkx (Do c q) w k = let '(w', r, k') := step1x c w k in crunkx (q r) w' k'.
Proof.
  intros. unfold crunkx, step1x. cbn [runk]. destruct (is_faultable c).
  - destruct k as [[|j]|]; [reflexivity| |]; destruct (ex w c); reflexivity.
  - destruct (ex w c); reflexivity.
Qed.

Fixpoint run2x {A B} (sched : list bool) (p1 : cprog A) (k1 : option nat) (p2 : cprog B) (k2 : option nat) (w : world)
  : world * A * B :=
  match sched with
  | [] => let '(w1, _, a) := crunkx p1 w k1 in let '(w2, _, b) := crunkx p2 w1 k2 in (w2, a, b)
  | true :: s =>
    match p1 with
    | Ret _ => run2x s p1 k1 p2 k2 w
    | Do c q => let '(w', r, k1') := step1x c w k1 in run2x s (q r) k1' p2 k2 w'
    end
  | false :: s =>
    match p2 with
    | Ret _ => run2x s p1 k1 p2 k2 w
    | Do c q => let '(w', r, k2') := step1x c w k2 in run2x s p1 k1 (q r) k2' w'
    end
  end.

(* every call the program makes is in P, for every reply a world satisfying I can give (and the injected failure) *)
Inductive safex {A} (P : call -> Prop) (I : world -> Prop) : cprog A -> Prop :=
| safe_retx : forall a, safex P I (Ret a)
| safe_dox : forall c q, P c ->
    (forall w, I w -> safex P I (q (snd (ex w c)))) ->
    (is_faultable c = true -> safex P I (q (fail_reply c))) ->
    safex P I (Do c q).

Section Commutex.
  Variables (P1 P2 : call -> Prop) (I : world -> Prop).
  Hypothesis stable1 : forall c w, P1 c -> I w -> I (fst (ex w c)).
  Hypothesis stable2 : forall c w, P2 c -> I w -> I (fst (ex w c)).
  (* whichever goes first: the same world and the same replies *)
  Hypothesis indep : forall c1 c2 w, P1 c1 -> P2 c2 -> I w ->
    fst (ex (fst (ex w c1)) c2) = fst (ex (fst (ex w c2)) c1) /\
    snd (ex (fst (ex w c1)) c2) = snd (ex w c2) /\
    snd (ex (fst (ex w c2)) c1) = snd (ex w c1).

  Lemma step1_I1x : forall c w k, P1 c -> I w -> I (fst (fst (step1x c w k))).
  Proof.
    intros c w k Hc HI. unfold step1x. pose proof (stable1 c w Hc HI) as H.
    destruct (is_faultable c); [destruct k as [[|j]|]|]; try exact HI; destruct (ex w c); exact H.
  Qed.
  Lemma step1_I2x : forall c w k, P2 c -> I w -> I (fst (fst (step1x c w k))).
  Proof.
    intros c w k Hc HI. unfold step1x. pose proof (stable2 c w Hc HI) as H.
    destruct (is_faultable c); [destruct k as [[|j]|]|]; try exact HI; destruct (ex w c); exact H.
  Qed.

  (* two single steps commute *)
  Lemma step_commx : forall c1 c2 w k1 k2, P1 c1 -> P2 c2 -> I w ->
    let '(wa, r2, k2') := step1x c2 w k2 in
    let '(wab, r1, k1') := step1x c1 wa k1 in
    exists wb, step1x c1 w k1 = (wb, r1, k1') /\ step1x c2 wb k2 = (wab, r2, k2').
  Proof.
    intros c1 c2 w k1 k2 H1 H2 HI. destruct (indep c1 c2 w H1 H2 HI) as [Hw [Hr2 Hr1]].
    unfold step1x.
    destruct (ex w c1) as [w1 r1] eqn:E1. destruct (ex w c2) as [w2 r2] eqn:E2. simpl in *.
    destruct (ex w1 c2) as [w12 r2'] eqn:E12. destruct (ex w2 c1) as [w21 r1'] eqn:E21. simpl in *. subst.
    destruct (is_faultable c2), (is_faultable c1);
      repeat match goal with
             | k : option nat |- _ => destruct k as [[|?]|]
             end;
      repeat (rewrite ?E1, ?E2, ?E12, ?E21; simpl); eexists; split; try reflexivity;
      repeat (rewrite ?E1, ?E2, ?E12, ?E21; simpl); reflexivity.
  Qed.

  (* a step of the second operation can be moved behind a whole run of the first *)
  Lemma hoistx : forall A (p1 : cprog A), safex P1 I p1 -> forall c2 w k1 k2, P2 c2 -> I w ->
    let '(wa, r2, k2') := step1x c2 w k2 in
    let '(wab, k1', a) := crunkx p1 wa k1 in
    exists wb, crunkx p1 w k1 = (wb, k1', a) /\ step1x c2 wb k2 = (wab, r2, k2') /\ I wb.
  Proof.
    intros A p1 Hs. induction Hs as [a|c1 q Hc1 Hq IHq Hf IHf]; intros c2 w k1 k2 Hc2 HI.
    - destruct (step1x c2 w k2) as [[wa r2] k2'] eqn:E. unfold crunkx. cbn [runk]. exists w. auto.
    - pose proof (step_commx c1 c2 w k1 k2 Hc1 Hc2 HI) as Hsc.
      destruct (step1x c2 w k2) as [[wa r2] k2'] eqn:E2.
      rewrite crunk_stepx.
      destruct (step1x c1 wa k1) as [[wab r1] k1'] eqn:E1.
      destruct Hsc as [wb [Hb1 Hb2]].
      assert (HIb : I wb). { pose proof (step1_I1x c1 w k1 Hc1 HI) as H. rewrite Hb1 in H. exact H. }
      (* the continuation of p1 after its first call *)
      assert (Hcont : forall c2' w' k1'' k2'', P2 c2' -> I w' ->
                let '(wa0, r20, k20) := step1x c2' w' k2'' in
                let '(wab0, k10, a0) := crunkx (q r1) wa0 k1'' in
                exists wb0, crunkx (q r1) w' k1'' = (wb0, k10, a0) /\ step1x c2' wb0 k2'' = (wab0, r20, k20) /\ I wb0).
      { (* r1 is either the reply of c1 in world w or the injected failure *)
        unfold step1x in Hb1. destruct (is_faultable c1) eqn:Ef.
        - destruct k1 as [[|j]|].
          + inversion Hb1; subst. apply IHf. reflexivity.
          + destruct (ex w c1) as [w1 r] eqn:E. inversion Hb1; subst.
            replace r1 with (snd (ex w c1)) by (rewrite E; reflexivity). apply IHq. exact HI.
          + destruct (ex w c1) as [w1 r] eqn:E. inversion Hb1; subst.
            replace r1 with (snd (ex w c1)) by (rewrite E; reflexivity). apply IHq. exact HI.
        - destruct (ex w c1) as [w1 r] eqn:E. inversion Hb1; subst.
          replace r1 with (snd (ex w c1)) by (rewrite E; reflexivity). apply IHq. exact HI. }
      specialize (Hcont c2 wb k1' k2 Hc2 HIb). rewrite Hb2 in Hcont.
      destruct (crunkx (q r1) wab k1') as [[wfin kfin] a] eqn:Ec.
      destruct Hcont as [wb0 [H1 [H2 H3]]].
      exists wb0. split; [|split; assumption].
      rewrite crunk_stepx. rewrite Hb1. exact H1.
  Qed.

  Lemma safe_after_stepx : forall A c (q : reply -> cprog A) (P : call -> Prop) w k,
    safex P I (Do c q) -> I w -> safex P I (q (snd (fst (step1x c w k)))).
  Proof.
    intros A c q P w k Hs HI. remember (Do c q) as p eqn:Ep. destruct Hs as [a|c' q' Hc Hq Hf]; [discriminate|].
    inversion Ep; subst c' q'. clear Ep.
    unfold step1x. destruct (is_faultable c) eqn:Ef.
    - destruct k as [[|j]|].
      + apply Hf. reflexivity.
      + specialize (Hq w HI). destruct (ex w c); exact Hq.
      + specialize (Hq w HI). destruct (ex w c); exact Hq.
    - specialize (Hq w HI). destruct (ex w c); exact Hq.
  Qed.

  Theorem interleave_is_sequentialx : forall A B sched (p1 : cprog A) (p2 : cprog B) k1 k2 w,
    I w -> safex P1 I p1 -> safex P2 I p2 ->
    run2x sched p1 k1 p2 k2 w = run2x [] p1 k1 p2 k2 w.
  Proof.
    intros A B sched. induction sched as [|b s IH]; intros p1 p2 k1 k2 w HI H1 H2; [reflexivity|].
    destruct b; cbn [run2x].
    - destruct p1 as [a|c q]; [apply IH; assumption|].
      pose proof (safe_after_stepx A c q P1 w k1 H1 HI) as Hs.
      assert (Hc : P1 c). { remember (Do c q) as p eqn:Ep. destruct H1; [discriminate|]. inversion Ep; subst; assumption. }
      pose proof (step1_I1x c w k1 Hc HI) as HI'.
      rewrite crunk_stepx. destruct (step1x c w k1) as [[w' r] k1']. cbn [fst snd] in *.
      rewrite IH by assumption. reflexivity.
    - destruct p2 as [b|c q]; [apply IH; assumption|].
      pose proof (safe_after_stepx B c q P2 w k2 H2 HI) as Hs.
      assert (Hc : P2 c). { remember (Do c q) as p eqn:Ep. destruct H2; [discriminate|]. inversion Ep; subst; assumption. }
      pose proof (step1_I2x c w k2 Hc HI) as HI'.
      pose proof (hoistx A p1 H1 c w k1 k2 Hc HI) as Hh.
      destruct (step1x c w k2) as [[w' r] k2'] eqn:E2. cbn [fst snd] in *.
      rewrite IH by assumption. cbn [run2x].
      destruct (crunkx p1 w' k1) as [[wab k1'] a] eqn:E1.
      destruct Hh as [wb [Hb1 [Hb2 _]]]. rewrite Hb1. cbn beta iota. rewrite crunk_stepx. rewrite Hb2. reflexivity.
  Qed.
End Commutex.

(* the two sequential orders agree: the operations commute *)
Theorem sequential_orders_agreex : forall (P1 P2 : call -> Prop) (I : world -> Prop),
  (forall c w, P1 c -> I w -> I (fst (ex w c))) ->
  (forall c w, P2 c -> I w -> I (fst (ex w c))) ->
  (forall c1 c2 w, P1 c1 -> P2 c2 -> I w ->
    fst (ex (fst (ex w c1)) c2) = fst (ex (fst (ex w c2)) c1) /\
    snd (ex (fst (ex w c1)) c2) = snd (ex w c2) /\
    snd (ex (fst (ex w c2)) c1) = snd (ex w c1)) ->
  forall A B (p2 : cprog B), safex P2 I p2 -> forall (p1 : cprog A) k1 k2 w, I w -> safex P1 I p1 ->
  run2x [] p1 k1 p2 k2 w = (let '(w', b, a) := run2x [] p2 k2 p1 k1 w in (w', a, b)).
Proof.
  intros P1 P2 I St1 St2 Ind A B p2 H2. induction H2 as [b|c q Hc Hq IHq Hf IHf]; intros p1 k1 k2 w HI H1.
  - cbn [run2x]. unfold crunkx at 2 3. cbn [runk]. destruct (crunkx p1 w k1) as [[w1 k1'] a]. reflexivity.
  - cbn [run2x].
    pose proof (hoistx P1 P2 I St1 Ind A p1 H1 c w k1 k2 Hc HI) as Hh.
    rewrite (crunk_stepx B c q w k2).
    destruct (step1x c w k2) as [[w' r] k2'] eqn:E2.
    assert (HI' : I w'). { pose proof (step1_I2x P2 I St2 c w k2 Hc HI) as H. rewrite E2 in H. exact H. }
    assert (Hs : safex P2 I (q r) /\ (forall p1' k1' k2'' w'', I w'' -> safex P1 I p1' ->
               run2x [] p1' k1' (q r) k2'' w'' = (let '(w0, b, a) := run2x [] (q r) k2'' p1' k1' w'' in ((w0, a, b) : world * A * B)))).
    { unfold step1x in E2. destruct (is_faultable c) eqn:Ef.
      - destruct k2 as [[|j]|].
        + inversion E2; subst. split; [apply Hf; reflexivity|apply IHf; reflexivity].
        + destruct (ex w c) as [w1 r0] eqn:E. inversion E2; subst.
          replace r with (snd (ex w c)) by (rewrite E; reflexivity). split; [apply Hq; exact HI|apply IHq; exact HI].
        + destruct (ex w c) as [w1 r0] eqn:E. inversion E2; subst.
          replace r with (snd (ex w c)) by (rewrite E; reflexivity). split; [apply Hq; exact HI|apply IHq; exact HI].
      - destruct (ex w c) as [w1 r0] eqn:E. inversion E2; subst.
        replace r with (snd (ex w c)) by (rewrite E; reflexivity). split; [apply Hq; exact HI|apply IHq; exact HI]. }
    destruct Hs as [Hsafe Hrec].
    specialize (Hrec p1 k1 k2' w' HI' H1). cbn [run2x] in Hrec.
    destruct (crunkx p1 w' k1) as [[wab k1'] a] eqn:E1.
    destruct Hh as [wb [Hb1 [Hb2 _]]]. rewrite Hb1. cbn beta iota. rewrite crunk_stepx. rewrite Hb2.
    exact Hrec.
Qed.

End Gen.

Local Open Scope Z_scope.

(* ================= the semantics that forgets the shared message channel ================= *)
(* forgetting the shared message channel *)
Definition hide (w : world) : world := set_out w [].
Definition exec_h (w : world) (c : call) : world * reply := let (w', r) := exec w c in (hide w', r).

(* no call reads the channel *)
Lemma exec_hide : forall w c, hide (fst (exec (hide w) c)) = hide (fst (exec w c)) /\ snd (exec (hide w) c) = snd (exec w c).
Proof.
  intros w c. destruct c; cbn [exec]; unfold hide, find_wl, find_plug, find_node, find_cont, wls_on;
    unfold set_pods, set_nodes, set_wls, set_markers, set_plugs, set_conts, set_wal, set_out;
    cbn [pods nodes wls markers plugs conts walq wal_seq out strict_remove script];
    repeat match goal with
           | |- context [match ?x with _ => _ end] => destruct x eqn:?; cbn [fst snd pods nodes wls markers plugs conts walq wal_seq out strict_remove script]
           end; split; reflexivity.
Qed.


Lemma exec_h_hide : forall w c, exec_h (hide w) c = (hide (fst (exec w c)), snd (exec w c)).
Proof.
  intros w c. unfold exec_h. destruct (exec_hide w c) as [H1 H2].
  destruct (exec (hide w) c) as [w' r]. simpl in *. rewrite H1, H2. reflexivity.
Qed.

Lemma step1_hide : forall c w k,
  step1x exec_h c (hide w) k = (let '(w', r, k') := step1 c w k in (hide w', r, k')).
Proof.
  intros c w k. unfold step1x, step1. destruct (is_faultable c).
  - destruct k as [[|j]|]; [reflexivity| |]; rewrite exec_h_hide; destruct (exec w c); reflexivity.
  - rewrite exec_h_hide; destruct (exec w c); reflexivity.
Qed.

Lemma crunk_hide : forall A (p : cprog A) w k,
  crunkx exec_h p (hide w) k = (let '(w1, k1, a) := crunk p w k in (hide w1, k1, a)).
Proof.
  intros A p. induction p as [a|c q IH]; intros w k.
  - reflexivity.
  - rewrite crunk_stepx, crunk_step. rewrite step1_hide. destruct (step1 c w k) as [[w' r] k']. apply IH.
Qed.

Lemma run2_hide : forall A B sched (p1 : cprog A) (p2 : cprog B) k1 k2 w,
  run2x exec_h sched p1 k1 p2 k2 (hide w) = (let '(wf, a, b) := run2 sched p1 k1 p2 k2 w in (hide wf, a, b)).
Proof.
  intros A B sched. induction sched as [|b s IH]; intros p1 p2 k1 k2 w.
  - cbn [run2x run2]. rewrite crunk_hide. destruct (crunk p1 w k1) as [[w1 k1'] a].
    rewrite crunk_hide. destruct (crunk p2 w1 k2) as [[w2 k2'] b]. reflexivity.
  - destruct b; cbn [run2x run2].
    + destruct p1 as [a|c q]; [apply IH|]. rewrite step1_hide. destruct (step1 c w k1) as [[w' r] k1']. apply IH.
    + destruct p2 as [a|c q]; [apply IH|]. rewrite step1_hide. destruct (step1 c w k2) as [[w' r] k2']. apply IH.
Qed.
