(* C13 — ANY NUMBER of deployments of one (application, entrypoint) running
   concurrently against one store.  Executable model, no proofs.

   The unit is the slot = (node, ident) = the key of one processing marker.  A
   plan maps slots to planned counts (the union of the plans of all
   deployments).  The acceptor [mstep] keeps, per slot, its life cycle
     to-do -> marker live -> marker deleted
   and per instance that reached AddWorkload its state; it accepts a call only
   if the slot is in the right stage, exactly as create.go orders the calls of
   ONE deployment, and it does not relate the calls of different deployments at
   all: every interleaving of any number of deployments is accepted.  (For one
   deployment this acceptor accepts a superset of DeployStatus.step's
   sequences.)  The store calls are those of DeployStatus.v. *)
From Coq Require Import List Bool String ZArith.
From Verif Require Import Calcium.DeployStatus.
Import ListNotations.
Local Open Scope Z_scope.

Definition slot := mkey.                 (* (node, ident) *)

Inductive mcall :=
| MCreateProc (ident node : string) (count : Z) (inj : bool)
| MAdd (ident node id : string) (inj : bool)
| MRemove (node id : string) (inj : bool)
| MDelProc (ident node : string) (inj : bool).

Record minst := mkMi { mi_key : dkey; mi_ident : string; mi_state : istate }.
Definition mi_slot (i : minst) : slot := (fst (mi_key i), mi_ident i).

Record macc := mkMacc {
  m_todo : list (slot * Z);              (* slots whose marker is not created yet *)
  m_insts : list minst;                  (* instances that reached AddWorkload, most recent first *)
  m_clean : list slot;                   (* slots whose marker deletion has not succeeded yet *)
  m_live : list slot                     (* slots whose marker exists, in creation order *)
}.

Fixpoint splan_count (plan : list (slot * Z)) (s : slot) : option Z :=
  match plan with
  | [] => None
  | (s', k) :: t => if pair_eqb s' s then Some k else splan_count t s
  end.
Definition splanned (plan : list (slot * Z)) (s : slot) : Z :=
  match splan_count plan s with Some k => k | None => 0 end.
Fixpoint remove_splan (s : slot) (plan : list (slot * Z)) : list (slot * Z) :=
  match plan with
  | [] => []
  | (s', k) :: t => if pair_eqb s' s then t else (s', k) :: remove_splan s t
  end.
Fixpoint remove_slot (s : slot) (l : list slot) : list slot :=
  match l with
  | [] => []
  | x :: t => if pair_eqb x s then t else x :: remove_slot s t
  end.
Definition mem_slot (s : slot) (l : list slot) : bool := existsb (pair_eqb s) l.

Definition minsts_on (insts : list minst) (s : slot) : Z :=
  Z.of_nat (List.length (filter (fun i => pair_eqb (mi_slot i) s) insts)).
Fixpoint minst_state (k : dkey) (insts : list minst) : option (string * istate) :=
  match insts with
  | [] => None
  | i :: t => if pair_eqb k (mi_key i) then Some (mi_ident i, mi_state i) else minst_state k t
  end.
Fixpoint set_minst (k : dkey) (s : istate) (insts : list minst) : list minst :=
  match insts with
  | [] => []
  | i :: t => if pair_eqb k (mi_key i) then mkMi (mi_key i) (mi_ident i) s :: t else i :: set_minst k s t
  end.
Definition mid_used (id : string) (insts : list minst) (d0 : list dkey) : bool :=
  existsb (fun i => String.eqb (snd (mi_key i)) id) insts || existsb (fun k => String.eqb (snd k) id) d0.

Definition mstart (plan : list (slot * Z)) : macc := mkMacc plan [] (map fst plan) [].

Definition mstep (b : backend) (plan : list (slot * Z)) (d0 : list dkey)
    (s : macc * dstate) (c : mcall) : option (macc * dstate) :=
  let '(a, st) := s in
  match c with
  | MCreateProc ident n k inj =>
      match splan_count (m_todo a) (n, ident) with
      | Some k' =>
          if Z.eqb k k' then
            let '(st', ok) := if inj then (st, false) else create_processing st n ident k in
            Some (mkMacc (remove_splan (n, ident) (m_todo a)) (m_insts a) (m_clean a)
                         (if ok then m_live a ++ [(n, ident)] else m_live a), st')
          else None
      | None => None
      end
  | MAdd ident n id inj =>
      if mem_slot (n, ident) (m_live a) && negb (mid_used id (m_insts a) d0)
         && Z.ltb (minsts_on (m_insts a) (n, ident)) (splanned plan (n, ident))
      then
        let '(st', ok) := if inj then (st, false) else add_workload b st n id ident in
        Some (mkMacc (m_todo a) (mkMi (n, id) ident (if ok then IAdded else IAddFailed) :: m_insts a)
                     (m_clean a) (m_live a), st')
      else None
  | MRemove n id inj =>
      match minst_state (n, id) (m_insts a) with
      | Some (_, IAdded) =>
          if inj then Some (a, st)
          else Some (mkMacc (m_todo a) (set_minst (n, id) IRemoved (m_insts a)) (m_clean a) (m_live a),
                     remove_workload st n id)
      | Some (_, IAddFailed) =>
          Some (mkMacc (m_todo a) (set_minst (n, id) IFailedGone (m_insts a)) (m_clean a) (m_live a),
                if inj then st else remove_workload st n id)
      | _ => None
      end
  | MDelProc ident n inj =>
      (* after its deletion a slot is finished: no later CreateProcessing / AddWorkload of it is accepted *)
      if mem_slot (n, ident) (m_clean a) then
        if inj then Some (a, st)
        else Some (mkMacc (remove_splan (n, ident) (m_todo a)) (m_insts a) (remove_slot (n, ident) (m_clean a)) (remove_slot (n, ident) (m_live a)),
                   delete_processing st n ident)
      else None
  end.

Fixpoint mrun (b : backend) (plan : list (slot * Z)) (d0 : list dkey) (s : macc * dstate) (cs : list mcall)
    : option (macc * dstate) :=
  match cs with
  | [] => Some s
  | c :: t => match mstep b plan d0 s c with Some s' => mrun b plan d0 s' t | None => None end
  end.

Definition mreturned (a : macc) : bool := match m_clean a with [] => true | _ => false end.

(* planned instances of all deployments on one node *)
Fixpoint planned_on (plan : list (slot * Z)) (n : string) : Z :=
  match plan with
  | [] => 0
  | ((n', _), k) :: t => (if String.eqb n' n then k else 0) + planned_on t n
  end.

(* ---------- cases of the correspondence check ---------- *)
Fixpoint mtrace (b : backend) (plan : list (slot * Z)) (d0 : list dkey) (s : macc * dstate) (cs : list mcall)
    : option (list (macc * dstate)) :=
  match cs with
  | [] => Some [s]
  | c :: t => match mstep b plan d0 s c with
              | Some s' => match mtrace b plan d0 s' t with Some r => Some (s :: r) | None => None end
              | None => None
              end
  end.

Definition mcall_result (b : backend) (st : dstate) (c : mcall) : bool :=
  match c with
  | MCreateProc ident n k inj => if inj then false else snd (create_processing st n ident k)
  | MAdd ident n id inj => if inj then false else snd (add_workload b st n id ident)
  | MRemove _ _ inj | MDelProc _ _ inj => negb inj
  end.
Fixpoint mresults_of (b : backend) (sts : list (macc * dstate)) (cs : list mcall) : list bool :=
  match sts, cs with
  | s :: st', c :: ct => mcall_result b (snd s) c :: mresults_of b st' ct
  | _, _ => []
  end.

Record case := mkCase {
  c_backend : backend;
  c_nodes : list string;
  c_plan : list (slot * Z);                        (* union of the plans of all deployments *)
  c_init : dstate;
  c_calls : list mcall;
  c_results : list bool;
  c_probes : list (list (Z * Z));
  c_intra : list (list (list (Z * Z)));
  c_markers_left : bool                            (* a marker of one of the plan's slots is left *)
}.

Definition marker_of_plan_left (plan : list (slot * Z)) (st : dstate) : bool :=
  existsb (fun p => match get_marker (fst p) (markers st) with Some _ => true | None => false end) plan.

Definition agree (c : case) : bool :=
  match mtrace (c_backend c) (c_plan c) (deployed (c_init c)) (mstart (c_plan c), c_init c) (c_calls c) with
  | None => false
  | Some sts =>
      let ps := map (fun s => probe_of (snd s) (c_nodes c)) sts in
      probes_eqb ps (c_probes c) && intra_agree ps (c_intra c)
      && bools_eqb (mresults_of (c_backend c) sts (c_calls c)) (c_results c)
      && Bool.eqb (marker_of_plan_left (c_plan c) (snd (last sts (mstart (c_plan c), c_init c)))) (c_markers_left c)
  end.

Definition mbounds_ok (c : case) (prior probe : list (Z * Z)) : bool :=
  forallb (fun t => let '(n, (p, q)) := t in
                    Z.leb (snd q) (fst q) && Z.leb (fst q) (fst p + planned_on (c_plan c) n))
          (combine (c_nodes c) (combine prior probe)).

Definition ok (c : case) : bool :=
  match c_probes c with
  | [] => false
  | prior :: _ =>
      exact_ok (c_init c) (c_nodes c) prior
      && forallb (mbounds_ok c prior) (c_probes c)
      && forallb (forallb (mbounds_ok c prior)) (c_intra c)
      && (if c_markers_left c then true else exact_ok (c_init c) (c_nodes c) (last (c_probes c) prior))
  end.
