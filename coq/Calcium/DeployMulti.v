(* C13 (supplement) — several deployments of one (application, entrypoint)
   running concurrently against one store.  Executable model only (no theorem:
   C13_bounds is proved for one deployment with the other deployments' markers
   static); used by the "concurrent" correspondence stream, which runs real
   concurrent CreateWorkload calls.  The store calls are those of DeployStatus.v,
   applied in the order in which the (serialised) calls reached the store. *)
From Coq Require Import List Bool String ZArith.
From Verif Require Import Calcium.DeployStatus.
Import ListNotations.
Local Open Scope Z_scope.

Inductive mcall :=
| MCreateProc (ident node : string) (count : Z) (inj : bool)
| MAdd (ident node id : string) (inj : bool)
| MRemove (node id : string) (inj : bool)
| MDelProc (ident node : string) (inj : bool).

Definition mapply (b : backend) (st : dstate) (c : mcall) : dstate * bool :=
  match c with
  | MCreateProc ident n k inj => if inj then (st, false) else create_processing st n ident k
  | MAdd ident n id inj => if inj then (st, false) else add_workload b st n id ident
  | MRemove n id inj => if inj then (st, false) else (remove_workload st n id, true)
  | MDelProc ident n inj => if inj then (st, false) else (delete_processing st n ident, true)
  end.

Fixpoint mtrace (b : backend) (st : dstate) (cs : list mcall) : list dstate * list bool :=
  match cs with
  | [] => ([st], [])
  | c :: t => let '(st', ok) := mapply b st c in
              let '(sts, oks) := mtrace b st' t in (st :: sts, ok :: oks)
  end.

Record case := mkCase {
  c_backend : backend;
  c_nodes : list string;
  c_plans : list (string * list (string * Z));     (* ident, plan *)
  c_init : dstate;
  c_calls : list mcall;
  c_results : list bool;
  c_probes : list (list (Z * Z));
  c_intra : list (list (list (Z * Z)));
  c_markers_left : bool                            (* a marker of one of the idents is left *)
}.

Definition agree (c : case) : bool :=
  let '(sts, oks) := mtrace (c_backend c) (c_init c) (c_calls c) in
  let ps := map (fun s => probe_of s (c_nodes c)) sts in
  probes_eqb ps (c_probes c) && intra_agree ps (c_intra c) && bools_eqb oks (c_results c)
  && Bool.eqb (existsb (fun p => has_marker_of (last sts (c_init c)) (fst p)) (c_plans c)) (c_markers_left c).

Definition planned_all (plans : list (string * list (string * Z))) (n : string) : Z :=
  fold_right (fun p acc => planned (snd p) n + acc) 0 plans.

Definition mbounds_ok (c : case) (prior probe : list (Z * Z)) : bool :=
  forallb (fun t => let '(n, (p, q)) := t in
                    Z.leb (snd q) (fst q) && Z.leb (fst q) (fst p + planned_all (c_plans c) n))
          (combine (c_nodes c) (combine prior probe)).

Definition ok (c : case) : bool :=
  match c_probes c with
  | [] => false
  | prior :: _ =>
      exact_ok (c_init c) (c_nodes c) prior
      && forallb (mbounds_ok c prior) (c_probes c)
      && forallb (forallb (mbounds_ok c prior)) (c_intra c)
      && (if c_markers_left c then true else exact_ok (c_init c) (c_nodes c) (last (c_probes c) prior))
  end.
