(* C22, unbounded: ANY world, ANY names, ANY number of concurrent AddPod /
   RemovePod / AddNode / RemoveNode / create / remove-workload operations, EVERY
   schedule (no injected failure).  An inductive (ownership) invariant over the
   interleaving system of Refs.v shows: at every reachable state either the
   trace contains one of the two check-then-act overlaps
   (window_addnode_removepod, window_create_removenode), or the invariant
   holds; when all operations have finished the invariant is Ref.

   Method: each operation's program is unfolded into a first-order control
   state [pc] with [prog_at pc] its remaining program; [pc_sim] shows that one
   step of Refs.step_thread from [prog_at pc] is the call [call_of pc] and
   leaves [prog_at (next pc reply)].  All invariant work is done on pcs. *)
From Coq Require Import List Bool String Arith Lia.
From Verif Require Import Calcium.Refs Calcium.RefsIsolation.
Import ListNotations.
Local Open Scope string_scope.

Inductive pc :=
| Done (b : bool)
| AP (p : string)
| RP_list1 (p : string)
| RP_lock (p : string)
| RP_list2 (p : string) (lk : bool)
| RP_del (p : string) (lk : bool)
| RP_unlock (p : string) (b : bool)
| AN_padd (n p : string)
| AN_getpod (n p : string)
| AN_create (n p : string)
| AN_rollback (n : string)
| RN_get1 (n : string)
| RN_lock (n p : string)
| RN_get2 (n p : string)
| RN_list (n p : string)
| RN_setst (n p : string)
| RN_rm (n p : string)
| RN_delst (n p : string)
| RN_prm (n p : string)
| RN_unlock (p : string) (b : bool)
(* create of one instance (id) on node n *)
| CR_get1 (n id : string)
| CR_lock (n id p : string)
| CR_cap (n id p : string)
| CR_alloc (n id p : string)
| CR_unlock (n id p : string) (b : bool)
| CR_get2 (n id : string)
| CR_addwl (n id : string)
| CR_rmwl (n id : string)
(* create's rollback of the allocation *)
| RB_get (n : string)
| RB_lock (n p : string)
| RB_ralloc (n p : string)
(* remove of workload id *)
| RW_getwl1 (id : string)
| RW_getnode (id n : string)
| RW_lockp (id n p : string)
| RW_getwl2 (id n p : string)
| RW_lockc (id n p : string)
| RW_usage (id n p : string)
| RW_rm (id n p : string)
| RW_usage2 (id n p : string)
| RW_fin (id p : string) (b : bool).

Definition call_of (c : pc) : option rcall :=
  match c with
  | Done _ => None
  | AP p => Some (CAddPod p)
  | RP_list1 p | RP_list2 p _ => Some (CListPodNodes p)
  | RP_lock p => Some (CLock (plock p))
  | RP_del p _ => Some (CDeletePod p)
  | RP_unlock p _ | RN_unlock p _ => Some (CUnlock (plock p))
  | AN_padd n _ => Some (PAddNode n)
  | AN_getpod _ p => Some (CGetPod p)
  | AN_create n p => Some (CCreateNode n p)
  | AN_rollback n | RN_prm n _ => Some (PRemoveNode n)
  | RN_get1 n | RN_get2 n _ => Some (CGetNode n)
  | RN_lock _ p => Some (CLock (plock p))
  | RN_list n _ => Some (CListNodeWls n)
  | RN_rm n _ => Some (CRemoveNode n)
  | RN_setst n _ => Some (CSetStatus n)
  | RN_delst n _ => Some (CDelStatus n)
  | CR_get1 n _ | CR_get2 n _ | RB_get n | RW_getnode _ n => Some (CGetNode n)
  | CR_lock _ _ p | RB_lock _ p | RW_lockp _ _ p => Some (CLock (plock p))
  | CR_cap n _ _ => Some (PCapacity n)
  | CR_alloc n _ _ => Some (PAlloc n)
  | CR_unlock _ _ p _ => Some (CUnlock (plock p))
  | CR_addwl n id => Some (CAddWl id n)
  | CR_rmwl _ id | RW_rm id _ _ => Some (CRemoveWl id)
  | RB_ralloc n _ => Some (PRollbackAlloc n)
  | RW_getwl1 id | RW_getwl2 id _ _ => Some (CGetWl id)
  | RW_lockc id _ _ => Some (CLock (clock id))
  | RW_usage _ n _ | RW_usage2 _ n _ => Some (PSetUsage n)
  | RW_fin id _ _ => Some (CUnlock (clock id))
  end.

Definition next (c : pc) (r : reply) : pc :=
  match c with
  | Done b => Done b
  | AP _ => Done (r_ok r)
  | RP_list1 p => if negb (r_ok r) then Done false else if is_nil (r_strs r) then RP_list2 p false else RP_lock p
  | RP_lock p => RP_list2 p true
  | RP_list2 p lk => if r_ok r && is_nil (r_strs r) then RP_del p lk
                     else if lk then RP_unlock p false else Done false
  | RP_del p lk => if lk then RP_unlock p (r_ok r) else Done (r_ok r)
  | RP_unlock _ b | RN_unlock _ b => Done b
  | AN_padd n p => if negb (r_ok r) then Done false else AN_getpod n p
  | AN_getpod n p => if negb (r_ok r) then AN_rollback n else AN_create n p
  | AN_create n _ => if r_ok r then Done true else AN_rollback n
  | AN_rollback _ => Done false
  | RN_get1 n => if negb (r_ok r) then Done false else RN_lock n (hd_str (r_strs r))
  | RN_lock n p => RN_get2 n p
  | RN_get2 n p => if negb (r_ok r && String.eqb (hd_str (r_strs r)) p) then RN_unlock p false else RN_list n p
  | RN_list n p => if r_ok r && is_nil (r_strs r) then RN_setst n p else RN_unlock p false
  | RN_setst n p => RN_rm n p
  | RN_rm n p => if negb (r_ok r) then RN_unlock p false else RN_delst n p
  | RN_delst n p => RN_prm n p
  | RN_prm _ p => RN_unlock p (r_ok r)
  | CR_get1 n id => if negb (r_ok r) then Done false else CR_lock n id (hd_str (r_strs r))
  | CR_lock n id p => CR_cap n id p
  | CR_cap n id p => if negb (r_ok r) then RN_unlock p false else CR_alloc n id p
  | CR_alloc n id p => CR_unlock n id p (r_ok r)
  | CR_unlock n id _ b => if negb b then Done false else CR_get2 n id
  | CR_get2 n id => if negb (r_ok r) then RB_get n else CR_addwl n id
  | CR_addwl n id => if r_ok r then Done true else CR_rmwl n id
  | CR_rmwl n _ => RB_get n
  | RB_get n => if negb (r_ok r) then Done false else RB_lock n (hd_str (r_strs r))
  | RB_lock n p => RB_ralloc n p
  | RB_ralloc _ p => RN_unlock p false
  | RW_getwl1 id => if negb (r_ok r) then Done false else RW_getnode id (hd_str (r_strs r))
  | RW_getnode id n => if negb (r_ok r) then Done false else RW_lockp id n (hd_str (r_strs r))
  | RW_lockp id n p => RW_getwl2 id n p
  | RW_getwl2 id n p => if negb (r_ok r) then RN_unlock p false else RW_lockc id n p
  | RW_lockc id n p => RW_usage id n p
  | RW_usage id n p => if negb (r_ok r) then RW_fin id p false else RW_rm id n p
  | RW_rm id n p => if r_ok r then RW_fin id p true else RW_usage2 id n p
  | RW_usage2 id _ p => RW_fin id p false
  | RW_fin _ p b => RN_unlock p b
  end.

Definition unl (lk : bool) (p : string) (q : prog) : prog :=
  if lk then Do (CUnlock (plock p)) (fun _ => q) else q.
Definition rp_body (p : string) (lk : bool) : prog :=
  Do (CListPodNodes p) (fun r2 =>
    if r_ok r2 && is_nil (r_strs r2)
    then Do (CDeletePod p) (fun r3 => unl lk p (Ret (r_ok r3)))
    else unl lk p (Ret false)).
Definition an_rollback (n : string) : prog := Do (PRemoveNode n) (fun _ => Ret false).
Definition an_create (n p : string) : prog :=
  Do (CCreateNode n p) (fun r3 => if r_ok r3 then Ret true else an_rollback n).
Definition an_getpod (n p : string) : prog :=
  Do (CGetPod p) (fun r2 => if negb (r_ok r2) then an_rollback n else an_create n p).
Definition rn_unlock (p : string) (b : bool) : prog := Do (CUnlock (plock p)) (fun _ => Ret b).
Definition rn_prm (n p : string) : prog := Do (PRemoveNode n) (fun r4 => rn_unlock p (r_ok r4)).
Definition rn_delst (n p : string) : prog := Do (CDelStatus n) (fun _ => rn_prm n p).
Definition rn_rm (n p : string) : prog :=
  Do (CRemoveNode n) (fun r3 => if negb (r_ok r3) then rn_unlock p false else rn_delst n p).
Definition rn_setst (n p : string) : prog := Do (CSetStatus n) (fun _ => rn_rm n p).
Definition rn_list (n p : string) : prog :=
  Do (CListNodeWls n) (fun r2 => if r_ok r2 && is_nil (r_strs r2) then rn_setst n p else rn_unlock p false).
Definition rn_get2 (n p : string) : prog :=
  Do (CGetNode n) (fun r' =>
    if negb (r_ok r' && String.eqb (hd_str (r_strs r')) p) then rn_unlock p false else rn_list n p).

Definition rb_ralloc (n p : string) : prog := Do (PRollbackAlloc n) (fun _ => rn_unlock p false).
Definition cr_rmwl (n id : string) : prog := Do (CRemoveWl id) (fun _ => rollback_alloc n).
Definition cr_addwl (n id : string) : prog := Do (CAddWl id n) (fun r4 => if r_ok r4 then Ret true else cr_rmwl n id).
Definition cr_get2 (n id : string) : prog :=
  Do (CGetNode n) (fun r3 => if negb (r_ok r3) then rollback_alloc n else cr_addwl n id).
Definition cr_unlock (n id p : string) (b : bool) : prog :=
  Do (CUnlock (plock p)) (fun _ => if negb b then Ret false else cr_get2 n id).
Definition cr_alloc (n id p : string) : prog := Do (PAlloc n) (fun r2 => cr_unlock n id p (r_ok r2)).
Definition cr_cap (n id p : string) : prog :=
  Do (PCapacity n) (fun r1 => if negb (r_ok r1) then rn_unlock p false else cr_alloc n id p).
Definition rw_fin (id p : string) (b : bool) : prog := Do (CUnlock (clock id)) (fun _ => rn_unlock p b).
Definition rw_usage2 (id n p : string) : prog := Do (PSetUsage n) (fun _ => rw_fin id p false).
Definition rw_rm (id n p : string) : prog :=
  Do (CRemoveWl id) (fun r4 => if r_ok r4 then rw_fin id p true else rw_usage2 id n p).
Definition rw_usage (id n p : string) : prog :=
  Do (PSetUsage n) (fun r3 => if negb (r_ok r3) then rw_fin id p false else rw_rm id n p).
Definition rw_lockc (id n p : string) : prog := Do (CLock (clock id)) (fun _ => rw_usage id n p).
Definition rw_getwl2 (id n p : string) : prog :=
  Do (CGetWl id) (fun r2 => if negb (r_ok r2) then rn_unlock p false else rw_lockc id n p).
Definition rw_lockp (id n p : string) : prog := Do (CLock (plock p)) (fun _ => rw_getwl2 id n p).
Definition rw_getnode (id n : string) : prog :=
  Do (CGetNode n) (fun r1 => if negb (r_ok r1) then Ret false else rw_lockp id n (hd_str (r_strs r1))).

Definition prog_at (c : pc) : prog :=
  match c with
  | Done b => Ret b
  | AP p => add_pod p
  | RP_list1 p => remove_pod p
  | RP_lock p => Do (CLock (plock p)) (fun _ => rp_body p true)
  | RP_list2 p lk => rp_body p lk
  | RP_del p lk => Do (CDeletePod p) (fun r3 => unl lk p (Ret (r_ok r3)))
  | RP_unlock p b | RN_unlock p b => rn_unlock p b
  | AN_padd n p => add_node n p
  | AN_getpod n p => an_getpod n p
  | AN_create n p => an_create n p
  | AN_rollback n => an_rollback n
  | RN_get1 n => remove_node n
  | RN_lock n p => Do (CLock (plock p)) (fun _ => rn_get2 n p)
  | RN_get2 n p => rn_get2 n p
  | RN_list n p => rn_list n p
  | RN_setst n p => rn_setst n p
  | RN_rm n p => rn_rm n p
  | RN_delst n p => rn_delst n p
  | RN_prm n p => rn_prm n p
  | CR_get1 n id => create n id
  | CR_lock n id p => Do (CLock (plock p)) (fun _ => cr_cap n id p)
  | CR_cap n id p => cr_cap n id p
  | CR_alloc n id p => cr_alloc n id p
  | CR_unlock n id p b => cr_unlock n id p b
  | CR_get2 n id => cr_get2 n id
  | CR_addwl n id => cr_addwl n id
  | CR_rmwl n id => cr_rmwl n id
  | RB_get n => rollback_alloc n
  | RB_lock n p => Do (CLock (plock p)) (fun _ => rb_ralloc n p)
  | RB_ralloc n p => rb_ralloc n p
  | RW_getwl1 id => remove_wl id
  | RW_getnode id n => rw_getnode id n
  | RW_lockp id n p => rw_lockp id n p
  | RW_getwl2 id n p => rw_getwl2 id n p
  | RW_lockc id n p => rw_lockc id n p
  | RW_usage id n p => rw_usage id n p
  | RW_rm id n p => rw_rm id n p
  | RW_usage2 id n p => rw_usage2 id n p
  | RW_fin id p b => rw_fin id p b
  end.

(* the pod / node operations and their initial control states *)
Inductive pnop := PAddPod (p : string) | PRemovePod (p : string) | PAddNode_ (n p : string) | PRemoveNode_ (n : string)
  | PCreate (n id : string) | PRemoveWl (id : string).
Definition rop_of (o : pnop) : rop :=
  match o with PAddPod p => OAddPod p | PRemovePod p => ORemovePod p | PAddNode_ n p => OAddNode n p | PRemoveNode_ n => ORemoveNode n
  | PCreate n id => OCreate n id | PRemoveWl id => ORemoveWl id end.
Definition pc0 (o : pnop) : pc :=
  match o with PAddPod p => AP p | PRemovePod p => RP_list1 p | PAddNode_ n p => AN_padd n p | PRemoveNode_ n => RN_get1 n
  | PCreate n id => CR_get1 n id | PRemoveWl id => RW_getwl1 id end.

Lemma prog_at_pc0 : forall o, prog_of (rop_of o) = prog_at (pc0 o).
Proof. destruct o; reflexivity. Qed.

Lemma pc_sim : forall c,
  match call_of c with
  | None => exists b, prog_at c = Ret b
  | Some call => exists k, prog_at c = Do call k /\ forall r, k r = prog_at (next c r)
  end.
Proof.
  destruct c; cbn [call_of]; try (eexists; reflexivity);
    (eexists; split; [reflexivity|]; intros [o s]; cbn;
     try reflexivity;
     try (destruct o; cbn; try reflexivity; destruct s; reflexivity);
     try (destruct lk; reflexivity);
     try (destruct (o && String.eqb (hd_str s) p); reflexivity);
     try (destruct (o && is_nil s); [reflexivity | destruct lk; reflexivity]);
     try (destruct b; reflexivity)).
Qed.

Definition astep (w : rw) (i : nat) (c : pc) : option (rw * pc * ev) :=
  match call_of c with
  | None => None
  | Some call => match exec w i call with
                 | None => None
                 | Some (w', r) => Some (w', next c r, (i, call, r_ok r))
                 end
  end.

Definition R (t : thread) (c : pc) : Prop := t_prog t = prog_at c /\ t_fault t = None.

Lemma step_refines : forall w i t c, R t c ->
  match step_thread w i t with
  | None => astep w i c = None
  | Some (w', t', e) => exists c', astep w i c = Some (w', c', e) /\ R t' c'
  end.
Proof.
  intros w i t c [Hp Hf]. unfold step_thread, astep. rewrite Hp, Hf. pose proof (pc_sim c) as S.
  destruct (call_of c) as [call|].
  - destruct S as [k [E K]]. rewrite E. rewrite andb_false_r.
    destruct (exec w i call) as [[w' r]|]; [|reflexivity].
    exists (next c r). split; [reflexivity|]. split; [apply K | reflexivity].
  - destruct S as [b E]. rewrite E. reflexivity.
Qed.

(* ---------- list plumbing ---------- *)
Lemma nth_set_nth_eq : forall {A} (l : list A) i x y, nth_error l i = Some y -> nth_error (set_nth i x l) i = Some x.
Proof.
  intros A l. induction l as [|a t IH]; intros i x y H; destruct i; simpl in *; try discriminate; [reflexivity | eapply IH; exact H].
Qed.
Lemma nth_set_nth_neq : forall {A} (l : list A) i j x, i <> j -> nth_error (set_nth i x l) j = nth_error l j.
Proof.
  intros A l. induction l as [|a t IH]; intros i j x H; destruct i, j; simpl; try reflexivity; [congruence | apply IH; congruence].
Qed.
Lemma nth_set_nth_cases : forall {A} (l : list A) i j x y z, nth_error l i = Some y ->
  nth_error (set_nth i x l) j = Some z -> (j = i /\ z = x) \/ (j <> i /\ nth_error l j = Some z).
Proof.
  intros A l i j x y z H H2. destruct (Nat.eq_dec i j) as [E|E].
  - subst j. rewrite (nth_set_nth_eq l i x y H) in H2. inversion H2. left. split; reflexivity.
  - rewrite nth_set_nth_neq in H2 by exact E. right. split; [congruence | exact H2].
Qed.
Lemma Forall2_nth : forall {A B} (P : A -> B -> Prop) l1 l2 i a, Forall2 P l1 l2 -> nth_error l1 i = Some a ->
  exists b, nth_error l2 i = Some b /\ P a b.
Proof.
  intros A B P l1 l2 i a F. revert i. induction F as [|x y l l' Hxy F IHF]; intros i Hn; destruct i; simpl in *; try discriminate.
  - inversion Hn; subst. eexists; split; [reflexivity | assumption].
  - apply IHF. exact Hn.
Qed.
Lemma Forall2_set_nth : forall {A B} (P : A -> B -> Prop) l1 l2 i a b, Forall2 P l1 l2 -> P a b ->
  Forall2 P (set_nth i a l1) (set_nth i b l2).
Proof.
  intros A B P l1 l2 i a b F Hab. revert i. induction F; intros i; destruct i; simpl; constructor; auto.
Qed.

(* ---------- events at positions of the trace ---------- *)
Definition ev_at (tr : list ev) (j : nat) (e : ev) : Prop := nth_error tr j = Some e.
Lemma ev_at_lt : forall tr j e, ev_at tr j e -> j < List.length tr.
Proof. intros tr j e H. apply nth_error_Some. unfold ev_at in H. congruence. Qed.
Lemma ev_at_ext : forall tr j e x, ev_at tr j e -> ev_at (tr ++ [x]) j e.
Proof. intros tr j e x H. unfold ev_at. rewrite nth_error_app1 by (eapply ev_at_lt; exact H). exact H. Qed.
Lemma ev_at_last : forall tr e, ev_at (tr ++ [e]) (List.length tr) e.
Proof. intros. unfold ev_at. rewrite nth_error_app2 by lia. rewrite Nat.sub_diag. reflexivity. Qed.
Lemma ev_at_app_inv : forall tr x j e, ev_at (tr ++ [x]) j e -> ev_at tr j e \/ (j = List.length tr /\ e = x).
Proof.
  intros tr x j e H. unfold ev_at in *. destruct (Nat.lt_ge_cases j (List.length tr)) as [L|L].
  - rewrite nth_error_app1 in H by exact L. left. exact H.
  - rewrite nth_error_app2 in H by exact L. destruct (j - List.length tr) as [|m] eqn:E.
    + simpl in H. inversion H. right. split; [lia | reflexivity].
    + simpl in H. destruct m; discriminate.
Qed.

(* the AddNode/RemovePod overlap, as a proposition *)
Definition Ovl (tr : list ev) : Prop :=
  exists ig ic id il t1 t2 p n okl,
    t1 <> t2 /\ ev_at tr ig (t1, CGetPod p, true) /\ ev_at tr ic (t1, CCreateNode n p, true)
    /\ ev_at tr id (t2, CDeletePod p, true) /\ ev_at tr il (t2, CListPodNodes p, okl)
    /\ ig < ic /\ ig < id /\ il < id /\ il < ic.

Lemma Ovl_ext : forall tr x, Ovl tr -> Ovl (tr ++ [x]).
Proof.
  intros tr x (ig & ic & id & il & t1 & t2 & p & n & okl & H0 & H1 & H2 & H3 & H4 & H5).
  exists ig, ic, id, il, t1, t2, p, n, okl. repeat split; try apply ev_at_ext; tauto.
Qed.

Lemma Ovl_window : forall tr, Ovl tr -> window_addnode_removepod tr = true.
Proof.
  intros tr (ig & ic & id & il & t1 & t2 & p & n & okl & Hne & Hg & Hc & Hd & Hl & L1 & L2 & L3 & L4).
  assert (S : forall j e, ev_at tr j e -> In j (seq 0 (List.length tr))).
  { intros j e H. apply in_seq. pose proof (ev_at_lt _ _ _ H). lia. }
  unfold window_addnode_removepod. apply existsb_exists. exists ig. split; [eapply S; exact Hg|].
  unfold ev_at in *. rewrite Hg. apply existsb_exists. exists ic. split; [eapply S; exact Hc|].
  rewrite Hc. rewrite Nat.eqb_refl, String.eqb_refl. cbn [andb].
  replace (Nat.ltb ig ic) with true by (symmetry; apply Nat.ltb_lt; exact L1). cbn [andb].
  apply existsb_exists. exists id. split; [eapply S; exact Hd|].
  rewrite Hd. replace (Nat.eqb t1 t2) with false by (symmetry; apply Nat.eqb_neq; exact Hne).
  rewrite String.eqb_refl. cbn [negb andb].
  replace (Nat.ltb ig id) with true by (symmetry; apply Nat.ltb_lt; exact L2). cbn [andb].
  apply existsb_exists. exists il. split; [eapply S; exact Hl|].
  rewrite Hl. rewrite Nat.eqb_refl, String.eqb_refl. cbn [andb].
  replace (Nat.ltb il id) with true by (symmetry; apply Nat.ltb_lt; exact L3).
  replace (Nat.ltb il ic) with true by (symmetry; apply Nat.ltb_lt; exact L4). reflexivity.
Qed.

(* the create/RemoveNode overlap (window 2), as a proposition *)
Definition Ovl2 (tr : list ev) : Prop :=
  exists ia ir il ig t1 t2 n id okl,
    t1 <> t2 /\ ev_at tr ia (t1, CAddWl id n, true) /\ ev_at tr ir (t2, CRemoveNode n, true)
    /\ ev_at tr il (t2, CListNodeWls n, okl) /\ ev_at tr ig (t1, CGetNode n, true)
    /\ il < ia /\ il < ir /\ ig < ir /\ ig < ia.
Lemma Ovl2_ext : forall tr x, Ovl2 tr -> Ovl2 (tr ++ [x]).
Proof.
  intros tr x (ia & ir & il & ig & t1 & t2 & n & id & okl & H0 & H1 & H2 & H3 & H4 & H5).
  exists ia, ir, il, ig, t1, t2, n, id, okl. repeat split; try apply ev_at_ext; tauto.
Qed.
Lemma Ovl2_window : forall tr, Ovl2 tr -> window_create_removenode tr = true.
Proof.
  intros tr (ia & ir & il & ig & t1 & t2 & n & id & okl & Hne & Ha & Hr & Hl & Hg & L1 & L2 & L3 & L4).
  assert (S : forall j e, ev_at tr j e -> In j (seq 0 (List.length tr))).
  { intros j e H. apply in_seq. pose proof (ev_at_lt _ _ _ H). lia. }
  unfold window_create_removenode. apply existsb_exists. exists ia. split; [eapply S; exact Ha|].
  unfold ev_at in *. rewrite Ha. apply existsb_exists. exists ir. split; [eapply S; exact Hr|].
  rewrite Hr. replace (Nat.eqb t1 t2) with false by (symmetry; apply Nat.eqb_neq; exact Hne).
  rewrite String.eqb_refl. cbn [negb andb]. apply andb_true_iff. split.
  - apply existsb_exists. exists il. split; [eapply S; exact Hl|]. rewrite Hl.
    rewrite Nat.eqb_refl, String.eqb_refl. cbn [andb].
    replace (Nat.ltb il ia) with true by (symmetry; apply Nat.ltb_lt; exact L1).
    replace (Nat.ltb il ir) with true by (symmetry; apply Nat.ltb_lt; exact L2). reflexivity.
  - apply existsb_exists. exists ig. split; [eapply S; exact Hg|]. rewrite Hg.
    rewrite Nat.eqb_refl, String.eqb_refl. cbn [andb].
    replace (Nat.ltb ig ir) with true by (symmetry; apply Nat.ltb_lt; exact L3).
    replace (Nat.ltb ig ia) with true by (symmetry; apply Nat.ltb_lt; exact L4). reflexivity.
Qed.

(* ---------- the invariant ---------- *)
Definition owns (c : pc) (n : string) : Prop :=
  match c with
  | AN_getpod m _ | AN_create m _ | AN_rollback m | RN_delst m _ | RN_prm m _ => m = n
  | _ => False
  end.
Definition holds (c : pc) (k : string) : Prop :=
  match c with
  | RP_list2 p true | RP_del p true => k = plock p
  | RP_unlock p _ | RN_unlock p _ | RN_get2 _ p | RN_list _ p | RN_setst _ p | RN_rm _ p | RN_delst _ p | RN_prm _ p => k = plock p
  | CR_cap _ _ p | CR_alloc _ _ p | CR_unlock _ _ p _ | RB_ralloc _ p | RW_getwl2 _ _ p | RW_lockc _ _ p => k = plock p
  | RW_usage id _ p | RW_rm id _ p | RW_usage2 id _ p | RW_fin id p _ => k = plock p \/ k = clock id
  | _ => False
  end.
Definition nowl (w : rw) (n : string) : Prop := forall id, ~ In (id, n) (wls w).
Definition nonode (w : rw) (p : string) : Prop := forall n, ~ In (n, p) (nodes w).

Definition Qa (w : rw) (tr : list ev) (i : nat) (p : string) : Prop :=
  exists il okl, ev_at tr il (i, CListPodNodes p, okl) /\
    (nonode w p \/
     exists ic t1 n ig, t1 <> i /\ il < ic /\ ev_at tr ic (t1, CCreateNode n p, true)
                        /\ ev_at tr ig (t1, CGetPod p, true) /\ ig < ic).
Definition P2 (w : rw) (tr : list ev) (i : nat) (p : string) : Prop :=
  exists ig, ev_at tr ig (i, CGetPod p, true) /\
    (In p (pods w) \/ exists id t2, t2 <> i /\ ig < id /\ ev_at tr id (t2, CDeletePod p, true)).
(* RemoveNode after its workload list came back empty: still no workload on n, or
   a create recorded one after my list (having fetched the node before) *)
Definition NW (w : rw) (tr : list ev) (i : nat) (n : string) : Prop :=
  exists il okl, ev_at tr il (i, CListNodeWls n, okl) /\
    (nowl w n \/
     exists ia t1 id ig, t1 <> i /\ il < ia /\ ev_at tr ia (t1, CAddWl id n, true)
                         /\ ev_at tr ig (t1, CGetNode n, true) /\ ig < ia).
(* create about to record its workload: the node it fetched still exists, or a
   RemoveNode removed it after my fetch *)
Definition P3 (w : rw) (tr : list ev) (i : nat) (n : string) : Prop :=
  exists ig, ev_at tr ig (i, CGetNode n, true) /\
    (In n (node_names w) \/ exists ir t2, t2 <> i /\ ig < ir /\ ev_at tr ir (t2, CRemoveNode n, true)).
Definition assert (w : rw) (tr : list ev) (i : nat) (c : pc) : Prop :=
  match c with
  | RP_del p _ => Qa w tr i p
  | AN_create _ p => P2 w tr i p
  | RN_list n p => node_pod w n = Some p
  | RN_setst n p | RN_rm n p => node_pod w n = Some p /\ NW w tr i n
  | CR_addwl n _ => P3 w tr i n
  | _ => True
  end.

Record RefI (w : rw) : Prop := {
  i_pod : forall n p, In (n, p) (nodes w) -> In p (pods w);
  i_res : forall n p, In (n, p) (nodes w) -> In n (nres w);
  i_wl : forall id n, In (id, n) (wls w) -> In n (node_names w);
  i_nd : NoDup (node_names w)
}.
Record OwnI (w : rw) (pcs : list pc) : Prop := {
  i_own : forall n, In n (nres w) -> In n (node_names w) \/ exists i c, nth_error pcs i = Some c /\ owns c n;
  i_ownf : forall i c n, nth_error pcs i = Some c -> owns c n -> In n (nres w) /\ ~ In n (node_names w);
  i_own1 : forall i j ci cj n, nth_error pcs i = Some ci -> nth_error pcs j = Some cj ->
             owns ci n -> owns cj n -> i = j
}.
Record LockI (w : rw) (pcs : list pc) : Prop := {
  i_hnd : NoDup (map fst (held w));
  i_held : forall k i, In (k, i) (held w) <-> exists c, nth_error pcs i = Some c /\ holds c k
}.
Definition TraceI (tr : list ev) : Prop :=
  forall id t p, ev_at tr id (t, CDeletePod p, true) ->
    exists il okl, il < id /\ ev_at tr il (t, CListPodNodes p, okl).
Definition TraceR (tr : list ev) : Prop :=
  forall ir t n, ev_at tr ir (t, CRemoveNode n, true) ->
    exists il okl, il < ir /\ ev_at tr il (t, CListNodeWls n, okl).
Definition PcI (w : rw) (pcs : list pc) (tr : list ev) : Prop :=
  forall i c, nth_error pcs i = Some c -> assert w tr i c.

Record Inv (w : rw) (pcs : list pc) (tr : list ev) : Prop := {
  v_ref : RefI w; v_own : OwnI w pcs; v_lock : LockI w pcs; v_tr : TraceI tr; v_tr2 : TraceR tr; v_pc : PcI w pcs tr
}.

Lemma names_eq : forall w w', nodes w' = nodes w -> node_names w' = node_names w.
Proof. intros w w' E. unfold node_names. rewrite E. reflexivity. Qed.

(* group lemmas: what is untouched is preserved *)
Lemma upd_owns : forall pcs i c c' j cj n, nth_error pcs i = Some c -> (forall m, owns c' m -> owns c m) ->
  nth_error (set_nth i c' pcs) j = Some cj -> owns cj n -> exists cj0, nth_error pcs j = Some cj0 /\ owns cj0 n.
Proof.
  intros pcs i c c' j cj n Hi Hsub Hj Ho. destruct (nth_set_nth_cases _ _ _ _ _ _ Hi Hj) as [[-> ->]|[Hne Hold]].
  - exists c. split; [exact Hi | apply Hsub; exact Ho].
  - exists cj. split; assumption.
Qed.
Lemma upd_holds_iff : forall pcs i c c' j k, nth_error pcs i = Some c -> (forall m, holds c' m <-> holds c m) ->
  ((exists cj, nth_error (set_nth i c' pcs) j = Some cj /\ holds cj k) <-> (exists cj, nth_error pcs j = Some cj /\ holds cj k)).
Proof.
  intros pcs i c c' j k Hi Hs. destruct (Nat.eq_dec j i) as [E|E].
  - subst j. rewrite (nth_set_nth_eq pcs i c' c Hi). split; intros [cj [Hj Hh]].
    + inversion Hj; subst. exists c. split; [exact Hi | apply Hs; exact Hh].
    + rewrite Hi in Hj. inversion Hj; subst. exists c'. split; [reflexivity | apply Hs; exact Hh].
  - rewrite nth_set_nth_neq by congruence. tauto.
Qed.

Lemma OwnI_same : forall w w' pcs i c c', OwnI w pcs -> nth_error pcs i = Some c ->
  nres w' = nres w -> nodes w' = nodes w -> (forall m, owns c' m <-> owns c m) -> OwnI w' (set_nth i c' pcs).
Proof.
  intros w w' pcs i c c' O Hi Er En Hs. constructor.
  - intros n H. rewrite Er in H. rewrite (names_eq _ _ En).
    destruct (i_own _ _ O n H) as [L|[j [cj [Hj Ho]]]]; [left; exact L | right].
    destruct (Nat.eq_dec j i) as [E|E].
    + subst j. rewrite Hi in Hj. inversion Hj; subst. exists i, c'. split; [eapply nth_set_nth_eq; exact Hi | apply Hs; exact Ho].
    + exists j, cj. split; [rewrite nth_set_nth_neq by congruence; exact Hj | exact Ho].
  - intros j cj n Hj Ho. rewrite Er, (names_eq _ _ En).
    destruct (upd_owns _ _ _ _ _ _ _ Hi (fun m => proj1 (Hs m)) Hj Ho) as [c0 [H0 O0]]. eapply (i_ownf _ _ O); eauto.
  - intros j1 j2 c1 c2 n H1 H2 O1 O2.
    destruct (upd_owns _ _ _ _ _ _ _ Hi (fun m => proj1 (Hs m)) H1 O1) as [a [Ha Oa]].
    destruct (upd_owns _ _ _ _ _ _ _ Hi (fun m => proj1 (Hs m)) H2 O2) as [b [Hb Ob]].
    eapply (i_own1 _ _ O); eauto.
Qed.

Lemma LockI_same : forall w w' pcs i c c', LockI w pcs -> nth_error pcs i = Some c ->
  held w' = held w -> (forall m, holds c' m <-> holds c m) -> LockI w' (set_nth i c' pcs).
Proof.
  intros w w' pcs i c c' L Hi Eh Hs. constructor.
  - rewrite Eh. apply (i_hnd _ _ L).
  - intros k j. rewrite Eh. rewrite (upd_holds_iff pcs i c c' j k Hi Hs). apply (i_held _ _ L).
Qed.

Lemma TraceI_ext : forall tr e, TraceI tr ->
  (forall t p, e = (t, CDeletePod p, true) -> exists il okl, il < List.length tr /\ ev_at tr il (t, CListPodNodes p, okl)) ->
  TraceI (tr ++ [e]).
Proof.
  intros tr e T Hn id t p H. apply ev_at_app_inv in H. destruct H as [H|[-> <-]].
  - destruct (T _ _ _ H) as [il [okl [L E]]]. exists il, okl. split; [exact L | apply ev_at_ext; exact E].
  - destruct (Hn t p eq_refl) as [il [okl [L E]]]. exists il, okl. split; [exact L | apply ev_at_ext; exact E].
Qed.

Lemma TraceR_ext : forall tr e, TraceR tr ->
  (forall t n, e = (t, CRemoveNode n, true) -> exists il okl, il < List.length tr /\ ev_at tr il (t, CListNodeWls n, okl)) ->
  TraceR (tr ++ [e]).
Proof.
  intros tr e T Hn ir t n H. apply ev_at_app_inv in H. destruct H as [H|[-> <-]].
  - destruct (T _ _ _ H) as [il [okl [L E]]]. exists il, okl. split; [exact L | apply ev_at_ext; exact E].
  - destruct (Hn t n eq_refl) as [il [okl [L E]]]. exists il, okl. split; [exact L | apply ev_at_ext; exact E].
Qed.

Lemma PcI_upd : forall w w' pcs tr tr' i c c', PcI w pcs tr -> nth_error pcs i = Some c ->
  (forall j cj, j <> i -> nth_error pcs j = Some cj -> assert w tr j cj -> assert w' tr' j cj) ->
  assert w' tr' i c' -> PcI w' (set_nth i c' pcs) tr'.
Proof.
  intros w w' pcs tr tr' i c c' P Hi Ho Hc j cj Hj.
  destruct (nth_set_nth_cases _ _ _ _ _ _ Hi Hj) as [[-> ->]|[Hne Hold]]; [exact Hc | apply Ho; auto].
Qed.

(* assertions only grow with the trace *)
Lemma Qa_ext : forall w tr i p x, Qa w tr i p -> Qa w (tr ++ [x]) i p.
Proof.
  intros w tr i p x (il & okl & Hl & H). exists il, okl. split; [apply ev_at_ext; exact Hl|].
  destruct H as [H|(ic & t1 & n & ig & H1 & H2 & H3 & H4 & H5)]; [left; exact H | right].
  exists ic, t1, n, ig. repeat split; try apply ev_at_ext; assumption.
Qed.
Lemma P2_ext : forall w tr i p x, P2 w tr i p -> P2 w (tr ++ [x]) i p.
Proof.
  intros w tr i p x (ig & Hg & H). exists ig. split; [apply ev_at_ext; exact Hg|].
  destruct H as [H|(id & t2 & H1 & H2 & H3)]; [left; exact H | right].
  exists id, t2. repeat split; try apply ev_at_ext; assumption.
Qed.
Lemma NW_ext : forall w tr i n x, NW w tr i n -> NW w (tr ++ [x]) i n.
Proof.
  intros w tr i n x (il & okl & Hl & H). exists il, okl. split; [apply ev_at_ext; exact Hl|].
  destruct H as [H|(ia & t1 & id & ig & H1 & H2 & H3 & H4 & H5)]; [left; exact H | right].
  exists ia, t1, id, ig. repeat split; try apply ev_at_ext; assumption.
Qed.
Lemma P3_ext : forall w tr i n x, P3 w tr i n -> P3 w (tr ++ [x]) i n.
Proof.
  intros w tr i n x (ig & Hg & H). exists ig. split; [apply ev_at_ext; exact Hg|].
  destruct H as [H|(ir & t2 & H1 & H2 & H3)]; [left; exact H | right].
  exists ir, t2. repeat split; try apply ev_at_ext; assumption.
Qed.
Lemma NW_world : forall w w' tr i n, (forall x, In x (wls w') -> In x (wls w)) -> NW w tr i n -> NW w' tr i n.
Proof.
  intros w w' tr i n Ew (il & okl & Hl & H). exists il, okl. split; [exact Hl|].
  destruct H as [H|H]; [left; intros id X; exact (H id (Ew _ X)) | right; exact H].
Qed.
Lemma assert_ext : forall w w' tr x j c, (forall q, In q (pods w) -> In q (pods w')) -> nodes w' = nodes w ->
  (forall y, In y (wls w') -> In y (wls w)) ->
  assert w tr j c -> assert w' (tr ++ [x]) j c.
Proof.
  intros w w' tr x j c Ep En Ew H. destruct c; cbn [assert] in *; try exact I.
  - apply Qa_ext. destruct H as (il & okl & Hl & H). exists il, okl. split; [exact Hl|].
    destruct H as [H|H]; [left; unfold nonode in *; rewrite En; exact H | right; exact H].
  - apply P2_ext. destruct H as (ig & Hg & H). exists ig. split; [exact Hg|].
    destruct H as [H|H]; [left; apply Ep; exact H | right; exact H].
  - unfold node_pod in *. rewrite En. exact H.
  - destruct H as [H1 H2]. split; [unfold node_pod in *; rewrite En; exact H1|].
    apply NW_ext. eapply NW_world; eauto.
  - destruct H as [H1 H2]. split; [unfold node_pod in *; rewrite En; exact H1|].
    apply NW_ext. eapply NW_world; eauto.
  - apply P3_ext. destruct H as (ig & Hg & H). exists ig. split; [exact Hg|].
    rewrite (names_eq _ _ En). exact H.
Qed.

Lemma RefI_same : forall w w', RefI w -> pods w' = pods w -> nodes w' = nodes w -> nres w' = nres w -> wls w' = wls w -> RefI w'.
Proof.
  intros w w' [A B C D] Ep En Er Ew. constructor; rewrite ?(names_eq _ _ En), ?Ep, ?En, ?Er, ?Ew; assumption.
Qed.

Lemma owns_fun : forall c a b, owns c a -> owns c b -> a = b.
Proof. destruct c; cbn; intros; try contradiction; congruence. Qed.

Lemma NoDup_fst_inj : forall {A B} (l : list (A * B)) k a b, NoDup (map fst l) -> In (k, a) l -> In (k, b) l -> a = b.
Proof.
  intros A B l. induction l as [|[k0 v0] t IH]; intros k a b ND Ha Hb; [destruct Ha|].
  simpl in ND. inversion ND as [|? ? Hn Hd]; subst. destruct Ha as [Ha|Ha], Hb as [Hb|Hb].
  - congruence.
  - inversion Ha; subst. exfalso. apply Hn. apply in_map_iff. exists (k, b). split; [reflexivity | exact Hb].
  - inversion Hb; subst. exfalso. apply Hn. apply in_map_iff. exists (k, a). split; [reflexivity | exact Ha].
  - eapply IH; eauto.
Qed.
Lemma mutex : forall w pcs i j ci cj k, LockI w pcs -> nth_error pcs i = Some ci -> nth_error pcs j = Some cj ->
  holds ci k -> holds cj k -> i = j.
Proof.
  intros w pcs i j ci cj k L Hi Hj Hci Hcj.
  assert (A : In (k, i) (held w)) by (apply (i_held _ _ L); exists ci; split; assumption).
  assert (B : In (k, j) (held w)) by (apply (i_held _ _ L); exists cj; split; assumption).
  exact (NoDup_fst_inj _ _ _ _ (i_hnd _ _ L) A B).
Qed.
Lemma NoDup_map_filter : forall {A B} (f : A -> B) (g : A -> bool) l, NoDup (map f l) -> NoDup (map f (filter g l)).
Proof.
  intros A B f g l. induction l as [|x t IH]; intros H; simpl; [constructor|]. simpl in H. inversion H; subst.
  destruct (g x); simpl; [constructor|]; auto.
  intro Hx. apply in_map_iff in Hx. destruct Hx as [y [E Hy]]. apply filter_In in Hy.
  match goal with N : ~ In _ _ |- _ => apply N end. apply in_map_iff. exists y. split; tauto.
Qed.
Lemma holder_none : forall w k, holder w k = None -> ~ In k (map fst (held w)).
Proof.
  intros w k H Hin. unfold holder in H. apply in_map_iff in Hin. destruct Hin as [[k' v] [E Hx]]. simpl in E. subst k'.
  destruct (find (fun x => String.eqb (fst x) k) (held w)) eqn:F; [discriminate|].
  pose proof (find_none _ _ F _ Hx) as X. simpl in X. rewrite String.eqb_refl in X. discriminate.
Qed.

(* a step that leaves the world (up to the pods growing) and the ownership / lock footprint alone *)
Lemma inv_frame : forall w w' pcs tr i c c' e, Inv w pcs tr -> nth_error pcs i = Some c ->
  (forall q, In q (pods w) -> In q (pods w')) -> nodes w' = nodes w -> nres w' = nres w ->
  (forall y, In y (wls w') -> In y (wls w)) -> held w' = held w ->
  (forall m, owns c' m <-> owns c m) -> (forall m, holds c' m <-> holds c m) ->
  (forall t p, e = (t, CDeletePod p, true) -> exists il okl, il < List.length tr /\ ev_at tr il (t, CListPodNodes p, okl)) ->
  (forall t n, e = (t, CRemoveNode n, true) -> exists il okl, il < List.length tr /\ ev_at tr il (t, CListNodeWls n, okl)) ->
  assert w' (tr ++ [e]) i c' ->
  Inv w' (set_nth i c' pcs) (tr ++ [e]).
Proof.
  intros w w' pcs tr i c c' e [Rf Ow Lk Tr Tr2 Pc] Hi Ep En Er Ew Eh Hso Hsh Hev Hev2 Hc. constructor.
  - destruct Rf as [A B C D]. constructor; rewrite ?(names_eq _ _ En), ?En, ?Er; auto.
    + intros n p H. apply Ep. eapply A. exact H.
    + intros id n H. eapply C. apply Ew. exact H.
  - eapply OwnI_same; eauto.
  - eapply LockI_same; eauto.
  - apply TraceI_ext; assumption.
  - apply TraceR_ext; assumption.
  - eapply PcI_upd; eauto. intros j cj _ _ H. apply (assert_ext w w'); assumption.
Qed.

(* ---------- the mutating steps ---------- *)
Lemma not_delete : forall (tr : list ev) (i : nat) (c : rcall) (b : bool),
  (forall p, c <> CDeletePod p) ->
  forall (t : nat) p, (i, c, b) = (t, CDeletePod p, true) ->
  exists il okl, il < List.length tr /\ ev_at tr il (t, CListPodNodes p, okl).
Proof. intros tr i c b H t p E. inversion E; subst. exfalso. exact (H p eq_refl). Qed.

Lemma not_rmnode : forall (tr : list ev) (i : nat) (c : rcall) (b : bool),
  (forall n, c <> CRemoveNode n) ->
  forall (t : nat) n, (i, c, b) = (t, CRemoveNode n, true) ->
  exists il okl, il < List.length tr /\ ev_at tr il (t, CListNodeWls n, okl).
Proof. intros tr i c b H t n E. inversion E; subst. exfalso. exact (H n eq_refl). Qed.

(* PAddNode succeeds: the thread becomes the owner of the new resource record *)
Lemma inv_padd : forall w pcs tr i n p, Inv w pcs tr -> nth_error pcs i = Some (AN_padd n p) -> ~ In n (nres w) ->
  Inv (set_nres w (n :: nres w)) (set_nth i (AN_getpod n p) pcs) (tr ++ [(i, PAddNode n, true)]).
Proof.
  intros w pcs tr i n p [Rf Ow Lk Tr Tr2 Pc] Hi Hn.
  assert (Nn : ~ In n (node_names w)).
  { intro X. apply in_node_names in X. destruct X as [q X]. apply Hn. eapply (i_res _ Rf); exact X. }
  constructor.
  - destruct Rf as [A B C D]. constructor; cbn; auto. intros m q H. right. eapply B; exact H.
  - constructor; cbn [nres set_nres].
    + intros m [E|H].
      * subst m. right. exists i, (AN_getpod n p). split; [eapply nth_set_nth_eq; exact Hi | reflexivity].
      * destruct (i_own _ _ Ow m H) as [L|[j [cj [Hj Ho]]]]; [left; exact L | right].
        assert (j <> i) by (intro E; subst j; rewrite Hi in Hj; inversion Hj; subst; exact Ho).
        exists j, cj. split; [rewrite nth_set_nth_neq by congruence; exact Hj | exact Ho].
    + intros j cj m Hj Ho. destruct (nth_set_nth_cases _ _ _ _ _ _ Hi Hj) as [[-> ->]|[Hne Hold]].
      * cbn in Ho. subst m. split; [left; reflexivity | exact Nn].
      * destruct (i_ownf _ _ Ow _ _ _ Hold Ho) as [X Y]. split; [right; exact X | exact Y].
    + intros j1 j2 c1 c2 m H1 H2 O1 O2.
      destruct (nth_set_nth_cases _ _ _ _ _ _ Hi H1) as [[-> ->]|[Hne1 Hold1]];
      destruct (nth_set_nth_cases _ _ _ _ _ _ Hi H2) as [[-> ->]|[Hne2 Hold2]].
      * reflexivity.
      * cbn in O1. subst m. exfalso. apply Hn. exact (proj1 (i_ownf _ _ Ow _ _ _ Hold2 O2)).
      * cbn in O2. subst m. exfalso. apply Hn. exact (proj1 (i_ownf _ _ Ow _ _ _ Hold1 O1)).
      * eapply (i_own1 _ _ Ow); eauto.
  - eapply LockI_same; eauto. intros m. cbn. tauto.
  - apply TraceI_ext; [exact Tr|]. apply not_delete. intros q. discriminate.
  - apply TraceR_ext; [exact Tr2|]. apply not_rmnode. intros q. discriminate.
  - eapply PcI_upd; eauto; [|exact I]. intros j cj _ _ H. apply (assert_ext w); auto.
Qed.

(* PRemoveNode by the owner of the record *)
Lemma inv_prm : forall w pcs tr i c c' n, Inv w pcs tr -> nth_error pcs i = Some c -> owns c n ->
  (forall m, ~ owns c' m) -> (forall m, holds c' m <-> holds c m) ->
  (forall w' tr', assert w' tr' i c') ->
  Inv (set_nres w (rm n (nres w))) (set_nth i c' pcs) (tr ++ [(i, PRemoveNode n, true)]).
Proof.
  intros w pcs tr i c c' n [Rf Ow Lk Tr Tr2 Pc] Hi Hown Hno Hsh Hc.
  destruct (i_ownf _ _ Ow _ _ _ Hi Hown) as [Nr Nn].
  constructor.
  - destruct Rf as [A B C D]. constructor; cbn; auto. intros m q H. apply in_rm. split; [eapply B; exact H|].
    intro E. subst m. apply Nn. apply in_node_names. exists q. exact H.
  - constructor; cbn [nres set_nres].
    + intros m H. apply in_rm in H. destruct H as [H Hne].
      destruct (i_own _ _ Ow m H) as [L|[j [cj [Hj Ho]]]]; [left; exact L | right].
      assert (j <> i).
      { intro E. subst j. rewrite Hi in Hj. inversion Hj; subst. apply Hne. eapply owns_fun; eauto. }
      exists j, cj. split; [rewrite nth_set_nth_neq by congruence; exact Hj | exact Ho].
    + intros j cj m Hj Ho. destruct (nth_set_nth_cases _ _ _ _ _ _ Hi Hj) as [[-> ->]|[Hne Hold]].
      * exfalso. exact (Hno m Ho).
      * destruct (i_ownf _ _ Ow _ _ _ Hold Ho) as [X Y]. split; [|exact Y]. apply in_rm. split; [exact X|].
        intro E. subst m. apply Hne. eapply (i_own1 _ _ Ow); eauto.
    + intros j1 j2 c1 c2 m H1 H2 O1 O2.
      destruct (upd_owns _ _ _ _ _ _ _ Hi (fun m X => False_ind _ (Hno m X)) H1 O1) as [a [Ha Oa]].
      destruct (upd_owns _ _ _ _ _ _ _ Hi (fun m X => False_ind _ (Hno m X)) H2 O2) as [b [Hb Ob]].
      eapply (i_own1 _ _ Ow); eauto.
  - eapply LockI_same; eauto.
  - apply TraceI_ext; [exact Tr|]. apply not_delete. intros q. discriminate.
  - apply TraceR_ext; [exact Tr2|]. apply not_rmnode. intros q. discriminate.
  - eapply PcI_upd; eauto. intros j cj _ _ H. apply (assert_ext w); auto.
Qed.

(* Lock of a free key (the thread may already hold other keys) *)
Lemma inv_lock : forall w pcs tr i c c' k, Inv w pcs tr -> nth_error pcs i = Some c -> holder w k = None ->
  (forall m, holds c' m <-> holds c m \/ m = k) -> (forall m, owns c' m <-> owns c m) ->
  (forall w' tr', assert w' tr' i c') ->
  Inv (set_held w ((k, i) :: held w)) (set_nth i c' pcs) (tr ++ [(i, CLock k, true)]).
Proof.
  intros w pcs tr i c c' k [Rf Ow Lk Tr Tr2 Pc] Hi Hfree Hk Hso Hc. constructor.
  - eapply RefI_same; eauto.
  - eapply OwnI_same; eauto.
  - constructor; cbn [held set_held].
    + simpl. constructor; [apply holder_none; exact Hfree | apply (i_hnd _ _ Lk)].
    + intros k' j. split.
      * intros [E|H].
        -- inversion E; subst. exists c'. split; [eapply nth_set_nth_eq; exact Hi | apply Hk; right; reflexivity].
        -- apply (i_held _ _ Lk) in H. destruct H as [cj [Hj Hh]]. destruct (Nat.eq_dec j i) as [E|E].
           ++ subst j. rewrite Hi in Hj. inversion Hj; subst. exists c'. split; [eapply nth_set_nth_eq; exact Hi | apply Hk; left; exact Hh].
           ++ exists cj. split; [rewrite nth_set_nth_neq by congruence; exact Hj | exact Hh].
      * intros [cj [Hj Hh]]. destruct (nth_set_nth_cases _ _ _ _ _ _ Hi Hj) as [[-> ->]|[Hne Hold]].
        -- apply Hk in Hh. destruct Hh as [Hh|Hh]; [|subst k'; left; reflexivity].
           right. apply (i_held _ _ Lk). exists c. split; assumption.
        -- right. apply (i_held _ _ Lk). exists cj. split; assumption.
  - apply TraceI_ext; [exact Tr|]. apply not_delete. intros q. discriminate.
  - apply TraceR_ext; [exact Tr2|]. apply not_rmnode. intros q. discriminate.
  - eapply PcI_upd; eauto. intros j cj _ _ H. apply (assert_ext w); auto.
Qed.

(* Unlock of one of the held keys *)
Lemma inv_unlock : forall w pcs tr i c c' k, Inv w pcs tr -> nth_error pcs i = Some c ->
  (forall m, holds c m <-> holds c' m \/ m = k) -> ~ holds c' k -> (forall m, owns c' m <-> owns c m) ->
  (forall w' tr', assert w' tr' i c') ->
  Inv (set_held w (filter (fun x => negb (String.eqb (fst x) k && Nat.eqb (snd x) i)) (held w)))
      (set_nth i c' pcs) (tr ++ [(i, CUnlock k, true)]).
Proof.
  intros w pcs tr i c c' k [Rf Ow Lk Tr Tr2 Pc] Hi Hk Hno Hso Hc. constructor.
  - eapply RefI_same; eauto.
  - eapply OwnI_same; eauto.
  - constructor; cbn [held set_held].
    + apply NoDup_map_filter. apply (i_hnd _ _ Lk).
    + intros k' j. rewrite filter_In. cbn [fst snd]. split.
      * intros [H F]. apply (i_held _ _ Lk) in H. destruct H as [cj [Hj Hh]]. destruct (Nat.eq_dec j i) as [E|E].
        -- subst j. rewrite Hi in Hj. inversion Hj; subst. apply Hk in Hh. destruct Hh as [Hh|Hh].
           ++ exists c'. split; [eapply nth_set_nth_eq; exact Hi | exact Hh].
           ++ subst k'. rewrite String.eqb_refl, Nat.eqb_refl in F. discriminate.
        -- exists cj. split; [rewrite nth_set_nth_neq by congruence; exact Hj | exact Hh].
      * intros [cj [Hj Hh]]. destruct (nth_set_nth_cases _ _ _ _ _ _ Hi Hj) as [[-> ->]|[Hne Hold]].
        -- split; [apply (i_held _ _ Lk); exists c; split; [exact Hi | apply Hk; left; exact Hh]|].
           replace (String.eqb k' k) with false; [reflexivity|]. symmetry. apply String.eqb_neq. intro X. subst k'. exact (Hno Hh).
        -- split; [apply (i_held _ _ Lk); exists cj; split; assumption|].
           replace (Nat.eqb j i) with false by (symmetry; apply Nat.eqb_neq; exact Hne).
           rewrite andb_false_r. reflexivity.
  - apply TraceI_ext; [exact Tr|]. apply not_delete. intros q. discriminate.
  - apply TraceR_ext; [exact Tr2|]. apply not_rmnode. intros q. discriminate.
  - eapply PcI_upd; eauto. intros j cj _ _ H. apply (assert_ext w); auto.
Qed.

Lemma node_pod_in_names : forall w n p, node_pod w n = Some p -> In n (node_names w).
Proof. intros w n p H. apply in_node_names. exists p. apply node_pod_spec. exact H. Qed.

Lemma find_filter_other : forall (l : list (string * string)) n m, m <> n ->
  find (fun x => String.eqb (fst x) m) (filter (fun x => negb (String.eqb (fst x) n)) l)
  = find (fun x => String.eqb (fst x) m) l.
Proof.
  induction l as [|[a b] t IH]; intros n m Hne; simpl; [reflexivity|].
  destruct (String.eqb a n) eqn:E; simpl.
  - apply String.eqb_eq in E. subst a. replace (String.eqb n m) with false by (symmetry; apply String.eqb_neq; congruence).
    apply IH. exact Hne.
  - destruct (String.eqb a m); [reflexivity | apply IH; exact Hne].
Qed.

(* DeletePod succeeds *)
Lemma inv_delpod : forall w pcs tr i p lk c', Inv w pcs tr -> nth_error pcs i = Some (RP_del p lk) ->
  (forall m, ~ owns c' m) -> (forall m, holds c' m <-> holds (RP_del p lk) m) -> (forall w' tr', assert w' tr' i c') ->
  let e := (i, CDeletePod p, true) in
  Ovl (tr ++ [e]) \/ Inv (set_pods w (rm p (pods w))) (set_nth i c' pcs) (tr ++ [e]).
Proof.
  intros w pcs tr i p lk c' [Rf Ow Lk Tr Tr2 Pc] Hi Hno Hsh Hc e.
  pose proof (Pc _ _ Hi) as Q. cbn [assert] in Q. destruct Q as (il & okl & Hl & [Hnn|Hw]).
  - right. constructor.
    + destruct Rf as [A B C D]. constructor; cbn; auto. intros n q H. apply in_rm. split; [eapply A; exact H|].
      intro E. subst q. exact (Hnn n H).
    + eapply OwnI_same; eauto. intros m. split; [intro X; exfalso; exact (Hno m X) | intro X; cbn in X; contradiction].
    + eapply LockI_same; eauto.
    + apply TraceI_ext; [exact Tr|]. intros t q E. inversion E; subst. exists il, okl. split; [eapply ev_at_lt; exact Hl | exact Hl].
    + apply TraceR_ext; [exact Tr2|]. apply not_rmnode. intros q. discriminate.
    + eapply PcI_upd; eauto. intros j cj Hne Hj H. destruct cj; cbn [assert] in *; try exact I.
      * apply Qa_ext. exact H.
      * destruct H as (ig & Hg & H). exists ig. split; [apply ev_at_ext; exact Hg|].
        destruct (String.eqb p0 p) eqn:E.
        -- apply String.eqb_eq in E. subst p0. right. exists (List.length tr), i. split; [congruence|].
           split; [eapply ev_at_lt; exact Hg | apply ev_at_last].
        -- apply String.eqb_neq in E. destruct H as [H|(id & t2 & H1 & H2 & H3)].
           ++ left. cbn. apply in_rm. split; assumption.
           ++ right. exists id, t2. repeat split; try apply ev_at_ext; assumption.
      * exact H.
      * destruct H as [H1 H2]. split; [exact H1 | apply NW_ext; exact H2].
      * destruct H as [H1 H2]. split; [exact H1 | apply NW_ext; exact H2].
      * apply P3_ext. exact H.
  - left. destruct Hw as (ic & t1 & n & ig & H1 & H2 & H3 & H4 & H5).
    exists ig, ic, (List.length tr), il, t1, i, p, n, okl.
    pose proof (ev_at_lt _ _ _ H3). pose proof (ev_at_lt _ _ _ Hl).
    repeat split; try (apply ev_at_ext; assumption); try lia; try assumption. apply ev_at_last.
Qed.

(* CreateNode by the owner of the resource record *)
Lemma inv_create : forall w pcs tr i n p, Inv w pcs tr -> nth_error pcs i = Some (AN_create n p) ->
  let e := (i, CCreateNode n p, true) in
  Ovl (tr ++ [e]) \/ Inv (set_nodes w ((n, p) :: nodes w)) (set_nth i (Done true) pcs) (tr ++ [e]).
Proof.
  intros w pcs tr i n p [Rf Ow Lk Tr Tr2 Pc] Hi e.
  destruct (i_ownf _ _ Ow _ _ _ Hi eq_refl) as [Nr Nn].
  pose proof (Pc _ _ Hi) as Q. cbn [assert] in Q. destruct Q as (ig & Hg & [Hp|Hw]).
  - right. constructor.
    + destruct Rf as [A B C D]. constructor; cbn [pods nodes nres wls set_nodes].
      * intros m q [E|H]; [inversion E; subst; exact Hp | eapply A; exact H].
      * intros m q [E|H]; [inversion E; subst; exact Nr | eapply B; exact H].
      * intros id m H. unfold node_names. cbn. right. exact (C id m H).
      * unfold node_names. cbn. constructor; assumption.
    + constructor; cbn [nres set_nodes]; unfold node_names; cbn [nodes map fst]; fold (node_names w).
      * intros m H. destruct (i_own _ _ Ow m H) as [L|[j [cj [Hj Ho]]]]; [left; right; exact L|].
        destruct (Nat.eq_dec j i) as [E|E].
        -- subst j. rewrite Hi in Hj. inversion Hj; subst. cbn in Ho. subst m. left. left. reflexivity.
        -- right. exists j, cj. split; [rewrite nth_set_nth_neq by congruence; exact Hj | exact Ho].
      * intros j cj m Hj Ho. destruct (nth_set_nth_cases _ _ _ _ _ _ Hi Hj) as [[-> ->]|[Hne Hold]]; [contradiction|].
        destruct (i_ownf _ _ Ow _ _ _ Hold Ho) as [X Y]. split; [exact X|].
        intros [E|Z]; [|exact (Y Z)]. subst m. apply Hne. eapply (i_own1 _ _ Ow); eauto. reflexivity.
      * intros j1 j2 c1 c2 m H1 H2 O1 O2.
        destruct (upd_owns _ _ _ _ _ _ _ Hi (fun m (X : owns (Done true) m) => False_ind _ X) H1 O1) as [a [Ha Oa]].
        destruct (upd_owns _ _ _ _ _ _ _ Hi (fun m (X : owns (Done true) m) => False_ind _ X) H2 O2) as [b [Hb Ob]].
        eapply (i_own1 _ _ Ow); eauto.
    + eapply LockI_same; eauto. intros m. cbn. tauto.
    + apply TraceI_ext; [exact Tr|]. apply not_delete. intros q. discriminate.
    + apply TraceR_ext; [exact Tr2|]. apply not_rmnode. intros q. discriminate.
    + eapply PcI_upd; eauto; [|exact I]. intros j cj Hne Hj H. destruct cj; cbn [assert] in *; try exact I.
      * destruct H as (il & okl & Hl & H). exists il, okl. split; [apply ev_at_ext; exact Hl|].
        destruct (String.eqb p0 p) eqn:E.
        -- apply String.eqb_eq in E. subst p0. right. exists (List.length tr), i, n, ig.
           split; [congruence|]. split; [eapply ev_at_lt; exact Hl|]. split; [apply ev_at_last|].
           split; [apply ev_at_ext; exact Hg | eapply ev_at_lt; exact Hg].
        -- apply String.eqb_neq in E. destruct H as [H|(ic & t1 & n1 & ig1 & H1 & H2 & H3 & H4 & H5)].
           ++ left. intros m [X|X]; [inversion X; subst; congruence | exact (H m X)].
           ++ right. exists ic, t1, n1, ig1. repeat split; try apply ev_at_ext; assumption.
      * apply P2_ext. exact H.
      * assert (n <> n0) by (intro X; subst n0; apply Nn; eapply node_pod_in_names; exact H).
        unfold node_pod in *. cbn. replace (String.eqb n n0) with false by (symmetry; apply String.eqb_neq; assumption). exact H.
      * destruct H as [H Hw]. assert (n <> n0) by (intro X; subst n0; apply Nn; eapply node_pod_in_names; exact H).
        split; [|apply NW_ext; eapply NW_world; [|exact Hw]; cbn; auto].
        unfold node_pod in *. cbn. replace (String.eqb n n0) with false by (symmetry; apply String.eqb_neq; assumption). exact H.
      * destruct H as [H Hw]. assert (n <> n0) by (intro X; subst n0; apply Nn; eapply node_pod_in_names; exact H).
        split; [|apply NW_ext; eapply NW_world; [|exact Hw]; cbn; auto].
        unfold node_pod in *. cbn. replace (String.eqb n n0) with false by (symmetry; apply String.eqb_neq; assumption). exact H.
      * apply P3_ext. destruct H as (ig0 & Hg0 & H). exists ig0. split; [exact Hg0|].
        destruct H as [H|H]; [left; unfold node_names; cbn; right; exact H | right; exact H].
  - left. destruct Hw as (id & t2 & H1 & H2 & H3). destruct (Tr _ _ _ H3) as (il & okl & L & Hl).
    exists ig, (List.length tr), id, il, i, t2, p, n, okl.
    pose proof (ev_at_lt _ _ _ H3). pose proof (ev_at_lt _ _ _ Hg).
    repeat split; try (apply ev_at_ext; assumption); try lia; try congruence. apply ev_at_last.
Qed.

(* RemoveNode's store removal, under the pod lock, after the checks *)
Lemma inv_rmnode : forall w pcs tr i n p, Inv w pcs tr -> nth_error pcs i = Some (RN_rm n p) ->
  Ovl2 (tr ++ [(i, CRemoveNode n, true)]) \/
  Inv (set_nodes w (filter (fun x => negb (String.eqb (fst x) n)) (nodes w))) (set_nth i (RN_delst n p) pcs)
      (tr ++ [(i, CRemoveNode n, true)]).
Proof.
  intros w pcs tr i n p [Rf Ow Lk Tr Tr2 Pc] Hi.
  pose proof (Pc _ _ Hi) as Q. cbn [assert] in Q. destruct Q as [Hnp (il & okl & Hl & [Hnw|Hev])].
  2:{ left. destruct Hev as (ia & t1 & id & ig & H1 & H2 & H3 & H4 & H5).
      exists ia, (List.length tr), il, ig, t1, i, n, id, okl.
      pose proof (ev_at_lt _ _ _ H3). pose proof (ev_at_lt _ _ _ Hl).
      repeat split; try (apply ev_at_ext; assumption); try lia; try assumption. apply ev_at_last. }
  right.
  pose proof (node_pod_spec _ _ _ Hnp) as Hin.
  assert (Names : forall m, In m (node_names (set_nodes w (filter (fun x => negb (String.eqb (fst x) n)) (nodes w))))
                  <-> In m (node_names w) /\ m <> n).
  { intros m. unfold node_names. cbn. rewrite !in_map_iff. split.
    - intros [[a b] [E H]]. cbn in E. subst a. apply filter_In in H. destruct H as [H F]. cbn in F.
      split; [exists (m, b); split; [reflexivity | exact H]|]. intro X. subst m. rewrite String.eqb_refl in F. discriminate.
    - intros [[[a b] [E H]] Hne]. cbn in E. subst a. exists (m, b). split; [reflexivity|]. apply filter_In. split; [exact H|].
      cbn. replace (String.eqb m n) with false by (symmetry; apply String.eqb_neq; exact Hne). reflexivity. }
  constructor.
  - destruct Rf as [A B C D]. constructor; cbn [pods nodes nres wls set_nodes].
    + intros m q H. apply filter_In in H. eapply A. exact (proj1 H).
    + intros m q H. apply filter_In in H. eapply B. exact (proj1 H).
    + intros id m H. apply Names. split; [exact (C id m H)|]. intro X. subst m. exact (Hnw id H).
    + unfold node_names. cbn. apply NoDup_map_filter. exact D.
  - constructor; cbn [nres set_nodes].
    + intros m H. destruct (String.eqb m n) eqn:E.
      * apply String.eqb_eq in E. subst m. right. exists i, (RN_delst n p). split; [eapply nth_set_nth_eq; exact Hi | reflexivity].
      * apply String.eqb_neq in E. destruct (i_own _ _ Ow m H) as [L|[j [cj [Hj Ho]]]].
        -- left. apply Names. split; assumption.
        -- right. assert (j <> i) by (intro X; subst j; rewrite Hi in Hj; inversion Hj; subst; exact Ho).
           exists j, cj. split; [rewrite nth_set_nth_neq by congruence; exact Hj | exact Ho].
    + intros j cj m Hj Ho. destruct (nth_set_nth_cases _ _ _ _ _ _ Hi Hj) as [[-> ->]|[Hne Hold]].
      * cbn in Ho. subst m. split; [eapply (i_res _ Rf); exact Hin|]. intro X. apply Names in X. destruct X as [_ X]. congruence.
      * destruct (i_ownf _ _ Ow _ _ _ Hold Ho) as [X Y]. split; [exact X|]. intro Z. apply Names in Z. tauto.
    + assert (Nown : forall j cj, nth_error pcs j = Some cj -> owns cj n -> False).
      { intros j cj Hj Ho. destruct (i_ownf _ _ Ow _ _ _ Hj Ho) as [_ Y]. apply Y. eapply node_pod_in_names; exact Hnp. }
      intros j1 j2 c1 c2 m H1 H2 O1 O2.
      destruct (nth_set_nth_cases _ _ _ _ _ _ Hi H1) as [[-> ->]|[Hne1 Hold1]];
      destruct (nth_set_nth_cases _ _ _ _ _ _ Hi H2) as [[-> ->]|[Hne2 Hold2]].
      * reflexivity.
      * cbn in O1. subst m. exfalso. eapply Nown; eauto.
      * cbn in O2. subst m. exfalso. eapply Nown; eauto.
      * eapply (i_own1 _ _ Ow); eauto.
  - eapply LockI_same; eauto. intros m. cbn. tauto.
  - apply TraceI_ext; [exact Tr|]. apply not_delete. intros q. discriminate.
  - apply TraceR_ext; [exact Tr2|]. intros t q E. inversion E; subst. exists il, okl. split; [eapply ev_at_lt; exact Hl | exact Hl].
  - assert (Other : forall j m q cj, j <> i -> nth_error pcs j = Some cj -> holds cj (plock q) -> node_pod w m = Some q -> m <> n).
    { intros j m q cj Hne Hj Hh Hm X. subst m. rewrite Hnp in Hm. inversion Hm; subst q.
      apply Hne. eapply (mutex w pcs j i); eauto. reflexivity. }
    eapply PcI_upd; eauto; [|exact I]. intros j cj Hne Hj H. destruct cj; cbn [assert] in *; try exact I.
    + destruct H as (il0 & okl0 & Hl0 & H). exists il0, okl0. split; [apply ev_at_ext; exact Hl0|].
      destruct H as [H|(ic & t1 & n1 & ig1 & H1 & H2 & H3 & H4 & H5)].
      * left. intros m X. cbn in X. apply filter_In in X. exact (H m (proj1 X)).
      * right. exists ic, t1, n1, ig1. repeat split; try apply ev_at_ext; assumption.
    + apply P2_ext. exact H.
    + assert (n0 <> n) by (eapply (Other j n0 p0); eauto; reflexivity).
      unfold node_pod in *. cbn. rewrite find_filter_other by assumption. exact H.
    + destruct H as [H Hw]. assert (n0 <> n) by (eapply (Other j n0 p0); eauto; reflexivity).
      split; [|apply NW_ext; eapply NW_world; [|exact Hw]; cbn; auto]. unfold node_pod in *. cbn. rewrite find_filter_other by assumption. exact H.
    + destruct H as [H Hw]. assert (n0 <> n) by (eapply (Other j n0 p0); eauto; reflexivity).
      split; [|apply NW_ext; eapply NW_world; [|exact Hw]; cbn; auto]. unfold node_pod in *. cbn. rewrite find_filter_other by assumption. exact H.
    + destruct H as (ig0 & Hg0 & H). exists ig0. split; [apply ev_at_ext; exact Hg0|].
      destruct (String.eqb n0 n) eqn:E.
      * apply String.eqb_eq in E. subst n0. right. exists (List.length tr), i. split; [congruence|].
        split; [eapply ev_at_lt; exact Hg0 | apply ev_at_last].
      * apply String.eqb_neq in E. destruct H as [H|(ir & t2 & H1 & H2 & H3)].
        -- left. apply Names. split; assumption.
        -- right. exists ir, t2. repeat split; try apply ev_at_ext; assumption.
Qed.

(* create records its workload *)
Lemma inv_addwl : forall w pcs tr i n id, Inv w pcs tr -> nth_error pcs i = Some (CR_addwl n id) ->
  let e := (i, CAddWl id n, true) in
  Ovl2 (tr ++ [e]) \/
  Inv (set_wls w ((id, n) :: filter (fun x => negb (String.eqb (fst x) id)) (wls w))) (set_nth i (Done true) pcs) (tr ++ [e]).
Proof.
  intros w pcs tr i n id [Rf Ow Lk Tr Tr2 Pc] Hi e.
  pose proof (Pc _ _ Hi) as Q. cbn [assert] in Q. destruct Q as (ig & Hg & [Hin|Hw]).
  - right. constructor.
    + destruct Rf as [A B C D]. constructor; cbn [pods nodes nres wls set_wls]; auto.
      intros x m [E|H]; [inversion E; subst; exact Hin | apply filter_In in H; eapply C; exact (proj1 H)].
    + eapply OwnI_same; eauto. intros m. cbn. tauto.
    + eapply LockI_same; eauto. intros m. cbn. tauto.
    + apply TraceI_ext; [exact Tr|]. apply not_delete. intros q. discriminate.
    + apply TraceR_ext; [exact Tr2|]. apply not_rmnode. intros q. discriminate.
    + eapply PcI_upd; eauto; [|exact I]. intros j cj Hne Hj H. destruct cj; cbn [assert] in *; try exact I.
      * apply Qa_ext. exact H.
      * apply P2_ext. exact H.
      * exact H.
      * destruct H as [H1 (il & okl & Hl & H2)]. split; [exact H1|]. exists il, okl. split; [apply ev_at_ext; exact Hl|].
        destruct (String.eqb n0 n) eqn:E.
        -- apply String.eqb_eq in E. subst n0. right. exists (List.length tr), i, id, ig.
           split; [congruence|]. split; [eapply ev_at_lt; exact Hl|]. split; [apply ev_at_last|].
           split; [apply ev_at_ext; exact Hg | eapply ev_at_lt; exact Hg].
        -- apply String.eqb_neq in E. destruct H2 as [H2|(ia & t1 & id1 & ig1 & X1 & X2 & X3 & X4 & X5)].
           ++ left. intros x [Y|Y]; [inversion Y; subst; congruence | apply filter_In in Y; exact (H2 x (proj1 Y))].
           ++ right. exists ia, t1, id1, ig1. repeat split; try apply ev_at_ext; assumption.
      * destruct H as [H1 (il & okl & Hl & H2)]. split; [exact H1|]. exists il, okl. split; [apply ev_at_ext; exact Hl|].
        destruct (String.eqb n0 n) eqn:E.
        -- apply String.eqb_eq in E. subst n0. right. exists (List.length tr), i, id, ig.
           split; [congruence|]. split; [eapply ev_at_lt; exact Hl|]. split; [apply ev_at_last|].
           split; [apply ev_at_ext; exact Hg | eapply ev_at_lt; exact Hg].
        -- apply String.eqb_neq in E. destruct H2 as [H2|(ia & t1 & id1 & ig1 & X1 & X2 & X3 & X4 & X5)].
           ++ left. intros x [Y|Y]; [inversion Y; subst; congruence | apply filter_In in Y; exact (H2 x (proj1 Y))].
           ++ right. exists ia, t1, id1, ig1. repeat split; try apply ev_at_ext; assumption.
      * apply P3_ext. exact H.
  - left. destruct Hw as (ir & t2 & H1 & H2 & H3). destruct (Tr2 _ _ _ H3) as (il & okl & L & Hl).
    exists (List.length tr), ir, il, ig, i, t2, n, id, okl.
    pose proof (ev_at_lt _ _ _ H3). pose proof (ev_at_lt _ _ _ Hg).
    repeat split; try (apply ev_at_ext; assumption); try lia; try congruence. apply ev_at_last.
Qed.

Lemma plock_clock : forall p id, plock p <> clock id.
Proof. intros p id H. unfold plock, clock in H. cbn in H. discriminate. Qed.

(* ---------- every step preserves "window or invariant" ---------- *)
Ltac frame c0 :=
  right; right; eapply (inv_frame _ _ _ _ _ c0);
  [ eassumption | eassumption | intros ? ?; cbn; auto | reflexivity | reflexivity
  | intros ? Hy; cbn in Hy; try (apply filter_In in Hy; destruct Hy as [Hy _]); exact Hy
  | reflexivity
  | intros ?; cbn; tauto | intros ?; cbn; tauto | intros ? ? X; inversion X | intros ? ? X; inversion X
  | cbn [assert]; try exact I ].
Ltac lift1 := let X := fresh in intros X; destruct X as [X|X]; [left; exact X | right; right; exact X].
Ltac lift2 := let X := fresh in intros X; destruct X as [X|X]; [right; left; exact X | right; right; exact X].

Lemma inv_astep : forall w pcs tr i c w' c' e, Inv w pcs tr -> nth_error pcs i = Some c ->
  astep w i c = Some (w', c', e) -> Ovl (tr ++ [e]) \/ Ovl2 (tr ++ [e]) \/ Inv w' (set_nth i c' pcs) (tr ++ [e]).
Proof.
  intros w pcs tr i c w' c' e V Hi H. unfold astep in H.
  destruct c; cbn [call_of exec] in H; try discriminate.
  - (* AddPod *)
    destruct (mem p (pods w)) eqn:E; inversion H; subst w' c' e; clear H; cbn [next r_ok yes no].
    + frame (AP p).
    + frame (AP p).
  - (* RemovePod: first list *)
    inversion H; subst w' c' e; clear H. cbn [next r_ok r_strs negb].
    destruct (is_nil _); frame (RP_list1 p).
  - (* RemovePod: lock *)
    destruct (holder w (plock p)) eqn:Hh; [discriminate|]. inversion H; subst w' c' e; clear H. right; right.
    apply (inv_lock w pcs tr i (RP_lock p)); auto; try (intros m; cbn; tauto); try (intros; exact I).
  - (* RemovePod: second list *)
    inversion H; subst w' c' e; clear H. cbn [next r_ok r_strs andb].
    destruct (map fst (filter (fun x => String.eqb (snd x) p) (nodes w))) eqn:El; cbn [is_nil].
    + frame (RP_list2 p lk). exists (List.length tr), true. split; [apply ev_at_last|]. left.
      exact (list_pod_nodes_nil w p El).
    + destruct lk; frame (RP_list2 p true) || frame (RP_list2 p false).
  - (* RemovePod: delete *)
    destruct (mem p (pods w)) eqn:E; inversion H; subst w' c' e; clear H; cbn [next r_ok yes no].
    + destruct lk.
      * destruct (inv_delpod w pcs tr i p true (RP_unlock p true) V Hi) as [X|X];
          [intros m; cbn; tauto | intros m; cbn; tauto | intros; exact I | left; exact X | right; right; exact X].
      * destruct (inv_delpod w pcs tr i p false (Done true) V Hi) as [X|X];
          [intros m; cbn; tauto | intros m; cbn; tauto | intros; exact I | left; exact X | right; right; exact X].
    + destruct lk; frame (RP_del p true) || frame (RP_del p false).
  - (* RemovePod: unlock *)
    inversion H; subst w' c' e; clear H. right; right.
    apply (inv_unlock w pcs tr i (RP_unlock p b)); auto; try (intros m; cbn; tauto); try (intros; exact I).
  - (* AddNode: plugin add *)
    destruct (mem n (nres w)) eqn:E; inversion H; subst w' c' e; clear H; cbn [next r_ok yes no negb].
    + frame (AN_padd n p).
    + right; right. apply inv_padd; auto. apply mem_false. exact E.
  - (* AddNode: GetPod *)
    destruct (mem p (pods w)) eqn:E; inversion H; subst w' c' e; clear H; cbn [next r_ok yes no negb].
    + frame (AN_getpod n p). exists (List.length tr). split; [apply ev_at_last | left; apply mem_In; exact E].
    + frame (AN_getpod n p).
  - (* AddNode: create *)
    destruct (i_ownf _ _ (v_own _ _ _ V) _ _ _ Hi eq_refl) as [_ Nn].
    apply mem_false in Nn. rewrite Nn in H. inversion H; subst w' c' e; clear H. cbn [next r_ok yes].
    generalize (inv_create w pcs tr i n p V Hi). cbv zeta. lift1.
  - (* AddNode: rollback *)
    destruct (i_ownf _ _ (v_own _ _ _ V) _ _ _ Hi eq_refl) as [Nr _].
    apply mem_In in Nr. rewrite Nr in H. inversion H; subst w' c' e; clear H. cbn [next]. right; right.
    apply (inv_prm w pcs tr i (AN_rollback n)); auto; try (intros m; cbn; tauto); try reflexivity; try (intros; exact I).
  - (* RemoveNode: first GetNode *)
    destruct (node_pod w n) eqn:E; inversion H; subst w' c' e; clear H; cbn [next r_ok r_strs hd_str no negb].
    + frame (RN_get1 n).
    + frame (RN_get1 n).
  - (* RemoveNode: lock *)
    destruct (holder w (plock p)) eqn:Hh; [discriminate|]. inversion H; subst w' c' e; clear H. right; right.
    apply (inv_lock w pcs tr i (RN_lock n p)); auto; try (intros m; cbn; tauto); try (intros; exact I).
  - (* RemoveNode: second GetNode *)
    destruct (node_pod w n) as [q|] eqn:E; inversion H; subst w' c' e; clear H; cbn [next r_ok r_strs hd_str no negb andb].
    + destruct (String.eqb q p) eqn:E2; cbn [negb].
      * apply String.eqb_eq in E2. subst q. frame (RN_get2 n p). exact E.
      * frame (RN_get2 n p).
    + frame (RN_get2 n p).
  - (* RemoveNode: list workloads *)
    pose proof (v_pc _ _ _ V _ _ Hi) as Q. cbn [assert] in Q.
    destruct (map fst (filter (fun x => String.eqb (snd x) n) (wls w))) eqn:El.
    + inversion H; subst w' c' e; clear H. cbn [next r_ok r_strs andb is_nil].
      frame (RN_list n p). split; [exact Q|]. exists (List.length tr), true. split; [apply ev_at_last|]. left.
      exact (list_node_wls_nil w n El).
    + destruct (mem n (node_names w)); inversion H; subst w' c' e; clear H; cbn [next r_ok r_strs no andb is_nil];
        frame (RN_list n p).
  - (* RemoveNode: status set (result ignored) *)
    pose proof (v_pc _ _ _ V _ _ Hi) as Q. cbn [assert] in Q.
    inversion H; subst w' c' e; clear H. cbn [next]. frame (RN_setst n p).
    destruct Q as [Q1 Q2]. split; [exact Q1 | apply NW_ext; exact Q2].
  - (* RemoveNode: store removal *)
    inversion H; subst w' c' e; clear H. cbn [next r_ok yes negb].
    generalize (inv_rmnode w pcs tr i n p V Hi). lift2.
  - (* RemoveNode: status delete (result ignored) *)
    inversion H; subst w' c' e; clear H. cbn [next]. frame (RN_delst n p).
  - (* RemoveNode: plugin removal *)
    destruct (i_ownf _ _ (v_own _ _ _ V) _ _ _ Hi eq_refl) as [Nr _].
    apply mem_In in Nr. rewrite Nr in H. inversion H; subst w' c' e; clear H. cbn [next r_ok yes]. right; right.
    apply (inv_prm w pcs tr i (RN_prm n p)); auto; try (intros m; cbn; tauto); try reflexivity; try (intros; exact I).
  - (* RemoveNode / create / remove: unlock of the pod lock *)
    inversion H; subst w' c' e; clear H. right; right.
    apply (inv_unlock w pcs tr i (RN_unlock p b)); auto; try (intros m; cbn; tauto); try (intros; exact I).
  - (* create: GetNode *)
    destruct (node_pod w n) eqn:E; inversion H; subst w' c' e; clear H; cbn [next r_ok r_strs hd_str no negb].
    + frame (CR_get1 n id).
    + frame (CR_get1 n id).
  - (* create: lock *)
    destruct (holder w (plock p)) eqn:Hh; [discriminate|]. inversion H; subst w' c' e; clear H. right; right.
    apply (inv_lock w pcs tr i (CR_lock n id p)); auto; try (intros m; cbn; tauto); try (intros; exact I).
  - (* create: capacity *)
    destruct (mem n (nres w)); inversion H; subst w' c' e; clear H; cbn [next r_ok yes no negb]; frame (CR_cap n id p).
  - (* create: alloc *)
    destruct (mem n (nres w)); inversion H; subst w' c' e; clear H; cbn [next r_ok yes no]; frame (CR_alloc n id p).
  - (* create: unlock *)
    inversion H; subst w' c' e; clear H. right; right. cbn [next].
    apply (inv_unlock w pcs tr i (CR_unlock n id p b)); auto; destruct b; cbn [negb]; try (intros m; cbn; tauto); try (intros; exact I).
  - (* create: second GetNode *)
    destruct (node_pod w n) eqn:E; inversion H; subst w' c' e; clear H; cbn [next r_ok r_strs hd_str no negb].
    + frame (CR_get2 n id). exists (List.length tr). split; [apply ev_at_last | left; eapply node_pod_in_names; exact E].
    + frame (CR_get2 n id).
  - (* create: record the workload *)
    inversion H; subst w' c' e; clear H. cbn [next r_ok yes].
    generalize (inv_addwl w pcs tr i n id V Hi). cbv zeta. lift2.
  - (* create: remove the record again (unreachable without failures) *)
    inversion H; subst w' c' e; clear H. cbn [next]. frame (CR_rmwl n id).
  - (* rollback: GetNode *)
    destruct (node_pod w n) eqn:E; inversion H; subst w' c' e; clear H; cbn [next r_ok r_strs hd_str no negb].
    + frame (RB_get n).
    + frame (RB_get n).
  - (* rollback: lock *)
    destruct (holder w (plock p)) eqn:Hh; [discriminate|]. inversion H; subst w' c' e; clear H. right; right.
    apply (inv_lock w pcs tr i (RB_lock n p)); auto; try (intros m; cbn; tauto); try (intros; exact I).
  - (* rollback: give the allocation back *)
    destruct (mem n (nres w)); inversion H; subst w' c' e; clear H; cbn [next]; frame (RB_ralloc n p).
  - (* remove: GetWorkload *)
    destruct (wl_node w id) as [m|]; [destruct (mem m (node_names w))|]; inversion H; subst w' c' e; clear H;
      cbn [next r_ok r_strs hd_str no negb]; frame (RW_getwl1 id).
  - (* remove: GetNode *)
    destruct (node_pod w n) eqn:E; inversion H; subst w' c' e; clear H; cbn [next r_ok r_strs hd_str no negb].
    + frame (RW_getnode id n).
    + frame (RW_getnode id n).
  - (* remove: pod lock *)
    destruct (holder w (plock p)) eqn:Hh; [discriminate|]. inversion H; subst w' c' e; clear H. right; right.
    apply (inv_lock w pcs tr i (RW_lockp id n p)); auto; try (intros m; cbn; tauto); try (intros; exact I).
  - (* remove: GetWorkload under the lock *)
    destruct (wl_node w id) as [m|]; [destruct (mem m (node_names w))|]; inversion H; subst w' c' e; clear H;
      cbn [next r_ok r_strs no negb]; frame (RW_getwl2 id n p).
  - (* remove: workload lock *)
    destruct (holder w (clock id)) eqn:Hh; [discriminate|]. inversion H; subst w' c' e; clear H. right; right.
    apply (inv_lock w pcs tr i (RW_lockc id n p)); auto; try (intros m; cbn; tauto); try (intros; exact I).
  - (* remove: usage *)
    destruct (mem n (nres w)); inversion H; subst w' c' e; clear H; cbn [next r_ok yes no negb]; frame (RW_usage id n p).
  - (* remove: record removed *)
    inversion H; subst w' c' e; clear H. cbn [next r_ok yes]. frame (RW_rm id n p).
  - (* remove: usage restored (unreachable without failures) *)
    destruct (mem n (nres w)); inversion H; subst w' c' e; clear H; cbn [next]; frame (RW_usage2 id n p).
  - (* remove: unlock the workload lock *)
    inversion H; subst w' c' e; clear H. right; right. cbn [next].
    apply (inv_unlock w pcs tr i (RW_fin id p b)); auto; try (intros m; cbn; tauto); try (intros; exact I).
    intro X. cbn in X. discriminate X.
Qed.

(* ---------- from the initial world to every reachable state ---------- *)
Definition J (w : rw) (pcs : list pc) (tr : list ev) : Prop := Ovl tr \/ Ovl2 tr \/ Inv w pcs tr.

Lemma pc0_owns : forall o n, ~ owns (pc0 o) n.
Proof. destruct o; cbn; tauto. Qed.
Lemma pc0_holds : forall o k, ~ holds (pc0 o) k.
Proof. destruct o; cbn; tauto. Qed.
Lemma nth_map_pc0 : forall ops i c, nth_error (map pc0 ops) i = Some c -> exists o, c = pc0 o.
Proof.
  intros ops i c H. rewrite nth_error_map in H. destruct (nth_error ops i) as [o|]; [|discriminate].
  inversion H. exists o. reflexivity.
Qed.

Lemma inv_init : forall w ops, ref_ok w = true -> NoDup (node_names w) -> held w = [] -> Inv w (map pc0 ops) [].
Proof.
  intros w ops Hr Hnd Hh. apply ref_ok_RefP in Hr. destruct Hr as [A B C D]. constructor.
  - constructor; assumption.
  - constructor.
    + intros n H. left. apply C. exact H.
    + intros i c n Hi Ho. exfalso. destruct (nth_map_pc0 _ _ _ Hi) as [o ->]. exact (pc0_owns o n Ho).
    + intros i j ci cj n Hi _ Ho. exfalso. destruct (nth_map_pc0 _ _ _ Hi) as [o ->]. exact (pc0_owns o n Ho).
  - constructor.
    + rewrite Hh. constructor.
    + intros k i. rewrite Hh. split; [intros []|]. intros [c [Hi Ho]]. destruct (nth_map_pc0 _ _ _ Hi) as [o ->].
      exact (pc0_holds o k Ho).
  - intros id t p H. unfold ev_at in H. destruct id; discriminate.
  - intros ir t n H. unfold ev_at in H. destruct ir; discriminate.
  - intros i c Hi. destruct (nth_map_pc0 _ _ _ Hi) as [o ->]. destruct o; exact I.
Qed.

Lemma threads_R : forall ops, Forall2 R (mk_threads (map (fun o => (rop_of o, None)) ops)) (map pc0 ops).
Proof.
  induction ops as [|o t IH]; simpl; constructor; [|exact IH].
  split; [apply prog_at_pc0 | reflexivity].
Qed.

Lemma run_sched_J : forall sched w ts acc pcs w' ts' out, Forall2 R ts pcs -> J w pcs (rev acc) ->
  run_sched w ts sched acc = (w', ts', out) -> exists pcs', Forall2 R ts' pcs' /\ J w' pcs' out.
Proof.
  induction sched as [|i rest IH]; intros w ts acc pcs w' ts' out F Hj H; cbn [run_sched] in H.
  - inversion H; subst. exists pcs. split; assumption.
  - destruct (nth_error ts i) as [t|] eqn:Et; [|eapply IH; eauto].
    destruct (Forall2_nth _ _ _ _ _ F Et) as [c [Hc Rc]].
    pose proof (step_refines w i t c Rc) as S.
    destruct (step_thread w i t) as [[[w1 t1] e]|]; [|eapply IH; eauto].
    destruct S as [c1 [Ha R1]].
    eapply (IH w1 (set_nth i t1 ts) (e :: acc) (set_nth i c1 pcs)); [apply Forall2_set_nth; assumption | | exact H].
    cbn [rev]. destruct Hj as [Hw|[Hw|Hv]]; [left; apply Ovl_ext; exact Hw | right; left; apply Ovl2_ext; exact Hw|].
    exact (inv_astep _ _ _ _ _ _ _ _ Hv Hc Ha).
Qed.

Lemma prog_at_ret : forall c b, prog_at c = Ret b -> c = Done b.
Proof. destruct c; intros b0 H; try discriminate H. inversion H. reflexivity. Qed.

Lemma finished_done : forall ts pcs, Forall2 R ts pcs -> forallb finished ts = true ->
  forall i c, nth_error pcs i = Some c -> exists b, c = Done b.
Proof.
  intros ts pcs F. induction F as [|t c0 ts pcs [Hp _] F IH]; intros Hf i c Hi; [destruct i; discriminate|].
  cbn [forallb] in Hf. apply andb_true_iff in Hf. destruct Hf as [Hf1 Hf2]. destruct i.
  - inversion Hi; subst. unfold finished in Hf1. destruct (t_prog t) eqn:E; [|discriminate].
    exists ok. apply prog_at_ret. congruence.
  - eapply IH; eauto.
Qed.

(* Ref at a quiescent end *)
Lemma inv_quiescent : forall w pcs tr, Inv w pcs tr -> (forall i c, nth_error pcs i = Some c -> exists b, c = Done b) ->
  ref_ok w = true.
Proof.
  intros w pcs tr [[A B C D] Ow _ _ _] Hd. apply ref_ok_RefP. constructor; try assumption.
  intros n H. destruct (i_own _ _ Ow n H) as [L|[i [c [Hi Ho]]]]; [exact L|].
  destruct (Hd _ _ Hi) as [b ->]. contradiction.
Qed.

(* THE GENERAL THEOREM: any world with Ref (distinct node names, no lock held),
   any number of AddPod / RemovePod / AddNode / RemoveNode / create / remove
   operations with any names, any schedule: when all operations have finished,
   Ref holds or the trace contains one of the two check-then-act overlaps. *)
Theorem general_quiescent : forall w ops sched w' ts' tr,
  ref_ok w = true -> NoDup (node_names w) -> held w = [] ->
  run_sched w (mk_threads (map (fun o => (rop_of o, None)) ops)) sched [] = (w', ts', tr) ->
  forallb finished ts' = true ->
  ref_ok w' = true \/ window_addnode_removepod tr = true \/ window_create_removenode tr = true.
Proof.
  intros w ops sched w' ts' tr Hr Hnd Hh Hrun Hfin.
  destruct (run_sched_J sched w _ [] (map pc0 ops) w' ts' tr (threads_R ops)
              (or_intror (or_intror (inv_init w ops Hr Hnd Hh))) Hrun) as [pcs' [F [Hw|[Hw|Hv]]]].
  - right. left. apply Ovl_window. exact Hw.
  - right. right. apply Ovl2_window. exact Hw.
  - left. eapply inv_quiescent; [exact Hv|]. eapply finished_done; eauto.
Qed.

(* ... and at EVERY reachable state, finished or not: every node's pod exists,
   every node has its resource record, every workload's node exists - or one
   of the overlaps has happened. *)
Theorem general_always : forall w ops sched w' ts' tr,
  ref_ok w = true -> NoDup (node_names w) -> held w = [] ->
  run_sched w (mk_threads (map (fun o => (rop_of o, None)) ops)) sched [] = (w', ts', tr) ->
  window_addnode_removepod tr = true \/ window_create_removenode tr = true \/
  ((forall n p, In (n, p) (nodes w') -> In p (pods w')) /\
   (forall n p, In (n, p) (nodes w') -> In n (nres w')) /\
   (forall id n, In (id, n) (wls w') -> In n (node_names w'))).
Proof.
  intros w ops sched w' ts' tr Hr Hnd Hh Hrun.
  destruct (run_sched_J sched w _ [] (map pc0 ops) w' ts' tr (threads_R ops)
              (or_intror (or_intror (inv_init w ops Hr Hnd Hh))) Hrun) as [pcs' [F [Hw|[Hw|Hv]]]].
  - left. apply Ovl_window. exact Hw.
  - right. left. apply Ovl2_window. exact Hw.
  - right. right. destruct Hv as [[A B C D] _ _ _ _ _]. repeat split; assumption.
Qed.

(* ---------- no deadlock, in general ---------- *)
Lemma Forall2_nth_r : forall {A B} (P : A -> B -> Prop) l1 l2 i b, Forall2 P l1 l2 -> nth_error l2 i = Some b ->
  exists a, nth_error l1 i = Some a /\ P a b.
Proof.
  intros A B P l1 l2 i b F. revert i. induction F as [|x y l l' Hxy F IHF]; intros i Hn; destruct i; simpl in *; try discriminate.
  - inversion Hn; subst. eexists; split; [reflexivity | assumption].
  - apply IHF. exact Hn.
Qed.
Lemma exec_total : forall w i c, (forall k, c <> CLock k) -> exec w i c <> None.
Proof. intros w i c H. destruct c; cbn; try discriminate. exfalso. exact (H k eq_refl). Qed.
Lemma clock_holder_free : forall c id, holds c (clock id) -> exists call, call_of c = Some call /\ forall k', call <> CLock k'.
Proof.
  destruct c; cbn; intros id0 H; try contradiction; try (destruct lk; [|contradiction]);
    try (exfalso; discriminate H);
    eexists; (split; [reflexivity | intros k'; discriminate]).
Qed.
(* a thread that holds a key and asks for another one asks for a workload lock *)
Lemma holder_asks_clock : forall c k k2, holds c k -> call_of c = Some (CLock k2) -> exists id, k2 = clock id.
Proof.
  destruct c; cbn; intros k k2 H E; try contradiction; try (destruct lk; [|contradiction]); try discriminate E.
  inversion E. eexists. reflexivity.
Qed.
Lemma enabled_in : forall w ts i t s, nth_error ts i = Some t -> step_thread w i t = Some s -> enabled_steps w ts <> [].
Proof.
  intros w ts i t s Hn Hs E.
  assert (X : In (i, s) (enabled_steps w ts)).
  { unfold enabled_steps. apply in_flat_map. exists i. split.
    - apply in_seq. split; [lia|]. simpl. apply nth_error_Some. congruence.
    - rewrite Hn, Hs. left. reflexivity. }
  rewrite E in X. exact X.
Qed.
Lemma astep_enabled : forall w ts pcs i c, Forall2 R ts pcs -> nth_error pcs i = Some c -> astep w i c <> None ->
  enabled_steps w ts <> [].
Proof.
  intros w ts pcs i c F Hi Ha. destruct (Forall2_nth_r _ _ _ _ _ F Hi) as [t [Ht Rt]].
  pose proof (step_refines w i t c Rt) as S. destruct (step_thread w i t) as [s|] eqn:E; [|contradiction].
  eapply enabled_in; eauto.
Qed.

Lemma waiting_on : forall w i c, astep w i c = None -> (exists b, c = Done b) \/
  exists k h, call_of c = Some (CLock k) /\ In (k, h) (held w).
Proof.
  intros w i c Ea. unfold astep in Ea. destruct (call_of c) as [call|] eqn:Ec.
  - right. destruct (exec w i call) as [[w1 r]|] eqn:Ee; [discriminate|].
    assert (L : exists k, call = CLock k).
    { destruct call; cbn in Ee; try discriminate. exists k. reflexivity. }
    destruct L as [k ->]. cbn in Ee. destruct (holder w k) as [j|] eqn:Hh; [|discriminate].
    unfold holder in Hh. destruct (find (fun x => String.eqb (fst x) k) (held w)) as [[k' j']|] eqn:Hfind; [|discriminate].
    apply find_some in Hfind. destruct Hfind as [Hin Hk]. cbn in Hk. apply String.eqb_eq in Hk. subst k'.
    exists k, j'. split; [reflexivity | exact Hin].
  - left. destruct c; cbn in Ec; try discriminate. eexists. reflexivity.
Qed.

Lemma free_call_steps : forall w j c call, call_of c = Some call -> (forall k', call <> CLock k') -> astep w j c <> None.
Proof.
  intros w j c call Hc Hn. unfold astep. rewrite Hc. pose proof (exec_total w j call Hn) as T.
  destruct (exec w j call) as [[w2 r2]|]; [discriminate | contradiction].
Qed.

Lemma inv_progress : forall w ts pcs tr, Forall2 R ts pcs -> Inv w pcs tr ->
  forallb finished ts = true \/ enabled_steps w ts <> [].
Proof.
  intros w ts pcs tr F V. destruct (forallb finished ts) eqn:Ef; [left; reflexivity | right].
  assert (X : exists i t, nth_error ts i = Some t /\ finished t = false).
  { clear F V. induction ts as [|t ts IH]; [discriminate|]. cbn [forallb] in Ef. destruct (finished t) eqn:E.
    - destruct (IH Ef) as [i [t' [H1 H2]]]. exists (S i), t'. split; assumption.
    - exists 0, t. split; [reflexivity | exact E]. }
  destruct X as [i [t [Ht Hf]]]. destruct (Forall2_nth _ _ _ _ _ F Ht) as [c [Hc [Hp _]]].
  destruct (astep w i c) as [s|] eqn:Ea; [eapply astep_enabled; eauto; congruence|].
  destruct (waiting_on _ _ _ Ea) as [[b0 ->]|(k & j & Hcall & Hin)].
  { exfalso. unfold finished in Hf. rewrite Hp in Hf. cbn in Hf. discriminate. }
  (* the thread waits for k; its holder j moves, or waits for a workload lock whose holder moves *)
  apply (i_held _ _ (v_lock _ _ _ V)) in Hin. destruct Hin as [cj [Hj Hh]].
  destruct (astep w j cj) as [s|] eqn:Eb; [eapply (astep_enabled w ts pcs j cj); eauto; congruence|].
  destruct (waiting_on _ _ _ Eb) as [[b0 ->]|(k2 & h & Hcall2 & Hin2)]; [cbn in Hh; contradiction|].
  destruct (holder_asks_clock _ _ _ Hh Hcall2) as [id ->].
  apply (i_held _ _ (v_lock _ _ _ V)) in Hin2. destruct Hin2 as [ch [Hhn Hhh]].
  destruct (clock_holder_free _ _ Hhh) as [cl [Hcl Hnl]].
  eapply (astep_enabled w ts pcs h ch); eauto. eapply free_call_steps; eauto.
Qed.

(* no reachable state is a deadlock (unless an overlap has happened, after
   which nothing is claimed) *)
Theorem general_no_deadlock : forall w ops sched w' ts' tr,
  ref_ok w = true -> NoDup (node_names w) -> held w = [] ->
  run_sched w (mk_threads (map (fun o => (rop_of o, None)) ops)) sched [] = (w', ts', tr) ->
  window_addnode_removepod tr = true \/ window_create_removenode tr = true \/
  forallb finished ts' = true \/ enabled_steps w' ts' <> [].
Proof.
  intros w ops sched w' ts' tr Hr Hnd Hh Hrun.
  destruct (run_sched_J sched w _ [] (map pc0 ops) w' ts' tr (threads_R ops)
              (or_intror (or_intror (inv_init w ops Hr Hnd Hh))) Hrun) as [pcs' [F [Hw|[Hw|Hv]]]].
  - left. apply Ovl_window. exact Hw.
  - right. left. apply Ovl2_window. exact Hw.
  - right. right. eapply inv_progress; eauto.
Qed.
