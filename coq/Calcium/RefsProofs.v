(* Proofs for C22.
   - the full statement is false of the faithful model: three witnesses
     (AddNode || RemovePod, create || RemoveNode, RemoveNode with a failing
     plugin removal);
   - [explore] is a sound decision procedure for "every interleaving of these
     threads from this world ends quiescent with a good verdict";
   - with it: over the stated universe of worlds and operations, EVERY
     interleaving of every pair of operations (and every single operation with
     every placement of one injected failure) either preserves Ref or contains
     one of the named windows. *)
From Coq Require Import List Bool String Arith Lia.
From Verif Require Import Calcium.Refs.
Import ListNotations.
Local Open Scope string_scope.

(* ---------- soundness of the exhaustive exploration ---------- *)
Lemma finished_no_step : forall w i t, finished t = true -> step_thread w i t = None.
Proof. intros w i t H. unfold finished in H. unfold step_thread. destruct (t_prog t); [reflexivity | discriminate]. Qed.

Lemma run_sched_finished : forall sched w ts tr, forallb finished ts = true ->
  run_sched w ts sched tr = (w, ts, rev tr).
Proof.
  induction sched as [|i rest IH]; intros w ts tr H; simpl; [reflexivity|].
  destruct (nth_error ts i) as [t|] eqn:E; [|apply IH; exact H].
  rewrite finished_no_step; [apply IH; exact H|].
  rewrite forallb_forall in H. apply H. eapply nth_error_In. exact E.
Qed.

Lemma in_enabled : forall w ts i t s, nth_error ts i = Some t -> step_thread w i t = Some s ->
  In (i, s) (enabled_steps w ts).
Proof.
  intros w ts i t s E S. unfold enabled_steps. apply in_flat_map. exists i. split.
  - apply in_seq. split; [lia|]. simpl. apply nth_error_Some. rewrite E. discriminate.
  - rewrite E, S. left. reflexivity.
Qed.

Theorem explore_sound : forall fuel good w ts tr, explore fuel good w ts tr = true ->
  forall sched w' ts' tr', run_sched w ts sched tr = (w', ts', tr') ->
  forallb finished ts' = true -> good w' tr' = true.
Proof.
  induction fuel as [|f IH]; intros good w ts tr H sched; [discriminate|].
  cbn [explore] in H. destruct (forallb finished ts) eqn:Fin.
  - intros w' ts' tr' R _. rewrite run_sched_finished in R by exact Fin. inversion R; subst. exact H.
  - induction sched as [|i rest IHs]; intros w' ts' tr' R F'.
    + simpl in R. inversion R; subst. congruence.
    + simpl in R. destruct (nth_error ts i) as [t|] eqn:E; [|eapply IHs; eauto].
      destruct (step_thread w i t) as [[[w1 t1] e]|] eqn:S; [|eapply IHs; eauto].
      pose proof (in_enabled _ _ _ _ _ E S) as Hin.
      destruct (enabled_steps w ts) as [|s0 steps] eqn:En; [destruct Hin|].
      rewrite forallb_forall in H. specialize (H _ Hin). cbn beta iota in H.
      eapply IH; eauto.
Qed.

(* no interleaving gets stuck before every thread finished *)
Theorem explore_no_deadlock : forall fuel good w ts tr, explore fuel good w ts tr = true ->
  forall sched w' ts' tr', run_sched w ts sched tr = (w', ts', tr') ->
  forallb finished ts' = true \/ enabled_steps w' ts' <> [].
Proof.
  induction fuel as [|f IH]; intros good w ts tr H sched; [discriminate|].
  cbn [explore] in H. destruct (forallb finished ts) eqn:Fin.
  - intros w' ts' tr' R. rewrite run_sched_finished in R by exact Fin. inversion R; subst. left. exact Fin.
  - induction sched as [|i rest IHs]; intros w' ts' tr' R.
    + simpl in R. inversion R; subst. right. destruct (enabled_steps w' ts'); [discriminate | discriminate].
    + simpl in R. destruct (nth_error ts i) as [t|] eqn:E; [|eapply IHs; eauto].
      destruct (step_thread w i t) as [[[w1 t1] e]|] eqn:S; [|eapply IHs; eauto].
      pose proof (in_enabled _ _ _ _ _ E S) as Hin.
      destruct (enabled_steps w ts) as [|s0 steps] eqn:En; [destruct Hin|].
      rewrite forallb_forall in H. specialize (H _ Hin). cbn beta iota in H.
      eapply IH; eauto.
Qed.

(* ---------- the universe of the bounded theorems ---------- *)
Definition W0 := mkRw [] [] [] [] [].
Definition W1 := mkRw ["p"] [] [] [] [].
Definition W2 := mkRw ["p"] [("n", "p")] ["n"] [] [].
Definition W3 := mkRw ["p"] [("n", "p")] ["n"] [("w", "n")] [].
Definition W4 := mkRw ["p"; "q"] [("n", "p"); ("m", "q")] ["n"; "m"] [("w", "n")] [].
Definition u_worlds : list rw := [W0; W1; W2; W3; W4].
Definition u_ops : list rop :=
  [OAddPod "p"; ORemovePod "p"; OAddNode "n" "p"; OAddNode "m" "p"; ORemoveNode "n";
   OCreate "n" "x"; OCreate "n" "y"; ORemoveWl "w"].

Lemma u_worlds_ref : forallb ref_ok u_worlds = true.
Proof. vm_compute. reflexivity. Qed.

Definition verdict2 (w : rw) (tr : list ev) : bool :=
  ref_ok w || window_addnode_removepod tr || window_create_removenode tr.
Definition check_pairs : bool :=
  forallb (fun w => forallb (fun a => forallb (fun b =>
     explore 64 verdict2 w (mk_threads [(a, None); (b, None)]) []) u_ops) u_ops) u_worlds.
Lemma check_pairs_ok : check_pairs = true.
Proof. vm_compute. reflexivity. Qed.

Definition fault_opts : list (option nat) := None :: map Some (seq 0 10).
(* in isolation and without faults Ref itself is preserved (no window can occur) *)
Definition check_isolation : bool :=
  forallb (fun w => forallb (fun a =>
     explore 64 (fun w' _ => ref_ok w') w (mk_threads [(a, None)]) []) u_ops) u_worlds.
Lemma check_isolation_ok : check_isolation = true.
Proof. vm_compute. reflexivity. Qed.

(* single faults: everything but RemoveNode's plugin step (and a failing compensation of AddNode) preserves Ref *)
Definition check_single_fault_ref : bool :=
  forallb (fun w => forallb (fun a => forallb (fun fl =>
     explore 64 (fun w' tr => ref_ok w' || fault_removenode_plugin tr || addnode_rollback_failed tr) w (mk_threads [(a, fl)]) []) fault_opts) u_ops) u_worlds.
Lemma check_single_fault_ref_ok : check_single_fault_ref = true.
Proof. vm_compute. reflexivity. Qed.

Lemma forallb_In : forall {A} (f : A -> bool) l x, forallb f l = true -> In x l -> f x = true.
Proof. intros A f l x H Hin. rewrite forallb_forall in H. apply H. exact Hin. Qed.

Theorem pairs_partial : forall w a b sched w' ts' tr',
  In w u_worlds -> In a u_ops -> In b u_ops ->
  run_sched w (mk_threads [(a, None); (b, None)]) sched [] = (w', ts', tr') ->
  (forallb finished ts' = true \/ enabled_steps w' ts' <> []) /\
  (forallb finished ts' = true ->
   ref_ok w' = true \/ window_addnode_removepod tr' = true \/ window_create_removenode tr' = true).
Proof.
  intros w a b sched w' ts' tr' Hw Ha Hb R.
  assert (E : explore 64 verdict2 w (mk_threads [(a, None); (b, None)]) [] = true).
  { pose proof check_pairs_ok as C. unfold check_pairs in C.
    pose proof (forallb_In _ _ _ C Hw) as C1. cbv beta in C1.
    pose proof (forallb_In _ _ _ C1 Ha) as C2. cbv beta in C2.
    exact (forallb_In _ _ _ C2 Hb). }
  split; [eapply explore_no_deadlock; eauto|].
  intros F. pose proof (explore_sound _ _ _ _ _ E _ _ _ _ R F) as V. unfold verdict2 in V.
  apply orb_true_iff in V. destruct V as [V|V]; [|right; right; exact V].
  apply orb_true_iff in V. destruct V as [V|V]; [left; exact V | right; left; exact V].
Qed.

Theorem isolation_partial : forall w a sched w' ts' tr',
  In w u_worlds -> In a u_ops ->
  run_sched w (mk_threads [(a, None)]) sched [] = (w', ts', tr') ->
  forallb finished ts' = true -> ref_ok w' = true.
Proof.
  intros w a sched w' ts' tr' Hw Ha R F.
  assert (E : explore 64 (fun w' _ => ref_ok w') w (mk_threads [(a, None)]) [] = true).
  { pose proof check_isolation_ok as C. unfold check_isolation in C.
    pose proof (forallb_In _ _ _ C Hw) as C1. cbv beta in C1. exact (forallb_In _ _ _ C1 Ha). }
  exact (explore_sound _ _ _ _ _ E _ _ _ _ R F).
Qed.

Theorem single_fault_partial : forall w a fl sched w' ts' tr',
  In w u_worlds -> In a u_ops -> In fl fault_opts ->
  run_sched w (mk_threads [(a, fl)]) sched [] = (w', ts', tr') ->
  forallb finished ts' = true ->
  ref_ok w' = true \/ fault_removenode_plugin tr' = true \/ addnode_rollback_failed tr' = true.
Proof.
  intros w a fl sched w' ts' tr' Hw Ha Hf R F.
  assert (E : explore 64 (fun w' tr => ref_ok w' || fault_removenode_plugin tr || addnode_rollback_failed tr) w (mk_threads [(a, fl)]) [] = true).
  { pose proof check_single_fault_ref_ok as C. unfold check_single_fault_ref in C.
    pose proof (forallb_In _ _ _ C Hw) as C1. cbv beta in C1.
    pose proof (forallb_In _ _ _ C1 Ha) as C2. cbv beta in C2. exact (forallb_In _ _ _ C2 Hf). }
  pose proof (explore_sound _ _ _ _ _ E _ _ _ _ R F) as V. cbn beta in V.
  apply orb_true_iff in V. destruct V as [V|V]; [|right; right; exact V].
  apply orb_true_iff in V. destruct V as [V|V]; [left; exact V | right; left; exact V].
Qed.

(* ---------- the refutations ---------- *)
Definition quiescent_bad (w : rw) (ops : list (rop * option nat)) (sched : list nat) : Prop :=
  ref_ok w = true /\
  let '(w', ts', _) := run_sched w (mk_threads ops) sched [] in
  forallb finished ts' = true /\ ref_ok w' = false.

(* AddNode takes no pod lock: GetPod ok || RemovePod sees no node and deletes || node keys created *)
Theorem refuted_addnode_removepod :
  quiescent_bad W1 [(OAddNode "n" "p", None); (ORemovePod "p", None)] [0; 0; 1; 1; 1; 0].
Proof. vm_compute. repeat split. Qed.

(* create records the workload after the pod lock is released: RemoveNode finds the node empty and removes it *)
Theorem refuted_create_removenode :
  quiescent_bad W2 [(OCreate "n" "x", None); (ORemoveNode "n", None)] [0; 0; 0; 0; 0; 0; 1; 1; 1; 1; 1; 1; 1; 1; 1; 0].
Proof. vm_compute. repeat split. Qed.

(* ... after which listing the workloads of the application fails (GetWorkloads cannot bind the node) *)
Example dangling_workload_unlistable :
  let '(w', _, _) := run_sched W2 (mk_threads [(OCreate "n" "x", None); (ORemoveNode "n", None)])
                       [0; 0; 0; 0; 0; 0; 1; 1; 1; 1; 1; 1; 1; 1; 1; 0] [] in
  match exec w' 0 (CGetWl "x") with Some (_, r) => r_ok r = false | None => False end.
Proof. vm_compute. reflexivity. Qed.

(* single injected failure: RemoveNode's plugin removal fails after the store record is gone *)
Theorem refuted_removenode_fault :
  quiescent_bad W2 [(ORemoveNode "n", Some 6)] [0; 0; 0; 0; 0; 0; 0; 0; 0; 0; 0].
Proof. vm_compute. repeat split. Qed.

(* the three-operation race found by exploring triples (a RemoveNode acting on
   the record it fetched BEFORE taking the pod lock removed the plugin record of
   a concurrently re-added node) is closed by the repair: the same schedule now
   ends in a consistent world *)
Example stale_removenode_closed :
  let '(w', ts', _) := run_sched W2 (mk_threads [(OAddNode "n" "p", None); (ORemoveNode "n", None); (ORemoveNode "n", None)])
                         [2; 1; 1; 1; 1; 1; 1; 1; 1; 1; 0; 2; 2; 2; 2; 2; 0; 0] [] in
  forallb finished ts' = true /\ ref_ok w' = true.
Proof. vm_compute. split; reflexivity. Qed.

(* all TRIPLES of pod / node operations: after the repair of RemoveNode every bad
   quiescent end is explained by the AddNode||RemovePod window alone *)
Definition t_ops : list rop := [OAddPod "p"; ORemovePod "p"; OAddNode "n" "p"; ORemoveNode "n"].
Definition t_worlds : list rw := [W1; W2].
Definition check_triples : bool :=
  forallb (fun w => forallb (fun a => forallb (fun b => forallb (fun c =>
     explore 64 verdict2 w (mk_threads [(a, None); (b, None); (c, None)]) []) t_ops) t_ops) t_ops) t_worlds.
Lemma check_triples_ok : check_triples = true.
Proof. vm_compute. reflexivity. Qed.

Theorem triples_partial : forall w a b c sched w' ts' tr',
  In w t_worlds -> In a t_ops -> In b t_ops -> In c t_ops ->
  run_sched w (mk_threads [(a, None); (b, None); (c, None)]) sched [] = (w', ts', tr') ->
  (forallb finished ts' = true \/ enabled_steps w' ts' <> []) /\
  (forallb finished ts' = true ->
   ref_ok w' = true \/ window_addnode_removepod tr' = true \/ window_create_removenode tr' = true).
Proof.
  intros w a b c sched w' ts' tr' Hw Ha Hb Hc R.
  assert (E : explore 64 verdict2 w (mk_threads [(a, None); (b, None); (c, None)]) [] = true).
  { pose proof check_triples_ok as C. unfold check_triples in C.
    pose proof (forallb_In _ _ _ C Hw) as C1. cbv beta in C1.
    pose proof (forallb_In _ _ _ C1 Ha) as C2. cbv beta in C2.
    pose proof (forallb_In _ _ _ C2 Hb) as C3. cbv beta in C3.
    exact (forallb_In _ _ _ C3 Hc). }
  split; [exact (explore_no_deadlock _ _ _ _ _ E _ _ _ _ R)|].
  intros F. pose proof (explore_sound _ _ _ _ _ E _ _ _ _ R F) as V. unfold verdict2 in V.
  apply orb_true_iff in V. destruct V as [V|V]; [|right; right; exact V].
  apply orb_true_iff in V. destruct V as [V|V]; [left; exact V | right; left; exact V].
Qed.
